/-
Bridging lemmas between the model of linker/validate.go (PCV.Model.OptValidate) and the declarative
protoc reference (PCV.Spec.OptValidate): every group of reference rules is violated exactly when
the corresponding piece of the model reports something.
-/
import PCV.Lemmas.OptValidate
namespace PCV.OptValidate
open PCV.OptValidate.Spec

/-! ## the notions coincide -/

def kindToP : Kind → PType
  | .scalar s => .scalar s | .enum => .enum | .message => .message | .group => .group

theorem isEditionFile_eq (f : File) : isEditionFile f = f.isEditions := rfl

theorem featMsgEnc_eq (f : File) (v : FieldView) : featMsgEnc f v = resolvedMsgEnc f v := by
  unfold featMsgEnc resolvedMsgEnc
  cases v.opts.msgEnc <;> cases f.msgEnc <;> rfl

theorem ptype_eq (f : File) (v : FieldView) : ptype f v = kindToP (kind f v) := by
  unfold ptype kind
  rw [isEditionFile_eq, featMsgEnc_eq]
  cases v.ty <;> simp only [kindToP]
  split <;> rfl

theorem isRep_eq (v : FieldView) : isRep v = v.isRepeated := rfl

theorem isMessageTyped_eq (v : FieldView) : isMessageTyped v = v.ty.hasMessage := by
  unfold isMessageTyped FType.hasMessage
  cases v.ty <;> rfl

theorem inOneof_eq (f : File) (v : FieldView) : Spec.inOneof f v = v.inOneof f := rfl

theorem featPresence_eq (f : File) (v : FieldView) : featPresence f v = resolvedPresence f v := by
  unfold featPresence resolvedPresence
  cases f.syn <;> simp only <;> cases v.opts.presence <;> cases f.presence <;> rfl

theorem kind_msg_or_group (f : File) (v : FieldView) (h : v.isRepeated = false) :
    (kind f v == .message || kind f v == .group) = v.ty.hasMessage := by
  unfold kind FType.hasMessage
  cases hty : v.ty with
  | scalar s => simp
  | enum r => simp
  | group => simp
  | map k w => simp
  | message r => simp only; split <;> simp

theorem hasPresenceP_eq (f : File) (v : FieldView) : hasPresenceP f v = hasPresence f v := by
  unfold hasPresenceP hasPresence
  rw [isRep_eq, isMessageTyped_eq, inOneof_eq, featPresence_eq]
  by_cases hr : v.isRepeated = true
  · simp [hr]
  · have hr' : v.isRepeated = false := by simpa using hr
    have hk := kind_msg_or_group f v hr'
    simp only [hr', Bool.not_false, Bool.true_and, Bool.false_eq_true, if_false]
    cases hm : v.ty.hasMessage <;> cases he : v.isExt <;> cases ho : v.inOneof f <;>
      cases hp : resolvedPresence f v <;> simp_all

theorem enumClosedP_eq (fs : Files) (r : Ref) : enumClosedP fs r = enumClosed fs r := by
  unfold enumClosedP enumClosed
  cases fs[r.file]? with
  | none => rfl
  | some f =>
    simp only
    cases f.syn <;> simp only
    all_goals (cases h : f.enums[r.idx]? with
      | none => simp [h]
      | some o => cases o <;> simp [h])

theorem packable_eq (f : File) (v : FieldView) : packableType (ptype f v) = !v.ty.unpackableProtoType := by
  rw [ptype_eq]
  unfold kind FType.unpackableProtoType
  cases hty : v.ty with
  | scalar s => cases s <;> rfl
  | enum r => rfl
  | group => rfl
  | map k w => rfl
  | message r => simp only; split <;> rfl

theorem canPack_eq (f : File) (v : FieldView) : packableType (ptype f v) = (kind f v).canPack := by
  rw [ptype_eq]
  cases kind f v with
  | scalar s => cases s <;> rfl
  | enum => rfl
  | message => rfl
  | group => rfl

theorem is64_eq (f : File) (v : FieldView) : is64 (ptype f v) = (kind f v).is64BitInt := by
  rw [ptype_eq]
  cases kind f v with
  | scalar s => cases s <;> rfl
  | enum => rfl
  | message => rfl
  | group => rfl

theorem ptype_message_iff (f : File) (v : FieldView) : ptype f v = .message ↔ kind f v = .message := by
  rw [ptype_eq]
  cases kind f v <;> simp [kindToP]

/-! ## rule lists -/

/-- no rule of the list is violated -/
def NoneViolated (rs : List Rule) : Prop := ∀ r ∈ rs, r.2 = false

theorem violated_nil_iff (rs : List Rule) : violated rs = [] ↔ NoneViolated rs := by
  unfold violated NoneViolated
  simp [List.filter_eq_nil_iff]

theorem noneViolated_append (a b : List Rule) : NoneViolated (a ++ b) ↔ NoneViolated a ∧ NoneViolated b := by
  unfold NoneViolated
  simp only [List.mem_append]
  constructor
  · intro h; exact ⟨fun r hr => h r (Or.inl hr), fun r hr => h r (Or.inr hr)⟩
  · rintro ⟨h1, h2⟩ r (hr | hr)
    · exact h1 r hr
    · exact h2 r hr

theorem noneViolated_flatMap {α : Type} (l : List α) (g : α → List Rule) :
    NoneViolated (l.flatMap g) ↔ ∀ a ∈ l, NoneViolated (g a) := by
  unfold NoneViolated
  simp only [List.mem_flatMap]
  constructor
  · intro h a ha r hr; exact h r ⟨a, ha, hr⟩
  · rintro h r ⟨a, ha, hr⟩; exact h a ha r hr

/-! ## one field -/

theorem packedErrs_nil (f : File) (v : FieldView) (hpre : (v.opts.packed.isSome && f.isEditions) = false) :
    packedErrs f v = [] ↔ (v.opts.packed == some true && !(isRep v && packableType (ptype f v))) = false := by
  unfold packedErrs
  rw [packable_eq, isRep_eq]
  simp only [hpre, errIf, Bool.false_eq_true, if_false, List.nil_append]
  by_cases hp : v.opts.packed = some true
  · by_cases hr : v.isRepeated = true <;> by_cases hu : v.ty.unpackableProtoType = true <;>
      by_cases hl : v.label = .none <;> simp [hp, hr, hu, hl]
  · simp [hp]

theorem closedEnumErrs_nil (fs : Files) (f : File) (v : FieldView) :
    closedEnumErrs fs f v = [] ↔
      (match v.ty with
       | .enum r => !isRep v && !hasPresenceP f v && enumClosedP fs r
       | _ => false) = false := by
  unfold closedEnumErrs
  cases hty : v.ty with
  | enum r =>
    simp only [errIf_eq_nil, hasPresenceP_eq, enumClosedP_eq, isRep_eq, FieldView.isRepeated, hty, FType.isMap,
      Bool.or_false]
  | scalar s => simp [hty]
  | message r => simp [hty]
  | group => simp [hty]
  | map k w => simp [hty]

theorem lazyErrs_nil (f : File) (v : FieldView) :
    lazyErrs f v = [] ↔
      ((v.opts.lazy == some true || v.opts.unverifiedLazy == some true) && ptype f v != .message) = false := by
  unfold lazyErrs
  have : (ptype f v != .message) = (kind f v != .message) := by
    rw [ptype_eq]; cases kind f v <;> rfl
  rw [this]
  split <;> simp_all

theorem jstypeErrs_nil (f : File) (v : FieldView) :
    jstypeErrs f v = [] ↔
      ((v.opts.jstype == some .string || v.opts.jstype == some .number) && !is64 (ptype f v)) = false := by
  unfold jstypeErrs
  rw [is64_eq]
  cases hj : v.opts.jstype with
  | none => simp
  | some j => cases j <;> simp [errIf_eq_nil]

theorem presenceErrs_nil (f : File) (v : FieldView) :
    presenceErrs f v = [] ↔
      (v.opts.presence.isSome &&
        (Spec.inOneof f v || isRep v || v.isExt || (isMessageTyped v && v.opts.presence == some .implicit))) = false := by
  unfold presenceErrs
  rw [inOneof_eq, isRep_eq, isMessageTyped_eq]
  cases hp : v.opts.presence with
  | none => simp
  | some p =>
    by_cases h1 : v.inOneof f = true <;> by_cases h2 : v.isRepeated = true <;> by_cases h3 : v.isExt = true <;>
      simp [h1, h2, h3, errIf_eq_nil]

theorem rencErrs_nil (f : File) (v : FieldView) :
    rencErrs f v = [] ↔
      (v.opts.repEnc.isSome && (!isRep v || (v.opts.repEnc == some .packed && !packableType (ptype f v)))) = false := by
  unfold rencErrs
  rw [isRep_eq, canPack_eq]
  cases hp : v.opts.repEnc with
  | none => simp
  | some e =>
    by_cases h2 : v.isRepeated = true
    · cases e <;> simp [h2, errIf_eq_nil]
    · simp [h2]

theorem utf8Errs_nil (f : File) (v : FieldView) :
    utf8Errs f v = [] ↔
      (v.opts.utf8.isSome &&
        (match v.ty with
         | .map k val => !(k == .string || val == .scalar .string)
         | t => t != .scalar .string)) = false := by
  unfold utf8Errs
  cases hp : v.opts.utf8 with
  | none => simp
  | some u =>
    simp only [errIf_eq_nil, Option.isSome_some, Bool.true_and]
    unfold kind
    cases hty : v.ty with
    | scalar s => cases s <;> simp [FType.isMap]
    | enum r => simp [FType.isMap]
    | group => simp [FType.isMap]
    | message r => simp only [FType.isMap]; split <;> simp
    | map k w =>
      cases k <;> cases w <;> simp [FType.isMap, mapKeyIsString, mapValIsString]
      all_goals (rename_i s; cases s <;> simp)

theorem mencErrs_nil (v : FieldView) :
    mencErrs v = [] ↔
      (v.opts.msgEnc.isSome &&
        (match v.ty with
         | .message _ | .group => false
         | _ => true)) = false := by
  unfold mencErrs
  cases hp : v.opts.msgEnc with
  | none => simp
  | some u =>
    simp only [errIf_eq_nil, Option.isSome_some, Bool.true_and]
    cases hty : v.ty <;> simp [FType.hasMessage, FType.isMap]

theorem noneViolated_fieldRules (fs : Files) (f : File) (v : FieldView) :
    NoneViolated (fieldRules fs f v) ↔
      (v.opts.packed == some true && !(isRep v && packableType (ptype f v))) = false ∧
      (match v.ty with
       | .enum r => !isRep v && !hasPresenceP f v && enumClosedP fs r
       | _ => false) = false ∧
      (v.opts.hasDefault && !hasPresenceP f v) = false ∧
      ((v.opts.lazy == some true || v.opts.unverifiedLazy == some true) && ptype f v != .message) = false ∧
      ((v.opts.jstype == some .string || v.opts.jstype == some .number) && !is64 (ptype f v)) = false := by
  unfold NoneViolated fieldRules
  simp only [List.mem_cons, List.not_mem_nil, or_false, forall_eq_or_imp, forall_eq]
  exact Iff.rfl

theorem noneViolated_featureRules (f : File) (v : FieldView) :
    NoneViolated (featureRules f v) ↔
      (f.isEditions = true ∧ v.inMapEntry = false →
        (v.opts.presence.isSome &&
          (Spec.inOneof f v || isRep v || v.isExt || (isMessageTyped v && v.opts.presence == some .implicit))) = false ∧
        (v.opts.repEnc.isSome && (!isRep v || (v.opts.repEnc == some .packed && !packableType (ptype f v)))) = false ∧
        (v.opts.utf8.isSome &&
          (match v.ty with
           | .map k val => !(k == .string || val == .scalar .string)
           | t => t != .scalar .string)) = false ∧
        (v.opts.msgEnc.isSome &&
          (match v.ty with
           | .message _ | .group => false
           | _ => true)) = false) := by
  unfold NoneViolated featureRules
  rw [isEditionFile_eq]
  by_cases he : f.isEditions = true
  · by_cases hm : v.inMapEntry = true
    · simp [he, hm]
    · have hm' : v.inMapEntry = false := by simpa using hm
      simp only [he, hm', Bool.not_true, Bool.or_self, Bool.false_eq_true, if_false, List.mem_cons,
        List.not_mem_nil, or_false, forall_eq_or_imp, forall_eq, and_self, true_imp_iff]
      exact Iff.rfl
  · simp [he]

/-- one field: the model reports nothing iff no reference rule is violated (outside edition 2024,
    and when the parser has not already rejected a `packed` option in an edition file) -/
theorem fieldCoreErrs_nil_iff (fs : Files) (f : File) (v : FieldView) (h24 : f.syn ≠ .ed2024)
    (hpre : (v.opts.packed.isSome && f.isEditions) = false) :
    fieldCoreErrs fs f v = [] ↔ NoneViolated (fieldRules fs f v ++ featureRules f v) := by
  rw [noneViolated_append, noneViolated_fieldRules, noneViolated_featureRules]
  unfold fieldCoreErrs
  have hc : errIf (v.opts.ctype.isSome && f.syn == .ed2024) .ctype2024 = [] := by
    rw [errIf_eq_nil]; simp [h24]
  simp only [List.append_eq_nil_iff, hc, packedErrs_nil f v hpre, closedEnumErrs_nil, lazyErrs_nil,
    jstypeErrs_nil, errIf_eq_nil, hasPresenceP_eq]
  by_cases he : f.isEditions = true
  · by_cases hm : v.inMapEntry = true
    · simp [he, hm, featureErrs, and_assoc]
    · simp only [he, if_true, featureErrs, hm, Bool.false_eq_true, if_false, List.append_eq_nil_iff,
        presenceErrs_nil, rencErrs_nil, utf8Errs_nil, mencErrs_nil, true_and]
      have hm' : v.inMapEntry = false := by simpa using hm
      simp only [hm', true_imp_iff, and_true, and_assoc, hasPresenceP_eq]
  · simp [he, and_assoc]

/-! ## one extension -/

theorem matchDecls_nil (x : ExtInfo) (ds : List Decl) :
    matchDecls x ds = [] ↔
      (match ds.find? (fun d => d.number.getD 0 == (x.number : Int)) with
       | none => true
       | some d =>
         d.reserved == some true ||
         d.fullName.getD [] != '.' :: x.fullName ||
         d.type.getD [] != x.typeName ||
         d.repeated.getD false != x.isRep) = false := by
  rw [matchDecls_eq]
  unfold firstDecl
  cases hf : ds.find? (fun d => d.number.getD 0 == (x.number : Int)) with
  | none => simp only; split <;> simp
  | some d =>
    simp only
    cases hr : d.reserved with
    | none =>
      simp only [Option.getD_none, Bool.false_eq_true, if_false, List.append_eq_nil_iff, errIf_eq_nil]
      by_cases h3 : (d.repeated.getD false != x.isRep) = true
      · simp [h3]; split <;> simp
      · simp [h3]
    | some b =>
      cases b with
      | true => simp
      | false =>
        simp only [Option.getD_some, Bool.false_eq_true, if_false, List.append_eq_nil_iff, errIf_eq_nil]
        by_cases h3 : (d.repeated.getD false != x.isRep) = true
        · simp [h3]; split <;> simp
        · simp [h3]

theorem matchRanges_nil (xi : ExtInfo) (rs : List (Span × ExtStmt)) (hd : DisjointRanges rs) :
    matchRanges xi rs = [] ↔
      (match rs.find? (fun r => decide (r.1.lo ≤ xi.number) && decide (xi.number ≤ r.1.hi)) with
       | none => false
       | some (_, st) =>
         verified st &&
         (match st.decls.find? (fun d => d.number.getD 0 == (xi.number : Int)) with
          | none => true
          | some d =>
            d.reserved == some true ||
            d.fullName.getD [] != '.' :: xi.fullName ||
            d.type.getD [] != xi.typeName ||
            d.repeated.getD false != xi.isRep)) = false := by
  rw [matchRanges_eq _ _ hd]
  unfold firstRange
  cases hf : rs.find? (fun r => decide (r.1.lo ≤ xi.number) && decide (xi.number ≤ r.1.hi)) with
  | none => simp
  | some r =>
    obtain ⟨sp, st⟩ := r
    simp only
    by_cases hv : (st.decls.isEmpty && st.verification != some .declaration) = true
    · have : verified st = false := by
        unfold verified
        simp only [Bool.and_eq_true, bne_iff_ne, ne_eq] at hv
        simp [hv.1, hv.2]
      rw [if_pos hv, this]
      simp
    · have : verified st = true := by
        unfold verified
        simp only [Bool.and_eq_true, bne_iff_ne, ne_eq, not_and, Decidable.not_not] at hv
        by_cases he : st.decls.isEmpty = true
        · simp [hv he]
        · simp [he]
      rw [if_neg hv, this, Bool.true_and]
      exact matchDecls_nil xi st.decls

theorem inSomeRange_iff (m : Message) (n : Nat) : inSomeRange m n = true ↔ (governingRange m n).isSome = true := by
  unfold inSomeRange governingRange
  rw [List.find?_isSome, List.any_eq_true]

theorem extErrs_nil_iff (fs : Files) (file : Nat) (f : File) (n : Nat) (x : Ext) (ef : File) (m : Message)
    (hl : lookupMsg fs x.extendee = some (ef, m)) (hd : DisjointRanges m.ranges)
    (hin : inSomeRange m x.number = true)
    (hmax : m.msgSet ≠ some true → ∀ r ∈ m.ranges, r.1.hi ≤ fieldMax) :
    extErrs fs file f n x = [] ↔ NoneViolated (extRules fs file f n x) := by
  unfold extErrs extRules NoneViolated
  simp only [hl, List.append_eq_nil_iff, errIf_eq_nil, List.mem_cons, List.not_mem_nil, or_false,
    forall_eq_or_imp, forall_eq]
  have h1 : msgSetErrs f m x = [] ↔
      (m.msgSet == some true && !(!isRep x.view && ptype f x.view == .message)) = false := by
    unfold msgSetErrs
    rw [isRep_eq]
    by_cases hs : m.msgSet = some true
    · have hk : (ptype f x.view == .message) = (kind f x.view == .message) := by
        rw [ptype_eq]; cases kind f x.view <;> rfl
      rw [hk]
      by_cases hr : x.view.isRepeated = true <;> by_cases hm : kind f x.view = .message <;>
        simp [hs, hr, hm, errIf_eq_nil]
    · have : x.number ≤ fieldMax := by
        unfold inSomeRange at hin
        obtain ⟨r, hr, hc⟩ := List.any_eq_true.mp hin
        have := hmax hs r hr
        simp only [Bool.and_eq_true, decide_eq_true_eq] at hc
        omega
      have hlt : ¬ fieldMax < x.number := by omega
      simp [hs, errIf_eq_nil, hlt]
  have h3 := matchRanges_nil (extInfo file n x) m.ranges hd
  rw [h1]
  constructor
  · rintro ⟨⟨a, b⟩, c⟩; exact ⟨a, b, h3.mp c⟩
  · rintro ⟨a, b, c⟩; exact ⟨⟨a, b⟩, h3.mpr c⟩

/-! ## the declarations of one range -/

theorem hasDup_false_iff (l : List Int) : hasDup l = false ↔ l.Nodup := by
  induction l with
  | nil => simp [hasDup]
  | cons a rest ih => simp [hasDup, ih]

theorem inRangeNumbers_eq (sp : Span) (ds : List Decl)
    (h : ∀ d ∈ ds, ∃ n, d.number = some n ∧ (sp.lo : Int) ≤ n ∧ n ≤ (sp.hi : Int)) :
    inRangeNumbers sp ds = declNumbers ds := by
  induction ds with
  | nil => rfl
  | cons d rest ih =>
    obtain ⟨n, hn, hlo, hhi⟩ := h d (by simp)
    have ih' := ih (fun d hd => h d (by simp [hd]))
    simp only [inRangeNumbers, declNumbers, List.filterMap_cons, hn] at ih' ⊢
    have hc : (decide ((sp.lo : Int) ≤ n) && decide (n ≤ (sp.hi : Int))) = true := by simp [hlo, hhi]
    rw [if_pos hc, ih']

theorem declRules_iff (sp : Span) (d : Decl) :
    NoneViolated (declRules true sp d) ↔
      (∃ n, d.number = some n ∧ (sp.lo : Int) ≤ n ∧ n ≤ (sp.hi : Int)) ∧
      declNameOk d = true ∧ declTypeOk d = true ∧ declRsvdOk d = true := by
  unfold NoneViolated declRules declNameOk declTypeOk declRsvdOk
  simp only [List.mem_cons, List.not_mem_nil, or_false, forall_eq_or_imp, forall_eq]
  cases hn : d.number with
  | none => simp
  | some k =>
    have hrange : (k < (sp.lo : Int) || (sp.hi : Int) < k) = false ↔ ((sp.lo : Int) ≤ k ∧ k ≤ (sp.hi : Int)) := by
      simp only [Bool.or_eq_false_iff, decide_eq_false_iff_not]; omega
    cases hname : d.fullName <;> cases hty : d.type <;> cases hr : d.reserved <;>
      simp [hrange] <;> (try (rename_i b; cases b <;> simp)) <;> grind

theorem rangeOk_iff (sp : Span) (st : ExtStmt) : RangeOk sp st ↔ NoneViolated (rangeRules true sp st) := by
  unfold RangeOk rangeRules
  cases hd : st.decls with
  | nil => simp [NoneViolated]
  | cons d rest =>
    simp only [reduceCtorEq, false_or, List.isEmpty_cons, Bool.false_eq_true, if_false, noneViolated_append,
      noneViolated_flatMap, declRules_iff]
    have hhead : NoneViolated [("declarations-need-verification-declaration", st.verification == some Verif.unverified),
        ("declaration-number-unique", hasDup (inRangeNumbers sp (d :: rest)))] ↔
        st.verification ≠ some .unverified ∧ hasDup (inRangeNumbers sp (d :: rest)) = false := by
      unfold NoneViolated
      simp only [List.mem_cons, List.not_mem_nil, or_false, forall_eq_or_imp, forall_eq, beq_eq_false_iff_ne, ne_eq]
    rw [hhead]
    constructor
    · rintro ⟨h1, h2, h3⟩
      refine ⟨⟨h1, ?_⟩, h2⟩
      rw [inRangeNumbers_eq sp _ (fun d hd => (h2 d hd).1), hasDup_false_iff]
      exact h3
    · rintro ⟨⟨h1, h3⟩, h2⟩
      refine ⟨h1, h2, ?_⟩
      rw [inRangeNumbers_eq sp _ (fun d hd => (h2 d hd).1), hasDup_false_iff] at h3
      exact h3

/-! ## declared names -/

theorem nameClash_false_iff (l : List Occ) : nameClash l = false ↔ Consistent l := by
  unfold nameClash Consistent
  rw [List.any_eq_false]
  constructor
  · intro h a ha b hb hab
    have h1 := h a ha
    rw [Bool.not_eq_true, List.any_eq_false] at h1
    have h2 := h1 b hb
    simpa [hab] using h2
  · intro h a ha
    rw [Bool.not_eq_true, List.any_eq_false]
    intro b hb
    by_cases hab : a.1 = b.1
    · simp [hab, h a ha b hb hab]
    · simp [hab]

theorem flatMap_declOcc (name : Name) (ds : List Decl) :
    ds.flatMap (declOcc name) =
      ds.filterMap (fun d => d.fullName.map (fun s => (stripDot s, name, d.number.getD 0))) := by
  induction ds with
  | nil => rfl
  | cons d rest ih =>
    simp only [List.flatMap_cons, List.filterMap_cons, ih, declOcc]
    cases d.fullName <;> simp [normName, stripDot]

theorem msgOccs_eq (file j : Nat) (m : Message) :
    msgOccs (msgFullName ⟨file, j⟩) m.ranges = msgDeclOccs file j m := by
  unfold msgOccs msgDeclOccs rangeOccs
  simp only [flatMap_declOcc]

theorem msgsOccs_eq (file j : Nat) (ms : List Message) :
    msgsOccs file j ms = (ms.zipIdx j).flatMap (fun p => msgDeclOccs file p.2 p.1) := by
  induction ms generalizing j with
  | nil => rfl
  | cons m rest ih => simp [msgsOccs, List.zipIdx_cons, ih, msgOccs_eq]

theorem fileDeclOccs_eq (file : Nat) (f : File) : msgsOccs file 0 f.msgs = fileDeclOccs file f := by
  rw [msgsOccs_eq]; rfl

/-! ## the rules of the earlier phases, the file options -/

theorem allViews_any (f : File) (P : FieldView → Bool) (hP : ∀ v, v.inMapEntry = true → P v = false) :
    (allViews f).any P =
      (f.msgs.any (fun m => m.fields.any (fun fl => P fl.view)) || f.exts.any (fun x => P x.view)) := by
  unfold allViews
  rw [List.any_append, List.any_flatMap, List.any_map]
  congr 1
  refine List.any_congr rfl ?_
  intro m
  rw [List.any_append, List.any_map]
  have : (m.fields.filterMap mapValueViewOf).any P = false := by
    rw [List.any_eq_false]
    intro v hv
    obtain ⟨fl, _, hfl⟩ := List.mem_filterMap.mp hv
    unfold mapValueViewOf at hfl
    split at hfl
    · simp only [Option.some.injEq] at hfl
      subst hfl
      simp [hP _ (show (mapValueView fl _).inMapEntry = true from rfl)]
    · simp at hfl
  rw [this, Bool.or_false]
  rfl

theorem any_and_const_or {α : Type} (l : List α) (h r : α → Bool) (c : Bool) :
    l.any (fun a => h a && (c || r a)) = ((c && l.any h) || l.any (fun a => h a && r a)) := by
  induction l with
  | nil => simp
  | cons a rest ih =>
    simp only [List.any_cons, ih]
    cases c <;> cases h a <;> cases r a <;> simp

theorem early_iff (fs : Files) (f : File) (h24 : f.syn ≠ .ed2024) :
    (parsePre f = false ∧ linkPre fs f = false) ↔ NoneViolated (earlyRules fs f) := by
  unfold NoneViolated earlyRules
  simp only [List.mem_cons, List.not_mem_nil, or_false, forall_eq_or_imp, forall_eq]
  rw [allViews_any f _ (by intro v hv; simp [hv]), allViews_any f _ (by intro v hv; simp [hv]),
    allViews_any f _ (by intro v hv; simp [hv]), allViews_any f _ (by intro v hv; simp [hv])]
  have hext : (f.exts.any fun x => onExtendee fs x (fun m => (governingRange m x.number).isNone)) =
      (f.exts.any fun x => onExtendee fs x (fun m => !inSomeRange m x.number)) := by
    refine List.any_congr rfl ?_
    intro x
    unfold onExtendee
    cases lookupMsg fs x.extendee with
    | none => rfl
    | some p =>
      obtain ⟨ef, m⟩ := p
      simp only
      have := inSomeRange_iff m x.number
      cases h1 : inSomeRange m x.number <;> cases h2 : (governingRange m x.number) <;> simp_all
  rw [hext]
  unfold parsePre linkPre
  rw [isEditionFile_eq]
  have h24' : (f.syn == Syn.ed2024) = false := by simp [h24]
  simp only [h24', Bool.false_or, Field.view, Ext.view, Bool.not_false, Bool.true_and, isRep_eq, isMessageTyped_eq,
    FieldView.isRepeated, Bool.or_eq_false_iff, and_assoc, Bool.and_true, Bool.or_assoc]
  constructor
  · rintro ⟨a, b, c, d, e, g1, g2⟩
    exact ⟨a, b, c, d, g1, g2, e⟩
  · rintro ⟨a, b, c, d, g1, g2, e⟩
    exact ⟨a, b, c, d, e, g1, g2⟩

theorem validateFileErrs_nil (fs : Files) (f : File) :
    validateFileErrs fs f = [] ↔ NoneViolated (fileOptionRules fs f) := by
  unfold NoneViolated fileOptionRules validateFileErrs
  simp only [List.mem_cons, List.not_mem_nil, or_false, forall_eq_or_imp, forall_eq, List.append_eq_nil_iff]
  rw [isEditionFile_eq]
  have hl : ∀ k, importIsLite fs k = (fs[k]?.map (·.optFor == some .lite)).getD false := by
    intro k; unfold importIsLite; cases fs[k]? <;> rfl
  have h1 : (if f.optFor != some .lite then f.imports.flatMap (fun k => errIf (importIsLite fs k) .liteImport) else []) = [] ↔
      (f.optFor != some .lite && f.imports.any (fun k => (fs[k]?.map (·.optFor == some .lite)).getD false)) = false := by
    by_cases ho : (f.optFor != some .lite) = true
    · simp only [ho, if_true, Bool.true_and, List.flatMap_eq_nil_iff, errIf_eq_nil, List.any_eq_false, hl]
      simp
    · simp [ho]
  rw [h1]
  by_cases he : f.isEditions = true
  · simp [he, errIf_eq_nil]
  · simp [he]

/-! ## one file: the model accepts it iff no reference rule is violated -/

/-- what the comparison needs to know about a file (all of it follows from `wellFormed`, see
    `fileHyp_of_wellFormed`) -/
structure FileHyp (fs : Files) (i : Nat) (f : File) : Prop where
  not2024 : f.syn ≠ .ed2024
  importsEarlier : ∀ k ∈ f.imports, k < i
  extendees : ∀ x ∈ f.exts, ∀ ef m, lookupMsg fs x.extendee = some (ef, m) →
    DisjointRanges m.ranges ∧ (m.msgSet ≠ some true → ∀ r ∈ m.ranges, r.1.hi ≤ fieldMax)

theorem mem_allViews (f : File) (v : FieldView) :
    v ∈ allViews f ↔
      (∃ m ∈ f.msgs, ∃ fl ∈ m.fields, v = fl.view ∨ mapValueViewOf fl = some v) ∨ ∃ x ∈ f.exts, v = x.view := by
  unfold allViews
  simp only [List.mem_append, List.mem_flatMap, List.mem_map, List.mem_filterMap]
  constructor
  · rintro (⟨m, hm, (⟨fl, hfl, rfl⟩ | ⟨fl, hfl, h⟩)⟩ | ⟨x, hx, rfl⟩)
    · exact Or.inl ⟨m, hm, fl, hfl, Or.inl rfl⟩
    · exact Or.inl ⟨m, hm, fl, hfl, Or.inr h⟩
    · exact Or.inr ⟨x, hx, rfl⟩
  · rintro (⟨m, hm, fl, hfl, (rfl | h)⟩ | ⟨x, hx, rfl⟩)
    · exact Or.inl ⟨m, hm, Or.inl ⟨fl, hfl, rfl⟩⟩
    · exact Or.inl ⟨m, hm, Or.inr ⟨fl, hfl, h⟩⟩
    · exact Or.inr ⟨x, hx, rfl⟩

theorem nestedErrs_nil (fs : Files) (f : File) (fl : Field) :
    nestedErrs fs f fl = [] ↔ ∀ v, mapValueViewOf fl = some v → fieldCoreErrs fs f v = [] := by
  unfold nestedErrs mapValueViewOf
  cases fl.ty <;> simp

theorem packedPre_of_parsePre (f : File) (h : parsePre f = false) :
    (∀ m ∈ f.msgs, ∀ fl ∈ m.fields, (fl.view.opts.packed.isSome && f.isEditions) = false) ∧
    (∀ x ∈ f.exts, (x.view.opts.packed.isSome && f.isEditions) = false) := by
  unfold parsePre at h
  simp only [Bool.or_eq_false_iff] at h
  obtain ⟨⟨⟨⟨_, hp⟩, _⟩, _⟩, _⟩ := h
  by_cases he : f.isEditions = true
  · simp only [he, Bool.true_and, Bool.or_eq_false_iff, List.any_eq_false] at hp
    refine ⟨fun m hm fl hfl => ?_, fun x hx => ?_⟩
    · have h1 := hp.1 m hm
      rw [Bool.not_eq_true, List.any_eq_false] at h1
      have := h1 fl hfl
      simp only [Field.view, he, Bool.and_true]
      simpa using this
    · have := hp.2 x hx
      simp only [Ext.view, he, Bool.and_true]
      simpa using this
  · have he' : f.isEditions = false := by simpa using he
    simp [he']

theorem inSomeRange_of_linkPre (fs : Files) (f : File) (h : linkPre fs f = false) :
    ∀ x ∈ f.exts, ∀ ef m, lookupMsg fs x.extendee = some (ef, m) → inSomeRange m x.number = true := by
  unfold linkPre at h
  simp only [Bool.or_eq_false_iff, List.any_eq_false] at h
  intro x hx ef m hl
  have := h.1.1 x hx
  unfold onExtendee at this
  rw [hl] at this
  simpa using this

theorem fileGood_iff (fs : Files) (i : Nat) (f : File) (hyp : FileHyp fs i f) :
    FileGood fs i f ↔ NoneViolated (fileRules false fs i f) := by
  unfold fileRules
  simp only [noneViolated_append, noneViolated_flatMap, Bool.false_eq_true, if_false, Bool.not_false]
  rw [← early_iff fs f hyp.not2024, ← validateFileErrs_nil]
  unfold FileGood
  rw [fileErrs_nil]
  have hname : NoneViolated [("declared-name-unique", nameClash (fileDeclOccs i f))] ↔
      (addAll [] (msgsOccs i 0 f.msgs)).1 = false := by
    rw [addAll_nil_ok_iff, fileDeclOccs_eq, ← nameClash_false_iff]
    unfold NoneViolated
    simp
  rw [hname]
  constructor
  · rintro ⟨hpp, _, hlp, hfile, ⟨hmsgs, hadd⟩, hexts⟩
    have hpk := packedPre_of_parsePre f hpp
    have hin := inSomeRange_of_linkPre fs f hlp
    refine ⟨⟨⟨⟨⟨⟨hpp, hlp⟩, hfile⟩, ?_⟩, ?_⟩, ?_⟩, hadd⟩
    · intro v hv
      rcases (mem_allViews f v).mp hv with ⟨m, hm, fl, hfl, (rfl | hmv)⟩ | ⟨x, hx, rfl⟩
      · exact (noneViolated_append _ _).mp ((fieldCoreErrs_nil_iff fs f _ hyp.not2024 (hpk.1 m hm fl hfl)).mp ((hmsgs m hm).2.1 fl hfl))
      · have hc := (nestedErrs_nil fs f fl).mp ((hmsgs m hm).2.2 fl hfl) v hmv
        have hp : (v.opts.packed.isSome && f.isEditions) = false := by
          unfold mapValueViewOf at hmv
          split at hmv
          · simp only [Option.some.injEq] at hmv; subst hmv; simp [mapValueView]
          · simp at hmv
        exact (noneViolated_append _ _).mp ((fieldCoreErrs_nil_iff fs f v hyp.not2024 hp).mp hc)
      · obtain ⟨k, hk⟩ := List.getElem?_of_mem hx
        have hmem : (x, k) ∈ f.exts.zipIdx := List.mem_zipIdx_iff_getElem?.mpr hk
        exact (noneViolated_append _ _).mp ((fieldCoreErrs_nil_iff fs f _ hyp.not2024 (hpk.2 x hx)).mp (hexts (x, k) hmem).1)
    · intro p hp
      obtain ⟨x, n⟩ := p
      have hx : x ∈ f.exts := by
        have := List.mem_zipIdx_iff_getElem?.mp hp
        exact List.mem_of_getElem? this
      cases hl : lookupMsg fs x.extendee with
      | none => simp [extRules, hl, NoneViolated]
      | some q =>
        obtain ⟨ef, m⟩ := q
        have hh := hyp.extendees x hx ef m hl
        exact (extErrs_nil_iff fs i f n x ef m hl hh.1 (hin x hx ef m hl) hh.2).mp (hexts (x, n) hp).2
    · intro m hm r hr
      exact (rangeOk_iff r.1 r.2).mp ((hmsgs m hm).1 r hr)
  · rintro ⟨⟨⟨⟨⟨⟨hpp, hlp⟩, hfile⟩, hviews⟩, hexts⟩, hranges⟩, hadd⟩
    have hpk := packedPre_of_parsePre f hpp
    have hin := inSomeRange_of_linkPre fs f hlp
    refine ⟨hpp, hyp.importsEarlier, hlp, hfile, ⟨?_, hadd⟩, ?_⟩
    · intro m hm
      refine ⟨fun r hr => (rangeOk_iff r.1 r.2).mpr (hranges m hm r hr), fun fl hfl => ?_, fun fl hfl => ?_⟩
      · exact (fieldCoreErrs_nil_iff fs f _ hyp.not2024 (hpk.1 m hm fl hfl)).mpr ((noneViolated_append _ _).mpr
          (hviews _ ((mem_allViews f _).mpr (Or.inl ⟨m, hm, fl, hfl, Or.inl rfl⟩))))
      · rw [nestedErrs_nil]
        intro v hmv
        have hp : (v.opts.packed.isSome && f.isEditions) = false := by
          unfold mapValueViewOf at hmv
          split at hmv
          · simp only [Option.some.injEq] at hmv; subst hmv; simp [mapValueView]
          · simp at hmv
        exact (fieldCoreErrs_nil_iff fs f v hyp.not2024 hp).mpr ((noneViolated_append _ _).mpr
          (hviews _ ((mem_allViews f _).mpr (Or.inl ⟨m, hm, fl, hfl, Or.inr hmv⟩))))
    · intro p hp
      obtain ⟨x, n⟩ := p
      have hx : x ∈ f.exts := List.mem_of_getElem? (List.mem_zipIdx_iff_getElem?.mp hp)
      refine ⟨(fieldCoreErrs_nil_iff fs f _ hyp.not2024 (hpk.2 x hx)).mpr ((noneViolated_append _ _).mpr
          (hviews _ ((mem_allViews f _).mpr (Or.inr ⟨x, hx, rfl⟩)))), ?_⟩
      cases hl : lookupMsg fs x.extendee with
      | none => simp [extErrs, hl]
      | some q =>
        obtain ⟨ef, m⟩ := q
        have hh := hyp.extendees x hx ef m hl
        exact (extErrs_nil_iff fs i f n x ef m hl hh.1 (hin x hx ef m hl) hh.2).mpr (hexts (x, n) hp)

/-! ## well-formed sets give the hypotheses -/

theorem filesOkAux_get (fs : Files) (n : Nat) (l : List File) (h : filesOkAux fs n l = true) :
    ∀ j f, l[j]? = some f → fileOk fs (n + j) f = true := by
  induction l generalizing n with
  | nil => intro j f hj; simp at hj
  | cons g rest ih =>
    simp only [filesOkAux, Bool.and_eq_true] at h
    intro j f hj
    cases j with
    | zero => simp only [List.getElem?_cons_zero, Option.some.injEq] at hj; subst hj; simpa using h.1
    | succ j =>
      simp only [List.getElem?_cons_succ] at hj
      have := ih (n + 1) h.2 j f hj
      rwa [show n + 1 + j = n + (j + 1) by omega] at this

theorem spansDisjoint_pairwise (l : List Span) (h : spansDisjoint l = true) :
    l.Pairwise (fun a b => a.hi < b.lo ∨ b.hi < a.lo) := by
  induction l with
  | nil => exact List.Pairwise.nil
  | cons s rest ih =>
    simp only [spansDisjoint, Bool.and_eq_true, List.all_eq_true, Bool.or_eq_true, decide_eq_true_eq] at h
    exact List.Pairwise.cons h.1 (ih h.2)

theorem disjointRanges_of_messageOk (fs : Files) (self : Nat) (f : File) (m : Message)
    (h : messageOk fs self f m = true) :
    DisjointRanges m.ranges ∧ (m.msgSet ≠ some true → ∀ r ∈ m.ranges, r.1.hi ≤ fieldMax) := by
  unfold messageOk at h
  simp only [Bool.and_eq_true] at h
  obtain ⟨⟨_, hr⟩, hd⟩ := h
  constructor
  · have := spansDisjoint_pairwise _ hd
    unfold DisjointRanges
    exact List.pairwise_map.mp this
  · intro hs r hr'
    have := (List.all_eq_true.mp hr) r hr'
    have hms : (m.msgSet == some true) = false := by simpa using hs
    simp only [hms, Bool.false_eq_true, if_false, Bool.and_eq_true, decide_eq_true_eq] at this
    exact this.2

theorem fileHyp_of_wellFormed (fs : Files) (hw : wellFormed fs = true) (h24 : ∀ f ∈ fs, f.syn ≠ .ed2024)
    (i : Nat) (f : File) (hf : fs[i]? = some f) : FileHyp fs i f := by
  unfold wellFormed at hw
  simp only [Bool.and_eq_true] at hw
  obtain ⟨⟨⟨_, hok⟩, _⟩, _⟩ := hw
  have hget := filesOkAux_get fs 0 fs hok
  have hfi := hget i f hf
  rw [Nat.zero_add] at hfi
  unfold fileOk at hfi
  simp only [Bool.and_eq_true, List.all_eq_true, decide_eq_true_eq] at hfi
  refine ⟨h24 f (List.mem_of_getElem? hf), fun k hk => hfi.1.1.1 k hk, ?_⟩
  intro x _ ef m hl
  unfold lookupMsg at hl
  cases hfe : fs[x.extendee.file]? with
  | none => simp [hfe] at hl
  | some g =>
    rw [hfe] at hl
    simp only at hl
    cases hm : g.msgs[x.extendee.idx]? with
    | none => simp [hm] at hl
    | some m' =>
      rw [hm] at hl
      simp only [Option.some.injEq, Prod.mk.injEq] at hl
      obtain ⟨rfl, rfl⟩ := hl
      have hg := hget x.extendee.file g hfe
      rw [Nat.zero_add] at hg
      unfold fileOk at hg
      simp only [Bool.and_eq_true, List.all_eq_true] at hg
      exact disjointRanges_of_messageOk fs _ g m' (hg.1.2 m' (List.mem_of_getElem? hm))

end PCV.OptValidate
