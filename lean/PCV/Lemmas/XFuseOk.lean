/-
`token.Fuse` never panics in the lexer: the pairs produced by `fuseBraces` and `fuseStrings`
touch pairwise distinct, existing, still-leaf tokens, in order.
-/
import PCV.Lemmas.XFuse
import PCV.Lemmas.XLexer
namespace PCV.TokenStream

def pairIds (ps : List (Nat × Nat)) : List Nat := ps.flatMap (fun p => [p.1, p.2])

@[simp] theorem pairIds_nil : pairIds [] = [] := rfl
@[simp] theorem pairIds_cons (p : Nat × Nat) (ps : List (Nat × Nat)) :
    pairIds (p :: ps) = p.1 :: p.2 :: pairIds ps := by simp [pairIds]
theorem pairIds_append (ps qs : List (Nat × Nat)) : pairIds (ps ++ qs) = pairIds ps ++ pairIds qs := by
  simp [pairIds]

/-- one `token.Fuse` on two distinct existing leaves succeeds and touches only those two -/
theorem fuseAt_ok (ts : List Tok) (a b : Nat) (ta tb : Tok) (ha : 1 ≤ a) (hab : a < b)
    (hta : ts[a - 1]? = some ta) (htb : ts[b - 1]? = some tb) (hla : ta.off = 0) (hlb : tb.off = 0) :
    (fuseAt ts a b).2 = false ∧ (fuseAt ts a b).1.length = ts.length ∧
    (∀ i : Nat, i ≠ a - 1 → i ≠ b - 1 → (fuseAt ts a b).1[i]? = ts[i]?) ∧
    (∀ i : Nat, ((fuseAt ts a b).1[i]?).map Tok.kind = (ts[i]?).map Tok.kind) := by
  unfold fuseAt
  simp only [hta, htb]
  rw [if_neg (by omega)]
  refine ⟨rfl, by simp, ?_, ?_⟩
  · intro i h1 h2
    simp only [List.getElem?_set]
    rw [if_neg (by omega)]
    rw [if_neg (by omega)]
  · intro i
    simp only [List.getElem?_set, List.length_set]
    by_cases h2 : b - 1 = i
    · subst h2
      obtain ⟨hlt, heq⟩ := List.getElem?_eq_some_iff.mp htb
      simp [hlt, fuseTok, heq]
    · rw [if_neg h2]
      by_cases h1 : a - 1 = i
      · subst h1
        obtain ⟨hlt, heq⟩ := List.getElem?_eq_some_iff.mp hta
        simp [hlt, fuseTok, heq]
      · rw [if_neg h1]

/-- a sequence of fuses on pairwise distinct existing leaves never panics; tokens outside the pairs
    are untouched and kinds never change -/
theorem fuseAll_ok (ps : List (Nat × Nat)) (ts : List Tok)
    (hv : ∀ p ∈ ps, 1 ≤ p.1 ∧ p.1 < p.2)
    (hn : (pairIds ps).Nodup)
    (hl : ∀ x ∈ pairIds ps, ∃ t, ts[x - 1]? = some t ∧ t.off = 0) :
    (fuseAll ts ps).2 = false ∧ (fuseAll ts ps).1.length = ts.length ∧
    (∀ i : Nat, (i + 1) ∉ pairIds ps → (fuseAll ts ps).1[i]? = ts[i]?) ∧
    (∀ i : Nat, ((fuseAll ts ps).1[i]?).map Tok.kind = (ts[i]?).map Tok.kind) := by
  induction ps generalizing ts with
  | nil => simp [fuseAll]
  | cons p ps ih =>
    obtain ⟨a, b⟩ := p
    simp only [fuseAll]
    have hva := hv (a, b) (by simp)
    simp only at hva
    obtain ⟨ta, hta, hla⟩ := hl a (by simp)
    obtain ⟨tb, htb, hlb⟩ := hl b (by simp)
    have h1 := fuseAt_ok ts a b ta tb hva.1 hva.2 hta htb hla hlb
    simp only [pairIds_cons, List.nodup_cons, List.mem_cons, not_or] at hn
    have hne : ∀ x ∈ pairIds ps, 1 ≤ x := by
      intro x hx
      simp only [pairIds, List.mem_flatMap] at hx
      obtain ⟨q, hq, hxq⟩ := hx
      have := hv q (by simp [hq])
      simp only [List.mem_cons, List.not_mem_nil, or_false] at hxq
      rcases hxq with rfl | rfl <;> omega
    have h2 := ih (fuseAt ts a b).1 (fun q hq => hv q (by simp [hq])) hn.2.2 (by
      intro x hx
      obtain ⟨t, ht, hlt⟩ := hl x (by simp [hx])
      refine ⟨t, ?_, hlt⟩
      have hx1 := hne x hx
      rw [h1.2.2.1 (x - 1) ?_ ?_]
      · exact ht
      · intro he; have : x = a := by omega
        subst this; exact hn.1.2 hx
      · intro he; have : x = b := by omega
        subst this; exact hn.2.1 hx)
    refine ⟨by simp [h1.1, h2.1], by rw [h2.2.1, h1.2.1], ?_, ?_⟩
    · intro i hi
      simp only [pairIds_cons, List.mem_cons, not_or] at hi
      rw [h2.2.2.1 i hi.2.2, h1.2.2.1 i (by omega) (by omega)]
    · intro i
      rw [h2.2.2.2 i, h1.2.2.2 i]

/-! ### string runs -/

def isKindAt (ts : List Tok) (x k : Nat) : Prop := ∃ t, ts[x - 1]? = some t ∧ t.kind = k

/-- lower bound of the ids a `strRuns` call can still emit -/
def lbOf : Option (Nat × Nat) → Nat → Nat
  | some (a, _), _ => a
  | none, i => i

theorem strRuns_spec (full ts : List Tok) (i : Nat) (cur : Option (Nat × Nat))
    (hfull : full.drop (i - 1) = ts) (hi : 1 ≤ i)
    (hcur : ∀ a b, cur = some (a, b) → a ≤ b ∧ b < i ∧ 1 ≤ a ∧ isKindAt full a kString ∧ isKindAt full b kString) :
    (∀ p ∈ strRuns ts i cur, 1 ≤ p.1 ∧ p.1 < p.2 ∧ isKindAt full p.1 kString ∧ isKindAt full p.2 kString) ∧
    (pairIds (strRuns ts i cur)).Pairwise (· < ·) ∧
    (∀ x ∈ pairIds (strRuns ts i cur), lbOf cur i ≤ x) := by
  induction ts generalizing i cur with
  | nil =>
    cases cur with
    | none => simp [strRuns]
    | some ab =>
      obtain ⟨a, b⟩ := ab
      obtain ⟨h1, h2, h3, h4, h5⟩ := hcur a b rfl
      simp only [strRuns]
      split
      · refine ⟨?_, ?_, ?_⟩
        · intro p hp
          simp only [List.mem_singleton] at hp
          subst hp
          exact ⟨h3, by omega, h4, h5⟩
        · simp; omega
        · intro x hx
          simp at hx
          simp only [lbOf]
          rcases hx with rfl | rfl <;> omega
      · simp
  | cons t ts ih =>
    have hnext : full.drop (i + 1 - 1) = ts := by
      have : full.drop (i - 1 + 1) = ts := by
        rw [← List.drop_drop, hfull]; rfl
      have e : i + 1 - 1 = i - 1 + 1 := by omega
      rw [e]; exact this
    have hhead : full[i - 1]? = some t := by
      have := congrArg (fun l => l[0]?) hfull
      simp only [List.getElem?_drop, Nat.add_zero, List.getElem?_cons_zero] at this
      exact this
    simp only [strRuns]
    split
    · -- space / comment
      have := ih (i + 1) cur hnext (by omega) (fun a b hc => by
        obtain ⟨h1, h2, h3, h4, h5⟩ := hcur a b hc
        exact ⟨h1, by omega, h3, h4, h5⟩)
      refine ⟨this.1, this.2.1, ?_⟩
      intro x hx
      have h6 := this.2.2 x hx
      cases cur with
      | none => simp only [lbOf] at h6 ⊢; omega
      | some ab => obtain ⟨a, b⟩ := ab; simpa [lbOf] using h6
    · split
      · next hstr =>
        cases cur with
        | none =>
          simp only
          have := ih (i + 1) (some (i, i)) hnext (by omega) (fun a b hc => by
            simp only [Option.some.injEq, Prod.mk.injEq] at hc
            obtain ⟨rfl, rfl⟩ := hc
            exact ⟨Nat.le_refl _, by omega, hi, ⟨t, hhead, hstr⟩, ⟨t, hhead, hstr⟩⟩)
          exact ⟨this.1, this.2.1, fun x hx => by have := this.2.2 x hx; simpa [lbOf] using this⟩
        | some ab =>
          obtain ⟨a, b0⟩ := ab
          simp only
          obtain ⟨h1, h2, h3, h4, h5⟩ := hcur a b0 rfl
          have := ih (i + 1) (some (a, i)) hnext (by omega) (fun a' b' hc => by
            simp only [Option.some.injEq, Prod.mk.injEq] at hc
            obtain ⟨rfl, rfl⟩ := hc
            exact ⟨by omega, by omega, h3, h4, ⟨t, hhead, hstr⟩⟩)
          exact ⟨this.1, this.2.1, fun x hx => by have := this.2.2 x hx; simpa [lbOf] using this⟩
      · -- any other token ends the run
        have hrec := ih (i + 1) none hnext (by omega) (by simp)
        cases cur with
        | none =>
          simp only
          refine ⟨hrec.1, hrec.2.1, ?_⟩
          intro x hx
          have := hrec.2.2 x hx; simp only [lbOf] at this ⊢; omega
        | some ab =>
          obtain ⟨a, b⟩ := ab
          simp only
          obtain ⟨h1, h2, h3, h4, h5⟩ := hcur a b rfl
          split
          · next hne =>
            refine ⟨?_, ?_, ?_⟩
            · intro p hp
              simp only [List.singleton_append, List.mem_cons] at hp
              rcases hp with rfl | hp
              · exact ⟨h3, by omega, h4, h5⟩
              · exact hrec.1 p hp
            · simp only [List.singleton_append, pairIds_cons, List.pairwise_cons, List.mem_cons]
              refine ⟨?_, ?_, hrec.2.1⟩
              · intro x hx
                rcases hx with rfl | hx
                · omega
                · have := hrec.2.2 x hx; simp only [lbOf] at this; omega
              · intro x hx
                have := hrec.2.2 x hx; simp only [lbOf] at this; omega
            · intro x hx
              simp only [List.singleton_append, pairIds_cons, List.mem_cons] at hx
              simp only [lbOf]
              rcases hx with rfl | rfl | hx
              · omega
              · omega
              · have := hrec.2.2 x hx; simp only [lbOf] at this; omega
          · simp only [List.nil_append]
            refine ⟨hrec.1, hrec.2.1, ?_⟩
            intro x hx
            have := hrec.2.2 x hx; simp only [lbOf] at this ⊢; omega

theorem fuseAll_append (ts : List Tok) (ps qs : List (Nat × Nat)) :
    fuseAll ts (ps ++ qs) =
      ((fuseAll (fuseAll ts ps).1 qs).1, (fuseAll ts ps).2 || (fuseAll (fuseAll ts ps).1 qs).2) := by
  induction ps generalizing ts with
  | nil => simp [fuseAll]
  | cons p ps ih =>
    obtain ⟨a, b⟩ := p
    simp only [List.cons_append, fuseAll, ih, Bool.or_assoc]

theorem nodup_of_lt (l : List Nat) (h : l.Pairwise (· < ·)) : l.Nodup :=
  List.Pairwise.imp (fun hab => Nat.ne_of_lt hab) h

end PCV.TokenStream

namespace PCV.XLexer
open PCV.TokenStream

/-- one empty push in a finished state: the old tokens keep their positions, the stream grows, and
    the newest token is the pushed one -/
theorem push0_facts {n : Nat} {s : LS} (kind kw : Nat) (h : Post n s) :
    (∃ ext, (push n s 0 kind kw).toks.reverse = s.toks.reverse ++ ext) ∧
    s.toks.length < (push n s 0 kind kw).toks.length ∧
    isKindAt (push n s 0 kind kw).toks.reverse (push n s 0 kind kw).toks.length kind := by
  by_cases hb : s.bad > 0
  · rw [push_eq_pos hb (by have := h.eq; omega)]
    refine ⟨⟨[{ end_ := lastEnd s.toks + s.bad.toNat, kind := kUnrecognized, kw := 0 },
              { end_ := lastEnd s.toks + s.bad.toNat + 0, kind := kind, kw := kw }], by simp⟩,
      by simp; omega, ?_⟩
    refine ⟨{ end_ := lastEnd s.toks + s.bad.toNat + 0, kind := kind, kw := kw }, ?_, rfl⟩
    simp
  · rw [push_eq_zero hb (by have := h.eq; omega)]
    refine ⟨⟨[{ end_ := lastEnd s.toks + 0, kind := kind, kw := kw }], by simp⟩, by simp, ?_⟩
    refine ⟨{ end_ := lastEnd s.toks + 0, kind := kind, kw := kw }, ?_, rfl⟩
    simp

theorem isKindAt_ext {ts ext : List Tok} {x k : Nat} (h : isKindAt ts x k) : isKindAt (ts ++ ext) x k := by
  obtain ⟨t, ht, hk⟩ := h
  have hlt : x - 1 < ts.length := (List.getElem?_eq_some_iff.mp ht).1
  exact ⟨t, by rw [List.getElem?_append_left hlt]; exact ht, hk⟩

theorem closeOpens_ids (n : Nat) (opens : List BItem) (s : LS) (ps : List (Nat × Nat)) (h : Post n s)
    (hs : opens.Pairwise (fun a b => b.id < a.id))
    (hb : ∀ o ∈ opens, 1 ≤ o.id ∧ o.id ≤ s.toks.length) :
    ∃ cl ext, (closeOpens n opens s ps).2 = ps ++ cl ∧
      (closeOpens n opens s ps).1.toks.reverse = s.toks.reverse ++ ext ∧
      (pairIds cl).Nodup ∧ (∀ p ∈ cl, 1 ≤ p.1 ∧ p.1 < p.2) ∧
      (∀ x ∈ pairIds cl, (∃ o ∈ opens, x = o.id) ∨
        (s.toks.length < x ∧ isKindAt (closeOpens n opens s ps).1.toks.reverse x kUnrecognized)) := by
  induction opens generalizing s ps with
  | nil => exact ⟨[], [], by simp [closeOpens], by simp [closeOpens], by simp, by simp, by simp⟩
  | cons o os ih =>
    simp only [closeOpens]
    have hp := push0_post kUnrecognized 0 h
    have hf := push0_facts kUnrecognized 0 h
    simp only [List.pairwise_cons] at hs
    have hbo := hb o (by simp)
    obtain ⟨cl, ext, h1, h2, h3, h4, h5⟩ := ih (push n s 0 kUnrecognized 0)
      (ps ++ [(o.id, (push n s 0 kUnrecognized 0).toks.length)]) hp.1 hs.2
      (fun x hx => by have := hb x (by simp [hx]); omega)
    obtain ⟨ext0, hext0⟩ := hf.1
    refine ⟨(o.id, (push n s 0 kUnrecognized 0).toks.length) :: cl, ext0 ++ ext, ?_, ?_, ?_, ?_, ?_⟩
    · rw [h1]; simp
    · rw [h2, hext0]; simp
    · simp only [pairIds_cons, List.nodup_cons, List.mem_cons, not_or]
      refine ⟨⟨by omega, fun hm => ?_⟩, fun hm => ?_, h3⟩
      · rcases h5 _ hm with ⟨o', ho', he⟩ | ⟨hlt, _⟩
        · have := hs.1 o' ho'; omega
        · omega
      · rcases h5 _ hm with ⟨o', ho', he⟩ | ⟨hlt, _⟩
        · have := hb o' (by simp [ho']); omega
        · omega
    · intro p hp'
      simp only [List.mem_cons] at hp'
      rcases hp' with rfl | hp'
      · simp only; omega
      · exact h4 p hp'
    · intro x hx
      simp only [pairIds_cons, List.mem_cons] at hx
      rcases hx with rfl | rfl | hx
      · exact Or.inl ⟨o, by simp, rfl⟩
      · right
        refine ⟨hf.2.1, ?_⟩
        rw [h2]
        exact isKindAt_ext hf.2.2
      · rcases h5 x hx with ⟨o', ho', he⟩ | ⟨hlt, hk⟩
        · exact Or.inl ⟨o', by simp [ho'], he⟩
        · exact Or.inr ⟨by omega, hk⟩

/-- **No `token.Fuse` call of the lexer panics.** In a finished state, both fuse passes
    (brackets, then implicit string concatenation) act on existing, distinct, still-leaf tokens. -/
theorem no_fuse_panic (n : Nat) (s1 : LS) (h : Post n s1) :
    (fuseAll (fuseBraces n s1).1.toks.reverse (fuseBraces n s1).2).2 = false ∧
    (fuseAll (fuseAll (fuseBraces n s1).1.toks.reverse (fuseBraces n s1).2).1
      (strRuns (fuseAll (fuseBraces n s1).1.toks.reverse (fuseBraces n s1).2).1 1 none)).2 = false := by
  have hleaf2 := (fuseBraces_post n s1 h).1.wf.leaf
  have hbr := h.wf.brs
  -- the matching loop
  have hsorted : s1.braces.reverse.Pairwise (fun a b => a.id < b.id) := by
    rw [List.pairwise_reverse]; exact hbr.1
  have hids := fuseGo_ids s1.braces.reverse [] {} false 0 hsorted
    ⟨by simp [usedIds], by simp, by simp [usedIds], by simp, by simp [usedIds], by simp⟩
    (by intro t ht
        simp only [Bool.false_eq_true, if_false, List.mem_reverse] at ht
        have := (hbr.2 t ht).1; omega)
  unfold fuseBraces at hleaf2 ⊢
  cases hg : fuseGo s1.braces.reverse [] {} false with
  | mk acc opens =>
    rw [hg] at hids hleaf2
    simp only at hids hleaf2 ⊢
    obtain ⟨⟨m', hst⟩, hsrcP, hsrcO⟩ := hids
    -- the state before the empty closers are pushed
    have hfold : ∀ (l : List BItem) (st : LS), Post n st →
        Post n (l.foldl (fun st o => addDiag st ⟨"unm", lvError, [spanOf o]⟩) st) ∧
        (l.foldl (fun st o => addDiag st ⟨"unm", lvError, [spanOf o]⟩) st).toks = st.toks := by
      intro l
      induction l with
      | nil => intro st hst; exact ⟨hst, rfl⟩
      | cons o os ih =>
        intro st hst
        simp only [List.foldl_cons]
        have := ih (addDiag st ⟨"unm", lvError, [spanOf o]⟩) (post_diags hst _)
        exact ⟨this.1, by rw [this.2]; rfl⟩
    have h1 := hfold opens.reverse { s1 with diags := acc.unms.map unmDiag ++ s1.diags } (post_diags h _)
    have hval : ∀ b ∈ s1.braces, 1 ≤ b.id ∧ b.id ≤ s1.toks.length ∧ isKindAt s1.toks.reverse b.id kKeyword := by
      intro b hb
      obtain ⟨hb1, t, ht, hk⟩ := hbr.2 b hb
      have hlt : b.id - 1 < s1.toks.reverse.length := (List.getElem?_eq_some_iff.mp ht).1
      simp only [List.length_reverse] at hlt
      exact ⟨hb1, by omega, t, ht, hk⟩
    have hopens_mem : ∀ o ∈ opens, o ∈ s1.braces := by
      intro o ho
      rcases hsrcO o ho with h' | h'
      · simp at h'
      · simpa using h'
    obtain ⟨cl, ext, hc1, hc2, hc3, hc4, hc5⟩ := closeOpens_ids n opens _
      (acc.pairs.reverse.map (fun x => (x.1.id, x.2.id))) h1.1 hst.srt
      (fun o ho => by
        have := hval o (hopens_mem o ho)
        rw [h1.2]; exact ⟨this.1, this.2.1⟩)
    rw [h1.2] at hc2 hc5
    simp only at hc2 hc5
    generalize hco : closeOpens n opens
      (opens.reverse.foldl (fun st o => addDiag st ⟨"unm", lvError, [spanOf o]⟩)
        { s1 with diags := acc.unms.map unmDiag ++ s1.diags })
      (acc.pairs.reverse.map (fun x => (x.1.id, x.2.id))) = res at hc1 hc2 hc5 hleaf2 ⊢
    obtain ⟨s2, bp⟩ := res
    simp only at hc1 hc2 hc5 hleaf2 ⊢
    subst hc1
    -- facts about the loop pairs
    have hA_valid : ∀ p ∈ acc.pairs.reverse.map (fun x => (x.1.id, x.2.id)), 1 ≤ p.1 ∧ p.1 < p.2 := by
      intro p hp
      simp only [List.mem_map, List.mem_reverse] at hp
      obtain ⟨q, hq, rfl⟩ := hp
      have hord := hst.ord q hq
      rcases hsrcP q hq with h' | ⟨h', _⟩
      · simp at h'
      · rcases h' with h' | h'
        · simp at h'
        · have := (hval q.1 (by simpa using h')).1
          exact ⟨this, hord⟩
    have hA_ids : ∀ x ∈ pairIds (acc.pairs.reverse.map (fun x => (x.1.id, x.2.id))),
        ∃ b ∈ s1.braces, x = b.id := by
      intro x hx
      simp only [pairIds, List.mem_flatMap, List.mem_map, List.mem_reverse] at hx
      obtain ⟨p, ⟨q, hq, rfl⟩, hxp⟩ := hx
      simp only [List.mem_cons, List.not_mem_nil, or_false] at hxp
      rcases hsrcP q hq with h' | ⟨h', h''⟩
      · simp at h'
      · rcases hxp with rfl | rfl
        · rcases h' with h' | h'
          · simp at h'
          · exact ⟨q.1, by simpa using h', rfl⟩
        · exact ⟨q.2, by simpa using h'', rfl⟩
    have hA_nodup : (pairIds (acc.pairs.reverse.map (fun x => (x.1.id, x.2.id)))).Nodup := by
      have hperm : (pairIds (acc.pairs.reverse.map (fun x => (x.1.id, x.2.id)))).Perm (usedIds acc) := by
        simp only [pairIds, usedIds, List.flatMap_map]
        exact List.Perm.flatMap_right _ (List.reverse_perm _)
      exact (List.Perm.nodup_iff hperm).mpr hst.nd
    have hA_used : ∀ x ∈ pairIds (acc.pairs.reverse.map (fun x => (x.1.id, x.2.id))), x ∈ usedIds acc := by
      intro x hx
      simp only [pairIds, usedIds, List.mem_flatMap, List.mem_map, List.mem_reverse] at hx ⊢
      obtain ⟨p, ⟨q, hq, rfl⟩, hxp⟩ := hx
      exact ⟨q, hq, hxp⟩
    have hkindKw : ∀ b ∈ s1.braces, isKindAt s2.toks.reverse b.id kKeyword := by
      intro b hb
      rw [hc2]; exact isKindAt_ext (hval b hb).2.2
    have hleafAt : ∀ x k, isKindAt s2.toks.reverse x k → ∃ t, s2.toks.reverse[x - 1]? = some t ∧ t.off = 0 := by
      intro x k ⟨t, ht, _⟩
      refine ⟨t, ht, hleaf2 t ?_⟩
      have := List.mem_of_getElem? ht
      simpa using this
    -- first pass, loop pairs
    have hokA := fuseAll_ok _ s2.toks.reverse hA_valid hA_nodup (by
      intro x hx
      obtain ⟨b, hb, rfl⟩ := hA_ids x hx
      exact hleafAt _ _ (hkindKw b hb))
    -- first pass, empty closers
    have hcl_kind : ∀ x ∈ pairIds cl, isKindAt s2.toks.reverse x kKeyword ∨ isKindAt s2.toks.reverse x kUnrecognized := by
      intro x hx
      rcases hc5 x hx with ⟨o, ho, rfl⟩ | ⟨_, hk⟩
      · exact Or.inl (hkindKw o (hopens_mem o ho))
      · exact Or.inr hk
    have hcl_notA : ∀ x ∈ pairIds cl, x ∉ pairIds (acc.pairs.reverse.map (fun x => (x.1.id, x.2.id))) := by
      intro x hx hxa
      rcases hc5 x hx with ⟨o, ho, rfl⟩ | ⟨hlt, _⟩
      · exact hst.dj _ (hA_used _ hxa) o ho rfl
      · obtain ⟨b, hb, rfl⟩ := hA_ids x hxa
        have := (hval b hb).2.1; omega
    have hokB := fuseAll_ok cl (fuseAll s2.toks.reverse (acc.pairs.reverse.map (fun x => (x.1.id, x.2.id)))).1
      hc4 hc3 (by
        intro x hx
        have hx1 : 1 ≤ x := by
          simp only [pairIds, List.mem_flatMap] at hx
          obtain ⟨q, hq, hxq⟩ := hx
          have := hc4 q hq
          simp only [List.mem_cons, List.not_mem_nil, or_false] at hxq
          rcases hxq with rfl | rfl <;> omega
        have hun := hokA.2.2.1 (x - 1) (by
          have e : x - 1 + 1 = x := by omega
          rw [e]; exact hcl_notA x hx)
        rw [hun]
        rcases hcl_kind x hx with hk | hk
        · exact hleafAt _ _ hk
        · exact hleafAt _ _ hk)
    rw [fuseAll_append]
    simp only
    refine ⟨by rw [hokA.1, hokB.1]; rfl, ?_⟩
    -- second pass: strings
    generalize hts1 : (fuseAll (fuseAll s2.toks.reverse (acc.pairs.reverse.map (fun x => (x.1.id, x.2.id)))).1 cl).1 = ts1 at hokB ⊢
    have hsr := strRuns_spec ts1 ts1 1 none (by simp) (Nat.le_refl _) (by simp)
    have hkinds : ∀ i : Nat, (ts1[i]?).map Tok.kind = (s2.toks.reverse[i]?).map Tok.kind := by
      intro i; rw [hokB.2.2.2 i, hokA.2.2.2 i]
    apply (fuseAll_ok _ ts1 (fun p hp => ⟨(hsr.1 p hp).1, (hsr.1 p hp).2.1⟩) (nodup_of_lt _ hsr.2.1) ?_).1
    intro x hx
    -- x is the id of a String token, hence not touched by the first pass
    have hstr : isKindAt ts1 x kString := by
      simp only [pairIds, List.mem_flatMap] at hx
      obtain ⟨q, hq, hxq⟩ := hx
      have := hsr.1 q hq
      simp only [List.mem_cons, List.not_mem_nil, or_false] at hxq
      rcases hxq with rfl | rfl
      · exact this.2.2.1
      · exact this.2.2.2
    have hx1 : 1 ≤ x := by
      simp only [pairIds, List.mem_flatMap] at hx
      obtain ⟨q, hq, hxq⟩ := hx
      have := hsr.1 q hq
      simp only [List.mem_cons, List.not_mem_nil, or_false] at hxq
      rcases hxq with rfl | rfl <;> omega
    have hstr2 : isKindAt s2.toks.reverse x kString := by
      obtain ⟨t, ht, hk⟩ := hstr
      have := hkinds (x - 1)
      rw [ht] at this
      simp only [Option.map_some] at this
      cases hs2 : s2.toks.reverse[x - 1]? with
      | none => rw [hs2] at this; simp at this
      | some u =>
        rw [hs2] at this
        simp only [Option.map_some, Option.some.injEq] at this
        exact ⟨u, hs2, by rw [← this]; exact hk⟩
    have hnotA : x ∉ pairIds (acc.pairs.reverse.map (fun x => (x.1.id, x.2.id))) := by
      intro hxa
      obtain ⟨b, hb, rfl⟩ := hA_ids x hxa
      obtain ⟨t, ht, hk⟩ := hkindKw b hb
      obtain ⟨u, hu, hk2⟩ := hstr2
      rw [ht] at hu
      simp only [Option.some.injEq] at hu
      subst hu
      rw [hk] at hk2
      exact absurd hk2 (by decide)
    have hnotB : x ∉ pairIds cl := by
      intro hxb
      obtain ⟨u, hu, hk2⟩ := hstr2
      rcases hcl_kind x hxb with ⟨t, ht, hk⟩ | ⟨t, ht, hk⟩
      · rw [ht] at hu; simp only [Option.some.injEq] at hu; subst hu
        rw [hk] at hk2; exact absurd hk2 (by decide)
      · rw [ht] at hu; simp only [Option.some.injEq] at hu; subst hu
        rw [hk] at hk2; exact absurd hk2 (by decide)
    have e : x - 1 + 1 = x := by omega
    rw [hokB.2.2.1 (x - 1) (by rw [e]; exact hnotB), hokA.2.2.1 (x - 1) (by rw [e]; exact hnotA)]
    exact hleafAt _ _ hstr2

/-- a file that passes the prelude is lexed to completion: no overflow, no Fuse panic, no ICE -/
theorem lex_done_of_prelude (E : Env) (hcls : ClsOK E) (s0 : LS) (hp : prelude E {} = (s0, true)) :
    (lex E).status = .done := by
  rcases lex_cases E hcls with ⟨hf, _, _⟩ | ⟨s0', s1, hp', hm, hpost, _⟩
  · rw [hp] at hf; simp at hf
  · rw [hp] at hp'; simp only [Prod.mk.injEq, and_true] at hp'; subst hp'
    have hov := (fuseBraces_post E.n _ hpost).1.nov
    have hnf := no_fuse_panic E.n _ hpost
    simp only [lex, lexCore, hp, hm, if_true]
    cases hfb : fuseBraces E.n (flush E.n s1) with
    | mk s2 bp =>
      rw [hfb] at hov hnf
      simp only at hov hnf ⊢
      cases hf1 : fuseAll s2.toks.reverse bp with
      | mk ts1 p1 =>
        rw [hf1] at hnf
        simp only at hnf ⊢
        cases hf2 : fuseAll ts1 (strRuns ts1 1 none) with
        | mk ts2 p2 =>
          rw [hf2] at hnf
          simp only at hnf ⊢
          rw [if_neg (by simp [hov, hnf.1, hnf.2])]

/-- the ways a run can end, exactly: the prelude refuses the file, or the run completes -/
theorem lex_dichotomy (E : Env) (hcls : ClsOK E) :
    ((prelude E {}).2 = false ∧ (lex E).status = .abort) ∨
    (∃ s0, prelude E {} = (s0, true) ∧ (lex E).status = .done) := by
  cases hp : prelude E {} with
  | mk s0 b =>
    cases b with
    | false =>
      rcases lex_cases E hcls with ⟨_, ha, _⟩ | ⟨s0', _, hp', _⟩
      · exact Or.inl ⟨rfl, ha⟩
      · rw [hp] at hp'; simp at hp'
    | true => exact Or.inr ⟨s0, rfl, lex_done_of_prelude E hcls s0 hp⟩

/-! ### when does the prelude let a file through -/

theorem utf8Scan_of_valid (f : Nat) (bs : Bytes) (i cnt : Nat) (first : Option Nat) (h : V bs) :
    (utf8Scan f bs i cnt first).1 = cnt := by
  induction f generalizing bs i cnt first with
  | zero => simp [utf8Scan]
  | succ f ih =>
    simp only [utf8Scan]
    split
    · rfl
    · next hz =>
      have hne : bs ≠ [] := by
        intro he; subst he; exact hz rfl
      obtain ⟨hok, hr⟩ := V_inv bs h hne
      rw [if_neg hok.2]
      exact ih _ _ _ _ hr

/-- a valid UTF-8 file that does not trip the UTF-16 heuristics passes the prelude -/
theorem prelude_passes (E : Env) (hv : V E.text) (h16 : looksUtf16 E.text = false) :
    ∃ s0, prelude E {} = (s0, true) := by
  unfold prelude
  simp only
  split
  · exact ⟨_, rfl⟩
  · rw [if_neg (by simp [h16])]
    have hs := utf8Scan_of_valid (E.text.length + 1) E.text 0 0 none hv
    cases hsc : utf8Scan (E.text.length + 1) E.text 0 0 none with
    | mk cnt first =>
      rw [hsc] at hs
      simp only at hs
      subst hs
      simp only
      split
      · exact ⟨_, rfl⟩
      · exact ⟨_, rfl⟩

/-- the prelude passes exactly on the files that are valid UTF-8 and do not trip the UTF-16
    heuristics (the empty file included) -/
theorem prelude_passes_iff (E : Env) :
    (prelude E {}).2 = true ↔ (E.text = [] ∨ (looksUtf16 E.text = false ∧ V E.text)) := by
  constructor
  · intro h
    by_cases ht : E.text = []
    · exact Or.inl ht
    · right
      unfold prelude at h
      simp only at h
      rw [if_neg ht] at h
      split at h
      · simp at h
      · next h16 =>
        refine ⟨by simpa using h16, ?_⟩
        split at h
        · next x hscan => exact utf8Scan_valid (E.text.length + 1) E.text 0 0 none (by omega) (by rw [hscan])
        · split at h <;> simp at h
  · rintro (ht | ⟨h16, hv⟩)
    · unfold prelude; simp [ht]
    · obtain ⟨s0, hs⟩ := prelude_passes E hv h16
      rw [hs]

end PCV.XLexer
