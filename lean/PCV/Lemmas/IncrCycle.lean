/-
`task.checkCycle` (model `PCV.IncrFail.checkCycle`): the breadth-first search over recorded
`deps` edges is sound (a reported cycle is a closed walk of recorded dependency edges that
starts and ends at the awaited query) and complete (if the awaited task reaches the caller the
search does not answer "no cycle").
-/
import PCV.Model.IncrFail
namespace PCV.IncrFail
open PCV.Incr

/-- consecutive elements are joined by a recorded dependency edge -/
def Walk (m : TaskMap) : List Key → Prop
  | [] => True
  | [_] => True
  | a :: b :: rest => b ∈ depsOf m a ∧ Walk m (b :: rest)

theorem Walk.append_single {m : TaskMap} : ∀ {l : List Key} {a b : Key},
    Walk m (l ++ [a]) → b ∈ depsOf m a → Walk m (l ++ [a] ++ [b])
  | [], a, b, _, hb => ⟨hb, trivial⟩
  | [x], a, b, h, hb => ⟨h.1, hb, trivial⟩
  | x :: y :: rest, a, b, h, hb => by
    have ih := Walk.append_single (l := y :: rest) (a := a) (b := b) h.2 hb
    exact ⟨h.1, ih⟩

/-- `TreePath parent t j n`: following `parent` pointers from `n` reaches `t` in `j` steps -/
inductive TreePath (parent : List (Key × Key)) (t : Key) : Nat → Key → Prop
  | base : TreePath parent t 0 t
  | step {j : Nat} {n n' : Key} : n ≠ t → parent.lookup n = some n' → TreePath parent t j n' →
      TreePath parent t (j + 1) n

theorem lookup_append_some {parent : List (Key × Key)} {x n : Key} (h : parent.lookup x = some n)
    (extra : List (Key × Key)) : (parent ++ extra).lookup x = some n := by
  induction parent with
  | nil => simp [List.lookup] at h
  | cons p ps ih =>
    obtain ⟨a, b⟩ := p
    simp only [List.cons_append, List.lookup]
    by_cases hx : x == a
    · simp only [hx]; simp only [List.lookup, hx] at h; exact h
    · simp only [hx]; simp only [List.lookup, hx] at h; exact ih h

theorem lookup_append_none {parent : List (Key × Key)} {x : Key} (h : parent.lookup x = none)
    (extra : List (Key × Key)) : (parent ++ extra).lookup x = extra.lookup x := by
  induction parent with
  | nil => rfl
  | cons p ps ih =>
    obtain ⟨a, b⟩ := p
    simp only [List.cons_append, List.lookup]
    by_cases hx : x == a
    · simp [List.lookup, hx] at h
    · simp only [hx]; simp only [List.lookup, hx] at h; exact ih h

theorem TreePath.mono {parent : List (Key × Key)} {t : Key} {j : Nat} {n : Key}
    (h : TreePath parent t j n) (extra : List (Key × Key)) : TreePath (parent ++ extra) t j n := by
  induction h with
  | base => exact .base
  | step hne hl _ ih => exact .step hne (lookup_append_some hl extra) ih

/-- invariant of the BFS -/
structure BfsInv (m : TaskMap) (t : Key) (q : List Key) (parent : List (Key × Key)) : Prop where
  edge : ∀ d n, (d, n) ∈ parent → d ∈ depsOf m n
  queue : ∀ x ∈ q, ∃ j, j ≤ parent.length ∧ TreePath parent t j x
  /-- every stored lookup is the stored pair (keys are unique) -/
  look : ∀ d n, parent.lookup d = some n → (d, n) ∈ parent

theorem lookup_mem {parent : List (Key × Key)} {d n : Key} (h : parent.lookup d = some n) : (d, n) ∈ parent := by
  induction parent with
  | nil => simp [List.lookup] at h
  | cons p ps ih =>
    obtain ⟨a, b⟩ := p
    by_cases hx : d == a
    · simp only [List.lookup, hx, Option.some.injEq] at h
      have : d = a := by simpa using hx
      subst this; subst h; exact List.mem_cons_self
    · simp only [List.lookup, hx] at h
      exact List.mem_cons_of_mem _ (ih h)

theorem bfsVisit_inv {m : TaskMap} {t node : Key} : ∀ (ds : List Key) (q : List Key) (parent : List (Key × Key)),
    (∀ d ∈ ds, d ∈ depsOf m node) →
    (∃ j, j ≤ parent.length ∧ TreePath parent t j node) →
    BfsInv m t q parent →
    BfsInv m t (bfsVisit node ds (q, parent)).1 (bfsVisit node ds (q, parent)).2 ∧
    (∃ j, j ≤ (bfsVisit node ds (q, parent)).2.length ∧ TreePath (bfsVisit node ds (q, parent)).2 t j node) := by
  intro ds
  induction ds with
  | nil => intro q parent _ hn hinv; exact ⟨hinv, hn⟩
  | cons d ds ih =>
    intro q parent hds hn hinv
    simp only [bfsVisit]
    by_cases hl : (parent.lookup d).isSome
    · rw [if_pos hl]
      exact ih q parent (fun x hx => hds x (List.mem_cons_of_mem _ hx)) hn hinv
    · rw [if_neg hl]
      have hnone : parent.lookup d = none := by
        cases hh : parent.lookup d with
        | none => rfl
        | some v => rw [hh] at hl; exact absurd rfl hl
      obtain ⟨j, hj, htp⟩ := hn
      have hinv' : BfsInv m t (q ++ [d]) (parent ++ [(d, node)]) :=
        { edge := fun d' n' hmem => by
            rcases List.mem_append.1 hmem with h1 | h1
            · exact hinv.edge d' n' h1
            · simp only [List.mem_singleton, Prod.mk.injEq] at h1
              obtain ⟨rfl, rfl⟩ := h1
              exact hds _ List.mem_cons_self,
          queue := fun x hx => by
            rcases List.mem_append.1 hx with h1 | h1
            · obtain ⟨j', hj', h'⟩ := hinv.queue x h1
              exact ⟨j', by simp; omega, h'.mono _⟩
            · simp only [List.mem_singleton] at h1
              subst h1
              by_cases hxt : x = t
              · subst hxt; exact ⟨0, Nat.zero_le _, .base⟩
              · refine ⟨j + 1, by simp; omega, .step hxt ?_ (htp.mono _)⟩
                rw [lookup_append_none hnone]
                simp [List.lookup],
          look := fun d' n' h' => lookup_mem h' }
      exact ih (q ++ [d]) (parent ++ [(d, node)]) (fun x hx => hds x (List.mem_cons_of_mem _ hx))
        ⟨j, by simp; omega, htp.mono _⟩ hinv'

theorem bfsLoop_found {m : TaskMap} {t c : Key} : ∀ (fuel : Nat) (q : List Key) (parent parent' : List (Key × Key)),
    bfsLoop m c fuel q parent = some (true, parent') → BfsInv m t q parent →
    (∀ d n, (d, n) ∈ parent' → d ∈ depsOf m n) ∧ ∃ j, j ≤ parent'.length ∧ TreePath parent' t j c := by
  intro fuel
  induction fuel with
  | zero => intro q parent parent' h; simp [bfsLoop] at h
  | succ fuel ih =>
    intro q parent parent' h hinv
    cases q with
    | nil => simp [bfsLoop] at h
    | cons node q =>
      simp only [bfsLoop] at h
      by_cases hc : node = c
      · simp only [hc, if_true, Option.some.injEq, Prod.mk.injEq, true_and] at h
        subst h
        exact ⟨hinv.edge, hc ▸ hinv.queue node List.mem_cons_self⟩
      · simp only [hc, if_false] at h
        have hq : BfsInv m t q parent :=
          { edge := hinv.edge, queue := fun x hx => hinv.queue x (List.mem_cons_of_mem _ hx), look := hinv.look }
        obtain ⟨hinv', _⟩ := bfsVisit_inv (m := m) (t := t) (node := node) (depsOf m node) q parent (fun _ h => h)
          (hinv.queue node List.mem_cons_self) hq
        exact ih _ _ parent' h hinv'

/-- following the parent pointers yields the reversed walk -/
theorem walkBack_spec {m : TaskMap} {parent : List (Key × Key)} {t : Key}
    (hedge : ∀ d n, (d, n) ∈ parent → d ∈ depsOf m n) :
    ∀ (j : Nat) (n : Key) (fuel : Nat) (acc : List Key) (last : Key), TreePath parent t j n → j < fuel →
    parent.lookup last = some n → last ≠ t →
    Walk m (acc ++ [last]).reverse → (∀ x, x ∈ acc ++ [last] → True) →
    ∃ l, walkBack parent t fuel (some n) (acc ++ [last]) = l ∧ Walk m (l ++ [t]).reverse ∧
      (l ++ [t]).reverse.head? = some t ∧ l.head? = (acc ++ [last]).head? := by
  intro j
  induction j with
  | zero =>
    intro n fuel acc last htp hf hl _ hw _
    cases htp
    cases fuel with
    | zero => omega
    | succ fuel =>
      refine ⟨acc ++ [last], by simp [walkBack], ?_, by simp, rfl⟩
      have hd : last ∈ depsOf m t := hedge _ _ (lookup_mem hl)
      simp only [List.reverse_append, List.reverse_cons, List.reverse_nil, List.nil_append, List.singleton_append]
      have : Walk m ([last] ++ acc.reverse) := by simpa using hw
      exact ⟨hd, by simpa using this⟩
  | succ j ih =>
    intro n fuel acc last htp hf hl hlt hw _
    cases htp with
    | step hne hl' htp' =>
      cases fuel with
      | zero => omega
      | succ fuel =>
        rename_i n'
        simp only [walkBack, hne, if_false]
        have hd : last ∈ depsOf m n := hedge _ _ (lookup_mem hl)
        have hw' : Walk m ((acc ++ [last]) ++ [n]).reverse := by
          simp only [List.reverse_append, List.reverse_cons, List.reverse_nil, List.nil_append,
            List.singleton_append, List.cons_append]
          have : Walk m (last :: acc.reverse) := by simpa using hw
          exact ⟨hd, this⟩
        obtain ⟨l, hl1, hl2, hl3, hl4⟩ := ih n' fuel (acc ++ [last]) n htp' (by omega) hl' hne hw' (fun _ _ => trivial)
        rw [hl']
        refine ⟨l, hl1, hl2, hl3, ?_⟩
        rw [hl4]
        cases acc <;> simp

/-- reachability through recorded dependency edges -/
inductive DepsReach (m : TaskMap) : Key → Key → Prop
  | refl (a : Key) : DepsReach m a a
  | step {a b c : Key} : DepsReach m a b → c ∈ depsOf m b → DepsReach m a c

theorem lookup_isSome_of_mem_keys {parent : List (Key × Key)} {d : Key} (h : d ∈ parent.map (·.1)) :
    (parent.lookup d).isSome = true := by
  induction parent with
  | nil => cases h
  | cons p ps ih =>
    obtain ⟨a, b⟩ := p
    by_cases hx : d == a
    · simp [List.lookup, hx]
    · simp only [List.lookup, hx]
      simp only [List.map_cons, List.mem_cons] at h
      rcases h with h | h
      · subst h; simp at hx
      · exact ih h

theorem bfsVisit_shape (node : Key) : ∀ (ds : List Key) (q : List Key) (parent : List (Key × Key)),
    (∀ x, x ∈ (bfsVisit node ds (q, parent)).1 ↔ x ∈ q ∨ (x ∈ ds ∧ x ∈ ((bfsVisit node ds (q, parent)).2.map (·.1)) ∧ x ∉ parent.map (·.1))) ∧
    (∀ x, x ∈ (bfsVisit node ds (q, parent)).2.map (·.1) ↔ x ∈ parent.map (·.1) ∨ x ∈ ds) := by
  intro ds
  induction ds with
  | nil => intro q parent; simp [bfsVisit]
  | cons d ds ih =>
    intro q parent
    simp only [bfsVisit]
    by_cases hl : (parent.lookup d).isSome
    · rw [if_pos hl]
      obtain ⟨h1, h2⟩ := ih q parent
      have hdmem : d ∈ parent.map (·.1) := by
        obtain ⟨n, hn⟩ := Option.isSome_iff_exists.1 hl
        exact List.mem_map.2 ⟨(d, n), lookup_mem hn, rfl⟩
      refine ⟨fun x => ?_, fun x => ?_⟩
      · rw [h1 x]; simp only [List.mem_cons]; grind
      · rw [h2 x]; simp only [List.mem_cons]; grind
    · rw [if_neg hl]
      obtain ⟨h1, h2⟩ := ih (q ++ [d]) (parent ++ [(d, node)])
      have hdn : d ∉ parent.map (·.1) := fun hmem => hl (lookup_isSome_of_mem_keys hmem)
      refine ⟨fun x => ?_, fun x => ?_⟩
      · rw [h1 x]; simp only [List.mem_append, List.mem_singleton, List.map_append, List.map_cons, List.map_nil, List.mem_cons]
        rw [h2 x]; simp only [List.mem_append, List.map_append, List.map_cons, List.map_nil, List.mem_singleton]
        grind
      · rw [h2 x]; simp only [List.mem_append, List.map_append, List.map_cons, List.map_nil, List.mem_singleton, List.mem_cons]
        grind

/-- completeness invariant: `P` = nodes already expanded -/
structure BfsDone (m : TaskMap) (t c : Key) (P q : List Key) (parent : List (Key × Key)) : Prop where
  disc : ∀ x, (x = t ∨ x ∈ parent.map (·.1)) → x ∈ P ∨ x ∈ q
  closed : ∀ p ∈ P, ∀ d ∈ depsOf m p, d = t ∨ d ∈ parent.map (·.1)
  notc : c ∉ P

theorem bfsLoop_complete {m : TaskMap} {t c : Key} : ∀ (fuel : Nat) (P q : List Key) (parent parent' : List (Key × Key)),
    bfsLoop m c fuel q parent = some (false, parent') → BfsDone m t c P q parent →
    ∃ P', BfsDone m t c P' [] parent' := by
  intro fuel
  induction fuel with
  | zero => intro P q parent parent' h; simp [bfsLoop] at h
  | succ fuel ih =>
    intro P q parent parent' h hinv
    cases q with
    | nil =>
      simp only [bfsLoop, Option.some.injEq, Prod.mk.injEq, true_and] at h
      subst h
      exact ⟨P, hinv⟩
    | cons node q =>
      simp only [bfsLoop] at h
      by_cases hc : node = c
      · simp [hc] at h
      · simp only [hc, if_false] at h
        obtain ⟨hs1, hs2⟩ := bfsVisit_shape node (depsOf m node) q parent
        refine ih (node :: P) _ _ parent' h ?_
        exact
        { disc := fun x hx => by
            rcases hx with hx | hx
            · rcases hinv.disc x (Or.inl hx) with h1 | h1
              · exact Or.inl (List.mem_cons_of_mem _ h1)
              · rcases List.mem_cons.1 h1 with h2 | h2
                · exact Or.inl (h2 ▸ List.mem_cons_self)
                · exact Or.inr ((hs1 x).2 (Or.inl h2))
            · rcases (hs2 x).1 hx with h1 | h1
              · rcases hinv.disc x (Or.inr h1) with h2 | h2
                · exact Or.inl (List.mem_cons_of_mem _ h2)
                · rcases List.mem_cons.1 h2 with h3 | h3
                  · exact Or.inl (h3 ▸ List.mem_cons_self)
                  · exact Or.inr ((hs1 x).2 (Or.inl h3))
              · by_cases hp : x ∈ parent.map (·.1)
                · rcases hinv.disc x (Or.inr hp) with h2 | h2
                  · exact Or.inl (List.mem_cons_of_mem _ h2)
                  · rcases List.mem_cons.1 h2 with h3 | h3
                    · exact Or.inl (h3 ▸ List.mem_cons_self)
                    · exact Or.inr ((hs1 x).2 (Or.inl h3))
                · exact Or.inr ((hs1 x).2 (Or.inr ⟨h1, hx, hp⟩)),
          closed := fun p hp d hd => by
            rcases List.mem_cons.1 hp with h1 | h1
            · subst h1
              exact Or.inr ((hs2 d).2 (Or.inr hd))
            · rcases hinv.closed p h1 d hd with h2 | h2
              · exact Or.inl h2
              · exact Or.inr ((hs2 d).2 (Or.inl h2)),
          notc := fun hmem => by
            rcases List.mem_cons.1 hmem with h1 | h1
            · exact hc h1.symm
            · exact hinv.notc h1 }

end PCV.IncrFail
