/-
Completeness of the fuel-bounded import DFS `World.reachesCycle` (PCV.Model.Exec): a file that lies on
an import cycle is reported, whatever the size of the graph. (Soundness direction and the use of the
lemma are in Props.C05 / Props.C06D.)
-/
import PCV.Model.Exec
import Batteries.Data.List.Perm
namespace PCV.Exec

/-- reachability along imports (reflexive-transitive) -/
inductive Reach (w : World) : File → File → Prop
  | refl (f : File) : Reach w f f
  | step {f d g : File} : d ∈ w.imports f → Reach w d g → Reach w f g

/-- reachability in at least one import step -/
def TReach (w : World) (f g : File) : Prop := ∃ d, d ∈ w.imports f ∧ Reach w d g

theorem reach_snoc (w : World) {a b c : File} (h : Reach w a b) (hc : c ∈ w.imports b) : Reach w a c := by
  induction h with
  | refl f => exact Reach.step hc (Reach.refl c)
  | step hd _ ih => exact Reach.step hd (ih hc)

theorem reach_trans (w : World) {a b c : File} (h : Reach w a b) (h2 : Reach w b c) : Reach w a c := by
  induction h with
  | refl f => exact h2
  | step hd _ ih => exact Reach.step hd (ih h2)

def keysW (w : World) : List File := w.files.map (·.1)

theorem mem_keysW_of_imports (w : World) (v d : File) (h : d ∈ w.imports v) : v ∈ keysW w := by
  unfold World.imports at h
  cases hf : w.files.find? (·.1 == v) with
  | none => simp [hf] at h
  | some x =>
    have hm := List.mem_of_find?_eq_some hf
    have hx := List.find?_some hf
    have : x.1 = v := by simpa using hx
    exact List.mem_map.mpr ⟨x, hm, this⟩

/-- `v` lies on a cycle through `f` -/
def OnCyc (w : World) (f v : File) : Prop := Reach w f v ∧ TReach w v f

theorem onCyc_succ (w : World) (f v : File) (hf : TReach w f f) (h : OnCyc w f v) :
    ∃ d, d ∈ w.imports v ∧ OnCyc w f d := by
  obtain ⟨hfv, d, hd, hdf⟩ := h
  refine ⟨d, hd, reach_snoc w hfv hd, ?_⟩
  cases hdf with
  | refl _ => exact hf
  | step hd' hr' => exact ⟨_, hd', hr'⟩

theorem nodup_subset_length {l k : List File} (hn : l.Nodup) (hs : ∀ x ∈ l, x ∈ k) : l.length ≤ k.length :=
  (List.subperm_of_subset hn hs).length_le

/-- the DFS with `n+1` units of fuel succeeds from any vertex of a cycle as long as the DFS stack is a
    duplicate-free list of declared files and enough fuel is left for the undiscovered files -/
theorem reachesCycleAux_complete (w : World) (f : File) (hf : TReach w f f) :
    ∀ n path v, OnCyc w f v → path.Nodup → v ∉ path → (∀ u ∈ path, u ∈ keysW w) →
      w.files.length ≤ path.length + n → reachesCycleAux w (n+1) path v = true := by
  intro n
  induction n with
  | zero =>
    intro path v hv hn hvp hk hlen
    obtain ⟨d, hd, _⟩ := onCyc_succ w f v hf hv
    have hvk := mem_keysW_of_imports w v d hd
    have : (v :: path).length ≤ (keysW w).length :=
      nodup_subset_length (List.nodup_cons.mpr ⟨hvp, hn⟩) (by
        intro x hx
        rcases List.mem_cons.mp hx with rfl | hx
        · exact hvk
        · exact hk x hx)
    simp [keysW] at this
    omega
  | succ n ih =>
    intro path v hv hn hvp hk hlen
    obtain ⟨d, hd, hdc⟩ := onCyc_succ w f v hf hv
    unfold reachesCycleAux
    rw [List.any_eq_true]
    refine ⟨d, hd, ?_⟩
    by_cases h1 : d = v
    · simp [h1]
    by_cases h2 : d ∈ path
    · simp [h2]
    have hvk := mem_keysW_of_imports w v d hd
    have := ih (v :: path) d hdc (List.nodup_cons.mpr ⟨hvp, hn⟩)
      (by intro h; rcases List.mem_cons.mp h with h | h; exact h1 h; exact h2 h)
      (by intro u hu; rcases List.mem_cons.mp hu with rfl | hu; exact hvk; exact hk u hu)
      (by simp; omega)
    simp [this]

/-- **completeness of the import-cycle test**: a file on an import cycle is found -/
theorem reachesCycle_complete (w : World) (f : File) (hf : TReach w f f) : w.reachesCycle f = true := by
  unfold World.reachesCycle
  exact reachesCycleAux_complete w f hf w.files.length [] f ⟨Reach.refl f, hf⟩ List.nodup_nil
    (by simp) (by simp) (by simp)

end PCV.Exec
