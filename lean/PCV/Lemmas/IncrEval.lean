/-
Fresh evaluation (denotation of a query graph) and soundness of the memo table w.r.t. it.
-/
import PCV.Lemmas.Incr
namespace PCV.Incr

/-- `EvalS body s r`: script `s` evaluates to `r` when every `Resolve k` is answered by
    evaluating `body k` from scratch.  No state: this is "what a fresh computation returns". -/
inductive EvalS (body : Key → Script) : Script → Res → Prop
  | ret (r : Res) : EvalS body (.ret r) r
  | resolve (ks : List Key) (cont : List Res → Script) (rs : List Res) (r : Res) :
      rs.length = ks.length →
      (∀ i (h1 : i < ks.length) (h2 : i < rs.length), EvalS body (body ks[i]) rs[i]) →
      EvalS body (cont rs) r → EvalS body (.resolve ks cont) r

/-- the value of query `k` computed from scratch -/
def Eval (body : Key → Script) (k : Key) (r : Res) : Prop := EvalS body (body k) r

theorem EvalS.det {body : Key → Script} {s : Script} {r1 : Res} (h1 : EvalS body s r1) :
    ∀ r2, EvalS body s r2 → r1 = r2 := by
  induction h1 with
  | ret r => intro r2 h2; cases h2; rfl
  | resolve ks cont rs r hlen _ _ ihk ihc =>
    intro r2 h2
    cases h2 with
    | resolve _ _ rs' _ hlen' hk' hc' =>
      have : rs = rs' := by
        apply List.ext_getElem (by rw [hlen, hlen'])
        intro i h1 h2
        exact ihk i (by rw [← hlen]; exact h1) h1 _ (hk' i (by rw [← hlen]; exact h1) h2)
      subst this
      exact ihc r2 hc'

theorem Eval.det {body : Key → Script} {k : Key} {r1 r2 : Res} (h1 : Eval body k r1) (h2 : Eval body k r2) :
    r1 = r2 := EvalS.det h1 r2 h2

/-- every `Resolve` reachable in the script (under any answers) asks only for keys of rank `< n` -/
inductive ScriptBelow (rank : Key → Nat) (n : Nat) : Script → Prop
  | ret (r : Res) : ScriptBelow rank n (.ret r)
  | resolve (ks : List Key) (cont : List Res → Script) :
      (∀ k ∈ ks, rank k < n) → (∀ rs, ScriptBelow rank n (cont rs)) → ScriptBelow rank n (.resolve ks cont)

/-- the query graph is a DAG: every query only ever resolves queries of smaller rank -/
def Ranked (rank : Key → Nat) (body : Key → Script) : Prop := ∀ k, ScriptBelow rank (rank k) (body k)

theorem Replay.toEval {body : Key → Script} {rank : Key → Nat} {n : Nat} {M : Key → Option Res}
    {s : Script} {v : Res} {ds : List Key} (h : Replay M s v ds) (hb : ScriptBelow rank n s)
    (hM : ∀ d, rank d < n → ∀ v', M d = some v' → Eval body d v') : EvalS body s v := by
  induction h with
  | ret r => exact .ret r
  | resolve ks cont rs r ds hks _ ih =>
    cases hb with
    | resolve _ _ hlt hcont =>
      have hlen : rs.length = ks.length := by
        have := congrArg List.length hks; simp at this; exact this.symm
      refine .resolve ks cont rs r hlen ?_ (ih (hcont rs))
      intro i h1 h2
      have hm : M ks[i] = some rs[i] := by
        have := congrArg (fun l => l[i]?) hks
        simp [h1, h2] at this
        exact this
      exact hM ks[i] (hlt _ (List.getElem_mem h1)) _ hm

/-- **Soundness of the memo table**: under the invariant, every memoized value is the value a
    fresh evaluation gives. -/
theorem Inv.sound {body : Key → Script} {rank : Key → Nat} {st : St} (hinv : Inv body st)
    (hrk : Ranked rank body) : ∀ n k r, rank k < n → resultOf st.tasks k = .done r → Eval body k r.val := by
  intro n
  induction n with
  | zero => intro k r h; omega
  | succ n ih =>
    intro k r hk hres
    obtain ⟨ds, hrep, _⟩ := hinv.replay k r hres
    refine hrep.toEval (hrk k) ?_
    intro d hd v' hm
    obtain ⟨r', hr', hv'⟩ := memo_eq_some.1 hm
    rw [← hv']
    exact ih d r' (by omega) hr'

inductive EvalL (body : Key → Script) : List Key → List Res → Prop
  | nil : EvalL body [] []
  | cons {k : Key} {r : Res} {ks : List Key} {rs : List Res} :
      Eval body k r → EvalL body ks rs → EvalL body (k :: ks) (r :: rs)

theorem EvalL.det {body : Key → Script} {ks : List Key} {rs1 rs2 : List Res}
    (h1 : EvalL body ks rs1) (h2 : EvalL body ks rs2) : rs1 = rs2 := by
  induction h1 generalizing rs2 with
  | nil => cases h2; rfl
  | cons hd _ ih =>
    cases h2 with
    | cons hd' tl' => rw [Eval.det hd hd', ih tl']

theorem AllDone.evalL {body : Key → Script} {rank : Key → Nat} {st : St} (hinv : Inv body st)
    (hrk : Ranked rank body) {ks : List Key} {rs : List Result} (h : AllDone st.tasks ks rs) :
    EvalL body ks (rs.map (·.val)) := by
  induction h with
  | nil => exact .nil
  | cons hd _ ih => exact .cons (hinv.sound hrk _ _ _ (Nat.lt_succ_self _) hd) ih

/-! ### `Run` -/

theorem Inv.empty (body : Key → Script) : Inv body {} :=
  { sym := fun c d => by simp [depsOf, callersOf],
    replay := fun k r h => by simp [resultOf] at h,
    runid := fun k r h => by simp [resultOf] at h }

/-- everything `Run` guarantees at the level of the invariant -/
theorem run_spec {body : Key → Script} {fuel : Nat} {st st' : St} {roots : List Key}
    {out : List (Res × Bool)} (hinv : Inv body st) (h : run body fuel st roots = some (st', out)) :
    ∃ (st0 : St) (rs : List Result),
      st0.counter = st.counter + 1 ∧ st0.log = st.log ∧ st0.obs = st.obs ∧
      (∀ k, resultOf st0.tasks k = resultOf st.tasks k) ∧
      (∀ k, depsOf st0.tasks k = depsOf st.tasks k) ∧
      Inv body st0 ∧ Inv body st' ∧ Ext (st.counter + 1) st0 st' ∧ AllDone st'.tasks roots rs ∧
      out = rs.map (fun r => (r.val, r.runID == st.counter + 1)) := by
  unfold run at h
  simp only at h
  let stc : St := { st with counter := st.counter + 1 }
  have hinvc : Inv body stc :=
    { sym := hinv.sym, replay := hinv.replay, runid := fun k r hr => Nat.le_succ_of_le (hinv.runid k r hr) }
  obtain ⟨hinv0, _, hks0, _⟩ :=
    recordEdges_step (gen := st.counter + 1) (st := stc) none roots hinvc (fun c hc => by cases hc)
  cases hm : resolveManyWith (execKey body (st.counter + 1) fuel) (st.counter + 1)
      { st with counter := st.counter + 1, tasks := recordEdges st.tasks none roots } roots with
  | none => simp [hm] at h
  | some q =>
    obtain ⟨st1, rs⟩ := q
    simp only [hm, Option.some.injEq, Prod.mk.injEq] at h
    obtain ⟨rfl, rfl⟩ := h
    obtain ⟨hinv1, hext1, hall⟩ :=
      resolveMany_spec (execKey_spec body (st.counter + 1) fuel) roots _ st1 rs hm hinv0 rfl hks0
    exact ⟨{ st with counter := st.counter + 1, tasks := recordEdges st.tasks none roots }, rs, rfl, rfl, rfl, fun k => resultOf_recordEdges none roots st.tasks k,
      fun k => depsOf_recordEdges_none roots st.tasks k, hinv0, hinv1, hext1, hall, rfl⟩

end PCV.Incr
