/-
Lemmas for Props/C01: the "first entry seen per name" loops of linker/validate.go
(validateFieldJSONNames, validateJSONNamesInEnum) report a clash iff some two entries with the
same name clash — although later entries are only ever compared with the FIRST one of their name.
-/
import PCV.Lemmas.MiniProtoBridge
namespace PCV.MiniProto
open PCV.MiniProto.Spec

/-- names in the Go map are unique -/
def UniqueNames {β : Type} (seen : List (String × β)) : Prop := seen.Pairwise (fun a b => a.1 ≠ b.1)

theorem find_some {β : Type} {seen : List (String × β)} {name : String} {ex : String × β}
    (h : seen.find? (fun s => s.1 == name) = some ex) : ex ∈ seen ∧ ex.1 = name := by
  refine ⟨List.mem_of_find?_eq_some h, ?_⟩
  have := List.find?_some h
  simpa using this

theorem find_none {β : Type} {seen : List (String × β)} {name : String}
    (h : seen.find? (fun s => s.1 == name) = none) : ∀ s ∈ seen, s.1 ≠ name := by
  intro s hs
  have := List.find?_eq_none.mp h s hs
  simpa using this

theorem unique_eq {β : Type} {seen : List (String × β)} (hu : UniqueNames seen) {a b : String × β}
    (ha : a ∈ seen) (hb : b ∈ seen) (h : a.1 = b.1) : a = b := by
  induction seen with
  | nil => exact absurd ha (by simp)
  | cons x rest ih =>
    have hp := List.pairwise_cons.mp hu
    rcases List.mem_cons.mp ha with rfl | ha' <;> rcases List.mem_cons.mp hb with rfl | hb'
    · rfl
    · exact absurd h (hp.1 b hb')
    · exact absurd h.symm (hp.1 a ha')
    · exact ih hp.2 ha' hb'

/-- the loop reports iff a later entry clashes with an entry of the same name in the map, or two
    of the remaining entries clash. `transfer`: if `x` does not clash with the stored `ex`, then
    whatever clashes with `x` also clashes with `ex` — true of both instances, and exactly what
    makes comparing with the first entry only sufficient. -/
theorem firstSeenLoop_iff {β : Type} (clash : β → β → Bool)
    (transfer : ∀ x ex b, clash x ex = false → clash b x = true → clash b ex = true) :
    ∀ (rest seen : List (String × β)), UniqueNames seen →
      (firstSeenLoop clash seen rest = true ↔
        (∃ x ∈ rest, ∃ s ∈ seen, s.1 = x.1 ∧ clash x.2 s.2 = true) ∨
        SomePair (fun a b => a.1 = b.1 ∧ clash b.2 a.2 = true) rest) := by
  intro rest
  induction rest with
  | nil => intro seen _; simp [firstSeenLoop, SomePair]
  | cons x rest ih =>
    intro seen hu
    obtain ⟨name, v⟩ := x
    unfold firstSeenLoop
    rw [somePair_cons]
    cases hf : seen.find? (fun s => s.1 == name) with
    | some ex =>
      obtain ⟨hex, hname⟩ := find_some hf
      simp only [Bool.or_eq_true]
      rw [ih seen hu]
      constructor
      · rintro (h | ⟨y, hy, s, hs, h⟩ | h)
        · left; exact ⟨(name, v), List.mem_cons_self .., ex, hex, hname, h⟩
        · left; exact ⟨y, List.mem_cons_of_mem _ hy, s, hs, h⟩
        · right; right; exact h
      · rintro (⟨y, hy, s, hs, h1, h2⟩ | ⟨b, hb, h1, h2⟩ | h)
        · rcases List.mem_cons.mp hy with rfl | hy'
          · left
            have : s = ex := unique_eq hu hs hex (by rw [h1, hname])
            rw [this] at h2; exact h2
          · right; left; exact ⟨y, hy', s, hs, h1, h2⟩
        · -- a later entry clashes with this one: then it clashes with the stored one too
          cases hc : clash v ex.2 with
          | true => left; rfl
          | false =>
            right; left
            refine ⟨b, hb, ex, hex, by rw [hname]; exact h1, transfer v ex.2 b.2 hc h2⟩
        · right; right; exact h
    | none =>
      have hno := find_none hf
      have hu' : UniqueNames ((name, v) :: seen) :=
        List.pairwise_cons.mpr ⟨fun s hs => (hno s hs).symm, hu⟩
      simp only
      rw [ih _ hu']
      constructor
      · rintro (⟨y, hy, s, hs, h1, h2⟩ | h)
        · rcases List.mem_cons.mp hs with rfl | hs'
          · right; left; exact ⟨y, hy, h1, h2⟩
          · left; exact ⟨y, List.mem_cons_of_mem _ hy, s, hs', h1, h2⟩
        · right; right; exact h
      · rintro (⟨y, hy, s, hs, h1, h2⟩ | ⟨b, hb, h1, h2⟩ | h)
        · rcases List.mem_cons.mp hy with rfl | hy'
          · exact absurd h1 (hno s hs)
          · left; exact ⟨y, hy', s, List.mem_cons_of_mem _ hs, h1, h2⟩
        · left; exact ⟨b, hb, (name, v), List.mem_cons_self .., h1, h2⟩
        · right; exact h

theorem firstSeenLoop_nil_iff {β : Type} (clash : β → β → Bool)
    (transfer : ∀ x ex b, clash x ex = false → clash b x = true → clash b ex = true) (l : List (String × β)) :
    firstSeenLoop clash [] l = true ↔ SomePair (fun a b => a.1 = b.1 ∧ clash b.2 a.2 = true) l := by
  rw [firstSeenLoop_iff clash transfer l [] (by simp [UniqueNames])]
  simp

/-! ### the two instances -/

theorem somePairB_map {α β : Type} (f : α → β) (R : β → β → Bool) (l : List α) :
    somePairB R (l.map f) = somePairB (fun a b => R (f a) (f b)) l := by
  induction l with
  | nil => rfl
  | cons a rest ih => simp [somePairB, ih, List.any_map, Function.comp_def]

theorem somePairB_congr {α : Type} (R S : α → α → Bool) (h : ∀ a b, R a b = S a b) (l : List α) :
    somePairB R l = somePairB S l := by
  have : R = S := funext (fun a => funext (h a))
  rw [this]

theorem somePairB_false {α : Type} (l : List α) : somePairB (fun (_ _ : α) => false) l = false := by
  induction l with
  | nil => rfl
  | cons a rest ih => simp [somePairB, ih]

/-- **enum value JSON names**: an error iff two values have the same canonical name and
    different numbers -/
theorem enumJsonConflict_go_eq (vs : List (String × Int)) : enumJsonConflictGo vs = enumJsonConflictB vs := by
  apply bool_eq_of_iff
  unfold enumJsonConflictGo enumJsonConflictB
  rw [firstSeenLoop_nil_iff, somePairB_iff]
  · unfold SomePair
    simp only [Bool.and_eq_true, beq_iff_eq, bne_iff_ne, ne_eq]
    constructor
    · intro h hp; apply h; refine List.Pairwise.imp ?_ hp
      rintro a b hab ⟨h1, h2⟩; exact hab ⟨h1, fun e => h2 e.symm⟩
    · intro h hp; apply h; refine List.Pairwise.imp ?_ hp
      rintro a b hab ⟨h1, h2⟩; exact hab ⟨h1, fun e => h2 e.symm⟩
  · intro x ex b h1 h2
    simp only [bne_eq_false_iff_eq, bne_iff_ne, ne_eq] at *
    omega

theorem jsonClash_transfer (compliant useCustom : Bool) :
    ∀ x ex b, jsonClash compliant useCustom x ex = false → jsonClash compliant useCustom b x = true →
      jsonClash compliant useCustom b ex = true := by
  intro x ex b
  cases compliant <;> cases useCustom <;> cases x <;> cases ex <;> cases b <;> simp [jsonClash]

theorem jsonPass_iff (compliant useCustom : Bool) (fs : List (String × String × Bool)) :
    jsonNamesLoop compliant useCustom fs = true ↔
      somePairB (fun a b => (jsonPassView useCustom a).1 == (jsonPassView useCustom b).1 &&
        jsonClash compliant useCustom (jsonPassView useCustom b).2 (jsonPassView useCustom a).2) fs = true := by
  unfold jsonNamesLoop
  rw [firstSeenLoop_nil_iff _ (jsonClash_transfer compliant useCustom), ← somePairB_map (jsonPassView useCustom)
    (fun a b => a.1 == b.1 && jsonClash compliant useCustom b.2 a.2), somePairB_iff]
  unfold SomePair
  simp only [Bool.and_eq_true, beq_iff_eq]

/-- **JSON-name conflicts**: the two passes of validateFieldJSONNames report an error iff two
    fields share a default JSON name in a JSON-compliant message, or two fields' effective names
    collide and one of them is custom -/
theorem jsonConflict_go_eq (compliant : Bool) (fs : List (String × String × Bool)) :
    jsonConflictGo compliant fs = jsonConflictB compliant fs := by
  apply bool_eq_of_iff
  unfold jsonConflictGo jsonConflictB
  simp only [Bool.or_eq_true]
  rw [jsonPass_iff, jsonPass_iff]
  have e1 : somePairB (fun a b => (jsonPassView false a).1 == (jsonPassView false b).1 &&
        jsonClash compliant false (jsonPassView false b).2 (jsonPassView false a).2) fs =
      (compliant && somePairB (fun a b => a.1 == b.1) fs) := by
    cases compliant
    · rw [somePairB_congr _ (fun _ _ => false) (by intro a b; simp [jsonPassView, jsonClash]), somePairB_false]
      simp
    · rw [somePairB_congr _ (fun a b => a.1 == b.1) (by intro a b; simp [jsonPassView, jsonClash])]
      simp
  have e2 : somePairB (fun a b => (jsonPassView true a).1 == (jsonPassView true b).1 &&
        jsonClash compliant true (jsonPassView true b).2 (jsonPassView true a).2) fs =
      somePairB (fun a b => (if a.2.2 then a.2.1 else a.1) == (if b.2.2 then b.2.1 else b.1) && (a.2.2 || b.2.2)) fs := by
    apply somePairB_congr
    intro a b
    obtain ⟨a1, a2, a3⟩ := a
    obtain ⟨b1, b2, b3⟩ := b
    cases compliant <;> cases a3 <;> cases b3 <;> simp [jsonPassView, jsonClash]
  rw [e1, e2]

end PCV.MiniProto
