/-
Lemmas for C11: printing every item's leading whitespace and raw text in item order reproduces
the data when the items tile it; the AST print is the item print when the walk visits the
items in order.
-/
import PCV.Model.FileInfo
import PCV.Lemmas.LexInv
namespace PCV.Lemmas.Print
open PCV.FileInfo PCV.Lemmas.LexInv

theorem slice_append (d : List UInt8) (a b c : Nat) (h1 : a ≤ b) (h2 : b ≤ c) :
    slice d a b ++ slice d b c = slice d a c := by
  unfold slice
  have hc : c - a = (b - a) + (c - b) := by omega
  rw [hc, List.take_add, List.drop_drop]
  have : a + (b - a) = b := by omega
  rw [this]

theorem slice_full (d : List UInt8) : slice d 0 d.length = d := by simp [slice]

theorem endFrom_take_succ (items : List Item) (k : Nat) (it : Item) (h : items[k]? = some it) :
    endFrom 0 (items.take (k + 1)) = it.off + it.len := by
  have hk : k < items.length := by
    rcases Nat.lt_or_ge k items.length with h' | h'
    · exact h'
    · rw [List.getElem?_eq_none h'] at h; cases h
  rw [List.take_succ_eq_append_getElem hk]
  have : items[k] = it := by
    rw [List.getElem?_eq_getElem hk] at h; simpa using h
  rw [this, endFrom_append]

theorem itemsOk_take (pe : Nat) (items : List Item) (k : Nat) (h : ItemsOk pe items) :
    ItemsOk pe (items.take k) := by
  induction items generalizing pe k with
  | nil => simp [ItemsOk]
  | cons x xs ih =>
    cases k with
    | zero => simp [ItemsOk]
    | succ k => simp only [List.take_succ_cons, ItemsOk] at h ⊢; exact ⟨h.1, ih _ k h.2⟩

theorem itemsOk_endFrom_le (items : List Item) (k : Nat) (it : Item) (h : ItemsOk 0 items)
    (hk : items[k]? = some it) : endFrom 0 (items.take k) ≤ it.off := by
  have hlt : k < items.length := by
    rcases Nat.lt_or_ge k items.length with h' | h'
    · exact h'
    · rw [List.getElem?_eq_none h'] at hk; cases hk
  have h2 := itemsOk_take 0 items (k + 1) h
  rw [List.take_succ_eq_append_getElem hlt] at h2
  have := (itemsOk_append 0 _ _).mp h2
  have heq : items[k] = it := by
    rw [List.getElem?_eq_getElem hlt] at hk; simpa using hk
  rw [heq] at this
  exact this.2

theorem prevEnd_eq (f : FI) (k : Nat) (hk : k ≤ f.items.length) :
    prevEnd f k = endFrom 0 (f.items.take k) := by
  unfold prevEnd
  cases k with
  | zero => simp [endFrom]
  | succ k =>
    have hlt : k < f.items.length := by omega
    simp only [Nat.add_eq_zero_iff, Nat.succ_ne_self, and_false, if_false, Nat.add_sub_cancel]
    rw [List.getElem?_eq_getElem hlt]
    simp only
    rw [endFrom_take_succ f.items k f.items[k] (List.getElem?_eq_getElem hlt)]

/-- the first `k` items print exactly the data up to the end of item `k-1` -/
theorem print_prefix (f : FI) (h : ItemsOk 0 f.items) :
    ∀ k, k ≤ f.items.length →
      (List.range k).flatMap (printItem f) = slice f.data 0 (endFrom 0 (f.items.take k)) := by
  intro k
  induction k with
  | zero => intro _; simp [endFrom, slice]
  | succ k ih =>
    intro hk
    have hlt : k < f.items.length := by omega
    have hget : f.items[k]? = some f.items[k] := List.getElem?_eq_getElem hlt
    rw [List.range_succ, List.flatMap_append, ih (by omega)]
    simp only [List.flatMap_cons, List.flatMap_nil, List.append_nil, printItem, leadingWS, rawText, hget]
    rw [prevEnd_eq f k (by omega), endFrom_take_succ f.items k _ hget]
    have hle := itemsOk_endFrom_le f.items k _ h hget
    rw [← List.append_assoc, slice_append _ _ _ _ (Nat.zero_le _) hle,
      slice_append _ _ _ _ (Nat.zero_le _) (by omega)]

/-- **print = data** for an item table that tiles the data: items in order and not overlapping
    (`AddToken`'s check) and ending at the end of the data (the EOF item) -/
theorem printItems_eq_data (f : FI) (h : ItemsOk 0 f.items) (hend : endFrom 0 f.items = f.data.length) :
    printItems f = f.data := by
  unfold printItems
  rw [print_prefix f h f.items.length (Nat.le_refl _), List.take_length, hend, slice_full]

/-- the AST print visits items through comments and tokens; it is the item print of the visit order -/
theorem printAST_eq_visit (f : FI) (toks : List Nat) :
    printAST f toks = (visitOrder f toks).flatMap (printItem f) := by
  unfold printAST visitOrder
  rw [List.flatMap_assoc]
  congr 1
  funext t
  simp [printToken, printComments, printItem, List.flatMap_append, List.flatMap_map]

/-- if the walk visits every item exactly once, in order, the AST print is the item print -/
theorem printAST_eq_printItems (f : FI) (toks : List Nat)
    (hv : visitOrder f toks = List.range f.items.length) : printAST f toks = printItems f := by
  rw [printAST_eq_visit, hv, printItems]

end PCV.Lemmas.Print
