/-
Invariants and lemmas about the sequential executor model `PCV.Model.Incr` (for C33/C35).
-/
import PCV.Model.Incr
namespace PCV.Incr

/-! ### Map lemmas -/

@[simp] theorem upd_get (m : TaskMap) (k : Key) (t : Task) (k' : Key) :
    (upd m k t).get k' = if k' = k then some t else m.get k' := rfl

theorem modify_get (m : TaskMap) (k : Key) (f : Task → Task) (k' : Key) :
    (modify m k f).get k' = if k' = k then (m.get k).map f else m.get k' := by
  unfold modify
  cases h : m.get k with
  | none => by_cases hk : k' = k <;> simp [hk, h]
  | some t => by_cases hk : k' = k <;> simp [hk]

theorem getOrCreate_get (m : TaskMap) (k k' : Key) :
    (getOrCreate m k).get k' = if k' = k then some ((m.get k).getD {}) else m.get k' := by
  unfold getOrCreate
  cases h : m.get k with
  | none => by_cases hk : k' = k <;> simp [hk]
  | some t => by_cases hk : k' = k <;> simp [hk, h]

def exists_ (m : TaskMap) (k : Key) : Prop := (m.get k).isSome = true

instance (m : TaskMap) (k : Key) : Decidable (exists_ m k) := by unfold exists_; infer_instance

/-- memo view: the value of a completed task -/
def memo (m : TaskMap) (k : Key) : Option Res :=
  match resultOf m k with
  | .done r => some r.val
  | _ => none

theorem memo_eq_some {m : TaskMap} {k : Key} {v : Res} :
    memo m k = some v ↔ ∃ r, resultOf m k = .done r ∧ r.val = v := by
  unfold memo
  cases h : resultOf m k <;> simp


/-! ### Effect of the primitives on the views `resultOf`, `depsOf`, `callersOf`, `exists_` -/

theorem mem_insertNew {l : List Key} {k x : Key} : x ∈ insertNew l k ↔ x ∈ l ∨ x = k := by
  unfold insertNew
  by_cases h : k ∈ l
  · simp only [h, if_true]; constructor
    · exact Or.inl
    · rintro (h1 | h1); exact h1; exact h1 ▸ h
  · simp [h]

theorem resultOf_getOrCreate (m : TaskMap) (d k : Key) : resultOf (getOrCreate m d) k = resultOf m k := by
  unfold resultOf; rw [getOrCreate_get]
  by_cases h : k = d
  · subst h; cases m.get k <;> simp
  · simp [h]

theorem depsOf_getOrCreate (m : TaskMap) (d k : Key) : depsOf (getOrCreate m d) k = depsOf m k := by
  unfold depsOf; rw [getOrCreate_get]
  by_cases h : k = d
  · subst h; cases m.get k <;> simp
  · simp [h]

theorem callersOf_getOrCreate (m : TaskMap) (d k : Key) : callersOf (getOrCreate m d) k = callersOf m k := by
  unfold callersOf; rw [getOrCreate_get]
  by_cases h : k = d
  · subst h; cases m.get k <;> simp
  · simp [h]

theorem exists_getOrCreate (m : TaskMap) (d k : Key) : exists_ (getOrCreate m d) k ↔ k = d ∨ exists_ m k := by
  unfold exists_; rw [getOrCreate_get]
  by_cases h : k = d <;> simp [h]

theorem exists_modify (m : TaskMap) (c : Key) (f : Task → Task) (k : Key) :
    exists_ (modify m c f) k ↔ exists_ m k := by
  unfold exists_; rw [modify_get]
  by_cases h : k = c
  · subst h; cases m.get k <;> simp
  · simp [h]

theorem resultOf_modify (m : TaskMap) (c : Key) (f : Task → Task) (hf : ∀ t, (f t).result = t.result) (k : Key) :
    resultOf (modify m c f) k = resultOf m k := by
  unfold resultOf; rw [modify_get]
  by_cases h : k = c
  · subst h; cases m.get k <;> simp [hf]
  · simp [h]

theorem depsOf_modify (m : TaskMap) (c : Key) (f : Task → Task) (k : Key) :
    depsOf (modify m c f) k = if k = c then (match m.get c with | some t => (f t).deps | none => []) else depsOf m k := by
  unfold depsOf; rw [modify_get]
  by_cases h : k = c
  · subst h; cases m.get k <;> simp
  · simp [h]

theorem callersOf_modify (m : TaskMap) (c : Key) (f : Task → Task) (k : Key) :
    callersOf (modify m c f) k = if k = c then (match m.get c with | some t => (f t).callers | none => []) else callersOf m k := by
  unfold callersOf; rw [modify_get]
  by_cases h : k = c
  · subst h; cases m.get k <;> simp
  · simp [h]

theorem resultOf_addEdge (m : TaskMap) (c d k : Key) : resultOf (addEdge m c d) k = resultOf m k := by
  unfold addEdge
  rw [resultOf_modify, resultOf_modify] <;> intro t <;> rfl

theorem exists_addEdge (m : TaskMap) (c d k : Key) : exists_ (addEdge m c d) k ↔ exists_ m k := by
  unfold addEdge; rw [exists_modify, exists_modify]

theorem mem_depsOf_addEdge (m : TaskMap) (c d k x : Key) :
    x ∈ depsOf (addEdge m c d) k ↔ x ∈ depsOf m k ∨ (k = c ∧ x = d ∧ exists_ m c) := by
  unfold addEdge
  rw [depsOf_modify]
  have h2 : ∀ k, depsOf (modify m c (fun t => { t with deps := insertNew t.deps d })) k
      = if k = c then (match m.get c with | some t => insertNew t.deps d | none => []) else depsOf m k := by
    intro k; rw [depsOf_modify]
  by_cases hkd : k = d
  · subst hkd
    simp only [if_true]
    rw [modify_get]
    by_cases hkc : k = c
    · subst hkc
      simp only [if_true, exists_, depsOf]
      cases m.get k <;> simp [mem_insertNew]
    · simp only [hkc, if_false]
      have : depsOf m k = match m.get k with | some t => t.deps | none => [] := rfl
      rw [this]
      cases m.get k <;> simp
  · simp only [hkd, if_false]
    rw [h2]
    by_cases hkc : k = c
    · subst hkc
      simp only [if_true, exists_, depsOf]
      cases m.get k <;> simp [mem_insertNew]
    · simp [hkc]

theorem mem_callersOf_addEdge (m : TaskMap) (c d k x : Key) :
    x ∈ callersOf (addEdge m c d) k ↔ x ∈ callersOf m k ∨ (k = d ∧ x = c ∧ exists_ m d) := by
  unfold addEdge
  rw [callersOf_modify]
  by_cases hkd : k = d
  · subst hkd
    simp only [if_true]
    rw [modify_get]
    by_cases hkc : k = c
    · subst hkc
      simp only [if_true, exists_, callersOf]
      cases m.get k <;> simp [mem_insertNew]
    · simp only [hkc, if_false, exists_, callersOf]
      cases m.get k <;> simp [mem_insertNew]
  · simp only [hkd, if_false]
    rw [callersOf_modify]
    by_cases hkc : k = c
    · subst hkc
      simp only [if_true, callersOf]
      cases m.get k <;> simp
    · simp [hkc]


theorem resultOf_recordEdges (self : Option Key) (ks : List Key) : ∀ (m : TaskMap) (k : Key),
    resultOf (recordEdges m self ks) k = resultOf m k := by
  induction ks with
  | nil => intro m k; rfl
  | cons d ds ih =>
    intro m k
    simp only [recordEdges]
    rw [ih]
    cases self with
    | none => exact resultOf_getOrCreate m d k
    | some c => simp only; rw [resultOf_addEdge, resultOf_getOrCreate]

theorem exists_recordEdges (self : Option Key) (ks : List Key) : ∀ (m : TaskMap) (k : Key),
    exists_ (recordEdges m self ks) k ↔ k ∈ ks ∨ exists_ m k := by
  induction ks with
  | nil => intro m k; simp [recordEdges]
  | cons d ds ih =>
    intro m k
    simp only [recordEdges]
    rw [ih]
    cases self with
    | none => simp only [exists_getOrCreate, List.mem_cons]; grind
    | some c =>
      simp only [exists_addEdge, exists_getOrCreate, List.mem_cons]; grind

theorem depsOf_recordEdges_none (ks : List Key) : ∀ (m : TaskMap) (k : Key),
    depsOf (recordEdges m none ks) k = depsOf m k := by
  induction ks with
  | nil => intro m k; rfl
  | cons d ds ih => intro m k; simp only [recordEdges]; rw [ih, depsOf_getOrCreate]

theorem callersOf_recordEdges_none (ks : List Key) : ∀ (m : TaskMap) (k : Key),
    callersOf (recordEdges m none ks) k = callersOf m k := by
  induction ks with
  | nil => intro m k; rfl
  | cons d ds ih => intro m k; simp only [recordEdges]; rw [ih, callersOf_getOrCreate]

theorem mem_depsOf_recordEdges (c : Key) (ks : List Key) : ∀ (m : TaskMap) (_ : exists_ m c) (k x : Key),
    x ∈ depsOf (recordEdges m (some c) ks) k ↔ x ∈ depsOf m k ∨ (k = c ∧ x ∈ ks) := by
  induction ks with
  | nil => intro m _ k x; simp [recordEdges]
  | cons d ds ih =>
    intro m hc k x
    simp only [recordEdges]
    have hc1 : exists_ (getOrCreate m d) c := (exists_getOrCreate m d c).2 (Or.inr hc)
    have hc2 : exists_ (addEdge (getOrCreate m d) c d) c := (exists_addEdge _ c d c).2 hc1
    rw [ih _ hc2, mem_depsOf_addEdge, depsOf_getOrCreate]
    simp only [List.mem_cons]
    constructor
    · rintro ((h | ⟨h1, h2, _⟩) | ⟨h1, h2⟩)
      · exact Or.inl h
      · exact Or.inr ⟨h1, Or.inl h2⟩
      · exact Or.inr ⟨h1, Or.inr h2⟩
    · rintro (h | ⟨h1, h2 | h2⟩)
      · exact Or.inl (Or.inl h)
      · exact Or.inl (Or.inr ⟨h1, h2, hc1⟩)
      · exact Or.inr ⟨h1, h2⟩

theorem mem_callersOf_recordEdges (c : Key) (ks : List Key) : ∀ (m : TaskMap) (_ : exists_ m c) (k x : Key),
    x ∈ callersOf (recordEdges m (some c) ks) k ↔ x ∈ callersOf m k ∨ (x = c ∧ k ∈ ks) := by
  induction ks with
  | nil => intro m _ k x; simp [recordEdges]
  | cons d ds ih =>
    intro m hc k x
    simp only [recordEdges]
    have hc1 : exists_ (getOrCreate m d) c := (exists_getOrCreate m d c).2 (Or.inr hc)
    have hd1 : exists_ (getOrCreate m d) d := (exists_getOrCreate m d d).2 (Or.inl rfl)
    have hc2 : exists_ (addEdge (getOrCreate m d) c d) c := (exists_addEdge _ c d c).2 hc1
    rw [ih _ hc2, mem_callersOf_addEdge, callersOf_getOrCreate]
    simp only [List.mem_cons]
    constructor
    · rintro ((h | ⟨h1, h2, _⟩) | ⟨h1, h2⟩)
      · exact Or.inl h
      · exact Or.inr ⟨h2, Or.inl h1⟩
      · exact Or.inr ⟨h1, Or.inr h2⟩
    · rintro (h | ⟨h1, h2 | h2⟩)
      · exact Or.inl (Or.inl h)
      · exact Or.inl (Or.inr ⟨h2, h1, h2 ▸ hd1⟩)
      · exact Or.inr ⟨h1, h2⟩

theorem resultOf_setResult_ne (m : TaskMap) (c : Key) (r : RState) (k : Key) (h : k ≠ c) :
    resultOf (setResult m c r) k = resultOf m k := by
  unfold setResult resultOf; rw [modify_get]; simp [h]

theorem resultOf_setResult_self (m : TaskMap) (c : Key) (r : RState) (h : exists_ m c) :
    resultOf (setResult m c r) c = r := by
  unfold setResult resultOf; rw [modify_get]
  unfold exists_ at h
  cases hg : m.get c with
  | none => simp [hg] at h
  | some t => simp

theorem depsOf_setResult (m : TaskMap) (c : Key) (r : RState) (k : Key) :
    depsOf (setResult m c r) k = depsOf m k := by
  unfold setResult; rw [depsOf_modify]
  by_cases h : k = c
  · subst h; simp only [if_true, depsOf]; cases m.get k <;> simp
  · simp [h]

theorem callersOf_setResult (m : TaskMap) (c : Key) (r : RState) (k : Key) :
    callersOf (setResult m c r) k = callersOf m k := by
  unfold setResult; rw [callersOf_modify]
  by_cases h : k = c
  · subst h; simp only [if_true, callersOf]; cases m.get k <;> simp
  · simp [h]

theorem exists_setResult (m : TaskMap) (c : Key) (r : RState) (k : Key) :
    exists_ (setResult m c r) k ↔ exists_ m k := exists_modify _ _ _ _


/-! ### Replay of a script against the memo table -/

/-- `Replay M s r ds`: running script `s` with every `Resolve` answered from the memo `M`
    yields `r` and reads exactly the keys `ds` (in order). -/
inductive Replay (M : Key → Option Res) : Script → Res → List Key → Prop
  | ret (r : Res) : Replay M (.ret r) r []
  | resolve (ks : List Key) (cont : List Res → Script) (rs : List Res) (r : Res) (ds : List Key) :
      ks.map M = rs.map some → Replay M (cont rs) r ds → Replay M (.resolve ks cont) r (ks ++ ds)

theorem Replay.congr {M M' : Key → Option Res} {s : Script} {r : Res} {ds : List Key}
    (h : Replay M s r ds) (hM : ∀ d ∈ ds, M' d = M d) : Replay M' s r ds := by
  induction h with
  | ret r => exact .ret r
  | resolve ks cont rs r ds hks _ ih =>
    refine .resolve ks cont rs r ds ?_ (ih (fun d hd => hM d (List.mem_append_right _ hd)))
    rw [← hks]
    exact List.map_congr_left (fun d hd => hM d (List.mem_append_left _ hd))

theorem Replay.reads_some {M : Key → Option Res} {s : Script} {r : Res} {ds : List Key}
    (h : Replay M s r ds) : ∀ d ∈ ds, ∃ v, M d = some v := by
  induction h with
  | ret r => intro d hd; cases hd
  | resolve ks cont rs r ds hks _ ih =>
    intro d hd
    rcases List.mem_append.1 hd with h1 | h1
    · have : M d ∈ ks.map M := List.mem_map_of_mem h1
      rw [hks] at this
      obtain ⟨v, _, hv⟩ := List.mem_map.1 this
      exact ⟨v, hv.symm⟩
    · exact ih d h1

theorem Replay.mono {M M' : Key → Option Res} {s : Script} {r : Res} {ds : List Key}
    (h : Replay M s r ds) (hM : ∀ d v, M d = some v → M' d = some v) : Replay M' s r ds := by
  refine h.congr (fun d hd => ?_)
  obtain ⟨v, hv⟩ := h.reads_some d hd
  rw [hv, hM d v hv]

/-! ### The invariant and the extension relation -/

/-- State invariant of the executor (between and during runs). -/
structure Inv (body : Key → Script) (st : St) : Prop where
  /-- `deps` and `callers` are inverse relations -/
  sym : ∀ c d, d ∈ depsOf st.tasks c ↔ c ∈ callersOf st.tasks d
  /-- every completed task's value is the replay of its body against the memo, and everything
      it read is among its recorded deps -/
  replay : ∀ k r, resultOf st.tasks k = .done r →
    ∃ ds, Replay (memo st.tasks) (body k) r.val ds ∧ ∀ d ∈ ds, d ∈ depsOf st.tasks k
  runid : ∀ k r, resultOf st.tasks k = .done r → r.runID ≤ st.counter

/-- `Ext gen st st'`: `st'` is reachable from `st` by steps of the run with generation `gen`. -/
structure Ext (gen : Nat) (st st' : St) : Prop where
  done : ∀ k r, resultOf st.tasks k = .done r → resultOf st'.tasks k = .done r
  pend : ∀ k, resultOf st.tasks k = .pending → resultOf st'.tasks k = .pending
  deps : ∀ k d, d ∈ depsOf st.tasks k → d ∈ depsOf st'.tasks k
  ex : ∀ k, exists_ st.tasks k → exists_ st'.tasks k
  counter : st'.counter = st.counter
  log : ∃ new, st'.log = st.log ++ new ∧ new.Nodup ∧
    (∀ k ∈ new, resultOf st.tasks k = .none ∧ ∃ r, resultOf st'.tasks k = .done r ∧ r.runID = gen) ∧
    (∀ k r, resultOf st'.tasks k = .done r → resultOf st.tasks k = .done r ∨ k ∈ new)
  obs : ∃ newobs, st'.obs = st.obs ++ newobs ∧
    ∀ o ∈ newobs, o.1 = gen ∧ ∃ r, resultOf st'.tasks o.2.1 = .done r ∧ o.2.2 = (r.runID == gen)

theorem Ext.refl (gen : Nat) (st : St) : Ext gen st st :=
  { done := fun _ _ h => h, pend := fun _ h => h, deps := fun _ _ h => h, ex := fun _ h => h, counter := rfl,
    log := ⟨[], by simp, List.nodup_nil, by simp, fun _ _ h => Or.inl h⟩,
    obs := ⟨[], by simp, by simp⟩ }

theorem Ext.trans {gen : Nat} {a b c : St} (h1 : Ext gen a b) (h2 : Ext gen b c) : Ext gen a c := by
  obtain ⟨n1, hl1, hn1, hk1, hb1⟩ := h1.log
  obtain ⟨n2, hl2, hn2, hk2, hb2⟩ := h2.log
  obtain ⟨o1, ho1, hp1⟩ := h1.obs
  obtain ⟨o2, ho2, hp2⟩ := h2.obs
  refine
    { done := fun k r h => h2.done k r (h1.done k r h), pend := fun k h => h2.pend k (h1.pend k h),
      deps := fun k d h => h2.deps k d (h1.deps k d h), ex := fun k h => h2.ex k (h1.ex k h),
      counter := by rw [h2.counter, h1.counter],
      log := ⟨n1 ++ n2, by rw [hl2, hl1, List.append_assoc], ?_, ?_, ?_⟩,
      obs := ⟨o1 ++ o2, by rw [ho2, ho1, List.append_assoc], ?_⟩ }
  · rw [List.nodup_append]
    refine ⟨hn1, hn2, ?_⟩
    intro x hx1 y hy2 hxy
    subst hxy
    obtain ⟨_, r, hr, _⟩ := hk1 x hx1
    have := (hk2 x hy2).1
    rw [hr] at this; cases this
  · intro k hk
    rcases List.mem_append.1 hk with h | h
    · obtain ⟨hn, r, hr, hg⟩ := hk1 k h
      exact ⟨hn, r, h2.done k r hr, hg⟩
    · obtain ⟨hn, r, hr, hg⟩ := hk2 k h
      refine ⟨?_, r, hr, hg⟩
      cases hak : resultOf a.tasks k with
      | none => rfl
      | pending => rw [h1.pend k hak] at hn; cases hn
      | done r' => rw [h1.done k r' hak] at hn; cases hn
  · intro k r hr
    rcases hb2 k r hr with h | h
    · rcases hb1 k r h with h' | h'
      · exact Or.inl h'
      · exact Or.inr (List.mem_append_left _ h')
    · exact Or.inr (List.mem_append_right _ h)
  · intro o ho
    rcases List.mem_append.1 ho with h | h
    · obtain ⟨hg, r, hr, hf⟩ := hp1 o h
      exact ⟨hg, r, h2.done _ r hr, hf⟩
    · exact hp2 o h

theorem Ext.memo_mono {gen : Nat} {a b : St} (h : Ext gen a b) (k : Key) (v : Res)
    (hm : memo a.tasks k = some v) : memo b.tasks k = some v := by
  obtain ⟨r, hr, hv⟩ := memo_eq_some.1 hm
  exact memo_eq_some.2 ⟨r, h.done k r hr, hv⟩

/-- a step that changes neither results nor log/obs/counter, and only adds edges/tasks -/
theorem Ext.of_same_results {gen : Nat} {st st' : St}
    (hr : ∀ k, resultOf st'.tasks k = resultOf st.tasks k)
    (hd : ∀ k d, d ∈ depsOf st.tasks k → d ∈ depsOf st'.tasks k)
    (he : ∀ k, exists_ st.tasks k → exists_ st'.tasks k)
    (hc : st'.counter = st.counter) (hl : st'.log = st.log) (ho : st'.obs = st.obs) : Ext gen st st' :=
  { done := fun k r h => by rw [hr]; exact h, pend := fun k h => by rw [hr]; exact h,
    deps := hd, ex := he, counter := hc,
    log := ⟨[], by simp [hl], List.nodup_nil, by simp, fun k r h => Or.inl (by rw [← hr]; exact h)⟩,
    obs := ⟨[], by simp [ho], by simp⟩ }

theorem memo_congr {m m' : TaskMap} (h : ∀ k, resultOf m' k = resultOf m k) : memo m' = memo m := by
  funext k; unfold memo; rw [h]

theorem Inv.of_same_results {body : Key → Script} {st st' : St} (hinv : Inv body st)
    (hr : ∀ k, resultOf st'.tasks k = resultOf st.tasks k)
    (hsym : ∀ c d, d ∈ depsOf st'.tasks c ↔ c ∈ callersOf st'.tasks d)
    (hd : ∀ k d, d ∈ depsOf st.tasks k → d ∈ depsOf st'.tasks k)
    (hc : st.counter ≤ st'.counter) : Inv body st' :=
  { sym := hsym,
    replay := fun k r h => by
      rw [hr] at h
      obtain ⟨ds, hrep, hds⟩ := hinv.replay k r h
      exact ⟨ds, by rw [memo_congr hr]; exact hrep, fun d hdd => hd k d (hds d hdd)⟩,
    runid := fun k r h => by rw [hr] at h; exact Nat.le_trans (hinv.runid k r h) hc }


/-! ### Specification of one `start` (hit or execute) and its propagation through `Resolve` -/

/-- what `task.start` guarantees for the task `k` of a state satisfying the invariant -/
def GoodEx (body : Key → Script) (gen : Nat) (ex : St → Key → Option (St × Result)) : Prop :=
  ∀ st k st' r, ex st k = some (st', r) → Inv body st → st.counter = gen → exists_ st.tasks k →
    Inv body st' ∧ Ext gen st st' ∧ resultOf st'.tasks k = .done r

theorem recordEdges_step {body : Key → Script} {gen : Nat} {st : St} (self : Option Key) (ks : List Key)
    (hinv : Inv body st) (hself : ∀ c, self = some c → exists_ st.tasks c) :
    let st1 : St := { st with tasks := recordEdges st.tasks self ks }
    Inv body st1 ∧ Ext gen st st1 ∧ (∀ k ∈ ks, exists_ st1.tasks k) ∧
      (∀ c, self = some c → ∀ k ∈ ks, k ∈ depsOf st1.tasks c) := by
  intro st1
  have hr : ∀ k, resultOf st1.tasks k = resultOf st.tasks k := fun k => resultOf_recordEdges self ks st.tasks k
  have he : ∀ k, exists_ st.tasks k → exists_ st1.tasks k :=
    fun k h => (exists_recordEdges self ks st.tasks k).2 (Or.inr h)
  have hks : ∀ k ∈ ks, exists_ st1.tasks k := fun k h => (exists_recordEdges self ks st.tasks k).2 (Or.inl h)
  cases self with
  | none =>
    have hd : ∀ k, depsOf st1.tasks k = depsOf st.tasks k := fun k => depsOf_recordEdges_none ks st.tasks k
    have hcl : ∀ k, callersOf st1.tasks k = callersOf st.tasks k := fun k => callersOf_recordEdges_none ks st.tasks k
    refine ⟨hinv.of_same_results hr ?_ ?_ (Nat.le_refl _), Ext.of_same_results hr ?_ he rfl rfl rfl, hks, ?_⟩
    · intro c d; rw [hd, hcl]; exact hinv.sym c d
    · intro k d h; rw [hd]; exact h
    · intro k d h; rw [hd]; exact h
    · intro c hc; cases hc
  | some c =>
    have hc := hself c rfl
    have hd : ∀ k x, x ∈ depsOf st1.tasks k ↔ x ∈ depsOf st.tasks k ∨ (k = c ∧ x ∈ ks) :=
      fun k x => mem_depsOf_recordEdges c ks st.tasks hc k x
    have hcl : ∀ k x, x ∈ callersOf st1.tasks k ↔ x ∈ callersOf st.tasks k ∨ (x = c ∧ k ∈ ks) :=
      fun k x => mem_callersOf_recordEdges c ks st.tasks hc k x
    refine ⟨hinv.of_same_results hr ?_ ?_ (Nat.le_refl _), Ext.of_same_results hr ?_ he rfl rfl rfl, hks, ?_⟩
    · intro a b; rw [hd, hcl, hinv.sym a b]
    · intro k d h; exact (hd k d).2 (Or.inl h)
    · intro k d h; exact (hd k d).2 (Or.inl h)
    · intro c' hc' k hk; cases hc'; exact (hd c k).2 (Or.inr ⟨rfl, hk⟩)

/-- pointwise: task `ks[i]` is complete with result `rs[i]` -/
inductive AllDone (m : TaskMap) : List Key → List Result → Prop
  | nil : AllDone m [] []
  | cons {k : Key} {r : Result} {ks : List Key} {rs : List Result} :
      resultOf m k = .done r → AllDone m ks rs → AllDone m (k :: ks) (r :: rs)

theorem AllDone.mono {m m' : TaskMap} {ks : List Key} {rs : List Result} (h : AllDone m ks rs)
    (hm : ∀ k r, resultOf m k = .done r → resultOf m' k = .done r) : AllDone m' ks rs := by
  induction h with
  | nil => exact .nil
  | cons hd _ ih => exact .cons (hm _ _ hd) ih

theorem AllDone.length_eq {m : TaskMap} {ks : List Key} {rs : List Result} (h : AllDone m ks rs) :
    rs.length = ks.length := by
  induction h with
  | nil => rfl
  | cons _ _ ih => simp [ih]

theorem AllDone.get {m : TaskMap} {ks : List Key} {rs : List Result} (h : AllDone m ks rs) :
    ∀ i (h1 : i < ks.length) (h2 : i < rs.length), resultOf m ks[i] = .done rs[i] := by
  induction h with
  | nil => intro i h1; cases h1
  | cons hd _ ih =>
    intro i h1 h2
    cases i with
    | zero => exact hd
    | succ j => exact ih j (Nat.lt_of_succ_lt_succ h1) (Nat.lt_of_succ_lt_succ h2)

theorem resolveMany_spec {body : Key → Script} {gen : Nat} {ex : St → Key → Option (St × Result)}
    (hex : GoodEx body gen ex) : ∀ (ks : List Key) (st st' : St) (rs : List Result),
    resolveManyWith ex gen st ks = some (st', rs) → Inv body st → st.counter = gen →
    (∀ k ∈ ks, exists_ st.tasks k) →
    Inv body st' ∧ Ext gen st st' ∧ AllDone st'.tasks ks rs := by
  intro ks
  induction ks with
  | nil =>
    intro st st' rs h hinv _ _
    simp only [resolveManyWith, Option.some.injEq, Prod.mk.injEq] at h
    obtain ⟨rfl, rfl⟩ := h
    exact ⟨hinv, Ext.refl _ _, .nil⟩
  | cons k ks ih =>
    intro st st' rs h hinv hc hks
    simp only [resolveManyWith] at h
    cases hx : ex st k with
    | none => simp [hx] at h
    | some p =>
      obtain ⟨st1, r⟩ := p
      simp only [hx] at h
      obtain ⟨hinv1, hext1, hres1⟩ := hex st k st1 r hx hinv hc (hks k (List.mem_cons_self))
      -- the obs append
      let st1' : St := { st1 with obs := st1.obs ++ [(gen, k, r.runID == gen)] }
      have hinv1' : Inv body st1' := ⟨hinv1.sym, hinv1.replay, hinv1.runid⟩
      have hext1' : Ext gen st1 st1' :=
        { done := fun _ _ h => h, pend := fun _ h => h, deps := fun _ _ h => h, ex := fun _ h => h,
          counter := rfl,
          log := ⟨[], by simp [st1'], List.nodup_nil, by simp, fun _ _ h => Or.inl h⟩,
          obs := ⟨[(gen, k, r.runID == gen)], rfl, by
            intro o ho
            simp only [List.mem_singleton] at ho
            subst ho
            exact ⟨rfl, r, hres1, rfl⟩⟩ }
      cases hm : resolveManyWith ex gen st1' ks with
      | none => simp [st1', hm] at h
      | some q =>
        obtain ⟨st2, rs2⟩ := q
        simp only [st1', hm, Option.some.injEq, Prod.mk.injEq] at h
        obtain ⟨rfl, rfl⟩ := h
        have hc1 : st1'.counter = gen := by show st1.counter = gen; rw [hext1.counter, hc]
        have hks1 : ∀ k' ∈ ks, exists_ st1'.tasks k' :=
          fun k' hk' => hext1.ex k' (hks k' (List.mem_cons_of_mem _ hk'))
        obtain ⟨hinv2, hext2, hall⟩ := ih st1' st2 rs2 hm hinv1' hc1 hks1
        exact ⟨hinv2, hext1.trans (hext1'.trans hext2), .cons (hext2.done k r hres1) hall⟩

theorem forall2_memo {m : TaskMap} {ks : List Key} {rs : List Result}
    (h : AllDone m ks rs) :
    ks.map (memo m) = (rs.map (·.val)).map some := by
  induction h with
  | nil => rfl
  | cons hd _ ih =>
    simp only [List.map_cons, ih]
    congr 1
    exact memo_eq_some.2 ⟨_, hd, rfl⟩

theorem runScript_spec {body : Key → Script} {gen : Nat} {ex : St → Key → Option (St × Result)}
    (hex : GoodEx body gen ex) (self : Key) : ∀ (s : Script) (st st' : St) (v : Res),
    runScriptWith ex gen (some self) st s = some (st', v) → Inv body st → st.counter = gen →
    exists_ st.tasks self →
    Inv body st' ∧ Ext gen st st' ∧
      ∃ ds, Replay (memo st'.tasks) s v ds ∧ ∀ d ∈ ds, d ∈ depsOf st'.tasks self := by
  intro s
  induction s with
  | ret r =>
    intro st st' v h hinv _ _
    simp only [runScriptWith, Option.some.injEq, Prod.mk.injEq] at h
    obtain ⟨rfl, rfl⟩ := h
    exact ⟨hinv, Ext.refl _ _, [], .ret _, by simp⟩
  | panic => intro st st' v h; simp [runScriptWith] at h
  | resolve ks cont ih =>
    intro st st' v h hinv hc hself
    simp only [runScriptWith] at h
    obtain ⟨hinv1, hext1, hks1, hdeps1⟩ :=
      recordEdges_step (gen := gen) (some self) ks hinv (fun c hc' => by cases hc'; exact hself)
    cases hm : resolveManyWith ex gen { st with tasks := recordEdges st.tasks (some self) ks } ks with
    | none => simp [hm] at h
    | some q =>
      obtain ⟨st2, rs⟩ := q
      simp only [hm] at h
      obtain ⟨hinv2, hext2, hall⟩ := resolveMany_spec hex ks _ st2 rs hm hinv1 hc hks1
      have hc2 : st2.counter = gen := by rw [hext2.counter]; exact hc
      have hself2 : exists_ st2.tasks self := hext2.ex self (hext1.ex self hself)
      obtain ⟨hinv3, hext3, ds, hrep, hds⟩ := ih (rs.map (·.val)) st2 st' v h hinv2 hc2 hself2
      refine ⟨hinv3, hext1.trans (hext2.trans hext3), ks ++ ds, ?_, ?_⟩
      · refine .resolve ks cont (rs.map (·.val)) v ds ?_ hrep
        have h2 := forall2_memo hall
        rw [← h2]
        exact List.map_congr_left (fun d hd => by
          cases hmd : memo st2.tasks d with
          | none =>
            have : memo st2.tasks d ∈ ks.map (memo st2.tasks) := List.mem_map_of_mem hd
            rw [h2, hmd] at this
            simp at this
          | some v' => exact hext3.memo_mono d v' hmd)
      · intro d hd
        rcases List.mem_append.1 hd with h1 | h1
        · exact hext3.deps self d (hext2.deps self d (hdeps1 self rfl d h1))
        · exact hds d h1


theorem memo_none_of_not_done {m : TaskMap} {k : Key} (h : ∀ r, resultOf m k ≠ .done r) : memo m k = none := by
  unfold memo
  cases hr : resultOf m k with
  | none => rfl
  | pending => rfl
  | done r => exact absurd hr (h r)

theorem execKey_spec (body : Key → Script) (gen : Nat) : ∀ fuel, GoodEx body gen (execKey body gen fuel) := by
  intro fuel
  induction fuel with
  | zero => intro st k st' r h; simp [execKey] at h
  | succ fuel ih =>
    intro st k st' r h hinv hc hk
    simp only [execKey] at h
    cases hres : resultOf st.tasks k with
    | done r0 =>
      simp only [hres, Option.some.injEq, Prod.mk.injEq] at h
      obtain ⟨rfl, rfl⟩ := h
      exact ⟨hinv, Ext.refl _ _, hres⟩
    | pending => simp [hres] at h
    | none =>
      simp only [hres] at h
      -- st0: k marked pending
      have hr0 : ∀ k', k' ≠ k → resultOf (setResult st.tasks k .pending) k' = resultOf st.tasks k' :=
        fun k' hne => resultOf_setResult_ne _ _ _ _ hne
      have hk0 : resultOf (setResult st.tasks k .pending) k = .pending := resultOf_setResult_self _ _ _ hk
      have hmemo0 : memo (setResult st.tasks k .pending) = memo st.tasks := by
        funext k'
        by_cases hne : k' = k
        · subst hne
          rw [memo_none_of_not_done (by rw [hk0]; intro r hh; cases hh),
            memo_none_of_not_done (by rw [hres]; intro r hh; cases hh)]
        · unfold memo; rw [hr0 k' hne]
      have hinv0 : Inv body { st with tasks := setResult st.tasks k .pending } :=
        { sym := fun c d => by
            show d ∈ depsOf (setResult st.tasks k .pending) c ↔ c ∈ callersOf (setResult st.tasks k .pending) d
            rw [depsOf_setResult, callersOf_setResult]; exact hinv.sym c d,
          replay := fun k' r' h' => by
            have hne : k' ≠ k := by
              intro he; subst he
              have : resultOf (setResult st.tasks k' .pending) k' = .done r' := h'
              rw [hk0] at this; cases this
            have h'' : resultOf st.tasks k' = .done r' := by rw [← hr0 k' hne]; exact h'
            obtain ⟨ds, hrep, hds⟩ := hinv.replay k' r' h''
            refine ⟨ds, ?_, fun d hd => ?_⟩
            · show Replay (memo (setResult st.tasks k .pending)) _ _ _
              rw [hmemo0]; exact hrep
            · show d ∈ depsOf (setResult st.tasks k .pending) k'
              rw [depsOf_setResult]; exact hds d hd,
          runid := fun k' r' h' => by
            have hne : k' ≠ k := by
              intro he; subst he
              have : resultOf (setResult st.tasks k' .pending) k' = .done r' := h'
              rw [hk0] at this; cases this
            exact hinv.runid k' r' (by rw [← hr0 k' hne]; exact h') }
      have hext0 : Ext gen st { st with tasks := setResult st.tasks k .pending } :=
        { done := fun k' r' h' => by
            have hne : k' ≠ k := by intro he; subst he; rw [hres] at h'; cases h'
            show resultOf (setResult st.tasks k .pending) k' = _
            rw [hr0 k' hne]; exact h',
          pend := fun k' h' => by
            have hne : k' ≠ k := by intro he; subst he; rw [hres] at h'; cases h'
            show resultOf (setResult st.tasks k .pending) k' = _
            rw [hr0 k' hne]; exact h',
          deps := fun k' d h' => by
            show d ∈ depsOf (setResult st.tasks k .pending) k'
            rw [depsOf_setResult]; exact h',
          ex := fun k' h' => (exists_setResult _ _ _ _).2 h',
          counter := rfl,
          log := ⟨[], by simp, List.nodup_nil, by simp, fun k' r' h' => by
            have hne : k' ≠ k := by
              intro he; subst he
              have : resultOf (setResult st.tasks k' .pending) k' = .done r' := h'
              rw [hk0] at this; cases this
            exact Or.inl (by rw [← hr0 k' hne]; exact h')⟩,
          obs := ⟨[], by simp, by simp⟩ }
      cases hs : runScriptWith (execKey body gen fuel) gen (some k)
          { st with tasks := setResult st.tasks k .pending } (body k) with
      | none => simp [hs] at h
      | some q =>
        obtain ⟨st1, v⟩ := q
        simp only [hs, Option.some.injEq, Prod.mk.injEq] at h
        obtain ⟨rfl, rfl⟩ := h
        obtain ⟨hinv1, hext1, ds, hrep, hds⟩ :=
          runScript_spec ih k (body k) _ st1 v hs hinv0 hc ((exists_setResult _ _ _ _).2 hk)
        have hext01 := hext0.trans hext1
        have hk1 : exists_ st1.tasks k := hext01.ex k hk
        have hp1 : resultOf st1.tasks k = .pending := hext1.pend k hk0
        have hc1 : st1.counter = gen := by rw [hext01.counter]; exact hc
        let r : Result := { val := v, runID := gen }
        have hrn : ∀ k', k' ≠ k → resultOf (setResult st1.tasks k (.done r)) k' = resultOf st1.tasks k' :=
          fun k' hne => resultOf_setResult_ne _ _ _ _ hne
        have hkk : resultOf (setResult st1.tasks k (.done r)) k = .done r := resultOf_setResult_self _ _ _ hk1
        have hmono : ∀ d v', memo st1.tasks d = some v' → memo (setResult st1.tasks k (.done r)) d = some v' := by
          intro d v' hm
          obtain ⟨r', hr', hv'⟩ := memo_eq_some.1 hm
          have hne : d ≠ k := by intro he; subst he; rw [hp1] at hr'; cases hr'
          exact memo_eq_some.2 ⟨r', by rw [hrn d hne]; exact hr', hv'⟩
        refine ⟨?_, ?_, hkk⟩
        · exact
          { sym := fun c d => by
              show d ∈ depsOf (setResult st1.tasks k _) c ↔ c ∈ callersOf (setResult st1.tasks k _) d
              rw [depsOf_setResult, callersOf_setResult]; exact hinv1.sym c d,
            replay := fun k' r' h' => by
              by_cases hne : k' = k
              · subst hne
                have : resultOf (setResult st1.tasks k' (.done r)) k' = .done r' := h'
                rw [hkk] at this
                cases this
                refine ⟨ds, hrep.mono hmono, fun d hd => ?_⟩
                show d ∈ depsOf (setResult st1.tasks k' _) k'
                rw [depsOf_setResult]; exact hds d hd
              · have h'' : resultOf st1.tasks k' = .done r' := by rw [← hrn k' hne]; exact h'
                obtain ⟨ds', hrep', hds'⟩ := hinv1.replay k' r' h''
                refine ⟨ds', hrep'.mono hmono, fun d hd => ?_⟩
                show d ∈ depsOf (setResult st1.tasks k _) k'
                rw [depsOf_setResult]; exact hds' d hd,
            runid := fun k' r' h' => by
              show r'.runID ≤ st1.counter
              by_cases hne : k' = k
              · subst hne
                have : resultOf (setResult st1.tasks k' (.done r)) k' = .done r' := h'
                rw [hkk] at this
                cases this
                show gen ≤ st1.counter
                rw [hc1]; exact Nat.le_refl _
              · exact hinv1.runid k' r' (by rw [← hrn k' hne]; exact h') }
        · obtain ⟨n1, hl1, hn1, hkn1, hb1⟩ := hext01.log
          obtain ⟨o1, ho1, hp1'⟩ := hext01.obs
          have hknot : k ∉ n1 := by
            intro hin
            obtain ⟨_, r', hr', _⟩ := hkn1 k hin
            rw [hp1] at hr'; cases hr'
          exact
          { done := fun k' r' h' => by
              have h1 := hext01.done k' r' h'
              have hne : k' ≠ k := by intro he; subst he; rw [hp1] at h1; cases h1
              show resultOf (setResult st1.tasks k _) k' = _
              rw [hrn k' hne]; exact h1,
            pend := fun k' h' => by
              have hne : k' ≠ k := by intro he; subst he; rw [hres] at h'; cases h'
              show resultOf (setResult st1.tasks k _) k' = _
              rw [hrn k' hne]; exact hext01.pend k' h',
            deps := fun k' d h' => by
              show d ∈ depsOf (setResult st1.tasks k _) k'
              rw [depsOf_setResult]; exact hext01.deps k' d h',
            ex := fun k' h' => (exists_setResult _ _ _ _).2 (hext01.ex k' h'),
            counter := hext01.counter,
            log := ⟨n1 ++ [k], by show st1.log ++ [k] = _; rw [hl1, List.append_assoc], by
                rw [List.nodup_append]
                refine ⟨hn1, by simp, ?_⟩
                intro x hx y hy hxy
                simp only [List.mem_singleton] at hy
                subst hy; subst hxy
                exact hknot hx, by
                intro k' hk'
                rcases List.mem_append.1 hk' with hin | hin
                · obtain ⟨hnone, r', hr', hg⟩ := hkn1 k' hin
                  have hne : k' ≠ k := by intro he; subst he; exact hknot hin
                  exact ⟨hnone, r', by show resultOf (setResult st1.tasks k _) k' = _; rw [hrn k' hne]; exact hr', hg⟩
                · simp only [List.mem_singleton] at hin
                  subst hin
                  exact ⟨hres, r, hkk, rfl⟩, by
                intro k' r' h'
                by_cases hne : k' = k
                · subst hne; exact Or.inr (List.mem_append_right _ (List.mem_singleton.2 rfl))
                · have h'' : resultOf st1.tasks k' = .done r' := by rw [← hrn k' hne]; exact h'
                  rcases hb1 k' r' h'' with hh | hh
                  · exact Or.inl hh
                  · exact Or.inr (List.mem_append_left _ hh)⟩,
            obs := ⟨o1, ho1, by
                intro o ho
                obtain ⟨hg, r', hr', hf⟩ := hp1' o ho
                have hne : o.2.1 ≠ k := by intro he; rw [he, hp1] at hr'; cases hr'
                exact ⟨hg, r', by show resultOf (setResult st1.tasks k _) o.2.1 = _; rw [hrn _ hne]; exact hr', hf⟩⟩ }

end PCV.Incr
