/-
Lemmas for C38 (string interning): char6 round trip by structural induction over the string,
and the invariant of the concurrent `Intern` transition system.
-/
import PCV.Model.Intern
namespace PCV.Props.C38
open PCV.Intern


theorem alphabet_length : alphabet.length = 64 := by decide
theorem alphabet_nodup : alphabet.Nodup := by decide +kernel
theorem alphabet_last : char6ToByte 63 = DOT := by decide

/-- complete 256-entry table: a byte either has no sextet (0xff) or its sextet is < 64 and
    `char6ToByte` maps it back. -/
theorem sextet_table : ∀ n : Fin 256,
    byteToChar6 (UInt8.ofNat n.val) = 0xff ∨
      (byteToChar6 (UInt8.ofNat n.val) < 64 ∧
        char6ToByte (byteToChar6 (UInt8.ofNat n.val)) = UInt8.ofNat n.val) := by decide +kernel

theorem sextet_ok (b : UInt8) (h : byteToChar6 b ≠ 0xff) :
    byteToChar6 b < 64 ∧ char6ToByte (byteToChar6 b) = b := by
  have := sextet_table ⟨b.toNat, b.toNat_lt⟩
  simp only [UInt8.ofNat_toNat] at this
  rcases this with h' | h'
  · exact absurd h' h
  · exact h'

theorem and63 (x : Nat) : x &&& 63 = x % 64 := by
  simpa using Nat.and_two_pow_sub_one_eq_mod x 6

theorem shl_or (v sx : Nat) (h : sx < 64) :
    ((v <<< 6) % U32) ||| sx = 64 * (v % 67108864) + sx := by
  have h1 : (v <<< 6) % U32 = 2 ^ 6 * (v % 67108864) := by
    rw [Nat.shiftLeft_eq]; simp only [U32]; omega
  rw [h1, ← Nat.two_pow_add_eq_or_of_lt (i := 6) (by simpa using h)]

theorem sshr6_neg (v : Nat) (h1 : SIGN ≤ v) (h2 : v < U32) :
    sshr6 v = v / 64 + 4227858432 := by
  unfold sshr6
  rw [if_pos h1, Nat.shiftRight_eq_div_pow]
  have hb : v / 2 ^ 6 < 2 ^ 26 := by simp only [U32] at h2; omega
  have := Nat.two_pow_add_eq_or_of_lt hb 63
  rw [Nat.or_comm]
  simp at this ⊢
  omega


theorem sextetAux_ne (b : UInt8) : ∀ (l : List UInt8) (j acc : Nat), j + l.length ≤ 255 →
    (sextetAux b l j acc ≠ 255 ↔ (b ∈ l ∨ acc ≠ 255)) := by
  intro l
  induction l with
  | nil => intro j acc _; simp [sextetAux]
  | cons c cs ih =>
    intro j acc hj
    simp only [List.length_cons] at hj
    simp only [sextetAux]
    rw [ih (j + 1) _ (by omega)]
    by_cases hcb : c = b
    · subst hcb
      simp only [if_true, List.mem_cons, true_or, iff_true]
      right; omega
    · simp only [if_neg hcb, List.mem_cons]
      constructor
      · rintro (h | h)
        · exact Or.inl (Or.inr h)
        · exact Or.inr h
      · rintro ((h | h) | h)
        · exact absurd h.symm hcb
        · exact Or.inl h
        · exact Or.inr h

/-- a byte has a sextet exactly when it occurs in the alphabet (structural, no table) -/
theorem sextet_ne_iff_mem (b : UInt8) : byteToChar6 b ≠ 0xff ↔ b ∈ alphabet := by
  unfold byteToChar6
  rw [sextetAux_ne b alphabet 0 0xff (by decide)]
  simp



theorem decBuf_ones : ∀ n, decBuf n 0xFFFFFFFF = List.replicate n DOT := by
  intro n
  induction n with
  | zero => rfl
  | succ n ih =>
    have h1 : char6ToByte (0xFFFFFFFF &&& 63) = DOT := by decide
    have h2 : sshr6 0xFFFFFFFF = 0xFFFFFFFF := by decide
    simp only [decBuf, h1, h2, ih, List.replicate_succ]

/-- The structural heart of C38: whatever `encodeOutlined` returns for a string of at most five
    bytes has all bits above the encoded sextets set, and the decoding loop reads the string
    back followed by dots. -/
theorem encodeOutlined_spec : ∀ (s : Str) (v : Nat), encodeOutlined s = some v → s.length ≤ 5 →
    U32 - 64 ^ s.length ≤ v ∧ v < U32 ∧
    (∀ c ∈ s, byteToChar6 c ≠ 0xff) ∧
    ∀ n, decBuf n v = s.take n ++ List.replicate (n - s.length) DOT := by
  intro s
  induction s with
  | nil =>
    intro v h _
    simp only [encodeOutlined, Option.some.injEq] at h
    subst h
    refine ⟨by simp [U32], by simp [U32], by simp, ?_⟩
    intro n; simp [decBuf_ones]
  | cons c cs ih =>
    intro v h hl
    simp only [encodeOutlined] at h
    split at h
    · exact absurd h (by simp)
    · next v' hv' =>
      have hl' : cs.length ≤ 4 := by simpa using hl
      obtain ⟨hlo, hhi, hval, hdec⟩ := ih v' hv' (by omega)
      by_cases hsx : byteToChar6 c = 0xff
      · simp [hsx] at h
      · simp only [hsx, if_false, Option.some.injEq] at h
        obtain ⟨hlt, hback⟩ := sextet_ok c hsx
        rw [shl_or _ _ hlt] at h
        have hpow : 64 ^ cs.length ≤ 64 ^ 4 := Nat.pow_le_pow_right (by decide) hl'
        have hp4 : (64:Nat) ^ 4 = 16777216 := by decide
        have hsucc : 64 ^ (c :: cs).length = 64 * 64 ^ cs.length := by
          simp [Nat.pow_succ, Nat.mul_comm]
        generalize 64 ^ cs.length = m at *
        simp only [U32] at hlo hhi ⊢
        have hv : v = 64 * (v' - 4227858432) + byteToChar6 c := by omega
        refine ⟨by rw [hsucc]; omega, by omega, ?_, ?_⟩
        · intro x hx
          rcases List.mem_cons.mp hx with rfl | hx
          · exact hsx
          · exact hval x hx
        · intro n
          cases n with
          | zero => simp [decBuf]
          | succ n =>
            have hs : sshr6 v = v' := by
              rw [sshr6_neg v (by simp only [SIGN]; omega) (by simp only [U32]; omega)]; omega
            have ha : v &&& 63 = byteToChar6 c := by rw [and63]; omega
            simp only [decBuf, ha, hs, hback, hdec, List.take_succ_cons, List.length_cons,
              List.cons_append, Nat.add_sub_add_right]




theorem trimLen_append_left (xs ys : List UInt8) : ∀ n, n ≤ xs.length →
    trimLen (xs ++ ys) n = trimLen xs n := by
  intro n
  induction n with
  | zero => intro _; rfl
  | succ n ih =>
    intro h
    have : (xs ++ ys).getD n 0 = xs.getD n 0 := by
      simp [List.getD_eq_getElem?_getD, List.getElem?_append_left (show n < xs.length by omega)]
    simp only [trimLen, this, ih (by omega)]

theorem trimLen_dots (xs : List UInt8) (m : Nat) : ∀ j, j ≤ m →
    trimLen (xs ++ List.replicate m DOT) (xs.length + j) = trimLen xs xs.length := by
  intro j
  induction j with
  | zero => intro _; exact trimLen_append_left xs _ _ (Nat.le_refl _)
  | succ j ih =>
    intro h
    have : (xs ++ List.replicate m DOT).getD (xs.length + j) 0 = DOT := by
      simp [List.getD_eq_getElem?_getD, show j < m by omega]
    rw [show xs.length + (j + 1) = (xs.length + j) + 1 by omega]
    simp only [trimLen, this, ne_eq, not_true_eq_false, if_false]
    exact ih (by omega)

theorem trimLen_full (xs : List UInt8) (h : xs.getLast? ≠ some DOT) :
    trimLen xs xs.length = xs.length := by
  cases hx : xs.length with
  | zero => rfl
  | succ k =>
    have hl : xs.getLast? = xs[k]? := by rw [List.getLast?_eq_getElem?, hx]; rfl
    have hk : k < xs.length := by omega
    have : xs.getD k 0 ≠ DOT := by
      rw [List.getD_eq_getElem?_getD, List.getElem?_eq_getElem hk]
      rw [hl, List.getElem?_eq_getElem hk] at h
      simpa using h
    simp only [trimLen, this, ne_eq, not_false_eq_true, if_true]

/-- the empty string and the failure sentinel are the only ways to get 0 -/
theorem encodeChar6_cases (s : Str) (id : Nat) (h : encodeChar6 s = some id) :
    (s = [] ∧ id = 0) ∨
    (s ≠ [] ∧ s.length ≤ 5 ∧ s.getLast? ≠ some DOT ∧ encodeOutlined s = some id) := by
  unfold encodeChar6 at h
  by_cases h0 : s = []
  · left; simp [h0] at h; exact ⟨h0, h.symm⟩
  · right
    rw [if_neg h0] at h
    by_cases h1 : s.length > 5 ∨ hasDotSuffix s = true
    · rw [if_pos h1] at h; exact absurd h (by simp)
    · rw [if_neg h1] at h
      refine ⟨h0, by omega, ?_, h⟩
      intro hd; apply h1; right; simp [hasDotSuffix, hd]

/-- **decode ∘ encode = id on the whole inline domain.** -/
theorem decode_encode (s : Str) (id : Nat) (h : encodeChar6 s = some id) : decodeChar6 id = s := by
  rcases encodeChar6_cases s id h with ⟨rfl, rfl⟩ | ⟨_, hl, hd, he⟩
  · rfl
  · obtain ⟨hlo, _, _, hdec⟩ := encodeOutlined_spec s id he hl
    have hpow : 64 ^ s.length ≤ 64 ^ 5 := Nat.pow_le_pow_right (by decide) hl
    have hp5 : (64:Nat) ^ 5 = 1073741824 := by decide
    have hne : id ≠ 0 := by simp only [U32] at hlo; omega
    unfold decodeChar6
    rw [if_neg hne]
    simp only [hdec 5, List.take_of_length_le hl]
    have := trimLen_dots s (5 - s.length) (5 - s.length) (Nat.le_refl _)
    rw [show s.length + (5 - s.length) = 5 by omega] at this
    rw [this, trimLen_full s hd]
    simp

/-- inline IDs are 0 (exactly for "") or have the sign bit set -/
theorem encode_range (s : Str) (id : Nat) (h : encodeChar6 s = some id) :
    (id = 0 ∧ s = []) ∨ (SIGN ≤ id ∧ id < U32 ∧ s ≠ []) := by
  rcases encodeChar6_cases s id h with ⟨rfl, rfl⟩ | ⟨hn, hl, _, he⟩
  · left; exact ⟨rfl, rfl⟩
  · right
    obtain ⟨hlo, hhi, _, _⟩ := encodeOutlined_spec s id he hl
    have hpow : 64 ^ s.length ≤ 64 ^ 5 := Nat.pow_le_pow_right (by decide) hl
    have hp5 : (64:Nat) ^ 5 = 1073741824 := by decide
    simp only [U32, SIGN] at *
    exact ⟨by omega, hhi, hn⟩

/-- **the inline encoding is one-to-one on its whole domain** -/
theorem encode_injective (s₁ s₂ : Str) (id : Nat)
    (h₁ : encodeChar6 s₁ = some id) (h₂ : encodeChar6 s₂ = some id) : s₁ = s₂ := by
  rw [← decode_encode s₁ id h₁, ← decode_encode s₂ id h₂]




theorem encodeOutlined_isSome (s : Str) :
    (encodeOutlined s).isSome ↔ ∀ c ∈ s, byteToChar6 c ≠ 0xff := by
  induction s with
  | nil => simp [encodeOutlined]
  | cons c cs ih =>
    simp only [encodeOutlined, List.mem_cons, forall_eq_or_imp]
    cases h : encodeOutlined cs with
    | none =>
      simp only [h, Option.isSome_none, Bool.false_eq_true, false_iff] at ih ⊢
      intro hh; exact ih hh.2
    | some v =>
      simp only [h, Option.isSome_some, true_iff] at ih
      by_cases hc : byteToChar6 c = 0xff
      · simp [hc]
      · simp [hc]; exact ih

/-- the strings that are stored inline, stated without reference to the encoder -/
def Inlineable (s : Str) : Prop :=
  s = [] ∨ (s.length ≤ 5 ∧ s.getLast? ≠ some DOT ∧ ∀ c ∈ s, c ∈ alphabet)

/-- the encoder succeeds exactly on the inline domain -/
theorem encode_isSome_iff (s : Str) : (encodeChar6 s).isSome ↔ Inlineable s := by
  constructor
  · intro h
    obtain ⟨id, hid⟩ := Option.isSome_iff_exists.mp h
    rcases encodeChar6_cases s id hid with ⟨rfl, _⟩ | ⟨_, hl, hd, he⟩
    · left; rfl
    · right
      refine ⟨hl, hd, ?_⟩
      intro c hc
      exact (sextet_ne_iff_mem c).mp ((encodeOutlined_spec s id he hl).2.2.1 c hc)
  · rintro (rfl | ⟨hl, hd, hc⟩)
    · simp [encodeChar6]
    · unfold encodeChar6
      by_cases h0 : s = []
      · simp [h0]
      · rw [if_neg h0]
        have h1 : ¬ (s.length > 5 ∨ hasDotSuffix s = true) := by
          rintro (h | h)
          · omega
          · simp [hasDotSuffix] at h; exact hd h
        rw [if_neg h1]
        exact (encodeOutlined_isSome s).mpr (fun c hcs => (sextet_ne_iff_mem c).mpr (hc c hcs))



def leaderPC : PC → Bool
  | .append => true
  | .poison => true
  | .commit _ => true
  | _ => false

def CallOk (sh : Shared) (j : Nat) (c : Call) : Prop :=
  match c.pc with
  | .qLoad => encodeChar6 c.s = none
  | .slow => encodeChar6 c.s = none
  | .qCell => encodeChar6 c.s = none ∧ (sh.index c.s).isSome
  | .slowCell => encodeChar6 c.s = none ∧ (sh.index c.s).isSome
  | .append => sh.index c.s = some ⟨0, false, j⟩
  | .poison => sh.index c.s = some ⟨0, false, j⟩
  | .commit i => sh.index c.s = some ⟨0, false, j⟩ ∧ sh.log[i]? = some c.s ∧ i < MAXI32
  | .ret id => encodeChar6 c.s = some id ∨ (∃ e, sh.index c.s = some e ∧ e.cell = id ∧ id ≠ 0)
  | .panicked => True

def EntryOk (log : List Str) (calls : List Call) (k : Str) (e : Entry) : Prop :=
  encodeChar6 k = none ∧ e.owner < calls.length ∧
  (e.poisoned = true → e.cell = 0) ∧
  (e.cell ≠ 0 → e.cell ≤ MAXI32 ∧ log[e.cell - 1]? = some k ∧
      calls[e.owner]? = some ⟨k, .ret e.cell⟩) ∧
  (e.cell = 0 → e.poisoned = false →
      ∃ c, calls[e.owner]? = some c ∧ c.s = k ∧ leaderPC c.pc = true)

structure Inv (S : Sys) : Prop where
  logNext : S.sh.next = S.sh.log.length ∨ MAXI32 ≤ S.sh.next
  entry : ∀ k e, S.sh.index k = some e → EntryOk S.sh.log S.calls k e
  call : ∀ j c, S.calls[j]? = some c → CallOk S.sh j c


theorem entryOk_set (log : List Str) (calls : List Call) (k : Str) (e : Entry) (j : Nat)
    (c c' : Call) (h : EntryOk log calls k e) (hc : calls[j]? = some c)
    (hne : c.s ≠ k ∨ (leaderPC c.pc = false ∧ ∀ id, c.pc ≠ .ret id)) :
    EntryOk log (calls.set j c') k e := by
  obtain ⟨a, b, d, f, g⟩ := h
  refine ⟨a, by simpa using b, d, ?_, ?_⟩
  · intro hne'
    obtain ⟨f1, f2, f3⟩ := f hne'
    refine ⟨f1, f2, ?_⟩
    have : j ≠ e.owner := by
      rintro rfl
      rw [hc] at f3
      cases f3
      rcases hne with hne | ⟨_, hr⟩
      · exact hne rfl
      · exact hr _ rfl
    simp only [List.getElem?_set_ne this]; exact f3
  · intro h0 hp
    obtain ⟨c0, g1, g2, g3⟩ := g h0 hp
    have : j ≠ e.owner := by
      rintro rfl
      rw [hc] at g1
      cases g1
      rcases hne with hne | ⟨hl, _⟩
      · exact hne g2
      · rw [hl] at g3; cases g3
    exact ⟨c0, by simp only [List.getElem?_set_ne this]; exact g1, g2, g3⟩

theorem entryOk_log (log : List Str) (x : Str) (calls : List Call) (k : Str) (e : Entry)
    (h : EntryOk log calls k e) : EntryOk (log ++ [x]) calls k e := by
  obtain ⟨a, b, d, f, g⟩ := h
  refine ⟨a, b, d, ?_, g⟩
  intro hne
  obtain ⟨f1, f2, f3⟩ := f hne
  refine ⟨f1, ?_, f3⟩
  have hlt : e.cell - 1 < log.length := by
    rcases Nat.lt_or_ge (e.cell - 1) log.length with h | h
    · exact h
    · rw [List.getElem?_eq_none h] at f2; cases f2
  rw [List.getElem?_append_left hlt]; exact f2

theorem callOk_setIdx (sh : Shared) (s : Str) (e' : Entry) (j j' : Nat) (c : Call) (hne : j' ≠ j)
    (hold : sh.index s = none ∨ sh.index s = some ⟨0, false, j⟩)
    (h : CallOk sh j' c) : CallOk { sh with index := setIdx sh.index s e' } j' c := by
  by_cases hs : c.s = s
  · obtain ⟨cs, pc⟩ := c
    simp only at hs; subst hs
    cases pc <;> simp only [CallOk, setIdx, if_true, Option.isSome_some, and_true] at h ⊢
    all_goals first
      | exact h
      | exact h.1
      | (rcases hold with ho | ho <;> simp [ho] at h; try omega)
      | skip
    all_goals first
      | exact Or.inl h
      | (rcases h with h | ⟨h1, h2⟩
         · exact Or.inl h
         · exact absurd h1.symm h2)
  · obtain ⟨cs, pc⟩ := c
    cases pc <;> simp only [CallOk, setIdx, if_neg hs] at h ⊢ <;> exact h
/-- a step that does not touch shared memory and starts from a pc that is neither a leader
    pc nor `ret` -/
theorem inv_local (S : Sys) (j : Nat) (c c' : Call) (hc : S.calls[j]? = some c) (h : Inv S)
    (hl : leaderPC c.pc = false) (hr : ∀ id, c.pc ≠ .ret id) (hok : CallOk S.sh j c') :
    Inv ⟨S.sh, S.calls.set j c'⟩ := by
  obtain ⟨h1, h2, h3⟩ := h
  refine ⟨h1, ?_, ?_⟩
  · intro k e hk
    obtain ⟨a, b, d, f, g⟩ := h2 k e hk
    refine ⟨a, by simpa using b, d, ?_, ?_⟩
    · intro hne
      obtain ⟨f1, f2, f3⟩ := f hne
      refine ⟨f1, f2, ?_⟩
      have : j ≠ e.owner := by
        rintro rfl
        rw [hc] at f3
        cases f3
        exact hr _ rfl
      simp only [List.getElem?_set_ne this]; exact f3
    · intro h0 hp
      obtain ⟨c0, g1, g2, g3⟩ := g h0 hp
      have : j ≠ e.owner := by
        rintro rfl
        rw [hc] at g1
        cases g1
        rw [hl] at g3; cases g3
      exact ⟨c0, by simp only [List.getElem?_set_ne this]; exact g1, g2, g3⟩
  · intro j' c'' hc''
    simp only [List.getElem?_set] at hc''
    split at hc''
    · next hjj =>
      subst hjj
      split at hc''
      · cases hc''; exact hok
      · cases hc''
    · exact h3 j' c'' hc''

theorem inv_step (S : Sys) (j : Nat) (c : Call) (hc : S.calls[j]? = some c) (h : Inv S) :
    Inv ⟨(stepCall j S.sh c).1, S.calls.set j (stepCall j S.sh c).2⟩ := by
  have hck := h.call j c hc
  obtain ⟨s, pc⟩ := c
  cases pc with
  | qLoad =>
    simp only [stepCall]
    split
    · exact inv_local S j _ _ hc h rfl (by simp) (by simpa [CallOk] using hck)
    · next e he =>
      split
      · exact inv_local S j _ _ hc h rfl (by simp) (by simpa [CallOk] using hck)
      · exact inv_local S j _ _ hc h rfl (by simp) (by simp [CallOk] at hck ⊢; simp [hck, he])
  | qCell =>
    simp only [stepCall]
    split
    · exact inv_local S j _ _ hc h rfl (by simp) (by simp [CallOk] at hck ⊢; exact hck.1)
    · next e he =>
      split
      · exact inv_local S j _ _ hc h rfl (by simp) (by simp [CallOk] at hck ⊢; exact hck.1)
      · next hne =>
        exact inv_local S j _ _ hc h rfl (by simp) (by simp [CallOk]; right; exact ⟨e, he, rfl, hne⟩)
  | slowCell =>
    simp only [stepCall]
    split
    · exact inv_local S j _ _ hc h rfl (by simp) (by simp [CallOk] at hck ⊢; exact hck.1)
    · next e he =>
      split
      · exact inv_local S j _ _ hc h rfl (by simp) (by simp [CallOk] at hck ⊢; exact hck.1)
      · next hne =>
        exact inv_local S j _ _ hc h rfl (by simp) (by simp [CallOk]; right; exact ⟨e, he, rfl, hne⟩)
  | ret id =>
    simp only [stepCall]
    have : S.calls.set j ⟨s, .ret id⟩ = S.calls := by
      apply List.ext_getElem? ; intro i
      simp only [List.getElem?_set]; split
      · next hji => subst hji; split
                    · exact hc.symm
                    · next hlt => rw [List.getElem?_eq_none (by omega)]
      · rfl
    rw [this]; exact h
  | panicked =>
    simp only [stepCall]
    have : S.calls.set j ⟨s, .panicked⟩ = S.calls := by
      apply List.ext_getElem? ; intro i
      simp only [List.getElem?_set]; split
      · next hji => subst hji; split
                    · exact hc.symm
                    · next hlt => rw [List.getElem?_eq_none (by omega)]
      · rfl
    rw [this]; exact h
  | slow =>
    simp only [stepCall]
    split
    · next hnone =>
      have hj : j < S.calls.length := by
        rcases Nat.lt_or_ge j S.calls.length with h' | h'
        · exact h'
        · rw [List.getElem?_eq_none h'] at hc; cases hc
      refine ⟨h.logNext, ?_, ?_⟩
      · intro k e hk
        simp only [setIdx] at hk
        split at hk
        · next hks =>
          subst hks; cases hk
          refine ⟨by simpa [CallOk] using hck, by simpa using hj, by simp, by simp, ?_⟩
          intro _ _
          exact ⟨_, List.getElem?_set_self hj, rfl, rfl⟩
        · exact entryOk_set _ _ _ _ _ _ _ (h.entry k e hk) hc (Or.inr ⟨rfl, by simp⟩)
      · intro j' c'' hc''
        simp only [List.getElem?_set] at hc''
        split at hc''
        · next hjj =>
          subst hjj; (try rw [if_pos hj] at hc''); cases hc''
          simp [CallOk, setIdx]
        · next hjj =>
          exact callOk_setIdx S.sh s _ j j' c'' (Ne.symm hjj) (Or.inl hnone) (h.call j' c'' hc'')
    · next e he =>
      split
      · exact inv_local S j _ _ hc h rfl (by simp) (by simp [CallOk])
      · exact inv_local S j _ _ hc h rfl (by simp) (by simp [CallOk] at hck ⊢; simp [hck, he])
  | append =>
    have hj : j < S.calls.length := by
      rcases Nat.lt_or_ge j S.calls.length with h' | h'
      · exact h'
      · rw [List.getElem?_eq_none h'] at hc; cases hc
    simp only [CallOk] at hck
    simp only [stepCall]
    split
    · next hfull =>
      refine ⟨Or.inr (by simp only; omega), ?_, ?_⟩
      · intro k e hk
        simp only at hk
        by_cases hks : s = k
        · subst hks
          rw [hck] at hk; cases hk
          refine ⟨(h.entry _ _ hck).1, by simpa using hj, by simp, by simp, ?_⟩
          intro _ _
          exact ⟨_, List.getElem?_set_self hj, rfl, rfl⟩
        · exact entryOk_set _ _ _ _ _ _ _ (h.entry k e hk) hc (Or.inl hks)
      · intro j' c'' hc''
        simp only [List.getElem?_set] at hc''
        split at hc''
        · next hjj =>
          subst hjj; (try rw [if_pos hj] at hc''); cases hc''
          simpa [CallOk] using hck
        · have := h.call j' c'' hc''
          obtain ⟨cs, pc⟩ := c''
          cases pc <;> simp only [CallOk] at this ⊢ <;> exact this
    · next hfull =>
      have hnl : S.sh.next = S.sh.log.length := by
        rcases h.logNext with h' | h'
        · exact h'
        · omega
      refine ⟨Or.inl (by simp [hnl]), ?_, ?_⟩
      · intro k e hk
        simp only at hk ⊢
        apply entryOk_log
        by_cases hks : s = k
        · subst hks
          rw [hck] at hk; cases hk
          refine ⟨(h.entry _ _ hck).1, by simpa using hj, by simp, by simp, ?_⟩
          intro _ _
          exact ⟨_, List.getElem?_set_self hj, rfl, rfl⟩
        · exact entryOk_set _ _ _ _ _ _ _ (h.entry k e hk) hc (Or.inl hks)
      · intro j' c'' hc''
        simp only [List.getElem?_set] at hc''
        split at hc''
        · next hjj =>
          subst hjj; (try rw [if_pos hj] at hc''); cases hc''
          simp only [CallOk]
          refine ⟨hck, ?_, by omega⟩
          rw [hnl]; simp
        · have := h.call j' c'' hc''
          obtain ⟨cs, pc⟩ := c''
          cases pc <;> simp only [CallOk] at this ⊢
          all_goals first
            | exact this
            | skip
          next i' =>
            refine ⟨this.1, ?_, this.2.2⟩
            have hlt : i' < S.sh.log.length := by
              rcases Nat.lt_or_ge i' S.sh.log.length with h' | h'
              · exact h'
              · rw [List.getElem?_eq_none h'] at this; cases this.2.1
            rw [List.getElem?_append_left hlt]; exact this.2.1
  | poison =>
    have hj : j < S.calls.length := by
      rcases Nat.lt_or_ge j S.calls.length with h' | h'
      · exact h'
      · rw [List.getElem?_eq_none h'] at hc; cases hc
    simp only [CallOk] at hck
    simp only [stepCall, hck, Option.getD_some]
    refine ⟨h.logNext, ?_, ?_⟩
    · intro k e hk
      simp only [setIdx] at hk
      split at hk
      · next hks =>
        subst hks; cases hk
        exact ⟨(h.entry _ _ hck).1, by simpa using hj, by simp, by simp, by simp⟩
      · next hks =>
        exact entryOk_set _ _ _ _ _ _ _ (h.entry k e hk) hc (Or.inl (Ne.symm hks))
    · intro j' c'' hc''
      simp only [List.getElem?_set] at hc''
      split at hc''
      · next hjj =>
        subst hjj; (try rw [if_pos hj] at hc''); cases hc''
        simp [CallOk]
      · next hjj =>
        exact callOk_setIdx S.sh s _ j j' c'' (Ne.symm hjj) (Or.inr hck) (h.call j' c'' hc'')
  | commit i =>
    have hj : j < S.calls.length := by
      rcases Nat.lt_or_ge j S.calls.length with h' | h'
      · exact h'
      · rw [List.getElem?_eq_none h'] at hc; cases hc
    simp only [CallOk] at hck
    obtain ⟨hidx, hlog, hi⟩ := hck
    simp only [stepCall, hidx, Option.getD_some]
    refine ⟨h.logNext, ?_, ?_⟩
    · intro k e hk
      simp only [setIdx] at hk
      split at hk
      · next hks =>
        subst hks; cases hk
        refine ⟨(h.entry _ _ hidx).1, by simpa using hj, by simp, ?_, by simp⟩
        intro _
        exact ⟨by simp only; omega, by simpa using hlog, List.getElem?_set_self hj⟩
      · next hks =>
        exact entryOk_set _ _ _ _ _ _ _ (h.entry k e hk) hc (Or.inl (Ne.symm hks))
    · intro j' c'' hc''
      simp only [List.getElem?_set] at hc''
      split at hc''
      · next hjj =>
        subst hjj; (try rw [if_pos hj] at hc''); cases hc''
        simp only [CallOk, setIdx, if_true]
        right; exact ⟨_, rfl, rfl, by omega⟩
      · next hjj =>
        exact callOk_setIdx S.sh s _ j j' c'' (Ne.symm hjj) (Or.inr hidx) (h.call j' c'' hc'')


theorem inv_init : Inv init := by
  refine ⟨Or.inl rfl, ?_, ?_⟩
  · intro k e h; simp [init] at h
  · intro j c h; simp [init] at h

theorem inv_full (S : Sys) (h : Inv S) : Inv (applyAct S .full) := by
  obtain ⟨h1, h2, h3⟩ := h
  refine ⟨Or.inr (Nat.le_refl _), ?_, ?_⟩
  · intro k e hk; exact h2 k e hk
  · intro j c hc
    have := h3 j c hc
    obtain ⟨cs, pc⟩ := c
    cases pc <;> simp only [CallOk, applyAct] at this ⊢ <;> exact this

theorem inv_spawn (S : Sys) (s : Str) (h : Inv S) : Inv (applyAct S (.spawn s)) := by
  obtain ⟨h1, h2, h3⟩ := h
  refine ⟨h1, ?_, ?_⟩
  · intro k e hk
    obtain ⟨a, b, c, d, f⟩ := h2 k e hk
    simp only [applyAct] at hk ⊢
    refine ⟨a, by simp; omega, c, ?_, ?_⟩
    · intro hne
      obtain ⟨d1, d2, d3⟩ := d hne
      refine ⟨d1, d2, ?_⟩
      simp only [List.getElem?_append_left b]; exact d3
    · intro h0 hp
      obtain ⟨c', f1, f2⟩ := f h0 hp
      exact ⟨c', by simp only [List.getElem?_append_left b]; exact f1, f2⟩
  · intro j c hc
    simp only [applyAct] at hc
    by_cases hj : j < S.calls.length
    · rw [List.getElem?_append_left hj] at hc
      exact h3 j c hc
    · rw [List.getElem?_append_right (by omega)] at hc
      have : c = newCall s := by
        cases hh : j - S.calls.length with
        | zero => simp [hh] at hc; exact hc.symm
        | succ n => simp [hh] at hc
      subst this
      unfold newCall
      cases he : encodeChar6 s with
      | none => simp [CallOk, he]
      | some id => simp [CallOk, he]

theorem inv_applyAct (S : Sys) (a : Act) (h : Inv S) : Inv (applyAct S a) := by
  cases a with
  | spawn s => exact inv_spawn S s h
  | full => exact inv_full S h
  | step j =>
    simp only [applyAct]
    split
    · exact h
    · next c hc => exact inv_step S j c hc h

/-- execute a schedule -/
def run (S : Sys) (acts : List Act) : Sys := acts.foldl applyAct S

/-- the states reachable from the empty table by any interleaving of any calls -/
def Reach (S : Sys) : Prop := ∃ acts, S = run init acts

theorem inv_run (S : Sys) (acts : List Act) (h : Inv S) : Inv (run S acts) := by
  induction acts generalizing S with
  | nil => exact h
  | cons a as ih => exact ih _ (inv_applyAct S a h)

theorem inv_reach (S : Sys) (h : Reach S) : Inv S := by
  obtain ⟨acts, rfl⟩ := h
  exact inv_run _ _ inv_init

theorem reach_run (S : Sys) (acts : List Act) (h : Reach S) : Reach (run S acts) := by
  obtain ⟨a0, rfl⟩ := h
  exact ⟨a0 ++ acts, by simp [run, List.foldl_append]⟩


/-! ### consequences of the invariant -/


theorem callOk_ret (S : Sys) (h : Inv S) (j : Nat) (s : Str) (id : Nat)
    (hc : S.calls[j]? = some ⟨s, .ret id⟩) :
    encodeChar6 s = some id ∨
      (encodeChar6 s = none ∧ ∃ e, S.sh.index s = some e ∧ e.cell = id ∧ id ≠ 0 ∧ id ≤ MAXI32 ∧
        S.sh.log[id - 1]? = some s) := by
  have := h.call j _ hc
  simp only [CallOk] at this
  rcases this with h1 | ⟨e, he, hid, hne⟩
  · exact Or.inl h1
  · right
    obtain ⟨a, _, _, d, _⟩ := h.entry s e he
    subst hid
    obtain ⟨d1, d2, _⟩ := d hne
    exact ⟨a, e, he, rfl, hne, d1, d2⟩

theorem inv_same_id_iff (S : Sys) (h : Inv S) (j₁ j₂ : Nat) (s₁ s₂ : Str) (id₁ id₂ : Nat)
    (h₁ : S.calls[j₁]? = some ⟨s₁, .ret id₁⟩) (h₂ : S.calls[j₂]? = some ⟨s₂, .ret id₂⟩) :
    id₁ = id₂ ↔ s₁ = s₂ := by
  rcases callOk_ret S h j₁ s₁ id₁ h₁ with a₁ | ⟨n₁, e₁, he₁, hc₁, hz₁, hm₁, hl₁⟩ <;>
  rcases callOk_ret S h j₂ s₂ id₂ h₂ with a₂ | ⟨n₂, e₂, he₂, hc₂, hz₂, hm₂, hl₂⟩
  · constructor
    · rintro rfl; exact encode_injective s₁ s₂ id₁ a₁ a₂
    · rintro rfl; rw [a₁] at a₂; cases a₂; rfl
  · constructor
    · rintro rfl
      rcases encode_range s₁ id₁ a₁ with ⟨h0, _⟩ | ⟨hs, _, _⟩
      · exact absurd h0 hz₂
      · simp only [SIGN, MAXI32] at hs hm₂; omega
    · rintro rfl; rw [a₁] at n₂; cases n₂
  · constructor
    · rintro rfl
      rcases encode_range s₂ id₁ a₂ with ⟨h0, _⟩ | ⟨hs, _, _⟩
      · exact absurd h0 hz₁
      · simp only [SIGN, MAXI32] at hs hm₁; omega
    · rintro rfl; rw [a₂] at n₁; cases n₁
  · constructor
    · rintro rfl; rw [hl₁] at hl₂; cases hl₂; rfl
    · rintro rfl; rw [he₁] at he₂; cases he₂; rw [← hc₁, ← hc₂]

theorem inv_value_ret (S : Sys) (h : Inv S) (j : Nat) (s : Str) (id : Nat)
    (hc : S.calls[j]? = some ⟨s, .ret id⟩) : value S.sh id = some s := by
  unfold value
  rcases callOk_ret S h j s id hc with a | ⟨_, e, _, _, hz, hm, hl⟩
  · have hd := decode_encode s id a
    rcases encode_range s id a with ⟨h0, _⟩ | ⟨hs, _, _⟩
    · rw [if_pos (Or.inl h0), hd]
    · rw [if_pos (Or.inr hs), hd]
  · rw [if_neg (by simp only [SIGN, MAXI32] at hm ⊢; omega)]; exact hl

/-- a returned call stays returned, whatever happens afterwards -/
theorem ret_stable_act (S : Sys) (a : Act) (j : Nat) (s : Str) (id : Nat)
    (hc : S.calls[j]? = some ⟨s, .ret id⟩) : (applyAct S a).calls[j]? = some ⟨s, .ret id⟩ := by
  have hj : j < S.calls.length := by
    rcases Nat.lt_or_ge j S.calls.length with h' | h'
    · exact h'
    · rw [List.getElem?_eq_none h'] at hc; cases hc
  cases a with
  | spawn s' => simp only [applyAct, List.getElem?_append_left hj]; exact hc
  | full => exact hc
  | step i =>
    simp only [applyAct]
    split
    · exact hc
    · next c hci =>
      simp only [List.getElem?_set]
      split
      · next hij =>
        subst hij
        rw [hc] at hci; cases hci
        simp [stepCall, hj]
      · exact hc

theorem ret_stable (S : Sys) (acts : List Act) (j : Nat) (s : Str) (id : Nat)
    (hc : S.calls[j]? = some ⟨s, .ret id⟩) : (run S acts).calls[j]? = some ⟨s, .ret id⟩ := by
  induction acts generalizing S with
  | nil => exact hc
  | cons a as ih => exact ih _ (ret_stable_act S a j s id hc)

theorem inv_query_iff (S : Sys) (h : Inv S) (s : Str) :
    (query S.sh s).2 = true ↔ Inlineable s ∨ ∃ (j : Nat) (id : Nat), S.calls[j]? = some (Call.mk s (.ret id)) := by
  unfold query
  cases he : encodeChar6 s with
  | some id =>
    have : Inlineable s := (encode_isSome_iff s).mp (by simp [he])
    simp [this]
  | none =>
    have hni : ¬ Inlineable s := fun hi => by
      have := (encode_isSome_iff s).mpr hi; simp [he] at this
    simp only [hni, false_or]
    cases hidx : S.sh.index s with
    | none =>
      simp only [Bool.false_eq_true, false_iff]
      rintro ⟨j, id, hc⟩
      rcases callOk_ret S h j s id hc with a | ⟨_, e, he', _⟩
      · rw [he] at a; cases a
      · rw [hidx] at he'; cases he'
    | some e =>
      obtain ⟨_, _, hp, hnz, _⟩ := h.entry s e hidx
      by_cases hpo : e.poisoned = true
      · simp only [hpo, if_true, Bool.false_eq_true, false_iff]
        rintro ⟨j, id, hc⟩
        rcases callOk_ret S h j s id hc with a | ⟨_, e', he', hce, hz, _⟩
        · rw [he] at a; cases a
        · rw [hidx] at he'; cases he'; exact hz (hce ▸ hp hpo)
      · by_cases hz : e.cell = 0
        · simp only [hpo, hz, if_true, Bool.false_eq_true, if_false, false_iff]
          rintro ⟨j, id, hc⟩
          rcases callOk_ret S h j s id hc with a | ⟨_, e', he', hce, hz', _⟩
          · rw [he] at a; cases a
          · rw [hidx] at he'; cases he'; exact hz' (hce ▸ hz)
        · simp only [hpo, hz, if_false, Bool.false_eq_true, true_iff]
          exact ⟨e.owner, e.cell, (hnz hz).2.2⟩

theorem inv_query_id (S : Sys) (h : Inv S) (s : Str) (id : Nat)
    (hq : query S.sh s = (id, true)) :
    value S.sh id = some s ∧ ∀ (j : Nat) (id' : Nat), S.calls[j]? = some (Call.mk s (.ret id')) → id' = id := by
  unfold query at hq
  cases he : encodeChar6 s with
  | some id0 =>
    rw [he] at hq
    simp only [Prod.mk.injEq, and_true] at hq
    subst hq
    constructor
    · unfold value
      have hd := decode_encode s id0 he
      rcases encode_range s id0 he with ⟨h0, _⟩ | ⟨hs, _, _⟩
      · rw [if_pos (Or.inl h0), hd]
      · rw [if_pos (Or.inr hs), hd]
    · intro j id' hc
      rcases callOk_ret S h j s id' hc with a | ⟨n, _⟩
      · rw [he] at a; cases a; rfl
      · rw [he] at n; cases n
  | none =>
    rw [he] at hq
    cases hidx : S.sh.index s with
    | none => simp [hidx] at hq
    | some e =>
      simp only [hidx] at hq
      by_cases hpo : e.poisoned = true
      · simp [hpo] at hq
      · by_cases hz : e.cell = 0
        · simp [hpo, hz] at hq
        · simp only [hpo, hz, if_false, Bool.false_eq_true, Prod.mk.injEq, and_true] at hq
          subst hq
          obtain ⟨_, _, _, hnz, _⟩ := h.entry s e hidx
          obtain ⟨hm, hl, hcall⟩ := hnz hz
          constructor
          · exact inv_value_ret S h _ s _ hcall
          · intro j id' hc
            exact ((inv_same_id_iff S h j e.owner s s id' e.cell hc hcall).mpr rfl)


/-! ### sequential use -/


/-- no call is in flight -/
def Quiescent (S : Sys) : Prop := ∀ (j : Nat) (c : Call), S.calls[j]? = some c → c.pc.done = true

/-- the loop of `runCall` on the last call, as a function of the shared state only -/
def runLast (me : Nat) : Nat → Shared → Call → Shared × Call
  | 0, sh, c => (sh, c)
  | f + 1, sh, c =>
    if c.pc.done then (sh, c) else runLast me f (stepCall me sh c).1 (stepCall me sh c).2

theorem runCall_last (f : Nat) (sh : Shared) (pre : List Call) (c : Call) :
    runCall f ⟨sh, pre ++ [c]⟩ pre.length =
      ⟨(runLast pre.length f sh c).1, pre ++ [(runLast pre.length f sh c).2]⟩ := by
  induction f generalizing sh c with
  | zero => rfl
  | succ f ih =>
    simp only [runCall, runLast, List.getElem?_concat_length]
    by_cases hd : c.pc.done = true
    · simp [hd]
    · simp only [hd, if_false, Bool.false_eq_true]
      have : applyAct ⟨sh, pre ++ [c]⟩ (.step pre.length) =
          ⟨(stepCall pre.length sh c).1, pre ++ [(stepCall pre.length sh c).2]⟩ := by
        simp [applyAct]
      rw [this, ih]

theorem quiescent_cell (S : Sys) (h : Inv S) (hQ : Quiescent S) (k : Str) (e : Entry)
    (hk : S.sh.index k = some e) (hp : e.poisoned = false) : e.cell ≠ 0 := by
  intro hz
  obtain ⟨_, _, _, _, g⟩ := h.entry k e hk
  obtain ⟨c, hc, _, hl⟩ := g hz hp
  have := hQ _ _ hc
  cases hpc : c.pc <;> simp [hpc, leaderPC, PC.done] at hl this

theorem runLast_done (S : Sys) (h : Inv S) (hQ : Quiescent S) (s : Str) :
    (runLast S.calls.length 6 S.sh (newCall s)).2.pc.done = true ∧
    (runLast S.calls.length 6 S.sh (newCall s)).2.s = s := by
  unfold newCall
  cases he : encodeChar6 s with
  | some id => simp [runLast, PC.done]
  | none =>
    cases hidx : S.sh.index s with
    | none =>
      by_cases hfull : MAXI32 ≤ S.sh.next
      · simp [runLast, PC.done, stepCall, hidx, setIdx, hfull]
      · simp [runLast, PC.done, stepCall, hidx, setIdx, hfull]
    | some e =>
      by_cases hp : e.poisoned = true
      · simp [runLast, PC.done, stepCall, hidx, hp]
      · have hz := quiescent_cell S h hQ s e hidx (by simpa using hp)
        simp [runLast, PC.done, stepCall, hidx, hp, hz]



theorem internSeq_eq (S : Sys) (s : Str) :
    internSeq S s =
      (⟨(runLast S.calls.length 6 S.sh (newCall s)).1,
        S.calls ++ [(runLast S.calls.length 6 S.sh (newCall s)).2]⟩,
       (runLast S.calls.length 6 S.sh (newCall s)).2.result) := by
  unfold internSeq
  have : applyAct S (.spawn s) = ⟨S.sh, S.calls ++ [newCall s]⟩ := rfl
  simp only [this, runCall_last, List.getElem?_concat_length, Option.bind_some]

/-- a sequential `Intern` on a quiescent table always finishes (returns or panics) -/
theorem internSeq_finishes (S : Sys) (h : Inv S) (hQ : Quiescent S) (s : Str) :
    ∃ c : Call, (internSeq S s).1.calls = S.calls ++ [c] ∧ c.s = s ∧ c.pc.done = true ∧
      (internSeq S s).2 = c.result := by
  rw [internSeq_eq]
  obtain ⟨h1, h2⟩ := runLast_done S h hQ s
  exact ⟨_, rfl, h2, h1, rfl⟩

theorem runCall_path : ∀ (f : Nat) (S : Sys) (j : Nat), ∃ acts, runCall f S j = run S acts := by
  intro f
  induction f with
  | zero => intro S j; exact ⟨[], rfl⟩
  | succ f ih =>
    intro S j
    simp only [runCall]
    split
    · exact ⟨[], rfl⟩
    · split
      · exact ⟨[], rfl⟩
      · obtain ⟨acts, ha⟩ := ih (applyAct S (.step j)) j
        exact ⟨.step j :: acts, by rw [ha]; rfl⟩

theorem internSeq_path (S : Sys) (s : Str) : ∃ acts, (internSeq S s).1 = run S acts := by
  obtain ⟨acts, ha⟩ := runCall_path 6 (applyAct S (.spawn s)) S.calls.length
  exact ⟨.spawn s :: acts, by simp only [internSeq]; rw [ha]; rfl⟩

theorem quiescent_internSeq (S : Sys) (h : Inv S) (hQ : Quiescent S) (s : Str) :
    Quiescent (internSeq S s).1 := by
  obtain ⟨c, hc, _, hd, _⟩ := internSeq_finishes S h hQ s
  intro j c' hj
  rw [hc] at hj
  by_cases hlt : j < S.calls.length
  · rw [List.getElem?_append_left hlt] at hj; exact hQ j c' hj
  · rw [List.getElem?_append_right (by omega)] at hj
    cases hh : j - S.calls.length with
    | zero => simp [hh] at hj; subst hj; exact hd
    | succ n => simp [hh] at hj

/-- a returned sequential `Intern` is recorded as a returned call -/
theorem internSeq_record (S : Sys) (h : Inv S) (hQ : Quiescent S) (s : Str) (id : Nat)
    (hr : (internSeq S s).2 = some (some id)) :
    (internSeq S s).1.calls[S.calls.length]? = some (Call.mk s (.ret id)) := by
  obtain ⟨c, hc, hs, _, hres⟩ := internSeq_finishes S h hQ s
  rw [hc, List.getElem?_concat_length]
  rw [hres] at hr
  obtain ⟨cs, pc⟩ := c
  simp only at hs; subst hs
  cases pc <;> simp [Call.result] at hr
  subst hr; rfl

/-- on a table that is not exhausted a sequential `Intern` returns an id -/
theorem internSeq_returns (S : Sys) (h : Inv S) (hQ : Quiescent S) (s : Str)
    (hn : S.sh.next < MAXI32) (hp : ∀ k e, S.sh.index k = some e → e.poisoned = false) :
    ∃ id, (internSeq S s).2 = some (some id) := by
  rw [internSeq_eq]
  unfold newCall
  cases he : encodeChar6 s with
  | some id => exact ⟨id, by simp [runLast, PC.done, Call.result]⟩
  | none =>
    have hfull : ¬ MAXI32 ≤ S.sh.next := by omega
    cases hidx : S.sh.index s with
    | none =>
      exact ⟨S.sh.next + 1, by simp [runLast, PC.done, stepCall, hidx, setIdx, hfull, Call.result]⟩
    | some e =>
      have hpe := hp s e hidx
      have hz := quiescent_cell S h hQ s e hidx hpe
      exact ⟨e.cell, by simp [runLast, PC.done, stepCall, hidx, hpe, hz, Call.result]⟩

/-- states of purely sequential use: `Intern` calls run to completion one at a time
    (and `SetFullForTesting`) -/
inductive SeqReach : Sys → Prop
  | init : SeqReach init
  | intern (S : Sys) (s : Str) : SeqReach S → SeqReach (internSeq S s).1
  | full (S : Sys) : SeqReach S → SeqReach (applyAct S .full)

theorem seqReach_spec (S : Sys) (h : SeqReach S) : Reach S ∧ Quiescent S := by
  induction h with
  | init => exact ⟨⟨[], rfl⟩, by intro j c hj; simp [init] at hj⟩
  | intern S s _ ih =>
    obtain ⟨hR, hQ⟩ := ih
    obtain ⟨acts, ha⟩ := internSeq_path S s
    exact ⟨ha ▸ reach_run S acts hR, quiescent_internSeq S (inv_reach S hR) hQ s⟩
  | full S _ ih =>
    obtain ⟨hR, hQ⟩ := ih
    exact ⟨reach_run S [.full] hR, hQ⟩


end PCV.Props.C38
