/-
Lemmas about the model of sourceinfo/source_code_info.go (`PCV.SourceInfo`): phase 2 never changes
paths or spans; extra option locations are exactly the requests tagged `extra`.
-/
import PCV.Model.SourceInfo
set_option linter.unusedSimpArgs false
namespace PCV.Lemmas.SourceInfo
open PCV.SourceInfo PCV.FileInfo

/-- the span phase 2 gives a request: depends on the request and the file tables only -/
def reqSpan (fi : FI) (r : Req) : List Int :=
  match r.kind with
  | .file hasKids lastEnd =>
    if hasKids then makeSpan (tokStart fi r.n.s) (tokEnd fi lastEnd) else makeSpan (1, 1) (1, 1)
  | _ => nodeSpan fi r.n

theorem withGiven_path_span (fi : FI) (used : List Nat) (span : List Int) (det : List (List Cm))
    (lead trail : List Cm) (path : Path) :
    (withGiven fi used span det lead trail path).1.path = path ∧
    (withGiven fi used span det lead trail path).1.span = span := by
  simp [withGiven]

/-- phase 2 copies the path and computes the span from the node alone — whatever the mode and the
    `commentsUsed` set -/
theorem realize1_path_span (fi : FI) (ec : Bool) (used : List Nat) (r : Req) :
    (realize1 fi ec used r).1.path = r.path ∧ (realize1 fi ec used r).1.span = reqSpan fi r := by
  unfold realize1 reqSpan
  cases hk : r.kind <;> simp [bareLoc, withGiven_path_span]
  · split <;> simp [withGiven_path_span]

theorem realize_path_span (fi : FI) (ec : Bool) (reqs : List Req) :
    ∀ used, (realize fi ec reqs used).map (fun l => (l.path, l.span)) =
      reqs.map (fun r => (r.path, reqSpan fi r)) := by
  induction reqs with
  | nil => intro used; simp [realize]
  | cons r rs ih =>
    intro used
    simp only [realize, List.map_cons, ih]
    rw [(realize1_path_span fi ec used r).1, (realize1_path_span fi ec used r).2]

theorem realize_length (fi : FI) (ec : Bool) (reqs : List Req) :
    ∀ used, (realize fi ec reqs used).length = reqs.length := by
  induction reqs with
  | nil => intro used; simp [realize]
  | cons r rs ih => intro used; simp [realize, ih]

end PCV.Lemmas.SourceInfo

namespace PCV.Lemmas.SourceInfo
open PCV.SourceInfo PCV.FileInfo

/-! ### extra option locations: the requests tagged `extra` -/

/-- keeps the requests that are made without WithExtraOptionLocations (the added ones are `newLoc`
    calls tagged `extra`) -/
def nx (r : Req) : Bool := !(r.extra && r.kind == RK.plain)

mutual
theorem genChildren_extra : ∀ (v : OVal) (pre path : Path) (k : Nat) (kids : List OInfo),
    ∀ r ∈ genChildren v pre path k kids, r.extra = true ∧ r.kind = RK.plain
  | .array _ elems, pre, _, 1, kids => by
    intro r hr; rw [genChildren] at hr; exact genElems_extra elems kids pre r hr
  | .msg _ fields, pre, _, 2, kids => by
    intro r hr; rw [genChildren] at hr; exact genFlds_extra fields kids pre r hr
  | .array _ elems, _, path, 0, _ => by
    intro r hr; rw [genChildren] at hr; exact genScalars_extra elems path 0 r hr
  | .scalar _, _, _, _, _ => by intro r hr; simp [genChildren] at hr
  | .fld _ _ _ _, _, _, _, _ => by intro r hr; simp [genChildren] at hr
  | .msg _ _, _, _, 0, _ => by intro r hr; simp [genChildren] at hr
  | .msg _ _, _, _, 1, _ => by intro r hr; simp [genChildren] at hr
  | .msg _ _, _, _, k + 3, _ => by intro r hr; simp [genChildren] at hr
  | .array _ _, _, _, k + 2, _ => by intro r hr; simp [genChildren] at hr
theorem genElems_extra : ∀ (vs : List OVal) (is : List OInfo) (pre : Path),
    ∀ r ∈ genElems vs is pre, r.extra = true ∧ r.kind = RK.plain
  | v :: vs, i :: is, pre => by
    intro r hr
    rw [genElems] at hr
    simp only [List.mem_cons, List.mem_append] at hr
    rcases hr with h | h | h
    · subst h; exact ⟨rfl, rfl⟩
    · exact genChildren_extra v pre _ _ _ r h
    · exact genElems_extra vs is pre r h
  | [], _, _ => by intro r hr; simp [genElems] at hr
  | _ :: _, [], _ => by intro r hr; simp [genElems] at hr
theorem genFlds_extra : ∀ (vs : List OVal) (is : List OInfo) (pre : Path),
    ∀ r ∈ genFlds vs is pre, r.extra = true ∧ r.kind = RK.plain
  | .fld n name isAny val :: vs, i :: is, pre => by
    intro r hr
    rw [genFlds] at hr
    simp only [List.mem_append] at hr
    rcases hr with h | h
    · split at h
      · simp only [List.mem_append] at h
        rcases h with (h | h) | h
        · split at h
          · simp only [List.mem_singleton] at h; subst h; exact ⟨rfl, rfl⟩
          · simp at h
        · split at h
          · simp at h
          · simp only [List.mem_singleton] at h; subst h; exact ⟨rfl, rfl⟩
        · exact genChildren_extra val pre _ _ _ r h
      · simp at h
    · exact genFlds_extra vs is pre r h
  | .scalar _ :: vs, _ :: is, pre => by
    intro r hr; rw [genFlds] at hr
    · exact genFlds_extra vs is pre r hr
    · intro _ _ _ _ h; cases h
  | .array _ _ :: vs, _ :: is, pre => by
    intro r hr; rw [genFlds] at hr
    · exact genFlds_extra vs is pre r hr
    · intro _ _ _ _ h; cases h
  | .msg _ _ :: vs, _ :: is, pre => by
    intro r hr; rw [genFlds] at hr
    · exact genFlds_extra vs is pre r hr
    · intro _ _ _ _ h; cases h
  | [], _, _ => by intro r hr; simp [genFlds] at hr
  | _ :: _, [], _ => by intro r hr; simp [genFlds] at hr
theorem genScalars_extra : ∀ (vs : List OVal) (path : Path) (i : Nat),
    ∀ r ∈ genScalars vs path i, r.extra = true ∧ r.kind = RK.plain
  | v :: vs, path, i => by
    intro r hr
    rw [genScalars] at hr
    simp only [List.mem_cons] at hr
    rcases hr with h | h
    · subst h; exact ⟨rfl, rfl⟩
    · exact genScalars_extra vs path (i + 1) r h
  | [], _, _ => by intro r hr; simp [genScalars] at hr
end

end PCV.Lemmas.SourceInfo

namespace PCV.Lemmas.SourceInfo
open PCV.SourceInfo PCV.FileInfo

theorem filter_nx_extra (l : List Req) (h : ∀ r ∈ l, r.extra = true ∧ r.kind = RK.plain) : l.filter nx = [] := by
  rw [List.filter_eq_nil_iff]; intro r hr; simp [nx, (h r hr).1, (h r hr).2]

theorem filter_nx_noX (l : List Req) (h : ∀ r ∈ l, r.extra = false) : l.filter nx = l := by
  rw [List.filter_eq_self]; intro r hr; simp [nx, h r hr]

theorem genChildren_filter (v : OVal) (pre path : Path) (k : Nat) (kids : List OInfo) :
    (genChildren v pre path k kids).filter nx = [] :=
  filter_nx_extra _ (genChildren_extra v pre path k kids)

theorem genNameParts_noX : ∀ (ps : List (Nd × Nd)) (optPath : Path) (j : Nat),
    ∀ r ∈ genNameParts ps optPath j, r.extra = false
  | [], _, _ => by intro r hr; simp [genNameParts] at hr
  | (a, b) :: rest, optPath, j => by
    intro r hr
    simp only [genNameParts, List.mem_cons] at hr
    rcases hr with h | h | h
    · subst h; rfl
    · subst h; rfl
    · exact genNameParts_noX rest optPath (j + 1) r h

theorem genOption_filter (o : Opt) (compact : Bool) (ui : Int) (path : Path) :
    (genOption true o compact ui path).1.filter nx = (genOption false o compact ui path).1 ∧
    (genOption true o compact ui path).2 = (genOption false o compact ui path).2 := by
  unfold genOption
  cases o.info with
  | some info =>
    cases compact <;> simp [List.filter_append, genChildren_filter, nx, List.filter]
  | none =>
    simp only [List.filter_append, and_true]
    rw [filter_nx_noX _ (genNameParts_noX _ _ _)]
    cases compact <;> by_cases h : o.valTag = 0 <;> simp [nx, List.filter, h]

theorem genOptions_filter (compact : Bool) : ∀ (os : List Opt) (ui : Int) (path : Path),
    (genOptions true compact os ui path).filter nx = genOptions false compact os ui path
  | [], _, _ => by simp [genOptions]
  | o :: os, ui, path => by
    simp only [genOptions, List.filter_append]
    rw [(genOption_filter o compact ui path).1, (genOption_filter o compact ui path).2,
      genOptions_filter compact os _ path]

theorem genCompact_filter (co : Option COpts) (path : Path) (tag : Int) :
    (genCompact true co path tag).filter nx = genCompact false co path tag := by
  cases co with
  | none => simp [genCompact]
  | some c => simp [genCompact, List.filter, nx, genOptions_filter]

theorem genField_filter (f : Fld) (path : Path) :
    (genField true f path).filter nx = genField false f path := by
  unfold genField
  simp only [List.filter_append, genCompact_filter]
  cases f.isGroup <;> cases f.extendee <;> cases f.label <;> simp [List.filter, nx]

theorem genRange_noX (r : Rng) (path : Path) (s e : Int) : ∀ x ∈ genRange r path s e, x.extra = false := by
  intro x hx; simp [genRange] at hx; rcases hx with h | h | h <;> subst h <;> rfl

theorem genRanges_noX : ∀ (rs : List Rng) (path : Path) (idx s e : Int),
    ∀ x ∈ (genRanges rs path idx s e).1, x.extra = false
  | [], _, _, _, _ => by intro x hx; simp [genRanges] at hx
  | r :: rs, path, idx, s, e => by
    intro x hx
    simp only [genRanges, List.mem_append] at hx
    rcases hx with h | h
    · exact genRange_noX r _ s e x h
    · exact genRanges_noX rs path (idx + 1) s e x h

theorem genNames_noX : ∀ (ns : List Nd) (path : Path) (idx : Int),
    ∀ x ∈ (genNames ns path idx).1, x.extra = false
  | [], _, _ => by intro x hx; simp [genNames] at hx
  | n :: ns, path, idx => by
    intro x hx
    simp only [genNames, List.mem_cons] at hx
    rcases hx with h | h
    · subst h; rfl
    · exact genNames_noX ns path (idx + 1) x h

theorem genReserved_noX (n : Nd) (names idents : List Nd) (ranges : List Rng) (path : Path)
    (nt rt : Int) (wi : Bool) (ni ri : Int) :
    ∀ x ∈ (genReserved n names idents ranges path nt rt wi ni ri).1, x.extra = false := by
  intro x hx
  simp only [genReserved, List.mem_append] at hx
  rcases hx with (h | h) | h
  · split at h
    · simp at h
    · simp only [List.mem_cons] at h
      rcases h with h | h
      · subst h; rfl
      · exact genNames_noX _ _ _ x h
  · split at h
    · simp at h
    · simp only [List.mem_cons] at h
      rcases h with h | h
      · subst h; rfl
      · exact genNames_noX _ _ _ x h
  · split at h
    · simp at h
    · simp only [List.mem_cons] at h
      rcases h with h | h
      · subst h; rfl
      · exact genRanges_noX _ _ _ _ _ x h

theorem genExtRangeOpts_filter (co : Option COpts) : ∀ (rs : List Rng) (path : Path) (idx : Int),
    (genExtRangeOpts true co rs path idx).filter nx = genExtRangeOpts false co rs path idx
  | [], _, _ => by simp [genExtRangeOpts]
  | _ :: rs, path, idx => by
    simp only [genExtRangeOpts, List.filter_append, genCompact_filter, genExtRangeOpts_filter co rs]

theorem genExtRanges_filter (n : Nd) (ranges : List Rng) (co : Option COpts) (idx : Int) (path : Path) :
    (genExtRanges true n ranges co idx path).1.filter nx = (genExtRanges false n ranges co idx path).1 ∧
    (genExtRanges true n ranges co idx path).2 = (genExtRanges false n ranges co idx path).2 := by
  simp only [genExtRanges, List.filter_cons, List.filter_append, genExtRangeOpts_filter, and_true]
  rw [filter_nx_noX _ (genRanges_noX _ _ _ _ _)]
  simp [nx]

theorem genEnumValue_filter (n name num : Nd) (co : Option COpts) (path : Path) :
    (genEnumValue true n name num co path).filter nx = genEnumValue false n name num co path := by
  simp [genEnumValue, List.filter_append, genCompact_filter, List.filter, nx]

theorem genEnumDecls_filter : ∀ (ds : List Decl) (path : Path) (oi vi ni ri : Int),
    (genEnumDecls true ds path oi vi ni ri).filter nx = genEnumDecls false ds path oi vi ni ri
  | [], _, _, _, _, _ => by simp [genEnumDecls]
  | d :: ds, path, oi, vi, ni, ri => by
    cases d <;> simp only [genEnumDecls, List.filter_append, genEnumDecls_filter ds]
    case opt o =>
      rw [(genOption_filter o false oi _).1, (genOption_filter o false oi _).2]
    case enumVal n name num co => rw [genEnumValue_filter]
    case reserved n names idents ranges => rw [filter_nx_noX _ (genReserved_noX _ _ _ _ _ _ _ _ _ _)]

theorem genEnum_filter (n brace name : Nd) (decls : List Decl) (path : Path) :
    (genEnum true n brace name decls path).filter nx = genEnum false n brace name decls path := by
  simp [genEnum, List.filter_append, genEnumDecls_filter, List.filter, nx]

theorem genRpcDecls_filter : ∀ (ds : List Decl) (oi : Int) (path : Path),
    (genRpcDecls true ds oi path).filter nx = genRpcDecls false ds oi path
  | [], _, _ => by simp [genRpcDecls]
  | d :: ds, oi, path => by
    cases d <;> simp only [genRpcDecls, List.filter_append, genRpcDecls_filter ds]
    case opt o => rw [(genOption_filter o false oi _).1, (genOption_filter o false oi _).2]

theorem genMethod_filter (n : Nd) (brace : Option Nd) (name : Nd) (inS : Option Nd) (inT : Nd)
    (outS : Option Nd) (outT : Nd) (decls : List Decl) (path : Path) :
    (genMethod true n brace name inS inT outS outT decls path).filter nx =
      genMethod false n brace name inS inT outS outT decls path := by
  simp only [genMethod, List.filter_append, genRpcDecls_filter]
  cases brace <;> cases inS <;> cases outS <;> simp [List.filter, nx]

theorem genSvcDecls_filter : ∀ (ds : List Decl) (path : Path) (oi ri : Int),
    (genSvcDecls true ds path oi ri).filter nx = genSvcDecls false ds path oi ri
  | [], _, _, _ => by simp [genSvcDecls]
  | d :: ds, path, oi, ri => by
    cases d <;> simp only [genSvcDecls, List.filter_append, genSvcDecls_filter ds]
    case opt o => rw [(genOption_filter o false oi _).1, (genOption_filter o false oi _).2]
    case rpc n brace name inS inT outS outT decls => rw [genMethod_filter]

theorem genService_filter (n brace name : Nd) (decls : List Decl) (path : Path) :
    (genService true n brace name decls path).filter nx = genService false n brace name decls path := by
  simp [genService, List.filter_append, genSvcDecls_filter, List.filter, nx]

theorem msgHead_noX (fp : Option Path) (n brace name : Nd) (path : Path) :
    ∀ x ∈ msgHead fp n brace name path, x.extra = false := by
  intro x hx
  cases fp <;> simp [msgHead] at hx
  · rcases hx with h | h <;> subst h <;> rfl
  · rcases hx with h | h | h <;> subst h <;> rfl

end PCV.Lemmas.SourceInfo

namespace PCV.Lemmas.SourceInfo
open PCV.SourceInfo PCV.FileInfo

mutual
theorem genMsgDecls_filter : ∀ (ds : List Decl) (path : Path) (c : MC),
    (genMsgDecls true ds path c).filter nx = genMsgDecls false ds path c
  | [], _, _ => by simp [genMsgDecls]
  | .opt o :: ds, path, c => by
    simp only [genMsgDecls, List.filter_append]
    rw [(genOption_filter o false c.opt _).1, (genOption_filter o false c.opt _).2, genMsgDecls_filter ds]
  | .field f :: ds, path, c => by
    simp only [genMsgDecls, List.filter_append, genField_filter, genMsgDecls_filter ds]
  | .mapField f :: ds, path, c => by
    simp only [genMsgDecls, List.filter_append, genField_filter, genMsgDecls_filter ds]
  | .group f n brace name decls :: ds, path, c => by
    simp only [genMsgDecls, List.filter_append, genField_filter, genMsgDecls_filter ds,
      genMsgDecls_filter decls, filter_nx_noX _ (msgHead_noX _ _ _ _ _)]
  | .msg n brace name decls :: ds, path, c => by
    simp only [genMsgDecls, List.filter_append, genMsgDecls_filter ds,
      genMsgDecls_filter decls, filter_nx_noX _ (msgHead_noX _ _ _ _ _)]
  | .oneof n brace name decls :: ds, path, c => by
    have h := genOneofDecls_filter decls (path ++ [Tag.Message_Field]) (path ++ [Tag.Message_NestedType])
      (path ++ [Tag.Message_OneofDecl, c.oneof]) 0 c.field c.nested
    simp only [genMsgDecls, List.filter_append, List.filter_cons, nx, h.1, h.2, genMsgDecls_filter ds]
    simp
  | .extend n brace decls :: ds, path, c => by
    have h := genExtendDecls_filter decls (path ++ [Tag.Message_Extension]) (path ++ [Tag.Message_NestedType])
      c.extend c.nested
    simp only [genMsgDecls, List.filter_append, List.filter_cons, nx, h.1, h.2, genMsgDecls_filter ds]
    simp
  | .enum n brace name decls :: ds, path, c => by
    simp only [genMsgDecls, List.filter_append, genEnum_filter, genMsgDecls_filter ds]
  | .extRange n ranges co :: ds, path, c => by
    simp only [genMsgDecls, List.filter_append, genMsgDecls_filter ds]
    rw [(genExtRanges_filter n ranges co _ _).1, (genExtRanges_filter n ranges co _ _).2]
  | .reserved n names idents ranges :: ds, path, c => by
    simp only [genMsgDecls, List.filter_append, genMsgDecls_filter ds,
      filter_nx_noX _ (genReserved_noX _ _ _ _ _ _ _ _ _ _)]
  | .imp _ _ _ :: ds, path, c => by simp only [genMsgDecls, genMsgDecls_filter ds]
  | .pkg _ :: ds, path, c => by simp only [genMsgDecls, genMsgDecls_filter ds]
  | .enumVal _ _ _ _ :: ds, path, c => by simp only [genMsgDecls, genMsgDecls_filter ds]
  | .svc _ _ _ _ :: ds, path, c => by simp only [genMsgDecls, genMsgDecls_filter ds]
  | .rpc _ _ _ _ _ _ _ _ :: ds, path, c => by simp only [genMsgDecls, genMsgDecls_filter ds]
  | .other :: ds, path, c => by simp only [genMsgDecls, genMsgDecls_filter ds]
theorem genOneofDecls_filter : ∀ (ds : List Decl) (fp mp op : Path) (oi fi mi : Int),
    (genOneofDecls true ds fp mp op oi fi mi).1.filter nx = (genOneofDecls false ds fp mp op oi fi mi).1 ∧
    (genOneofDecls true ds fp mp op oi fi mi).2 = (genOneofDecls false ds fp mp op oi fi mi).2
  | [], _, _, _, _, _, _ => by simp [genOneofDecls]
  | .opt o :: ds, fp, mp, op, oi, fi, mi => by
    have h := genOneofDecls_filter ds fp mp op (genOption false o false oi (op ++ [Tag.Oneof_Options])).2 fi mi
    simp only [genOneofDecls, List.filter_append]
    rw [(genOption_filter o false oi _).1, (genOption_filter o false oi _).2, h.1, h.2]
    simp
  | .field f :: ds, fp, mp, op, oi, fi, mi => by
    have h := genOneofDecls_filter ds fp mp op oi (fi + 1) mi
    simp only [genOneofDecls, List.filter_append, genField_filter, h.1, h.2]
    simp
  | .group f n brace name decls :: ds, fp, mp, op, oi, fi, mi => by
    have h := genOneofDecls_filter ds fp mp op oi (fi + 1) (mi + 1)
    simp only [genOneofDecls, List.filter_append, genField_filter, h.1, h.2,
      genMsgDecls_filter decls, filter_nx_noX _ (msgHead_noX _ _ _ _ _)]
    simp
  | .imp _ _ _ :: ds, fp, mp, op, oi, fi, mi => by
    simpa only [genOneofDecls] using genOneofDecls_filter ds fp mp op oi fi mi
  | .pkg _ :: ds, fp, mp, op, oi, fi, mi => by
    simpa only [genOneofDecls] using genOneofDecls_filter ds fp mp op oi fi mi
  | .mapField _ :: ds, fp, mp, op, oi, fi, mi => by
    simpa only [genOneofDecls] using genOneofDecls_filter ds fp mp op oi fi mi
  | .msg _ _ _ _ :: ds, fp, mp, op, oi, fi, mi => by
    simpa only [genOneofDecls] using genOneofDecls_filter ds fp mp op oi fi mi
  | .oneof _ _ _ _ :: ds, fp, mp, op, oi, fi, mi => by
    simpa only [genOneofDecls] using genOneofDecls_filter ds fp mp op oi fi mi
  | .extend _ _ _ :: ds, fp, mp, op, oi, fi, mi => by
    simpa only [genOneofDecls] using genOneofDecls_filter ds fp mp op oi fi mi
  | .enum _ _ _ _ :: ds, fp, mp, op, oi, fi, mi => by
    simpa only [genOneofDecls] using genOneofDecls_filter ds fp mp op oi fi mi
  | .enumVal _ _ _ _ :: ds, fp, mp, op, oi, fi, mi => by
    simpa only [genOneofDecls] using genOneofDecls_filter ds fp mp op oi fi mi
  | .extRange _ _ _ :: ds, fp, mp, op, oi, fi, mi => by
    simpa only [genOneofDecls] using genOneofDecls_filter ds fp mp op oi fi mi
  | .reserved _ _ _ _ :: ds, fp, mp, op, oi, fi, mi => by
    simpa only [genOneofDecls] using genOneofDecls_filter ds fp mp op oi fi mi
  | .svc _ _ _ _ :: ds, fp, mp, op, oi, fi, mi => by
    simpa only [genOneofDecls] using genOneofDecls_filter ds fp mp op oi fi mi
  | .rpc _ _ _ _ _ _ _ _ :: ds, fp, mp, op, oi, fi, mi => by
    simpa only [genOneofDecls] using genOneofDecls_filter ds fp mp op oi fi mi
  | .other :: ds, fp, mp, op, oi, fi, mi => by
    simpa only [genOneofDecls] using genOneofDecls_filter ds fp mp op oi fi mi
theorem genExtendDecls_filter : ∀ (ds : List Decl) (xp mp : Path) (ei mi : Int),
    (genExtendDecls true ds xp mp ei mi).1.filter nx = (genExtendDecls false ds xp mp ei mi).1 ∧
    (genExtendDecls true ds xp mp ei mi).2 = (genExtendDecls false ds xp mp ei mi).2
  | [], _, _, _, _ => by simp [genExtendDecls]
  | .field f :: ds, xp, mp, ei, mi => by
    have h := genExtendDecls_filter ds xp mp (ei + 1) mi
    simp only [genExtendDecls, List.filter_append, genField_filter, h.1, h.2]
    simp
  | .group f n brace name decls :: ds, xp, mp, ei, mi => by
    have h := genExtendDecls_filter ds xp mp (ei + 1) (mi + 1)
    simp only [genExtendDecls, List.filter_append, genField_filter, h.1, h.2,
      genMsgDecls_filter decls, filter_nx_noX _ (msgHead_noX _ _ _ _ _)]
    simp
  | .opt _ :: ds, xp, mp, ei, mi => by
    simpa only [genExtendDecls] using genExtendDecls_filter ds xp mp ei mi
  | .imp _ _ _ :: ds, xp, mp, ei, mi => by
    simpa only [genExtendDecls] using genExtendDecls_filter ds xp mp ei mi
  | .pkg _ :: ds, xp, mp, ei, mi => by
    simpa only [genExtendDecls] using genExtendDecls_filter ds xp mp ei mi
  | .mapField _ :: ds, xp, mp, ei, mi => by
    simpa only [genExtendDecls] using genExtendDecls_filter ds xp mp ei mi
  | .msg _ _ _ _ :: ds, xp, mp, ei, mi => by
    simpa only [genExtendDecls] using genExtendDecls_filter ds xp mp ei mi
  | .oneof _ _ _ _ :: ds, xp, mp, ei, mi => by
    simpa only [genExtendDecls] using genExtendDecls_filter ds xp mp ei mi
  | .extend _ _ _ :: ds, xp, mp, ei, mi => by
    simpa only [genExtendDecls] using genExtendDecls_filter ds xp mp ei mi
  | .enum _ _ _ _ :: ds, xp, mp, ei, mi => by
    simpa only [genExtendDecls] using genExtendDecls_filter ds xp mp ei mi
  | .enumVal _ _ _ _ :: ds, xp, mp, ei, mi => by
    simpa only [genExtendDecls] using genExtendDecls_filter ds xp mp ei mi
  | .extRange _ _ _ :: ds, xp, mp, ei, mi => by
    simpa only [genExtendDecls] using genExtendDecls_filter ds xp mp ei mi
  | .reserved _ _ _ _ :: ds, xp, mp, ei, mi => by
    simpa only [genExtendDecls] using genExtendDecls_filter ds xp mp ei mi
  | .svc _ _ _ _ :: ds, xp, mp, ei, mi => by
    simpa only [genExtendDecls] using genExtendDecls_filter ds xp mp ei mi
  | .rpc _ _ _ _ _ _ _ _ :: ds, xp, mp, ei, mi => by
    simpa only [genExtendDecls] using genExtendDecls_filter ds xp mp ei mi
  | .other :: ds, xp, mp, ei, mi => by
    simpa only [genExtendDecls] using genExtendDecls_filter ds xp mp ei mi
end

theorem genMessage_filter (fp : Option Path) (n brace name : Nd) (decls : List Decl) (path : Path) :
    (genMessage true fp n brace name decls path).filter nx = genMessage false fp n brace name decls path := by
  simp only [genMessage, List.filter_append, genMsgDecls_filter, filter_nx_noX _ (msgHead_noX _ _ _ _ _)]

theorem genFileDecls_filter : ∀ (ds : List Decl) (c : FC),
    (genFileDecls true ds c).filter nx = genFileDecls false ds c
  | [], _ => by simp [genFileDecls]
  | d :: ds, c => by
    cases d <;> simp only [genFileDecls, List.filter_append, genFileDecls_filter ds]
    case imp n pub weak =>
      cases pub <;> cases weak <;> simp [List.filter, nx, genFileDecls_filter ds]
    case pkg n => simp [List.filter, nx, genFileDecls_filter ds]
    case opt o => rw [(genOption_filter o false c.opt _).1, (genOption_filter o false c.opt _).2]
    case msg n brace name decls => rw [genMessage_filter]
    case enum n brace name decls => rw [genEnum_filter]
    case extend n brace decls =>
      have h := genExtendDecls_filter decls [Tag.File_Extension] [Tag.File_MessageType] c.extend c.msg
      simp only [List.filter_cons, nx, List.filter_append, h.1, h.2, genFileDecls_filter ds]
      simp
    case svc n brace name decls => rw [genService_filter]

/-- **Phase 1 under WithExtraOptionLocations**: dropping the requests tagged `extra` gives exactly
    the walk without the option. -/
theorem genFile_filter (f : File) : (genFile true f).filter nx = genFile false f := by
  simp only [genFile, List.filter_cons, List.filter_append, genFileDecls_filter]
  cases f.syn <;> cases f.edition <;> simp [nx, List.filter]

end PCV.Lemmas.SourceInfo

namespace PCV.Lemmas.SourceInfo
open PCV.SourceInfo PCV.FileInfo

/-- without extra comments an added request yields a bare location and leaves `commentsUsed` alone,
    so the locations of the other requests are the same, comments included -/
theorem realize_std_sublist (fi : FI) : ∀ (reqs : List Req) (used : List Nat),
    List.Sublist (realize fi false (reqs.filter nx) used) (realize fi false reqs used)
  | [], used => by simp [realize]
  | r :: rs, used => by
    by_cases h : nx r = true
    · simp only [List.filter_cons, h, if_true, realize]
      exact (realize_std_sublist fi rs _).cons_cons _
    · have hk : r.kind = RK.plain := by
        unfold nx at h
        cases hx : r.extra <;> by_cases hk : r.kind = RK.plain <;> simp [hx, hk] at h ⊢
      have hu : (realize1 fi false used r).2 = used := by simp [realize1, hk]
      simp only [List.filter_cons, h, realize]
      rw [hu]
      exact (realize_std_sublist fi rs used).cons _

end PCV.Lemmas.SourceInfo
