/-
Accounting lemmas for the trivia walker model (`PCV.Model.Trivia`): every function that splits a
run of skippable tokens returns pieces that concatenate to the run, and `walkScope` as a whole
accounts for every item of the scope exactly once and in order (`walkScope_accounting`), when the
tokens the Go code drops are counted (`NatOut.dropped`).
-/
import PCV.Model.Trivia
namespace PCV.Trivia

/-- scope-level pieces: a fused pair counts as one natural token (its open ID) -/
inductive SPiece where
  | sk (s : Skip)
  | nat (id : Nat)
  deriving DecidableEq, Repr

def scopePieces : List Item → List SPiece
  | [] => []
  | .skip s :: r => .sk s :: scopePieces r
  | .leaf id _ _ :: r => .nat id :: scopePieces r
  | .fused id _ _ _ _ _ :: r => .nat id :: scopePieces r

def sks (ts : List Skip) : List SPiece := ts.map .sk

def emitTok (t : NatOut) : List SPiece :=
  sks t.leading ++ [.nat t.openId] ++ sks t.trailing ++ sks t.dropped

def emitDecl (d : DeclOut) : List SPiece := sks d.slot ++ d.toks.flatMap emitTok

def emitScope (o : ScopeOut) : List SPiece :=
  sks o.openTrailing ++ o.decls.flatMap emitDecl ++ sks o.lastSlot

@[simp] theorem sks_nil : sks [] = [] := rfl
@[simp] theorem sks_append (a b : List Skip) : sks (a ++ b) = sks a ++ sks b := by simp [sks]

theorem scopePieces_skips (ts : List Skip) (r : List Item) :
    scopePieces (ts.map Item.skip ++ r) = sks ts ++ scopePieces r := by
  induction ts with
  | nil => simp
  | cons t ts ih => simp [scopePieces, ih, sks]

theorem scopePieces_skips' (ts : List Skip) : scopePieces (ts.map Item.skip) = sks ts := by
  have := scopePieces_skips ts []
  simpa [scopePieces] using this

theorem splitDetached_append (ts : List Skip) :
    (splitDetached ts).1 ++ (splitDetached ts).2 = ts := by
  unfold splitDetached
  split <;> simp

theorem splitDetached_fst (ts : List Skip) :
    ∃ k, (splitDetached ts).1 = ts.take k ∧ (splitDetached ts).2 = ts.drop k := by
  unfold splitDetached
  split
  · exact ⟨0, by simp⟩
  · next k _ => exact ⟨k, rfl, rfl⟩


/-- what the trailing part of `walkDecl` accounts for -/
def TrailRes.emit (t : TrailRes) : List SPiece :=
  sks t.trailing ++ sks t.dropped ++ scopePieces t.remaining

theorem take_add_drop_drop {α : Type} (l : List α) (n m : Nat) :
    l.take (n + ((l.drop n).take m).length) ++ (l.drop n).drop m = l := by
  rw [List.length_take, List.length_drop, List.drop_drop]
  by_cases h : m ≤ l.length - n
  · rw [Nat.min_eq_left h, List.take_append_drop]
  · have h' : l.length - n ≤ m := by omega
    rw [Nat.min_eq_right h']
    have h1 : l.length ≤ n + (l.length - n) := by omega
    have h2 : l.length ≤ n + m := by omega
    rw [List.take_of_length_le h1, List.drop_eq_nil_of_le h2, List.append_nil]

theorem stopAfterNL_emit (trailing : List Skip) (rem : List Item) :
    (stopAfterNL trailing rem).emit = sks trailing ++ scopePieces rem := by
  unfold stopAfterNL TrailRes.emit
  obtain ⟨k, h1, h2⟩ := splitDetached_fst (trailing.drop (firstNewlineIndex trailing))
  simp only []
  rw [h1, h2, scopePieces_skips]
  have := take_add_drop_drop trailing (firstNewlineIndex trailing) k
  simp only [sks_nil, List.append_nil]
  rw [← List.append_assoc, ← sks_append, this]

theorem endOfScopeTrail_emit (trailing : List Skip) (a b : Bool) :
    (endOfScopeTrail trailing a b).emit = sks trailing := by
  unfold endOfScopeTrail TrailRes.emit
  split
  · simp only [sks_nil, List.append_nil, scopePieces_skips', ← sks_append, List.take_append_drop]
  · split
    · simp [scopePieces_skips']
    · simp [scopePieces]

theorem trailLoop_emit (endIsSemi : Bool) (afterNL : Bool) (trailing : List Skip) (rest : List Item) :
    (trailLoop endIsSemi afterNL trailing rest).emit = sks trailing ++ scopePieces rest := by
  induction rest generalizing afterNL trailing with
  | nil => simp [trailLoop, endOfScopeTrail_emit, scopePieces]
  | cons it r ih =>
    cases it with
    | skip s =>
      simp only [trailLoop]
      split
      · exact stopAfterNL_emit _ _
      · rw [ih]; simp [scopePieces, sks]
    | leaf id kw t =>
      simp only [trailLoop]
      split
      · simp [TrailRes.emit]
      · exact stopAfterNL_emit _ _
    | fused id br ot kids cid ct =>
      simp only [trailLoop]
      split
      · simp [TrailRes.emit]
      · exact stopAfterNL_emit _ _

theorem exhausted_emit (pending : List Skip) : (exhausted pending).emit = sks pending := by
  unfold exhausted TrailRes.emit
  split
  · next h => simp [List.isEmpty_iff.mp h, scopePieces]
  · simp only []
    split
    · split <;>
        simp only [sks_nil, List.append_nil, List.nil_append, scopePieces_skips', ← sks_append,
          List.take_append_drop]
    · split <;>
        simp only [sks_nil, List.append_nil, List.nil_append, scopePieces, ← sks_append,
          List.take_append_drop]


def emitHead (cur : NatOut) : List SPiece := sks cur.leading ++ [.nat cur.openId]

theorem finishWith_emit (acc : List NatOut) (cur : NatOut) (t : TrailRes) :
    (finishWith acc cur t).toks.flatMap emitTok ++ scopePieces (finishWith acc cur t).remaining
      = acc.flatMap emitTok ++ emitHead cur ++ t.emit := by
  simp [finishWith, emitTok, emitHead, TrailRes.emit, List.flatMap_append]

theorem emitTok_of_clean (cur : NatOut) (h1 : cur.trailing = []) (h2 : cur.dropped = []) :
    emitTok cur = emitHead cur := by
  simp [emitTok, emitHead, h1, h2]

theorem declLoop_emit (mode : Mode) (fresh : Bool) (info : NatInfo) (cur : NatOut) (sawAssign : Bool)
    (pending : List Skip) (acc : List NatOut) (rest : List Item)
    (h1 : cur.trailing = []) (h2 : cur.dropped = []) (h3 : fresh = true → pending = []) :
    (declLoop mode fresh info cur sawAssign pending acc rest).toks.flatMap emitTok ++
        scopePieces (declLoop mode fresh info cur sawAssign pending acc rest).remaining
      = acc.flatMap emitTok ++ emitHead cur ++ sks pending ++ scopePieces rest := by
  fun_induction declLoop mode fresh info cur sawAssign pending acc rest with
  | case1 info cur sawAssign pend acc rest sawAssign' cur' isBraces needPeek isSemi boundary hb t =>
    have hp : pend = [] := h3 rfl
    subst hp
    rw [finishWith_emit, trailLoop_emit]
    simp [cur', emitHead]
  | case2 info cur sawAssign pend acc sawAssign' cur' isBraces needPeek isSemi boundary hb =>
    have hp : pend = [] := h3 rfl
    subst hp
    rw [finishWith_emit, exhausted_emit]
    simp [cur', emitHead, scopePieces]
  | case3 info cur sawAssign pend acc sawAssign' cur' isBraces needPeek s r isSemi boundary hb ih =>
    have hp : pend = [] := h3 rfl
    subst hp
    rw [ih (by simp [cur', h1]) (by simp [cur', h2]) (by simp)]
    simp [cur', emitHead, scopePieces, sks]
  | case4 info cur sawAssign pend acc sawAssign' cur' isBraces needPeek it r hns n isSemi boundary hb ih =>
    have hp : pend = [] := h3 rfl
    subst hp
    rw [ih (by simp [mkNat]) (by simp [mkNat]) (by simp)]
    have hc : emitTok cur' = emitHead cur := by
      rw [emitTok_of_clean cur' (by simp [cur', h1]) (by simp [cur', h2])]; simp [cur', emitHead]
    cases it with
    | skip s => exact absurd rfl (hns s)
    | leaf id kw t => simp [List.flatMap_append, hc, emitHead, mkNat, n, natInfo, scopePieces]
    | fused id br ot kids cid ct => simp [List.flatMap_append, hc, emitHead, mkNat, n, natInfo, scopePieces]
  | case5 info cur sawAssign pending acc =>
    rw [finishWith_emit, exhausted_emit]
    simp [scopePieces]
  | case6 info cur sawAssign pending acc s r ih =>
    rw [ih h1 h2 (by simp)]
    simp [scopePieces, sks]
  | case7 info cur sawAssign pending acc it r hns fn ext cur' leading n ih =>
    rw [ih (by simp [mkNat]) (by simp [mkNat]) (by simp)]
    cases hext : ext with
    | false =>
      have hc : emitTok cur' = emitHead cur := by
        simp [cur', hext, emitTok_of_clean cur h1 h2]
      have hl : leading = pending := by simp [leading, hext]
      cases it with
      | skip s => exact absurd rfl (hns s)
      | leaf id kw t => simp [List.flatMap_append, hc, hl, emitHead, mkNat, n, natInfo, scopePieces]
      | fused id br ot kids cid ct => simp [List.flatMap_append, hc, hl, emitHead, mkNat, n, natInfo, scopePieces]
    | true =>
      have hc : emitTok cur' = emitHead cur ++ sks (pending.take fn) := by
        simp [cur', hext, emitTok, emitHead, h2]
      have hl : leading = pending.drop fn := by simp [leading, hext]
      have hs : sks pending = sks (pending.take fn) ++ sks (pending.drop fn) := by
        rw [← sks_append, List.take_append_drop]
      cases it with
      | skip s => exact absurd rfl (hns s)
      | leaf id kw t => simp [List.flatMap_append, hc, hl, hs, emitHead, mkNat, n, natInfo, scopePieces]
      | fused id br ot kids cid ct => simp [List.flatMap_append, hc, hl, hs, emitHead, mkNat, n, natInfo, scopePieces]


/-! ### how much `walkDecl` hands back (fuel of `scopeLoop`) -/

theorem splitDetached_snd_length (ts : List Skip) : (splitDetached ts).2.length ≤ ts.length := by
  obtain ⟨k, _, h2⟩ := splitDetached_fst ts
  rw [h2]; simp

theorem stopAfterNL_remaining (trailing : List Skip) (rem : List Item) :
    (stopAfterNL trailing rem).remaining.length ≤ trailing.length + rem.length := by
  unfold stopAfterNL
  have := splitDetached_snd_length (trailing.drop (firstNewlineIndex trailing))
  simp only [List.length_append, List.length_map]
  simp only [List.length_drop] at this
  omega

theorem endOfScopeTrail_remaining (trailing : List Skip) (a b : Bool) :
    (endOfScopeTrail trailing a b).remaining.length ≤ trailing.length := by
  unfold endOfScopeTrail
  split
  · simp
  · split <;> simp

theorem trailLoop_remaining (endIsSemi afterNL : Bool) (trailing : List Skip) (rest : List Item) :
    (trailLoop endIsSemi afterNL trailing rest).remaining.length ≤ trailing.length + rest.length := by
  induction rest generalizing afterNL trailing with
  | nil => simpa [trailLoop] using endOfScopeTrail_remaining trailing afterNL endIsSemi
  | cons it r ih =>
    cases it with
    | skip s =>
      simp only [trailLoop]
      split
      · exact stopAfterNL_remaining _ _
      · have := ih (afterNL || s.isNewline) (trailing ++ [s])
        simp only [List.length_append, List.length_cons, List.length_nil] at this ⊢
        omega
    | leaf id kw t =>
      simp only [trailLoop]
      split
      · simp
      · exact stopAfterNL_remaining _ _
    | fused id br ot kids cid ct =>
      simp only [trailLoop]
      split
      · simp
      · exact stopAfterNL_remaining _ _

theorem exhausted_remaining (pending : List Skip) :
    (exhausted pending).remaining.length ≤ pending.length := by
  unfold exhausted
  split
  · simp
  · simp only []
    split <;> simp

theorem declLoop_remaining (mode : Mode) (fresh : Bool) (info : NatInfo) (cur : NatOut) (sawAssign : Bool)
    (pending : List Skip) (acc : List NatOut) (rest : List Item) (h3 : fresh = true → pending = []) :
    (declLoop mode fresh info cur sawAssign pending acc rest).remaining.length
      ≤ pending.length + rest.length := by
  fun_induction declLoop mode fresh info cur sawAssign pending acc rest with
  | case1 info cur sawAssign pend acc rest sawAssign' cur' isBraces needPeek isSemi boundary hb t =>
    have := trailLoop_remaining (info.kw == .semi) false [] rest
    simp only [finishWith]
    simp only [List.length_nil, Nat.zero_add] at this
    exact Nat.le_trans this (Nat.le_add_left _ _)
  | case2 info cur sawAssign pend acc sawAssign' cur' isBraces needPeek isSemi boundary hb =>
    simp [finishWith, exhausted]
  | case3 info cur sawAssign pend acc sawAssign' cur' isBraces needPeek s r isSemi boundary hb ih =>
    have := ih (by simp)
    simp only [List.length_cons, List.length_nil] at this ⊢
    omega
  | case4 info cur sawAssign pend acc sawAssign' cur' isBraces needPeek it r hns n isSemi boundary hb ih =>
    have := ih (by simp)
    simp only [List.length_cons, List.length_nil] at this ⊢
    omega
  | case5 info cur sawAssign pending acc =>
    have := exhausted_remaining pending
    simp only [finishWith, List.length_nil]
    omega
  | case6 info cur sawAssign pending acc s r ih =>
    have := ih (by simp)
    simp only [List.length_append, List.length_cons, List.length_nil] at this ⊢
    omega
  | case7 info cur sawAssign pending acc it r hns fn ext cur' leading n ih =>
    have := ih (by simp)
    simp only [List.length_cons, List.length_nil] at this ⊢
    omega

/-! ### the scope as a whole -/

theorem scopePieces_nat (it : Item) (r : List Item) (h : ∀ s, it ≠ Item.skip s) :
    scopePieces (it :: r) = .nat (natInfo it).openId :: scopePieces r := by
  cases it with
  | skip s => exact absurd rfl (h s)
  | leaf id kw t => simp [scopePieces, natInfo]
  | fused id br ot kids cid ct => simp [scopePieces, natInfo]

theorem scopeStep_emit (isFile : Bool) (mode : Mode) (pending : List Skip) (hadBlank closeView first : Bool)
    (openTr : List Skip) (it : Item) (r : List Item) (hns : ∀ s, it ≠ Item.skip s)
    (ho : first = true → openTr = []) :
    sks (scopeStep isFile mode pending hadBlank closeView first openTr it r).1 ++
        emitDecl (scopeStep isFile mode pending hadBlank closeView first openTr it r).2.1 ++
        scopePieces (scopeStep isFile mode pending hadBlank closeView first openTr it r).2.2.remaining
      = sks openTr ++ sks pending ++ scopePieces (it :: r) := by
  simp only [scopeStep, emitDecl, walkDecl]
  rw [List.append_assoc, List.append_assoc, declLoop_emit _ _ _ _ _ _ _ _ (by simp [mkNat]) (by simp [mkNat]) (by simp)]
  rw [scopePieces_nat it r hns]
  simp only [List.flatMap_nil, List.nil_append, emitHead, mkNat, sks_nil, List.append_nil]
  split
  · next hext =>
    simp only [Bool.and_eq_true] at hext
    have hof := ho hext.1.1.1
    subst hof
    have := splitDetached_append (List.drop (firstNewlineIndex pending) pending)
    have h2 : sks pending = sks (List.take (firstNewlineIndex pending) pending) ++
        (sks (splitDetached (List.drop (firstNewlineIndex pending) pending)).1 ++
         sks (splitDetached (List.drop (firstNewlineIndex pending) pending)).2) := by
      rw [← sks_append, ← sks_append, this, List.take_append_drop]
    rw [h2]; simp
  · have := splitDetached_append pending
    have h2 : sks pending = sks (splitDetached pending).1 ++ sks (splitDetached pending).2 := by
      rw [← sks_append, this]
    rw [h2]; simp

theorem scopeStep_remaining (isFile : Bool) (mode : Mode) (pending : List Skip) (hadBlank closeView first : Bool)
    (openTr : List Skip) (it : Item) (r : List Item) :
    (scopeStep isFile mode pending hadBlank closeView first openTr it r).2.2.remaining.length ≤ r.length := by
  simp only [scopeStep, walkDecl]
  have := declLoop_remaining mode true (natInfo it)
    (mkNat (natInfo it) (splitDetached (if (first && !isFile && decide (firstNewlineIndex pending < pending.length) &&
      hasComment (List.take (firstNewlineIndex pending) pending)) = true then
        List.drop (firstNewlineIndex pending) pending else pending)).2 (closeView && it.isFused)) false [] [] r (by simp)
  simpa using this

theorem scopeLoop_emit (isFile : Bool) (mode : Mode) (fuel : Nat) (pending : List Skip)
    (hadBlank closeView : Bool) (decls : List DeclOut) (openTr : List Skip) (rest : List Item)
    (hf : rest.length < fuel) (ho : decls = [] → openTr = []) :
    emitScope (scopeLoop isFile mode fuel pending hadBlank closeView decls openTr rest)
      = sks openTr ++ decls.flatMap emitDecl ++ sks pending ++ scopePieces rest := by
  induction fuel generalizing pending hadBlank closeView decls openTr rest with
  | zero => omega
  | succ fuel ih =>
    have natCase : ∀ (it : Item) (r : List Item), rest = it :: r → (∀ s, it ≠ Item.skip s) →
        emitScope (scopeLoop isFile mode fuel [] 
          (scopeStep isFile mode pending hadBlank closeView decls.isEmpty openTr it r).2.2.hasBlank
          (scopeStep isFile mode pending hadBlank closeView decls.isEmpty openTr it r).2.2.closeView
          (decls ++ [(scopeStep isFile mode pending hadBlank closeView decls.isEmpty openTr it r).2.1])
          (scopeStep isFile mode pending hadBlank closeView decls.isEmpty openTr it r).1
          (scopeStep isFile mode pending hadBlank closeView decls.isEmpty openTr it r).2.2.remaining)
        = sks openTr ++ decls.flatMap emitDecl ++ sks pending ++ scopePieces (it :: r) := by
      intro it r hr hns
      subst hr
      rw [ih _ _ _ _ _ _ (by
        have := scopeStep_remaining isFile mode pending hadBlank closeView decls.isEmpty openTr it r
        simp at hf; omega) (by simp)]
      have hstep := scopeStep_emit isFile mode pending hadBlank closeView decls.isEmpty openTr it r hns
        (by intro h; exact ho (List.isEmpty_iff.mp h))
      simp only [List.flatMap_append, List.flatMap_cons, List.flatMap_nil, List.append_nil, sks_nil]
      by_cases hd : decls = []
      · subst hd
        simp only [List.flatMap_nil, List.append_nil, List.nil_append] at hstep ⊢
        rw [← hstep]
      · -- openTr is unchanged when a slot has already been recorded
        have hne : decls.isEmpty = false := by
          cases decls with
          | nil => exact absurd rfl hd
          | cons _ _ => rfl
        have h1 : (scopeStep isFile mode pending hadBlank closeView decls.isEmpty openTr it r).1 = openTr := by
          simp [scopeStep, hne]
        rw [h1] at hstep ⊢
        have := congrArg (fun l => List.drop (sks openTr).length l) hstep
        simp only [List.append_assoc, List.drop_left] at this
        simp only [List.append_assoc]
        rw [this]
    cases rest with
    | nil => simp [scopeLoop, emitScope, scopePieces]
    | cons it r =>
      cases it with
      | skip s =>
        simp only [scopeLoop]
        rw [ih _ _ _ _ _ _ (by simp at hf; omega) ho]
        simp [scopePieces, sks]
      | leaf id kw t =>
        simp only [scopeLoop]
        exact natCase _ _ rfl (by intro s h; cases h)
      | fused id br ot kids cid ct =>
        simp only [scopeLoop]
        exact natCase _ _ rfl (by intro s h; cases h)

/-- **Accounting identity of the trivia walker.**  For the items of any scope, in either mode:
    the open token's trailing trivia, then per declaration its slot and per natural token its
    leading trivia, the token, its trailing trivia and what was dropped after it, then the last
    slot — read in this order — are exactly the items of the scope, each once, in source order. -/
theorem walkScope_accounting (isFile : Bool) (mode : Mode) (items : List Item) :
    emitScope (walkScope isFile mode items) = scopePieces items := by
  unfold walkScope
  rw [scopeLoop_emit _ _ _ _ _ _ _ _ _ (by omega) (by simp)]
  simp

end PCV.Trivia
