/-
Invariants of the experimental-lexer model (PCV.Model.XLexer):
cursor validity (`Cur`), push accounting (`AccD`), progress.
-/
import PCV.Lemmas.TokenStream
import PCV.Lemmas.XUtf8
namespace PCV.XLexer
open PCV.Utf8 PCV.TokenStream

/-! ### cursor positions -/

/-- `c` is inside the text and on a rune boundary of valid UTF-8 -/
def Cur (E : Env) (c : Nat) : Prop := c ≤ E.n ∧ V (E.text.drop c)

theorem peek_some {E : Env} {c r : Nat} (h : peekAt E c = some r) :
    decOk (E.text.drop c) ∧ r = (decodeRune (E.text.drop c)).1 := by
  unfold peekAt at h
  simp only at h
  split at h
  · simp at h
  · split at h
    · simp at h
    · next h1 h2 =>
      simp only [Option.some.injEq] at h
      exact ⟨⟨h1, h2⟩, h.symm⟩

theorem peek_none {E : Env} {c : Nat} (h : peekAt E c = none) : ¬ decOk (E.text.drop c) := by
  unfold peekAt at h
  simp only at h
  intro hd
  split at h
  · exact hd.1 ‹_›
  · split at h
    · exact hd.2 ‹_›
    · simp at h

/-- `pop` after a successful `peek`: at least one byte, inside the text, on a boundary -/
theorem peek_adv {E : Env} {c r : Nat} (hc : Cur E c) (h : peekAt E c = some r) :
    1 ≤ runeLen r ∧ Cur E (c + runeLen r) := by
  obtain ⟨hok, hr⟩ := peek_some h
  obtain ⟨hl, hpos⟩ := decode_runeLen _ hok
  have hw := decode_width_le (E.text.drop c)
  rw [← hr] at hl
  have hne : E.text.drop c ≠ [] := by
    intro he; rw [he] at hok; exact hok.1 rfl
  have hv := (V_inv _ hc.2 hne).2
  rw [List.drop_drop, ← hl] at hv
  refine ⟨by omega, ?_, hv⟩
  simp only [List.length_drop] at hw
  unfold Env.n
  omega

theorem peek_none_eof {E : Env} {c : Nat} (hc : Cur E c) (h : peekAt E c = none) : c = E.n := by
  have := peek_none h
  by_cases hne : E.text.drop c = []
  · have : E.text.length ≤ c := by simpa using hne
    have := hc.1; unfold Env.n at *; omega
  · exact absurd (V_inv _ hc.2 hne).1 this

theorem peek_lt {E : Env} {c r : Nat} (h : peekAt E c = some r) : c < E.n := by
  obtain ⟨hok, _⟩ := peek_some h
  by_cases hlt : c < E.n
  · exact hlt
  · exfalso
    have : E.text.drop c = [] := by simp; unfold Env.n at hlt; omega
    rw [this] at hok; exact hok.1 rfl

/-- a peeked rune below 0x80 is the byte under the cursor -/
theorem peek_ascii {E : Env} {c r : Nat} (h : peekAt E c = some r) (hr : r < 0x80) :
    ∃ b rest, E.text.drop c = b :: rest ∧ b.toNat = r := by
  obtain ⟨hok, he⟩ := peek_some h
  obtain ⟨b, rest, hb, hbr⟩ := decode_ascii_head _ hok (by rw [← he]; exact hr)
  exact ⟨b, rest, hb, by rw [hbr, he]⟩

/-! monotone cursor functions -/

theorem takeWhileAux_cur (E : Env) (p : Nat → Bool) (f c : Nat) (hc : Cur E c) :
    c ≤ takeWhileAux E p f c ∧ Cur E (takeWhileAux E p f c) := by
  induction f generalizing c with
  | zero => exact ⟨Nat.le_refl _, hc⟩
  | succ f ih =>
    simp only [takeWhileAux]
    split
    · exact ⟨Nat.le_refl _, hc⟩
    · next r hr =>
      split
      · have := peek_adv hc hr
        have := ih _ this.2
        exact ⟨by omega, this.2⟩
      · exact ⟨Nat.le_refl _, hc⟩

theorem takeWhile_cur (E : Env) (p : Nat → Bool) (c : Nat) (hc : Cur E c) :
    c ≤ takeWhile E p c ∧ Cur E (takeWhile E p c) := takeWhileAux_cur E p _ c hc

theorem takeDigits_cur (E : Env) (p : Nat → Bool) (k c : Nat) (hc : Cur E c) :
    c ≤ takeDigits E p k c ∧ Cur E (takeDigits E p k c) := by
  induction k generalizing c with
  | zero => exact ⟨Nat.le_refl _, hc⟩
  | succ k ih =>
    simp only [takeDigits]
    split
    · next r hr =>
      split
      · have := peek_adv hc hr
        have := ih _ this.2
        exact ⟨by omega, this.2⟩
      · exact ⟨Nat.le_refl _, hc⟩
    · exact ⟨Nat.le_refl _, hc⟩

theorem strContent_cur (E : Env) (c : Nat) (hc : Cur E c) :
    c ≤ (strContent E c).1 ∧ Cur E (strContent E c).1 := by
  unfold strContent
  split
  · exact ⟨Nat.le_refl _, hc⟩
  · next r hr =>
    have h1 := peek_adv hc hr
    simp only
    split
    · exact ⟨by omega, h1.2⟩
    · split
      · exact ⟨by omega, h1.2⟩
      · next r2 hr2 =>
        have h2 := peek_adv h1.2 hr2
        repeat' split
        all_goals first
          | exact ⟨by omega, h2.2⟩
          | (have := takeDigits_cur E isOct 2 _ h2.2; exact ⟨by omega, this.2⟩)
          | (have := takeDigits_cur E isHex 2 _ h2.2; exact ⟨by omega, this.2⟩)
          | (have := takeDigits_cur E isHex 4 _ h2.2; exact ⟨by omega, this.2⟩)
          | (have := takeDigits_cur E isHex 8 _ h2.2; exact ⟨by omega, this.2⟩)

/-- progress of one string-content step when not at the end -/
theorem strContent_progress (E : Env) (c : Nat) (hc : Cur E c) (hlt : c < E.n) :
    c < (strContent E c).1 := by
  unfold strContent
  split
  · next h => have := peek_none_eof hc h; omega
  · next r hr =>
    have h1 := peek_adv hc hr
    simp only
    split
    · omega
    · split
      · simp only; omega
      · next r2 hr2 =>
        have h2 := peek_adv h1.2 hr2
        repeat' split
        all_goals first
          | (simp only; omega)
          | (have := takeDigits_cur E isOct 2 _ h2.2; simp only; omega)
          | (have := takeDigits_cur E isHex 2 _ h2.2; simp only; omega)
          | (have := takeDigits_cur E isHex 4 _ h2.2; simp only; omega)
          | (have := takeDigits_cur E isHex 8 _ h2.2; simp only; omega)

theorem cur_n (E : Env) : Cur E E.n := ⟨Nat.le_refl _, by simp [Env.n, V.nil]⟩

/-- skipping an ASCII prefix of the rest keeps the cursor valid -/
theorem cur_ascii_prefix {E : Env} {c : Nat} (hc : Cur E c) (pre : Bytes)
    (hp : pre.isPrefixOf (E.text.drop c) = true) (ha : ∀ b ∈ pre, b.toNat < 0x80) :
    Cur E (c + pre.length) := by
  have hv := V_drop_ascii_prefix pre _ hc.2 hp ha
  rw [List.drop_drop] at hv
  refine ⟨?_, hv⟩
  have := List.IsPrefix.length_le (List.isPrefixOf_iff_prefix.mp hp)
  simp only [List.length_drop] at this
  have := hc.1; unfold Env.n at *; omega

theorem strLoop_cur (E : Env) (quote : Bytes) (hq : ∀ b ∈ quote, b.toNat < 0x80) (f c : Nat)
    (hc : Cur E c) : c ≤ (strLoop E quote f c).1 ∧ Cur E (strLoop E quote f c).1 := by
  induction f generalizing c with
  | zero => exact ⟨Nat.le_refl _, hc⟩
  | succ f ih =>
    simp only [strLoop]
    split
    · exact ⟨Nat.le_refl _, hc⟩
    · split
      · next hp => exact ⟨by simp, cur_ascii_prefix hc quote hp hq⟩
      · have h1 := strContent_cur E c hc
        split
        · next c' heq => rw [heq] at h1; exact h1
        · next c' heq =>
          rw [heq] at h1
          have := ih c' h1.2
          exact ⟨by simp only at h1; omega, this.2⟩

theorem rawNumber_cur (E : Env) (f c : Nat) (hc : Cur E c) :
    c ≤ rawNumber E f c ∧ Cur E (rawNumber E f c) := by
  induction f generalizing c with
  | zero => exact ⟨Nat.le_refl _, hc⟩
  | succ f ih =>
    simp only [rawNumber]
    split
    · exact ⟨Nat.le_refl _, hc⟩
    · next r hr =>
      have h1 := peek_adv hc hr
      split
      · split
        · next r2 hr2 =>
          have h2 := peek_adv h1.2 hr2
          split
          · have := ih _ h2.2; exact ⟨by omega, this.2⟩
          · have := ih _ h1.2; exact ⟨by omega, this.2⟩
        · have := ih _ h1.2; exact ⟨by omega, this.2⟩
      · split
        · have := ih _ h1.2; exact ⟨by omega, this.2⟩
        · exact ⟨Nat.le_refl _, hc⟩

/-- a number starts with `.` or a digit, which the raw-number loop always consumes -/
theorem rawNumber_progress (E : Env) (f c r : Nat) (hc : Cur E c) (hr : peekAt E c = some r)
    (hd : r = 46 ∨ E.has cDigit r = true) : c < rawNumber E (f + 1) c := by
  simp only [rawNumber, hr]
  have h1 := peek_adv hc hr
  split
  · split
    · next r2 hr2 =>
      have h2 := peek_adv h1.2 hr2
      split
      · have := rawNumber_cur E f _ h2.2; omega
      · have := rawNumber_cur E f _ h1.2; omega
    · have := rawNumber_cur E f _ h1.2; omega
  · split
    · have := rawNumber_cur E f _ h1.2; omega
    · next h =>
      exfalso; apply h
      rcases hd with hd | hd
      · exact Or.inl hd
      · exact Or.inr (Or.inl hd)

theorem trimScan_cur (E : Env) (f c c1 le : Nat) (hc : Cur E c) (hle : Cur E le) (h0 : le ≤ c) :
    le ≤ trimScan E f c c1 le ∧ Cur E (trimScan E f c c1 le) := by
  induction f generalizing c le with
  | zero => exact ⟨Nat.le_refl _, hle⟩
  | succ f ih =>
    simp only [trimScan]
    split
    · exact ⟨Nat.le_refl _, hle⟩
    · split
      · exact ⟨Nat.le_refl _, hle⟩
      · next r hr =>
        have h1 := peek_adv hc hr
        split
        · have := ih _ _ h1.2 h1.2 (Nat.le_refl _); exact ⟨by omega, this.2⟩
        · have := ih _ _ h1.2 hle (by omega); exact this

/-! `strings.Index` -/

theorem indexOf_spec (needle : Bytes) (bs : Bytes) (idx : Nat) (h : indexOf needle bs = some idx) :
    needle.isPrefixOf (bs.drop idx) = true ∧ idx ≤ bs.length := by
  induction bs generalizing idx with
  | nil =>
    simp only [indexOf] at h
    split at h
    · next hn => simp at h; subst h; simp [List.isEmpty_iff.mp hn]
    · simp at h
  | cons b bs ih =>
    simp only [indexOf] at h
    split at h
    · next hp => simp at h; subst h; simpa using hp
    · cases hi : indexOf needle bs with
      | none => simp [hi] at h
      | some j =>
        simp [hi] at h; subst h
        have := ih j hi
        exact ⟨by simpa using this.1, by simp; exact this.2⟩

/-! keyword table facts -/

theorem kwMatch_mem (rest : Bytes) (e : KwEntry) (h : kwMatch rest = some e) :
    e ∈ kwTable ∧ e.text.isPrefixOf rest = true ∧ e.act ≠ 0 := by
  unfold kwMatch at h
  have : ∀ (l : List KwEntry) (init : Option KwEntry),
      (∀ b, init = some b → b ∈ kwTable ∧ b.text.isPrefixOf rest = true ∧ b.act ≠ 0) →
      (∀ x ∈ l, x ∈ kwTable) →
      ∀ b, l.foldl (fun best e =>
        if e.act ≠ 0 ∧ e.text.isPrefixOf rest then
          match best with
          | some b => if b.text.length < e.text.length then some e else best
          | none => some e
        else best) init = some b → b ∈ kwTable ∧ b.text.isPrefixOf rest = true ∧ b.act ≠ 0 := by
    intro l
    induction l with
    | nil => intro init hi _ b hb; exact hi b (by simpa using hb)
    | cons x xs ih =>
      intro init hi hx b hb
      simp only [List.foldl_cons] at hb
      refine ih _ ?_ (fun y hy => hx y (by simp [hy])) b hb
      intro b' hb'
      split at hb'
      · next hcond =>
        have hxm := hx x (by simp)
        split at hb'
        · split at hb'
          · simp at hb'; subst hb'; exact ⟨hxm, hcond.2, hcond.1⟩
          · exact hi b' hb'
        · simp at hb'; subst hb'; exact ⟨hxm, hcond.2, hcond.1⟩
      · exact hi b' hb'
  exact this kwTable none (by simp) (fun x hx => hx) e h

theorem kwTable_ascii_b :
    kwTable.all (fun e => !e.text.isEmpty && e.text.all (fun b => decide (b.toNat < 0x80))) = true := by
  decide +kernel

theorem kwTable_ascii : ∀ e ∈ kwTable, e.text ≠ [] ∧ ∀ b ∈ e.text, b.toNat < 0x80 := by
  intro e he
  have := List.all_eq_true.mp kwTable_ascii_b e he
  simp only [Bool.and_eq_true, Bool.not_eq_true', List.all_eq_true, decide_eq_true_eq] at this
  exact ⟨by intro h; simp [h] at this, this.2⟩

/-! ### push accounting -/

/-- the bracket tokens remembered in `l.braces`: ids strictly increasing in push order (newest
    first here), each the id of a `Keyword` token of the stream -/
def BracesOK (toks : List Tok) (braces : List BItem) : Prop :=
  braces.Pairwise (fun a b => b.id < a.id) ∧
  ∀ b ∈ braces, 1 ≤ b.id ∧ ∃ t, toks.reverse[b.id - 1]? = some t ∧ t.kind = kKeyword

/-- structural well-formedness during the main loop: nothing is fused yet, braces are consistent -/
structure Wf (s : LS) : Prop where
  leaf : ∀ t ∈ s.toks, t.off = 0
  brs : BracesOK s.toks s.braces

theorem wf_congr (s : LS) {s' : LS} (ht : s'.toks = s.toks) (hb : s'.braces = s.braces) (h : Wf s) : Wf s' :=
  ⟨by rw [ht]; exact h.leaf, by rw [ht, hb]; exact h.brs⟩

theorem bracesOK_cons (toks : List Tok) (braces : List BItem) (t : Tok) (h : BracesOK toks braces) :
    BracesOK (t :: toks) braces := by
  refine ⟨h.1, fun b hb => ?_⟩
  obtain ⟨h1, u, hu, hk⟩ := h.2 b hb
  refine ⟨h1, u, ?_, hk⟩
  rw [List.reverse_cons]
  have hlt : b.id - 1 < toks.reverse.length := (List.getElem?_eq_some_iff.mp hu).1
  rw [List.getElem?_append_left hlt]
  exact hu

theorem wf_rawPush (n : Nat) (s : LS) (len kind kw : Nat) (h : Wf s) : Wf (rawPush n s len kind kw) := by
  unfold rawPush
  split
  · exact wf_congr s rfl rfl h
  · refine ⟨?_, bracesOK_cons _ _ _ h.brs⟩
    intro t ht
    simp only [List.mem_cons] at ht
    rcases ht with rfl | ht
    · rfl
    · exact h.leaf t ht

theorem wf_push (n : Nat) (s : LS) (len kind kw : Nat) (h : Wf s) : Wf (push n s len kind kw) := by
  unfold push flush
  split
  · apply wf_rawPush
    exact wf_congr (rawPush n s s.bad.toNat kUnrecognized 0) rfl rfl (wf_rawPush n s _ _ _ h)
  · exact wf_rawPush n s _ _ _ h

/-- `d` bytes have been consumed by the cursor but not yet pushed -/
structure AccD (n d : Nat) (s : LS) : Prop where
  nov : s.overflow = false
  eq : (s.cursor : Int) = lastEnd s.toks + s.bad + d
  nn : 0 ≤ s.bad
  le : s.cursor ≤ n
  mono : Mono s.toks
  wf : Wf s

@[simp] theorem lastEnd_cons (t : Tok) (ts : List Tok) : lastEnd (t :: ts) = t.end_ := rfl

theorem rawPush_ok {n : Nat} {s : LS} {len kind kw : Nat} (h : lastEnd s.toks + len ≤ n) :
    rawPush n s len kind kw =
      { s with toks := { end_ := lastEnd s.toks + len, kind := kind, kw := kw } :: s.toks } := by
  unfold rawPush
  rw [if_neg (by omega)]

theorem push_eq_pos {n : Nat} {s : LS} {len kind kw : Nat} (hb : s.bad > 0)
    (h : lastEnd s.toks + s.bad.toNat + len ≤ n) :
    push n s len kind kw =
      { s with toks := { end_ := lastEnd s.toks + s.bad.toNat + len, kind := kind, kw := kw } ::
                 { end_ := lastEnd s.toks + s.bad.toNat, kind := kUnrecognized, kw := 0 } :: s.toks,
               bad := 0,
               diags := ⟨"unrec", lvError, [(lastEnd s.toks, lastEnd s.toks + s.bad.toNat)]⟩ :: s.diags } := by
  unfold push flush
  rw [if_pos hb]
  rw [rawPush_ok (n := n) (s := s) (len := s.bad.toNat) (by omega)]
  simp only
  rw [rawPush_ok (by simp only [lastEnd_cons]; omega)]
  simp

theorem push_eq_zero {n : Nat} {s : LS} {len kind kw : Nat} (hb : ¬ s.bad > 0)
    (h : lastEnd s.toks + len ≤ n) :
    push n s len kind kw =
      { s with toks := { end_ := lastEnd s.toks + len, kind := kind, kw := kw } :: s.toks } := by
  unfold push flush
  rw [if_neg hb, rawPush_ok h]

theorem push_accD {n d len : Nat} {s : LS} (kind kw : Nat) (h : AccD n (len + d) s) :
    AccD n d (push n s len kind kw) ∧ (push n s len kind kw).bad = 0 ∧
    (push n s len kind kw).cursor = s.cursor ∧ (push n s len kind kw).braces = s.braces ∧
    (push n s len kind kw).toks ≠ [] ∧ (push n s len kind kw).fusePanic = s.fusePanic ∧
    lastEnd (push n s len kind kw).toks = lastEnd s.toks + s.bad.toNat + len ∧
    (∃ t ts, (push n s len kind kw).toks = t :: ts ∧ t.kind = kind) ∧
    s.toks.length < (push n s len kind kw).toks.length := by
  have hwf := wf_push n s len kind kw h.wf
  obtain ⟨nov, eq, nn, le, mono, _⟩ := h
  by_cases hb : s.bad > 0
  · rw [push_eq_pos hb (by omega)] at hwf ⊢
    refine ⟨⟨nov, ?_, by simp, le, ?_, hwf⟩, rfl, rfl, rfl, by simp, rfl, by simp, ⟨_, _, rfl, rfl⟩, by simp; omega⟩
    · simp only [lastEnd_cons]; push_cast; omega
    · simp only [Mono, lastEnd_cons]; exact ⟨by omega, by omega, mono⟩
  · have hb0 : s.bad = 0 := by omega
    rw [push_eq_zero hb (by omega)] at hwf ⊢
    refine ⟨⟨nov, ?_, by simp only; omega, le, ?_, hwf⟩, hb0, rfl, rfl, by simp, rfl, by simp [hb0], ⟨_, _, rfl, rfl⟩, by simp⟩
    · simp only [lastEnd_cons]; push_cast; omega
    · simp only [Mono, lastEnd_cons]; exact ⟨by omega, mono⟩

theorem accD_adv {n d k : Nat} {s : LS} (h : AccD n d s) (hk : s.cursor + k ≤ n) :
    AccD n (d + k) { s with cursor := s.cursor + k } :=
  ⟨h.nov, by have := h.eq; simp only; push_cast; omega, h.nn, hk, h.mono, wf_congr s rfl rfl h.wf⟩

theorem accD_diag {n d : Nat} {s : LS} (h : AccD n d s) (dg : Diag) : AccD n d (addDiag s dg) :=
  ⟨h.nov, h.eq, h.nn, h.le, h.mono, wf_congr s rfl rfl h.wf⟩

/-! ### the loop invariant -/

structure Inv (E : Env) (s : LS) : Prop where
  acc : AccD E.n 0 s
  cur : Cur E s.cursor

theorem pushWhite_acc (n : Nat) (bs : Bytes) (s : LS) (run d : Nat)
    (h : AccD n (run + bs.length + d) s) :
    AccD n d (pushWhite n s bs run) ∧ (pushWhite n s bs run).cursor = s.cursor ∧
    (pushWhite n s bs run).braces = s.braces ∧ (pushWhite n s bs run).fusePanic = s.fusePanic ∧
    (0 < run + bs.length → (pushWhite n s bs run).bad = 0) := by
  induction bs generalizing s run with
  | nil =>
    simp only [pushWhite]
    split
    · have := push_accD (len := run) kSpace 0 (by simpa using h)
      exact ⟨this.1, this.2.2.1, this.2.2.2.1, this.2.2.2.2.2.1, fun _ => this.2.1⟩
    · next hr =>
      have : run = 0 := by omega
      subst this
      exact ⟨by simpa using h, rfl, rfl, rfl, by simp⟩
  | cons b bs ih =>
    simp only [pushWhite]
    split
    · -- newline
      split
      · have h1 := push_accD (n := n) (len := run) (d := 1 + (bs.length + d)) kSpace 0
          (by simp only [List.length_cons] at h; have e : run + (1 + (bs.length + d)) = run + (bs.length + 1) + d := by omega
              rw [e]; exact h)
        have h2 := push_accD (n := n) (len := 1) (d := bs.length + d) kSpace 0 h1.1
        have h3 := ih _ 0 (by simpa using h2.1)
        refine ⟨h3.1, ?_, ?_, ?_, fun _ => ?_⟩
        · rw [h3.2.1, h2.2.2.1, h1.2.2.1]
        · rw [h3.2.2.1, h2.2.2.2.1, h1.2.2.2.1]
        · rw [h3.2.2.2.1, h2.2.2.2.2.2.1, h1.2.2.2.2.2.1]
        · by_cases hbs : 0 < 0 + bs.length
          · exact h3.2.2.2.2 hbs
          · have : bs = [] := by cases bs with
              | nil => rfl
              | cons _ _ => simp at hbs
            subst this
            simp only [pushWhite]
            exact h2.2.1
      · next hr =>
        have hr0 : run = 0 := by omega
        subst hr0
        have h2 := push_accD (n := n) (len := 1) (d := bs.length + d) kSpace 0
          (by simp only [List.length_cons] at h; have e : 1 + (bs.length + d) = 0 + (bs.length + 1) + d := by omega
              rw [e]; exact h)
        have h3 := ih _ 0 (by simpa using h2.1)
        refine ⟨h3.1, ?_, ?_, ?_, fun _ => ?_⟩
        · rw [h3.2.1, h2.2.2.1]
        · rw [h3.2.2.1, h2.2.2.2.1]
        · rw [h3.2.2.2.1, h2.2.2.2.2.2.1]
        · by_cases hbs : 0 < 0 + bs.length
          · exact h3.2.2.2.2 hbs
          · have : bs = [] := by cases bs with
              | nil => rfl
              | cons _ _ => simp at hbs
            subst this
            simp only [pushWhite]
            exact h2.2.1
    · have h3 := ih s (run + 1) (by simp only [List.length_cons] at h
                                    have e : run + 1 + bs.length + d = run + (bs.length + 1) + d := by omega
                                    rw [e]; exact h)
      exact ⟨h3.1, h3.2.1, h3.2.2.1, h3.2.2.2.1, fun _ => h3.2.2.2.2 (by omega)⟩

theorem stepWhite_inv (E : Env) (s : LS) (h : Inv E s) :
    Inv E (stepWhite E s) ∧ s.cursor ≤ (stepWhite E s).cursor ∧
    (stepWhite E s).braces = s.braces ∧ (stepWhite E s).fusePanic = s.fusePanic ∧
    (s.cursor < (stepWhite E s).cursor → (stepWhite E s).bad = 0) := by
  unfold stepWhite
  split
  · have hc := takeWhile_cur E (E.has cWhite) s.cursor h.cur
    have hlen : ((E.text.drop s.cursor).take (takeWhile E (E.has cWhite) s.cursor - s.cursor)).length
        = takeWhile E (E.has cWhite) s.cursor - s.cursor := by
      simp only [List.length_take, List.length_drop]
      have := hc.2.1; unfold Env.n at this; omega
    have hacc : AccD E.n (0 + ((E.text.drop s.cursor).take (takeWhile E (E.has cWhite) s.cursor - s.cursor)).length + 0)
        { s with cursor := takeWhile E (E.has cWhite) s.cursor } := by
      rw [hlen]
      have := accD_adv (k := takeWhile E (E.has cWhite) s.cursor - s.cursor) h.acc (by have := hc.2.1; omega)
      have e : s.cursor + (takeWhile E (E.has cWhite) s.cursor - s.cursor) = takeWhile E (E.has cWhite) s.cursor := by omega
      rw [e] at this
      simpa using this
    have hp := pushWhite_acc E.n _ _ 0 0 hacc
    refine ⟨⟨hp.1, by rw [hp.2.1]; exact hc.2⟩, by rw [hp.2.1]; exact hc.1, hp.2.2.1, hp.2.2.2.1, ?_⟩
    intro hlt
    rw [hp.2.1] at hlt
    apply hp.2.2.2.2
    rw [hlen]; simp only at hlt; omega
  · exact ⟨h, Nat.le_refl _, rfl, rfl, fun hlt => absurd hlt (Nat.lt_irrefl _)⟩

/-- `seekInclusive(needle)` for an ASCII needle lands on a rune boundary -/
theorem cur_index {E : Env} {c idx : Nat} (hc : Cur E c) (needle : Bytes) (hn : needle ≠ [])
    (ha : ∀ b ∈ needle, b.toNat < 0x80) (h : indexOf needle (E.text.drop c) = some idx) :
    Cur E (c + idx + needle.length) := by
  obtain ⟨hp, hle⟩ := indexOf_spec _ _ _ h
  have hpre := List.isPrefixOf_iff_prefix.mp hp
  obtain ⟨t, ht⟩ := hpre
  cases needle with
  | nil => exact absurd rfl hn
  | cons a needle' =>
    have hlt : idx < (E.text.drop c).length := by
      have : ((E.text.drop c).drop idx).length = (a :: needle' ++ t).length := by rw [ht]
      simp only [List.length_drop, List.length_append, List.length_cons] at this
      simp only [List.length_drop]; omega
    have hv : V ((E.text.drop c).drop idx) := by
      apply V_ascii_pos _ hc.2 idx hlt
      intro b hb
      have : ((E.text.drop c).drop idx)[0]? = some a := by rw [← ht]; simp
      rw [List.getElem?_drop] at this
      simp only [Nat.add_zero] at this
      rw [this] at hb
      simp only [Option.some.injEq] at hb
      rw [← hb]; exact ha a (by simp)
    have hc2 : Cur E (c + idx) := by
      refine ⟨?_, by rw [← List.drop_drop]; exact hv⟩
      simp only [List.length_drop] at hlt; unfold Env.n; omega
    have := cur_ascii_prefix hc2 (a :: needle') (by rw [← List.drop_drop]; exact hp) ha
    exact this

theorem accD_diags {n d : Nat} {s : LS} (h : AccD n d s) (ds : List Diag) :
    AccD n d { s with diags := ds } := ⟨h.nov, h.eq, h.nn, h.le, h.mono, wf_congr s rfl rfl h.wf⟩

/-- remembering the bracket token that was just pushed -/
theorem accD_addBrace {n d : Nat} {s : LS} (h : AccD n d s) (t : Tok) (ts : List Tok)
    (ht : s.toks = t :: ts) (hk : t.kind = kKeyword) (hnew : ∀ x ∈ s.braces, x.id < s.toks.length)
    (kw a b : Nat) :
    AccD n d { s with braces := ⟨s.toks.length, kw, a, b⟩ :: s.braces } := by
  refine ⟨h.nov, h.eq, h.nn, h.le, h.mono, h.wf.leaf, ?_, ?_⟩
  · simp only [List.pairwise_cons]
    refine ⟨fun x hx => ?_, h.wf.brs.1⟩
    show x.id < s.toks.length
    exact hnew x hx
  · intro x hx
    simp only [List.mem_cons] at hx
    rcases hx with rfl | hx
    · refine ⟨by rw [ht]; simp, t, ?_, hk⟩
      show s.toks.reverse[s.toks.length - 1]? = some t
      rw [ht]; simp
    · exact h.wf.brs.2 x hx

theorem stepKw_inv (E : Env) (s s' : LS) (h : Inv E s) (hk : stepKw E s = some s') :
    Inv E s' ∧ s.cursor < s'.cursor ∧ s'.fusePanic = s.fusePanic := by
  unfold stepKw at hk
  split at hk
  · simp at hk
  · next e he =>
    obtain ⟨hmem, hpre, _⟩ := kwMatch_mem _ _ he
    obtain ⟨hne, hasc⟩ := kwTable_ascii e hmem
    have hwl : 1 ≤ e.text.length := by
      cases ht : e.text with
      | nil => exact absurd ht hne
      | cons _ _ => simp
    have hc1 := cur_ascii_prefix h.cur e.text hpre hasc
    have hadv := accD_adv (k := e.text.length) h.acc hc1.1
    simp only at hk
    split at hk
    · -- soft / hard / bracket keyword
      split at hk
      · simp at hk
      · split at hk
        · simp at hk
        · have hp := push_accD (n := E.n) (len := e.text.length) (d := 0)
            (if e.word = true ∧ e.act = 2 then kIdent else kKeyword) e.id (by simpa using hadv)
          split at hk
          · next hact3 =>
            simp only [Option.some.injEq] at hk
            subst hk
            obtain ⟨t, ts, hts, htk⟩ := hp.2.2.2.2.2.2.2.1
            have htk' : t.kind = kKeyword := by
              rw [htk, if_neg (by omega)]
            have hnew : ∀ x ∈ (push E.n { s with cursor := s.cursor + e.text.length } e.text.length
                (if e.word = true ∧ e.act = 2 then kIdent else kKeyword) e.id).braces,
                x.id < (push E.n { s with cursor := s.cursor + e.text.length } e.text.length
                (if e.word = true ∧ e.act = 2 then kIdent else kKeyword) e.id).toks.length := by
              intro x hx
              rw [hp.2.2.2.1] at hx
              obtain ⟨h1, u, hu, _⟩ := h.acc.wf.brs.2 x hx
              have hlt : x.id - 1 < s.toks.reverse.length := (List.getElem?_eq_some_iff.mp hu).1
              simp only [List.length_reverse] at hlt
              have := hp.2.2.2.2.2.2.2.2
              simp only at this
              omega
            refine ⟨⟨accD_addBrace hp.1 t ts hts htk' hnew _ _ _, ?_⟩, ?_, ?_⟩
            · simp only; rw [hp.2.2.1]; exact hc1
            · simp only; rw [hp.2.2.1]; simp only; omega
            · simp only; rw [hp.2.2.2.2.2.1]
          · simp only [Option.some.injEq] at hk
            subst hk
            refine ⟨⟨hp.1, ?_⟩, ?_, ?_⟩
            · rw [hp.2.2.1]; exact hc1
            · rw [hp.2.2.1]; simp only; omega
            · rw [hp.2.2.2.2.2.1]
    · split at hk
      · -- line comment
        split at hk
        · next idx hidx =>
          have hc2 := cur_index hc1 [10] (by simp) (by simp) hidx
          simp only [List.length_singleton] at hc2
          have hadv2 := accD_adv (k := e.text.length + idx + 1) h.acc (by have := hc2.1; omega)
          have e1 : s.cursor + (e.text.length + idx + 1) = s.cursor + e.text.length + idx + 1 := by omega
          rw [e1] at hadv2
          have hp1 := push_accD (n := E.n) (len := e.text.length + idx) (d := 1) kComment e.id
            (by have e2 : e.text.length + idx + 1 = 0 + (e.text.length + idx + 1) := by omega
                rw [e2]; exact hadv2)
          have hp2 := push_accD (n := E.n) (len := 1) (d := 0) kSpace 0 hp1.1
          simp only [Option.some.injEq] at hk
          subst hk
          refine ⟨⟨hp2.1, ?_⟩, ?_, ?_⟩
          · rw [hp2.2.2.1, hp1.2.2.1]; exact hc2
          · rw [hp2.2.2.1, hp1.2.2.1]; simp only; omega
          · rw [hp2.2.2.2.2.2.1, hp1.2.2.2.2.2.1]
        · have hle := hc1.1
          have hadv2 := accD_adv (k := e.text.length + (E.n - (s.cursor + e.text.length))) h.acc (by omega)
          have e1 : s.cursor + (e.text.length + (E.n - (s.cursor + e.text.length)))
              = s.cursor + e.text.length + (E.n - (s.cursor + e.text.length)) := by omega
          rw [e1] at hadv2
          have hp1 := push_accD (n := E.n) (len := e.text.length + (E.n - (s.cursor + e.text.length))) (d := 0)
            kComment e.id (by simpa using hadv2)
          simp only [Option.some.injEq] at hk
          subst hk
          refine ⟨⟨hp1.1, ?_⟩, ?_, ?_⟩
          · rw [hp1.2.2.1]; simp only
            have e2 : s.cursor + e.text.length + (E.n - (s.cursor + e.text.length)) = E.n := by omega
            rw [e2]; exact cur_n E
          · rw [hp1.2.2.1]; simp only; omega
          · rw [hp1.2.2.2.2.2.1]
      · split at hk
        · -- block comment
          split at hk
          · -- stray `*/`
            have hp := push_accD (n := E.n) (len := e.text.length) (d := 0) kUnrecognized 0 (by simpa using hadv)
            simp only [Option.some.injEq] at hk
            subst hk
            refine ⟨⟨accD_diag hp.1 _, ?_⟩, ?_, ?_⟩
            · show Cur E (push _ _ _ _ _).cursor
              rw [hp.2.2.1]; exact hc1
            · show s.cursor < (push _ _ _ _ _).cursor
              rw [hp.2.2.1]; simp only; omega
            · show (push _ _ _ _ _).fusePanic = _
              rw [hp.2.2.2.2.2.1]
          · split at hk
            · next idx hidx =>
              have hc2 := cur_index hc1 [42, 47] (by simp) (by simp) hidx
              simp only [List.length_cons, List.length_nil] at hc2
              have hadv2 := accD_adv (k := e.text.length + idx + 2) h.acc (by have := hc2.1; omega)
              have e1 : s.cursor + (e.text.length + idx + 2) = s.cursor + e.text.length + idx + 2 := by omega
              rw [e1] at hadv2
              have hp1 := push_accD (n := E.n) (len := e.text.length + idx + 2) (d := 0) kComment (fusedOf e.id)
                (by simpa using hadv2)
              simp only [Option.some.injEq] at hk
              subst hk
              refine ⟨⟨hp1.1, ?_⟩, ?_, ?_⟩
              · rw [hp1.2.2.1]; exact hc2
              · rw [hp1.2.2.1]; simp only; omega
              · rw [hp1.2.2.2.2.2.1]
            · have hle := hc1.1
              have hadv2 := accD_adv (k := e.text.length + (E.n - (s.cursor + e.text.length))) h.acc (by omega)
              have e1 : s.cursor + (e.text.length + (E.n - (s.cursor + e.text.length)))
                  = s.cursor + e.text.length + (E.n - (s.cursor + e.text.length)) := by omega
              rw [e1] at hadv2
              have hp1 := push_accD (n := E.n) (len := e.text.length + (E.n - (s.cursor + e.text.length))) (d := 0)
                kComment (fusedOf e.id)
                (s := { (addDiag { s with cursor := s.cursor + e.text.length }
                    ⟨"unm", lvError, [(s.cursor + e.text.length - e.text.length, s.cursor + e.text.length)]⟩) with
                    cursor := s.cursor + e.text.length + (E.n - (s.cursor + e.text.length)) })
                (by have := accD_diags hadv2
                      (⟨"unm", lvError, [(s.cursor + e.text.length - e.text.length, s.cursor + e.text.length)]⟩ :: s.diags)
                    simpa [addDiag] using this)
              simp only [Option.some.injEq] at hk
              subst hk
              refine ⟨⟨hp1.1, ?_⟩, ?_, ?_⟩
              · rw [hp1.2.2.1]; simp only
                have e2 : s.cursor + e.text.length + (E.n - (s.cursor + e.text.length)) = E.n := by omega
                rw [e2]; exact cur_n E
              · rw [hp1.2.2.1]; simp only; omega
              · rw [hp1.2.2.2.2.2.1]; rfl
        · simp at hk

theorem quoteOf_facts (q : UInt8) (rest1 : Bytes) :
    (∀ b ∈ quoteOf q rest1, b = q) ∧ (quoteOf q rest1).isPrefixOf (q :: rest1) = true ∧
    1 ≤ (quoteOf q rest1).length := by
  unfold quoteOf
  split
  · next q1 q2 t =>
    split
    · next h => obtain ⟨rfl, rfl⟩ := h; simp [List.isPrefixOf]
    · simp [List.isPrefixOf]
  · simp [List.isPrefixOf]

theorem lexString_inv (E : Env) (s : LS) (sigilLen : Nat) (h : Inv E s)
    (hc0 : Cur E (s.cursor + sigilLen))
    (hq : ∀ q r, E.text.drop (s.cursor + sigilLen) = q :: r → q.toNat < 0x80)
    (hok : (lexString E s sigilLen).2 = false) :
    Inv E (lexString E s sigilLen).1 ∧ s.cursor + sigilLen < (lexString E s sigilLen).1.cursor ∧
    (lexString E s sigilLen).1.fusePanic = s.fusePanic := by
  unfold lexString at hok ⊢
  simp only at hok ⊢
  split at hok
  · simp at hok
  · next q rest1 hd =>
    have hqa := hq q rest1 hd
    have hqf := quoteOf_facts q rest1
    have hasc : ∀ b ∈ quoteOf q rest1, b.toNat < 0x80 := fun b hb => by rw [hqf.1 b hb]; exact hqa
    have hc1 := cur_ascii_prefix hc0 (quoteOf q rest1) (by rw [hd]; exact hqf.2.1) hasc
    have hl := strLoop_cur E (quoteOf q rest1) hasc
      (E.n - (s.cursor + sigilLen + (quoteOf q rest1).length) + 1)
      (s.cursor + sigilLen + (quoteOf q rest1).length) hc1
    split at hok
    · simp at hok
    · next c2 term heq =>
      rw [heq] at hl
      simp only at hl ⊢
      have hadv := accD_adv (k := c2 - s.cursor) h.acc (by have := hl.2.1; omega)
      have e1 : s.cursor + (c2 - s.cursor) = c2 := by have := hqf.2.2; omega
      rw [e1] at hadv
      have hp := push_accD (n := E.n) (len := c2 - s.cursor) (d := 0) kString 0 (by simpa using hadv)
      split
      · refine ⟨⟨hp.1, by rw [hp.2.2.1]; exact hl.2⟩, ?_, hp.2.2.2.2.2.1⟩
        rw [hp.2.2.1]; simp only; have := hqf.2.2; omega
      · refine ⟨⟨accD_diag hp.1 _, ?_⟩, ?_, ?_⟩
        · show Cur E (push _ _ _ _ _).cursor
          rw [hp.2.2.1]; exact hl.2
        · show _ < (push _ _ _ _ _).cursor
          rw [hp.2.2.1]; simp only; have := hqf.2.2; omega
        · show (push _ _ _ _ _).fusePanic = _
          exact hp.2.2.2.2.2.1

theorem lexNumber_inv (E : Env) (s : LS) (r : Nat) (h : Inv E s) (hr : peekAt E s.cursor = some r)
    (hd : r = 46 ∨ E.has cDigit r = true) :
    Inv E (lexNumber E s) ∧ s.cursor < (lexNumber E s).cursor ∧ (lexNumber E s).fusePanic = s.fusePanic := by
  unfold lexNumber
  simp only
  have hc := rawNumber_cur E (E.n - s.cursor + 1) s.cursor h.cur
  have hpr := rawNumber_progress E (E.n - s.cursor) s.cursor r h.cur hr hd
  have hadv := accD_adv (k := rawNumber E (E.n - s.cursor + 1) s.cursor - s.cursor) h.acc
    (by have := hc.2.1; omega)
  have e1 : s.cursor + (rawNumber E (E.n - s.cursor + 1) s.cursor - s.cursor)
      = rawNumber E (E.n - s.cursor + 1) s.cursor := by omega
  rw [e1] at hadv
  have hp := push_accD (n := E.n) (len := rawNumber E (E.n - s.cursor + 1) s.cursor - s.cursor) (d := 0)
    kNumber 0 (by simpa using hadv)
  refine ⟨⟨hp.1, by rw [hp.2.2.1]; exact hc.2⟩, by rw [hp.2.2.1]; exact hpr, hp.2.2.2.2.2.1⟩

/-- the class tables are consistent: an identifier start is an identifier continuation
    (true of `unicodex.IsXIDStart` / `IsXIDContinue`) -/
def ClsOK (E : Env) : Prop := ∀ r, E.has cXidS r = true → E.has cXidC r = true

theorem takeWhile_progress (E : Env) (p : Nat → Bool) (c r : Nat) (hc : Cur E c)
    (hr : peekAt E c = some r) (hp : p r = true) : c < takeWhile E p c := by
  have hlt := peek_lt hr
  unfold takeWhile
  have : E.n - c = (E.n - c - 1) + 1 := by omega
  rw [this]
  simp only [takeWhileAux, hr, hp, if_true]
  have h1 := peek_adv hc hr
  have := takeWhileAux_cur E p (E.n - c - 1) _ h1.2
  omega

theorem lexIdent_inv (E : Env) (s : LS) (r : Nat) (h : Inv E s) (hcls : ClsOK E)
    (hr : peekAt E s.cursor = some r) (hx : E.has cXidS r = true)
    (hok : (lexIdent E s).2 = false) :
    Inv E (lexIdent E s).1 ∧ s.cursor < (lexIdent E s).1.cursor ∧
    (lexIdent E s).1.fusePanic = s.fusePanic := by
  unfold lexIdent at hok ⊢
  simp only at hok ⊢
  have hc1 := takeWhile_cur E (E.has cXidC) s.cursor h.cur
  have hpr := takeWhile_progress E (E.has cXidC) s.cursor r h.cur hr (hcls r hx)
  have hts := trimScan_cur E (takeWhile E (E.has cXidC) s.cursor - s.cursor + 1) s.cursor
    (takeWhile E (E.has cXidC) s.cursor) s.cursor h.cur h.cur (Nat.le_refl _)
  split
  · -- nothing printable
    have hadv := accD_adv (k := takeWhile E (E.has cXidC) s.cursor - s.cursor) h.acc
      (by have := hc1.2.1; omega)
    have e1 : s.cursor + (takeWhile E (E.has cXidC) s.cursor - s.cursor)
        = takeWhile E (E.has cXidC) s.cursor := by omega
    rw [e1] at hadv
    have hp := push_accD (n := E.n) (len := takeWhile E (E.has cXidC) s.cursor - s.cursor) (d := 0)
      kUnrecognized 0 (by simpa using hadv)
    refine ⟨⟨accD_diag hp.1 _, ?_⟩, ?_, ?_⟩
    · show Cur E (push _ _ _ _ _).cursor
      rw [hp.2.2.1]; exact hc1.2
    · show _ < (push _ _ _ _ _).cursor
      rw [hp.2.2.1]; exact hpr
    · show (push _ _ _ _ _).fusePanic = _
      exact hp.2.2.2.2.2.1
  · next hne =>
    split
    · next hq =>
      -- prefixed string
      rw [if_neg hne] at hok
      rw [if_pos hq] at hok
      have hq' : ∀ q r', E.text.drop (s.cursor + (takeWhile E (E.has cXidC) s.cursor - s.cursor)) = q :: r' →
          q.toNat < 0x80 := by
        intro q r' hd
        have e1 : s.cursor + (takeWhile E (E.has cXidC) s.cursor - s.cursor)
            = takeWhile E (E.has cXidC) s.cursor := by omega
        rw [e1] at hd
        rcases hq with hq | ⟨hq, _⟩
        · obtain ⟨b, rest, hb, hbv⟩ := peek_ascii hq (by decide)
          rw [hd] at hb; simp only [List.cons.injEq] at hb; rw [hb.1, hbv]; decide
        · obtain ⟨b, rest, hb, hbv⟩ := peek_ascii hq (by decide)
          rw [hd] at hb; simp only [List.cons.injEq] at hb; rw [hb.1, hbv]; decide
      have := lexString_inv E { s with cursor := s.cursor } (takeWhile E (E.has cXidC) s.cursor - s.cursor) h
        (by have e1 : s.cursor + (takeWhile E (E.has cXidC) s.cursor - s.cursor)
              = takeWhile E (E.has cXidC) s.cursor := by omega
            show Cur E (s.cursor + _)
            rw [e1]; exact hc1.2) hq' hok
      exact ⟨this.1, Nat.lt_of_le_of_lt (Nat.le_add_right _ _) this.2.1, this.2.2⟩
    · -- plain identifier
      have hadv := accD_adv
        (k := trimScan E (takeWhile E (E.has cXidC) s.cursor - s.cursor + 1) s.cursor
          (takeWhile E (E.has cXidC) s.cursor) s.cursor - s.cursor) h.acc
        (by have := hts.2.1; omega)
      have e1 : s.cursor + (trimScan E (takeWhile E (E.has cXidC) s.cursor - s.cursor + 1) s.cursor
          (takeWhile E (E.has cXidC) s.cursor) s.cursor - s.cursor)
          = trimScan E (takeWhile E (E.has cXidC) s.cursor - s.cursor + 1) s.cursor
          (takeWhile E (E.has cXidC) s.cursor) s.cursor := by omega
      rw [e1] at hadv
      have hp := push_accD (n := E.n) (d := 0) kIdent 0 (by simpa using hadv)
      refine ⟨⟨hp.1, by rw [hp.2.2.1]; exact hts.2⟩, ?_, hp.2.2.2.2.2.1⟩
      rw [hp.2.2.1]; simp only; omega

/-- state after the iteration that ran into the end of the text inside `stepPop`
    (trailing whitespace): everything is pushed and `badBytes = -1` -/
structure InvEof (E : Env) (s : LS) : Prop where
  nov : s.overflow = false
  atEnd : s.cursor = E.n
  eq : s.cursor = lastEnd s.toks
  bad : s.bad = -1
  mono : Mono s.toks
  wf : Wf s

theorem stepPop_inv (E : Env) (s : LS) (h : Inv E s) (hcls : ClsOK E)
    (hok : (stepPop E s).2 = false) :
    (stepPop E s).1.fusePanic = s.fusePanic ∧
    ((Inv E (stepPop E s).1 ∧ s.cursor < (stepPop E s).1.cursor) ∨
     (s.cursor = E.n ∧ (stepPop E s).1 = { s with bad := s.bad - 1 })) := by
  unfold stepPop at hok ⊢
  split
  · next hn => exact ⟨rfl, Or.inr ⟨peek_none_eof h.cur hn, rfl⟩⟩
  · next r hr =>
    rw [hr] at hok
    simp only at hok
    split
    · next hq =>
      rw [if_pos hq] at hok
      have hq' : ∀ q r', E.text.drop (s.cursor + 0) = q :: r' → q.toNat < 0x80 := by
        intro q r' hd
        simp only [Nat.add_zero] at hd
        have hlt : r < 0x80 := by rcases hq with rfl | rfl <;> decide
        obtain ⟨b, rest, hb, hbv⟩ := peek_ascii hr hlt
        rw [hd] at hb; simp only [List.cons.injEq] at hb; rw [hb.1, hbv]; exact hlt
      have := lexString_inv E s 0 h (by simpa using h.cur) hq' hok
      exact ⟨this.2.2, Or.inl ⟨this.1, by have := this.2.1; omega⟩⟩
    · next hq =>
      rw [if_neg hq] at hok
      split
      · next hd =>
        have := lexNumber_inv E s r h hr hd
        exact ⟨this.2.2, Or.inl ⟨this.1, this.2.1⟩⟩
      · next hd =>
        rw [if_neg hd] at hok
        split
        · next hx =>
          rw [if_pos hx] at hok
          have := lexIdent_inv E s r h hcls hr hx hok
          exact ⟨this.2.2, Or.inl ⟨this.1, this.2.1⟩⟩
        · have h1 := peek_adv h.cur hr
          refine ⟨rfl, Or.inl ⟨⟨⟨h.acc.nov, ?_, ?_, h1.2.1, h.acc.mono, wf_congr s rfl rfl h.acc.wf⟩, h1.2⟩, by simp only; omega⟩⟩
          · have := h.acc.eq; simp only; push_cast; omega
          · have := h.acc.nn; simp only; omega

theorem iter_inv (E : Env) (s : LS) (h : Inv E s) (hcls : ClsOK E) (hlt : s.cursor < E.n)
    (hok : (iter E s).2 = false) :
    s.cursor < (iter E s).1.cursor ∧ (iter E s).1.fusePanic = s.fusePanic ∧
    (Inv E (iter E s).1 ∨ InvEof E (iter E s).1) := by
  unfold iter at hok ⊢
  simp only at hok ⊢
  have hw := stepWhite_inv E s h
  split
  · next s2 hk =>
    have := stepKw_inv E _ s2 hw.1 hk
    exact ⟨by have h1 := hw.2.1; have h2 := this.2.1; show s.cursor < s2.cursor; omega, by show s2.fusePanic = _; rw [this.2.2, hw.2.2.2.1], Or.inl this.1⟩
  · next hk =>
    rw [hk] at hok
    simp only at hok
    have hp := stepPop_inv E _ hw.1 hcls hok
    refine ⟨?_, by rw [hp.1, hw.2.2.2.1], ?_⟩
    · rcases hp.2 with ⟨_, hlt2⟩ | ⟨he, hs⟩
      · have := hw.2.1; omega
      · rw [hs]; simp only; omega
    · rcases hp.2 with ⟨hi, _⟩ | ⟨he, hs⟩
      · exact Or.inl hi
      · right
        have hb0 := hw.2.2.2.2 (by omega)
        have hacc := hw.1.acc
        rw [hs]
        exact ⟨hacc.nov, he, by have := hacc.eq; simp only; rw [hb0] at this; omega,
          by simp only; rw [hb0]; rfl, hacc.mono, wf_congr (stepWhite E s) rfl rfl hacc.wf⟩

/-- result of the main loop: finished at the end of the text in an accounted state, or a panic
    inside an iteration; never a progress failure, never out of fuel -/
theorem mainLoop_inv (E : Env) (hcls : ClsOK E) (f : Nat) (prev : Int) (s : LS)
    (h : Inv E s) (hprev : prev < (s.cursor : Int)) (hf : E.n - s.cursor < f) :
    ((mainLoop E f prev s).2 = .done ∧ (mainLoop E f prev s).1.cursor = E.n ∧
      (mainLoop E f prev s).1.fusePanic = s.fusePanic ∧
      (Inv E (mainLoop E f prev s).1 ∨ InvEof E (mainLoop E f prev s).1)) ∨
    (mainLoop E f prev s).2 = .icePanic := by
  induction f generalizing prev s with
  | zero => omega
  | succ f ih =>
    simp only [mainLoop]
    split
    · next hge =>
      have := h.cur.1
      exact Or.inl ⟨rfl, by show s.cursor = E.n; omega, rfl, Or.inl h⟩
    · next hlt =>
      rw [if_neg (by omega)]
      cases hi : iter E s with
      | mk s' b =>
        cases b with
        | true => exact Or.inr rfl
        | false =>
          simp only
          have hit := iter_inv E s h hcls (by omega) (by rw [hi])
          rw [hi] at hit
          simp only at hit
          rcases hit.2.2 with hinv | heof
          · have := ih (s.cursor : Int) s' hinv (by omega) (by omega)
            rcases this with ⟨h1, h2, h3, h4⟩ | h5
            · exact Or.inl ⟨h1, h2, by rw [h3, hit.2.1], h4⟩
            · exact Or.inr h5
          · -- the loop stops at once: cursor = n
            left
            cases f with
            | zero => omega
            | succ f' =>
              simp only [mainLoop]
              rw [if_pos (by have := heof.atEnd; omega)]
              exact ⟨rfl, heof.atEnd, hit.2.1, Or.inr heof⟩

/-! ### prelude -/

theorem utf8Scan_ge (f : Nat) (bs : Bytes) (i cnt : Nat) (first : Option Nat) :
    cnt ≤ (utf8Scan f bs i cnt first).1 := by
  induction f generalizing bs i cnt first with
  | zero => simp [utf8Scan]
  | succ f ih =>
    simp only [utf8Scan]
    split
    · exact Nat.le_refl _
    · split
      · have := ih (bs.drop (decodeRune bs).2) (i + (decodeRune bs).2) (cnt + 1)
          (if cnt = 0 then some i else first)
        omega
      · exact ih _ _ _ _

theorem utf8Scan_valid (f : Nat) (bs : Bytes) (i cnt : Nat) (first : Option Nat)
    (hf : bs.length < f) (h : (utf8Scan f bs i cnt first).1 = 0) : V bs := by
  induction f generalizing bs i cnt first with
  | zero => omega
  | succ f ih =>
    simp only [utf8Scan] at h
    split at h
    · next hz =>
      -- width 0: empty
      cases bs with
      | nil => exact V.nil
      | cons b r => have := decode_width_pos b r; omega
    · next hz =>
      split at h
      · have := utf8Scan_ge f (bs.drop (decodeRune bs).2) (i + (decodeRune bs).2) (cnt + 1)
          (if cnt = 0 then some i else first)
        omega
      · next hok =>
        have hpos : 1 ≤ (decodeRune bs).2 := by omega
        have hwl := decode_width_le bs
        refine V.step bs ⟨hz, hok⟩ (ih _ _ _ _ ?_ h)
        simp only [List.length_drop]; omega
where
  decode_width_pos (b : UInt8) (r : Bytes) : 1 ≤ (decodeRune (b :: r)).2 := by
    cases decode_cases (b :: r) with
    | empty h hd => simp at h
    | ascii b' r' h hb hd => rw [hd]; simp
    | bad b' r' h hb hd => rw [hd]; simp
    | two b0 b1 r' v h h0 h1 hd hv => rw [hd]; simp
    | three b0 b1 b2 r' v h h0 h1 h2 hd hv => rw [hd]; simp
    | four b0 b1 b2 b3 r' v h h0 h1 h2 h3 hd hv => rw [hd]; simp

theorem inv_init (E : Env) (hv : V E.text) : Inv E {} :=
  ⟨⟨rfl, by simp [lastEnd], by simp, by simp, by simp [Mono], ⟨by simp, by simp [BracesOK]⟩⟩, ⟨by simp, by simpa using hv⟩⟩

theorem prelude_inv (E : Env) (s0 : LS) (h : prelude E {} = (s0, true)) :
    Inv E s0 ∧ s0.fusePanic = false ∧ s0.braces = [] := by
  unfold prelude at h
  simp only at h
  split at h
  · next ht =>
    simp only [Prod.mk.injEq, and_true] at h
    subst h
    exact ⟨inv_init E (by rw [ht]; exact V.nil), rfl, rfl⟩
  · split at h
    · simp at h
    · split at h
      · next x hscan =>
        have hv : V E.text := utf8Scan_valid (E.text.length + 1) E.text 0 0 none (by omega) (by rw [hscan])
        have hi := inv_init E hv
        split at h
        · next hbom =>
          simp only [Prod.mk.injEq, and_true] at h
          subst h
          have h1 := peek_adv hi.cur hbom
          have hadv := accD_adv (k := runeLen 0xFEFF) hi.acc (by have := h1.2.1; simpa using this)
          have e3 : runeLen 0xFEFF = 3 := by decide
          have hp := push_accD (n := E.n) (len := 3) (d := 0) kUnrecognized 0
            (s := { ({} : LS) with cursor := (0 : Nat) + runeLen 0xFEFF })
            (by rw [e3] at hadv ⊢; simpa using hadv)
          refine ⟨⟨hp.1, ?_⟩, hp.2.2.2.2.2.1, hp.2.2.2.1⟩
          rw [hp.2.2.1]; exact h1.2
        · simp only [Prod.mk.injEq, and_true] at h
          subst h
          exact ⟨hi, rfl, rfl⟩
      · split at h <;> simp at h

/-! ### no iteration of the main loop panics (since d839c04c) -/

theorem strContent_noice (E : Env) (c : Nat) : (strContent E c).2 = false := by
  unfold strContent
  split
  · rfl
  · simp only
    split
    · rfl
    · split
      · rfl
      · repeat' split
        all_goals rfl

theorem strLoop_noice (E : Env) (quote : Bytes) (f c : Nat) : (strLoop E quote f c).2.2 = false := by
  induction f generalizing c with
  | zero => simp [strLoop]
  | succ f ih =>
    simp only [strLoop]
    split
    · rfl
    · split
      · rfl
      · split
        · next c' heq =>
          have := strContent_noice E c
          rw [heq] at this; cases this
        · next c' heq => exact ih c'

theorem lexString_ice (E : Env) (s : LS) (k : Nat) (h : (lexString E s k).2 = true) :
    E.text.drop (s.cursor + k) = [] := by
  unfold lexString at h
  simp only at h
  split at h
  · next hd => exact hd
  · next q rest1 hd =>
    split at h
    · next c2 t heq =>
      have := strLoop_noice E (quoteOf q rest1) (E.n - (s.cursor + k + (quoteOf q rest1).length) + 1)
        (s.cursor + k + (quoteOf q rest1).length)
      rw [heq] at this; cases this
    · simp at h

theorem takeWhileAux_mono (E : Env) (p : Nat → Bool) (f c : Nat) : c ≤ takeWhileAux E p f c := by
  induction f generalizing c with
  | zero => exact Nat.le_refl _
  | succ f ih =>
    simp only [takeWhileAux]
    split
    · exact Nat.le_refl _
    · split
      · have := ih (c + runeLen ‹Nat›); omega
      · exact Nat.le_refl _

theorem stepPop_noice (E : Env) (s : LS) : (stepPop E s).2 = false := by
  cases h : (stepPop E s).2 with
  | false => rfl
  | true =>
    exfalso
    unfold stepPop at h
    split at h
    · simp at h
    · next r hr =>
      split at h
      · have hd := lexString_ice E s 0 h
        obtain ⟨hok, _⟩ := peek_some hr
        simp only [Nat.add_zero] at hd
        rw [hd] at hok; exact hok.1 rfl
      · split at h
        · simp at h
        · split at h
          · unfold lexIdent at h
            simp only at h
            split at h
            · simp at h
            · split at h
              · next hne hq =>
                have hd := lexString_ice E _ _ h
                simp only at hd
                have hge : s.cursor ≤ takeWhile E (E.has cXidC) s.cursor := by
                  unfold takeWhile
                  exact takeWhileAux_mono E _ _ _
                have e1 : s.cursor + (takeWhile E (E.has cXidC) s.cursor - s.cursor)
                    = takeWhile E (E.has cXidC) s.cursor := by omega
                rw [e1] at hd
                rcases hq with hq | ⟨hq, _⟩
                · obtain ⟨hok, _⟩ := peek_some hq
                  rw [hd] at hok; exact hok.1 rfl
                · obtain ⟨hok, _⟩ := peek_some hq
                  rw [hd] at hok; exact hok.1 rfl
              · simp at h
          · simp at h

theorem iter_noice (E : Env) (s : LS) : (iter E s).2 = false := by
  unfold iter
  simp only
  split
  · rfl
  · exact stepPop_noice E _

theorem mainLoop_noice (E : Env) (f : Nat) (prev : Int) (s : LS) :
    (mainLoop E f prev s).2 ≠ .icePanic := by
  induction f generalizing prev s with
  | zero => simp [mainLoop]
  | succ f ih =>
    simp only [mainLoop]
    split
    · simp
    · split
      · simp
      · split
        · next s' heq =>
          have := iter_noice E s
          rw [heq] at this; cases this
        · next s' heq => exact ih _ _

/-! ### after the main loop -/

/-- the state when the main loop has finished: the cursor is at the end and everything except a
    pending run of unrecognised bytes has been pushed -/
structure Post (n : Nat) (s : LS) : Prop where
  nov : s.overflow = false
  mono : Mono s.toks
  atEnd : s.cursor = n
  eq : (n : Int) = lastEnd s.toks + max s.bad 0
  wf : Wf s

theorem post_of_inv {E : Env} {s : LS} (h : Inv E s) (he : s.cursor = E.n) : Post E.n s :=
  ⟨h.acc.nov, h.acc.mono, he, by have := h.acc.eq; have := h.acc.nn; omega, h.acc.wf⟩

theorem post_of_eof {E : Env} {s : LS} (h : InvEof E s) : Post E.n s :=
  ⟨h.nov, h.mono, h.atEnd, by have := h.eq; have := h.bad; have := h.atEnd; omega, h.wf⟩

theorem post_diags {n : Nat} {s : LS} (h : Post n s) (ds : List Diag) : Post n { s with diags := ds } :=
  ⟨h.nov, h.mono, h.atEnd, h.eq, wf_congr s rfl rfl h.wf⟩

/-- `l.flushUnrecognized()` after the main loop: the stream now ends at `n`, nothing is pending -/
theorem flush_post {n : Nat} {s : LS} (h : Post n s) :
    Post n (flush n s) ∧ lastEnd (flush n s).toks = n ∧ (flush n s).bad ≤ 0 := by
  have hwf : Wf (flush n s) := by
    unfold flush
    split
    · exact wf_congr (rawPush n s s.bad.toNat kUnrecognized 0) rfl rfl (wf_rawPush n s _ _ _ h.wf)
    · exact h.wf
  obtain ⟨nov, mono, atEnd, eq, _⟩ := h
  unfold flush at hwf ⊢
  by_cases hb : s.bad > 0
  · rw [if_pos hb] at hwf ⊢
    rw [rawPush_ok (n := n) (s := s) (len := s.bad.toNat) (by omega)] at hwf ⊢
    refine ⟨⟨nov, ?_, atEnd, ?_, hwf⟩, ?_, by simp⟩
    · simp only [Mono, lastEnd_cons]; exact ⟨by omega, mono⟩
    · simp only [lastEnd_cons]; push_cast; omega
    · simp only [lastEnd_cons]; omega
  · rw [if_neg hb] at hwf ⊢
    exact ⟨⟨nov, mono, atEnd, eq, hwf⟩, by omega, by omega⟩

/-- pushing an empty token in a finished state flushes the pending bytes: the stream ends at `n` -/
theorem push0_post {n : Nat} {s : LS} (kind kw : Nat) (h : Post n s) :
    Post n (push n s 0 kind kw) ∧ lastEnd (push n s 0 kind kw).toks = n ∧
    (push n s 0 kind kw).bad ≤ 0 := by
  have hwf := wf_push n s 0 kind kw h.wf
  obtain ⟨nov, mono, atEnd, eq, _⟩ := h
  by_cases hb : s.bad > 0
  · rw [push_eq_pos hb (by omega)] at hwf ⊢
    refine ⟨⟨nov, ?_, atEnd, ?_, hwf⟩, ?_, by simp⟩
    · simp only [Mono, lastEnd_cons]; exact ⟨by omega, by omega, mono⟩
    · simp only [lastEnd_cons]; push_cast; omega
    · simp only [lastEnd_cons]; omega
  · rw [push_eq_zero hb (by omega)] at hwf ⊢
    refine ⟨⟨nov, ?_, atEnd, ?_, hwf⟩, ?_, by simp only; omega⟩
    · simp only [Mono, lastEnd_cons]; exact ⟨by omega, mono⟩
    · simp only [lastEnd_cons]; push_cast; omega
    · simp only [lastEnd_cons]; omega

theorem closeOpens_post (n : Nat) (opens : List BItem) (s : LS) (ps : List (Nat × Nat)) (h : Post n s) :
    Post n (closeOpens n opens s ps).1 ∧
    (opens ≠ [] → lastEnd (closeOpens n opens s ps).1.toks = n) ∧
    (opens = [] → (closeOpens n opens s ps).1 = s) := by
  induction opens generalizing s ps with
  | nil => exact ⟨h, fun hne => absurd rfl hne, fun _ => rfl⟩
  | cons o os ih =>
    simp only [closeOpens]
    have hp := push0_post kUnrecognized 0 h
    have := ih (push n s 0 kUnrecognized 0) (ps ++ [(o.id, (push n s 0 kUnrecognized 0).toks.length)]) hp.1
    refine ⟨this.1, fun _ => ?_, fun hne => by simp at hne⟩
    by_cases hos : os = []
    · subst hos; simp only [closeOpens]; exact hp.2.1
    · exact this.2.1 hos

/-- the token list after `fuseBraces` -/
theorem fuseBraces_post (n : Nat) (s : LS) (h : Post n s) :
    Post n (fuseBraces n s).1 ∧
    ((fuseGo s.braces.reverse [] {} false).2 ≠ [] → lastEnd (fuseBraces n s).1.toks = n) ∧
    ((fuseGo s.braces.reverse [] {} false).2 = [] → (fuseBraces n s).1.toks = s.toks) := by
  unfold fuseBraces
  cases hg : fuseGo s.braces.reverse [] {} false with
  | mk acc opens =>
    simp only
    have hfold : ∀ (l : List BItem) (st : LS), Post n st →
        Post n (l.foldl (fun st o => addDiag st ⟨"unm", lvError, [spanOf o]⟩) st) ∧
        (l.foldl (fun st o => addDiag st ⟨"unm", lvError, [spanOf o]⟩) st).toks = st.toks := by
      intro l
      induction l with
      | nil => intro st hst; exact ⟨hst, rfl⟩
      | cons o os ih =>
        intro st hst
        simp only [List.foldl_cons]
        have := ih (addDiag st ⟨"unm", lvError, [spanOf o]⟩) (post_diags hst _)
        exact ⟨this.1, by rw [this.2]; rfl⟩
    have h1 := hfold opens.reverse { s with diags := acc.unms.map unmDiag ++ s.diags } (post_diags h _)
    have h2 := closeOpens_post n opens _ (acc.pairs.reverse.map (fun x => (x.1.id, x.2.id))) h1.1
    refine ⟨h2.1, h2.2.1, fun he => ?_⟩
    rw [h2.2.2 he, h1.2]

/-! ### the shape of a whole run -/

/-- the two ways `lex` can go (for consistent class tables): the prelude refuses the file, or the
    main loop finishes in an accounted state, the pending unrecognised bytes are flushed and the
    brackets and strings are fused. There is no third way: no panic inside an iteration, no
    progress failure, no fuel exhaustion. -/
theorem lex_cases (E : Env) (hcls : ClsOK E) :
    ((prelude E {}).2 = false ∧ (lex E).status = .abort ∧ (lex E).toks = (prelude E {}).1.toks.reverse) ∨
    (∃ s0 s1, prelude E {} = (s0, true) ∧ mainLoop E (E.n + 1) (-1) s0 = (s1, .done) ∧
      Post E.n (flush E.n s1) ∧ lastEnd (flush E.n s1).toks = E.n ∧ (lex E).final = flush E.n s1 ∧
      (lex E).toks.map (·.end_) = (fuseBraces E.n (flush E.n s1)).1.toks.reverse.map (·.end_) ∧
      ((lex E).status = .done ∨ (lex E).status = .icePanic)) := by
  cases hp : prelude E {} with
  | mk s0 b =>
    cases b with
    | false => left; simp only [lex, lexCore, hp]; exact ⟨trivial, rfl, rfl⟩
    | true =>
      right
      have hi := prelude_inv E s0 hp
      have hm := mainLoop_inv E hcls (E.n + 1) (-1) s0 hi.1 (by omega) (by omega)
      cases hml : mainLoop E (E.n + 1) (-1) s0 with
      | mk s1 st =>
        rw [hml] at hm
        simp only at hm
        rcases hm with ⟨hst, hcur, _, hinv⟩ | hst
        · subst hst
          have hpost0 : Post E.n s1 := by
            rcases hinv with hinv | heof
            · exact post_of_inv hinv hcur
            · exact post_of_eof heof
          have hfl := flush_post hpost0
          refine ⟨s0, s1, rfl, hml, hfl.1, hfl.2.1, ?_⟩
          simp only [lex, lexCore, hp, hml, if_true]
          cases hfb : fuseBraces E.n (flush E.n s1) with
          | mk s2 bracePairs =>
            simp only
            cases hf1 : fuseAll s2.toks.reverse bracePairs with
            | mk ts1 p1 =>
              simp only
              cases hf2 : fuseAll ts1 (strRuns ts1 1 none) with
              | mk ts2 p2 =>
                simp only
                have hends : ts2.map (·.end_) = s2.toks.reverse.map (·.end_) := by
                  have e2 := fuseAll_ends ts1 (strRuns ts1 1 none)
                  have e1 := fuseAll_ends s2.toks.reverse bracePairs
                  rw [hf2] at e2; rw [hf1] at e1
                  simp only at e1 e2
                  rw [e2, e1]
                split
                · exact ⟨rfl, hends, Or.inr rfl⟩
                · exact ⟨rfl, hends, Or.inl rfl⟩
        · exfalso
          have := mainLoop_noice E (E.n + 1) (-1) s0
          rw [hml] at this
          exact this hst

/-- ASCII-only environment (built-in class table) -/
def envA (bs : Bytes) : Env := ⟨bs, asciiCls⟩

/-- the built-in ASCII table is consistent -/
theorem clsOK_ascii (bs : Bytes) : ClsOK (envA bs) := by
  intro r h
  simp only [envA, Env.has, asciiCls, cXidS, cXidC, cWhite, cDigit, cLetter, cPrint] at h ⊢
  by_cases hr : r < 128
  · have : ∀ r : Fin 128, ((asciiCls r.val / 8) % 2 == 1) = true → ((asciiCls r.val / 16) % 2 == 1) = true := by
      decide +kernel
    have := this ⟨r, hr⟩
    simp only [asciiCls, cXidS, cXidC, cWhite, cDigit, cLetter, cPrint] at this
    exact this h
  · exfalso
    have h9 : ¬ (9 ≤ r ∧ r ≤ 13) := by omega
    have h32 : ¬ r = 32 := by omega
    have h48 : ¬ (48 ≤ r ∧ r ≤ 57) := by omega
    have h65 : ¬ ((65 ≤ r ∧ r ≤ 90) ∨ (97 ≤ r ∧ r ≤ 122)) := by omega
    have h95 : ¬ r = 95 := by omega
    have h126 : ¬ (32 ≤ r ∧ r ≤ 126) := by omega
    simp [h9, h32, h48, h65, h95, h126] at h


end PCV.XLexer
