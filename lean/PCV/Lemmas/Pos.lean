/-
Lemmas about `FileInfo.sourcePos` against the position specification (`Spec.Lex`):
the line-table lemmas and the column fold.
-/
import PCV.Model.FileInfo
import PCV.Spec.Lex
import PCV.Lemmas.Utf8Dec
namespace PCV.Lemmas.Pos
open PCV.FileInfo PCV.Spec.Lex

/-- the offsets just after each newline of `bs`, `i` being the offset of the head of `bs` -/
def lineStartsFrom : Nat → List UInt8 → List Nat
  | _, [] => []
  | i, b :: bs => if b = 10 then (i + 1) :: lineStartsFrom (i + 1) bs else lineStartsFrom (i + 1) bs

theorem lineStartsFrom_gt (i : Nat) (bs : List UInt8) : ∀ l ∈ lineStartsFrom i bs, i < l := by
  induction bs generalizing i with
  | nil => simp [lineStartsFrom]
  | cons b bs ih =>
    intro l hl
    simp only [lineStartsFrom] at hl
    split at hl
    · simp only [List.mem_cons] at hl
      rcases hl with h | h
      · omega
      · have := ih (i + 1) l h; omega
    · have := ih (i + 1) l hl; omega

/-- the entries ≤ off are exactly as many as the newlines among the first off - i bytes -/
theorem filter_lineStarts (off : Nat) (bs : List UInt8) (i : Nat) :
    ((lineStartsFrom i bs).filter (fun l => decide (l ≤ off))).length = (bs.take (off - i)).count 10 := by
  induction bs generalizing i with
  | nil => simp [lineStartsFrom]
  | cons b bs ih =>
    by_cases hoi : off ≤ i
    · have h0 : off - i = 0 := by omega
      rw [h0]
      simp only [List.take_zero, List.count_nil, List.length_eq_zero_iff, List.filter_eq_nil_iff,
        decide_eq_true_eq]
      intro l hl
      have := lineStartsFrom_gt i (b :: bs) l hl
      omega
    · have hk : off - i = (off - (i + 1)) + 1 := by omega
      rw [hk, List.take_succ_cons]
      simp only [lineStartsFrom]
      by_cases hb : b = 10
      · subst hb
        have hle : i + 1 ≤ off := by omega
        simp [hle, ih (i + 1)]
      · have hb' : ¬ (b == 10) = true := by simpa using hb
        simp [hb, ih (i + 1)]

/-- the table entry selected by `SourcePos` is the start of the line of `off` -/
theorem getD_lineStarts (off : Nat) (bs : List UInt8) (acc i : Nat) :
    (acc :: lineStartsFrom i bs).getD ((bs.take (off - i)).count 10) 0 = lineStartGo off acc i bs := by
  induction bs generalizing acc i with
  | nil => simp [lineStartsFrom, lineStartGo]
  | cons b bs ih =>
    by_cases hoi : off ≤ i
    · have h0 : off - i = 0 := by omega
      have : i ≥ off := hoi
      simp [h0, lineStartGo, this]
    · have hk : off - i = (off - (i + 1)) + 1 := by omega
      have hlt : ¬ i ≥ off := by omega
      rw [hk, List.take_succ_cons]
      simp only [lineStartsFrom, lineStartGo, hlt, if_false]
      by_cases hb : b = 10
      · subst hb
        simp only [if_true, List.count_cons_self, List.getD_cons_succ]
        exact ih (i + 1) (i + 1)
      · have hb' : (b == 10) = false := by simpa using hb
        simp only [hb, if_false, List.count_cons, hb', Bool.false_eq_true, Nat.add_zero]
        exact ih acc (i + 1)

/-- `lineStartGo` only looks at the bytes before `off` -/
theorem lineStartGo_take (off acc i : Nat) (bs : List UInt8) (p : Nat) (h : off ≤ i + p) :
    lineStartGo off acc i (bs.take p) = lineStartGo off acc i bs := by
  induction bs generalizing acc i p with
  | nil => simp
  | cons b bs ih =>
    cases p with
    | zero =>
      have : i ≥ off := by omega
      simp [lineStartGo, this]
    | succ p =>
      simp only [List.take_succ_cons, lineStartGo]
      split
      · rfl
      · exact ih _ (i + 1) p (by omega)

theorem lineStartGo_le (off acc i : Nat) (bs : List UInt8) (h : acc ≤ i) (hoff : acc ≤ off) :
    lineStartGo off acc i bs ≤ off := by
  induction bs generalizing acc i with
  | nil => simpa [lineStartGo] using hoff
  | cons b bs ih =>
    simp only [lineStartGo]
    split
    · exact hoff
    · apply ih
      · split <;> omega
      · split <;> omega

theorem colStep_mono (col : Nat) (b : UInt8) : col ≤ colStep col b := by
  unfold colStep
  split
  · omega
  · split <;> omega

theorem foldl_colStep_mono (bs : List UInt8) (col : Nat) : col ≤ bs.foldl colStep col := by
  induction bs generalizing col with
  | nil => simp
  | cons b bs ih => exact Nat.le_trans (colStep_mono col b) (ih _)

theorem colStep_cont (col : Nat) (x : UInt8) (h : Utf8.isCont x = true) : colStep col x = col := by
  simp only [Utf8.isCont, Bool.and_eq_true, decide_eq_true_eq] at h
  have h9 : x ≠ 9 := by intro hx; subst hx; simp at h
  have hrs : isRuneStart x = false := by
    simp only [isRuneStart, bne_eq_false_iff_eq]; omega
  simp [colStep, h9, hrs]

theorem colStep_start (col : Nat) (b : UInt8) (hs : isRuneStart b = true) :
    colStep col b = if b = 9 then col + (8 - col % 8) else col + 1 := by
  simp [colStep, hs]

theorem charLen_some (b : UInt8) (bs : List UInt8) (w : Nat) (h : charLen (b :: bs) = some w) :
    isRuneStart b = true ∧ ∀ x ∈ bs.take (w - 1), Utf8.isCont x = true := by
  simp only [charLen] at h
  split at h
  · simp at h
  · rename_i hnot
    simp only [Option.some.injEq] at h
    subst h
    have hpos := Utf8.decodeRune_width_pos (b :: bs) (by simp)
    by_cases h1 : (Utf8.decodeRune (b :: bs)).2 = 1
    · have hb : b.toNat < 0x80 := by
        have := hnot; simp only [h1, true_and, ge_iff_le, Nat.not_le] at this; exact this
      constructor
      · simp only [isRuneStart, bne_iff_ne, ne_eq]; omega
      · simp [h1]
    · have h2 : 2 ≤ (Utf8.decodeRune (b :: bs)).2 := by omega
      obtain ⟨hb, _, hc⟩ := Utf8.decodeRune_multi b bs h2
      constructor
      · have := b.toNat_lt
        simp only [isRuneStart, bne_iff_ne, ne_eq]; omega
      · exact hc

/-- the byte-wise column loop of `SourcePos` counts characters (tabs to multiples of 8)
    whenever the text is well-formed UTF-8 -/
theorem colGo_fold (s col n : Nat) (bs : List UInt8) (c : Nat) :
    colGo s col n bs = some c → (∀ x ∈ bs.take s, Utf8.isCont x = true) →
    (bs.take n).foldl colStep col = c := by
  fun_induction colGo s col n bs with
  | case1 s col bs => intro h _; simpa using h
  | case2 s col n hn => intro h _; simpa using h
  | case3 s col n x bs ih =>
    intro h hc
    simp only [List.take_succ_cons, List.foldl_cons]
    rw [colStep_cont col x (hc x (by simp))]
    exact ih h (fun y hy => hc y (by simp [hy]))
  | case4 col n b bs hnone => intro h _; simp at h
  | case5 col n b bs w hw ih =>
    intro h _
    obtain ⟨hs, hcont⟩ := charLen_some b bs w hw
    simp only [List.take_succ_cons, List.foldl_cons]
    rw [colStep_start col b hs]
    exact ih h hcont

end PCV.Lemmas.Pos

namespace PCV.Lemmas.Pos
open PCV.FileInfo PCV.Spec.Lex

/-- the line table is complete for the first `p` bytes of the file -/
def LinesUpTo (fi : FI) (p : Nat) : Prop := fi.lines = 0 :: lineStartsFrom 0 (fi.data.take p)

/-- `SourcePos` on a table that is complete up to `p ≥ off`: line and the byte-fold column -/
theorem sourcePos_fold (fi : FI) (p off : Nat) (hl : LinesUpTo fi p) (hop : off ≤ p)
    (hp : p ≤ fi.data.length) :
    sourcePos fi (off : Int) = some (specLine fi.data off,
      (slice fi.data (lineStart fi.data off) off).foldl colStep 0 + 1) := by
  have hcnt : ((fi.lines.filter (fun l => decide (l ≤ off))).length) = 1 + (fi.data.take off).count 10 := by
    rw [hl]
    have := filter_lineStarts off (fi.data.take p) 0
    simp only [Nat.sub_zero, List.take_take, Nat.min_eq_left hop] at this
    simp [List.filter_cons, this]; omega
  have hstart : fi.lines.getD ((fi.data.take off).count 10) 0 = lineStart fi.data off := by
    rw [hl]
    have := getD_lineStarts off (fi.data.take p) 0 0
    simp only [Nat.sub_zero, List.take_take, Nat.min_eq_left hop] at this
    rw [this, lineStart, lineStartGo_take off 0 0 fi.data p (by omega)]
  have hoff : ¬ ((off : Int) < 0) := by omega
  simp only [sourcePos, hoff, if_false, Int.toNat_natCast, hcnt]
  have hne : ¬ (1 + (fi.data.take off).count 10 = 0) := by omega
  have hlen : ¬ (off > fi.data.length) := by omega
  simp only [hne, if_false, Nat.add_sub_cancel_left, hstart, hlen, specLine, slice]

/-- **C13, position formula.** On a line table that is complete up to `p`, `SourcePos(off)` for
    `off ≤ p` is (1 + newlines before `off`, 1 + characters since the line start with tabs
    advancing to the next multiple of 8), for every text whose line prefix is well-formed UTF-8. -/
theorem sourcePos_correct (fi : FI) (p off c : Nat) (hl : LinesUpTo fi p) (hop : off ≤ p)
    (hp : p ≤ fi.data.length) (hc : specCol fi.data off = some c) :
    sourcePos fi (off : Int) = some (specLine fi.data off, c) := by
  rw [sourcePos_fold fi p off hl hop hp]
  simp only [specCol, Option.map_eq_some_iff] at hc
  obtain ⟨c', hc', rfl⟩ := hc
  have := colGo_fold 0 0 (off - lineStart fi.data off) (fi.data.drop (lineStart fi.data off)) c' hc' (by simp)
  simp only [slice, this]

theorem filter_le_mono (ls : List Nat) (a b : Nat) (h : a ≤ b) :
    (ls.filter (fun l => decide (l ≤ a))).length ≤ (ls.filter (fun l => decide (l ≤ b))).length := by
  induction ls with
  | nil => simp
  | cons x xs ih =>
    simp only [List.filter_cons]
    by_cases h1 : x ≤ a
    · have h2 : x ≤ b := by omega
      simp [h1, h2, ih]
    · by_cases h2 : x ≤ b
      · simp [h1, h2]; omega
      · simp [h1, h2, ih]

/-- `SourcePos` is monotone in the offset (lexicographic on line, column), on any table -/
theorem sourcePos_mono (fi : FI) (o1 o2 l1 c1 l2 c2 : Nat) (h : o1 ≤ o2)
    (h1 : sourcePos fi (o1 : Int) = some (l1, c1)) (h2 : sourcePos fi (o2 : Int) = some (l2, c2)) :
    l1 < l2 ∨ (l1 = l2 ∧ c1 ≤ c2) := by
  have hmono := filter_le_mono fi.lines o1 o2 h
  simp only [sourcePos, Int.toNat_natCast] at h1 h2
  have ho1 : ¬ ((o1 : Int) < 0) := by omega
  have ho2 : ¬ ((o2 : Int) < 0) := by omega
  simp only [ho1, ho2, if_false] at h1 h2
  split at h1
  · simp at h1
  · split at h1
    · simp at h1
    · split at h2
      · simp at h2
      · split at h2
        · simp at h2
        · simp only [Option.some.injEq, Prod.mk.injEq] at h1 h2
          obtain ⟨hl1, hc1⟩ := h1
          obtain ⟨hl2, hc2⟩ := h2
          by_cases hlt : l1 < l2
          · exact Or.inl hlt
          · have heq : l1 = l2 := by omega
            refine Or.inr ⟨heq, ?_⟩
            rw [← hl1, ← hl2] at heq
            rw [← hc1, ← hc2, heq]
            generalize fi.lines.getD ((fi.lines.filter (fun l => decide (l ≤ o2))).length - 1) 0 = st
            have hsplit : (fi.data.drop st).take (o2 - st) =
                (fi.data.drop st).take (o1 - st) ++ ((fi.data.drop st).drop (o1 - st)).take ((o2 - st) - (o1 - st)) := by
              have : o2 - st = (o1 - st) + ((o2 - st) - (o1 - st)) := by omega
              rw [this, List.take_add]
              congr 2
              omega
            rw [hsplit, List.foldl_append]
            have := foldl_colStep_mono (((fi.data.drop st).drop (o1 - st)).take ((o2 - st) - (o1 - st)))
              (List.foldl colStep 0 ((fi.data.drop st).take (o1 - st)))
            omega

end PCV.Lemmas.Pos
