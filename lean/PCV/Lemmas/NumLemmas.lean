/-
`strconv.ParseUint` / `ParseInt` (model `PCV.Num`) compute the positional value of digit strings
and report a range error exactly on overflow.
-/
import PCV.Model.Num
import PCV.Spec.Lex
namespace PCV.Lemmas.NumLemmas
open PCV.Num

/-- value of a digit list continued from accumulator `n` -/
def valFrom (base : Nat) (n : Nat) (ds : List Nat) : Nat := ds.foldl (fun a d => a * base + d) n

theorem valFrom_ge (base n : Nat) (ds : List Nat) (hb : 1 ≤ base) : n ≤ valFrom base n ds := by
  induction ds generalizing n with
  | nil => simp [valFrom]
  | cons d ds ih =>
    simp only [valFrom, List.foldl_cons]
    have := ih (n * base + d)
    simp only [valFrom] at this
    have h2 : n ≤ n * base := Nat.le_mul_of_pos_right n hb
    omega

/-- `ParseUint`'s digit loop computes the value, or reports a range error exactly when the value
    exceeds the maximum — for digit strings valid in the base -/
theorem parseUintGo_eq (base maxVal : Nat) (hb : 2 ≤ base) (hmax : maxVal ≤ maxU64) (s : List UInt8) :
    ∀ (n : Nat) (ds : List Nat),
    n ≤ maxVal → s.map digitVal = ds.map some → (∀ d ∈ ds, d < base) →
    parseUintGo base maxVal n s =
      if valFrom base n ds ≤ maxVal then .ok (valFrom base n ds) else .range := by
  induction s with
  | nil =>
    intro n ds hn hds _
    cases ds with
    | nil => simp [parseUintGo, valFrom, hn]
    | cons d ds => simp at hds
  | cons c cs ih =>
    intro n ds hn hds hlt
    cases ds with
    | nil => simp at hds
    | cons d ds' =>
      simp only [List.map_cons, List.cons.injEq] at hds
      obtain ⟨hc, hrest⟩ := hds
      have hd : d < base := hlt d (by simp)
      simp only [parseUintGo, hc]
      have hnd : ¬ (d ≥ base) := by omega
      simp only [hnd, if_false]
      have hval : valFrom base n (d :: ds') = valFrom base (n * base + d) ds' := by simp [valFrom]
      have hge := valFrom_ge base (n * base + d) ds' (by omega)
      by_cases h1 : n ≥ maxU64 / base + 1
      · simp only [h1, if_true]
        have hbig : maxU64 < n * base := by
          have h2 : maxU64 / base * base + maxU64 % base = maxU64 := by
            rw [Nat.mul_comm]; exact Nat.div_add_mod maxU64 base
          have h3 : maxU64 % base < base := Nat.mod_lt _ (by omega)
          have h4 : (maxU64 / base + 1) * base ≤ n * base := Nat.mul_le_mul_right base h1
          have h5 : (maxU64 / base + 1) * base = maxU64 / base * base + base := by
            rw [Nat.add_mul]; simp
          omega
        have : ¬ (valFrom base n (d :: ds') ≤ maxVal) := by rw [hval]; omega
        simp [this]
      · simp only [h1, if_false]
        by_cases h2 : n * base + d > maxVal
        · simp only [h2, if_true]
          have : ¬ (valFrom base n (d :: ds') ≤ maxVal) := by rw [hval]; omega
          simp [this]
        · simp only [h2, if_false]
          rw [hval]
          exact ih (n * base + d) ds' (by omega) hrest (fun x hx => hlt x (by simp [hx]))

open PCV.Spec.Lex

theorem digitVal_dig (b : UInt8) (h : isDig b = true) : digitVal b = some (b.toNat - 48) := by
  simp only [isDig, Bool.and_eq_true, decide_eq_true_eq] at h
  simp [digitVal, h]

theorem digitVal_hex (b : UInt8) (h : isHex b = true) : digitVal b = some (hexVal b) := by
  have hb := b.toNat_lt
  by_cases hd : isDig b = true
  · rw [digitVal_dig b hd]; simp [hexVal, hd]
  · have hd' : isDig b = false := by simpa using hd
    simp only [isHex, hd', Bool.false_or, Bool.or_eq_true, Bool.and_eq_true, decide_eq_true_eq] at h
    simp only [isDig, Bool.and_eq_false_iff, decide_eq_false_iff_not] at hd'
    have hnd : ¬ (48 ≤ b.toNat ∧ b.toNat ≤ 57) := by omega
    simp only [digitVal, hnd, if_false, hexVal, isDig]
    have hl : (lower b).toNat = b.toNat ||| 0x20 := by simp [lower]
    rcases h with h | h
    · -- lower case: b ||| 0x20 = b
      have : b.toNat ||| 0x20 = b.toNat := by
        have : b.toNat ∈ [97, 98, 99, 100, 101, 102] := by simp; omega
        simp only [List.mem_cons, List.mem_nil_iff, or_false] at this
        rcases this with h | h | h | h | h | h <;> rw [h] <;> rfl
      rw [hl, this]
      have h1 : 97 ≤ b.toNat ∧ b.toNat ≤ 122 := by omega
      have h2 : ¬ (decide (48 ≤ b.toNat) && decide (b.toNat ≤ 57)) = true := by simp; omega
      simp [h1, h2]; omega
    · have : b.toNat ||| 0x20 = b.toNat + 32 := by
        have : b.toNat ∈ [65, 66, 67, 68, 69, 70] := by simp; omega
        simp only [List.mem_cons, List.mem_nil_iff, or_false] at this
        rcases this with h | h | h | h | h | h <;> rw [h] <;> rfl
      rw [hl, this]
      have h1 : 97 ≤ b.toNat + 32 ∧ b.toNat + 32 ≤ 122 := by omega
      have h2 : ¬ (decide (48 ≤ b.toNat) && decide (b.toNat ≤ 57)) = true := by simp; omega
      have h3 : ¬ (97 ≤ b.toNat) := by omega
      simp [h1, h2, h3]; omega

theorem valFrom_map (base : Nat) (f : UInt8 → Nat) (s : List UInt8) (n : Nat) :
    valFrom base n (s.map f) = s.foldl (fun a b => a * base + f b) n := by
  simp [valFrom, List.foldl_map]

/-- decimal: `ParseUint(s, 10, 64)` on a non-empty digit string -/
theorem parseUint_dec (s : List UInt8) (hne : s ≠ []) (hd : s.all isDig = true) :
    parseUint s 10 64 = if decNum s ≤ Num.maxU64 then .ok (decNum s) else .range := by
  have hs : s.isEmpty = false := by cases s <;> simp_all
  simp only [parseUint, hs, Bool.false_eq_true, if_false]
  have hmap : s.map digitVal = (s.map (fun b => b.toNat - 48)).map some := by
    simp only [List.map_map]
    apply List.map_congr_left
    intro b hb
    exact digitVal_dig b (List.all_eq_true.mp hd b hb)
  have := parseUintGo_eq 10 (2 ^ 64 - 1) (by omega) (Nat.le_refl _) s 0 _ (by omega) hmap (by
    intro d hd'
    simp only [List.mem_map] at hd'
    obtain ⟨b, hb, rfl⟩ := hd'
    have := List.all_eq_true.mp hd b hb
    simp only [isDig, Bool.and_eq_true, decide_eq_true_eq] at this
    omega)
  rw [this, valFrom_map]
  rfl

/-- octal: `ParseUint(s, 8, 64)` on a non-empty string of octal digits -/
theorem parseUint_oct (s : List UInt8) (hne : s ≠ []) (hd : s.all isOct = true) :
    parseUint s 8 64 = if octNum s ≤ Num.maxU64 then .ok (octNum s) else .range := by
  have hs : s.isEmpty = false := by cases s <;> simp_all
  simp only [parseUint, hs, Bool.false_eq_true, if_false]
  have hoct : ∀ b ∈ s, 48 ≤ b.toNat ∧ b.toNat ≤ 55 := by
    intro b hb
    have := List.all_eq_true.mp hd b hb
    simpa [isOct] using this
  have hmap : s.map digitVal = (s.map (fun b => b.toNat - 48)).map some := by
    simp only [List.map_map]
    apply List.map_congr_left
    intro b hb
    have := hoct b hb
    exact digitVal_dig b (by simp [isDig]; omega)
  have := parseUintGo_eq 8 (2 ^ 64 - 1) (by omega) (Nat.le_refl _) s 0 _ (by omega) hmap (by
    intro d hd'
    simp only [List.mem_map] at hd'
    obtain ⟨b, hb, rfl⟩ := hd'
    have := hoct b hb
    omega)
  rw [this, valFrom_map]
  rfl

/-- hexadecimal: `ParseUint(s, 16, bits)` on a non-empty string of hex digits -/
theorem parseUint_hex (s : List UInt8) (bits : Nat) (hbits : bits ≤ 64) (hne : s ≠ []) (hd : s.all isHex = true) :
    parseUint s 16 bits = if hexNum s ≤ 2 ^ bits - 1 then .ok (hexNum s) else .range := by
  have hs : s.isEmpty = false := by cases s <;> simp_all
  simp only [parseUint, hs, Bool.false_eq_true, if_false]
  have hmap : s.map digitVal = (s.map hexVal).map some := by
    simp only [List.map_map]
    apply List.map_congr_left
    intro b hb
    exact digitVal_hex b (List.all_eq_true.mp hd b hb)
  have hpow : 2 ^ bits - 1 ≤ Num.maxU64 := by
    have : 2 ^ bits ≤ 2 ^ 64 := Nat.pow_le_pow_right (by omega) hbits
    simp only [Num.maxU64]; omega
  have := parseUintGo_eq 16 (2 ^ bits - 1) (by omega) hpow s 0 _ (by omega) hmap (by
    intro d hd'
    simp only [List.mem_map] at hd'
    obtain ⟨b, hb, rfl⟩ := hd'
    have h := List.all_eq_true.mp hd b hb
    have hb' := b.toNat_lt
    simp only [isHex, isDig, Bool.or_eq_true, Bool.and_eq_true, decide_eq_true_eq] at h
    simp only [hexVal]
    by_cases h1 : isDig b = true
    · rw [if_pos h1]
      simp only [isDig, Bool.and_eq_true, decide_eq_true_eq] at h1
      omega
    · rw [if_neg h1]
      simp only [isDig, Bool.and_eq_true, decide_eq_true_eq] at h1
      split <;> omega)
  rw [this, valFrom_map]
  rfl

/-- `ParseInt(s, 16, 32)` on hex digits only (what protoc requires inside `\x`, `\u`, `\U`):
    the value, unless it does not fit an int32 -/
theorem parseInt_hex_digits (s : List UInt8) (hne : s ≠ []) (hd : s.all isHex = true) :
    parseInt s 16 32 = if hexNum s < 2 ^ 31 then some (hexNum s : Int) else none := by
  cases s with
  | nil => exact absurd rfl hne
  | cons c rest =>
    have hc : isHex c = true := List.all_eq_true.mp hd c (by simp)
    have h43 : c ≠ 43 := by intro h; subst h; simp [isHex, isDig] at hc
    have h45 : c ≠ 45 := by intro h; subst h; simp [isHex, isDig] at hc
    simp only [parseInt, h43, h45, if_false]
    rw [parseUint_hex (c :: rest) 32 (by omega) hne hd]
    by_cases h1 : hexNum (c :: rest) ≤ 2 ^ 32 - 1
    · simp only [h1, if_true]
      by_cases h2 : hexNum (c :: rest) < 2 ^ 31
      · have : ¬ (hexNum (c :: rest) ≥ 2 ^ (32 - 1)) := by simp; omega
        simp [h2, this]
      · have : hexNum (c :: rest) ≥ 2 ^ (32 - 1) := by simp; omega
        simp [h2, this]
    · have h2 : ¬ (hexNum (c :: rest) < 2 ^ 31) := by omega
      simp [h1, h2]

end PCV.Lemmas.NumLemmas
