/-
Helper lemmas for the executor LTS (PCV.Model.Exec): task-table updates, the shape of a
transition (exactly one task changes), stability of finished tasks.
-/
import PCV.Model.Exec
namespace PCV.Exec

def lookupT (f : File) (l : List (File × Task)) : Option Task := (l.find? (·.1 == f)).map (·.2)

theorem task_eq (s : St) (f : File) : s.task f = lookupT f s.tasks := rfl

theorem lookupT_setTask_same (f : File) (t : Task) (l : List (File × Task)) :
    lookupT f (setTask f t l) = some t := by
  induction l with
  | nil => simp [setTask, lookupT]
  | cons x l ih =>
    obtain ⟨g, u⟩ := x
    unfold setTask
    by_cases h : (g == f) = true
    · simp [h, lookupT]
    · simp only [h]
      simp only [lookupT, List.find?_cons, h] at ih ⊢
      exact ih

theorem lookupT_setTask_other (f g : File) (t : Task) (l : List (File × Task)) (h : g ≠ f) :
    lookupT g (setTask f t l) = lookupT g l := by
  induction l with
  | nil => simp [setTask, lookupT, List.find?_cons, Ne.symm h]
  | cons x l ih =>
    obtain ⟨k, u⟩ := x
    unfold setTask
    by_cases hk : (k == f) = true
    · have hkf : k = f := by simpa using hk
      have : (k == g) = false := by simp [hkf, Ne.symm h]
      have h2 : (f == g) = false := by simp [Ne.symm h]
      simp [hk, lookupT, List.find?_cons, this, h2]
    · simp only [hk]
      by_cases hg : (k == g) = true
      · simp [lookupT, List.find?_cons, hg]
      · simp only [lookupT, List.find?_cons, hg] at ih ⊢
        exact ih

@[simp] theorem set_task_same (s : St) (f : File) (t : Task) : (s.set f t).task f = some t :=
  lookupT_setTask_same f t s.tasks

theorem set_task_other (s : St) (f g : File) (t : Task) (h : g ≠ f) : (s.set f t).task g = s.task g :=
  lookupT_setTask_other f g t s.tasks h

@[simp] theorem set_sem (s : St) (f : File) (t : Task) : (s.set f t).sem = s.sem := rfl
@[simp] theorem set_crashed (s : St) (f : File) (t : Task) : (s.set f t).crashed = s.crashed := rfl

/-- number of tasks holding a semaphore permit -/
def holdersL (l : List (File × Task)) : Nat := (l.filter (fun x => x.2.holds)).length
def holders (s : St) : Nat := holdersL s.tasks

def holdsOpt : Option Task → Nat
  | some t => if t.holds then 1 else 0
  | none => 0

theorem holdersL_setTask (f : File) (t : Task) (l : List (File × Task)) :
    holdersL (setTask f t l) + holdsOpt (lookupT f l) = holdersL l + (if t.holds then 1 else 0) := by
  induction l with
  | nil => simp [setTask, holdersL, lookupT, holdsOpt]; split <;> simp_all
  | cons x l ih =>
    obtain ⟨g, u⟩ := x
    unfold setTask
    by_cases h : (g == f) = true
    · simp only [h, ite_true, lookupT, List.find?_cons, Option.map_some, holdsOpt, holdersL, List.filter_cons]
      cases t.holds <;> cases u.holds <;> simp <;> omega
    · simp only [h]
      simp only [lookupT, List.find?_cons, h] at ih ⊢
      simp only [holdersL, List.filter_cons] at ih ⊢
      cases u.holds <;> simp at ih ⊢ <;> omega

theorem holders_set (s : St) (f : File) (t : Task) :
    holders (s.set f t) + holdsOpt (s.task f) = holders s + (if t.holds then 1 else 0) :=
  holdersL_setTask f t s.tasks

end PCV.Exec
