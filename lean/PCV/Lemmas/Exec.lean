/-
Helper lemmas for the executor LTS (PCV.Model.Exec): task-table updates, the shape of a
transition (exactly one task changes), stability of finished tasks.
-/
import PCV.Model.Exec
namespace PCV.Exec

def lookupT (f : File) (l : List (File × Task)) : Option Task := (l.find? (·.1 == f)).map (·.2)

theorem task_eq (s : St) (f : File) : s.task f = lookupT f s.tasks := rfl

theorem lookupT_cons (f g : File) (u : Task) (l : List (File × Task)) :
    lookupT f ((g, u) :: l) = if (g == f) = true then some u else lookupT f l := by
  simp only [lookupT, List.find?_cons]
  by_cases h : (g == f) = true <;> simp [h]

theorem setTask_cons (f g : File) (t u : Task) (l : List (File × Task)) :
    setTask f t ((g, u) :: l) = if (g == f) = true then (g, t) :: l else (g, u) :: setTask f t l := rfl

theorem lookupT_setTask_same (f : File) (t : Task) (l : List (File × Task)) :
    lookupT f (setTask f t l) = some t := by
  induction l with
  | nil => simp [setTask, lookupT]
  | cons x l ih =>
    obtain ⟨g, u⟩ := x
    rw [setTask_cons]
    by_cases h : (g == f) = true
    · rw [if_pos h, lookupT_cons, if_pos h]
    · rw [if_neg h, lookupT_cons, if_neg h]; exact ih

theorem lookupT_setTask_other (f g : File) (t : Task) (l : List (File × Task)) (h : g ≠ f) :
    lookupT g (setTask f t l) = lookupT g l := by
  induction l with
  | nil =>
    have : ¬ (f == g) = true := by simpa using Ne.symm h
    simp [setTask, this, lookupT]
  | cons x l ih =>
    obtain ⟨k, u⟩ := x
    rw [setTask_cons]
    by_cases hk : (k == f) = true
    · have hkf : k = f := by simpa using hk
      have hkg : ¬ (k == g) = true := by simpa [hkf] using Ne.symm h
      rw [if_pos hk, lookupT_cons, if_neg hkg, lookupT_cons, if_neg hkg]
    · rw [if_neg hk, lookupT_cons, lookupT_cons]
      by_cases hg : (k == g) = true
      · rw [if_pos hg, if_pos hg]
      · rw [if_neg hg, if_neg hg]; exact ih

@[simp] theorem set_task_same (s : St) (f : File) (t : Task) : (s.set f t).task f = some t :=
  lookupT_setTask_same f t s.tasks

theorem set_task_other (s : St) (f g : File) (t : Task) (h : g ≠ f) : (s.set f t).task g = s.task g :=
  lookupT_setTask_other f g t s.tasks h

@[simp] theorem set_sem (s : St) (f : File) (t : Task) : (s.set f t).sem = s.sem := rfl
@[simp] theorem set_crashed (s : St) (f : File) (t : Task) : (s.set f t).crashed = s.crashed := rfl

/-- number of tasks holding a semaphore permit -/
def holdersL (l : List (File × Task)) : Nat := (l.filter (fun x => x.2.holds)).length
def holders (s : St) : Nat := holdersL s.tasks

def holdsOpt : Option Task → Nat
  | some t => if t.holds then 1 else 0
  | none => 0

theorem holdersL_cons (g : File) (u : Task) (l : List (File × Task)) :
    holdersL ((g, u) :: l) = (if u.holds then 1 else 0) + holdersL l := by
  simp only [holdersL, List.filter_cons]
  cases u.holds <;> simp <;> omega

theorem holdersL_setTask (f : File) (t : Task) (l : List (File × Task)) :
    holdersL (setTask f t l) + holdsOpt (lookupT f l) = holdersL l + (if t.holds then 1 else 0) := by
  induction l with
  | nil =>
    show holdersL [(f, t)] + holdsOpt (lookupT f []) = holdersL [] + _
    rw [holdersL_cons]; simp [holdersL, lookupT, holdsOpt]
  | cons x l ih =>
    obtain ⟨g, u⟩ := x
    rw [setTask_cons, lookupT_cons]
    by_cases h : (g == f) = true
    · rw [if_pos h, if_pos h, holdersL_cons, holdersL_cons]
      simp only [holdsOpt]; omega
    · rw [if_neg h, if_neg h, holdersL_cons, holdersL_cons]; omega

theorem holders_set (s : St) (f : File) (t : Task) :
    holders (s.set f t) + holdsOpt (s.task f) = holders s + (if t.holds then 1 else 0) :=
  holdersL_setTask f t s.tasks

end PCV.Exec
