/-
Lemmas for Props/C01: the executable (Bool) forms of the declarative rules used by the oracle
agree with the propositions, and each Go algorithm agrees with the executable form.
-/
import PCV.Lemmas.MiniProtoRanges
import PCV.Lemmas.MiniProtoNames
namespace PCV.MiniProto
open PCV.MiniProto.Spec

theorem somePairB_iff {α : Type} (R : α → α → Bool) (l : List α) :
    somePairB R l = true ↔ SomePair (fun a b => R a b = true) l := by
  induction l with
  | nil => simp [somePairB, SomePair]
  | cons a rest ih =>
    rw [somePair_cons]
    unfold somePairB
    simp only [Bool.or_eq_true, List.any_eq_true, ih]

theorem overlapsB_iff (incl : Bool) (a b : TagRange) : overlapsB incl a b = true ↔ Rel incl a b := by
  cases incl <;> simp [overlapsB, Rel, overlaps, overlapsIncl]

theorem rangesOverlapB_iff (incl : Bool) (rs : List TagRange) :
    rangesOverlapB incl rs = true ↔ RangesOverlap incl rs := by
  unfold rangesOverlapB
  rw [somePairB_iff, rangesOverlap_eq]
  unfold SomePair
  simp only [overlapsB_iff]

theorem extRsvdOverlapB_iff (rsvd exts : List TagRange) :
    extRsvdOverlapB rsvd exts = true ↔ ExtRsvdOverlap rsvd exts := by
  unfold extRsvdOverlapB ExtRsvdOverlap
  simp only [List.any_eq_true]
  constructor
  · rintro ⟨r, hr, e, he, h⟩
    exact ⟨r, hr, e, he, by simpa [Rel] using (overlapsB_iff false r e).mp h⟩
  · rintro ⟨r, hr, e, he, h⟩
    exact ⟨r, hr, e, he, (overlapsB_iff false r e).mpr (by simpa [Rel] using h)⟩

theorem inRangesB_iff (incl : Bool) (rs : List TagRange) (n : Int) :
    inRangesB incl rs n = true ↔ InRanges incl rs n := by
  unfold inRangesB InRanges
  simp only [List.any_eq_true, Bool.and_eq_true, decide_eq_true_eq]
  constructor
  · rintro ⟨r, hr, h1, h2⟩
    refine ⟨r, hr, h1, ?_⟩
    cases incl <;> simpa using h2
  · rintro ⟨r, hr, h1, h2⟩
    refine ⟨r, hr, h1, ?_⟩
    cases incl <;> simpa using h2

theorem dupNumberB_iff (xs : List (Int × String)) : dupNumberB xs = true ↔ DupNumber xs := by
  unfold dupNumberB DupNumber
  rw [somePairB_iff]
  unfold SomePair
  rw [List.Nodup, List.pairwise_map]
  simp

/-- Bool-valued functions agree when they are true in the same cases -/
theorem bool_eq_of_iff {a b : Bool} (h : a = true ↔ b = true) : a = b := by
  cases a <;> cases b <;> simp_all

/-! ## Go algorithm = executable declarative form -/

theorem rangesOverlap_go_eq (incl : Bool) (rs : List TagRange) (hw : ∀ r ∈ rs, RangeWf incl r) :
    rangesOverlapGo incl rs = rangesOverlapB incl rs :=
  bool_eq_of_iff ((rangesOverlapGo_iff incl rs hw).trans (rangesOverlapB_iff incl rs).symm)

theorem extRsvdOverlap_go_eq (rsvd exts : List TagRange)
    (hr : ∀ r ∈ rsvd, RangeWf false r) (he : ∀ e ∈ exts, RangeWf false e) :
    extRsvdOverlapGo rsvd exts = extRsvdOverlapB rsvd exts :=
  bool_eq_of_iff ((extRsvdOverlapGo_iff rsvd exts hr he).trans (extRsvdOverlapB_iff rsvd exts).symm)

theorem inRanges_go_eq (incl : Bool) (rs : List TagRange) (n : Int)
    (hw : ∀ r ∈ rs, RangeWf incl r) (hn : rangesOverlapB incl rs = false) :
    inRangesGo incl rs n = inRangesB incl rs n := by
  have hn' : ¬ RangesOverlap incl rs := by
    rw [← rangesOverlapB_iff, hn]; simp
  exact bool_eq_of_iff ((inRangesGo_iff incl rs n hw hn').trans (inRangesB_iff incl rs n).symm)

theorem dupNumber_go_eq (xs : List (Int × String)) (hx : ∀ x ∈ xs, x.2 ≠ "") :
    dupNumberGo xs = dupNumberB xs :=
  bool_eq_of_iff ((dupNumberGo_iff xs hx).trans (dupNumberB_iff xs).symm)

/-! ## string sets -/

theorem dupStrLoop_iff (xs : List String) : ∀ (seen : List String),
    dupStrLoop seen xs = true ↔ (∃ x ∈ xs, x ∈ seen) ∨ ¬ xs.Nodup := by
  induction xs with
  | nil => intro seen; simp [dupStrLoop]
  | cons x rest ih =>
    intro seen
    unfold dupStrLoop
    simp only [Bool.or_eq_true, List.contains_eq_mem, decide_eq_true_eq, ih, List.mem_cons, List.nodup_cons]
    constructor
    · rintro (h | ⟨y, hy, h⟩ | h)
      · left; exact ⟨x, Or.inl rfl, h⟩
      · rcases h with rfl | h
        · right; intro hn; exact hn.1 hy
        · left; exact ⟨y, Or.inr hy, h⟩
      · right; intro hn; exact h hn.2
    · rintro (⟨y, hy, h⟩ | h)
      · rcases hy with rfl | hy
        · left; exact h
        · right; left; exact ⟨y, hy, Or.inr h⟩
      · by_cases h1 : x ∈ rest
        · right; left; exact ⟨x, h1, Or.inl rfl⟩
        · right; right; intro hn; exact h ⟨h1, hn⟩

theorem dupStrB_iff (xs : List String) : dupStrB xs = true ↔ ¬ xs.Nodup := by
  unfold dupStrB
  rw [somePairB_iff]
  unfold SomePair List.Nodup
  simp

/-- **duplicate imports / duplicate symbols inside a file**: the map-based walk reports iff the
    list has a repeated entry -/
theorem dupStr_go_eq (xs : List String) : dupStrGo xs = dupStrB xs := by
  apply bool_eq_of_iff
  unfold dupStrGo
  rw [dupStrLoop_iff, dupStrB_iff]
  simp

end PCV.MiniProto
