/-
Lemmas for Props/C01 and C02: duplicate detection through Go maps, tag validity, and the naming
functions (JSON name, map entry name, synthetic oneof names).
-/
import PCV.Spec.MiniProto
namespace PCV.MiniProto
open PCV.MiniProto.Spec

/-! ## duplicate numbers -/

theorem mapGet_ne_empty (seen : List (Int × String)) (hs : ∀ x ∈ seen, x.2 ≠ "") (k : Int) :
    mapGet seen k ≠ "" ↔ k ∈ seen.map (·.1) := by
  induction seen with
  | nil => simp [mapGet]
  | cons x rest ih =>
    obtain ⟨k', v⟩ := x
    unfold mapGet
    have hv : v ≠ "" := hs (k', v) (List.mem_cons_self ..)
    have ih' := ih (fun y hy => hs y (List.mem_cons_of_mem _ hy))
    by_cases hk : k' = k
    · subst hk
      simp [hv]
    · have : (k' == k) = false := by simpa using hk
      simp only [this, Bool.false_eq_true, if_false, List.map_cons, List.mem_cons]
      rw [ih']
      constructor
      · intro h; right; exact h
      · rintro (h | h)
        · exact absurd h.symm hk
        · exact h

theorem dupNumberLoop_iff (xs : List (Int × String)) :
    ∀ (seen : List (Int × String)), (∀ x ∈ seen, x.2 ≠ "") → (∀ x ∈ xs, x.2 ≠ "") →
      (dupNumberLoop seen xs = true ↔ (∃ x ∈ xs, x.1 ∈ seen.map (·.1)) ∨ ¬ (xs.map (·.1)).Nodup) := by
  induction xs with
  | nil => intro seen _ _; simp [dupNumberLoop]
  | cons x rest ih =>
    intro seen hs hx
    obtain ⟨num, name⟩ := x
    unfold dupNumberLoop
    have hname : name ≠ "" := hx (num, name) (List.mem_cons_self ..)
    have ih' := ih ((num, name) :: seen)
      (fun y hy => by
        rcases List.mem_cons.mp hy with rfl | hy
        · exact hname
        · exact hs y hy)
      (fun y hy => hx y (List.mem_cons_of_mem _ hy))
    simp only [Bool.or_eq_true, bne_iff_ne]
    rw [ih', mapGet_ne_empty seen hs num]
    simp only [List.map_cons, List.mem_cons, List.nodup_cons, List.mem_map]
    constructor
    · rintro (h | ⟨y, hy, h⟩ | h)
      · left; exact ⟨(num, name), Or.inl rfl, h⟩
      · rcases h with h | h
        · right
          intro hn
          exact hn.1 ⟨y, hy, h⟩
        · left; exact ⟨y, Or.inr hy, h⟩
      · right; intro hn; exact h hn.2
    · rintro (⟨y, hy, h⟩ | h)
      · rcases hy with rfl | hy
        · left; exact h
        · right; left; exact ⟨y, hy, Or.inr h⟩
      · by_cases h1 : ∃ a ∈ rest, a.1 = num
        · obtain ⟨a, ha, h1⟩ := h1
          right; left; exact ⟨a, ha, Or.inl h1⟩
        · right; right
          intro hn
          exact h ⟨h1, hn⟩

/-- **duplicate field numbers / enum value numbers**: the map-based loop reports iff two entries
    share a number (names are non-empty identifiers) -/
theorem dupNumberGo_iff (xs : List (Int × String)) (hx : ∀ x ∈ xs, x.2 ≠ "") :
    dupNumberGo xs = true ↔ DupNumber xs := by
  unfold dupNumberGo DupNumber
  rw [dupNumberLoop_iff xs [] (by simp) hx]
  simp

/-- **enum aliases**: without `allow_alias` an error iff two values share a number; with it an
    error iff no two values share a number -/
theorem enumAlias_iff (allowAlias : Bool) (vals : List (Int × String)) (hx : ∀ x ∈ vals, x.2 ≠ "") :
    ((enumAliasGo allowAlias vals).1 = true ↔ (allowAlias = false ∧ DupNumber vals)) ∧
    ((enumAliasGo allowAlias vals).2 = true ↔ (allowAlias = true ∧ ¬ DupNumber vals)) := by
  unfold enumAliasGo
  have := dupNumberGo_iff vals hx
  cases allowAlias <;> cases h : dupNumberGo vals <;> simp_all

/-- **tag validity**: `checkTag` accepts exactly 1 … max outside 19000 … 19999 -/
theorem checkTag_iff (v maxTag : Nat) : checkTag v maxTag = none ↔ TagValid v maxTag := by
  unfold checkTag TagValid firstReserved lastReserved
  by_cases h1 : v < 1
  · simp [h1]; omega
  · by_cases h2 : v > maxTag
    · simp [h1, h2]; omega
    · by_cases h3 : 19000 ≤ v ∧ v ≤ 19999
      · simp [h1, h2, h3]
      · simp only [h1, h2, if_false]
        have : (decide (v ≥ 19000) && decide (v ≤ 19999)) = false := by
          simp only [Bool.and_eq_false_iff, decide_eq_false_iff_not]; omega
        simp only [this, Bool.false_eq_true, if_false, true_iff]
        omega

/-! ## JSON name and map entry name -/

theorem splitUnderscore_ne_nil (s : List Char) : splitUnderscore s ≠ [] := by
  induction s with
  | nil => simp [splitUnderscore]
  | cons c rest ih =>
    unfold splitUnderscore
    split
    · simp
    · split <;> simp

theorem convertWord_false (w : List Char) : convertWord false false w = w := by
  cases w with
  | nil => rfl
  | cons c rest => simp [convertWord]

theorem convertWord_cap (c : Char) (w : List Char) : convertWord true false (c :: w) = upperAscii c :: w := by
  simp [convertWord]

/-- both capitalisation modes of protoc's loop in terms of the `_`-separated words -/
theorem protocJsonLoop_split (s : List Char) :
    ∀ w ws, splitUnderscore s = w :: ws →
      protocJsonLoop false s = w ++ (ws.map (convertWord true false)).flatten ∧
      protocJsonLoop true s = convertWord true false w ++ (ws.map (convertWord true false)).flatten := by
  induction s with
  | nil =>
    intro w ws h
    simp only [splitUnderscore, List.cons.injEq] at h
    obtain ⟨rfl, rfl⟩ := h
    simp [protocJsonLoop, convertWord]
  | cons c rest ih =>
    intro w ws h
    unfold splitUnderscore at h
    cases hr : splitUnderscore rest with
    | nil => exact absurd hr (splitUnderscore_ne_nil rest)
    | cons w' ws' =>
      rw [hr] at h
      simp only at h
      have ih' := ih w' ws' hr
      by_cases hc : c = '_'
      · subst hc
        simp only [beq_self_eq_true, if_true, List.cons.injEq] at h
        obtain ⟨rfl, rfl⟩ := h
        simp only [protocJsonLoop, beq_self_eq_true, if_true, List.nil_append, List.map_cons, List.flatten_cons]
        exact ⟨ih'.2, by simpa [convertWord] using ih'.2⟩
      · have hc' : (c == '_') = false := by simpa using hc
        simp only [hc', Bool.false_eq_true, if_false, List.cons.injEq] at h
        obtain ⟨rfl, rfl⟩ := h
        simp only [protocJsonLoop, hc', Bool.false_eq_true, if_false, if_true]
        refine ⟨by rw [ih'.1]; simp, ?_⟩
        rw [ih'.1, convertWord_cap]
        simp

/-- **default JSON name** = protoc `ToJsonName`, for every byte string -/
theorem jsonName_spec (s : List Char) : jsonNameChars s = protocJsonName s := by
  unfold jsonNameChars convertCase protocJsonName
  cases h : splitUnderscore s with
  | nil => exact absurd h (splitUnderscore_ne_nil s)
  | cons w ws =>
    simp only
    rw [(protocJsonLoop_split s w ws h).1, convertWord_false]

/-- **map entry name** = protoc `MapEntryName`, for every byte string -/
theorem mapEntryName_spec (s : List Char) : mapEntryNameChars s = protocMapEntryName s := by
  unfold mapEntryNameChars convertCase protocMapEntryName
  cases h : splitUnderscore s with
  | nil => exact absurd h (splitUnderscore_ne_nil s)
  | cons w ws =>
    simp only
    rw [(protocJsonLoop_split s w ws h).2]

/-! ## synthetic oneof names -/

theorem filter_length_mono {α : Type} (p q : α → Bool) (l : List α) (h : ∀ a, p a = true → q a = true) :
    (l.filter p).length ≤ (l.filter q).length := by
  induction l with
  | nil => simp
  | cons x xs ih =>
    simp only [List.filter_cons]
    by_cases hp : p x = true
    · simp [hp, h x hp]; omega
    · by_cases hq : q x = true
      · simp [hp, hq]; omega
      · simp [hp, hq]; omega

/-- how many taken names are at least as long as the candidate: the loop's variant -/
def longer (names : List String) (n : String) : Nat := (names.filter (fun x => decide (n.length ≤ x.length))).length

theorem longer_le (names : List String) (n : String) : longer names n ≤ names.length := by
  unfold longer; exact List.length_filter_le _ _

theorem length_X (n : String) : ("X" ++ n).length = n.length + 1 := by
  rw [String.length_append]; simp [String.length]; omega

theorem longer_step (names : List String) (n : String) (h : n ∈ names) :
    longer names ("X" ++ n) < longer names n := by
  unfold longer
  induction names with
  | nil => exact absurd h (by simp)
  | cons x rest ih =>
    rw [length_X] at ih ⊢
    simp only [List.filter_cons]
    rcases List.mem_cons.mp h with rfl | h'
    · have h1 : decide (n.length + 1 ≤ n.length) = false := by simp
      have h2 : decide (n.length ≤ n.length) = true := by simp
      simp only [h1, h2, Bool.false_eq_true, if_false, if_true, List.length_cons]
      have : (rest.filter (fun x => decide (n.length + 1 ≤ x.length))).length ≤
          (rest.filter (fun x => decide (n.length ≤ x.length))).length := by
        apply filter_length_mono
        intro a ha
        simp only [decide_eq_true_eq] at ha ⊢
        omega
      omega
    · have ih' := ih h'
      by_cases hx : n.length + 1 ≤ x.length
      · have hx' : n.length ≤ x.length := by omega
        simp only [hx, hx', decide_true, if_true, List.length_cons]
        omega
      · by_cases hx' : n.length ≤ x.length
        · simp only [hx, hx', decide_true, decide_false, Bool.false_eq_true, if_true, if_false, List.length_cons]
          omega
        · simp only [hx, hx', decide_false, Bool.false_eq_true, if_false]
          exact ih'

/-- the `X`-prefix loop terminates within its fuel and returns a name that is not taken -/
theorem freshLoop_not_mem (names : List String) :
    ∀ (fuel : Nat) (n : String), longer names n < fuel → freshLoop names fuel n ∉ names := by
  intro fuel
  induction fuel with
  | zero => intro n h; omega
  | succ fuel ih =>
    intro n h
    unfold freshLoop
    by_cases hn : n ∈ names
    · have : names.contains n = true := by simpa using hn
      simp only [this, if_true]
      apply ih
      have := longer_step names n hn
      omega
    · have : names.contains n = false := by simpa using hn
      simp only [this, Bool.false_eq_true, if_false]
      exact hn

theorem synthOneofName_fresh (taken : List String) (f : String) : synthOneofName taken f ∉ taken := by
  unfold synthOneofName
  apply freshLoop_not_mem
  have := longer_le taken (synthBase f)
  omega

/-- **synthetic oneofs of proto3 `optional` fields**: one name per field, none of them equal to a
    name that was taken (every field and oneof — and in the Go code also every nested type, enum,
    enum value and extension — of the message), and pairwise different -/
theorem synthOneof_fresh (fs : List String) : ∀ (taken : List String),
    (synthOneofNames taken fs).length = fs.length ∧
    (∀ n ∈ synthOneofNames taken fs, n ∉ taken) ∧
    (synthOneofNames taken fs).Nodup := by
  induction fs with
  | nil => intro taken; simp [synthOneofNames]
  | cons f rest ih =>
    intro taken
    unfold synthOneofNames
    have h0 := synthOneofName_fresh taken f
    have ih' := ih (synthOneofName taken f :: taken)
    simp only [List.length_cons, List.mem_cons, List.nodup_cons]
    refine ⟨by omega, ?_, ?_, ih'.2.2⟩
    · rintro n (rfl | hn)
      · exact h0
      · intro hmem
        exact ih'.2.1 n hn (List.mem_cons_of_mem _ hmem)
    · intro hmem
      exact ih'.2.1 _ hmem (List.mem_cons_self ..)

end PCV.MiniProto
