/-
Helper lemmas for C40, part 2: one `Insert` on ANY value representation satisfying `SimOps`
simulates the list-valued `Insert`, provided no `append(orig, value)` disturbs a value that is
still in use (`wr`); Go slices over a heap satisfy `SimOps`, where "disturbs" means: writes in
place (spare capacity) into a backing array on which the other slice is at least as long.
-/
import PCV.Lemmas.Interval
namespace PCV.Interval

/-- What a value representation must satisfy for the loop to simulate the list-valued loop. -/
structure SimOps {H S : Type} (ops : Ops H S) where
  valid : H → S → Prop
  rd : H → S → List Int
  /-- `wr s s'`: `append(s, v)` leaves the contents of `s'` alone -/
  wr : S → S → Prop
  /-- `keep y s`: `append(y, _)` will leave the RESULT of `append(s, _)` alone -/
  keep : S → S → Prop
  wr_self : ∀ h s, valid h s → wr s s
  single_frame : ∀ h v s', valid h s' →
    valid (ops.single h v).1 s' ∧ rd (ops.single h v).1 s' = rd h s'
  single_ok : ∀ h v, valid (ops.single h v).1 (ops.single h v).2 ∧
    rd (ops.single h v).1 (ops.single h v).2 = [v]
  single_fresh : ∀ h v y, valid h y → wr y (ops.single h v).2
  appClip_frame : ∀ h s v s', valid h s → valid h s' →
    valid (ops.appClip h s v).1 s' ∧ rd (ops.appClip h s v).1 s' = rd h s'
  app_frame : ∀ h s v s', valid h s → valid h s' → wr s s' →
    valid (ops.app h s v).1 s' ∧ rd (ops.app h s v).1 s' = rd h s'
  app_ok : ∀ h s v, valid h s → valid (ops.app h s v).1 (ops.app h s v).2 ∧
    rd (ops.app h s v).1 (ops.app h s v).2 = rd h s ++ [v]
  app_keep : ∀ h s v y, valid h s → valid h y → keep y s → wr y (ops.app h s v).2

variable {H S : Type} {ops : Ops H S}

/-- abstraction of an entry under heap `h` -/
def SimOps.ab (sim : SimOps ops) (h : H) (e : Entry S) : E := ⟨e.start, e.stop, sim.rd h e.val⟩

/-- going from `h` to `h'` preserves every valid value satisfying `P` -/
def SimOps.Pres (sim : SimOps ops) (P : S → Prop) (h h' : H) : Prop :=
  ∀ s', sim.valid h s' → P s' → sim.valid h' s' ∧ sim.rd h' s' = sim.rd h s'

theorem SimOps.Pres.refl (sim : SimOps ops) (P : S → Prop) (h : H) : sim.Pres P h h :=
  fun _ hv _ => ⟨hv, rfl⟩

theorem SimOps.Pres.trans (sim : SimOps ops) {P : S → Prop} {h1 h2 h3 : H}
    (a : sim.Pres P h1 h2) (b : sim.Pres P h2 h3) : sim.Pres P h1 h3 := by
  intro s hv hp
  obtain ⟨a1, a2⟩ := a s hv hp
  obtain ⟨b1, b2⟩ := b s a1 hp
  exact ⟨b1, b2.trans a2⟩

theorem SimOps.Pres.mono (sim : SimOps ops) {P Q : S → Prop} {h1 h2 : H}
    (a : sim.Pres P h1 h2) (hq : ∀ s, Q s → P s) : sim.Pres Q h1 h2 :=
  fun s hv hp => a s hv (hq s hp)

theorem SimOps.ab_pres (sim : SimOps ops) {P : S → Prop} {h h' : H} (hl : sim.Pres P h h')
    (es : List (Entry S)) (hv : ∀ e ∈ es, sim.valid h e.val ∧ P e.val) :
    (∀ e ∈ es, sim.valid h' e.val) ∧ es.map (sim.ab h') = es.map (sim.ab h) := by
  refine ⟨fun e he => (hl e.val (hv e he).1 (hv e he).2).1, ?_⟩
  apply List.map_congr_left
  intro e he
  simp only [SimOps.ab, (hl e.val (hv e he).1 (hv e he).2).2]

def All : S → Prop := fun _ => True

theorem condGap_ok (sim : SimOps ops) (c : Prop) [Decidable c] (h : H) (lo hi v : Int) :
    sim.Pres All h (if c then mkGap ops h lo hi v else (h, [])).1 ∧
    (∀ e ∈ (if c then mkGap ops h lo hi v else (h, [])).2,
        sim.valid (if c then mkGap ops h lo hi v else (h, [])).1 e.val) ∧
    (if c then mkGap ops h lo hi v else (h, [])).2.map
        (sim.ab (if c then mkGap ops h lo hi v else (h, [])).1) =
      (if c then [⟨lo, hi, [v]⟩] else []) ∧
    (∀ y, sim.valid h y → ∀ e ∈ (if c then mkGap ops h lo hi v else (h, [])).2, sim.wr y e.val) := by
  by_cases hc : c
  · obtain ⟨h2, h3⟩ := sim.single_ok h v
    simp only [hc, if_true, mkGap, List.mem_singleton, forall_eq, List.map_cons, List.map_nil,
      SimOps.ab, h3]
    exact ⟨fun s hv _ => sim.single_frame h v s hv, h2, trivial, fun y hy => sim.single_fresh h v y hy⟩
  · simp only [hc, if_false, List.not_mem_nil, false_imp_iff, implies_true, List.map_nil, and_true]
    exact SimOps.Pres.refl sim _ h

/-- explicit form of the list-valued loop body -/
theorem bodyA_form (fixGap : Bool) (a b v : Int) (y : E) (pendA : List E) (prev : Option Int) :
    body listOps fixGap a b v y ⟨(), pendA, prev⟩ =
      let sE : Bool := decide (y.start ≤ b) && decide (b ≤ y.stop) && decide (b < y.stop)
      let curStop : Int := if sE = true then b else y.stop
      let sS : Bool := decide (y.start ≤ a) && decide (a ≤ curStop) && decide (y.start < a)
      let curStart : Int := if sS = true then a else y.start
      let cur : E := ⟨curStart, curStop, y.val ++ [v]⟩
      ((if sE = true then ⟨b + 1, y.stop, y.val⟩ else cur),
       ⟨(), pendA ++ (if (prev.isNone && decide (a < y.start)) = true then [⟨a, y.start - 1, [v]⟩] else [])
          ++ (if sE = true then [cur] else [])
          ++ (if sS = true then [⟨y.start, a - 1, y.val⟩] else [])
          ++ (gap3 listOps fixGap prev () curStart v).2,
        some curStop⟩) := by
  simp only [body, mkGap]
  cases prev with
  | none => simp [listOps, apply_ite Prod.snd]
  | some pe => simp [listOps]

theorem gap3_ok (sim : SimOps ops) (fixGap : Bool) (prev : Option Int) (h : H) (cs v : Int) :
    sim.Pres All h (gap3 ops fixGap prev h cs v).1 ∧
    (∀ e ∈ (gap3 ops fixGap prev h cs v).2, sim.valid (gap3 ops fixGap prev h cs v).1 e.val) ∧
    (gap3 ops fixGap prev h cs v).2.map (sim.ab (gap3 ops fixGap prev h cs v).1) =
      (gap3 listOps fixGap prev () cs v).2 ∧
    (∀ y, sim.valid h y → ∀ e ∈ (gap3 ops fixGap prev h cs v).2, sim.wr y e.val) := by
  cases prev with
  | none =>
    simp only [gap3, List.not_mem_nil, false_imp_iff, implies_true, List.map_nil, and_true]
    exact SimOps.Pres.refl sim _ h
  | some pe =>
    have := condGap_ok sim (if fixGap = true then pe + 1 < cs else pe < cs) h (pe + 1) (cs - 1) v
    have e : (gap3 listOps fixGap (some pe) () cs v).2 =
        (if (if fixGap = true then pe + 1 < cs else pe < cs) then [⟨pe + 1, cs - 1, [v]⟩] else []) := by
      simp only [gap3, mkGap, listOps, apply_ite Prod.snd]
    rw [e]; exact this

/-- One loop iteration on any value representation simulates the list-valued iteration, as long
    as the pending values are safe from `append(x.val, v)`; the new values are safe from every
    later writer `y` that `x.val` and its successor are safe from. -/
theorem body_sim (sim : SimOps ops) (fixGap : Bool) (a b v : Int) (x : Entry S) (st : LoopSt H S)
    (hvx : sim.valid st.heap x.val)
    (hvp : ∀ e ∈ st.pend, sim.valid st.heap e.val ∧ sim.wr x.val e.val) :
    sim.Pres (sim.wr x.val) st.heap (body ops fixGap a b v x st).2.heap ∧
    sim.valid (body ops fixGap a b v x st).2.heap (body ops fixGap a b v x st).1.val ∧
    (∀ e ∈ (body ops fixGap a b v x st).2.pend, sim.valid (body ops fixGap a b v x st).2.heap e.val) ∧
    sim.ab (body ops fixGap a b v x st).2.heap (body ops fixGap a b v x st).1 =
      (body listOps fixGap a b v (sim.ab st.heap x) ⟨(), st.pend.map (sim.ab st.heap), st.prev⟩).1 ∧
    (body ops fixGap a b v x st).2.pend.map (sim.ab (body ops fixGap a b v x st).2.heap) =
      (body listOps fixGap a b v (sim.ab st.heap x) ⟨(), st.pend.map (sim.ab st.heap), st.prev⟩).2.pend ∧
    (body ops fixGap a b v x st).2.prev =
      (body listOps fixGap a b v (sim.ab st.heap x) ⟨(), st.pend.map (sim.ab st.heap), st.prev⟩).2.prev ∧
    (∀ y, sim.valid st.heap y → sim.wr x.val y → sim.wr y x.val → sim.keep y x.val →
      (∀ e ∈ st.pend, sim.wr y e.val) →
      sim.wr y (body ops fixGap a b v x st).1.val ∧
      ∀ e ∈ (body ops fixGap a b v x st).2.pend, sim.wr y e.val) := by
  rw [bodyA_form]
  unfold body
  extract_lets g0 orig sE h1 curStop sS next2 curStart r2 cur g3 treeEntry pend sEA curStopA sSA curStartA curA
  have hself := sim.wr_self st.heap x.val hvx
  -- the heaps, in allocation order
  obtain ⟨g0p, g0v, g0m, g0w⟩ : sim.Pres All st.heap g0.1 ∧ (∀ e ∈ g0.2, sim.valid g0.1 e.val) ∧
      g0.2.map (sim.ab g0.1) =
        (if (st.prev.isNone && decide (a < x.start)) = true then [⟨a, x.start - 1, [v]⟩] else []) ∧
      (∀ y, sim.valid st.heap y → ∀ e ∈ g0.2, sim.wr y e.val) :=
    condGap_ok sim _ st.heap a (x.start - 1) v
  have vx0 := g0p x.val hvx trivial
  have h1p : sim.Pres All g0.1 h1 := by
    show sim.Pres All g0.1 (if sE = true then _ else _)
    cases sE
    · exact SimOps.Pres.refl sim _ _
    · exact fun s hv _ => sim.appClip_frame _ _ _ s vx0.1 hv
  have vx1 := h1p x.val vx0.1 trivial
  have r2p : sim.Pres (sim.wr x.val) h1 r2.1 := fun s hv hw => sim.app_frame h1 orig v s vx1.1 hv hw
  obtain ⟨r2v, r2rd⟩ : sim.valid r2.1 r2.2 ∧ sim.rd r2.1 r2.2 = sim.rd h1 orig ++ [v] :=
    sim.app_ok h1 orig v vx1.1
  obtain ⟨g3p, g3v, g3m, g3w⟩ := gap3_ok sim fixGap st.prev r2.1 curStart v
  change sim.Pres All r2.1 g3.1 at g3p
  change ∀ e ∈ g3.2, sim.valid g3.1 e.val at g3v
  change g3.2.map (sim.ab g3.1) = _ at g3m
  change ∀ y, sim.valid r2.1 y → ∀ e ∈ g3.2, sim.wr y e.val at g3w
  have allw : ∀ s, sim.wr x.val s → All s := fun _ _ => trivial
  have p01 : sim.Pres (sim.wr x.val) st.heap h1 := ((g0p.trans sim h1p).mono sim allw)
  have p02 : sim.Pres (sim.wr x.val) st.heap r2.1 := p01.trans sim r2p
  have le0 : sim.Pres (sim.wr x.val) st.heap g3.1 := p02.trans sim (g3p.mono sim allw)
  have le1 : sim.Pres (sim.wr x.val) g0.1 g3.1 :=
    ((h1p.mono sim allw).trans sim r2p).trans sim (g3p.mono sim allw)
  have vxf := le0 x.val hvx hself
  have vrf := g3p r2.2 r2v trivial
  have rdcur : sim.rd g3.1 r2.2 = sim.rd st.heap x.val ++ [v] := by
    rw [vrf.2, r2rd, vx1.2, vx0.2]
  have hpend := sim.ab_pres le0 st.pend hvp
  have hg0 := sim.ab_pres le1 g0.2 (fun e he => ⟨g0v e he, g0w x.val hvx e he⟩)
  have curEq : sim.ab g3.1 cur = curA := by
    show (⟨curStart, curStop, sim.rd g3.1 r2.2⟩ : E) = ⟨curStartA, curStopA, (sim.ab st.heap x).val ++ [v]⟩
    rw [rdcur]; rfl
  refine ⟨le0, ?_, ?_, ?_, ?_, rfl, ?_⟩
  · show sim.valid g3.1 (if sE = true then (⟨b + 1, x.stop, orig⟩ : Entry S) else cur).val
    cases sE
    · exact vrf.1
    · exact vxf.1
  · intro e he
    show sim.valid g3.1 e.val
    have he' : e ∈ (st.pend ++ g0.2 ++ if sE = true then [cur] else []) ++ next2 ++ g3.2 := he
    simp only [List.mem_append] at he'
    rcases he' with (((he' | he') | he') | he') | he'
    · exact hpend.1 e he'
    · exact hg0.1 e he'
    · rcases Bool.eq_false_or_eq_true sE with hs | hs
      · rw [hs] at he'; simp at he'; subst he'; exact vrf.1
      · rw [hs] at he'; simp at he'
    · have : e ∈ (if sS = true then [(⟨x.start, a - 1, orig⟩ : Entry S)] else []) := he'
      rcases Bool.eq_false_or_eq_true sS with hs | hs
      · rw [hs] at this; simp at this; subst this; exact vxf.1
      · rw [hs] at this; simp at this
    · exact g3v e he'
  · show sim.ab g3.1 (if sE = true then (⟨b + 1, x.stop, orig⟩ : Entry S) else cur) = if sEA = true then _ else curA
    have : sEA = sE := rfl
    rw [this]
    cases sE
    · exact curEq
    · show (⟨b + 1, x.stop, sim.rd g3.1 x.val⟩ : E) = _
      rw [vxf.2]; rfl
  · show ((st.pend ++ g0.2 ++ if sE = true then [cur] else []) ++ next2 ++ g3.2).map (sim.ab g3.1) = _
    simp only [List.map_append, hpend.2, hg0.2, g0m, g3m]
    have e1 : sEA = sE := rfl
    have e2 : sSA = sS := rfl
    have e3 : curStartA = curStart := rfl
    rw [e1, e2, e3]
    congr 1
    congr 1
    · congr 1
      cases sE
      · rfl
      · simp [curEq]
    · show (if sS = true then [(⟨x.start, a - 1, orig⟩ : Entry S)] else []).map (sim.ab g3.1) = _
      cases sS
      · rfl
      · simp [SimOps.ab]; exact vxf.2
  · -- the new values are safe from a later writer `y`
    intro y hy hxy hyx hkeep hyp
    have vy1 := p01 y hy hxy
    have vy2 := p02 y hy hxy
    have wcur : sim.wr y r2.2 := sim.app_keep h1 orig v y vx1.1 vy1.1 hkeep
    refine ⟨?_, ?_⟩
    · show sim.wr y (if sE = true then (⟨b + 1, x.stop, orig⟩ : Entry S) else cur).val
      cases sE
      · exact wcur
      · exact hyx
    · intro e he
      have he' : e ∈ (st.pend ++ g0.2 ++ if sE = true then [cur] else []) ++ next2 ++ g3.2 := he
      simp only [List.mem_append] at he'
      rcases he' with (((he' | he') | he') | he') | he'
      · exact hyp e he'
      · exact g0w y hy e he'
      · rcases Bool.eq_false_or_eq_true sE with hs | hs
        · rw [hs] at he'; simp at he'; subst he'; exact wcur
        · rw [hs] at he'; simp at he'
      · have : e ∈ (if sS = true then [(⟨x.start, a - 1, orig⟩ : Entry S)] else []) := he'
        rcases Bool.eq_false_or_eq_true sS with hs | hs
        · rw [hs] at this; simp at this; subst this; exact hyx
        · rw [hs] at this; simp at this
      · exact g3w y vy2.1 e he'

/-- the condition on two tree entries, `x` before `y`, both seen by the loop -/
def LoopSafe (sim : SimOps ops) (b : Int) (x y : Entry S) : Prop :=
  (x.start ≤ b → sim.wr x.val y.val) ∧ (y.start ≤ b → sim.wr y.val x.val ∧ sim.keep y.val x.val)

theorem loop_sim (sim : SimOps ops) (fixGap : Bool) (a b v : Int) :
    ∀ (xs : List (Entry S)) (st : LoopSt H S),
    (∀ x ∈ xs, sim.valid st.heap x.val) → xs.Pairwise (LoopSafe sim b) →
    (∀ e ∈ st.pend, sim.valid st.heap e.val ∧ ∀ x ∈ xs, x.start ≤ b → sim.wr x.val e.val) →
    (∀ s', sim.valid st.heap s' → (∀ x ∈ xs, x.start ≤ b → sim.wr x.val s') →
      sim.valid (loop ops fixGap a b v xs st).2.heap s' ∧
      sim.rd (loop ops fixGap a b v xs st).2.heap s' = sim.rd st.heap s') ∧
    (∀ e ∈ (loop ops fixGap a b v xs st).1, sim.valid (loop ops fixGap a b v xs st).2.heap e.val) ∧
    (∀ e ∈ (loop ops fixGap a b v xs st).2.pend, sim.valid (loop ops fixGap a b v xs st).2.heap e.val) ∧
    (loop ops fixGap a b v xs st).1.map (sim.ab (loop ops fixGap a b v xs st).2.heap) =
      (loop listOps fixGap a b v (xs.map (sim.ab st.heap)) ⟨(), st.pend.map (sim.ab st.heap), st.prev⟩).1 ∧
    (loop ops fixGap a b v xs st).2.pend.map (sim.ab (loop ops fixGap a b v xs st).2.heap) =
      (loop listOps fixGap a b v (xs.map (sim.ab st.heap)) ⟨(), st.pend.map (sim.ab st.heap), st.prev⟩).2.pend ∧
    (loop ops fixGap a b v xs st).2.prev =
      (loop listOps fixGap a b v (xs.map (sim.ab st.heap)) ⟨(), st.pend.map (sim.ab st.heap), st.prev⟩).2.prev
  | [], st, _, _, hvp => by
    simp only [loop, List.map_nil]
    refine ⟨fun s hv _ => ⟨hv, trivial⟩, by simp, fun e he => (hvp e he).1, ?_, ?_, ?_⟩ <;> first | rfl | trivial
  | x :: xs, st, hvx, hpair, hvp => by
    simp only [loop, List.map_cons]
    have hst : (sim.ab st.heap x).start = x.start := rfl
    rw [hst]
    split
    · next hb =>
      exact ⟨fun s hv _ => ⟨hv, rfl⟩, hvx, fun e he => (hvp e he).1, rfl, rfl, rfl⟩
    · next hb =>
      have hxb : x.start ≤ b := by omega
      have hp := List.pairwise_cons.mp hpair
      obtain ⟨b1, b2, b3, b4, b5, b6, b7⟩ := body_sim sim fixGap a b v x st (hvx x List.mem_cons_self)
        (fun e he => ⟨(hvp e he).1, (hvp e he).2 x List.mem_cons_self hxb⟩)
      have hxs := sim.ab_pres b1 xs
        (fun e he => ⟨hvx e (List.mem_cons_of_mem _ he), (hp.1 e he).1 hxb⟩)
      -- every later writer leaves the new values alone
      have hw : ∀ y ∈ xs, y.start ≤ b →
          sim.wr y.val (body ops fixGap a b v x st).1.val ∧
          ∀ e ∈ (body ops fixGap a b v x st).2.pend, sim.wr y.val e.val := by
        intro y hy hyb
        exact b7 y.val (hvx y (List.mem_cons_of_mem _ hy)) ((hp.1 y hy).1 hxb) ((hp.1 y hy).2 hyb).1
          ((hp.1 y hy).2 hyb).2 (fun e he => (hvp e he).2 y (List.mem_cons_of_mem _ hy) hyb)
      obtain ⟨c1, c2, c3, c4, c5, c6⟩ := loop_sim sim fixGap a b v xs (body ops fixGap a b v x st).2 hxs.1
        hp.2 (fun e he => ⟨b3 e he, fun y hy hyb => (hw y hy hyb).2 e he⟩)
      rw [hxs.2, b5, b6] at c4 c5 c6
      have hfr := c1 _ b2 (fun y hy hyb => (hw y hy hyb).1)
      refine ⟨?_, ?_, c3, ?_, c5, c6⟩
      · intro s hv hws
        obtain ⟨d1, d2⟩ := b1 s hv (hws x List.mem_cons_self hxb)
        obtain ⟨d3, d4⟩ := c1 s d1 (fun y hy hyb => hws y (List.mem_cons_of_mem _ hy) hyb)
        exact ⟨d3, d4.trans d2⟩
      · intro e he
        rcases List.mem_cons.mp he with rfl | he
        · exact hfr.1
        · exact c2 e he
      · simp only [List.map_cons]
        rw [c4]
        congr 1
        rw [← b4]
        simp only [SimOps.ab, hfr.2]

theorem treeSet_map {S S' : Type} (f : Entry S → Entry S') (hf : ∀ e, (f e).stop = e.stop) :
    ∀ (t : List (Entry S)) (n : Entry S), (treeSet t n).map f = treeSet (t.map f) (f n)
  | [], n => rfl
  | x :: xs, n => by
    simp only [treeSet, List.map_cons, hf]
    split
    · rfl
    · split
      · rfl
      · simp only [List.map_cons, treeSet_map f hf xs n]

theorem foldl_treeSet_map {S S' : Type} (f : Entry S → Entry S') (hf : ∀ e, (f e).stop = e.stop) :
    ∀ (P t : List (Entry S)), (P.foldl treeSet t).map f = (P.map f).foldl treeSet (t.map f)
  | [], t => rfl
  | n :: P, t => by
    simp only [List.foldl_cons, List.map_cons]
    rw [foldl_treeSet_map f hf P, treeSet_map f hf]

theorem takeWhile_map_stop {S S' : Type} (f : Entry S → Entry S') (hf : ∀ e, (f e).stop = e.stop) (a : Int) :
    ∀ (t : List (Entry S)), (t.map f).takeWhile (fun x => decide (x.stop < a)) =
      (t.takeWhile (fun x => decide (x.stop < a))).map f
  | [] => rfl
  | x :: xs => by
    simp only [List.map_cons, List.takeWhile_cons, hf]
    split
    · simp only [List.map_cons, takeWhile_map_stop f hf a xs]
    · rfl

theorem dropWhile_map_stop {S S' : Type} (f : Entry S → Entry S') (hf : ∀ e, (f e).stop = e.stop) (a : Int) :
    ∀ (t : List (Entry S)), (t.map f).dropWhile (fun x => decide (x.stop < a)) =
      (t.dropWhile (fun x => decide (x.stop < a))).map f
  | [] => rfl
  | x :: xs => by
    simp only [List.map_cons, List.dropWhile_cons, hf]
    split
    · exact dropWhile_map_stop f hf a xs
    · rfl

theorem finalGap_ok (sim : SimOps ops) (h : H) (a b v : Int) (prev : Option Int) :
    sim.Pres All h (finalGap ops h a b v prev).1 ∧
    (∀ e ∈ (finalGap ops h a b v prev).2, sim.valid (finalGap ops h a b v prev).1 e.val) ∧
    (finalGap ops h a b v prev).2.map (sim.ab (finalGap ops h a b v prev).1) =
      (finalGap listOps () a b v prev).2 := by
  cases prev with
  | none =>
    have := condGap_ok sim True h a b v
    simp only [if_true] at this
    exact ⟨this.1, this.2.1, this.2.2.1⟩
  | some pe =>
    have := condGap_ok sim (pe < b) h (pe + 1) b v
    have e : (finalGap listOps () a b v (some pe)).2 = (if pe < b then [⟨pe + 1, b, [v]⟩] else []) := by
      simp only [finalGap, mkGap, listOps, apply_ite Prod.snd]
    rw [e]; exact ⟨this.1, this.2.1, this.2.2.1⟩

theorem mem_foldl_treeSet {S : Type} : ∀ (P t1 : List (Entry S)) (e : Entry S),
    e ∈ P.foldl treeSet t1 → e ∈ t1 ∨ e ∈ P
  | [], t1, e, he => Or.inl he
  | n :: P, t1, e, he => by
    rcases mem_foldl_treeSet P (treeSet t1 n) e he with h1 | h1
    · have : ∀ (t1 : List (Entry S)) (e : Entry S), e ∈ treeSet t1 n → e = n ∨ e ∈ t1 := by
        intro t1
        induction t1 with
        | nil => intro e he; simpa [treeSet] using he
        | cons y ys ih2 =>
          intro e he
          simp only [treeSet] at he
          split at he
          · rcases List.mem_cons.mp he with rfl | he
            · exact Or.inl rfl
            · exact Or.inr he
          · split at he
            · rcases List.mem_cons.mp he with rfl | he
              · exact Or.inl rfl
              · exact Or.inr (List.mem_cons_of_mem _ he)
            · rcases List.mem_cons.mp he with rfl | he
              · exact Or.inr List.mem_cons_self
              · rcases ih2 e he with h2 | h2
                · exact Or.inl h2
                · exact Or.inr (List.mem_cons_of_mem _ h2)
      rcases this t1 e h1 with rfl | h2
      · exact Or.inr List.mem_cons_self
      · exact Or.inl h2
    · exact Or.inr (List.mem_cons_of_mem _ h1)

/-- the condition on two tree entries, `x` before `y`: whichever of them meets `[a, b]` (and is
    therefore appended to) leaves the other alone -/
def InsertSafe (sim : SimOps ops) (a b : Int) (x y : Entry S) : Prop :=
  (a ≤ x.stop → x.start ≤ b → sim.wr x.val y.val) ∧
  (a ≤ y.stop → y.start ≤ b → sim.wr y.val x.val ∧ sim.keep y.val x.val)

/-- **One `Insert` on any value representation simulates the list-valued `Insert`.** -/
theorem insert_sim (sim : SimOps ops) (fixGap : Bool) (t : List (Entry S)) (h : H) (a b v : Int)
    (hks : KeySorted t) (hv : ∀ x ∈ t, sim.valid h x.val) (hsafe : t.Pairwise (InsertSafe sim a b)) :
    (∀ e ∈ (insertG ops fixGap t h a b v).1, sim.valid (insertG ops fixGap t h a b v).2.1 e.val) ∧
    (insertG ops fixGap t h a b v).1.map (sim.ab (insertG ops fixGap t h a b v).2.1) =
      (insertG listOps fixGap (t.map (sim.ab h)) () a b v).1 ∧
    (insertG ops fixGap t h a b v).2.2 = (insertG listOps fixGap (t.map (sim.ab h)) () a b v).2.2 := by
  have hf : ∀ (h' : H) (e : Entry S), (sim.ab h' e).stop = e.stop := fun _ _ => rfl
  simp only [insertG]
  rw [takeWhile_map_stop _ (hf h), dropWhile_map_stop _ (hf h)]
  have hsplit : t.takeWhile (fun x => decide (x.stop < a)) ++ t.dropWhile (fun x => decide (x.stop < a)) = t :=
    List.takeWhile_append_dropWhile
  have hge := dropWhile_stop_ge a t hks
  generalize t.takeWhile (fun x => decide (x.stop < a)) = pre at hsplit
  generalize hsuf : t.dropWhile (fun x => decide (x.stop < a)) = suf at hsplit hge
  subst hsplit
  have hvpre : ∀ x ∈ pre, sim.valid h x.val := fun x hx => hv x (List.mem_append_left _ hx)
  have hvsuf : ∀ x ∈ suf, sim.valid h x.val := fun x hx => hv x (List.mem_append_right _ hx)
  have hsp := List.pairwise_append.mp hsafe
  have hpair : suf.Pairwise (LoopSafe sim b) :=
    hsp.2.1.imp_of_mem (fun {x y} hx hy hxy =>
      ⟨fun hb => hxy.1 (hge x hx) hb, fun hb => hxy.2 (hge y hy) hb⟩)
  obtain ⟨c1, c2, c3, c4, c5, c6⟩ := loop_sim sim fixGap a b v suf ⟨h, [], none⟩ hvsuf hpair (by simp)
  simp only [List.map_nil] at c4 c5 c6
  obtain ⟨d1, d2, d3⟩ := finalGap_ok sim (loop ops fixGap a b v suf ⟨h, [], none⟩).2.heap a b v
    (loop ops fixGap a b v suf ⟨h, [], none⟩).2.prev
  -- the skipped entries survive every write of the loop
  have fpre0 : ∀ p ∈ pre, sim.valid (loop ops fixGap a b v suf ⟨h, [], none⟩).2.heap p.val ∧
      sim.rd (loop ops fixGap a b v suf ⟨h, [], none⟩).2.heap p.val = sim.rd h p.val :=
    fun p hp => c1 p.val (hvpre p hp) (fun x hx hb => (hsp.2.2 p hp x hx |>.2 (hge x hx) hb).1)
  have fpre : (∀ e ∈ pre, sim.valid (finalGap ops (loop ops fixGap a b v suf ⟨h, [], none⟩).2.heap a b v
        (loop ops fixGap a b v suf ⟨h, [], none⟩).2.prev).1 e.val) ∧
      pre.map (sim.ab (finalGap ops (loop ops fixGap a b v suf ⟨h, [], none⟩).2.heap a b v
        (loop ops fixGap a b v suf ⟨h, [], none⟩).2.prev).1) = pre.map (sim.ab h) := by
    have := sim.ab_pres d1 pre (fun e he => ⟨(fpre0 e he).1, trivial⟩)
    refine ⟨this.1, this.2.trans ?_⟩
    apply List.map_congr_left
    intro e he
    simp only [SimOps.ab, (fpre0 e he).2]
  have fr1 := sim.ab_pres d1 _ (fun e he => ⟨c2 e he, trivial⟩)
  have fpend := sim.ab_pres d1 _ (fun e he => ⟨c3 e he, trivial⟩)
  refine ⟨?_, ?_, ?_⟩
  · intro e he
    rcases mem_foldl_treeSet _ _ e he with h1 | h1
    · rcases List.mem_append.mp h1 with h2 | h2
      · exact fpre.1 e h2
      · exact fr1.1 e h2
    · rcases List.mem_append.mp h1 with h2 | h2
      · exact fpend.1 e h2
      · exact d2 e h2
  · rw [foldl_treeSet_map _ (hf _)]
    simp only [List.map_append]
    rw [fpre.2, fr1.2, fpend.2, c4, c5, d3, c6]
  · rw [c6]

/-! ### Go slices -/

/-- the slice points into the heap and its capacity fits its backing array -/
def ValidS (h : Heap) (s : Slice) : Prop :=
  s.arr < h.length ∧ s.len ≤ s.cap ∧ s.cap ≤ ((h[s.arr]?).getD []).length

/-- `append(s, v)` leaves `s'` alone: it allocates (clip patch, or `s` is full), or `s'` lives
    on another backing array, or `s'` is no longer than `s` -/
def WrS (clipFix : Bool) (s s' : Slice) : Prop :=
  clipFix = true ∨ ¬ s.len < s.cap ∨ s'.arr ≠ s.arr ∨ s'.len ≤ s.len

/-- `append(y, _)` will leave the result of `append(s, _)` alone -/
def KeepS (clipFix : Bool) (y s : Slice) : Prop :=
  clipFix = true ∨ ¬ y.len < y.cap ∨ (y.arr = s.arr → s.len < y.len)

theorem goGrow_gt (c : Nat) : c < goGrow c := by
  unfold goGrow
  extract_lets c'
  split <;> omega

theorem readS_length (h : Heap) (s : Slice) (hv : ValidS h s) : (readS h s).length = s.len := by
  simp only [readS, List.length_take]
  have := hv.2.1; have := hv.2.2
  omega

theorem alloc_frame (h : Heap) (xs : List Int) (c : Nat) (s' : Slice) (hv : ValidS h s') :
    ValidS (alloc h xs c).1 s' ∧ readS (alloc h xs c).1 s' = readS h s' := by
  obtain ⟨h1, h2, h3⟩ := hv
  simp only [alloc, ValidS, readS, List.length_append, List.getElem?_append_left h1]
  exact ⟨⟨by omega, h2, h3⟩, trivial⟩

theorem alloc_res (h : Heap) (xs : List Int) (c : Nat) (hc : xs.length ≤ c) :
    ValidS (alloc h xs c).1 (alloc h xs c).2 ∧ readS (alloc h xs c).1 (alloc h xs c).2 = xs := by
  simp only [alloc, ValidS, readS, List.length_append, List.length_cons, List.length_nil]
  refine ⟨⟨by omega, hc, ?_⟩, ?_⟩
  · simp; omega
  · simp

theorem appendRaw_full (h : Heap) (s : Slice) (v : Int) (hfull : ¬ s.len < s.cap) :
    appendRaw h s v = alloc h (readS h s ++ [v]) (goGrow s.cap) := by
  simp only [appendRaw]
  rw [if_neg hfull]

theorem appendRaw_clip (h : Heap) (s : Slice) (v : Int) :
    appendRaw h (clip s) v = alloc h (readS h s ++ [v]) (goGrow s.len) := by
  rw [appendRaw_full h (clip s) v (by simp [clip])]
  rfl

/-- in-place append: everything on another array, or no longer than `s`, is untouched -/
theorem appendRaw_inplace_frame (h : Heap) (s : Slice) (v : Int) (hlt : s.len < s.cap) (s' : Slice)
    (hv' : ValidS h s') (hsafe : s'.arr ≠ s.arr ∨ s'.len ≤ s.len) :
    ValidS (appendRaw h s v).1 s' ∧ readS (appendRaw h s v).1 s' = readS h s' := by
  simp only [appendRaw, if_pos hlt]
  obtain ⟨h1, h2, h3⟩ := hv'
  by_cases hne : s'.arr = s.arr
  · have hle : s'.len ≤ s.len := by rcases hsafe with h | h; exact absurd hne h; exact h
    simp only [ValidS, readS, List.length_set, hne, List.getElem?_set]
    rw [hne] at h1 h3
    simp only [h1, if_true, Option.getD_some, List.length_set]
    refine ⟨⟨trivial, h2, h3⟩, ?_⟩
    rw [List.take_set_of_le hle]
  · simp only [ValidS, readS, List.length_set]
    rw [List.getElem?_set_ne (Ne.symm hne)]
    exact ⟨⟨h1, h2, h3⟩, rfl⟩

theorem appendRaw_inplace_res (h : Heap) (s : Slice) (v : Int) (hlt : s.len < s.cap)
    (hv : ValidS h s) :
    ValidS (appendRaw h s v).1 (appendRaw h s v).2 ∧
    readS (appendRaw h s v).1 (appendRaw h s v).2 = readS h s ++ [v] := by
  simp only [appendRaw, if_pos hlt]
  obtain ⟨h1, h2, h3⟩ := hv
  simp only [ValidS, readS, List.length_set, List.getElem?_set, h1, if_true, Option.getD_some]
  refine ⟨⟨trivial, by omega, h3⟩, ?_⟩
  generalize ((h[s.arr]?).getD []) = A at h3
  have hA : s.len < A.length := by omega
  rw [List.take_add_one, List.take_set_of_le (Nat.le_refl _)]
  congr 1
  simp [hA]

/-- `append(s, v)` as the Go model performs it, in the three situations -/
theorem app_cases (cf : Bool) (h : Heap) (s : Slice) (v : Int) :
    ((goOps cf).app h s v = alloc h (readS h s ++ [v]) (goGrow s.len) ∧ cf = true) ∨
    ((goOps cf).app h s v = alloc h (readS h s ++ [v]) (goGrow s.cap) ∧ cf = false ∧ ¬ s.len < s.cap) ∨
    ((goOps cf).app h s v = appendRaw h s v ∧ cf = false ∧ s.len < s.cap) := by
  show ((if cf = true then appendRaw h (clip s) v else appendRaw h s v) = _ ∧ _) ∨
    ((if cf = true then appendRaw h (clip s) v else appendRaw h s v) = _ ∧ _) ∨
    ((if cf = true then appendRaw h (clip s) v else appendRaw h s v) = _ ∧ _)
  cases cf with
  | true => left; exact ⟨by simp [appendRaw_clip], rfl⟩
  | false =>
    right
    by_cases hlt : s.len < s.cap
    · right; exact ⟨by simp, rfl, hlt⟩
    · left; exact ⟨by simp [appendRaw_full h s v hlt], rfl, hlt⟩

/-- Go slices over a heap simulate plain lists. -/
def goSim (cf : Bool) : SimOps (goOps cf) where
  valid := ValidS
  rd := readS
  wr := WrS cf
  keep := KeepS cf
  wr_self := fun _ s _ => Or.inr (Or.inr (Or.inr (Nat.le_refl _)))
  single_frame := fun h v s' hv => alloc_frame h [v] 1 s' hv
  single_ok := fun h v => alloc_res h [v] 1 (by simp)
  single_fresh := by
    intro h v y hy
    refine Or.inr (Or.inr (Or.inl ?_))
    show (alloc h [v] 1).2.arr ≠ y.arr
    have := hy.1
    simp only [alloc]; omega
  appClip_frame := by
    intro h s v s' _ hv'
    show ValidS (appendRaw h (clip s) v).1 s' ∧ readS (appendRaw h (clip s) v).1 s' = readS h s'
    rw [appendRaw_clip]; exact alloc_frame _ _ _ s' hv'
  app_frame := by
    intro h s v s' _ hv' hw
    rcases app_cases cf h s v with ⟨e, _⟩ | ⟨e, _, _⟩ | ⟨e, hcf, hlt⟩
    · rw [e]; exact alloc_frame _ _ _ s' hv'
    · rw [e]; exact alloc_frame _ _ _ s' hv'
    · rw [e]
      apply appendRaw_inplace_frame h s v hlt s' hv'
      rcases hw with hw | hw | hw | hw
      · rw [hcf] at hw; cases hw
      · exact absurd hlt hw
      · exact Or.inl hw
      · exact Or.inr hw
  app_ok := by
    intro h s v hv
    have hl := readS_length h s hv
    rcases app_cases cf h s v with ⟨e, _⟩ | ⟨e, _, hfull⟩ | ⟨e, _, hlt⟩
    · rw [e]; exact alloc_res _ _ _ (by have := goGrow_gt s.len; simp [hl]; omega)
    · rw [e]
      exact alloc_res _ _ _ (by have := goGrow_gt s.cap; have := hv.2.1; simp [hl]; omega)
    · rw [e]; exact appendRaw_inplace_res h s v hlt hv
  app_keep := by
    intro h s v y hv hy hk
    rcases hk with hk | hk | hk
    · exact Or.inl hk
    · exact Or.inr (Or.inl hk)
    · rcases app_cases cf h s v with ⟨e, _⟩ | ⟨e, _, _⟩ | ⟨e, _, hlt⟩
      · rw [e]; refine Or.inr (Or.inr (Or.inl ?_)); have := hy.1; simp only [alloc]; omega
      · rw [e]; refine Or.inr (Or.inr (Or.inl ?_)); have := hy.1; simp only [alloc]; omega
      · rw [e]
        simp only [appendRaw, if_pos hlt]
        by_cases hne : s.arr = y.arr
        · exact Or.inr (Or.inr (Or.inr (by have := hk hne.symm; show s.len + 1 ≤ y.len; omega)))
        · exact Or.inr (Or.inr (Or.inl hne))


end PCV.Interval
