/-
When is a run of unrecognised bytes still pending at the end of the main loop?  Only if the last
rune of the file was counted into `badBytes`; in particular never when the file ends with a newline.
-/
import PCV.Lemmas.XFuseOk
namespace PCV.XLexer
open PCV.Utf8 PCV.TokenStream

/-- pending unrecognised bytes end right before the cursor, and their last byte is not `\n` -/
def J (E : Env) (s : LS) : Prop :=
  s.bad > 0 → 0 < s.cursor ∧ ∃ b, E.text[s.cursor - 1]? = some b ∧ b ≠ 10

theorem push_bad0 (n : Nat) (s : LS) (len kind kw : Nat) (h : 0 ≤ s.bad) : (push n s len kind kw).bad = 0 := by
  unfold push flush rawPush
  repeat' split
  all_goals simp only
  all_goals omega

theorem pushWhite_bad (n : Nat) (bs : Bytes) (s : LS) (run : Nat) (h : 0 ≤ s.bad) :
    0 ≤ (pushWhite n s bs run).bad := by
  induction bs generalizing s run with
  | nil =>
    simp only [pushWhite]
    split
    · rw [push_bad0 n s _ _ _ h]; omega
    · exact h
  | cons b bs ih =>
    simp only [pushWhite]
    split
    · apply ih
      rw [push_bad0]
      · omega
      · split
        · rw [push_bad0 n s _ _ _ h]; omega
        · exact h
    · exact ih s _ h

theorem stepKw_bad0 (E : Env) (s s' : LS) (h : 0 ≤ s.bad) (hk : stepKw E s = some s') : s'.bad = 0 := by
  unfold stepKw at hk
  split at hk
  · simp at hk
  · simp only at hk
    repeat' split at hk
    all_goals (first | (simp at hk; done) | skip)
    all_goals simp only [Option.some.injEq] at hk
    all_goals subst hk
    all_goals simp [push_bad0, h, addDiag]

theorem lexString_bad0 (E : Env) (s : LS) (k : Nat) (h : 0 ≤ s.bad) (hok : (lexString E s k).2 = false) :
    (lexString E s k).1.bad = 0 := by
  unfold lexString at hok ⊢
  simp only at hok ⊢
  split at hok
  · simp at hok
  · split at hok
    · simp at hok
    · simp only
      split
      · exact push_bad0 _ _ _ _ _ h
      · show (push _ _ _ _ _).bad = 0
        exact push_bad0 _ _ _ _ _ h

theorem lexNumber_bad0 (E : Env) (s : LS) (h : 0 ≤ s.bad) : (lexNumber E s).bad = 0 := by
  unfold lexNumber
  exact push_bad0 _ _ _ _ _ h

theorem lexIdent_bad0 (E : Env) (s : LS) (h : 0 ≤ s.bad) (hok : (lexIdent E s).2 = false) :
    (lexIdent E s).1.bad = 0 := by
  unfold lexIdent at hok ⊢
  simp only at hok ⊢
  split
  · show (push _ _ _ _ _).bad = 0
    exact push_bad0 _ _ _ _ _ h
  · next hne =>
    rw [if_neg hne] at hok
    split
    · next hq =>
      rw [if_pos hq] at hok
      exact lexString_bad0 E _ _ h hok
    · exact push_bad0 _ _ _ _ _ h

/-- `takeWhile` stops at the end of the text or at a rune that fails the predicate -/
theorem takeWhileAux_stop (E : Env) (p : Nat → Bool) (f c : Nat) (hc : Cur E c) (hf : E.n - c ≤ f) :
    ∀ r, peekAt E (takeWhileAux E p f c) = some r → p r = false := by
  induction f generalizing c with
  | zero =>
    intro r hr
    have := peek_lt hr
    simp only [takeWhileAux] at this
    have := hc.1
    omega
  | succ f ih =>
    simp only [takeWhileAux]
    split
    · next hn => intro r hr; rw [hn] at hr; cases hr
    · next r0 hr0 =>
      split
      · have h1 := peek_adv hc hr0
        exact ih _ h1.2 (by omega)
      · next hp =>
        intro r hr
        rw [hr0] at hr
        simp only [Option.some.injEq] at hr
        subst hr
        simpa using hp

theorem stepWhite_nonwhite (E : Env) (s : LS) (h : Inv E s) :
    hasO E cWhite (peekAt E (stepWhite E s).cursor) = false := by
  unfold stepWhite
  split
  · next hw =>
    have hpw := pushWhite_acc E.n ((E.text.drop s.cursor).take (takeWhile E (E.has cWhite) s.cursor - s.cursor))
    have hcur : (pushWhite E.n { s with cursor := takeWhile E (E.has cWhite) s.cursor }
        ((E.text.drop s.cursor).take (takeWhile E (E.has cWhite) s.cursor - s.cursor)) 0).cursor
        = takeWhile E (E.has cWhite) s.cursor := by
      have : ∀ (bs : Bytes) (st : LS) (run : Nat), (pushWhite E.n st bs run).cursor = st.cursor := by
        intro bs
        induction bs with
        | nil =>
          intro st run
          simp only [pushWhite]
          split
          · unfold push flush rawPush; repeat' split
            all_goals rfl
          · rfl
        | cons b bs ih =>
          intro st run
          simp only [pushWhite]
          split
          · rw [ih]
            have hpc : ∀ (st : LS) (l k w : Nat), (push E.n st l k w).cursor = st.cursor := by
              intro st l k w
              unfold push flush rawPush; repeat' split
              all_goals rfl
            rw [hpc]
            split
            · rw [hpc]
            · rfl
          · rw [ih]
      rw [this]
    rw [hcur]
    cases hp : peekAt E (takeWhile E (E.has cWhite) s.cursor) with
    | none => rfl
    | some r =>
      simp only [hasO]
      exact takeWhileAux_stop E (E.has cWhite) (E.n - s.cursor) s.cursor h.cur (Nat.le_refl _) r hp
  · next hw => simpa using hw

/-- the last byte of a decoded rune is the rune itself (ASCII) or a byte ≥ 0x80 -/
theorem peek_last_byte {E : Env} {c r : Nat} (h : peekAt E c = some r) :
    ∃ b, E.text[c + runeLen r - 1]? = some b ∧ (b.toNat = r ∨ 0x80 ≤ b.toNat) := by
  obtain ⟨hok, hr⟩ := peek_some h
  have hl := (decode_runeLen _ hok).1
  rw [← hr] at hl
  unfold decOk at hok
  have hget : ∀ k, (E.text.drop c)[k]? = E.text[c + k]? := by
    intro k; rw [List.getElem?_drop]
  cases decode_cases (E.text.drop c) with
  | empty h' hd => simp [hd] at hok
  | bad b r' h' hb hd => simp [hd] at hok
  | ascii b r' h' hb hd =>
    rw [hd] at hl hr
    simp only at hl hr
    refine ⟨b, ?_, Or.inl hr.symm⟩
    have := hget 0
    rw [h'] at this
    simp only [List.getElem?_cons_zero, Nat.add_zero] at this
    rw [hl]; simpa using this.symm
  | two b0 b1 r' v h' h0 h1 hd hv =>
    rw [hd] at hl
    simp only at hl
    refine ⟨b1, ?_, Or.inr h1⟩
    have := hget 1
    rw [h'] at this
    simp only [List.getElem?_cons_succ, List.getElem?_cons_zero] at this
    rw [hl]; simpa using this.symm
  | three b0 b1 b2 r' v h' h0 h1 h2 hd hv =>
    rw [hd] at hl
    simp only at hl
    refine ⟨b2, ?_, Or.inr h2⟩
    have := hget 2
    rw [h'] at this
    simp only [List.getElem?_cons_succ, List.getElem?_cons_zero] at this
    rw [hl]; simpa using this.symm
  | four b0 b1 b2 b3 r' v h' h0 h1 h2 h3 hd hv =>
    rw [hd] at hl
    simp only at hl
    refine ⟨b3, ?_, Or.inr h3⟩
    have := hget 3
    rw [h'] at this
    simp only [List.getElem?_cons_succ, List.getElem?_cons_zero] at this
    rw [hl]; simpa using this.symm

theorem stepWhite_J (E : Env) (s : LS) (h : Inv E s) (hJ : J E s) : J E (stepWhite E s) := by
  have hw := stepWhite_inv E s h
  by_cases hadv : s.cursor < (stepWhite E s).cursor
  · intro hb; have := hw.2.2.2.2 hadv; omega
  · -- not advanced: the state is unchanged
    have hcur : (stepWhite E s).cursor = s.cursor := by have := hw.2.1; omega
    unfold stepWhite at hcur ⊢
    split
    · next hwh =>
      rw [if_pos hwh] at hcur
      exfalso
      -- white rune under the cursor: takeWhile advances
      cases hp : peekAt E s.cursor with
      | none => rw [hp] at hwh; simp [hasO] at hwh
      | some r =>
        rw [hp] at hwh
        simp only [hasO] at hwh
        have := takeWhile_progress E (E.has cWhite) s.cursor r h.cur hp hwh
        have hpw := pushWhite_acc E.n ((E.text.drop s.cursor).take (takeWhile E (E.has cWhite) s.cursor - s.cursor))
          { s with cursor := takeWhile E (E.has cWhite) s.cursor } 0 0 (by
            have hc := takeWhile_cur E (E.has cWhite) s.cursor h.cur
            have hlen : ((E.text.drop s.cursor).take (takeWhile E (E.has cWhite) s.cursor - s.cursor)).length
                = takeWhile E (E.has cWhite) s.cursor - s.cursor := by
              simp only [List.length_take, List.length_drop]
              have := hc.2.1; unfold Env.n at this; omega
            rw [hlen]
            have := accD_adv (k := takeWhile E (E.has cWhite) s.cursor - s.cursor) h.acc (by have := hc.2.1; omega)
            have e : s.cursor + (takeWhile E (E.has cWhite) s.cursor - s.cursor) = takeWhile E (E.has cWhite) s.cursor := by omega
            rw [e] at this
            simpa using this)
        rw [hpw.2.1] at hcur
        simp only at hcur
        omega
    · exact hJ

theorem iter_J (E : Env) (s : LS) (h : Inv E s) (hJ : J E s) (hcls : ClsOK E)
    (hnl : E.has cWhite 10 = true) (hok : (iter E s).2 = false) : J E (iter E s).1 := by
  unfold iter at hok ⊢
  simp only at hok ⊢
  have hw := stepWhite_inv E s h
  have hJ1 := stepWhite_J E s h hJ
  have hnn := hw.1.acc.nn
  split
  · next s2 hk =>
    intro hb
    have := stepKw_bad0 E _ s2 hnn hk
    simp only at hb; omega
  · next hk =>
    rw [hk] at hok
    simp only at hok
    unfold stepPop at hok ⊢
    split
    · -- end of text: bad - 1
      intro hb
      simp only at hb ⊢
      exact hJ1 (by omega)
    · next r hr =>
      rw [hr] at hok
      simp only at hok
      split
      · next hq =>
        rw [if_pos hq] at hok
        intro hb
        have := lexString_bad0 E _ 0 hnn hok
        omega
      · next hq =>
        rw [if_neg hq] at hok
        split
        · intro hb
          have := lexNumber_bad0 E (stepWhite E s) hnn
          simp only at hb
          omega
        · next hd =>
          rw [if_neg hd] at hok
          split
          · next hx =>
            rw [if_pos hx] at hok
            intro hb
            have := lexIdent_bad0 E _ hnn hok
            omega
          · -- the default branch: the rune is not white space, hence its last byte is not `\n`
            intro _
            simp only
            have hnw := stepWhite_nonwhite E s h
            rw [hr] at hnw
            simp only [hasO] at hnw
            have hr10 : r ≠ 10 := by
              intro he; subst he; rw [hnl] at hnw; cases hnw
            have h1 := peek_adv hw.1.cur hr
            obtain ⟨b, hb, hbv⟩ := peek_last_byte hr
            refine ⟨by omega, b, hb, ?_⟩
            intro hb10
            subst hb10
            rcases hbv with hbv | hbv
            · exact hr10 (by rw [← hbv]; rfl)
            · have : (10 : UInt8).toNat = 10 := rfl
              omega

theorem mainLoop_J (E : Env) (hcls : ClsOK E) (hnl : E.has cWhite 10 = true) (f : Nat) (prev : Int) (s : LS)
    (h : Inv E s) (hJ : J E s) (hprev : prev < (s.cursor : Int)) (hf : E.n - s.cursor < f)
    (hd : (mainLoop E f prev s).2 = .done) : J E (mainLoop E f prev s).1 := by
  induction f generalizing prev s with
  | zero => omega
  | succ f ih =>
    simp only [mainLoop] at hd ⊢
    split
    · exact hJ
    · next hlt =>
      rw [if_neg hlt] at hd
      rw [if_neg (by omega)] at hd ⊢
      cases hi : iter E s with
      | mk s' b =>
        rw [hi] at hd
        cases b with
        | true => simp at hd
        | false =>
          simp only at hd ⊢
          have hit := iter_inv E s h hcls (by omega) (by rw [hi])
          have hJ' := iter_J E s h hJ hcls hnl (by rw [hi])
          rw [hi] at hit hJ'
          simp only at hit hJ'
          rcases hit.2.2 with hinv | heof
          · exact ih (s.cursor : Int) s' hinv hJ' (by omega) (by omega) hd
          · cases f with
            | zero => omega
            | succ f' =>
              simp only [mainLoop]
              rw [if_pos (by have := heof.atEnd; omega)]
              exact hJ'

/-- the state after the prelude has no pending unrecognised bytes -/
theorem prelude_J (E : Env) (s0 : LS) (h : prelude E {} = (s0, true)) : J E s0 := by
  have := (prelude_inv E s0 h).1
  unfold prelude at h
  simp only at h
  intro hb
  exfalso
  split at h
  · simp only [Prod.mk.injEq, and_true] at h; subst h; simp at hb
  · split at h
    · simp at h
    · split at h
      · split at h
        · simp only [Prod.mk.injEq, and_true] at h
          subst h
          have := push_bad0 E.n { ({} : LS) with cursor := (0 : Nat) + runeLen 0xFEFF } 3 kUnrecognized 0 (by simp)
          simp only at this hb
          omega
        · simp only [Prod.mk.injEq, and_true] at h; subst h; simp at hb
      · split at h <;> simp at h

/-- **A file that ends with a newline leaves no unrecognised bytes pending.** -/
theorem final_bad_of_trailing_newline (E : Env) (hcls : ClsOK E) (hnl : E.has cWhite 10 = true)
    (hlast : E.text.getLast? = some 10) (hd : (lex E).status = .done) : (lex E).final.bad ≤ 0 := by
  rcases lex_cases E hcls with ⟨_, ha, _⟩ | ⟨_, _, _, _, hi⟩ | ⟨s0, s1, hp, hm, hpost, hfin, _⟩
  · rw [ha] at hd; cases hd
  · rw [hi] at hd; cases hd
  · rw [hfin]
    have hinv := (prelude_inv E s0 hp).1
    have hJ := mainLoop_J E hcls hnl (E.n + 1) (-1) s0 hinv (prelude_J E s0 hp) (by omega) (by omega)
      (by rw [hm])
    rw [hm] at hJ
    simp only at hJ
    by_cases hb : s1.bad > 0
    · exfalso
      obtain ⟨hpos, b, hb1, hb2⟩ := hJ hb
      rw [hpost.atEnd] at hb1 hpos
      have : E.text.getLast? = E.text[E.n - 1]? := by
        unfold Env.n
        rw [List.getLast?_eq_getElem?]
      rw [this, hb1] at hlast
      simp only [Option.some.injEq] at hlast
      exact hb2 hlast
    · omega

end PCV.XLexer
