/-
Helper lemmas for C40, part 3: `Nesting.Insert`.
-/
import PCV.Lemmas.Interval
namespace PCV.Interval

theorem treeSet_inv {S : Type} : ∀ (t : List (Entry S)) (n : Entry S), Inv t → n.start ≤ n.stop →
    (∀ x ∈ t, x.stop < n.start ∨ n.stop < x.start) →
    Inv (treeSet t n) ∧ ∀ y, y ∈ treeSet t n ↔ (y = n ∨ y ∈ t)
  | [], n, _, hn, _ => by
    simp only [treeSet]
    exact ⟨⟨List.pairwise_singleton _ _, by simpa using hn⟩, by simp⟩
  | x :: xs, n, h, hn, hd => by
    have hx := h.2 x List.mem_cons_self
    have hdx := hd x List.mem_cons_self
    have hlt : ∀ y ∈ xs, x.stop < y.start := (List.pairwise_cons.mp h.1).1
    simp only [treeSet]
    split
    · next h1 =>
      refine ⟨⟨List.pairwise_cons.mpr ⟨?_, h.1⟩, ?_⟩, by simp⟩
      · intro y hy
        rcases List.mem_cons.mp hy with rfl | hy
        · show n.stop < y.start; omega
        · have := hlt y hy; show n.stop < y.start; omega
      · intro y hy
        rcases List.mem_cons.mp hy with rfl | hy
        · exact hn
        · exact h.2 y hy
    · split
      · next h1 h2 => omega
      · next h1 h2 =>
        obtain ⟨ih1, ih2⟩ := treeSet_inv xs n h.tail hn (fun y hy => hd y (List.mem_cons_of_mem _ hy))
        refine ⟨⟨List.pairwise_cons.mpr ⟨?_, ih1.1⟩, ?_⟩, ?_⟩
        · intro y hy
          rcases (ih2 y).mp hy with rfl | hy
          · show x.stop < y.start; omega
          · exact hlt y hy
        · intro y hy
          rcases List.mem_cons.mp hy with rfl | hy
          · exact hx
          · exact ih1.2 y hy
        · intro y
          simp only [List.mem_cons, ih2 y]
          constructor
          · rintro (h | h | h)
            · exact Or.inr (Or.inl h)
            · exact Or.inl h
            · exact Or.inr (Or.inr h)
          · rintro (h | h | h)
            · exact Or.inr (Or.inl h)
            · exact Or.inl h
            · exact Or.inr (Or.inr h)

theorem treeSet_perm {S : Type} : ∀ (t : List (Entry S)) (n : Entry S), (∀ x ∈ t, x.stop ≠ n.stop) →
    (treeSet t n).Perm (n :: t)
  | [], n, _ => List.Perm.refl _
  | x :: xs, n, h => by
    have hx := h x List.mem_cons_self
    simp only [treeSet]
    split
    · exact List.Perm.refl _
    · split
      · next h1 h2 => exact absurd h2.symm hx
      · exact ((treeSet_perm xs n (fun y hy => h y (List.mem_cons_of_mem _ hy))).cons x).trans
          (List.Perm.swap n x xs)

theorem dropWhile_head_not {α : Type} (p : α → Bool) : ∀ (l : List α) (y : α) (r : List α),
    l.dropWhile p = y :: r → p y = false
  | [], y, r, h => by simp at h
  | x :: xs, y, r, h => by
    simp only [List.dropWhile_cons] at h
    split at h
    · exact dropWhile_head_not p xs y r h
    · next hx =>
      have : x = y := (List.cons.inj h).1
      subst this
      simpa using hx

theorem getLast_max {S : Type} : ∀ (t : List (Entry S)) (l : Entry S), KeySorted t →
    t.getLast? = some l → ∀ x ∈ t, x.stop ≤ l.stop
  | [], l, _, h => by simp at h
  | [x], l, _, h => by
    simp at h; subst h
    intro y hy; simp at hy; subst hy; exact Int.le_refl _
  | x :: y :: ys, l, hk, h => by
    unfold KeySorted at hk
    rw [List.pairwise_cons] at hk
    have h' : (y :: ys).getLast? = some l := by simpa [List.getLast?_cons_cons] using h
    have ih := getLast_max (y :: ys) l hk.2 h'
    intro z hz
    rcases List.mem_cons.mp hz with rfl | hz
    · have hl : l ∈ y :: ys := List.mem_of_getLast? h'
      have := hk.1 l hl; omega
    · exact ih z hz

/-- If every interval of a flat set is at most as long as `[a, b]`, the set accepts `[a, b]`
    only when `[a, b]` is disjoint from all of them. -/
theorem fits_disjoint (s : NSet) (a b : Int) (hinv : Inv s)
    (hlen : ∀ x ∈ s, x.stop - x.start ≤ b - a) (hfit : nestFits s a b = true) :
    ∀ x ∈ s, x.stop < a ∨ b < x.start := by
  have hsplit : s.takeWhile (fun x => decide (x.stop < b)) ++ s.dropWhile (fun x => decide (x.stop < b)) = s :=
    List.takeWhile_append_dropWhile
  have hks := hinv.keySorted
  unfold nestFits at hfit
  have hpre_lt : ∀ x ∈ s.takeWhile (fun x => decide (x.stop < b)), x.stop < b := by
    intro x hx; simpa using mem_takeWhile_prop _ s x hx
  generalize hpre : s.takeWhile (fun x => decide (x.stop < b)) = pre at hsplit hfit hpre_lt
  generalize hsuf : s.dropWhile (fun x => decide (x.stop < b)) = suf at hsplit hfit
  subst hsplit
  have hpre_inv : Inv pre := ⟨(List.pairwise_append.mp hinv.1).1, fun x hx => hinv.2 x (List.mem_append_left _ hx)⟩
  cases suf with
  | nil =>
    simp only [List.append_nil] at hfit hlen hinv ⊢
    cases hl : pre.getLast? with
    | none =>
      have : pre = [] := List.getLast?_eq_none_iff.mp hl
      subst this; simp
    | some l =>
      rw [hl] at hfit
      have hla : l.stop < a := by simpa using hfit
      intro x hx
      have := getLast_max pre l hinv.keySorted hl x hx
      omega
  | cons y ys =>
    have hy : ¬ y.stop < b := by
      have := dropWhile_head_not _ _ y ys hsuf
      simpa using this
    have hyw := hinv.2 y (List.mem_append_right _ List.mem_cons_self)
    have hyl := hlen y (List.mem_append_right _ List.mem_cons_self)
    simp only at hfit
    split at hfit
    · cases hfit
    · next hc =>
      have hyb : b < y.start := by
        have : ¬ (a ≤ y.start ∧ y.start ≤ b) := by simpa using hc
        omega
      intro x hx
      rcases List.mem_append.mp hx with hx | hx
      · left
        cases hl : pre.getLast? with
        | none =>
          have : pre = [] := List.getLast?_eq_none_iff.mp hl
          subst this; cases hx
        | some q =>
          rw [hl] at hfit
          have hq : q.stop < a := by simpa using hfit
          have := getLast_max pre q hpre_inv.keySorted hl x hx
          omega
      · right
        rcases List.mem_cons.mp hx with rfl | hx
        · exact hyb
        · have hsufp := (List.pairwise_append.mp hinv.1).2.1
          have := (List.pairwise_cons.mp hsufp).1 x hx
          unfold Lt at this; omega


end PCV.Interval
