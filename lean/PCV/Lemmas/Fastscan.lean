/-
Lemmas for C25 (fast import scanner): simulation of `Scan`'s flat token loop by the
recursive-descent specification `topLevel`, well-formedness and fuel-independence of the lexer
model, and the inductive grammar `File` with the proof that it is contained in the language of
`topLevel`.  Headline theorems are in `PCV/Props/C25.lean`.
-/
import PCV.Model.Fastscan
namespace PCV.Fastscan

/-! ## states of the scanner between statements, inside an import, inside a package -/

/-- between two top-level statements -/
def Clean (st : St) : Prop := st.cur = none ∧ st.pc = none ∧ st.stack = [] ∧ st.ds = true

/-- after `import` [modifier] and the path pieces `c` -/
def InImp (st : St) (c : List (List UInt8)) : Prop :=
  st.cur = some c ∧ st.pc = none ∧ st.stack = [] ∧ st.ds = false

/-- after `package` and the components `c` -/
def InPkg (st : St) (c : List (List UInt8)) : Prop :=
  st.cur = none ∧ st.pc = some c ∧ st.stack = [] ∧ st.ds = false

/-- identifiers never have the text "." (true of every token the lexer produces, `lex_wf`) -/
def WfToks (ts : List Token) : Prop := ∀ t ∈ ts, ∀ s, t.kind = .ident s → s ≠ dot

theorem run_cons (st : St) (t : Token) (ts : List Token) : run st (t :: ts) = run (step st t) ts := rfl
theorem run_nil (st : St) : run st [] = st := rfl

theorem WfToks.tail {t : Token} {ts : List Token} (h : WfToks (t :: ts)) : WfToks ts :=
  fun u hu => h u (List.mem_cons_of_mem _ hu)

/-! ## other statements -/

/-- one loop iteration when no import/package is pending and the token does not start one -/
theorem step_idle (st : St) (t : Token) (h1 : st.cur = none) (h2 : st.pc = none)
    (hsafe : st.ds = true → stackStep st.stack t.kind = [] →
      t.kind ≠ .ident kwImport ∧ t.kind ≠ .ident kwPackage) :
    (step st t).cur = none ∧ (step st t).pc = none ∧
    (step st t).stack = stackStep st.stack t.kind ∧ (step st t).ds = isStmtEnd t.kind ∧
    (step st t).pkg = st.pkg ∧ (step st t).imports = st.imports ∧ (step st t).errs = st.errs := by
  have hi : stepImport st t = st := by simp [stepImport, h1]
  have hp : stepPackage st t = st := by simp [stepPackage, h2]
  simp only [step, hi, hp, stepContext]
  cases hk : t.kind with
  | ident s =>
    simp only [hk] at hsafe
    by_cases hc : st.ds = true ∧ stackStep st.stack (Kind.ident s) = []
    · have := hsafe hc.1 hc.2
      have e1 : s ≠ kwImport := fun e => this.1 (by rw [e])
      have e2 : s ≠ kwPackage := fun e => this.2 (by rw [e])
      simp [hc, e1, e2, h1, h2]
    · simp [hc, h1, h2]
  | str s => simp [h1, h2]
  | num => simp [h1, h2]
  | sym r => simp [h1, h2]

theorem run_skip : ∀ (ts : List Token) (stack : List Nat) (st : St) (r : List Token),
    st.cur = none → st.pc = none → st.stack = stack →
    (st.ds = true → stack = [] → ∀ t rest, ts = t :: rest →
      t.kind ≠ .ident kwImport ∧ t.kind ≠ .ident kwPackage) →
    skipStmt stack ts = some r →
    (∃ st', run st ts = run st' r ∧ Clean st' ∧ st'.pkg = st.pkg ∧ st'.imports = st.imports ∧
      st'.errs = st.errs) ∧ (∀ u ∈ r, u ∈ ts) := by
  intro ts
  induction ts with
  | nil => intro stack st r _ _ _ _ h; simp [skipStmt] at h
  | cons t rest ih =>
    intro stack st r h1 h2 h3 hsafe h
    have hsafe' : st.ds = true → stackStep st.stack t.kind = [] →
        t.kind ≠ .ident kwImport ∧ t.kind ≠ .ident kwPackage := by
      intro hd hs
      cases hk : t.kind with
      | ident s =>
        rw [hk] at hs
        simp only [stackStep] at hs
        exact hk ▸ hsafe hd (h3 ▸ hs) t rest rfl
      | str s => simp
      | num => simp
      | sym r => simp
    obtain ⟨s1, s2, s3, s4, s5, s6, s7⟩ := step_idle st t h1 h2 hsafe'
    simp only [skipStmt] at h
    rw [← h3] at h
    by_cases hend : isStmtEnd t.kind = true ∧ (stackStep st.stack t.kind).isEmpty = true
    · rw [if_pos hend] at h
      cases h
      refine ⟨⟨step st t, by rw [run_cons], ⟨s1, s2, ?_, ?_⟩, s5, s6, s7⟩, ?_⟩
      · rw [s3]; simpa using hend.2
      · rw [s4]; exact hend.1
      · intro u hu; exact List.mem_cons_of_mem _ hu
    · rw [if_neg hend] at h
      have := ih (stackStep st.stack t.kind) (step st t) r s1 s2 s3 (by
        intro hd hs
        exfalso; apply hend
        rw [s4] at hd
        exact ⟨hd, by simp [hs]⟩) h
      obtain ⟨⟨st', e, hc, p1, p2, p3⟩, hm⟩ := this
      refine ⟨⟨st', by rw [run_cons, e], hc, by rw [p1, s5], by rw [p2, s6], by rw [p3, s7]⟩, ?_⟩
      intro u hu; exact List.mem_cons_of_mem _ (hm u hu)

/-! ## import statements -/

theorem step_import_kw (st : St) (t : Token) (hc : Clean st) (hk : t.kind = .ident kwImport) :
    InImp (step st t) [] ∧ (step st t).isPublic = false ∧ (step st t).isWeak = false ∧
    (step st t).isOption = false ∧
    (step st t).pkg = st.pkg ∧ (step st t).imports = st.imports ∧ (step st t).errs = st.errs := by
  obtain ⟨h1, h2, h3, h4⟩ := hc
  have hi : stepImport st t = st := by simp [stepImport, h1]
  have hp : stepPackage st t = st := by simp [stepPackage, h2]
  simp [step, hi, hp, stepContext, hk, h3, h4, stackStep, InImp, h2, isStmtEnd]

theorem step_import_mod (st : St) (t : Token) (hc : InImp st [])
    (hk : t.kind = .ident kwPublic ∨ t.kind = .ident kwWeak ∨ t.kind = .ident kwOption) :
    InImp (step st t) [] ∧ (step st t).isPublic = decide (t.kind = .ident kwPublic) ∧
    (step st t).isWeak = decide (t.kind = .ident kwWeak) ∧
    (step st t).isOption = decide (t.kind = .ident kwOption) ∧
    (step st t).pkg = st.pkg ∧ (step st t).imports = st.imports ∧ (step st t).errs = st.errs := by
  obtain ⟨h1, h2, h3, h4⟩ := hc
  rcases hk with hk | hk | hk <;>
    simp [step, stepImport, stepPackage, stepContext, hk, h1, h2, h3, h4, stackStep, InImp, isStmtEnd,
      kwPublic, kwWeak, kwOption]

theorem step_import_str (st : St) (t : Token) (c : List (List UInt8)) (s : List UInt8)
    (hc : InImp st c) (hk : t.kind = .str s) :
    InImp (step st t) (c ++ [s]) ∧ (step st t).isPublic = st.isPublic ∧
    (step st t).isWeak = st.isWeak ∧ (step st t).isOption = st.isOption ∧
    (step st t).pkg = st.pkg ∧ (step st t).imports = st.imports ∧ (step st t).errs = st.errs := by
  obtain ⟨h1, h2, h3, h4⟩ := hc
  simp [step, stepImport, stepPackage, stepContext, hk, h1, h2, h3, h4, stackStep, InImp, isStmtEnd]

theorem step_import_semi (st : St) (t : Token) (c : List (List UInt8)) (hc : InImp st c)
    (hne : c ≠ []) (hk : t.kind = .sym SEMI) :
    Clean (step st t) ∧ (step st t).pkg = st.pkg ∧
    (step st t).imports = st.imports ++ [⟨c.flatten, st.isPublic, st.isWeak, st.isOption⟩] ∧
    (step st t).errs = st.errs := by
  obtain ⟨h1, h2, h3, h4⟩ := hc
  simp [step, stepImport, stepPackage, stepContext, hk, h1, h2, h3, h4, stackStep, Clean, isStmtEnd,
    hne, SEMI, isOpen, isClose, CLOSE_BRACE]

theorem run_takeStrs : ∀ (ts : List Token) (st : St) (c : List (List UInt8)), InImp st c →
    ∃ st' c', run st ts = run st' (takeStrs ts).2 ∧ InImp st' c' ∧
      c'.flatten = c.flatten ++ (takeStrs ts).1 ∧ (c ≠ [] → c' ≠ []) ∧
      st'.isPublic = st.isPublic ∧ st'.isWeak = st.isWeak ∧ st'.isOption = st.isOption ∧
      st'.pkg = st.pkg ∧ st'.imports = st.imports ∧ st'.errs = st.errs := by
  intro ts
  induction ts with
  | nil => intro st c hc; exact ⟨st, c, rfl, hc, by simp [takeStrs], id, rfl, rfl, rfl, rfl, rfl, rfl⟩
  | cons t rest ih =>
    intro st c hc
    cases hk : t.kind with
    | str s =>
      obtain ⟨a1, a2, a3, a4, a5, a6, a7⟩ := step_import_str st t c s hc hk
      obtain ⟨st', c', e, b1, b2, b3, b4, b5, b6, b7, b8, b9⟩ := ih (step st t) (c ++ [s]) a1
      refine ⟨st', c', ?_, b1, ?_, fun _ => b3 (by simp), by rw [b4, a2], by rw [b5, a3],
        by rw [b6, a4], by rw [b7, a5], by rw [b8, a6], by rw [b9, a7]⟩
      · simp only [takeStrs, hk, run_cons]; exact e
      · simp only [takeStrs, hk]; rw [b2]; simp
    | num => exact ⟨st, c, by simp [takeStrs, hk], hc, by simp [takeStrs, hk], id, rfl, rfl, rfl, rfl, rfl, rfl⟩
    | ident s => exact ⟨st, c, by simp [takeStrs, hk], hc, by simp [takeStrs, hk], id, rfl, rfl, rfl, rfl, rfl, rfl⟩
    | sym r => exact ⟨st, c, by simp [takeStrs, hk], hc, by simp [takeStrs, hk], id, rfl, rfl, rfl, rfl, rfl, rfl⟩

theorem takeStrs_mem : ∀ (ts : List Token), ∀ u ∈ (takeStrs ts).2, u ∈ ts := by
  intro ts
  induction ts with
  | nil => simp [takeStrs]
  | cons t rest ih =>
    intro u hu
    cases hk : t.kind with
    | str s =>
      simp only [takeStrs, hk] at hu
      exact List.mem_cons_of_mem _ (ih u hu)
    | num => simpa [takeStrs, hk] using hu
    | ident s => simpa [takeStrs, hk] using hu
    | sym r => simpa [takeStrs, hk] using hu

/-- string+ `;` in import mode with no piece yet -/
theorem run_parsePath (ts : List Token) (st : St) (path : List UInt8) (r : List Token)
    (hc : InImp st []) (h : parsePath ts = some (path, r)) :
    (∃ st', run st ts = run st' r ∧ Clean st' ∧ st'.pkg = st.pkg ∧
      st'.imports = st.imports ++ [⟨path, st.isPublic, st.isWeak, st.isOption⟩] ∧
      st'.errs = st.errs) ∧ (∀ u ∈ r, u ∈ ts) := by
  cases ts with
  | nil => simp [parsePath] at h
  | cons t rest =>
    cases hk : t.kind with
    | str s =>
      simp only [parsePath, hk] at h
      obtain ⟨a1, a2, a3, a4, a5, a6, a7⟩ := step_import_str st t [] s hc hk
      obtain ⟨st', c', e, b1, b2, b3, b4, b5, b6, b7, b8, b9⟩ := run_takeStrs rest (step st t) ([] ++ [s]) a1
      have hm := takeStrs_mem rest
      cases hr : (takeStrs rest).2 with
      | nil => simp [hr] at h
      | cons u rest' =>
        rw [hr] at h e hm
        by_cases hu : u.kind = .sym SEMI
        · simp only [hu, if_true] at h
          cases h
          obtain ⟨d1, d2, d3, d4⟩ := step_import_semi st' u c' b1 (b3 (by simp)) hu
          refine ⟨⟨step st' u, by rw [run_cons, e, run_cons], d1, by rw [d2, b7, a5], ?_, by rw [d4, b9, a7]⟩, ?_⟩
          · rw [d3, b8, a6, b2, b4, b5, b6, a2, a3, a4]; simp
          · intro v hv
            exact List.mem_cons_of_mem _ (hm v (List.mem_cons_of_mem _ hv))
        · simp [hu] at h
    | num => simp [parsePath, hk] at h
    | ident s => simp [parsePath, hk] at h
    | sym r => simp [parsePath, hk] at h

/-- the statement after the `import` keyword -/
theorem run_parseImport (ts : List Token) (st : St) (imp : Import) (r : List Token)
    (hc : InImp st []) (hf : st.isPublic = false ∧ st.isWeak = false ∧ st.isOption = false)
    (h : parseImport ts = some (imp, r)) :
    (∃ st', run st ts = run st' r ∧ Clean st' ∧ st'.pkg = st.pkg ∧
      st'.imports = st.imports ++ [imp] ∧ st'.errs = st.errs) ∧ (∀ u ∈ r, u ∈ ts) := by
  cases ts with
  | nil => simp [parseImport] at h
  | cons t rest =>
    simp only [parseImport] at h
    by_cases hm : t.kind = .ident kwPublic ∨ t.kind = .ident kwWeak ∨ t.kind = .ident kwOption
    · rw [if_pos hm] at h
      cases hp : parsePath rest with
      | none => simp [hp] at h
      | some pr =>
        obtain ⟨path, r'⟩ := pr
        simp only [hp, Option.map_some, Option.some.injEq, Prod.mk.injEq] at h
        obtain ⟨a1, a2, a3, a4, a5, a6, a7⟩ := step_import_mod st t hc hm
        obtain ⟨⟨st', e, b1, b2, b3, b4⟩, hmem⟩ := run_parsePath rest (step st t) path r' a1 hp
        obtain ⟨h1, h2⟩ := h
        subst h2
        refine ⟨⟨st', by rw [run_cons, e], b1, by rw [b2, a5], ?_, by rw [b4, a7]⟩,
          fun u hu => List.mem_cons_of_mem _ (hmem u hu)⟩
        rw [b3, a6, a2, a3, a4, ← h1]
    · rw [if_neg hm] at h
      cases hp : parsePath (t :: rest) with
      | none => simp [hp] at h
      | some pr =>
        obtain ⟨path, r'⟩ := pr
        simp only [hp, Option.map_some, Option.some.injEq, Prod.mk.injEq] at h
        obtain ⟨⟨st', e, b1, b2, b3, b4⟩, hmem⟩ := run_parsePath (t :: rest) st path r' hc hp
        obtain ⟨h1, h2⟩ := h
        subst h2
        refine ⟨⟨st', e, b1, b2, ?_, b4⟩, hmem⟩
        rw [b3, hf.1, hf.2.1, hf.2.2, ← h1]

/-! ## package statements -/

theorem step_package_kw (st : St) (t : Token) (hc : Clean st) (hk : t.kind = .ident kwPackage) :
    InPkg (step st t) [] ∧
    (step st t).pkg = st.pkg ∧ (step st t).imports = st.imports ∧ (step st t).errs = st.errs := by
  obtain ⟨h1, h2, h3, h4⟩ := hc
  have hi : stepImport st t = st := by simp [stepImport, h1]
  have hp : stepPackage st t = st := by simp [stepPackage, h2]
  have hne : kwPackage ≠ kwImport := by decide
  simp [step, hi, hp, stepContext, hk, h3, h4, stackStep, InPkg, h1, isStmtEnd, hne]

/-- an identifier where one is expected: first component, or right after a period -/
theorem step_package_ident (st : St) (t : Token) (c : List (List UInt8)) (s : List UInt8)
    (hc : InPkg st c) (hok : c = [] ∨ c.getLast? = some dot) (hk : t.kind = .ident s) :
    InPkg (step st t) (c ++ [s]) ∧
    (step st t).pkg = st.pkg ∧ (step st t).imports = st.imports ∧ (step st t).errs = st.errs := by
  obtain ⟨h1, h2, h3, h4⟩ := hc
  have hi : stepImport st t = st := by simp [stepImport, h1]
  have hno : ¬(c ≠ [] ∧ c.getLast? ≠ some dot) := by
    rcases hok with h | h
    · simp [h]
    · simp [h]
  simp [step, hi, stepPackage, stepContext, hk, h1, h2, h3, h4, stackStep, InPkg, isStmtEnd, hno]

theorem step_package_period (st : St) (t : Token) (c : List (List UInt8))
    (hc : InPkg st c) (hne : c ≠ []) (hl : c.getLast? ≠ some dot) (hk : t.kind = .sym PERIOD) :
    InPkg (step st t) (c ++ [dot]) ∧
    (step st t).pkg = st.pkg ∧ (step st t).imports = st.imports ∧ (step st t).errs = st.errs := by
  obtain ⟨h1, h2, h3, h4⟩ := hc
  have hi : stepImport st t = st := by simp [stepImport, h1]
  simp [step, hi, stepPackage, stepContext, hk, h1, h2, h3, h4, stackStep, InPkg, isStmtEnd, hne, hl,
    PERIOD, isOpen, isClose, CLOSE_BRACE, SEMI]

theorem step_package_semi (st : St) (t : Token) (c : List (List UInt8))
    (hc : InPkg st c) (hne : c ≠ []) (hl : c.getLast? ≠ some dot) (hk : t.kind = .sym SEMI) :
    Clean (step st t) ∧
    (step st t).pkg = c.flatten ∧ (step st t).imports = st.imports ∧ (step st t).errs = st.errs := by
  obtain ⟨h1, h2, h3, h4⟩ := hc
  have hi : stepImport st t = st := by simp [stepImport, h1]
  simp [step, hi, stepPackage, stepContext, hk, h1, h2, h3, h4, stackStep, Clean, isStmtEnd, hne, hl,
    PERIOD, isOpen, isClose, CLOSE_BRACE, SEMI]

/-- (`.` ident)* `;` after at least one component -/
theorem run_parsePkgTail : ∀ (ts : List Token) (st : St) (c : List (List UInt8)) (tail : List UInt8)
    (r : List Token), WfToks ts → InPkg st c → c ≠ [] → c.getLast? ≠ some dot →
    parsePkgTail ts = some (tail, r) →
    (∃ st', run st ts = run st' r ∧ Clean st' ∧ st'.pkg = c.flatten ++ tail ∧
      st'.imports = st.imports ∧ st'.errs = st.errs) ∧ (∀ u ∈ r, u ∈ ts) := by
  intro ts
  induction ts using parsePkgTail.induct with
  | case1 => intro st c tail r _ _ _ _ h; simp [parsePkgTail] at h
  | case2 t rest hk =>
    intro st c tail r _ hc hne hl h
    rw [parsePkgTail.eq_def] at h
    simp only [hk, if_true, Option.some.injEq, Prod.mk.injEq] at h
    obtain ⟨h1, h2⟩ := h
    subst h1 h2
    obtain ⟨a1, a2, a3, a4⟩ := step_package_semi st t c hc hne hl hk
    exact ⟨⟨step st t, by rw [run_cons], a1, by rw [a2]; simp, a3, a4⟩,
      fun u hu => List.mem_cons_of_mem _ hu⟩
  | case3 t hk1 hk2 =>
    intro st c tail r _ _ _ _ h
    simp [parsePkgTail, hk2, PERIOD, SEMI] at h
  | case4 t hk1 hk2 u rest' s hu ih =>
    intro st c tail r hwf hc hne hl h
    have hps : ¬ (Kind.sym PERIOD = Kind.sym SEMI) := by simp [PERIOD, SEMI]
    simp only [parsePkgTail, hk2, hps, if_false, if_true, hu] at h
    cases hp : parsePkgTail rest' with
    | none => simp [hp] at h
    | some pr =>
      obtain ⟨tl, r'⟩ := pr
      simp only [hp, Option.map_some, Option.some.injEq, Prod.mk.injEq] at h
      obtain ⟨h1, h2⟩ := h
      subst h1 h2
      obtain ⟨a1, a2, a3, a4⟩ := step_package_period st t c hc hne hl hk2
      obtain ⟨b1, b2, b3, b4⟩ := step_package_ident (step st t) u (c ++ [dot]) s a1 (Or.inr (by simp)) hu
      have hs : s ≠ dot := hwf u (by simp) s hu
      have hwf' : WfToks rest' := fun v hv => hwf v (by simp [hv])
      obtain ⟨⟨st', e, d1, d2, d3, d4⟩, hmem⟩ := ih (step (step st t) u) (c ++ [dot] ++ [s]) tl r' hwf' b1
        (by simp) (by simp [hs]) hp
      refine ⟨⟨st', by rw [run_cons, run_cons, e], d1, ?_, by rw [d3, b3, a3], by rw [d4, b4, a4]⟩, ?_⟩
      · rw [d2]; simp
      · intro v hv; exact List.mem_cons_of_mem _ (List.mem_cons_of_mem _ (hmem v hv))
  | case5 t hk1 hk2 u rest' hu =>
    intro st c tail r _ _ _ _ h
    have hps : ¬ (Kind.sym PERIOD = Kind.sym SEMI) := by simp [PERIOD, SEMI]
    simp only [parsePkgTail, hk2, hps, if_false, if_true] at h
    cases hk : u.kind with
    | ident s => exact (hu s hk).elim
    | str s => simp at h
    | num => simp at h
    | sym r => simp at h
  | case6 t rest hk1 hk2 =>
    intro st c tail r _ _ _ _ h
    rw [parsePkgTail.eq_def] at h
    simp [hk1, hk2] at h

/-- the statement after the `package` keyword -/
theorem run_parsePackage (ts : List Token) (st : St) (name : List UInt8) (r : List Token)
    (hwf : WfToks ts) (hc : InPkg st []) (h : parsePackage ts = some (name, r)) :
    (∃ st', run st ts = run st' r ∧ Clean st' ∧ st'.pkg = name ∧
      st'.imports = st.imports ∧ st'.errs = st.errs) ∧ (∀ u ∈ r, u ∈ ts) := by
  cases ts with
  | nil => simp [parsePackage] at h
  | cons t rest =>
    cases hk : t.kind with
    | ident s =>
      simp only [parsePackage, hk] at h
      cases hp : parsePkgTail rest with
      | none => simp [hp] at h
      | some pr =>
        obtain ⟨tl, r'⟩ := pr
        simp only [hp, Option.map_some, Option.some.injEq, Prod.mk.injEq] at h
        obtain ⟨h1, h2⟩ := h
        subst h1 h2
        have hs : s ≠ dot := hwf t (by simp) s hk
        obtain ⟨a1, a2, a3, a4⟩ := step_package_ident st t [] s hc (Or.inl rfl) hk
        obtain ⟨⟨st', e, d1, d2, d3, d4⟩, hmem⟩ := run_parsePkgTail rest (step st t) ([] ++ [s]) tl r'
          hwf.tail a1 (by simp) (by simp [hs]) hp
        exact ⟨⟨st', by rw [run_cons, e], d1, by rw [d2]; simp, by rw [d3, a3], by rw [d4, a4]⟩,
          fun v hv => List.mem_cons_of_mem _ (hmem v hv)⟩
    | str s => simp [parsePackage, hk] at h
    | num => simp [parsePackage, hk] at h
    | sym r => simp [parsePackage, hk] at h

/-! ## the whole file -/

theorem WfToks.of_mem {ts r : List Token} (h : WfToks ts) (hm : ∀ u ∈ r, u ∈ ts) : WfToks r :=
  fun u hu => h u (hm u hu)

theorem run_topLevelAux : ∀ (f : Nat) (ts : List Token) (st : St) (acc r : Res),
    WfToks ts → Clean st → st.pkg = acc.pkg → st.imports = acc.imports →
    topLevelAux f ts acc = some r →
    (run st ts).pkg = r.pkg ∧ (run st ts).imports = r.imports ∧ (run st ts).errs = st.errs := by
  intro f
  induction f with
  | zero => intro ts st acc r _ _ _ _ h; simp [topLevelAux] at h
  | succ f ih =>
    intro ts st acc r hwf hc hp hi h
    cases ts with
    | nil =>
      simp only [topLevelAux, Option.some.injEq] at h
      subst h
      exact ⟨hp, hi, rfl⟩
    | cons t rest =>
      simp only [topLevelAux] at h
      by_cases h1 : t.kind = .ident kwImport
      · rw [if_pos h1] at h
        cases hpi : parseImport rest with
        | none => simp [hpi] at h
        | some ir =>
          obtain ⟨imp, r'⟩ := ir
          simp only [hpi] at h
          obtain ⟨a1, a2, a3, a4, a5, a6, a7⟩ := step_import_kw st t hc h1
          obtain ⟨⟨st', e, b1, b2, b3, b4⟩, hmem⟩ := run_parseImport rest (step st t) imp r' a1 ⟨a2, a3, a4⟩ hpi
          have := ih r' st' { acc with imports := acc.imports ++ [imp] } r
            (hwf.tail.of_mem hmem) b1 (by rw [b2, a5, hp]) (by rw [b3, a6, hi]) h
          rw [run_cons, e]
          exact ⟨this.1, this.2.1, by rw [this.2.2, b4, a7]⟩
      · rw [if_neg h1] at h
        by_cases h2 : t.kind = .ident kwPackage
        · rw [if_pos h2] at h
          cases hpp : parsePackage rest with
          | none => simp [hpp] at h
          | some nr =>
            obtain ⟨name, r'⟩ := nr
            simp only [hpp] at h
            obtain ⟨a1, a2, a3, a4⟩ := step_package_kw st t hc h2
            obtain ⟨⟨st', e, b1, b2, b3, b4⟩, hmem⟩ := run_parsePackage rest (step st t) name r' hwf.tail a1 hpp
            have := ih r' st' { acc with pkg := name } r
              (hwf.tail.of_mem hmem) b1 (by rw [b2]) (by rw [b3, a3, hi]) h
            rw [run_cons, e]
            exact ⟨this.1, this.2.1, by rw [this.2.2, b4, a4]⟩
        · rw [if_neg h2] at h
          cases hs : skipStmt [] (t :: rest) with
          | none => simp [hs] at h
          | some r' =>
            simp only [hs] at h
            obtain ⟨⟨st', e, b1, b2, b3, b4⟩, hmem⟩ := run_skip (t :: rest) [] st r' hc.1 hc.2.1 hc.2.2.1
              (by intro _ _ t' rest' ht; cases ht; exact ⟨h1, h2⟩) hs
            have := ih r' st' acc r (hwf.of_mem hmem) b1 (by rw [b2, hp]) (by rw [b3, hi]) h
            rw [e]
            exact ⟨this.1, this.2.1, by rw [this.2.2, b4]⟩

theorem init_clean : Clean St.init := ⟨rfl, rfl, rfl, rfl⟩

/-- **Token level.** On a token stream in L (identifier texts never "."), `Scan` returns what
    `topLevel` reads and reports no syntax error. -/
theorem scan_eq_topLevel (ts : List Token) (r : Res) (hwf : WfToks ts) (h : topLevel ts = some r) :
    scanToks ts = ⟨r.pkg, r.imports, []⟩ := by
  have := run_topLevelAux (ts.length + 1) ts St.init ⟨[], []⟩ r hwf init_clean rfl rfl h
  simp only [scanToks, St.out, this.1, this.2.1, this.2.2]
  rfl

/-- no syntax error is reported on L -/
theorem no_syntax_error_on_L (ts : List Token) (r : Res) (hwf : WfToks ts) (h : topLevel ts = some r) :
    (scanToks ts).errs = [] := by
  rw [scan_eq_topLevel ts r hwf h]

/-! ## the lexer only produces identifiers made of identifier characters -/

theorem readIdent_prefix : ∀ (rs : List Nat) (p : Pos) (acc : List UInt8),
    ∃ x, (readIdent rs p acc).1 = acc ++ x := by
  intro rs
  induction rs with
  | nil => intro p acc; exact ⟨[], by simp [readIdent]⟩
  | cons c rest ih =>
    intro p acc
    simp only [readIdent]
    split
    · obtain ⟨x, hx⟩ := ih (adj p c) (acc ++ [UInt8.ofNat c])
      exact ⟨UInt8.ofNat c :: x, by rw [hx]; simp⟩
    · exact ⟨[], by simp⟩

theorem identStart_ne_dot (c : Nat) (h : isIdentStart c = true) (x : List UInt8) :
    [UInt8.ofNat c] ++ x ≠ dot := by
  intro e
  simp only [dot, List.singleton_append, List.cons.injEq] at e
  have h1 : (UInt8.ofNat c).toNat = 46 := by rw [e.1]; rfl
  simp only [UInt8.toNat_ofNat'] at h1
  simp [isIdentStart, isLower, isUpper] at h
  omega

/-- the property of one token behind `WfToks` -/
def IdOk (t : Token) : Prop := ∀ s, t.kind = .ident s → s ≠ dot

theorem symKind_idOk (c : Nat) (k : Kind) (h : symKind c = some k) (s : List UInt8)
    (hk : k = Kind.ident s) : s ≠ dot := by
  subst hk
  simp only [symKind] at h
  split at h
  · cases h
  · split at h
    · cases h
    · split at h
      · cases h
      · split at h
        · cases h; simp [dot]
        · cases h

theorem lexAll_wf (raw : Bool) : ∀ (f : Nat) (rs : List Nat) (p : Pos), ∀ t ∈ lexAll raw f rs p, IdOk t := by
  intro f rs p
  fun_induction lexAll raw f rs p <;> simp_all [IdOk]
  all_goals first
    | assumption
    | (rename_i c rest p p1 r h1 h2 h3 ih
       refine ⟨?_, by assumption⟩
       obtain ⟨x, hx⟩ := readIdent_prefix rest (adj p c) [UInt8.ofNat c]
       intro e
       exact identStart_ne_dot c h3 x (by rw [← hx]; exact e))
    | (refine ⟨?_, by assumption⟩
       intro s hs
       exact symKind_idOk _ _ (by assumption) s hs)

theorem lexWith_wf (raw : Bool) (src : List UInt8) : WfToks (lexWith raw src) :=
  fun t ht => lexAll_wf raw _ _ _ t ht

theorem lex_wf (src : List UInt8) : WfToks (lex src) := lexWith_wf false src

/-! ## the fuel of the lexer model is never exhausted -/

theorem readIdent_len : ∀ (rs : List Nat) (p : Pos) (acc : List UInt8),
    (readIdent rs p acc).2.1.length ≤ rs.length := by
  intro rs p acc
  fun_induction readIdent rs p acc <;> simp_all <;> omega

theorem readNumber_len : ∀ (rs : List Nat) (p : Pos) (b : Bool),
    (readNumber rs p b).1.length ≤ rs.length := by
  intro rs p b
  fun_induction readNumber rs p b <;> simp_all <;> omega

theorem skipLineComment_len : ∀ (rs : List Nat) (p : Pos),
    (skipLineComment rs p).1.length ≤ rs.length := by
  intro rs p
  fun_induction skipLineComment rs p <;> simp_all <;> omega

theorem skipBlockComment_len : ∀ (rs : List Nat) (p : Pos),
    (skipBlockComment rs p).1.length ≤ rs.length := by
  intro rs p
  fun_induction skipBlockComment rs p <;> simp_all <;> omega

theorem readString_len (raw : Bool) : ∀ (q : Nat) (rs : List Nat) (p : Pos) (buf : List UInt8),
    (readString raw q rs p buf).2.1.length ≤ rs.length := by
  intro q rs p buf
  fun_induction readString raw q rs p buf <;> simp_all <;> omega

theorem lexAll_fuel (raw : Bool) : ∀ (f g : Nat) (rs : List Nat) (p : Pos), rs.length < f → rs.length < g →
    lexAll raw f rs p = lexAll raw g rs p := by
  intro f
  induction f with
  | zero => intro g rs p h; omega
  | succ f ih =>
    intro g rs p hf hg
    cases g with
    | zero => omega
    | succ g =>
      cases rs with
      | nil => simp [lexAll]
      | cons c rest =>
        simp only [List.length_cons] at hf hg
        have key : ∀ (rs' : List Nat) (p' : Pos), rs'.length ≤ rest.length →
            lexAll raw f rs' p' = lexAll raw g rs' p' := fun rs' p' h => ih g rs' p' (by omega) (by omega)
        simp only [lexAll]
        repeat' split
        all_goals first
          | rfl
          | (apply key; first
              | exact Nat.le_refl _
              | exact Nat.le_trans (skipLineComment_len _ _) (by simp)
              | exact Nat.le_trans (skipBlockComment_len _ _) (by simp))
          | (congr 1; apply key; first
              | exact Nat.le_refl _
              | exact readNumber_len _ _ _
              | exact readIdent_len _ _ _
              | exact readString_len _ _ _ _ _
              | exact Nat.le_trans (readNumber_len _ _ _) (by simp))

/-- the fuel of `lex` is never exhausted: more fuel gives the same token stream -/
theorem lex_fuel (raw : Bool) (src : List UInt8) (f : Nat)
    (h : (decodeRunes (stripBom src)).length < f) :
    lexAll raw f (decodeRunes (stripBom src)) ⟨0, 0⟩ = lexWith raw src :=
  lexAll_fuel raw _ _ _ _ h (Nat.lt_succ_self _)

theorem decodeRune_width_pos (b : UInt8) (bs : List UInt8) : 1 ≤ (PCV.Utf8.decodeRune (b :: bs)).2 := by
  unfold PCV.Utf8.decodeRune
  simp only
  repeat' split
  all_goals simp

theorem decodeRunesAux_fuel : ∀ (f g : Nat) (bs : List UInt8), bs.length ≤ f → bs.length ≤ g →
    decodeRunesAux f bs = decodeRunesAux g bs := by
  intro f
  induction f with
  | zero =>
    intro g bs hf hg
    have : bs = [] := List.eq_nil_of_length_eq_zero (by omega)
    subst this
    cases g <;> simp [decodeRunesAux]
  | succ f ih =>
    intro g bs hf hg
    cases bs with
    | nil => cases g <;> simp [decodeRunesAux]
    | cons b bs =>
      cases g with
      | zero => simp at hg
      | succ g =>
        simp only [decodeRunesAux]
        congr 1
        have hw := decodeRune_width_pos b bs
        simp only [List.length_cons] at hf hg
        apply ih <;> (simp only [List.length_drop, List.length_cons]; omega)

/-- the fuel of `decodeRunes` is never exhausted -/
theorem decodeRunes_fuel (bs : List UInt8) (f : Nat) (h : bs.length ≤ f) :
    decodeRunesAux f bs = decodeRunes bs :=
  decodeRunesAux_fuel _ _ _ h (Nat.le_refl _)


/-! ## the reference lexer differs from fastscan's only on ill-formed UTF-8 -/

theorem readIdent_mem : ∀ (rs : List Nat) (p : Pos) (acc : List UInt8),
    ∀ c ∈ (readIdent rs p acc).2.1, c ∈ rs := by
  intro rs p acc
  fun_induction readIdent rs p acc <;> simp_all

theorem readNumber_mem : ∀ (rs : List Nat) (p : Pos) (b : Bool),
    ∀ c ∈ (readNumber rs p b).1, c ∈ rs := by
  intro rs p b
  fun_induction readNumber rs p b <;> simp_all

theorem skipLineComment_mem : ∀ (rs : List Nat) (p : Pos),
    ∀ c ∈ (skipLineComment rs p).1, c ∈ rs := by
  intro rs p
  fun_induction skipLineComment rs p <;> simp_all

theorem skipBlockComment_mem : ∀ (rs : List Nat) (p : Pos),
    ∀ c ∈ (skipBlockComment rs p).1, c ∈ rs := by
  intro rs p
  fun_induction skipBlockComment rs p <;> simp_all

theorem readString_mem (raw : Bool) (q : Nat) (rs : List Nat) (p : Pos) (buf : List UInt8) :
    ∀ c ∈ (readString raw q rs p buf).2.1, c ∈ rs := by
  fun_induction readString raw q rs p buf <;> simp_all

theorem writePlain_raw_irrel (c : Nat) (h : c < rawBase) : writePlain true c = writePlain false c := by
  simp [writePlain]; omega

theorem readString_raw_irrel (q : Nat) (rs : List Nat) (p : Pos) (buf : List UInt8) :
    (∀ c ∈ rs, c < rawBase) → readString true q rs p buf = readString false q rs p buf := by
  fun_induction readString true q rs p buf <;> intro h <;> (conv => rhs; unfold readString) <;> simp_all +zetaDelta [writePlain_raw_irrel]
  all_goals (intro hh; omega)

theorem lexAll_raw_irrel : ∀ (f : Nat) (rs : List Nat) (p : Pos), (∀ c ∈ rs, c < rawBase) →
    lexAll true f rs p = lexAll false f rs p := by
  intro f
  induction f with
  | zero => intro rs p _; simp [lexAll]
  | succ f ih =>
    intro rs p h
    cases rs with
    | nil => simp [lexAll]
    | cons c rest =>
      have hrest : ∀ x ∈ rest, x < rawBase := fun x hx => h x (List.mem_cons_of_mem _ hx)
      have key : ∀ (rs' : List Nat) (p' : Pos), (∀ x ∈ rs', x ∈ rest) →
          lexAll true f rs' p' = lexAll false f rs' p' :=
        fun rs' p' hm => ih rs' p' (fun x hx => hrest x (hm x hx))
      simp only [lexAll, readString_raw_irrel _ rest _ _ hrest]
      repeat' split
      all_goals first
        | rfl
        | (apply key; first
            | exact fun x hx => hx
            | exact fun x hx => List.mem_cons_of_mem _ (skipLineComment_mem _ _ x hx)
            | exact fun x hx => List.mem_cons_of_mem _ (skipBlockComment_mem _ _ x hx))
        | (congr 1; apply key; first
            | exact fun x hx => hx
            | exact fun x hx => readNumber_mem _ _ _ x hx
            | exact fun x hx => readIdent_mem _ _ _ x hx
            | exact fun x hx => readString_mem _ _ _ _ _ x hx
            | exact fun x hx => List.mem_cons_of_mem _ (readNumber_mem _ _ _ x hx))

/-- on a file without ill-formed UTF-8 the reference token stream is fastscan's token stream -/
theorem lexRef_eq_lex (src : List UInt8) (h : ∀ c ∈ decodeRunes (stripBom src), c < rawBase) :
    lexRef src = lex src :=
  lexAll_raw_irrel _ _ _ h


/-! ## L contains every properly nested file (the grammar view of `topLevel`) -/

def isBracket (k : Kind) : Bool :=
  match k with
  | .sym r => isOpen r || isClose r
  | _ => false

/-- properly nested token sequences: any tokens, brackets `( ) [ ] { } < >` matched -/
inductive Bal : List Token → Prop
  | nil : Bal []
  | atom (t : Token) (ts : List Token) : isBracket t.kind = false → Bal ts → Bal (t :: ts)
  | wrap (o c : Token) (r : Nat) (a b : List Token) : o.kind = .sym r → isOpen r = true →
      c.kind = .sym (closeOf r) → Bal a → Bal b → Bal (o :: a ++ c :: b)

/-- the part of an other-stmt before its terminator: no `;`, no `{ }` group outside brackets -/
inductive Flat : List Token → Prop
  | nil : Flat []
  | atom (t : Token) (ts : List Token) : isBracket t.kind = false → t.kind ≠ .sym SEMI →
      Flat ts → Flat (t :: ts)
  | group (o c : Token) (r : Nat) (a b : List Token) : o.kind = .sym r → isOpen r = true →
      r ≠ 123 → c.kind = .sym (closeOf r) → Bal a → Flat b → Flat (o :: a ++ c :: b)

/-- other-stmt: `… ;` or `… { … }` -/
inductive Other : List Token → Prop
  | semi (h : List Token) (t : Token) : Flat h → t.kind = .sym SEMI → Other (h ++ [t])
  | block (h : List Token) (o : Token) (body : List Token) (c : Token) : Flat h →
      o.kind = .sym 123 → Bal body → c.kind = .sym 125 → Other (h ++ o :: body ++ [c])

theorem stackStep_nonbracket (stack : List Nat) (k : Kind) (h : isBracket k = false) :
    stackStep stack k = stack := by
  cases k with
  | sym r =>
    simp only [isBracket, Bool.or_eq_false_iff] at h
    simp [stackStep, h.1, h.2]
  | str s => rfl
  | num => rfl
  | ident s => rfl

theorem stackStep_open (stack : List Nat) (r : Nat) (h : isOpen r = true) :
    stackStep stack (.sym r) = closeOf r :: stack := by
  simp [stackStep, h]

theorem isOpen_cases (r : Nat) (h : isOpen r = true) : r = 40 ∨ r = 123 ∨ r = 91 ∨ r = 60 := by
  simp only [isOpen, Bool.or_eq_true, decide_eq_true_eq] at h
  omega

theorem stackStep_close (stack : List Nat) (r : Nat) (h : isOpen r = true) :
    stackStep (closeOf r :: stack) (.sym (closeOf r)) = stack := by
  have := isOpen_cases r h
  rcases this with h | h | h | h <;> subst h <;> simp [stackStep, closeOf, isOpen, isClose]

theorem skipStmt_cons_continue (stack : List Nat) (t : Token) (rest : List Token)
    (h : ¬ (isStmtEnd t.kind = true ∧ stackStep stack t.kind = [])) :
    skipStmt stack (t :: rest) = skipStmt (stackStep stack t.kind) rest := by
  simp only [skipStmt]
  rw [if_neg]
  simpa using h

theorem bal_skip {a : List Token} (ha : Bal a) : ∀ (stack : List Nat) (rest : List Token),
    stack ≠ [] → skipStmt stack (a ++ rest) = skipStmt stack rest := by
  induction ha with
  | nil => intro stack rest _; rfl
  | atom t ts hb _ ih =>
    intro stack rest hne
    rw [List.cons_append, skipStmt_cons_continue, stackStep_nonbracket _ _ hb]
    · exact ih stack rest hne
    · rw [stackStep_nonbracket _ _ hb]; exact fun h => hne h.2
  | wrap o c r a b ho hop hc _ _ iha ihb =>
    intro stack rest hne
    have e : (o :: a ++ c :: b) ++ rest = o :: (a ++ (c :: (b ++ rest))) := by simp
    rw [e, skipStmt_cons_continue, ho, stackStep_open _ _ hop, iha _ _ (by simp),
      skipStmt_cons_continue, hc, stackStep_close _ _ hop]
    · exact ihb stack rest hne
    · rw [hc, stackStep_close _ _ hop]; exact fun h => hne h.2
    · rw [ho, stackStep_open _ _ hop]; simp

theorem flat_skip {h : List Token} (hf : Flat h) : ∀ (rest : List Token),
    skipStmt [] (h ++ rest) = skipStmt [] rest := by
  induction hf with
  | nil => intro rest; rfl
  | atom t ts hb hs _ ih =>
    intro rest
    rw [List.cons_append, skipStmt_cons_continue, stackStep_nonbracket _ _ hb]
    · exact ih rest
    · intro h
      have h1 := h.1
      simp only [isStmtEnd, Bool.or_eq_true, decide_eq_true_eq] at h1
      rcases h1 with h1 | h1
      · rw [h1] at hb; simp [isBracket, CLOSE_BRACE, isOpen, isClose] at hb
      · exact hs h1
  | group o c r a b ho hop hr hc ha _ ih =>
    intro rest
    have e : (o :: a ++ c :: b) ++ rest = o :: (a ++ (c :: (b ++ rest))) := by simp
    rw [e, skipStmt_cons_continue, ho, stackStep_open _ _ hop, bal_skip ha _ _ (by simp),
      skipStmt_cons_continue, hc, stackStep_close _ _ hop]
    · exact ih rest
    · intro h
      have h1 := h.1
      rw [hc] at h1
      have := isOpen_cases r hop
      rcases this with h | h | h | h <;> subst h <;>
        simp [isStmtEnd, closeOf, CLOSE_BRACE, SEMI] at h1 hr
    · rw [ho, stackStep_open _ _ hop]; simp

theorem other_skip {s : List Token} (hs : Other s) (rest : List Token) :
    skipStmt [] (s ++ rest) = some rest := by
  cases hs with
  | semi h t hf ht =>
    rw [List.append_assoc, flat_skip hf]
    simp [skipStmt, ht, isStmtEnd, stackStep, SEMI, isOpen, isClose]
  | block h o body c hf ho hb hc =>
    have e : (h ++ o :: body ++ [c]) ++ rest = h ++ (o :: (body ++ (c :: rest))) := by simp
    rw [e, flat_skip hf, skipStmt_cons_continue, ho, stackStep_open _ _ (by decide),
      bal_skip hb _ _ (by simp)]
    · simp [skipStmt, hc, isStmtEnd, stackStep, closeOf, isOpen, isClose, CLOSE_BRACE]
    · rw [ho, stackStep_open _ _ (by decide)]; simp

/-- one or more adjacent string literals and their concatenated value -/
inductive Strs : List Token → List UInt8 → Prop
  | one (t : Token) (s : List UInt8) : t.kind = .str s → Strs [t] s
  | cons (t : Token) (s : List UInt8) (ts : List Token) (s' : List UInt8) : t.kind = .str s →
      Strs ts s' → Strs (t :: ts) (s ++ s')

/-- ident (`.` ident)* and the dotted name -/
inductive QIdent : List Token → List UInt8 → Prop
  | one (t : Token) (s : List UInt8) : t.kind = .ident s → QIdent [t] s
  | dot (t : Token) (s : List UInt8) (d : Token) (ts : List Token) (s' : List UInt8) :
      t.kind = .ident s → d.kind = .sym PERIOD → QIdent ts s' → QIdent (t :: d :: ts) (s ++ dot ++ s')

def isModifier (k : Kind) : Prop := k = .ident kwPublic ∨ k = .ident kwWeak ∨ k = .ident kwOption

/-- `File ts acc r`: `ts` is a sequence of top-level statements; starting from the result `acc`
    the statements declare the result `r` (imports appended in order, last package wins). -/
inductive File : List Token → Res → Res → Prop
  | nil (acc : Res) : File [] acc acc
  | imp (kw : Token) (strs : List Token) (semi : Token) (rest : List Token) (path : List UInt8)
      (acc r : Res) : kw.kind = .ident kwImport → Strs strs path → semi.kind = .sym SEMI →
      File rest { acc with imports := acc.imports ++ [⟨path, false, false, false⟩] } r →
      File (kw :: strs ++ semi :: rest) acc r
  | impMod (kw m : Token) (strs : List Token) (semi : Token) (rest : List Token)
      (path : List UInt8) (acc r : Res) : kw.kind = .ident kwImport → isModifier m.kind →
      Strs strs path → semi.kind = .sym SEMI →
      File rest { acc with imports := acc.imports ++
        [⟨path, m.kind = .ident kwPublic, m.kind = .ident kwWeak, m.kind = .ident kwOption⟩] } r →
      File (kw :: m :: strs ++ semi :: rest) acc r
  | pkg (kw : Token) (q : List Token) (semi : Token) (rest : List Token) (name : List UInt8)
      (acc r : Res) : kw.kind = .ident kwPackage → QIdent q name → semi.kind = .sym SEMI →
      File rest { acc with pkg := name } r → File (kw :: q ++ semi :: rest) acc r
  | other (t : Token) (s rest : List Token) (acc r : Res) : Other (t :: s) →
      t.kind ≠ .ident kwImport → t.kind ≠ .ident kwPackage → File rest acc r →
      File (t :: s ++ rest) acc r

theorem strs_takeStrs {strs : List Token} {path : List UInt8} (h : Strs strs path) (semi : Token)
    (rest : List Token) (hs : semi.kind = .sym SEMI) :
    takeStrs (strs ++ semi :: rest) = (path, semi :: rest) := by
  induction h with
  | one t s ht => simp [takeStrs, ht, hs]
  | cons t s ts s' ht _ ih => simp [takeStrs, ht, ih]

theorem strs_parsePath {strs : List Token} {path : List UInt8} (h : Strs strs path) (semi : Token)
    (rest : List Token) (hs : semi.kind = .sym SEMI) :
    parsePath (strs ++ semi :: rest) = some (path, rest) := by
  cases h with
  | one t s ht => simp [parsePath, ht, takeStrs, hs]
  | cons t s ts s' ht h' => simp [parsePath, ht, strs_takeStrs h' semi rest hs, hs]

theorem strs_head_not_modifier {strs : List Token} {path : List UInt8} (h : Strs strs path) :
    ∃ t tl, strs = t :: tl ∧ ¬ isModifier t.kind := by
  cases h with
  | one t s ht => exact ⟨t, [], rfl, by simp [isModifier, ht]⟩
  | cons t s ts s' ht h' => exact ⟨t, ts, rfl, by simp [isModifier, ht]⟩

theorem qident_parse {q : List Token} {name : List UInt8} (h : QIdent q name) (semi : Token)
    (rest : List Token) (hs : semi.kind = .sym SEMI) :
    ∃ t s tl tail, q = t :: tl ∧ t.kind = .ident s ∧
      parsePkgTail (tl ++ semi :: rest) = some (tail, rest) ∧ name = s ++ tail := by
  induction h with
  | one t s ht =>
    refine ⟨t, s, [], [], rfl, ht, ?_, by simp⟩
    rw [List.nil_append, parsePkgTail.eq_def]; simp [hs]
  | dot t s d ts s' ht hd _ ih =>
    obtain ⟨u, s2, tl, tail, e, hu, hp, hn⟩ := ih
    refine ⟨t, s, d :: ts, dot ++ s2 ++ tail, rfl, ht, ?_, by rw [hn]; simp⟩
    subst e
    have hps : ¬ (Kind.sym PERIOD = Kind.sym SEMI) := by simp [PERIOD, SEMI]
    simp [parsePkgTail, hd, hps, hu, hp]

theorem qident_parsePackage {q : List Token} {name : List UInt8} (h : QIdent q name) (semi : Token)
    (rest : List Token) (hs : semi.kind = .sym SEMI) :
    parsePackage (q ++ semi :: rest) = some (name, rest) := by
  obtain ⟨t, s, tl, tail, e, ht, hp, hn⟩ := qident_parse h semi rest hs
  subst e
  simp [parsePackage, ht, hp, hn]

theorem strs_length {strs : List Token} {path : List UInt8} (h : Strs strs path) : 0 < strs.length := by
  cases h <;> simp

/-- **L contains the grammar.** Every token sequence derivable as a `File` is read by
    `topLevel` with the declared result (in particular the fuel of `topLevel` suffices). -/
theorem file_topLevelAux {ts : List Token} {acc r : Res} (h : File ts acc r) :
    ∀ f, ts.length < f → topLevelAux f ts acc = some r := by
  induction h with
  | nil acc => intro f hf; cases f with
    | zero => omega
    | succ f => rfl
  | imp kw strs semi rest path acc r hk hstr hs _ ih =>
    intro f hf
    cases f with
    | zero => omega
    | succ f =>
      obtain ⟨t, tl, e, hnm⟩ := strs_head_not_modifier hstr
      have hp := strs_parsePath hstr semi rest hs
      have hpi : parseImport (strs ++ semi :: rest) = some (⟨path, false, false, false⟩, rest) := by
        rw [e] at hp ⊢
        simp only [List.cons_append, parseImport]
        unfold isModifier at hnm
        rw [if_neg hnm]
        simp only [List.cons_append] at hp
        rw [hp]; rfl
      have e2 : kw :: strs ++ semi :: rest = kw :: (strs ++ semi :: rest) := by simp
      rw [e2]
      simp only [topLevelAux, hk, if_true, hpi]
      apply ih
      simp only [List.length_cons, List.length_append] at hf
      omega
  | impMod kw m strs semi rest path acc r hk hm hstr hs _ ih =>
    intro f hf
    cases f with
    | zero => omega
    | succ f =>
      have hp := strs_parsePath hstr semi rest hs
      have e2 : kw :: m :: strs ++ semi :: rest = kw :: m :: (strs ++ semi :: rest) := by simp
      rw [e2]
      have hpi : parseImport (m :: (strs ++ semi :: rest)) =
          some (⟨path, m.kind = .ident kwPublic, m.kind = .ident kwWeak, m.kind = .ident kwOption⟩, rest) := by
        simp only [parseImport]
        unfold isModifier at hm
        rw [if_pos hm, hp]; rfl
      simp only [topLevelAux, hk, if_true, hpi]
      apply ih
      simp only [List.length_cons, List.length_append] at hf
      omega
  | pkg kw q semi rest name acc r hk hq hs _ ih =>
    intro f hf
    cases f with
    | zero => omega
    | succ f =>
      have hp := qident_parsePackage hq semi rest hs
      have e2 : kw :: q ++ semi :: rest = kw :: (q ++ semi :: rest) := by simp
      have hne : ¬ (Kind.ident kwPackage = Kind.ident kwImport) := by decide
      rw [e2]
      simp only [topLevelAux, hk, hne, if_false, if_true, hp]
      apply ih
      simp only [List.length_cons, List.length_append] at hf
      omega
  | other t s rest acc r ho h1 h2 _ ih =>
    intro f hf
    cases f with
    | zero => omega
    | succ f =>
      have hsk := other_skip ho rest
      have e2 : t :: s ++ rest = t :: (s ++ rest) := by simp
      rw [e2]
      simp only [List.cons_append] at hsk
      simp only [topLevelAux, h1, h2, if_false, hsk]
      apply ih
      simp only [List.length_cons, List.length_append] at hf
      omega

theorem file_topLevel {ts : List Token} {r : Res} (h : File ts ⟨[], []⟩ r) : topLevel ts = some r :=
  file_topLevelAux h _ (Nat.lt_succ_self _)


end PCV.Fastscan
