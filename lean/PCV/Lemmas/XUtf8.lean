/-
Facts about `Utf8.decodeRune` needed by the experimental-lexer proofs: widths, agreement with
`utf8.RuneLen`, bytes of multi-byte sequences, and validity (`V`) of a byte string.
-/
import PCV.Model.Utf8
import PCV.Model.XLexer
namespace PCV.XLexer
open PCV.Utf8 PCV.TokenStream

/-- the possible outcomes of `decodeRune` -/
inductive DecCase (bs : Bytes) : Prop
  | empty (h : bs = []) (hd : decodeRune bs = (runeError, 0))
  | ascii (b : UInt8) (r : Bytes) (h : bs = b :: r) (hb : b.toNat < 0x80) (hd : decodeRune bs = (b.toNat, 1))
  | bad (b : UInt8) (r : Bytes) (h : bs = b :: r) (hb : 0x80 ≤ b.toNat) (hd : decodeRune bs = (runeError, 1))
  | two (b0 b1 : UInt8) (r : Bytes) (v : Nat) (h : bs = b0 :: b1 :: r)
      (h0 : 0x80 ≤ b0.toNat) (h1 : 0x80 ≤ b1.toNat)
      (hd : decodeRune bs = (v, 2)) (hv : 0x80 ≤ v ∧ v < 0x800)
  | three (b0 b1 b2 : UInt8) (r : Bytes) (v : Nat) (h : bs = b0 :: b1 :: b2 :: r)
      (h0 : 0x80 ≤ b0.toNat) (h1 : 0x80 ≤ b1.toNat) (h2 : 0x80 ≤ b2.toNat)
      (hd : decodeRune bs = (v, 3)) (hv : 0x800 ≤ v ∧ v < 0x10000 ∧ ¬ (0xD800 ≤ v ∧ v ≤ 0xDFFF))
  | four (b0 b1 b2 b3 : UInt8) (r : Bytes) (v : Nat) (h : bs = b0 :: b1 :: b2 :: b3 :: r)
      (h0 : 0x80 ≤ b0.toNat) (h1 : 0x80 ≤ b1.toNat) (h2 : 0x80 ≤ b2.toNat) (h3 : 0x80 ≤ b3.toNat)
      (hd : decodeRune bs = (v, 4)) (hv : 0x10000 ≤ v ∧ v ≤ 0x10FFFF)

theorem decode_cases (bs : Bytes) : DecCase bs := by
  match bs with
  | [] => exact .empty rfl rfl
  | [b0] =>
    by_cases h : b0.toNat < 0x80
    · exact .ascii b0 [] rfl h (by simp [decodeRune, h])
    · refine .bad b0 [] rfl (by omega) ?_
      simp only [decodeRune]; repeat' split
      all_goals first | omega | simp
  | [b0, b1] =>
    by_cases h : b0.toNat < 0x80
    · exact .ascii b0 _ rfl h (by simp [decodeRune, h])
    · by_cases h2 : 0xC2 ≤ b0.toNat ∧ b0.toNat < 0xE0 ∧ 0x80 ≤ b1.toNat ∧ b1.toNat ≤ 0xBF
      · refine .two b0 b1 [] ((b0.toNat - 0xC0) * 64 + (b1.toNat - 0x80)) rfl (by omega) (by omega) ?_ (by omega)
        simp only [decodeRune]; repeat' split
        all_goals first | omega | simp
      · refine .bad b0 _ rfl (by omega) ?_
        simp only [decodeRune]; repeat' split
        all_goals first | omega | simp
  | [b0, b1, b2] =>
    by_cases h : b0.toNat < 0x80
    · exact .ascii b0 _ rfl h (by simp [decodeRune, h])
    · by_cases h2 : 0xC2 ≤ b0.toNat ∧ b0.toNat < 0xE0 ∧ 0x80 ≤ b1.toNat ∧ b1.toNat ≤ 0xBF
      · refine .two b0 b1 _ ((b0.toNat - 0xC0) * 64 + (b1.toNat - 0x80)) rfl (by omega) (by omega) ?_ (by omega)
        simp only [decodeRune]; repeat' split
        all_goals first | omega | simp
      · by_cases h3 : 0xE0 ≤ b0.toNat ∧ b0.toNat < 0xF0 ∧
            (b0.toNat = 0xE0 → 0xA0 ≤ b1.toNat) ∧ 0x80 ≤ b1.toNat ∧
            (b0.toNat = 0xED → b1.toNat ≤ 0x9F) ∧ b1.toNat ≤ 0xBF ∧ 0x80 ≤ b2.toNat ∧ b2.toNat ≤ 0xBF
        · refine .three b0 b1 b2 _ ((b0.toNat - 0xE0) * 4096 + (b1.toNat - 0x80) * 64 + (b2.toNat - 0x80)) rfl
            (by omega) (by omega) (by omega) ?_ ?_
          · simp only [decodeRune]; repeat' split
            all_goals first | omega | simp
          · omega
        · refine .bad b0 _ rfl (by omega) ?_
          simp only [decodeRune]; repeat' split
          all_goals first | omega | (exfalso; apply h3; omega) | simp
  | b0 :: b1 :: b2 :: b3 :: r =>
    by_cases h : b0.toNat < 0x80
    · exact .ascii b0 _ rfl h (by simp [decodeRune, h])
    · by_cases h2 : 0xC2 ≤ b0.toNat ∧ b0.toNat < 0xE0 ∧ 0x80 ≤ b1.toNat ∧ b1.toNat ≤ 0xBF
      · refine .two b0 b1 _ ((b0.toNat - 0xC0) * 64 + (b1.toNat - 0x80)) rfl (by omega) (by omega) ?_ (by omega)
        simp only [decodeRune]; repeat' split
        all_goals first | omega | simp
      · by_cases h3 : 0xE0 ≤ b0.toNat ∧ b0.toNat < 0xF0 ∧
            (b0.toNat = 0xE0 → 0xA0 ≤ b1.toNat) ∧ 0x80 ≤ b1.toNat ∧
            (b0.toNat = 0xED → b1.toNat ≤ 0x9F) ∧ b1.toNat ≤ 0xBF ∧ 0x80 ≤ b2.toNat ∧ b2.toNat ≤ 0xBF
        · refine .three b0 b1 b2 _ ((b0.toNat - 0xE0) * 4096 + (b1.toNat - 0x80) * 64 + (b2.toNat - 0x80)) rfl
            (by omega) (by omega) (by omega) ?_ ?_
          · simp only [decodeRune]; repeat' split
            all_goals first | omega | simp
          · omega
        · by_cases h4 : 0xF0 ≤ b0.toNat ∧ b0.toNat < 0xF5 ∧
              (b0.toNat = 0xF0 → 0x90 ≤ b1.toNat) ∧ 0x80 ≤ b1.toNat ∧
              (b0.toNat = 0xF4 → b1.toNat ≤ 0x8F) ∧ b1.toNat ≤ 0xBF ∧ 0x80 ≤ b2.toNat ∧ b2.toNat ≤ 0xBF ∧
              0x80 ≤ b3.toNat ∧ b3.toNat ≤ 0xBF
          · refine .four b0 b1 b2 b3 _
              ((b0.toNat - 0xF0) * 262144 + (b1.toNat - 0x80) * 4096 + (b2.toNat - 0x80) * 64 + (b3.toNat - 0x80))
              rfl (by omega) (by omega) (by omega) (by omega) ?_ ?_
            · simp only [decodeRune]; repeat' split
              all_goals first | omega | simp
            · omega
          · refine .bad b0 _ rfl (by omega) ?_
            simp only [decodeRune]; repeat' split
            all_goals first | omega | (exfalso; apply h3; omega) | (exfalso; apply h4; omega) | simp

/-- successful decode, as tested by `stringsx.Rune` / `stringsx.Runes` -/
def decOk (bs : Bytes) : Prop :=
  (decodeRune bs).2 ≠ 0 ∧ ¬ ((decodeRune bs).1 = runeError ∧ (decodeRune bs).2 < 2)

theorem decode_width_le (bs : Bytes) : (decodeRune bs).2 ≤ bs.length := by
  cases decode_cases bs with
  | empty h hd => simp [hd]
  | ascii b r h hb hd => subst h; simp [hd]
  | bad b r h hb hd => subst h; simp [hd]
  | two b0 b1 r v h h0 h1 hd hv => subst h; simp [hd]
  | three b0 b1 b2 r v h h0 h1 h2 hd hv => subst h; simp [hd]
  | four b0 b1 b2 b3 r v h h0 h1 h2 h3 hd hv => subst h; simp [hd]

/-- a successful decode has width `utf8.RuneLen(r)`, which is at least 1 -/
theorem decode_runeLen (bs : Bytes) (h : decOk bs) :
    runeLen (decodeRune bs).1 = (decodeRune bs).2 ∧ 1 ≤ (decodeRune bs).2 := by
  unfold decOk at h
  cases decode_cases bs with
  | empty h' hd => simp [hd] at h
  | bad b r h' hb hd => simp [hd] at h
  | ascii b r h' hb hd =>
    rw [hd]; refine ⟨?_, by simp⟩
    simp only [runeLen]; repeat' split
    all_goals omega
  | two b0 b1 r v h' h0 h1 hd hv =>
    rw [hd]; refine ⟨?_, by simp⟩
    simp only [runeLen]; repeat' split
    all_goals omega
  | three b0 b1 b2 r v h' h0 h1 h2 hd hv =>
    rw [hd]; refine ⟨?_, by simp⟩
    simp only [runeLen]; repeat' split
    all_goals omega
  | four b0 b1 b2 b3 r v h' h0 h1 h2 h3 hd hv =>
    rw [hd]; refine ⟨?_, by simp⟩
    simp only [runeLen]; repeat' split
    all_goals omega

/-- a rune below 0x80 is decoded from exactly that byte -/
theorem decode_ascii_head (bs : Bytes) (h : decOk bs) (hr : (decodeRune bs).1 < 0x80) :
    ∃ b r, bs = b :: r ∧ b.toNat = (decodeRune bs).1 := by
  unfold decOk at h
  cases decode_cases bs with
  | empty h' hd => simp [hd] at h
  | ascii b r h' hb hd => exact ⟨b, r, h', by simp [hd]⟩
  | bad b r h' hb hd => simp [hd] at h
  | two b0 b1 r v h' h0 h1 hd hv => simp [hd] at hr; omega
  | three b0 b1 b2 r v h' h0 h1 h2 hd hv => simp [hd] at hr; omega
  | four b0 b1 b2 b3 r v h' h0 h1 h2 h3 hd hv => simp [hd] at hr; omega

/-- valid UTF-8: every decoding step from the start succeeds -/
inductive V : Bytes → Prop
  | nil : V []
  | step (bs : Bytes) (h : decOk bs) (hr : V (bs.drop (decodeRune bs).2)) : V bs

theorem V_inv (bs : Bytes) (h : V bs) (hne : bs ≠ []) : decOk bs ∧ V (bs.drop (decodeRune bs).2) := by
  cases h with
  | nil => exact absurd rfl hne
  | step _ h hr => exact ⟨h, hr⟩

/-- in valid UTF-8 every ASCII byte sits on a rune boundary -/
theorem V_ascii_pos (bs : Bytes) (h : V bs) (p : Nat) (hp : p < bs.length)
    (hb : ∀ b, bs[p]? = some b → b.toNat < 0x80) : V (bs.drop p) := by
  induction h generalizing p with
  | nil => simp at hp
  | step bs hok hr ih =>
    by_cases hp0 : p = 0
    · subst hp0; simpa using V.step bs hok hr
    · have hw := decode_width_le bs
      by_cases hpw : (decodeRune bs).2 ≤ p
      · have := ih (p - (decodeRune bs).2) (by simp; omega) (by
          intro b hb'
          apply hb
          rw [List.getElem?_drop] at hb'
          rw [← hb']; congr 1; omega)
        rw [List.drop_drop] at this
        have e : (decodeRune bs).2 + (p - (decodeRune bs).2) = p := by omega
        rw [e] at this; exact this
      · -- p strictly inside a multi-byte sequence: that byte is ≥ 0x80
        exfalso
        unfold decOk at hok
        cases decode_cases bs with
        | empty h' hd => simp [hd] at hok
        | ascii b r h' hb' hd => simp [hd] at hpw; omega
        | bad b r h' hb' hd => simp [hd] at hok
        | two b0 b1 r v h' h0 h1 hd hv =>
          simp [hd] at hpw
          have : p = 1 := by omega
          subst this
          have := hb b1 (by simp [h'])
          omega
        | three b0 b1 b2 r v h' h0 h1 h2 hd hv =>
          simp [hd] at hpw
          have : p = 1 ∨ p = 2 := by omega
          rcases this with rfl | rfl
          · have := hb b1 (by simp [h']); omega
          · have := hb b2 (by simp [h']); omega
        | four b0 b1 b2 b3 r v h' h0 h1 h2 h3 hd hv =>
          simp [hd] at hpw
          have : p = 1 ∨ p = 2 ∨ p = 3 := by omega
          rcases this with rfl | rfl | rfl
          · have := hb b1 (by simp [h']); omega
          · have := hb b2 (by simp [h']); omega
          · have := hb b3 (by simp [h']); omega

/-- one ASCII byte at the head is one rune -/
theorem V_drop_one_ascii (b : UInt8) (r : Bytes) (h : V (b :: r)) (hb : b.toNat < 0x80) : V r := by
  have := (V_inv _ h (by simp)).2
  have hd : decodeRune (b :: r) = (b.toNat, 1) := by
    cases decode_cases (b :: r) with
    | empty h' hd => simp at h'
    | ascii b' r' h' hb' hd => simp at h'; obtain ⟨rfl, rfl⟩ := h'; exact hd
    | bad b' r' h' hb' hd => simp at h'; obtain ⟨rfl, rfl⟩ := h'; omega
    | two b0 b1 r' v h' h0 h1 hd hv => simp at h'; obtain ⟨rfl, rfl⟩ := h'; omega
    | three b0 b1 b2 r' v h' h0 h1 h2 hd hv => simp at h'; obtain ⟨rfl, rfl⟩ := h'; omega
    | four b0 b1 b2 b3 r' v h' h0 h1 h2 h3 hd hv => simp at h'; obtain ⟨rfl, rfl⟩ := h'; omega
  simpa [hd] using this

/-- skipping an ASCII prefix of valid UTF-8 leaves valid UTF-8 -/
theorem V_drop_ascii_prefix (pre bs : Bytes) (h : V bs) (hp : pre.isPrefixOf bs = true)
    (ha : ∀ b ∈ pre, b.toNat < 0x80) : V (bs.drop pre.length) := by
  induction pre generalizing bs with
  | nil => simpa using h
  | cons a pre ih =>
    cases bs with
    | nil => simp [List.isPrefixOf] at hp
    | cons b bs =>
      simp only [List.isPrefixOf, Bool.and_eq_true, beq_iff_eq] at hp
      have hb : b.toNat < 0x80 := by rw [← hp.1]; exact ha a (by simp)
      have := V_drop_one_ascii b bs h hb
      simpa using ih bs this hp.2 (fun x hx => ha x (by simp [hx]))

end PCV.XLexer
