/-
Lemmas about the toposort model (`PCV.Model.Toposort`): graph vocabulary, the DFS loop
invariant, and the fuel bound.  Headline theorems are in `PCV/Props/C41.lean`.
-/
import PCV.Model.Toposort
namespace PCV.Toposort

/-! ## Graph vocabulary -/

def Edge (g : Graph) (u v : Nat) : Prop := v ∈ children g u

/-- non-empty path -/
inductive Path (g : Graph) : Nat → Nat → Prop where
  | single {u v} : Edge g u v → Path g u v
  | snoc {u v w} : Path g u v → Edge g v w → Path g u w

/-- reachable from one of the roots (in zero or more steps) -/
inductive Reach (g : Graph) (roots : List Nat) : Nat → Prop where
  | root {r} : r ∈ roots → Reach g roots r
  | step {u v} : Reach g roots u → Edge g u v → Reach g roots v

/-- no reachable node lies on a cycle -/
def AcyclicFrom (g : Graph) (roots : List Nat) : Prop := ∀ v, Reach g roots v → ¬ Path g v v

/-- all roots and all edge targets are nodes of the graph -/
def WF (g : Graph) (roots : List Nat) : Prop :=
  (∀ r ∈ roots, r < g.length) ∧ (∀ chs ∈ g, ∀ c ∈ chs, c < g.length)

theorem children_lt {g : Graph} (h : ∀ chs ∈ g, ∀ c ∈ chs, c < g.length) {v c : Nat}
    (hc : c ∈ children g v) : c < g.length := by
  unfold children at hc
  by_cases hv : v < g.length
  · have : g.getD v [] = g[v] := by simp [List.getD_eq_getElem?_getD, hv]
    rw [this] at hc
    exact h _ (List.getElem_mem hv) c hc
  · have : g.getD v [] = [] := by
      simp [List.getD_eq_getElem?_getD, List.getElem?_eq_none (Nat.le_of_not_lt hv)]
    rw [this] at hc; simp at hc

/-- every element has all its children later in the list -/
def Good (g : Graph) : List Nat → Prop
  | [] => True
  | u :: b => (∀ c ∈ children g u, c ∈ b) ∧ Good g b

theorem Good.split {g : Graph} : ∀ {l : List Nat}, Good g l → ∀ {u}, u ∈ l →
    ∃ a b, l = a ++ u :: b ∧ ∀ c ∈ children g u, c ∈ b
  | [], _, _, hu => by simp at hu
  | x :: l, hg, u, hu => by
    by_cases hx : u = x
    · subst hx; exact ⟨[], l, rfl, hg.1⟩
    · have hu' : u ∈ l := by simpa [hx] using hu
      obtain ⟨a, b, hl, hc⟩ := Good.split hg.2 hu'
      exact ⟨x :: a, b, by simp [hl], hc⟩

/-! ## push / pushAll -/

theorem setColor_same (c : Colors) (k : Nat) (x : Color) : setColor c k x k = x := by
  simp [setColor]

theorem setColor_ne (c : Colors) {k v : Nat} (x : Color) (h : v ≠ k) : setColor c k x v = c v := by
  simp [setColor, h]

theorem pushAll_ok (c : Colors) : ∀ (chs stack : List Nat), (∀ ch ∈ chs, c ch ≠ .walking) →
    ∃ pre, pushAll c stack chs = .ok (pre ++ stack) ∧ (∀ x ∈ pre, x ∈ chs ∧ c x = .unsorted) ∧
      (∀ ch ∈ chs, c ch = .sorted ∨ ch ∈ pre)
  | [], stack, _ => ⟨[], by simp [pushAll]⟩
  | ch :: rest, stack, h => by
    have hch := h ch (by simp)
    have hrest : ∀ x ∈ rest, c x ≠ .walking := fun x hx => h x (by simp [hx])
    cases hc : c ch with
    | walking => exact absurd hc hch
    | unsorted =>
      obtain ⟨pre, h1, h2, h3⟩ := pushAll_ok c rest (ch :: stack) hrest
      refine ⟨pre ++ [ch], ?_, ?_, ?_⟩
      · simp [pushAll, push, hc, h1]
      · intro x hx
        rcases List.mem_append.mp hx with hx | hx
        · exact ⟨by simp [(h2 x hx).1], (h2 x hx).2⟩
        · have : x = ch := by simpa using hx
          subst this; exact ⟨by simp, hc⟩
      · intro x hx
        rcases List.mem_cons.mp hx with hx | hx
        · subst hx; right; simp
        · rcases h3 x hx with h | h
          · exact Or.inl h
          · right; simp [h]
    | sorted =>
      obtain ⟨pre, h1, h2, h3⟩ := pushAll_ok c rest stack hrest
      refine ⟨pre, ?_, ?_, ?_⟩
      · simp [pushAll, push, hc, h1]
      · intro x hx; exact ⟨by simp [(h2 x hx).1], (h2 x hx).2⟩
      · intro x hx
        rcases List.mem_cons.mp hx with hx | hx
        · subst hx; exact Or.inl hc
        · exact h3 x hx

theorem pushAll_len (c : Colors) : ∀ (chs stack st : List Nat), pushAll c stack chs = .ok st →
    st.length ≤ stack.length + chs.length ∧ ∀ e ∈ st, e ∈ stack ∨ e ∈ chs
  | [], stack, st, h => by
    simp [pushAll] at h; subst h; simp
  | ch :: rest, stack, st, h => by
    simp only [pushAll] at h
    cases hp : push c stack ch with
    | error e => rw [hp] at h; simp at h
    | ok st1 =>
      rw [hp] at h
      obtain ⟨h1, h2⟩ := pushAll_len c rest st1 st h
      have hst1 : st1 = ch :: stack ∨ st1 = stack := by
        unfold push at hp
        cases hc : c ch <;> rw [hc] at hp <;> simp at hp
        · exact Or.inl hp.symm
        · exact Or.inr hp.symm
      rcases hst1 with rfl | rfl
      · refine ⟨by simp at h1 ⊢; omega, ?_⟩
        intro e he
        rcases h2 e he with h | h
        · rcases List.mem_cons.mp h with h | h
          · right; simp [h]
          · exact Or.inl h
        · right; simp [h]
      · refine ⟨by simp at h1 ⊢; omega, ?_⟩
        intro e he
        rcases h2 e he with h | h
        · exact Or.inl h
        · right; simp [h]


/-! ## The loop invariant -/

structure Inv (g : Graph) (roots R : List Nat) (cfg : Cfg) : Prop where
  sorted_iff : ∀ v, cfg.c v = .sorted ↔ v ∈ cfg.out
  nodup : cfg.out.Nodup
  good : Good g cfg.out
  walk : ∀ w, cfg.c w = .walking → ∃ s1 s2, cfg.stack = s1 ++ w :: s2 ∧ w ∉ s1 ∧
    (∀ ch ∈ children g w, cfg.c ch = .sorted ∨ ch ∈ s1) ∧ (∀ e ∈ s1, Path g w e)
  reach_stack : ∀ e ∈ cfg.stack, Reach g roots e
  reach_out : ∀ v ∈ cfg.out, Reach g roots v
  roots_done : ∀ r ∈ R, cfg.c r ≠ .unsorted ∨ r ∈ cfg.stack

/-- a walking node below the top: the split has a non-empty upper part starting with the top -/
theorem Inv.walk_below {g roots R cfg} (inv : Inv g roots R cfg) {node : Nat} {rest : List Nat}
    (hs : cfg.stack = node :: rest) {w : Nat} (hw : cfg.c w = .walking) (hne : w ≠ node) :
    ∃ s1 s2, rest = s1 ++ w :: s2 ∧ w ∉ s1 ∧ node ≠ w ∧
      (∀ ch ∈ children g w, cfg.c ch = .sorted ∨ ch = node ∨ ch ∈ s1) ∧
      Path g w node ∧ (∀ e ∈ s1, Path g w e) := by
  obtain ⟨s1, s2, h1, h2, h3, h4⟩ := inv.walk w hw
  rw [hs] at h1
  cases s1 with
  | nil => simp at h1; exact absurd h1.1.symm hne
  | cons x s1' =>
    simp at h1
    obtain ⟨rfl, h1⟩ := h1
    refine ⟨s1', s2, h1, fun h => h2 (by simp [h]), fun h => hne h.symm, ?_, h4 _ (by simp), fun e he => h4 e (by simp [he])⟩
    intro ch hch
    rcases h3 ch hch with h | h
    · exact Or.inl h
    · rcases List.mem_cons.mp h with h | h
      · exact Or.inr (Or.inl h)
      · exact Or.inr (Or.inr h)

/-- visiting an unsorted top node on an acyclic (reachable) graph cannot hit a walking child -/
theorem Inv.no_walking_child {g roots R cfg} (inv : Inv g roots R cfg) (hac : AcyclicFrom g roots)
    {node : Nat} {rest : List Nat} (hs : cfg.stack = node :: rest) (hc : cfg.c node = .unsorted) :
    ∀ ch ∈ children g node, setColor cfg.c node .walking ch ≠ .walking := by
  intro ch hch hw
  have hreach : Reach g roots node := inv.reach_stack node (by simp [hs])
  by_cases hn : ch = node
  · subst hn
    exact hac _ hreach (Path.single hch)
  · rw [setColor_ne _ _ hn] at hw
    obtain ⟨s1, s2, _, _, _, _, hp, _⟩ := inv.walk_below hs hw hn
    exact hac _ (Reach.step hreach hch) (Path.snoc hp hch)

theorem Inv.visit {g roots R cfg} (inv : Inv g roots R cfg)
    {node : Nat} {rest pre : List Nat} (hs : cfg.stack = node :: rest) (hc : cfg.c node = .unsorted)
    (hpre1 : ∀ x ∈ pre, x ∈ children g node ∧ setColor cfg.c node .walking x = .unsorted)
    (hpre2 : ∀ ch ∈ children g node, setColor cfg.c node .walking ch = .sorted ∨ ch ∈ pre) :
    Inv g roots R { c := setColor cfg.c node .walking, stack := pre ++ cfg.stack, out := cfg.out } := by
  have hreach : Reach g roots node := inv.reach_stack node (by simp [hs])
  have hsorted : ∀ v, setColor cfg.c node .walking v = .sorted ↔ cfg.c v = .sorted := by
    intro v
    by_cases hv : v = node
    · subst hv; simp [setColor_same, hc]
    · rw [setColor_ne _ _ hv]
  refine ⟨?_, inv.nodup, inv.good, ?_, ?_, inv.reach_out, ?_⟩
  · intro v; dsimp only; rw [hsorted]; exact inv.sorted_iff v
  · intro w hw
    dsimp only at hw ⊢
    by_cases hn : w = node
    · subst hn
      refine ⟨pre, rest, by simp [hs], ?_, hpre2, fun e he => Path.single (hpre1 e he).1⟩
      intro hmem
      have := (hpre1 _ hmem).2
      rw [setColor_same] at this; cases this
    · rw [setColor_ne _ _ hn] at hw
      obtain ⟨s1, s2, h1, h2, _, h3, hp, h4⟩ := inv.walk_below hs hw hn
      refine ⟨pre ++ node :: s1, s2, by simp [hs, h1], ?_, ?_, ?_⟩
      · intro hmem
        rcases List.mem_append.mp hmem with h | h
        · have := (hpre1 _ h).2
          rw [setColor_ne _ _ hn, hw] at this; cases this
        · rcases List.mem_cons.mp h with h | h
          · exact hn h
          · exact h2 h
      · intro ch hch
        rcases h3 ch hch with h | h | h
        · exact Or.inl ((hsorted ch).mpr h)
        · right; simp [h]
        · right; simp [h]
      · intro e he
        rcases List.mem_append.mp he with h | h
        · exact Path.snoc hp (hpre1 e h).1
        · rcases List.mem_cons.mp h with h | h
          · subst h; exact hp
          · exact h4 e h
  · intro e he
    dsimp only at he
    rcases List.mem_append.mp he with h | h
    · exact Reach.step hreach (hpre1 e h).1
    · exact inv.reach_stack e h
  · intro r hr
    dsimp only
    rcases inv.roots_done r hr with h | h
    · left
      by_cases hn : r = node
      · subst hn; simp [setColor_same]
      · rwa [setColor_ne _ _ hn]
    · right; simp [h]

theorem Inv.yield {g roots R cfg} (inv : Inv g roots R cfg)
    {node : Nat} {rest : List Nat} (hs : cfg.stack = node :: rest) (hc : cfg.c node = .walking) :
    Inv g roots R { c := setColor cfg.c node .sorted, stack := rest, out := node :: cfg.out } := by
  have hreach : Reach g roots node := inv.reach_stack node (by simp [hs])
  -- the top node's split has an empty upper part, so all its children are sorted
  have hch : ∀ ch ∈ children g node, ch ∈ cfg.out := by
    obtain ⟨s1, s2, h1, h2, h3, _⟩ := inv.walk node hc
    rw [hs] at h1
    cases s1 with
    | nil =>
      intro ch hch
      rcases h3 ch hch with h | h
      · exact (inv.sorted_iff ch).mp h
      · simp at h
    | cons x s1' =>
      simp at h1
      exact absurd (by simp [h1.1]) h2
  have hnot : node ∉ cfg.out := by
    intro h
    have := (inv.sorted_iff node).mpr h
    rw [hc] at this; cases this
  refine ⟨?_, ?_, ⟨hch, inv.good⟩, ?_, ?_, ?_, ?_⟩
  · intro v
    dsimp only
    by_cases hv : v = node
    · subst hv; simp [setColor_same]
    · rw [setColor_ne _ _ hv, inv.sorted_iff]; simp [hv]
  · exact List.nodup_cons.mpr ⟨hnot, inv.nodup⟩
  · intro w hw
    dsimp only at hw ⊢
    have hn : w ≠ node := by
      intro h; subst h; rw [setColor_same] at hw; cases hw
    rw [setColor_ne _ _ hn] at hw
    obtain ⟨s1, s2, h1, h2, _, h3, _, h4⟩ := inv.walk_below hs hw hn
    refine ⟨s1, s2, h1, h2, ?_, h4⟩
    intro ch hch
    rcases h3 ch hch with h | h | h
    · left
      by_cases hcn : ch = node
      · subst hcn; simp [setColor_same]
      · rwa [setColor_ne _ _ hcn]
    · left; subst h; simp [setColor_same]
    · exact Or.inr h
  · intro e he; dsimp only at he; exact inv.reach_stack e (by simp [hs, he])
  · intro v hv
    dsimp only at hv
    rcases List.mem_cons.mp hv with h | h
    · subst h; exact hreach
    · exact inv.reach_out v h
  · intro r hr
    dsimp only
    by_cases hn : r = node
    · subst hn; left; simp [setColor_same]
    · rcases inv.roots_done r hr with h | h
      · left; rwa [setColor_ne _ _ hn]
      · right
        rw [hs] at h
        simpa [hn] using h

theorem Inv.skip {g roots R cfg} (inv : Inv g roots R cfg)
    {node : Nat} {rest : List Nat} (hs : cfg.stack = node :: rest) (hc : cfg.c node = .sorted) :
    Inv g roots R { c := cfg.c, stack := rest, out := cfg.out } := by
  refine ⟨inv.sorted_iff, inv.nodup, inv.good, ?_, ?_, inv.reach_out, ?_⟩
  · intro w hw
    dsimp only at hw ⊢
    have hn : w ≠ node := by
      intro h; subst h; rw [hc] at hw; cases hw
    obtain ⟨s1, s2, h1, h2, _, h3, _, h4⟩ := inv.walk_below hs hw hn
    refine ⟨s1, s2, h1, h2, ?_, h4⟩
    intro ch hch
    rcases h3 ch hch with h | h | h
    · exact Or.inl h
    · left; subst h; exact hc
    · exact Or.inr h
  · intro e he; dsimp only at he; exact inv.reach_stack e (by simp [hs, he])
  · intro r hr
    dsimp only
    rcases inv.roots_done r hr with h | h
    · exact Or.inl h
    · rw [hs] at h
      rcases List.mem_cons.mp h with h | h
      · left; subst h; rw [hc]; simp
      · exact Or.inr h

theorem pushAll_no_walking (c : Colors) : ∀ (chs stack st : List Nat),
    pushAll c stack chs = .ok st → ∀ ch ∈ chs, c ch ≠ .walking
  | [], _, _, _ => by simp
  | ch :: rest, stack, st, h => by
    simp only [pushAll] at h
    cases hp : push c stack ch with
    | error e => rw [hp] at h; simp at h
    | ok st1 =>
      rw [hp] at h
      intro x hx
      rcases List.mem_cons.mp hx with hx | hx
      · subst hx
        intro hw
        simp [push, hw] at hp
      · exact pushAll_no_walking c rest st1 st h x hx

/-- A loop iteration that does not panic keeps the invariant (no assumption on the graph). -/
theorem Inv.step_cont {g roots R cfg cfg'} (inv : Inv g roots R cfg)
    {node : Nat} {rest : List Nat} (hs : cfg.stack = node :: rest)
    (hstep : step g none cfg = .cont cfg') : Inv g roots R cfg' := by
  unfold PCV.Toposort.step at hstep
  rw [hs] at hstep
  simp only [] at hstep
  cases hc : cfg.c node with
  | unsorted =>
    rw [hc] at hstep
    simp only [] at hstep
    cases hp : pushAll (setColor cfg.c node .walking) (node :: rest) (children g node) with
    | error e => rw [hp] at hstep; simp at hstep
    | ok st =>
      rw [hp] at hstep
      simp only [Res.cont.injEq] at hstep
      obtain ⟨pre, h1, h2, h3⟩ := pushAll_ok (setColor cfg.c node .walking) (children g node)
        (node :: rest) (pushAll_no_walking _ _ _ _ hp)
      rw [h1] at hp
      simp only [Except.ok.injEq] at hp
      have := inv.visit hs hc h2 h3
      rw [hs, hp, hstep] at this
      exact this
  | walking =>
    rw [hc] at hstep
    simp [limitHit] at hstep
    rw [← hstep]
    exact inv.yield hs hc
  | sorted =>
    rw [hc] at hstep
    simp only [Res.cont.injEq] at hstep
    rw [← hstep]
    exact inv.skip hs hc

/-- With no consumer limit a loop iteration never stops early. -/
theorem step_none_ne_stop {g cfg cfg'} : step g none cfg ≠ .stop cfg' := by
  unfold PCV.Toposort.step
  cases hs : cfg.stack with
  | nil => simp
  | cons node rest =>
    simp only []
    cases hc : cfg.c node with
    | unsorted =>
      simp only []
      cases pushAll (setColor cfg.c node .walking) (node :: rest) (children g node) <;> simp
    | walking => simp [limitHit]
    | sorted => simp

/-- On a graph whose reachable part is acyclic a loop iteration does not panic. -/
theorem Inv.step_ok {g roots R cfg} (inv : Inv g roots R cfg) (hac : AcyclicFrom g roots)
    {node : Nat} {rest : List Nat} (hs : cfg.stack = node :: rest) :
    ∃ cfg', step g none cfg = .cont cfg' := by
  unfold PCV.Toposort.step
  rw [hs]
  simp only []
  cases hc : cfg.c node with
  | unsorted =>
    obtain ⟨pre, h1, _, _⟩ := pushAll_ok (setColor cfg.c node .walking) (children g node)
      (node :: rest) (inv.no_walking_child hac hs hc)
    simp only [h1]
    exact ⟨_, rfl⟩
  | walking =>
    simp only [limitHit]
    exact ⟨_, rfl⟩
  | sorted => exact ⟨_, rfl⟩

/-! ## inner loop and root loop -/

theorem inner_done_stack {g limit} : ∀ fuel cfg cfg', inner g limit fuel cfg = .done cfg' →
    cfg'.stack = []
  | 0, _, _, h => by simp [inner] at h
  | f + 1, cfg, cfg', h => by
    unfold inner at h
    split at h
    · next hs => simp only [Outcome.done.injEq] at h; rw [← h]; exact hs
    · split at h
      · exact inner_done_stack f _ _ h
      · simp at h
      · simp at h

theorem inner_inv {g roots R} : ∀ fuel cfg cfg', Inv g roots R cfg →
    inner g none fuel cfg = .done cfg' → Inv g roots R cfg'
  | 0, _, _, _, h => by simp [inner] at h
  | f + 1, cfg, cfg', inv, h => by
    unfold inner at h
    split at h
    · simp only [Outcome.done.injEq] at h; rw [← h]; exact inv
    · next node rest hs =>
      split at h
      · next cfg1 hstep => exact inner_inv f _ _ (inv.step_cont hs hstep) h
      · simp at h
      · simp at h

/-- under acyclicity the inner loop can only finish or run out of fuel -/
theorem inner_acyclic {g roots R} (hac : AcyclicFrom g roots) : ∀ fuel cfg, Inv g roots R cfg →
    inner g none fuel cfg = .outOfFuel ∨ ∃ cfg', inner g none fuel cfg = .done cfg'
  | 0, _, _ => Or.inl rfl
  | f + 1, cfg, inv => by
    unfold inner
    split
    · exact Or.inr ⟨_, rfl⟩
    · next node rest hs =>
      obtain ⟨cfg1, hstep⟩ := inv.step_ok hac hs
      rw [hstep]
      exact inner_acyclic hac f cfg1 (inv.step_cont hs hstep)

theorem Inv.mono_R {g roots R R' cfg} (inv : Inv g roots R cfg) (h : ∀ r ∈ R', r ∈ R) :
    Inv g roots R' cfg :=
  ⟨inv.sorted_iff, inv.nodup, inv.good, inv.walk, inv.reach_stack, inv.reach_out,
    fun r hr => inv.roots_done r (h r hr)⟩

theorem Inv.no_walking {g roots R cfg} (inv : Inv g roots R cfg) (hs : cfg.stack = []) (w : Nat) :
    cfg.c w ≠ .walking := by
  intro hw
  obtain ⟨s1, s2, h, _⟩ := inv.walk w hw
  rw [hs] at h
  simp at h

/-- pushing a root onto the empty stack -/
theorem Inv.push_root {g roots R cfg} (inv : Inv g roots R cfg) (hs : cfg.stack = [])
    {r : Nat} (hr : r ∈ roots) :
    ∃ st, push cfg.c cfg.stack r = .ok st ∧ st.length ≤ 1 ∧ (∀ e ∈ st, e = r) ∧
      Inv g roots (r :: R) { cfg with stack := st } := by
  have hnw := inv.no_walking hs
  unfold push
  rw [hs]
  cases hc : cfg.c r with
  | walking => exact absurd hc (hnw r)
  | unsorted =>
    refine ⟨[r], rfl, by simp, by simp, ?_⟩
    refine ⟨inv.sorted_iff, inv.nodup, inv.good, ?_, ?_, inv.reach_out, ?_⟩
    · intro w hw; exact absurd hw (hnw w)
    · intro e he
      have : e = r := by simpa using he
      subst this; exact Reach.root hr
    · intro x hx
      rcases List.mem_cons.mp hx with h | h
      · right; simp [h]
      · rcases inv.roots_done x h with h | h
        · exact Or.inl h
        · rw [hs] at h; simp at h
  | sorted =>
    refine ⟨[], rfl, by simp, by simp, ?_⟩
    refine ⟨inv.sorted_iff, inv.nodup, inv.good, ?_, ?_, inv.reach_out, ?_⟩
    · intro w hw; exact absurd hw (hnw w)
    · intro e he; simp at he
    · intro x hx
      rcases List.mem_cons.mp hx with h | h
      · left; subst h; dsimp only; rw [hc]; simp
      · rcases inv.roots_done x h with h | h
        · exact Or.inl h
        · rw [hs] at h; simp at h

theorem sortRoots_inv {g roots} {fuel : Nat} : ∀ (rem R : List Nat) (cfg cfg' : Cfg),
    (∀ r ∈ rem, r ∈ roots) → Inv g roots R cfg → cfg.stack = [] →
    sortRoots g none fuel rem cfg = .done cfg' → Inv g roots (rem ++ R) cfg' ∧ cfg'.stack = []
  | [], R, cfg, cfg', _, inv, hs, h => by
    simp only [sortRoots, Outcome.done.injEq] at h
    rw [← h]; exact ⟨by simpa using inv, hs⟩
  | r :: rem, R, cfg, cfg', hsub, inv, hs, h => by
    obtain ⟨st, hp, _, _, inv1⟩ := inv.push_root hs (hsub r (by simp))
    unfold sortRoots at h
    rw [hp] at h
    simp only [] at h
    split at h
    · next cfg1 hin =>
      have inv2 := inner_inv fuel _ _ inv1 hin
      have hs2 := inner_done_stack fuel _ _ hin
      obtain ⟨inv3, hs3⟩ := sortRoots_inv rem (r :: R) cfg1 cfg'
        (fun x hx => hsub x (by simp [hx])) inv2 hs2 h
      exact ⟨inv3.mono_R (by intro x hx; simp at hx ⊢; rcases hx with h | h | h <;> simp [h]), hs3⟩
    · next hne => exact absurd h (by intro h'; exact hne _ h')

theorem sortRoots_acyclic {g roots} (hac : AcyclicFrom g roots) {fuel : Nat} :
    ∀ (rem R : List Nat) (cfg : Cfg),
    (∀ r ∈ rem, r ∈ roots) → Inv g roots R cfg → cfg.stack = [] →
    sortRoots g none fuel rem cfg = .outOfFuel ∨ ∃ cfg', sortRoots g none fuel rem cfg = .done cfg'
  | [], _, cfg, _, _, _ => Or.inr ⟨cfg, rfl⟩
  | r :: rem, R, cfg, hsub, inv, hs => by
    obtain ⟨st, hp, _, _, inv1⟩ := inv.push_root hs (hsub r (by simp))
    unfold sortRoots
    rw [hp]
    simp only []
    rcases inner_acyclic hac fuel _ inv1 with hin | ⟨cfg1, hin⟩
    · rw [hin]; exact Or.inl rfl
    · rw [hin]
      simp only []
      exact sortRoots_acyclic hac rem (r :: R) cfg1 (fun x hx => hsub x (by simp [hx]))
        (inner_inv fuel _ _ inv1 hin) (inner_done_stack fuel _ _ hin)

theorem initInv (g : Graph) (roots : List Nat) : Inv g roots [] initCfg :=
  ⟨by simp [initCfg], by simp [initCfg], by simp [initCfg, Good], by simp [initCfg],
   by simp [initCfg], by simp [initCfg], by simp⟩

/-! ## consequences of the final invariant -/

theorem Good.closed {g : Graph} : ∀ {l : List Nat}, Good g l → ∀ u ∈ l, ∀ c ∈ children g u, c ∈ l
  | [], _, u, hu, _, _ => by simp at hu
  | x :: l, hg, u, hu, c, hc => by
    rcases List.mem_cons.mp hu with h | h
    · subst h; exact List.mem_cons_of_mem _ (hg.1 c hc)
    · exact List.mem_cons_of_mem _ (Good.closed hg.2 u h c hc)

theorem Inv.final_reach {g roots cfg} (inv : Inv g roots roots cfg) (hs : cfg.stack = []) :
    ∀ v, Reach g roots v → v ∈ cfg.out := by
  intro v hv
  induction hv with
  | root hr =>
    rename_i r
    rcases inv.roots_done r hr with h | h
    · have hnw := inv.no_walking hs r
      apply (inv.sorted_iff r).mp
      cases hc : cfg.c r with
      | unsorted => exact absurd hc h
      | walking => exact absurd hc hnw
      | sorted => rfl
    · rw [hs] at h; simp at h
  | step _ he ih => exact Good.closed inv.good _ ih _ he

/-- in a duplicate-free `Good` list every edge goes strictly to the right -/
theorem Good.edge_idx {g : Graph} : ∀ {l : List Nat}, Good g l → l.Nodup → ∀ {u v}, u ∈ l →
    Edge g u v → v ∈ l ∧ l.idxOf u < l.idxOf v
  | [], _, _, u, _, hu, _ => by simp at hu
  | x :: l, hg, hnd, u, v, hu, he => by
    have hx : x ∉ l := (List.nodup_cons.mp hnd).1
    by_cases hux : u = x
    · subst hux
      have hv : v ∈ l := hg.1 v he
      have hvu : v ≠ u := fun h => hx (h ▸ hv)
      refine ⟨List.mem_cons_of_mem _ hv, ?_⟩
      have : (u == v) = false := by simpa using Ne.symm hvu
      rw [List.idxOf_cons_self, List.idxOf_cons, this]
      simp
    · have hu' : u ∈ l := by simpa [hux] using hu
      obtain ⟨hv, hlt⟩ := Good.edge_idx hg.2 (List.nodup_cons.mp hnd).2 hu' he
      have hvx : v ≠ x := fun h => hx (h ▸ hv)
      refine ⟨List.mem_cons_of_mem _ hv, ?_⟩
      have h1 : (x == u) = false := by simpa using Ne.symm hux
      have h2 : (x == v) = false := by simpa using Ne.symm hvx
      rw [List.idxOf_cons, List.idxOf_cons, h1, h2]
      simp only [cond_false]
      omega

theorem Good.path_idx {g : Graph} {l : List Nat} (hg : Good g l) (hnd : l.Nodup) {u v : Nat}
    (hp : Path g u v) (hu : u ∈ l) : v ∈ l ∧ l.idxOf u < l.idxOf v := by
  induction hp with
  | single he => exact hg.edge_idx hnd hu he
  | snoc _ he ih =>
    obtain ⟨hv, h1⟩ := ih
    obtain ⟨hw, h2⟩ := hg.edge_idx hnd hv he
    exact ⟨hw, by omega⟩


/-! ## Fuel: the loop measure -/

/-- Σ over unsorted nodes `v` of the graph of `1 + deg v` (nodes numbered from `i`) -/
def weightAux (c : Colors) : Graph → Nat → Nat
  | [], _ => 0
  | chs :: g', i => (if c i = .unsorted then 1 + chs.length else 0) + weightAux c g' (i + 1)

theorem weightAux_le (c : Colors) : ∀ (g : Graph) (i : Nat), weightAux c g i ≤ g.length + edgeCount g
  | [], _ => by simp [weightAux]
  | chs :: g', i => by
    have := weightAux_le c g' (i + 1)
    simp only [weightAux, edgeCount, List.map_cons, List.sum_cons, List.length_cons] at this ⊢
    split <;> omega

theorem weightAux_setColor_lt (c : Colors) (x : Color) : ∀ (g : Graph) (i k : Nat), k < i →
    weightAux (setColor c k x) g i = weightAux c g i
  | [], _, _, _ => rfl
  | chs :: g', i, k, h => by
    simp only [weightAux]
    rw [weightAux_setColor_lt c x g' (i + 1) k (by omega), setColor_ne c x (by omega : i ≠ k)]

theorem weightAux_mono {c c' : Colors} (h : ∀ v, c' v = .unsorted → c v = .unsorted) :
    ∀ (g : Graph) (i : Nat), weightAux c' g i ≤ weightAux c g i
  | [], _ => by simp [weightAux]
  | chs :: g', i => by
    have := weightAux_mono h g' (i + 1)
    simp only [weightAux]
    by_cases hc : c' i = .unsorted
    · simp [hc, h i hc]; omega
    · simp [hc]; split <;> omega

theorem weightAux_visit (c : Colors) {x : Color} (hx : x ≠ .unsorted) : ∀ (g : Graph) (i k : Nat),
    i ≤ k → k < i + g.length → c k = .unsorted →
    weightAux (setColor c k x) g i + 1 + (g.getD (k - i) []).length = weightAux c g i
  | [], i, k, h1, h2, _ => by simp at h2; omega
  | chs :: g', i, k, h1, h2, hc => by
    simp only [weightAux]
    by_cases hk : k = i
    · subst hk
      rw [weightAux_setColor_lt c x g' (k + 1) k (by omega), setColor_same]
      simp [hx, hc]; omega
    · have ih := weightAux_visit c hx g' (i + 1) k (by omega) (by simp at h2; omega) hc
      rw [setColor_ne c x (Ne.symm hk)]
      have : (chs :: g').getD (k - i) [] = g'.getD (k - (i + 1)) [] := by
        have : k - i = (k - (i + 1)) + 1 := by omega
        rw [this]; simp
      rw [this]; omega

/-- loop measure: stack length + weight of the unsorted nodes -/
def mu (g : Graph) (cfg : Cfg) : Nat := cfg.stack.length + weightAux cfg.c g 0

theorem step_decreases {g : Graph} (hg : ∀ chs ∈ g, ∀ c ∈ chs, c < g.length) {limit cfg cfg'}
    {node : Nat} {rest : List Nat} (hs : cfg.stack = node :: rest)
    (hst : ∀ e ∈ cfg.stack, e < g.length) (hstep : step g limit cfg = .cont cfg') :
    mu g cfg' < mu g cfg ∧ ∀ e ∈ cfg'.stack, e < g.length := by
  unfold PCV.Toposort.step at hstep
  rw [hs] at hstep
  simp only [] at hstep
  have hnode : node < g.length := hst node (by simp [hs])
  cases hc : cfg.c node with
  | unsorted =>
    rw [hc] at hstep
    simp only [] at hstep
    cases hp : pushAll (setColor cfg.c node .walking) (node :: rest) (children g node) with
    | error e => rw [hp] at hstep; simp at hstep
    | ok st =>
      rw [hp] at hstep
      simp only [Res.cont.injEq] at hstep
      obtain ⟨hlen, hmem⟩ := pushAll_len _ _ _ _ hp
      have hw := weightAux_visit cfg.c (x := .walking) (by simp) g 0 node (by omega) (by omega) hc
      rw [← hstep]
      simp only [mu, hs]
      simp only [Nat.sub_zero] at hw
      constructor
      · unfold children at hlen
        simp only [List.length_cons] at hlen ⊢
        omega
      · intro e he
        rcases hmem e he with h | h
        · exact hst e (by rw [hs]; exact h)
        · exact children_lt hg h
  | walking =>
    rw [hc] at hstep
    simp only [] at hstep
    split at hstep
    · simp at hstep
    · simp only [Res.cont.injEq] at hstep
      rw [← hstep]
      simp only [mu, hs, List.length_cons]
      have := weightAux_mono (c := cfg.c) (c' := setColor cfg.c node .sorted) (by
        intro v hv
        by_cases hvn : v = node
        · subst hvn; rw [setColor_same] at hv; cases hv
        · rwa [setColor_ne _ _ hvn] at hv) g 0
      exact ⟨by omega, fun e he => hst e (by simp [hs, he])⟩
  | sorted =>
    rw [hc] at hstep
    simp only [Res.cont.injEq] at hstep
    rw [← hstep]
    simp only [mu, hs, List.length_cons]
    exact ⟨by omega, fun e he => hst e (by simp [hs, he])⟩

theorem inner_fuel {g : Graph} (hg : ∀ chs ∈ g, ∀ c ∈ chs, c < g.length) {limit} :
    ∀ fuel cfg, mu g cfg < fuel → (∀ e ∈ cfg.stack, e < g.length) →
    inner g limit fuel cfg ≠ .outOfFuel
  | 0, _, h, _ => by omega
  | f + 1, cfg, h, hst => by
    unfold inner
    split
    · simp
    · next node rest hs =>
      split
      · next cfg1 hstep =>
        obtain ⟨h1, h2⟩ := step_decreases hg hs hst hstep
        exact inner_fuel hg f cfg1 (by omega) h2
      · simp
      · simp

theorem sortRoots_fuel {g : Graph} (hg : ∀ chs ∈ g, ∀ c ∈ chs, c < g.length) {limit} :
    ∀ (rem : List Nat) (cfg : Cfg), (∀ r ∈ rem, r < g.length) → cfg.stack = [] →
    sortRoots g limit (fuelFor g) rem cfg ≠ .outOfFuel
  | [], _, _, _ => by simp [sortRoots]
  | r :: rem, cfg, hrem, hs => by
    unfold sortRoots
    cases hp : push cfg.c cfg.stack r with
    | error e => simp
    | ok st =>
      simp only []
      have hst : st = [r] ∨ st = [] := by
        unfold push at hp
        rw [hs] at hp
        cases hc : cfg.c r <;> rw [hc] at hp <;> simp at hp
        · exact Or.inl hp.symm
        · exact Or.inr hp
      have hfuel : inner g limit (fuelFor g) { cfg with stack := st } ≠ .outOfFuel := by
        apply inner_fuel hg
        · have := weightAux_le cfg.c g 0
          simp only [mu, fuelFor]
          rcases hst with rfl | rfl <;> simp <;> omega
        · intro e he
          rcases hst with rfl | rfl
          · have : e = r := by simpa using he
            subst this; exact hrem e (by simp)
          · simp at he
      split
      · next cfg1 hin =>
        exact sortRoots_fuel hg rem cfg1 (fun x hx => hrem x (by simp [hx]))
          (inner_done_stack _ _ _ hin)
      · next o hne =>
        intro h
        exact hfuel h

end PCV.Toposort
