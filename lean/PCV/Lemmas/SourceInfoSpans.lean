/-
Spans of the model of sourceinfo/source_code_info.go on a well-formed `FileInfo` (in particular the
one the lexer model builds, `lexAll_wf`): three or four elements, zero-based, start ≤ end.
-/
import PCV.Model.Lex
import PCV.Model.SourceInfo
import PCV.Spec.SourceInfo
import PCV.Lemmas.Pos
import PCV.Lemmas.LexInv
import PCV.Lemmas.SourceInfo
set_option linter.unusedSimpArgs false
namespace PCV.Lemmas.SourceInfoSpans
open PCV.SourceInfo PCV.FileInfo PCV.Lemmas.Pos PCV.Lemmas.LexInv PCV.Lemmas.SourceInfo

/-- what the span theorems need of the file tables -/
structure WfFI (fi : FI) : Prop where
  lines : LinesUpTo fi fi.data.length
  items : ItemsOk 0 fi.items
  itemsEnd : endFrom 0 fi.items ≤ fi.data.length

/-- the tables the lexer model builds for a file it lexes to the end are well-formed -/
theorem lexAll_wf (lenient : Bool) (bs : List UInt8) (k : Nat)
    (heof : (PCV.Lex.lexAll lenient bs).eof = some k) : WfFI (PCV.Lex.lexAll lenient bs).fi := by
  obtain ⟨⟨rs, hc⟩, ht, he⟩ := lexAll_final lenient bs
  rcases he with he | he
  · rw [he] at heof; cases heof
  · have hpos : (PCV.Lex.lexAll lenient bs).pos = (PCV.Lex.lexAll lenient bs).fi.data.length := by
      rw [hc.hdata]; exact he.1
    refine ⟨?_, ht.items_ok, ?_⟩
    · rw [LinesUpTo, hc.hdata, ← he.1]; exact hc.lines_eq
    · rw [← hpos]; exact ht.items_end

theorem itemsOk_bounds : ∀ (items : List Item) (pe : Nat), ItemsOk pe items →
    ∀ (i : Nat) (it : Item), items[i]? = some it → pe ≤ it.off ∧ it.off + it.len ≤ endFrom pe items
  | [], _, _, i, it, h => by simp at h
  | x :: xs, pe, hok, i, it, h => by
    simp only [ItemsOk] at hok
    have hend : ∀ (ys : List Item) (p q : Nat), p ≤ q → ItemsOk q ys → p ≤ endFrom q ys := by
      intro ys
      induction ys with
      | nil => intro p q hpq _; simpa [endFrom] using hpq
      | cons y ys ih =>
        intro p q hpq hy
        simp only [ItemsOk] at hy
        simp only [endFrom, List.foldl_cons]
        exact ih p (y.off + y.len) (by omega) hy.2
    cases i with
    | zero =>
      simp at h; subst h
      refine ⟨hok.1, ?_⟩
      simp only [endFrom, List.foldl_cons]
      exact hend xs _ _ (Nat.le_refl _) hok.2
    | succ j =>
      simp at h
      have := itemsOk_bounds xs (x.off + x.len) hok.2 j it h
      simp only [endFrom, List.foldl_cons]
      exact ⟨by omega, this.2⟩

theorem itemsOk_mono : ∀ (items : List Item) (pe : Nat), ItemsOk pe items →
    ∀ (i j : Nat) (a b : Item), i ≤ j → items[i]? = some a → items[j]? = some b → a.off ≤ b.off
  | [], _, _, i, j, a, b, _, h, _ => by simp at h
  | x :: xs, pe, hok, i, j, a, b, hij, ha, hb => by
    simp only [ItemsOk] at hok
    cases i with
    | zero =>
      simp at ha; subst ha
      cases j with
      | zero => simp at hb; subst hb; exact Nat.le_refl _
      | succ j' =>
        simp at hb
        have := (itemsOk_bounds xs _ hok.2 j' b hb).1
        omega
    | succ i' =>
      cases j with
      | zero => omega
      | succ j' =>
        simp at ha hb
        exact itemsOk_mono xs _ hok.2 i' j' a b (by omega) ha hb

/-- a span as the property reads it: start no later than end -/
def spanOrdered (span : List Int) : Prop :=
  match span with
  | [l, c1, c2] => 0 ≤ l ∧ 0 ≤ c1 ∧ c1 ≤ c2
  | [l1, c1, l2, c2] => 0 ≤ l1 ∧ l1 < l2 ∧ 0 ≤ c1 ∧ 0 ≤ c2
  | _ => False

/-- **`makeSpan`: three elements iff start and end are on one line; zero-based.** -/
theorem makeSpan_encoding (s e : Nat × Nat) :
    (s.1 = e.1 → makeSpan s e = [(s.1 : Int) - 1, (s.2 : Int) - 1, (e.2 : Int) - 1]) ∧
    (s.1 ≠ e.1 → makeSpan s e = [(s.1 : Int) - 1, (s.2 : Int) - 1, (e.1 : Int) - 1, (e.2 : Int) - 1]) := by
  constructor <;> intro h <;> simp [makeSpan, h]

theorem makeSpan_length (s e : Nat × Nat) :
    ((makeSpan s e).length = 3 ↔ s.1 = e.1) ∧ ((makeSpan s e).length = 4 ↔ s.1 ≠ e.1) := by
  by_cases h : s.1 = e.1 <;> simp [makeSpan, h]

theorem makeSpan_ordered (s e : Nat × Nat) (hs1 : 1 ≤ s.1) (hs2 : 1 ≤ s.2) (he2 : 1 ≤ e.2)
    (h : s.1 < e.1 ∨ (s.1 = e.1 ∧ s.2 ≤ e.2)) : spanOrdered (makeSpan s e) := by
  unfold makeSpan
  by_cases heq : s.1 = e.1
  · simp only [heq, if_true, spanOrdered]
    rcases h with h | h
    · omega
    · omega
  · simp only [heq, if_false, spanOrdered]
    rcases h with h | h
    · omega
    · exact absurd h.1 heq

/-- the node of a request: its tokens exist and are in order -/
def NdOk (fi : FI) (n : Nd) : Prop := n.s ≤ n.e ∧ n.e < fi.items.length

/-- **Spans of nodes are ordered.** On well-formed tables the span of every node whose first token
    is not after its last token has 3 or 4 elements, all non-negative, and starts no later than it
    ends. -/
theorem nodeSpan_ordered (fi : FI) (hwf : WfFI fi) (n : Nd) (hn : NdOk fi n) :
    spanOrdered (nodeSpan fi n) := by
  obtain ⟨hse, he⟩ := hn
  have hs : n.s < fi.items.length := by omega
  obtain ⟨is, his⟩ : ∃ is, fi.items[n.s]? = some is := ⟨fi.items[n.s], by simp [hs]⟩
  obtain ⟨ie, hie⟩ : ∃ ie, fi.items[n.e]? = some ie := ⟨fi.items[n.e], by simp [he]⟩
  have hord := itemsOk_mono fi.items 0 hwf.items n.s n.e is ie hse his hie
  have hbs := itemsOk_bounds fi.items 0 hwf.items n.s is his
  have hbe := itemsOk_bounds fi.items 0 hwf.items n.e ie hie
  have hlines : ∃ t, fi.lines = 0 :: t := ⟨_, hwf.lines⟩
  obtain ⟨t, ht⟩ := hlines
  have hend := hwf.itemsEnd
  obtain ⟨l1, c1, hp1, hl1⟩ := sourcePos_some fi is.off t ht (by omega)
  have hc1 : 1 ≤ c1 := by
    have := sourcePos_fold fi fi.data.length is.off hwf.lines (by omega) (Nat.le_refl _)
    rw [this] at hp1; simp at hp1; omega
  by_cases hlen : ie.len > 0
  · obtain ⟨l2, c2, hp2, hl2⟩ := sourcePos_some fi (ie.off + ie.len - 1) t ht (by omega)
    have hmono := sourcePos_mono fi is.off (ie.off + ie.len - 1) l1 c1 l2 c2 (by omega) hp1 hp2
    have hts : tokStart fi n.s = (l1, c1) := by simp [tokStart, nodeStart, his, hp1]
    have hte : tokEnd fi n.e = (l2, c2 + 1) := by simp [tokEnd, nodeEnd, hie, hlen, hp2]
    rw [nodeSpan, hts, hte]
    refine makeSpan_ordered (l1, c1) (l2, c2 + 1) hl1 hc1 (by simp) ?_
    rcases hmono with h | ⟨h1, h2⟩
    · exact Or.inl h
    · exact Or.inr ⟨h1, by simp only; omega⟩
  · obtain ⟨l2, c2, hp2, hl2⟩ := sourcePos_some fi ie.off t ht (by omega)
    have hmono := sourcePos_mono fi is.off ie.off l1 c1 l2 c2 hord hp1 hp2
    have hts : tokStart fi n.s = (l1, c1) := by simp [tokStart, nodeStart, his, hp1]
    have hte : tokEnd fi n.e = (l2, c2) := by simp [tokEnd, nodeEnd, hie, hlen, hp2]
    have hc2 : 1 ≤ c2 := by
      have := sourcePos_fold fi fi.data.length ie.off hwf.lines (by omega) (Nat.le_refl _)
      rw [this] at hp2; simp at hp2; omega
    rw [nodeSpan, hts, hte]
    exact makeSpan_ordered (l1, c1) (l2, c2) hl1 hc1 hc2 hmono

end PCV.Lemmas.SourceInfoSpans

namespace PCV.Lemmas.SourceInfoSpans
open PCV.SourceInfo PCV.FileInfo PCV.Lemmas.Pos PCV.Lemmas.LexInv PCV.Lemmas.SourceInfo
open PCV.Spec.Lex (lineStart lineStartGo specLine)

/-! ### inside the file -/

theorem colStep_eq : PCV.Spec.SourceInfo.colStep = PCV.FileInfo.colStep := by
  funext c b; rfl

/-- column reached after the first `off` bytes of `bs`, starting in column `cur`, newlines resetting -/
def colAt : Nat → List UInt8 → Nat → Nat
  | cur, [], _ => cur
  | cur, _ :: _, 0 => cur
  | cur, b :: bs, n + 1 => if b = 10 then colAt 0 bs n else colAt (colStep cur b) bs n

theorem slice_prefix (pre bs : List UInt8) (acc : Nat) (h : acc ≤ pre.length) :
    slice (pre ++ bs) acc pre.length = pre.drop acc := by
  simp only [slice]
  rw [List.drop_append_of_le_length h, List.take_append_of_le_length (by simp)]
  exact List.take_of_length_le (by simp)

theorem colAt_lineStart : ∀ (bs pre : List UInt8) (acc off cur : Nat), acc ≤ pre.length → pre.length ≤ off →
    off ≤ pre.length + bs.length → cur = (pre.drop acc).foldl colStep 0 →
    (slice (pre ++ bs) (lineStartGo off acc pre.length bs) off).foldl colStep 0 = colAt cur bs (off - pre.length)
  | [], pre, acc, off, cur, ha, hp, ho, hc => by
    have : off = pre.length := by simp at ho; omega
    subst this
    simp only [lineStartGo, Nat.sub_self, colAt]
    rw [slice_prefix pre [] acc ha, hc]
  | b :: bs, pre, acc, off, cur, ha, hp, ho, hc => by
    by_cases hio : pre.length ≥ off
    · have : off = pre.length := by omega
      subst this
      simp only [lineStartGo, ge_iff_le, Nat.le_refl, if_true, Nat.sub_self, colAt]
      rw [slice_prefix pre (b :: bs) acc ha, hc]
    · have hk : off - pre.length = (off - (pre.length + 1)) + 1 := by omega
      have hpre : pre ++ b :: bs = (pre ++ [b]) ++ bs := by simp
      have hlen : (pre ++ [b]).length = pre.length + 1 := by simp
      simp only [lineStartGo, hio, if_false]
      rw [hk, colAt, hpre, ← hlen]
      by_cases hb : b = 10
      · simp only [hb, if_true]
        have := colAt_lineStart bs (pre ++ [10]) (pre.length + 1) off 0 (by simp) (by simp; omega)
          (by simp at ho ⊢; omega) (by simp)
        simpa [hb] using this
      · simp only [hb, if_false]
        have := colAt_lineStart bs (pre ++ [b]) acc off (colStep cur b) (by simp; omega) (by simp; omega)
          (by simp at ho ⊢; omega)
          (by rw [List.drop_append_of_le_length ha, List.foldl_append, ← hc]; rfl)
        simpa using this

theorem lw_head (bs : List UInt8) : ∀ cur, ∃ w, (PCV.Spec.SourceInfo.lineWidthsGo cur bs)[0]? = some w ∧ cur ≤ w := by
  induction bs with
  | nil => intro cur; exact ⟨cur, by simp [PCV.Spec.SourceInfo.lineWidthsGo], Nat.le_refl _⟩
  | cons b bs ih =>
    intro cur
    simp only [PCV.Spec.SourceInfo.lineWidthsGo]
    by_cases hb : b = 10
    · simp [hb]
    · simp only [hb, if_false]
      obtain ⟨w, hw, hle⟩ := ih (PCV.Spec.SourceInfo.colStep cur b)
      refine ⟨w, hw, ?_⟩
      have := colStep_mono cur b
      rw [colStep_eq] at hle
      omega

/-- the width of the line reached after `off` bytes bounds the column reached there -/
theorem lw_colAt : ∀ (bs : List UInt8) (cur off : Nat), off ≤ bs.length →
    ∃ w, (PCV.Spec.SourceInfo.lineWidthsGo cur bs)[(bs.take off).count 10]? = some w ∧ colAt cur bs off ≤ w
  | [], cur, off, _ => by
    exact ⟨cur, by simp [PCV.Spec.SourceInfo.lineWidthsGo], by simp [colAt]⟩
  | b :: bs, cur, 0, _ => by
    simpa [colAt] using lw_head (b :: bs) cur
  | b :: bs, cur, n + 1, h => by
    simp only [List.length_cons, Nat.add_le_add_iff_right] at h
    simp only [List.take_succ_cons, colAt, PCV.Spec.SourceInfo.lineWidthsGo]
    by_cases hb : b = 10
    · subst hb
      obtain ⟨w, hw, hle⟩ := lw_colAt bs 0 n h
      refine ⟨w, ?_, by simpa using hle⟩
      simp only [if_true, List.count_cons_self]
      simpa using hw
    · obtain ⟨w, hw, hle⟩ := lw_colAt bs (colStep cur b) n h
      refine ⟨w, ?_, by simpa [hb] using hle⟩
      have hb' : (b == 10) = false := by simpa using hb
      simp only [hb, if_false, List.count_cons, hb', Bool.false_eq_true, Nat.add_zero]
      rw [colStep_eq]; exact hw

/-- `SourcePos` of an offset of the file: one-based (line, column) that lie in the file -/
theorem sourcePos_inFile (fi : FI) (hwf : WfFI fi) (off l c : Nat) (ho : off ≤ fi.data.length)
    (hp : sourcePos fi (off : Int) = some (l, c)) :
    1 ≤ l ∧ 1 ≤ c ∧ ∃ w, (PCV.Spec.SourceInfo.lineWidths fi.data)[l - 1]? = some w ∧ c - 1 ≤ w ∧
      c - 1 = colAt 0 fi.data off ∧ l - 1 = (fi.data.take off).count 10 := by
  rw [sourcePos_fold fi fi.data.length off hwf.lines ho (Nat.le_refl _)] at hp
  simp only [Option.some.injEq, Prod.mk.injEq] at hp
  obtain ⟨hl, hc⟩ := hp
  have hcol := colAt_lineStart fi.data [] 0 off 0 (by simp) (by simp) (by simpa using ho) (by simp)
  simp only [List.nil_append, List.length_nil, Nat.sub_zero] at hcol
  obtain ⟨w, hw, hle⟩ := lw_colAt fi.data 0 off ho
  subst hl hc
  refine ⟨by simp [specLine], by omega, w, ?_, ?_, ?_, ?_⟩
  · simpa [PCV.Spec.SourceInfo.lineWidths, specLine] using hw
  · simp only [Nat.add_sub_cancel]; rw [lineStart, hcol]; exact hle
  · simp only [Nat.add_sub_cancel]; rw [lineStart, hcol]
  · simp [specLine]

end PCV.Lemmas.SourceInfoSpans

namespace PCV.Lemmas.SourceInfoSpans
open PCV.SourceInfo PCV.FileInfo PCV.Lemmas.Pos PCV.Lemmas.LexInv PCV.Lemmas.SourceInfo
open PCV.Spec.SourceInfo (spanOk inFile lineWidths)

theorem colAt_succ : ∀ (bs : List UInt8) (cur off : Nat) (b : UInt8), bs[off]? = some b → b ≠ 10 →
    colAt cur bs (off + 1) = colStep (colAt cur bs off) b
  | [], _, _, _, h, _ => by simp at h
  | x :: xs, cur, 0, b, h, hb => by
    simp at h; subst h
    cases xs <;> simp [colAt, hb]
  | x :: xs, cur, n + 1, b, h, hb => by
    simp at h
    simp only [colAt]
    by_cases hx : x = 10
    · simp only [hx, if_true]; exact colAt_succ xs 0 n b h hb
    · simp only [hx, if_false]; exact colAt_succ xs _ n b h hb

theorem count_take_succ (bs : List UInt8) (off : Nat) (b : UInt8) (h : bs[off]? = some b) (hb : b ≠ 10) :
    (bs.take (off + 1)).count 10 = (bs.take off).count 10 := by
  have hlt : off < bs.length := by
    rcases Nat.lt_or_ge off bs.length with hc | hc
    · exact hc
    · have : bs[off]? = none := by simp; omega
      rw [this] at h; cases h
  rw [List.take_succ_eq_append_getElem hlt, List.count_append]
  have : bs[off] = b := by
    have := List.getElem?_eq_getElem hlt
    rw [this] at h; exact Option.some.inj h
  have hb' : (b == 10) = false := by simpa using hb
  simp [this, List.count_cons, hb']

theorem colStep_rune_start (c : Nat) (b : UInt8) (h : isRuneStart b = true) : c + 1 ≤ colStep c b := by
  unfold colStep
  split
  · have := Nat.mod_lt c (by decide : 8 > 0); omega
  · simp [h]

/-- the last byte of the token is the first byte of a character and not a newline (the lexer's tokens
    end in an ASCII graphic character; the EOF token is empty) -/
def EndByteOk (fi : FI) (e : Nat) : Prop :=
  ∀ ie, fi.items[e]? = some ie → ie.len > 0 →
    ∃ b, fi.data[ie.off + ie.len - 1]? = some b ∧ b ≠ 10 ∧ isRuneStart b = true

theorem inFile_of (ws : List Nat) (l c w : Nat) (hl : 1 ≤ l) (hw : ws[l - 1]? = some w) (hc : c ≤ w) :
    inFile ws ((l : Int) - 1) (c : Int) = true := by
  have h1 : ((l : Int) - 1).toNat = l - 1 := by omega
  have h2 : (0 : Int) ≤ (l : Int) - 1 := by omega
  simp only [inFile, h1, hw]
  have h3 : (0 : Int) ≤ (c : Int) := by omega
  have h4 : (c : Int) ≤ (w : Int) := by omega
  have h5 : (1 : Int) ≤ (l : Int) := by omega
  simp [h3, h4, h5]

/-- **Spans of nodes lie inside the file.** -/
theorem nodeSpan_spanOk (fi : FI) (hwf : WfFI fi) (n : Nd) (hn : NdOk fi n) (hend : EndByteOk fi n.e) :
    spanOk (lineWidths fi.data) (nodeSpan fi n) = true := by
  have hordered := nodeSpan_ordered fi hwf n hn
  obtain ⟨hse, he⟩ := hn
  have hs : n.s < fi.items.length := by omega
  obtain ⟨is, his⟩ : ∃ is, fi.items[n.s]? = some is := ⟨fi.items[n.s], by simp [hs]⟩
  obtain ⟨ie, hie⟩ : ∃ ie, fi.items[n.e]? = some ie := ⟨fi.items[n.e], by simp [he]⟩
  have hbs := itemsOk_bounds fi.items 0 hwf.items n.s is his
  have hbe := itemsOk_bounds fi.items 0 hwf.items n.e ie hie
  obtain ⟨t, ht⟩ : ∃ t, fi.lines = 0 :: t := ⟨_, hwf.lines⟩
  have hendf := hwf.itemsEnd
  obtain ⟨l1, c1, hp1, _⟩ := sourcePos_some fi is.off t ht (by omega)
  obtain ⟨hl1, hc1, w1, hw1, hle1, _, _⟩ := sourcePos_inFile fi hwf is.off l1 c1 (by omega) hp1
  have hts : tokStart fi n.s = (l1, c1) := by simp [tokStart, nodeStart, his, hp1]
  have hstart : inFile (lineWidths fi.data) ((l1 : Int) - 1) ((c1 : Int) - 1) = true := by
    have := inFile_of (lineWidths fi.data) l1 (c1 - 1) w1 hl1 hw1 hle1
    have hcast : ((c1 - 1 : Nat) : Int) = (c1 : Int) - 1 := by omega
    rwa [hcast] at this
  -- the end position
  have hendpos : ∃ l2 c2, tokEnd fi n.e = (l2, c2) ∧ 1 ≤ l2 ∧ 1 ≤ c2 ∧
      inFile (lineWidths fi.data) ((l2 : Int) - 1) ((c2 : Int) - 1) = true := by
    by_cases hlen : ie.len > 0
    · obtain ⟨b, hb, hb10, hbr⟩ := hend ie hie hlen
      obtain ⟨l2, c2, hp2, _⟩ := sourcePos_some fi (ie.off + ie.len - 1) t ht (by omega)
      obtain ⟨hl2, hc2, w2, hw2, _, hcol2, hline2⟩ :=
        sourcePos_inFile fi hwf (ie.off + ie.len - 1) l2 c2 (by omega) hp2
      have hte : tokEnd fi n.e = (l2, c2 + 1) := by simp [tokEnd, nodeEnd, hie, hlen, hp2]
      obtain ⟨w, hw, hle⟩ := lw_colAt fi.data 0 (ie.off + ie.len - 1 + 1) (by omega)
      rw [count_take_succ fi.data _ b hb hb10, ← hline2] at hw
      rw [colAt_succ fi.data 0 _ b hb hb10] at hle
      have hstep := colStep_rune_start (colAt 0 fi.data (ie.off + ie.len - 1)) b hbr
      have hww : w = w2 := by
        simp only [lineWidths] at hw2; rw [hw] at hw2; exact Option.some.inj hw2
      refine ⟨l2, c2 + 1, hte, hl2, by omega, ?_⟩
      have := inFile_of (lineWidths fi.data) l2 c2 w2 hl2 hw2 (by omega)
      have hcast : (((c2 + 1 : Nat) : Int) - 1) = (c2 : Int) := by omega
      rwa [hcast]
    · obtain ⟨l2, c2, hp2, _⟩ := sourcePos_some fi ie.off t ht (by omega)
      obtain ⟨hl2, hc2, w2, hw2, hle2, _, _⟩ := sourcePos_inFile fi hwf ie.off l2 c2 (by omega) hp2
      have hte : tokEnd fi n.e = (l2, c2) := by simp [tokEnd, nodeEnd, hie, hlen, hp2]
      refine ⟨l2, c2, hte, hl2, hc2, ?_⟩
      have := inFile_of (lineWidths fi.data) l2 (c2 - 1) w2 hl2 hw2 hle2
      have hcast : ((c2 - 1 : Nat) : Int) = (c2 : Int) - 1 := by omega
      rwa [hcast] at this
  obtain ⟨l2, c2, hte, hl2, hc2, hin2⟩ := hendpos
  rw [nodeSpan, hts, hte] at hordered ⊢
  unfold makeSpan at hordered ⊢
  by_cases heq : l1 = l2
  · subst heq
    simp only [if_true, spanOrdered] at hordered
    simp only [if_true, spanOk, hstart, hin2, Bool.and_true, decide_eq_true_eq]
    exact hordered.2.2
  · simp only [heq, if_false, spanOrdered] at hordered
    simp only [heq, if_false, spanOk, hstart, hin2, Bool.and_true, decide_eq_true_eq]
    exact hordered.2.1

end PCV.Lemmas.SourceInfoSpans
