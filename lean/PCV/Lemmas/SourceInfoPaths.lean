/-
Every path the walk of sourceinfo/source_code_info.go emits is well-typed against descriptor.proto
(`PCV.Spec.SourceInfo.descSchema`): each field number is a field of the message type reached so far,
indexes appear exactly after repeated fields and are non-negative, nothing follows a scalar.
This holds for EVERY abstract AST (all node kinds), under a hypothesis on the option index only
(`astOk`: the shape the option interpreter produces; the interpreter is not modelled).
Paths below an options message are not examined here (`isOptionsType` is opaque).
-/
import PCV.Model.SourceInfo
import PCV.Spec.SourceInfo
import PCV.Lemmas.SourceInfo
set_option linter.unusedSimpArgs false
namespace PCV.Lemmas.SourceInfoPaths
open PCV.SourceInfo
open PCV.Spec.SourceInfo hiding Path Bytes Loc

/-- `pathValid` without the descriptor value: indexes only have to be non-negative -/
def pathTyped (sch : List SEntry) (opq : Nat → Bool) : Nat → Path → Bool
  | _, [] => true
  | ty, num :: rest =>
    if opq ty then true else
    match lookupField sch ty num with
    | none => false
    | some e =>
      if e.rep then
        match rest with
        | [] => true
        | i :: rest' =>
          decide (0 ≤ i) &&
          match e.sub with
          | none => rest'.isEmpty
          | some ty' => pathTyped sch opq ty' rest'
      else
        match e.sub with
        | none => rest.isEmpty
        | some ty' => pathTyped sch opq ty' rest

/-- the message type a path leads to (`none` if it is ill-typed, ends in a scalar, or stops between a
    repeated field and its index, or crosses an opaque type) -/
def walk (sch : List SEntry) (opq : Nat → Bool) : Nat → Path → Option Nat
  | ty, [] => some ty
  | ty, num :: rest =>
    if opq ty then none else
    match lookupField sch ty num with
    | none => none
    | some e =>
      match e.sub with
      | none => none
      | some ty' =>
        if e.rep then
          match rest with
          | [] => none
          | i :: rest' => if 0 ≤ i then walk sch opq ty' rest' else none
        else walk sch opq ty' rest

theorem typed_of_walk (sch : List SEntry) (opq : Nat → Bool) (ty0 : Nat) (path : Path) :
    ∀ (ty : Nat) (q : Path), walk sch opq ty0 path = some ty →
      pathTyped sch opq ty q = true → pathTyped sch opq ty0 (path ++ q) = true := by
  fun_induction walk sch opq ty0 path with
  | case1 ty => intro ty' q hw hq; simp at hw; subst hw; simpa using hq
  | case2 ty num rest ho => intro ty' q hw; simp at hw
  | case3 ty num rest ho hl => intro ty' q hw; simp at hw
  | case4 ty num rest ho e hl hs => intro ty' q hw; simp at hw
  | case5 ty num ho e hl ty1 hs hr => intro ty' q hw; simp at hw
  | case6 ty num ho e hl ty1 hs hr i rest' hi ih =>
    intro ty' q hw hq
    simp only [List.cons_append, pathTyped, ho, hl, hr, hs, hi]
    simpa using ih ty' q hw hq
  | case7 ty num ho e hl ty1 hs hr i rest' hi => intro ty' q hw; simp at hw
  | case8 ty num rest ho e hl ty1 hs hr ih =>
    intro ty' q hw hq
    simp only [List.cons_append, pathTyped, ho, hl, hr, hs]
    simpa using ih ty' q hw hq

theorem walk_append (sch : List SEntry) (opq : Nat → Bool) (ty0 : Nat) (path : Path) :
    ∀ (ty ty2 : Nat) (q : Path), walk sch opq ty0 path = some ty →
      walk sch opq ty q = some ty2 → walk sch opq ty0 (path ++ q) = some ty2 := by
  fun_induction walk sch opq ty0 path with
  | case1 ty => intro ty' ty2 q hw hq; simp at hw; subst hw; simpa using hq
  | case2 ty num rest ho => intro ty' ty2 q hw; simp at hw
  | case3 ty num rest ho hl => intro ty' ty2 q hw; simp at hw
  | case4 ty num rest ho e hl hs => intro ty' ty2 q hw; simp at hw
  | case5 ty num ho e hl ty1 hs hr => intro ty' ty2 q hw; simp at hw
  | case6 ty num ho e hl ty1 hs hr i rest' hi ih =>
    intro ty' ty2 q hw hq
    simp only [List.cons_append, walk, ho, hl, hr, hs, hi]
    simpa using ih ty' ty2 q hw hq
  | case7 ty num ho e hl ty1 hs hr i rest' hi => intro ty' ty2 q hw; simp at hw
  | case8 ty num rest ho e hl ty1 hs hr ih =>
    intro ty' ty2 q hw hq
    simp only [List.cons_append, walk, ho, hl, hr, hs]
    simpa using ih ty' ty2 q hw hq

theorem pathTyped_opq (sch : List SEntry) (opq : Nat → Bool) (ty : Nat) (q : Path) (h : opq ty = true) :
    pathTyped sch opq ty q = true := by
  cases q <;> simp [pathTyped, h]

/-! ### instantiation with descriptor.proto, options opaque -/

/-- the message type the path leads to from FileDescriptorProto -/
abbrev W (p : Path) : Option Nat := walk descSchema isOptionsType 0 p

/-- the path is well-typed from FileDescriptorProto (options messages opaque) -/
abbrev Typed (p : Path) : Prop := pathTyped descSchema isOptionsType 0 p = true

theorem typed_app {path : Path} {ty : Nat} (hw : W path = some ty) (q : Path)
    (hq : pathTyped descSchema isOptionsType ty q = true) : Typed (path ++ q) :=
  typed_of_walk _ _ 0 path ty q hw hq

theorem typed_self {path : Path} {ty : Nat} (hw : W path = some ty) : Typed path := by
  simpa using typed_app hw [] (by simp [pathTyped])

theorem typed_under {path : Path} {ty : Nat} (hw : W path = some ty) (ho : isOptionsType ty = true) (q : Path) :
    Typed (path ++ q) :=
  typed_app hw q (pathTyped_opq _ _ _ _ ho)

theorem W_app {path : Path} {ty ty2 : Nat} (hw : W path = some ty) (q : Path)
    (hq : walk descSchema isOptionsType ty q = some ty2) : W (path ++ q) = some ty2 :=
  walk_append _ _ 0 path ty ty2 q hw hq

/-- step over a repeated message field: `path ++ [num, i]` -/
theorem W_rep {path : Path} {ty ty2 : Nat} (hw : W path = some ty) (num i : Int) (hi : 0 ≤ i) (e : SEntry)
    (ho : isOptionsType ty = false) (hl : lookupField descSchema ty num = some e) (hr : e.rep = true)
    (hs : e.sub = some ty2) : W (path ++ [num, i]) = some ty2 := by
  apply W_app hw
  simp [walk, ho, hl, hs, hr, hi]

/-- step over a singular message field: `path ++ [num]` -/
theorem W_sing {path : Path} {ty ty2 : Nat} (hw : W path = some ty) (num : Int) (e : SEntry)
    (ho : isOptionsType ty = false) (hl : lookupField descSchema ty num = some e) (hr : e.rep = false)
    (hs : e.sub = some ty2) : W (path ++ [num]) = some ty2 := by
  apply W_app hw
  simp [walk, ho, hl, hs, hr]

/-- a repeated field followed by a non-negative index and a well-typed rest -/
theorem typed_rep {path : Path} {ty ty2 : Nat} (hw : W path = some ty) (num i : Int) (hi : 0 ≤ i) (e : SEntry)
    (q : Path) (ho : isOptionsType ty = false) (hl : lookupField descSchema ty num = some e) (hr : e.rep = true)
    (hs : e.sub = some ty2) (hq : pathTyped descSchema isOptionsType ty2 q = true) :
    Typed (path ++ (num :: i :: q)) := by
  apply typed_app hw
  simp [pathTyped, ho, hl, hs, hr, hi, hq]

/-- a repeated scalar field followed by a non-negative index -/
theorem typed_rep_scalar {path : Path} {ty : Nat} (hw : W path = some ty) (num i : Int) (hi : 0 ≤ i) (e : SEntry)
    (ho : isOptionsType ty = false) (hl : lookupField descSchema ty num = some e) (hr : e.rep = true)
    (hs : e.sub = none) : Typed (path ++ [num, i]) := by
  apply typed_app hw
  simp [pathTyped, ho, hl, hs, hr, hi]

def AllTyped (l : List Req) : Prop := ∀ r ∈ l, Typed r.path

@[simp] theorem allTyped_nil : AllTyped [] := by intro r hr; cases hr
@[simp] theorem allTyped_cons (r : Req) (l : List Req) : AllTyped (r :: l) ↔ Typed r.path ∧ AllTyped l := by
  simp [AllTyped]
@[simp] theorem allTyped_append (a b : List Req) : AllTyped (a ++ b) ↔ AllTyped a ∧ AllTyped b := by
  simp only [AllTyped, List.mem_append]
  constructor
  · intro h; exact ⟨fun r hr => h r (Or.inl hr), fun r hr => h r (Or.inr hr)⟩
  · intro h r hr; rcases hr with hr | hr
    · exact h.1 r hr
    · exact h.2 r hr

/-! ### the shape of the option index -/

mutual
/-- an `OptionSourceInfo` below the root: its path is non-empty and does not start with -1 -/
def infoOk : OInfo → Bool
  | .mk p _ _ kids => (match p with | [] => false | h :: _ => h != -1) && infosOk kids
def infosOk : List OInfo → Bool
  | [] => true
  | k :: ks => infoOk k && infosOk ks
end

def isArrayVal : OVal → Bool
  | .array _ _ => true
  | _ => false

/-- the entry of an option in the index: either a proper path (and proper descendants), or — for a
    compact option of a field only — one of the two pseudo-option paths `[-1, default_value]`,
    `[-1, json_name]` without children -/
def optOk (inField : Bool) (o : Opt) : Bool :=
  match o.info with
  | none => true
  | some i =>
    if i.path.head? == some (-1) then
      inField && (i.path == [-1, Tag.Field_DefaultValue] || i.path == [-1, Tag.Field_JsonName])
        && i.ckind == 0 && !isArrayVal o.val
    else infoOk i

def coptsOk (inField : Bool) : Option COpts → Bool
  | none => true
  | some c => c.opts.all (optOk inField)

mutual
def declOk : Decl → Bool
  | .opt o => optOk false o
  | .field f => coptsOk true f.opts
  | .mapField f => coptsOk true f.opts
  | .group f _ _ _ ds => coptsOk true f.opts && declsOk ds
  | .msg _ _ _ ds => declsOk ds
  | .oneof _ _ _ ds => declsOk ds
  | .extend _ _ ds => declsOk ds
  | .enum _ _ _ ds => declsOk ds
  | .enumVal _ _ _ co => coptsOk false co
  | .extRange _ _ co => coptsOk false co
  | .svc _ _ _ ds => declsOk ds
  | .rpc _ _ _ _ _ _ _ ds => declsOk ds
  | _ => true
def declsOk : List Decl → Bool
  | [] => true
  | d :: ds => declOk d && declsOk ds
end

/-- hypothesis on the option index of a file (what options.InterpretOptions produces) -/
def astOk (f : File) : Bool := declsOk f.decls

end PCV.Lemmas.SourceInfoPaths

namespace PCV.Lemmas.SourceInfoPaths
open PCV.SourceInfo
open PCV.Spec.SourceInfo hiding Path Bytes Loc

/-! ### requests below an options path -/

/-- every request's path strictly extends `pre` -/
def Under (pre : Path) (l : List Req) : Prop := ∀ r ∈ l, ∃ q, q ≠ [] ∧ r.path = pre ++ q

/-- every request's path extends `pre` (possibly equal) -/
def AllPre (pre : Path) (l : List Req) : Prop := ∀ r ∈ l, ∃ q, r.path = pre ++ q

theorem under_nil (pre : Path) : Under pre [] := by intro r hr; cases hr
theorem under_cons {pre : Path} {r : Req} {l : List Req} (h1 : ∃ q, q ≠ [] ∧ r.path = pre ++ q) (h2 : Under pre l) :
    Under pre (r :: l) := by
  intro x hx; simp only [List.mem_cons] at hx
  rcases hx with h | h
  · subst h; exact h1
  · exact h2 x h
theorem under_append {pre : Path} {a b : List Req} (h1 : Under pre a) (h2 : Under pre b) : Under pre (a ++ b) := by
  intro x hx; simp only [List.mem_append] at hx
  rcases hx with h | h
  · exact h1 x h
  · exact h2 x h
theorem Under.allPre {pre : Path} {l : List Req} (h : Under pre l) : AllPre pre l :=
  fun r hr => let ⟨q, _, e⟩ := h r hr; ⟨q, e⟩

theorem allPre_nil (pre : Path) : AllPre pre [] := by intro r hr; cases hr
theorem allPre_cons {pre : Path} {r : Req} {l : List Req} (h1 : ∃ q, r.path = pre ++ q) (h2 : AllPre pre l) :
    AllPre pre (r :: l) := by
  intro x hx; simp only [List.mem_cons] at hx
  rcases hx with h | h
  · subst h; exact h1
  · exact h2 x h
theorem allPre_append {pre : Path} {a b : List Req} (h1 : AllPre pre a) (h2 : AllPre pre b) : AllPre pre (a ++ b) := by
  intro x hx; simp only [List.mem_append] at hx
  rcases hx with h | h
  · exact h1 x h
  · exact h2 x h

theorem AllPre.typed {pre : Path} {ty : Nat} {l : List Req} (h : AllPre pre l) (hw : W pre = some ty)
    (ho : isOptionsType ty = true) : AllTyped l := by
  intro r hr
  obtain ⟨q, e⟩ := h r hr
  rw [e]; exact typed_under hw ho q

theorem headOk_ne_nil {p : Path} (h : (match p with | [] => false | h :: _ => h != -1) = true) : p ≠ [] := by
  cases p <;> simp at h ⊢

theorem combinePaths_ok (pre p : Path) (h : (match p with | [] => false | h :: _ => h != -1) = true) :
    combinePaths pre p = pre ++ p := by
  cases p with
  | nil => simp at h
  | cons a t =>
    simp only [bne_iff_ne, ne_eq] at h
    unfold combinePaths
    split
    · rename_i rest heq; simp at heq; exact absurd heq.1 h
    · rfl

theorem bumpLast_under (pre q : Path) (i : Nat) (hq : q ≠ []) :
    ∃ q', q' ≠ [] ∧ bumpLast (pre ++ q) i = pre ++ q' := by
  obtain ⟨l, hl⟩ : ∃ l, q.getLast? = some l := by
    cases h : q.getLast? with
    | none => simp [List.getLast?_eq_none_iff] at h; exact absurd h hq
    | some l => exact ⟨l, rfl⟩
  refine ⟨q.dropLast ++ [l + (i : Int)], by simp, ?_⟩
  unfold bumpLast
  rw [List.getLast?_append, hl]
  simp [List.dropLast_append_of_ne_nil hq]

mutual
theorem genChildren_under : ∀ (v : OVal) (pre path : Path) (k : Nat) (kids : List OInfo),
    infosOk kids = true → (∃ q, q ≠ [] ∧ path = pre ++ q) → Under pre (genChildren v pre path k kids)
  | .array _ elems, pre, _, 1, kids => by
    intro hk _; rw [genChildren]; exact genElems_under elems kids pre hk
  | .msg _ fields, pre, _, 2, kids => by
    intro hk _; rw [genChildren]; exact genFlds_under fields kids pre hk
  | .array _ elems, _, path, 0, _ => by
    intro _ hp; rw [genChildren]; exact genScalars_under elems _ path 0 hp
  | .scalar _, _, _, _, _ => by intro _ _; simp [genChildren, under_nil]
  | .fld _ _ _ _, _, _, _, _ => by intro _ _; simp [genChildren, under_nil]
  | .msg _ _, _, _, 0, _ => by intro _ _; simp [genChildren, under_nil]
  | .msg _ _, _, _, 1, _ => by intro _ _; simp [genChildren, under_nil]
  | .msg _ _, _, _, k + 3, _ => by intro _ _; simp [genChildren, under_nil]
  | .array _ _, _, _, k + 2, _ => by intro _ _; simp [genChildren, under_nil]
theorem genElems_under : ∀ (vs : List OVal) (is : List OInfo) (pre : Path),
    infosOk is = true → Under pre (genElems vs is pre)
  | v :: vs, .mk p b k kids :: is, pre => by
    intro hk
    simp only [infosOk, infoOk, Bool.and_eq_true] at hk
    obtain ⟨⟨hp, hkids⟩, his⟩ := hk
    rw [genElems]
    simp only [OInfo.path, OInfo.ckind, OInfo.kids, combinePaths_ok pre p hp]
    refine under_cons ⟨p, headOk_ne_nil hp, rfl⟩ (under_append ?_ (genElems_under vs is pre his))
    exact genChildren_under v pre _ k kids hkids ⟨p, headOk_ne_nil hp, rfl⟩
  | [], _, _ => by intro _; simp [genElems, under_nil]
  | _ :: _, [], _ => by intro _; simp [genElems, under_nil]
theorem genFlds_under : ∀ (vs : List OVal) (is : List OInfo) (pre : Path),
    infosOk is = true → Under pre (genFlds vs is pre)
  | .fld n name isAny val :: vs, .mk p b k kids :: is, pre => by
    intro hk
    simp only [infosOk, infoOk, Bool.and_eq_true] at hk
    obtain ⟨⟨hp, hkids⟩, his⟩ := hk
    rw [genFlds]
    refine under_append ?_ (genFlds_under vs is pre his)
    simp only [OInfo.path, OInfo.ckind, OInfo.kids, OInfo.present, combinePaths_ok pre p hp]
    split
    · refine under_append (under_append ?_ ?_) ?_
      · split
        · exact under_cons ⟨p, headOk_ne_nil hp, rfl⟩ (under_nil _)
        · exact under_nil _
      · split
        · exact under_nil _
        · exact under_cons ⟨p, headOk_ne_nil hp, rfl⟩ (under_nil _)
      · exact genChildren_under val pre _ k kids hkids ⟨p, headOk_ne_nil hp, rfl⟩
    · exact under_nil _
  | .scalar _ :: vs, i :: is, pre => by
    intro hk; simp only [infosOk, Bool.and_eq_true] at hk
    rw [genFlds]
    · exact genFlds_under vs is pre hk.2
    · intro _ _ _ _ h; cases h
  | .array _ _ :: vs, i :: is, pre => by
    intro hk; simp only [infosOk, Bool.and_eq_true] at hk
    rw [genFlds]
    · exact genFlds_under vs is pre hk.2
    · intro _ _ _ _ h; cases h
  | .msg _ _ :: vs, i :: is, pre => by
    intro hk; simp only [infosOk, Bool.and_eq_true] at hk
    rw [genFlds]
    · exact genFlds_under vs is pre hk.2
    · intro _ _ _ _ h; cases h
  | [], _, _ => by intro _; simp [genFlds, under_nil]
  | _ :: _, [], _ => by intro _; simp [genFlds, under_nil]
theorem genScalars_under : ∀ (vs : List OVal) (pre path : Path) (i : Nat),
    (∃ q, q ≠ [] ∧ path = pre ++ q) → Under pre (genScalars vs path i)
  | v :: vs, pre, path, i => by
    intro hp
    rw [genScalars]
    refine under_cons ?_ (genScalars_under vs pre path (i + 1) hp)
    obtain ⟨q, hq, e⟩ := hp
    subst e
    exact bumpLast_under pre q i hq
  | [], _, _, _ => by intro _; simp [genScalars, under_nil]
end

end PCV.Lemmas.SourceInfoPaths

namespace PCV.Lemmas.SourceInfoPaths
open PCV.SourceInfo
open PCV.Spec.SourceInfo hiding Path Bytes Loc

abbrev headOk (p : Path) : Bool := match p with | [] => false | h :: _ => h != -1

theorem infoOk_spec (i : OInfo) (h : infoOk i = true) : headOk i.path = true ∧ infosOk i.kids = true := by
  cases i with
  | mk p b k kids => simpa [infoOk, OInfo.path, OInfo.kids] using h

theorem headOk_head (p : Path) (h : headOk p = true) : (p.head? == some (-1)) = false := by
  cases p with
  | nil => simp at h
  | cons a t => simp only [headOk, bne_iff_ne, ne_eq] at h; simp [h]

theorem genNameParts_allPre : ∀ (ps : List (Nd × Nd)) (optPath : Path) (j : Nat),
    AllPre optPath (genNameParts ps optPath j)
  | [], _, _ => by simp [genNameParts, allPre_nil]
  | (a, b) :: rest, optPath, j => by
    rw [genNameParts]
    exact allPre_cons ⟨_, rfl⟩ (allPre_cons ⟨_, by simp [List.append_assoc]; rfl⟩ (genNameParts_allPre rest optPath (j + 1)))

theorem allPre_trans {pre q : Path} {l : List Req} (h : AllPre (pre ++ q) l) : AllPre pre l := by
  intro r hr; obtain ⟨q', e⟩ := h r hr; exact ⟨q ++ q', by rw [e, List.append_assoc]⟩

theorem genChildren_nil_of_scalar (v : OVal) (pre path : Path) (kids : List OInfo) (h : isArrayVal v = false) :
    genChildren v pre path 0 kids = [] := by
  cases v <;> simp [genChildren, isArrayVal] at h ⊢

/-- outside a field's compact options: every request of an option lies at or below the options path,
    the added ones strictly below -/
theorem genOption_allPre (xo : Bool) (o : Opt) (compact : Bool) (ui : Int) (path : Path)
    (hok : optOk false o = true) :
    AllPre path (genOption xo o compact ui path).1 ∧
    ∀ r ∈ (genOption xo o compact ui path).1, r.extra = true → ∃ q, q ≠ [] ∧ r.path = path ++ q := by
  unfold genOption
  unfold optOk at hok
  cases hi : o.info with
  | none =>
    simp only
    constructor
    · refine allPre_append (allPre_append (allPre_append ?_ ?_) ?_) (allPre_trans (genNameParts_allPre _ _ _))
      · cases compact <;> simp [allPre_nil]
        exact allPre_cons ⟨[], by simp⟩ (allPre_nil _)
      · exact allPre_cons ⟨_, rfl⟩ (allPre_nil _)
      · split
        · exact allPre_cons ⟨_, by simp [List.append_assoc]; rfl⟩ (allPre_nil _)
        · exact allPre_nil _
    · intro r hr hx
      exfalso
      simp only [List.mem_append] at hr
      rcases hr with ((hr | hr) | hr) | hr
      · cases compact <;> simp at hr; subst hr; simp at hx
      · simp at hr; subst hr; simp at hx
      · split at hr
        · simp at hr; subst hr; simp at hx
        · simp at hr
      · have := PCV.Lemmas.SourceInfo.genNameParts_noX _ _ _ r hr; simp [this] at hx
  | some info =>
    rw [hi] at hok
    simp only at hok ⊢
    by_cases hm : (info.path.head? == some (-1)) = true
    · simp [hm] at hok
    · simp only [hm, if_false, Bool.false_eq_true] at hok
      obtain ⟨hp, hkids⟩ := infoOk_spec info hok
      rw [combinePaths_ok path info.path hp]
      have hch : Under path (if xo = true then genChildren o.val path (path ++ info.path) info.ckind info.kids else []) := by
        split
        · exact genChildren_under _ _ _ _ _ hkids ⟨_, headOk_ne_nil hp, rfl⟩
        · exact under_nil _
      constructor
      · refine allPre_append (allPre_append ?_ (allPre_cons ⟨_, rfl⟩ (allPre_nil _))) hch.allPre
        cases compact <;> simp [allPre_nil]
        exact allPre_cons ⟨[], by simp⟩ (allPre_nil _)
      · intro r hr hx
        simp only [List.mem_append] at hr
        rcases hr with (hr | hr) | hr
        · cases compact <;> simp at hr; subst hr; simp at hx
        · simp at hr; subst hr; simp at hx
        · exact hch r hr

end PCV.Lemmas.SourceInfoPaths

namespace PCV.Lemmas.SourceInfoPaths
open PCV.SourceInfo
open PCV.Spec.SourceInfo hiding Path Bytes Loc

/-- the path strictly extends a path that leads to an options message -/
def ExtendsOptions (p : Path) : Prop :=
  ∃ pre q ty, q ≠ [] ∧ p = pre ++ q ∧ W pre = some ty ∧ isOptionsType ty = true

def GoodReq (r : Req) : Prop := Typed r.path ∧ (r.extra = true → ExtendsOptions r.path)

/-- every request has a well-typed path, and the requests added by WithExtraOptionLocations lie
    strictly below an options message -/
def Good (l : List Req) : Prop := ∀ r ∈ l, GoodReq r

@[simp] theorem good_nil : Good [] := by intro r hr; cases hr
@[simp] theorem good_cons (r : Req) (l : List Req) : Good (r :: l) ↔ GoodReq r ∧ Good l := by
  simp [Good]
@[simp] theorem good_append (a b : List Req) : Good (a ++ b) ↔ Good a ∧ Good b := by
  simp only [Good, List.mem_append]
  constructor
  · intro h; exact ⟨fun r hr => h r (Or.inl hr), fun r hr => h r (Or.inr hr)⟩
  · intro h r hr; rcases hr with hr | hr
    · exact h.1 r hr
    · exact h.2 r hr

theorem goodReq_false (k : RK) (n : Nd) (p : Path) : GoodReq ⟨k, n, p, false⟩ ↔ Typed p := by
  simp [GoodReq]

theorem goodReq_mk (k : RK) (n : Nd) (p : Path) (h : Typed p) : GoodReq ⟨k, n, p, false⟩ :=
  ⟨h, by intro hx; simp at hx⟩

theorem good_of_option {xo : Bool} {o : Opt} {compact : Bool} {ui : Int} {path : Path} {ty : Nat}
    (hw : W path = some ty) (ho : isOptionsType ty = true) (hok : optOk false o = true) :
    Good (genOption xo o compact ui path).1 := by
  obtain ⟨h1, h2⟩ := genOption_allPre xo o compact ui path hok
  intro r hr
  refine ⟨h1.typed hw ho r hr, fun hx => ?_⟩
  obtain ⟨q, hq, e⟩ := h2 r hr hx
  exact ⟨path, q, ty, hq, e, hw, ho⟩

theorem W_fieldOptions {fp : Path} (hwf : W fp = some 2) : W (fp ++ [Tag.Field_Options]) = some 13 :=
  W_sing hwf 8 ⟨2, 8, false, some 13⟩ rfl rfl rfl rfl

/-- a compact option of a field: proper options as above, pseudo-options address the field itself -/
theorem good_of_field_option {xo : Bool} {o : Opt} {compact : Bool} {ui : Int} {fp : Path}
    (hwf : W fp = some 2) (hok : optOk true o = true) :
    Good (genOption xo o compact ui (fp ++ [Tag.Field_Options])).1 := by
  by_cases hm : ∃ i, o.info = some i ∧ (i.path.head? == some (-1)) = true
  · obtain ⟨i, hi, hm⟩ := hm
    unfold optOk at hok
    rw [hi] at hok
    simp only [hm, if_true, Bool.true_and, Bool.and_eq_true, Bool.or_eq_true, beq_iff_eq,
      Bool.not_eq_true'] at hok
    obtain ⟨⟨hp, hk⟩, hv⟩ := hok
    unfold genOption
    rw [hi]
    have hch : (if xo = true then genChildren o.val (fp ++ [Tag.Field_Options])
        (combinePaths (fp ++ [Tag.Field_Options]) i.path) i.ckind i.kids else []) = [] := by
      split
      · rw [hk]; exact genChildren_nil_of_scalar _ _ _ _ hv
      · rfl
    simp only [hch, List.append_nil, good_append, good_cons, good_nil, and_true]
    have hfull : Typed (combinePaths (fp ++ [Tag.Field_Options]) i.path) := by
      rcases hp with hp | hp <;> rw [hp] <;> simp only [combinePaths, List.dropLast_concat]
      · exact typed_app hwf [Tag.Field_DefaultValue] (by decide)
      · exact typed_app hwf [Tag.Field_JsonName] (by decide)
    refine ⟨?_, goodReq_mk _ _ _ hfull⟩
    cases compact <;> simp
    exact goodReq_mk _ _ _ (typed_self (W_fieldOptions hwf))
  · have hok' : optOk false o = true := by
      unfold optOk at hok ⊢
      cases hi : o.info with
      | none => rfl
      | some i =>
        rw [hi] at hok
        have : (i.path.head? == some (-1)) = false := by
          cases h : (i.path.head? == some (-1)) with
          | false => rfl
          | true => exact absurd ⟨i, hi, h⟩ hm
        simpa [this] using hok
    exact good_of_option (W_fieldOptions hwf) rfl hok'

theorem good_of_options {xo compact : Bool} {path : Path} {ty : Nat}
    (hw : W path = some ty) (ho : isOptionsType ty = true) :
    ∀ (os : List Opt) (ui : Int), os.all (optOk false) = true → Good (genOptions xo compact os ui path)
  | [], _, _ => by simp [genOptions]
  | o :: os, ui, hok => by
    simp only [List.all_cons, Bool.and_eq_true] at hok
    simp only [genOptions, good_append]
    exact ⟨good_of_option hw ho hok.1, good_of_options hw ho os _ hok.2⟩

theorem good_of_field_options {xo compact : Bool} {fp : Path} (hwf : W fp = some 2) :
    ∀ (os : List Opt) (ui : Int), os.all (optOk true) = true →
      Good (genOptions xo compact os ui (fp ++ [Tag.Field_Options]))
  | [], _, _ => by simp [genOptions]
  | o :: os, ui, hok => by
    simp only [List.all_cons, Bool.and_eq_true] at hok
    simp only [genOptions, good_append]
    exact ⟨good_of_field_option hwf hok.1, good_of_field_options hwf os _ hok.2⟩

/-- compact options of an enum value / extension range: `path ++ [tag]` leads to an options message -/
theorem good_of_compact {xo : Bool} {co : Option COpts} {path : Path} {tag : Int} {ty : Nat}
    (hw : W (path ++ [tag]) = some ty) (ho : isOptionsType ty = true) (hok : coptsOk false co = true) :
    Good (genCompact xo co path tag) := by
  cases co with
  | none => simp [genCompact]
  | some c =>
    simp only [genCompact, good_cons]
    exact ⟨goodReq_mk _ _ _ (typed_self hw), good_of_options hw ho c.opts 0 hok⟩

theorem good_of_field_compact {xo : Bool} {co : Option COpts} {fp : Path} (hwf : W fp = some 2)
    (hok : coptsOk true co = true) : Good (genCompact xo co fp Tag.Field_Options) := by
  cases co with
  | none => simp [genCompact]
  | some c =>
    simp only [genCompact, good_cons]
    exact ⟨goodReq_mk _ _ _ (typed_self (W_fieldOptions hwf)), good_of_field_options hwf c.opts 0 hok⟩

/-- `generateSourceCodeInfoForField` at a path that leads to a FieldDescriptorProto -/
theorem good_field {xo : Bool} {f : Fld} {fp : Path} (hwf : W fp = some 2) (hok : coptsOk true f.opts = true) :
    Good (genField xo f fp) := by
  have t : ∀ k : Int, pathTyped descSchema isOptionsType 2 [k] = true → Typed (fp ++ [k]) :=
    fun k hk => typed_app hwf [k] hk
  unfold genField
  simp only [good_append, good_cons, good_nil, and_true]
  refine ⟨⟨?_, goodReq_mk _ _ _ (t _ (by decide))⟩, good_of_field_compact hwf hok⟩
  cases f.isGroup <;> cases f.extendee <;> cases f.label <;> cases f.scalar <;>
    simp only [good_append, good_cons, good_nil, and_true, Bool.false_eq_true, if_false, if_true,
      goodReq_false, List.nil_append] <;>
    and_intros <;>
    first
      | exact typed_self hwf
      | exact t _ (by decide)

end PCV.Lemmas.SourceInfoPaths

namespace PCV.Lemmas.SourceInfoPaths
open PCV.SourceInfo
open PCV.Spec.SourceInfo hiding Path Bytes Loc

theorem app2 (p : Path) (a b : Int) : (p ++ [a]) ++ [b] = p ++ [a, b] := by simp

/-- ranges: `path` leads to a range message whose fields `st`, `en` are scalars -/
theorem good_range (r : Rng) {path : Path} {ty : Nat} (hw : W path = some ty) (st en : Int)
    (hst : pathTyped descSchema isOptionsType ty [st] = true)
    (hen : pathTyped descSchema isOptionsType ty [en] = true) : Good (genRange r path st en) := by
  simp only [genRange, good_cons, good_nil, and_true, goodReq_false]
  exact ⟨typed_self hw, typed_app hw _ hst, typed_app hw _ hen⟩

theorem good_ranges {bp : Path} {tb tr : Nat} (hw : W bp = some tb) (rtag : Int) (e : SEntry)
    (ho : isOptionsType tb = false) (hl : lookupField descSchema tb rtag = some e) (hr : e.rep = true)
    (hs : e.sub = some tr) (st en : Int)
    (hst : pathTyped descSchema isOptionsType tr [st] = true)
    (hen : pathTyped descSchema isOptionsType tr [en] = true) :
    ∀ (rs : List Rng) (idx : Int), 0 ≤ idx →
      Good (genRanges rs (bp ++ [rtag]) idx st en).1 ∧ 0 ≤ (genRanges rs (bp ++ [rtag]) idx st en).2
  | [], idx, hi => by simp [genRanges, hi]
  | r :: rs, idx, hi => by
    have ih := good_ranges hw rtag e ho hl hr hs st en hst hen rs (idx + 1) (by omega)
    simp only [genRanges, good_append, app2]
    exact ⟨⟨good_range r (W_rep hw rtag idx hi e ho hl hr hs) st en hst hen, ih.1⟩, ih.2⟩

theorem good_names {bp : Path} {tb : Nat} (hw : W bp = some tb) (ntag : Int) (e : SEntry)
    (ho : isOptionsType tb = false) (hl : lookupField descSchema tb ntag = some e) (hr : e.rep = true)
    (hs : e.sub = none) :
    ∀ (ns : List Nd) (idx : Int), 0 ≤ idx →
      Good (genNames ns (bp ++ [ntag]) idx).1 ∧ 0 ≤ (genNames ns (bp ++ [ntag]) idx).2
  | [], idx, hi => by simp [genNames, hi]
  | n :: ns, idx, hi => by
    have ih := good_names hw ntag e ho hl hr hs ns (idx + 1) (by omega)
    simp only [genNames, good_cons, app2, goodReq_false]
    exact ⟨⟨typed_rep_scalar hw ntag idx hi e ho hl hr hs, ih.1⟩, ih.2⟩

/-- a repeated field itself (no index) is a well-typed path -/
theorem typed_repfield {bp : Path} {tb : Nat} (hw : W bp = some tb) (tag : Int) (e : SEntry)
    (ho : isOptionsType tb = false) (hl : lookupField descSchema tb tag = some e) (hr : e.rep = true) :
    Typed (bp ++ [tag]) := by
  apply typed_app hw
  simp [pathTyped, ho, hl, hr]

theorem good_reserved (n : Nd) (names idents : List Nd) (ranges : List Rng) {path : Path} {tb tr : Nat}
    (hw : W path = some tb) (nameTag rangeTag : Int) (en er : SEntry) (ho : isOptionsType tb = false)
    (hln : lookupField descSchema tb nameTag = some en) (hrn : en.rep = true) (hsn : en.sub = none)
    (hlr : lookupField descSchema tb rangeTag = some er) (hrr : er.rep = true) (hsr : er.sub = some tr)
    (hst : pathTyped descSchema isOptionsType tr [Tag.ReservedRange_Start] = true)
    (hen : pathTyped descSchema isOptionsType tr [Tag.ReservedRange_End] = true)
    (wi : Bool) (ni ri : Int) (hni : 0 ≤ ni) (hri : 0 ≤ ri) :
    Good (genReserved n names idents ranges path nameTag rangeTag wi ni ri).1 ∧
    0 ≤ (genReserved n names idents ranges path nameTag rangeTag wi ni ri).2.1 ∧
    0 ≤ (genReserved n names idents ranges path nameTag rangeTag wi ni ri).2.2 := by
  have tn : Typed (path ++ [nameTag]) := typed_repfield hw nameTag en ho hln hrn
  have tr' : Typed (path ++ [rangeTag]) := typed_repfield hw rangeTag er ho hlr hrr
  unfold genReserved
  -- names
  have ha : Good (if names.isEmpty = true then (([] : List Req), ni) else
      ((⟨.cmts, n, path ++ [nameTag], false⟩ : Req) :: (genNames names (path ++ [nameTag]) ni).1,
        (genNames names (path ++ [nameTag]) ni).2)).1 ∧
      0 ≤ (if names.isEmpty = true then (([] : List Req), ni) else
      ((⟨.cmts, n, path ++ [nameTag], false⟩ : Req) :: (genNames names (path ++ [nameTag]) ni).1,
        (genNames names (path ++ [nameTag]) ni).2)).2 := by
    have := good_names hw nameTag en ho hln hrn hsn names ni hni
    split
    · simp [hni]
    · simp only [good_cons, goodReq_false]; exact ⟨⟨tn, this.1⟩, this.2⟩
  generalize hA : (if names.isEmpty = true then (([] : List Req), ni) else
      ((⟨.cmts, n, path ++ [nameTag], false⟩ : Req) :: (genNames names (path ++ [nameTag]) ni).1,
        (genNames names (path ++ [nameTag]) ni).2)) = A at ha
  have hb : Good (if (!wi || idents.isEmpty) = true then (([] : List Req), A.2) else
      ((⟨.cmts, n, path ++ [nameTag], false⟩ : Req) :: (genNames idents (path ++ [nameTag]) A.2).1,
        (genNames idents (path ++ [nameTag]) A.2).2)).1 ∧
      0 ≤ (if (!wi || idents.isEmpty) = true then (([] : List Req), A.2) else
      ((⟨.cmts, n, path ++ [nameTag], false⟩ : Req) :: (genNames idents (path ++ [nameTag]) A.2).1,
        (genNames idents (path ++ [nameTag]) A.2).2)).2 := by
    have := good_names hw nameTag en ho hln hrn hsn idents A.2 ha.2
    split
    · simp [ha.2]
    · simp only [good_cons, goodReq_false]; exact ⟨⟨tn, this.1⟩, this.2⟩
  have hc : Good (if ranges.isEmpty = true then (([] : List Req), ri) else
      ((⟨.cmts, n, path ++ [rangeTag], false⟩ : Req) ::
        (genRanges ranges (path ++ [rangeTag]) ri Tag.ReservedRange_Start Tag.ReservedRange_End).1,
        (genRanges ranges (path ++ [rangeTag]) ri Tag.ReservedRange_Start Tag.ReservedRange_End).2)).1 ∧
      0 ≤ (if ranges.isEmpty = true then (([] : List Req), ri) else
      ((⟨.cmts, n, path ++ [rangeTag], false⟩ : Req) ::
        (genRanges ranges (path ++ [rangeTag]) ri Tag.ReservedRange_Start Tag.ReservedRange_End).1,
        (genRanges ranges (path ++ [rangeTag]) ri Tag.ReservedRange_Start Tag.ReservedRange_End).2)).2 := by
    have := good_ranges hw rangeTag er ho hlr hrr hsr _ _ hst hen ranges ri hri
    split
    · simp [hri]
    · simp only [good_cons, goodReq_false]; exact ⟨⟨tr', this.1⟩, this.2⟩
  simp only [good_append]
  exact ⟨⟨⟨ha.1, hb.1⟩, hc.1⟩, hb.2, hc.2⟩

end PCV.Lemmas.SourceInfoPaths

namespace PCV.Lemmas.SourceInfoPaths
open PCV.SourceInfo
open PCV.Spec.SourceInfo hiding Path Bytes Loc

theorem W_msg_extRange {mp : Path} (hw : W mp = some 1) (i : Int) (hi : 0 ≤ i) :
    W (mp ++ [Tag.Message_ExtensionRange, i]) = some 8 :=
  W_rep hw 5 i hi ⟨1, 5, true, some 8⟩ rfl rfl rfl rfl

theorem good_extRangeOpts {xo : Bool} {co : Option COpts} {mp : Path} (hw : W mp = some 1)
    (hok : coptsOk false co = true) :
    ∀ (rs : List Rng) (idx : Int), 0 ≤ idx →
      Good (genExtRangeOpts xo co rs (mp ++ [Tag.Message_ExtensionRange]) idx)
  | [], _, _ => by simp [genExtRangeOpts]
  | _ :: rs, idx, hi => by
    simp only [genExtRangeOpts, good_append, app2]
    refine ⟨good_of_compact (ty := 19) ?_ rfl hok, good_extRangeOpts hw hok rs (idx + 1) (by omega)⟩
    exact W_sing (W_msg_extRange hw idx hi) 3 ⟨8, 3, false, some 19⟩ rfl rfl rfl rfl

theorem good_extRanges {xo : Bool} (n : Nd) (ranges : List Rng) {co : Option COpts} {mp : Path}
    (hw : W mp = some 1) (hok : coptsOk false co = true) (idx : Int) (hi : 0 ≤ idx) :
    Good (genExtRanges xo n ranges co idx (mp ++ [Tag.Message_ExtensionRange])).1 ∧
    0 ≤ (genExtRanges xo n ranges co idx (mp ++ [Tag.Message_ExtensionRange])).2 := by
  have hr := good_ranges hw 5 ⟨1, 5, true, some 8⟩ rfl rfl rfl rfl Tag.ExtensionRange_Start
    Tag.ExtensionRange_End (by decide) (by decide) ranges idx hi
  simp only [genExtRanges, good_cons, good_append, goodReq_false]
  exact ⟨⟨⟨typed_repfield hw 5 ⟨1, 5, true, some 8⟩ rfl rfl rfl, hr.1⟩, good_extRangeOpts hw hok ranges idx hi⟩, hr.2⟩

theorem good_enumValue {xo : Bool} (n name num : Nd) {co : Option COpts} {path : Path}
    (hw : W path = some 5) (hok : coptsOk false co = true) : Good (genEnumValue xo n name num co path) := by
  simp only [genEnumValue, good_append, good_cons, good_nil, and_true, goodReq_false]
  refine ⟨⟨typed_self hw, typed_app hw _ (by decide), typed_app hw _ (by decide)⟩, ?_⟩
  exact good_of_compact (ty := 16) (W_sing hw 3 ⟨5, 3, false, some 16⟩ rfl rfl rfl rfl) rfl hok

theorem good_enumDecls {xo : Bool} {path : Path} (hw : W path = some 4) :
    ∀ (ds : List Decl) (oi vi ni ri : Int), 0 ≤ vi → 0 ≤ ni → 0 ≤ ri → declsOk ds = true →
      Good (genEnumDecls xo ds path oi vi ni ri)
  | [], _, _, _, _, _, _, _, _ => by simp [genEnumDecls]
  | d :: ds, oi, vi, ni, ri, hv, hn, hr, hok => by
    simp only [declsOk, Bool.and_eq_true] at hok
    cases d <;> simp only [genEnumDecls, good_append] <;>
      (try exact good_enumDecls hw ds _ _ _ _ hv hn hr hok.2)
    case opt o =>
      refine ⟨good_of_option (ty := 15) (W_sing hw 3 ⟨4, 3, false, some 15⟩ rfl rfl rfl rfl) rfl ?_,
        good_enumDecls hw ds _ _ _ _ hv hn hr hok.2⟩
      simpa [declOk] using hok.1
    case enumVal n name num co =>
      refine ⟨good_enumValue n name num (W_rep hw 2 vi hv ⟨4, 2, true, some 5⟩ rfl rfl rfl rfl) ?_,
        good_enumDecls hw ds _ _ _ _ (by omega) hn hr hok.2⟩
      simpa [declOk] using hok.1
    case reserved n names idents ranges =>
      have h := good_reserved n names idents ranges hw Tag.Enum_ReservedName Tag.Enum_ReservedRange
        ⟨4, 5, true, none⟩ ⟨4, 4, true, some 10⟩ rfl rfl rfl rfl rfl rfl rfl (by decide) (by decide)
        false ni ri hn hr
      exact ⟨h.1, good_enumDecls hw ds _ _ _ _ hv h.2.1 h.2.2 hok.2⟩

theorem good_enum {xo : Bool} (n brace name : Nd) {decls : List Decl} {path : Path}
    (hw : W path = some 4) (hok : declsOk decls = true) : Good (genEnum xo n brace name decls path) := by
  simp only [genEnum, good_append, good_cons, good_nil, and_true, goodReq_false]
  exact ⟨⟨typed_self hw, typed_app hw _ (by decide)⟩,
    good_enumDecls hw decls 0 0 0 0 (by omega) (by omega) (by omega) hok⟩

theorem good_rpcDecls {xo : Bool} {path : Path} (hw : W path = some 18) :
    ∀ (ds : List Decl) (oi : Int), declsOk ds = true → Good (genRpcDecls xo ds oi path)
  | [], _, _ => by simp [genRpcDecls]
  | d :: ds, oi, hok => by
    simp only [declsOk, Bool.and_eq_true] at hok
    cases d <;> simp only [genRpcDecls, good_append] <;> (try exact good_rpcDecls hw ds _ hok.2)
    case opt o =>
      exact ⟨good_of_option hw rfl (by simpa [declOk] using hok.1), good_rpcDecls hw ds _ hok.2⟩

theorem good_method {xo : Bool} (n : Nd) (brace : Option Nd) (name : Nd) (inS : Option Nd) (inT : Nd)
    (outS : Option Nd) (outT : Nd) {decls : List Decl} {path : Path} (hw : W path = some 7)
    (hok : declsOk decls = true) : Good (genMethod xo n brace name inS inT outS outT decls path) := by
  have t : ∀ k : Int, pathTyped descSchema isOptionsType 7 [k] = true → Typed (path ++ [k]) :=
    fun k hk => typed_app hw [k] hk
  simp only [genMethod, good_append]
  refine ⟨?_, good_rpcDecls (W_sing hw 4 ⟨7, 4, false, some 18⟩ rfl rfl rfl rfl) decls 0 hok⟩
  cases brace <;> cases inS <;> cases outS <;>
    simp only [good_append, good_cons, good_nil, and_true, goodReq_false] <;>
    and_intros <;>
    first
      | exact typed_self hw
      | exact t _ (by decide)

theorem good_svcDecls {xo : Bool} {path : Path} (hw : W path = some 6) :
    ∀ (ds : List Decl) (oi ri : Int), 0 ≤ ri → declsOk ds = true → Good (genSvcDecls xo ds path oi ri)
  | [], _, _, _, _ => by simp [genSvcDecls]
  | d :: ds, oi, ri, hr, hok => by
    simp only [declsOk, Bool.and_eq_true] at hok
    cases d <;> simp only [genSvcDecls, good_append] <;> (try exact good_svcDecls hw ds _ _ hr hok.2)
    case opt o =>
      refine ⟨good_of_option (ty := 17) (W_sing hw 3 ⟨6, 3, false, some 17⟩ rfl rfl rfl rfl) rfl ?_,
        good_svcDecls hw ds _ _ hr hok.2⟩
      simpa [declOk] using hok.1
    case rpc n brace name inS inT outS outT decls =>
      refine ⟨good_method n brace name inS inT outS outT
        (W_rep hw 2 ri hr ⟨6, 2, true, some 7⟩ rfl rfl rfl rfl) ?_, good_svcDecls hw ds _ _ (by omega) hok.2⟩
      simpa [declOk] using hok.1

theorem good_service {xo : Bool} (n brace name : Nd) {decls : List Decl} {path : Path}
    (hw : W path = some 6) (hok : declsOk decls = true) : Good (genService xo n brace name decls path) := by
  simp only [genService, good_append, good_cons, good_nil, and_true, goodReq_false]
  exact ⟨⟨typed_self hw, typed_app hw _ (by decide)⟩, good_svcDecls hw decls 0 0 (by omega) hok⟩

theorem good_msgHead (fp : Option Path) (n brace name : Nd) {path : Path} (hw : W path = some 1)
    (hfp : ∀ p, fp = some p → W p = some 2) : Good (msgHead fp n brace name path) := by
  cases fp with
  | none =>
    simp only [msgHead, good_append, good_cons, good_nil, and_true, goodReq_false]
    exact ⟨typed_self hw, typed_app hw _ (by decide)⟩
  | some p =>
    simp only [msgHead, good_append, good_cons, good_nil, and_true, goodReq_false]
    exact ⟨⟨typed_self hw, typed_app hw _ (by decide)⟩, typed_app (hfp p rfl) _ (by decide)⟩

end PCV.Lemmas.SourceInfoPaths

namespace PCV.Lemmas.SourceInfoPaths
open PCV.SourceInfo
open PCV.Spec.SourceInfo hiding Path Bytes Loc

/-- all counters of the message loop are non-negative -/
def MCnn (c : MC) : Prop :=
  0 ≤ c.field ∧ 0 ≤ c.oneof ∧ 0 ≤ c.extend ∧ 0 ≤ c.nested ∧ 0 ≤ c.enum ∧ 0 ≤ c.extRange ∧
  0 ≤ c.resRange ∧ 0 ≤ c.resName

theorem W_msg_field {mp : Path} (hw : W mp = some 1) (i : Int) (hi : 0 ≤ i) :
    W (mp ++ [Tag.Message_Field, i]) = some 2 := W_rep hw 2 i hi ⟨1, 2, true, some 2⟩ rfl rfl rfl rfl
theorem W_msg_nested {mp : Path} (hw : W mp = some 1) (i : Int) (hi : 0 ≤ i) :
    W (mp ++ [Tag.Message_NestedType, i]) = some 1 := W_rep hw 3 i hi ⟨1, 3, true, some 1⟩ rfl rfl rfl rfl

mutual
theorem good_msgDecls (xo : Bool) : ∀ (ds : List Decl) (path : Path) (c : MC),
    W path = some 1 → MCnn c → declsOk ds = true → Good (genMsgDecls xo ds path c)
  | [], _, _, _, _, _ => by simp [genMsgDecls]
  | .opt o :: ds, path, c, hw, hc, hok => by
    simp only [declsOk, declOk, Bool.and_eq_true] at hok
    simp only [genMsgDecls, good_append]
    exact ⟨good_of_option (ty := 12) (W_sing hw 7 ⟨1, 7, false, some 12⟩ rfl rfl rfl rfl) rfl hok.1,
      good_msgDecls xo ds path _ hw hc hok.2⟩
  | .field f :: ds, path, c, hw, hc, hok => by
    simp only [declsOk, declOk, Bool.and_eq_true] at hok
    simp only [genMsgDecls, good_append]
    obtain ⟨h1, h2, h3, h4, h5, h6, h7, h8⟩ := hc
    exact ⟨good_field (W_msg_field hw _ h1) hok.1,
      good_msgDecls xo ds path _ hw ⟨by simp; omega, h2, h3, h4, h5, h6, h7, h8⟩ hok.2⟩
  | .mapField f :: ds, path, c, hw, hc, hok => by
    simp only [declsOk, declOk, Bool.and_eq_true] at hok
    simp only [genMsgDecls, good_append]
    obtain ⟨h1, h2, h3, h4, h5, h6, h7, h8⟩ := hc
    exact ⟨good_field (W_msg_field hw _ h1) hok.1,
      good_msgDecls xo ds path _ hw ⟨by simp; omega, h2, h3, by simp; omega, h5, h6, h7, h8⟩ hok.2⟩
  | .group f n brace name decls :: ds, path, c, hw, hc, hok => by
    simp only [declsOk, declOk, Bool.and_eq_true] at hok
    simp only [genMsgDecls, good_append]
    obtain ⟨h1, h2, h3, h4, h5, h6, h7, h8⟩ := hc
    refine ⟨⟨⟨good_field (W_msg_field hw _ h1) hok.1.1, ?_⟩, ?_⟩, ?_⟩
    · exact good_msgHead _ n brace name (W_msg_nested hw _ h4) (by intro p hp; cases hp; exact W_msg_field hw _ h1)
    · exact good_msgDecls xo decls _ {} (W_msg_nested hw _ h4) (by simp [MCnn]) hok.1.2
    · exact good_msgDecls xo ds path _ hw ⟨by simp; omega, h2, h3, by simp; omega, h5, h6, h7, h8⟩ hok.2
  | .msg n brace name decls :: ds, path, c, hw, hc, hok => by
    simp only [declsOk, declOk, Bool.and_eq_true] at hok
    simp only [genMsgDecls, good_append]
    obtain ⟨h1, h2, h3, h4, h5, h6, h7, h8⟩ := hc
    refine ⟨⟨?_, ?_⟩, ?_⟩
    · exact good_msgHead none n brace name (W_msg_nested hw _ h4) (by intro p hp; cases hp)
    · exact good_msgDecls xo decls _ {} (W_msg_nested hw _ h4) (by simp [MCnn]) hok.1
    · exact good_msgDecls xo ds path _ hw ⟨h1, h2, h3, by simp; omega, h5, h6, h7, h8⟩ hok.2
  | .oneof n brace name decls :: ds, path, c, hw, hc, hok => by
    simp only [declsOk, declOk, Bool.and_eq_true] at hok
    obtain ⟨h1, h2, h3, h4, h5, h6, h7, h8⟩ := hc
    have hwo : W (path ++ [Tag.Message_OneofDecl, c.oneof]) = some 3 :=
      W_rep hw 8 _ h2 ⟨1, 8, true, some 3⟩ rfl rfl rfl rfl
    have h := good_oneofDecls xo decls path _ 0 c.field c.nested hw hwo h1 h4 hok.1
    simp only [genMsgDecls, good_append, good_cons, good_nil, and_true, goodReq_false]
    exact ⟨⟨⟨typed_self hwo, typed_app hwo _ (by decide)⟩, h.1⟩,
      good_msgDecls xo ds path _ hw ⟨h.2.1, by simp; omega, h3, h.2.2, h5, h6, h7, h8⟩ hok.2⟩
  | .extend n brace decls :: ds, path, c, hw, hc, hok => by
    simp only [declsOk, declOk, Bool.and_eq_true] at hok
    obtain ⟨h1, h2, h3, h4, h5, h6, h7, h8⟩ := hc
    have h := good_extendDecls xo decls path 1 Tag.Message_Extension Tag.Message_NestedType
      ⟨1, 6, true, some 2⟩ ⟨1, 3, true, some 1⟩ hw rfl rfl rfl rfl rfl rfl rfl c.extend c.nested h3 h4 hok.1
    simp only [genMsgDecls, good_append, good_cons, goodReq_false]
    exact ⟨⟨typed_repfield hw 6 ⟨1, 6, true, some 2⟩ rfl rfl rfl, h.1⟩,
      good_msgDecls xo ds path _ hw ⟨h1, h2, h.2.1, h.2.2, h5, h6, h7, h8⟩ hok.2⟩
  | .enum n brace name decls :: ds, path, c, hw, hc, hok => by
    simp only [declsOk, declOk, Bool.and_eq_true] at hok
    obtain ⟨h1, h2, h3, h4, h5, h6, h7, h8⟩ := hc
    simp only [genMsgDecls, good_append]
    exact ⟨good_enum n brace name (W_rep hw 4 _ h5 ⟨1, 4, true, some 4⟩ rfl rfl rfl rfl) hok.1,
      good_msgDecls xo ds path _ hw ⟨h1, h2, h3, h4, by simp; omega, h6, h7, h8⟩ hok.2⟩
  | .extRange n ranges co :: ds, path, c, hw, hc, hok => by
    simp only [declsOk, declOk, Bool.and_eq_true] at hok
    obtain ⟨h1, h2, h3, h4, h5, h6, h7, h8⟩ := hc
    have h := good_extRanges (xo := xo) n ranges hw hok.1 c.extRange h6
    simp only [genMsgDecls, good_append]
    exact ⟨h.1, good_msgDecls xo ds path _ hw ⟨h1, h2, h3, h4, h5, h.2, h7, h8⟩ hok.2⟩
  | .reserved n names idents ranges :: ds, path, c, hw, hc, hok => by
    simp only [declsOk, declOk, Bool.and_eq_true] at hok
    obtain ⟨h1, h2, h3, h4, h5, h6, h7, h8⟩ := hc
    have h := good_reserved n names idents ranges hw Tag.Message_ReservedName Tag.Message_ReservedRange
      ⟨1, 10, true, none⟩ ⟨1, 9, true, some 9⟩ rfl rfl rfl rfl rfl rfl rfl (by decide) (by decide)
      true c.resName c.resRange h8 h7
    simp only [genMsgDecls, good_append]
    exact ⟨h.1, good_msgDecls xo ds path _ hw ⟨h1, h2, h3, h4, h5, h6, h.2.2, h.2.1⟩ hok.2⟩
  | .imp _ _ _ :: ds, path, c, hw, hc, hok => by
    simp only [declsOk, Bool.and_eq_true] at hok
    simp only [genMsgDecls]; exact good_msgDecls xo ds path c hw hc hok.2
  | .pkg _ :: ds, path, c, hw, hc, hok => by
    simp only [declsOk, Bool.and_eq_true] at hok
    simp only [genMsgDecls]; exact good_msgDecls xo ds path c hw hc hok.2
  | .enumVal _ _ _ _ :: ds, path, c, hw, hc, hok => by
    simp only [declsOk, Bool.and_eq_true] at hok
    simp only [genMsgDecls]; exact good_msgDecls xo ds path c hw hc hok.2
  | .svc _ _ _ _ :: ds, path, c, hw, hc, hok => by
    simp only [declsOk, Bool.and_eq_true] at hok
    simp only [genMsgDecls]; exact good_msgDecls xo ds path c hw hc hok.2
  | .rpc _ _ _ _ _ _ _ _ :: ds, path, c, hw, hc, hok => by
    simp only [declsOk, Bool.and_eq_true] at hok
    simp only [genMsgDecls]; exact good_msgDecls xo ds path c hw hc hok.2
  | .other :: ds, path, c, hw, hc, hok => by
    simp only [declsOk, Bool.and_eq_true] at hok
    simp only [genMsgDecls]; exact good_msgDecls xo ds path c hw hc hok.2
theorem good_oneofDecls (xo : Bool) : ∀ (ds : List Decl) (mp op : Path) (oi fi mi : Int),
    W mp = some 1 → W op = some 3 → 0 ≤ fi → 0 ≤ mi → declsOk ds = true →
    Good (genOneofDecls xo ds (mp ++ [Tag.Message_Field]) (mp ++ [Tag.Message_NestedType]) op oi fi mi).1 ∧
    0 ≤ (genOneofDecls xo ds (mp ++ [Tag.Message_Field]) (mp ++ [Tag.Message_NestedType]) op oi fi mi).2.1 ∧
    0 ≤ (genOneofDecls xo ds (mp ++ [Tag.Message_Field]) (mp ++ [Tag.Message_NestedType]) op oi fi mi).2.2
  | [], _, _, _, _, _, _, _, hf, hm, _ => by simp [genOneofDecls, hf, hm]
  | .opt o :: ds, mp, op, oi, fi, mi, hw, hwo, hf, hm, hok => by
    simp only [declsOk, declOk, Bool.and_eq_true] at hok
    have ih := good_oneofDecls xo ds mp op
      (genOption xo o false oi (op ++ [Tag.Oneof_Options])).2 fi mi hw hwo hf hm hok.2
    simp only [genOneofDecls, good_append]
    exact ⟨⟨good_of_option (ty := 14) (W_sing hwo 2 ⟨3, 2, false, some 14⟩ rfl rfl rfl rfl) rfl hok.1, ih.1⟩, ih.2⟩
  | .field f :: ds, mp, op, oi, fi, mi, hw, hwo, hf, hm, hok => by
    simp only [declsOk, declOk, Bool.and_eq_true] at hok
    have ih := good_oneofDecls xo ds mp op oi (fi + 1) mi hw hwo (by omega) hm hok.2
    simp only [genOneofDecls, good_append, app2]
    exact ⟨⟨good_field (W_msg_field hw _ hf) hok.1, ih.1⟩, ih.2⟩
  | .group f n brace name decls :: ds, mp, op, oi, fi, mi, hw, hwo, hf, hm, hok => by
    simp only [declsOk, declOk, Bool.and_eq_true] at hok
    have ih := good_oneofDecls xo ds mp op oi (fi + 1) (mi + 1) hw hwo (by omega) (by omega) hok.2
    simp only [genOneofDecls, good_append, app2]
    refine ⟨⟨⟨⟨good_field (W_msg_field hw _ hf) hok.1.1, ?_⟩, ?_⟩, ih.1⟩, ih.2⟩
    · exact good_msgHead _ n brace name (W_msg_nested hw _ hm) (by intro p hp; cases hp; exact W_msg_field hw _ hf)
    · exact good_msgDecls xo decls _ {} (W_msg_nested hw _ hm) (by simp [MCnn]) hok.1.2
  | .imp _ _ _ :: ds, mp, op, oi, fi, mi, hw, hwo, hf, hm, hok => by
    simp only [declsOk, Bool.and_eq_true] at hok
    simpa only [genOneofDecls] using good_oneofDecls xo ds mp op oi fi mi hw hwo hf hm hok.2
  | .pkg _ :: ds, mp, op, oi, fi, mi, hw, hwo, hf, hm, hok => by
    simp only [declsOk, Bool.and_eq_true] at hok
    simpa only [genOneofDecls] using good_oneofDecls xo ds mp op oi fi mi hw hwo hf hm hok.2
  | .mapField _ :: ds, mp, op, oi, fi, mi, hw, hwo, hf, hm, hok => by
    simp only [declsOk, Bool.and_eq_true] at hok
    simpa only [genOneofDecls] using good_oneofDecls xo ds mp op oi fi mi hw hwo hf hm hok.2
  | .msg _ _ _ _ :: ds, mp, op, oi, fi, mi, hw, hwo, hf, hm, hok => by
    simp only [declsOk, Bool.and_eq_true] at hok
    simpa only [genOneofDecls] using good_oneofDecls xo ds mp op oi fi mi hw hwo hf hm hok.2
  | .oneof _ _ _ _ :: ds, mp, op, oi, fi, mi, hw, hwo, hf, hm, hok => by
    simp only [declsOk, Bool.and_eq_true] at hok
    simpa only [genOneofDecls] using good_oneofDecls xo ds mp op oi fi mi hw hwo hf hm hok.2
  | .extend _ _ _ :: ds, mp, op, oi, fi, mi, hw, hwo, hf, hm, hok => by
    simp only [declsOk, Bool.and_eq_true] at hok
    simpa only [genOneofDecls] using good_oneofDecls xo ds mp op oi fi mi hw hwo hf hm hok.2
  | .enum _ _ _ _ :: ds, mp, op, oi, fi, mi, hw, hwo, hf, hm, hok => by
    simp only [declsOk, Bool.and_eq_true] at hok
    simpa only [genOneofDecls] using good_oneofDecls xo ds mp op oi fi mi hw hwo hf hm hok.2
  | .enumVal _ _ _ _ :: ds, mp, op, oi, fi, mi, hw, hwo, hf, hm, hok => by
    simp only [declsOk, Bool.and_eq_true] at hok
    simpa only [genOneofDecls] using good_oneofDecls xo ds mp op oi fi mi hw hwo hf hm hok.2
  | .extRange _ _ _ :: ds, mp, op, oi, fi, mi, hw, hwo, hf, hm, hok => by
    simp only [declsOk, Bool.and_eq_true] at hok
    simpa only [genOneofDecls] using good_oneofDecls xo ds mp op oi fi mi hw hwo hf hm hok.2
  | .reserved _ _ _ _ :: ds, mp, op, oi, fi, mi, hw, hwo, hf, hm, hok => by
    simp only [declsOk, Bool.and_eq_true] at hok
    simpa only [genOneofDecls] using good_oneofDecls xo ds mp op oi fi mi hw hwo hf hm hok.2
  | .svc _ _ _ _ :: ds, mp, op, oi, fi, mi, hw, hwo, hf, hm, hok => by
    simp only [declsOk, Bool.and_eq_true] at hok
    simpa only [genOneofDecls] using good_oneofDecls xo ds mp op oi fi mi hw hwo hf hm hok.2
  | .rpc _ _ _ _ _ _ _ _ :: ds, mp, op, oi, fi, mi, hw, hwo, hf, hm, hok => by
    simp only [declsOk, Bool.and_eq_true] at hok
    simpa only [genOneofDecls] using good_oneofDecls xo ds mp op oi fi mi hw hwo hf hm hok.2
  | .other :: ds, mp, op, oi, fi, mi, hw, hwo, hf, hm, hok => by
    simp only [declsOk, Bool.and_eq_true] at hok
    simpa only [genOneofDecls] using good_oneofDecls xo ds mp op oi fi mi hw hwo hf hm hok.2
theorem good_extendDecls (xo : Bool) : ∀ (ds : List Decl) (bp : Path) (tb : Nat) (xt mt : Int) (ex em : SEntry),
    W bp = some tb → isOptionsType tb = false →
    lookupField descSchema tb xt = some ex → ex.rep = true → ex.sub = some 2 →
    lookupField descSchema tb mt = some em → em.rep = true → em.sub = some 1 →
    ∀ (ei mi : Int), 0 ≤ ei → 0 ≤ mi → declsOk ds = true →
    Good (genExtendDecls xo ds (bp ++ [xt]) (bp ++ [mt]) ei mi).1 ∧
    0 ≤ (genExtendDecls xo ds (bp ++ [xt]) (bp ++ [mt]) ei mi).2.1 ∧
    0 ≤ (genExtendDecls xo ds (bp ++ [xt]) (bp ++ [mt]) ei mi).2.2
  | [], _, _, _, _, _, _, _, _, _, _, _, _, _, _, _, _, he, hm, _ => by simp [genExtendDecls, he, hm]
  | .field f :: ds, bp, tb, xt, mt, ex, em, hw, ho, h1, h2, h3, h4, h5, h6, ei, mi, he, hm, hok => by
    simp only [declsOk, declOk, Bool.and_eq_true] at hok
    have ih := good_extendDecls xo ds bp tb xt mt ex em hw ho h1 h2 h3 h4 h5 h6 (ei + 1) mi (by omega) hm hok.2
    simp only [genExtendDecls, good_append, app2]
    exact ⟨⟨good_field (W_rep hw xt ei he ex ho h1 h2 h3) hok.1, ih.1⟩, ih.2⟩
  | .group f n brace name decls :: ds, bp, tb, xt, mt, ex, em, hw, ho, h1, h2, h3, h4, h5, h6, ei, mi, he, hm, hok => by
    simp only [declsOk, declOk, Bool.and_eq_true] at hok
    have ih := good_extendDecls xo ds bp tb xt mt ex em hw ho h1 h2 h3 h4 h5 h6 (ei + 1) (mi + 1)
      (by omega) (by omega) hok.2
    simp only [genExtendDecls, good_append, app2]
    have hwf := W_rep hw xt ei he ex ho h1 h2 h3
    have hwm := W_rep hw mt mi hm em ho h4 h5 h6
    refine ⟨⟨⟨⟨good_field hwf hok.1.1, ?_⟩, ?_⟩, ih.1⟩, ih.2⟩
    · exact good_msgHead _ n brace name hwm (by intro p hp; cases hp; exact hwf)
    · exact good_msgDecls xo decls _ {} hwm (by simp [MCnn]) hok.1.2
  | .opt _ :: ds, bp, tb, xt, mt, ex, em, hw, ho, h1, h2, h3, h4, h5, h6, ei, mi, he, hm, hok => by
    simp only [declsOk, Bool.and_eq_true] at hok
    simpa only [genExtendDecls] using good_extendDecls xo ds bp tb xt mt ex em hw ho h1 h2 h3 h4 h5 h6 ei mi he hm hok.2
  | .imp _ _ _ :: ds, bp, tb, xt, mt, ex, em, hw, ho, h1, h2, h3, h4, h5, h6, ei, mi, he, hm, hok => by
    simp only [declsOk, Bool.and_eq_true] at hok
    simpa only [genExtendDecls] using good_extendDecls xo ds bp tb xt mt ex em hw ho h1 h2 h3 h4 h5 h6 ei mi he hm hok.2
  | .pkg _ :: ds, bp, tb, xt, mt, ex, em, hw, ho, h1, h2, h3, h4, h5, h6, ei, mi, he, hm, hok => by
    simp only [declsOk, Bool.and_eq_true] at hok
    simpa only [genExtendDecls] using good_extendDecls xo ds bp tb xt mt ex em hw ho h1 h2 h3 h4 h5 h6 ei mi he hm hok.2
  | .mapField _ :: ds, bp, tb, xt, mt, ex, em, hw, ho, h1, h2, h3, h4, h5, h6, ei, mi, he, hm, hok => by
    simp only [declsOk, Bool.and_eq_true] at hok
    simpa only [genExtendDecls] using good_extendDecls xo ds bp tb xt mt ex em hw ho h1 h2 h3 h4 h5 h6 ei mi he hm hok.2
  | .msg _ _ _ _ :: ds, bp, tb, xt, mt, ex, em, hw, ho, h1, h2, h3, h4, h5, h6, ei, mi, he, hm, hok => by
    simp only [declsOk, Bool.and_eq_true] at hok
    simpa only [genExtendDecls] using good_extendDecls xo ds bp tb xt mt ex em hw ho h1 h2 h3 h4 h5 h6 ei mi he hm hok.2
  | .oneof _ _ _ _ :: ds, bp, tb, xt, mt, ex, em, hw, ho, h1, h2, h3, h4, h5, h6, ei, mi, he, hm, hok => by
    simp only [declsOk, Bool.and_eq_true] at hok
    simpa only [genExtendDecls] using good_extendDecls xo ds bp tb xt mt ex em hw ho h1 h2 h3 h4 h5 h6 ei mi he hm hok.2
  | .extend _ _ _ :: ds, bp, tb, xt, mt, ex, em, hw, ho, h1, h2, h3, h4, h5, h6, ei, mi, he, hm, hok => by
    simp only [declsOk, Bool.and_eq_true] at hok
    simpa only [genExtendDecls] using good_extendDecls xo ds bp tb xt mt ex em hw ho h1 h2 h3 h4 h5 h6 ei mi he hm hok.2
  | .enum _ _ _ _ :: ds, bp, tb, xt, mt, ex, em, hw, ho, h1, h2, h3, h4, h5, h6, ei, mi, he, hm, hok => by
    simp only [declsOk, Bool.and_eq_true] at hok
    simpa only [genExtendDecls] using good_extendDecls xo ds bp tb xt mt ex em hw ho h1 h2 h3 h4 h5 h6 ei mi he hm hok.2
  | .enumVal _ _ _ _ :: ds, bp, tb, xt, mt, ex, em, hw, ho, h1, h2, h3, h4, h5, h6, ei, mi, he, hm, hok => by
    simp only [declsOk, Bool.and_eq_true] at hok
    simpa only [genExtendDecls] using good_extendDecls xo ds bp tb xt mt ex em hw ho h1 h2 h3 h4 h5 h6 ei mi he hm hok.2
  | .extRange _ _ _ :: ds, bp, tb, xt, mt, ex, em, hw, ho, h1, h2, h3, h4, h5, h6, ei, mi, he, hm, hok => by
    simp only [declsOk, Bool.and_eq_true] at hok
    simpa only [genExtendDecls] using good_extendDecls xo ds bp tb xt mt ex em hw ho h1 h2 h3 h4 h5 h6 ei mi he hm hok.2
  | .reserved _ _ _ _ :: ds, bp, tb, xt, mt, ex, em, hw, ho, h1, h2, h3, h4, h5, h6, ei, mi, he, hm, hok => by
    simp only [declsOk, Bool.and_eq_true] at hok
    simpa only [genExtendDecls] using good_extendDecls xo ds bp tb xt mt ex em hw ho h1 h2 h3 h4 h5 h6 ei mi he hm hok.2
  | .svc _ _ _ _ :: ds, bp, tb, xt, mt, ex, em, hw, ho, h1, h2, h3, h4, h5, h6, ei, mi, he, hm, hok => by
    simp only [declsOk, Bool.and_eq_true] at hok
    simpa only [genExtendDecls] using good_extendDecls xo ds bp tb xt mt ex em hw ho h1 h2 h3 h4 h5 h6 ei mi he hm hok.2
  | .rpc _ _ _ _ _ _ _ _ :: ds, bp, tb, xt, mt, ex, em, hw, ho, h1, h2, h3, h4, h5, h6, ei, mi, he, hm, hok => by
    simp only [declsOk, Bool.and_eq_true] at hok
    simpa only [genExtendDecls] using good_extendDecls xo ds bp tb xt mt ex em hw ho h1 h2 h3 h4 h5 h6 ei mi he hm hok.2
  | .other :: ds, bp, tb, xt, mt, ex, em, hw, ho, h1, h2, h3, h4, h5, h6, ei, mi, he, hm, hok => by
    simp only [declsOk, Bool.and_eq_true] at hok
    simpa only [genExtendDecls] using good_extendDecls xo ds bp tb xt mt ex em hw ho h1 h2 h3 h4 h5 h6 ei mi he hm hok.2
end

end PCV.Lemmas.SourceInfoPaths

namespace PCV.Lemmas.SourceInfoPaths
open PCV.SourceInfo
open PCV.Spec.SourceInfo hiding Path Bytes Loc

theorem W_nil : W [] = some 0 := rfl

theorem good_message (xo : Bool) (fp : Option Path) (n brace name : Nd) {decls : List Decl} {path : Path}
    (hw : W path = some 1) (hfp : ∀ p, fp = some p → W p = some 2) (hok : declsOk decls = true) :
    Good (genMessage xo fp n brace name decls path) := by
  simp only [genMessage, good_append]
  exact ⟨good_msgHead fp n brace name hw hfp, good_msgDecls xo decls path {} hw (by simp [MCnn]) hok⟩

def FCnn (c : FC) : Prop :=
  0 ≤ c.dep ∧ 0 ≤ c.pubDep ∧ 0 ≤ c.weakDep ∧ 0 ≤ c.msg ∧ 0 ≤ c.enum ∧ 0 ≤ c.extend ∧ 0 ≤ c.svc

theorem fileW (num i : Int) (hi : 0 ≤ i) (e : SEntry) {ty2 : Nat}
    (hl : lookupField descSchema 0 num = some e) (hr : e.rep = true) (hs : e.sub = some ty2) :
    W [num, i] = some ty2 := by
  simpa using W_rep W_nil num i hi e rfl hl hr hs

theorem fileTypedScalar (num i : Int) (hi : 0 ≤ i) (e : SEntry)
    (hl : lookupField descSchema 0 num = some e) (hr : e.rep = true) (hs : e.sub = none) :
    Typed [num, i] := by
  simpa using typed_rep_scalar W_nil num i hi e rfl hl hr hs

theorem good_fileDecls (xo : Bool) : ∀ (ds : List Decl) (c : FC), FCnn c → declsOk ds = true →
    Good (genFileDecls xo ds c)
  | [], _, _, _ => by simp [genFileDecls]
  | d :: ds, c, hc, hok => by
    simp only [declsOk, Bool.and_eq_true] at hok
    obtain ⟨h1, h2, h3, h4, h5, h6, h7⟩ := hc
    cases d <;> simp only [genFileDecls, good_append] <;>
      (try exact good_fileDecls xo ds c ⟨h1, h2, h3, h4, h5, h6, h7⟩ hok.2)
    case imp n pub weak =>
      have td : Typed [Tag.File_Dependency, c.dep] := fileTypedScalar 3 _ h1 ⟨0, 3, true, none⟩ rfl rfl rfl
      cases pub <;> cases weak <;> simp only [good_cons, goodReq_false]
      · exact ⟨td, good_fileDecls xo ds _ ⟨by simp; omega, h2, h3, h4, h5, h6, h7⟩ hok.2⟩
      · exact ⟨td, fileTypedScalar 11 _ h3 ⟨0, 11, true, none⟩ rfl rfl rfl,
          good_fileDecls xo ds _ ⟨by simp; omega, h2, by simp; omega, h4, h5, h6, h7⟩ hok.2⟩
      · exact ⟨td, fileTypedScalar 10 _ h2 ⟨0, 10, true, none⟩ rfl rfl rfl,
          good_fileDecls xo ds _ ⟨by simp; omega, by simp; omega, h3, h4, h5, h6, h7⟩ hok.2⟩
      · exact ⟨td, fileTypedScalar 10 _ h2 ⟨0, 10, true, none⟩ rfl rfl rfl,
          good_fileDecls xo ds _ ⟨by simp; omega, by simp; omega, h3, h4, h5, h6, h7⟩ hok.2⟩
    case pkg n =>
      simp only [good_cons, goodReq_false]
      exact ⟨by decide, good_fileDecls xo ds c ⟨h1, h2, h3, h4, h5, h6, h7⟩ hok.2⟩
    case opt o =>
      refine ⟨good_of_option (path := [Tag.File_Options]) (ty := 11) rfl rfl ?_,
        good_fileDecls xo ds _ ⟨h1, h2, h3, h4, h5, h6, h7⟩ hok.2⟩
      simpa [declOk] using hok.1
    case msg n brace name decls =>
      refine ⟨good_message xo none n brace name (fileW 4 _ h4 ⟨0, 4, true, some 1⟩ rfl rfl rfl)
        (by intro p hp; cases hp) ?_, good_fileDecls xo ds _ ⟨h1, h2, h3, by simp; omega, h5, h6, h7⟩ hok.2⟩
      simpa [declOk] using hok.1
    case enum n brace name decls =>
      refine ⟨good_enum n brace name (fileW 5 _ h5 ⟨0, 5, true, some 4⟩ rfl rfl rfl) ?_,
        good_fileDecls xo ds _ ⟨h1, h2, h3, h4, by simp; omega, h6, h7⟩ hok.2⟩
      simpa [declOk] using hok.1
    case extend n brace decls =>
      have h := good_extendDecls xo decls [] 0 Tag.File_Extension Tag.File_MessageType
        ⟨0, 7, true, some 2⟩ ⟨0, 4, true, some 1⟩ W_nil rfl rfl rfl rfl rfl rfl rfl c.extend c.msg h6 h4
        (by simpa [declOk] using hok.1)
      simp only [List.nil_append] at h
      simp only [good_cons, good_append, goodReq_false]
      exact ⟨⟨by decide, h.1⟩, good_fileDecls xo ds _ ⟨h1, h2, h3, h.2.2, h5, h.2.1, h7⟩ hok.2⟩
    case svc n brace name decls =>
      refine ⟨good_service n brace name (fileW 6 _ h7 ⟨0, 6, true, some 6⟩ rfl rfl rfl) ?_,
        good_fileDecls xo ds _ ⟨h1, h2, h3, h4, h5, h6, by simp; omega⟩ hok.2⟩
      simpa [declOk] using hok.1

/-- **Every path of the walk is well-typed against descriptor.proto, and the locations added by
    WithExtraOptionLocations lie strictly below an options message** — for every abstract AST whose
    option index has the shape `astOk`. -/
theorem good_file (xo : Bool) (f : File) (hok : astOk f = true) : Good (genFile xo f) := by
  simp only [genFile, good_cons, good_append, goodReq_false]
  refine ⟨⟨⟨by decide, ?_⟩, ?_⟩, good_fileDecls xo f.decls {} (by simp [FCnn]) hok⟩
  · cases f.syn <;> simp [goodReq_false]; decide
  · cases f.edition <;> simp [goodReq_false]; decide

end PCV.Lemmas.SourceInfoPaths

namespace PCV.Lemmas.SourceInfoPaths
open PCV.SourceInfo
open PCV.Spec.SourceInfo hiding Path Bytes Loc

/-- a path that strictly extends a path leading to an options message is `insideOptions` -/
theorem insideOptions_of_walk (ty0 : Nat) (path : Path) :
    ∀ (ty : Nat) (q : Path), walk descSchema isOptionsType ty0 path = some ty → isOptionsType ty = true →
      q ≠ [] → insideOptions descSchema ty0 (path ++ q) = true := by
  fun_induction walk descSchema isOptionsType ty0 path with
  | case1 ty =>
    intro ty' q hw ho hq
    simp at hw; subst hw
    cases q with
    | nil => exact absurd rfl hq
    | cons a t => simp [insideOptions, ho]
  | case2 ty num rest ho => intro ty' q hw; simp at hw
  | case3 ty num rest ho hl => intro ty' q hw; simp at hw
  | case4 ty num rest ho e hl hs => intro ty' q hw; simp at hw
  | case5 ty num ho e hl ty1 hs hr => intro ty' q hw; simp at hw
  | case6 ty num ho e hl ty1 hs hr i rest' hi ih =>
    intro ty' q hw hot hq
    simp only [List.cons_append, insideOptions, ho, hl, hr, hs]
    simpa using ih ty' q hw hot hq
  | case7 ty num ho e hl ty1 hs hr i rest' hi => intro ty' q hw; simp at hw
  | case8 ty num rest ho e hl ty1 hs hr ih =>
    intro ty' q hw hot hq
    simp only [List.cons_append, insideOptions, ho, hl, hr, hs]
    simpa using ih ty' q hw hot hq

theorem ExtendsOptions.inside {p : Path} (h : ExtendsOptions p) : insideOptions descSchema 0 p = true := by
  obtain ⟨pre, q, ty, hq, e, hw, ho⟩ := h
  rw [e]; exact insideOptions_of_walk 0 pre ty q hw ho hq

/-- the value-free typing is implied by `pathValid` on any descriptor value -/
theorem pathValid_typed (sch : List SEntry) (opq : Nat → Bool) (ty : Nat) (t : DTree) (p : Path) :
    pathValid sch opq ty t p = true → pathTyped sch opq ty p = true := by
  fun_induction pathValid sch opq ty t p <;> simp_all [pathTyped]

end PCV.Lemmas.SourceInfoPaths
