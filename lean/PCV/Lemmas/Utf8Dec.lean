/-
Facts about `Utf8.decodeRune` (Go's `utf8.DecodeRune`) used by the lexer proofs:
width bounds and the shape of the consumed bytes (a lead byte followed by continuation bytes).
-/
import PCV.Model.Utf8
namespace PCV.Utf8

/-- continuation byte 10xxxxxx -/
def isCont (b : UInt8) : Bool := 0x80 ≤ b.toNat && b.toNat ≤ 0xBF

theorem decodeRune_width_pos (bs : List UInt8) (h : bs ≠ []) : 1 ≤ (decodeRune bs).2 := by
  fun_cases decodeRune bs <;> simp_all

theorem decodeRune_width_le (bs : List UInt8) : (decodeRune bs).2 ≤ bs.length := by
  fun_cases decodeRune bs <;> simp_all <;> omega

theorem decodeRune_width_le4 (bs : List UInt8) : (decodeRune bs).2 ≤ 4 := by
  fun_cases decodeRune bs <;> simp_all

theorem decodeRune_w1' (l : List UInt8) :
    (decodeRune l).2 = 1 → ∀ b, l.head? = some b →
    (b.toNat < 0x80 ∧ (decodeRune l).1 = b.toNat) ∨
    (0x80 ≤ b.toNat ∧ (decodeRune l).1 = runeError) := by
  fun_cases decodeRune l <;> simp_all [runeError] <;> omega

/-- width 1: either an ASCII byte decoded as itself or an invalid byte decoded as U+FFFD -/
theorem decodeRune_w1 (b : UInt8) (bs : List UInt8) (h : (decodeRune (b :: bs)).2 = 1) :
    (b.toNat < 0x80 ∧ (decodeRune (b :: bs)).1 = b.toNat) ∨
    (0x80 ≤ b.toNat ∧ (decodeRune (b :: bs)).1 = runeError) :=
  decodeRune_w1' _ h b rfl

theorem decodeRune_multi' (l : List UInt8) :
    2 ≤ (decodeRune l).2 → ∀ b, l.head? = some b →
    0xC2 ≤ b.toNat ∧ 0x80 ≤ (decodeRune l).1 ∧
    ∀ x ∈ l.tail.take ((decodeRune l).2 - 1), isCont x = true := by
  fun_cases decodeRune l <;> simp_all +zetaDelta [isCont, runeError] <;> first | omega | skip
  all_goals (rename_i h; split at h <;> split at h <;> omega)

/-- width ≥ 2: lead byte ≥ 0xC2, the other consumed bytes are continuation bytes, rune ≥ 0x80 -/
theorem decodeRune_multi (b : UInt8) (bs : List UInt8) (h : 2 ≤ (decodeRune (b :: bs)).2) :
    0xC2 ≤ b.toNat ∧ 0x80 ≤ (decodeRune (b :: bs)).1 ∧
    ∀ x ∈ bs.take ((decodeRune (b :: bs)).2 - 1), isCont x = true :=
  decodeRune_multi' _ h b rfl

theorem encodeRune_len (r : Nat) :
    (r < 0x80 → (encodeRune r).length = 1) ∧
    (0x80 ≤ r → r < 0x800 → (encodeRune r).length = 2) ∧
    (0x800 ≤ r → r < 0x10000 → ¬ (0xD800 ≤ r ∧ r ≤ 0xDFFF) → (encodeRune r).length = 3) ∧
    (0x10000 ≤ r → r ≤ 0x10FFFF → (encodeRune r).length = 4) := by
  refine ⟨?_, ?_, ?_, ?_⟩
  · intro h; simp [encodeRune, h]
  · intro h1 h2
    have a : ¬ r < 0x80 := by omega
    simp [encodeRune, a, h2]
  · intro h1 h2 h3
    have a : ¬ r < 0x80 := by omega
    have b : ¬ r < 0x800 := by omega
    have c : ¬ ((0xD800 ≤ r ∧ r ≤ 0xDFFF) ∨ r > 0x10FFFF) := by omega
    simp only [encodeRune, a, b, c, h2, if_false, if_true, List.length_cons, List.length_nil]
  · intro h1 h2
    have a : ¬ r < 0x80 := by omega
    have b : ¬ r < 0x800 := by omega
    have c : ¬ ((0xD800 ≤ r ∧ r ≤ 0xDFFF) ∨ r > 0x10FFFF) := by omega
    have d : ¬ r < 0x10000 := by omega
    simp only [encodeRune, a, b, c, d, if_false, List.length_cons, List.length_nil]

/-- the rune decoded from a multi-byte sequence lies in the range of that width -/
theorem decodeRune_range (l : List UInt8) :
    ((decodeRune l).2 = 2 → 0x80 ≤ (decodeRune l).1 ∧ (decodeRune l).1 < 0x800) ∧
    ((decodeRune l).2 = 3 → 0x800 ≤ (decodeRune l).1 ∧ (decodeRune l).1 < 0x10000 ∧
        ¬ (0xD800 ≤ (decodeRune l).1 ∧ (decodeRune l).1 ≤ 0xDFFF)) ∧
    ((decodeRune l).2 = 4 → 0x10000 ≤ (decodeRune l).1 ∧ (decodeRune l).1 ≤ 0x10FFFF) := by
  fun_cases decodeRune l <;> simp_all +zetaDelta [runeError] <;> first | omega | skip
  all_goals (rename_i h; split at h <;> split at h <;> omega)

end PCV.Utf8
