/-
Lemmas about the exact-rounding functions of `PCV.Model.Decimal`
(`rdiv`, `rdivPow`, `le2`, `flog2`, `rne`): invariance under common factors,
moving powers of two between numerator / denominator / exponent, scaling,
fixed points, and the shape of the result.  Core Lean only.
-/
import PCV.Model.Decimal
namespace PCV.Decimal

theorem two_pow_pos' (n : Nat) : 0 < 2 ^ n := Nat.two_pow_pos n

/-! ### `rdiv` -/

theorem rdiv_mul_right (N D c : Nat) (hc : 0 < c) : rdiv (N * c) (D * c) = rdiv N D := by
  unfold rdiv
  rw [Nat.mul_div_mul_right _ _ hc, Nat.mul_mod_mul_right]
  have h1 : (2 * (N % D * c) < D * c) ↔ (2 * (N % D) < D) := by
    rw [← Nat.mul_assoc]; exact Nat.mul_lt_mul_right hc
  have h2 : (D * c < 2 * (N % D * c)) ↔ (D < 2 * (N % D)) := by
    rw [← Nat.mul_assoc]; exact Nat.mul_lt_mul_right hc
  simp only [h1, h2]

theorem rdiv_exact (m D : Nat) (hD : 0 < D) : rdiv (m * D) D = m := by
  unfold rdiv
  have h0 : m * D % D = 0 := Nat.mul_mod_left m D
  have h1 : m * D / D = m := Nat.mul_div_cancel m hD
  simp [h0, h1, hD]

theorem rdiv_ge_div (N D : Nat) : N / D ≤ rdiv N D := by
  unfold rdiv; split
  · exact Nat.le_refl _
  · split
    · exact Nat.le_succ _
    · split
      · exact Nat.le_refl _
      · exact Nat.le_succ _

theorem rdiv_le_div_succ (N D : Nat) : rdiv N D ≤ N / D + 1 := by
  unfold rdiv; split
  · exact Nat.le_succ _
  · split
    · exact Nat.le_refl _
    · split
      · exact Nat.le_succ _
      · exact Nat.le_refl _

/-- lower bound: `a ≤ N/D` as rationals gives `a ≤ rdiv N D` -/
theorem le_rdiv (N D a : Nat) (hD : 0 < D) (h : a * D ≤ N) : a ≤ rdiv N D :=
  Nat.le_trans ((Nat.le_div_iff_mul_le hD).2 h) (rdiv_ge_div N D)

/-- upper bound: `N/D ≤ b` as rationals gives `rdiv N D ≤ b` -/
theorem rdiv_le (N D b : Nat) (hD : 0 < D) (h : N ≤ b * D) : rdiv N D ≤ b := by
  rcases Nat.lt_or_ge N (b * D) with hlt | hge
  · have : N / D < b := (Nat.div_lt_iff_lt_mul hD).2 hlt
    have := rdiv_le_div_succ N D
    omega
  · have : N = b * D := Nat.le_antisymm h hge
    rw [this, rdiv_exact b D hD]; exact Nat.le_refl _

/-- small quotients round to zero -/
theorem rdiv_eq_zero (N D : Nat) (h : 2 * N < D) : rdiv N D = 0 := by
  have hlt : N < D := by omega
  unfold rdiv
  rw [Nat.mod_eq_of_lt hlt, Nat.div_eq_of_lt hlt]
  simp [h]


/-! ### moving powers of two -/

theorem rdiv_scale (N D x y x' y' : Nat) (h : x + y' = x' + y) :
    rdiv (N * 2 ^ x) (D * 2 ^ y) = rdiv (N * 2 ^ x') (D * 2 ^ y') := by
  rcases Nat.le_total x x' with hx | hx
  · obtain ⟨c, rfl⟩ := Nat.exists_eq_add_of_le hx
    have : y' = y + c := by omega
    subst this
    rw [Nat.pow_add, Nat.pow_add, ← Nat.mul_assoc, ← Nat.mul_assoc,
      rdiv_mul_right _ _ _ (two_pow_pos' c)]
  · obtain ⟨c, rfl⟩ := Nat.exists_eq_add_of_le hx
    have : y = y' + c := by omega
    subst this
    rw [Nat.pow_add, Nat.pow_add, ← Nat.mul_assoc, ← Nat.mul_assoc,
      rdiv_mul_right _ _ _ (two_pow_pos' c)]

theorem le_scale (N D x y x' y' : Nat) (h : x + y' = x' + y) :
    (D * 2 ^ x ≤ N * 2 ^ y) ↔ (D * 2 ^ x' ≤ N * 2 ^ y') := by
  rcases Nat.le_total x x' with hx | hx
  · obtain ⟨c, rfl⟩ := Nat.exists_eq_add_of_le hx
    have : y' = y + c := by omega
    subst this
    rw [Nat.pow_add, Nat.pow_add, ← Nat.mul_assoc, ← Nat.mul_assoc]
    exact (Nat.mul_le_mul_right_iff (two_pow_pos' c)).symm
  · obtain ⟨c, rfl⟩ := Nat.exists_eq_add_of_le hx
    have : y = y' + c := by omega
    subst this
    rw [Nat.pow_add, Nat.pow_add, ← Nat.mul_assoc, ← Nat.mul_assoc]
    exact Nat.mul_le_mul_right_iff (two_pow_pos' c)

theorem lt_scale (N D x y x' y' : Nat) (h : x + y' = x' + y) :
    (N * 2 ^ y < D * 2 ^ x) ↔ (N * 2 ^ y' < D * 2 ^ x') := by
  have := le_scale N D x y x' y' h
  constructor
  · intro h1; exact Nat.lt_of_not_le (fun h2 => Nat.not_le_of_lt h1 (this.2 h2))
  · intro h1; exact Nat.lt_of_not_le (fun h2 => Nat.not_le_of_lt h1 (this.1 h2))

theorem rdivPow_mul_num (N D j : Nat) (t : Int) :
    rdivPow (N * 2 ^ j) D (t + j) = rdivPow N D t := by
  unfold rdivPow
  rw [Nat.mul_assoc, ← Nat.pow_add]
  apply rdiv_scale
  omega

theorem rdivPow_mul_den (N D j : Nat) (t : Int) :
    rdivPow N (D * 2 ^ j) t = rdivPow N D (t + j) := by
  unfold rdivPow
  rw [Nat.mul_assoc, ← Nat.pow_add]
  apply rdiv_scale
  omega

theorem log2_mul_two_pow (N j : Nat) (hN : N ≠ 0) : (N * 2 ^ j).log2 = N.log2 + j := by
  have hne : N * 2 ^ j ≠ 0 := Nat.mul_ne_zero hN (Nat.ne_of_gt (two_pow_pos' j))
  rw [Nat.log2_eq_iff hne]
  constructor
  · rw [Nat.pow_add]; exact Nat.mul_le_mul_right _ (Nat.log2_self_le hN)
  · have : N < 2 ^ (N.log2 + 1) := Nat.lt_log2_self
    have h2 : 2 ^ (N.log2 + j + 1) = 2 ^ (N.log2 + 1) * 2 ^ j := by
      rw [← Nat.pow_add]; congr 1; omega
    rw [h2]; exact Nat.mul_lt_mul_of_pos_right this (two_pow_pos' j)

theorem le2_mul_num (N D j : Nat) (d : Int) : le2 D (N * 2 ^ j) (d + j) = le2 D N d := by
  unfold le2
  rw [Nat.mul_assoc, ← Nat.pow_add]
  have := le_scale N D (d + j).toNat (j + (-(d + (j:Int))).toNat) d.toNat (-d).toNat (by omega)
  simp only [this]

theorem le2_mul_den (N D j : Nat) (d : Int) : le2 (D * 2 ^ j) N d = le2 D N (d + j) := by
  unfold le2
  rw [Nat.mul_assoc, ← Nat.pow_add]
  have := le_scale N D (j + d.toNat) (-d).toNat (d + j).toNat (-(d + (j:Int))).toNat (by omega)
  simp only [this]

theorem flog2_mul_num (N D j : Nat) (hN : N ≠ 0) : flog2 (N * 2 ^ j) D = flog2 N D + j := by
  unfold flog2
  rw [log2_mul_two_pow N j hN]
  have e : ((N.log2 + j : Nat) : Int) - (D.log2 : Int) = ((N.log2 : Int) - (D.log2 : Int)) + j := by omega
  simp only [e, le2_mul_num]
  split <;> omega

theorem flog2_mul_den (N D j : Nat) (hD : D ≠ 0) : flog2 N (D * 2 ^ j) = flog2 N D - j := by
  unfold flog2
  rw [log2_mul_two_pow D j hD]
  have e : (N.log2 : Int) - ((D.log2 + j : Nat) : Int) + (j : Int) = (N.log2 : Int) - (D.log2 : Int) := by omega
  simp only [le2_mul_den, e]
  split <;> omega


/-! ### `rne`: the value only matters -/

/-- moving a power of two from the numerator into the exponent -/
theorem rne_mul_num (N D j : Nat) (s : Int) : rne (N * 2 ^ j) D s = rne N D (s + j) := by
  by_cases hN : N = 0
  · subst hN; simp [rne]
  · have hne : N * 2 ^ j ≠ 0 := Nat.mul_ne_zero hN (Nat.ne_of_gt (two_pow_pos' j))
    unfold rne
    simp only [hN, hne, if_false]
    rw [flog2_mul_num N D j hN]
    have e1 : flog2 N D + (j : Int) + s = flog2 N D + (s + j) := by omega
    rw [e1]
    have e2 : ∀ q : Int, q - s = (q - (s + j)) + j := by intro q; omega
    rw [e2 (max (flog2 N D + (s + j)) (-1022) - 52), rdivPow_mul_num]

/-- moving a power of two from the denominator into the exponent -/
theorem rne_mul_den (N D j : Nat) (s : Int) (hD : D ≠ 0) : rne N (D * 2 ^ j) s = rne N D (s - j) := by
  by_cases hN : N = 0
  · subst hN; simp [rne]
  · unfold rne
    simp only [hN, if_false]
    rw [flog2_mul_den N D j hD]
    have e1 : flog2 N D - (j : Int) + s = flog2 N D + (s - j) := by omega
    rw [e1, rdivPow_mul_den]
    have e2 : ∀ q : Int, q - s + j = q - (s - j) := by intro q; omega
    rw [e2]

/-- `rne` in the normal range, no overflow possible -/
theorem rne_normal (N D : Nat) (s : Int) (hN : N ≠ 0)
    (h1 : -1022 ≤ flog2 N D + s) (h2 : flog2 N D + s ≤ 1022) :
    rne N D s =
      if rdivPow N D (flog2 N D - 52) = 2 ^ 53 then .fin (2 ^ 52) (flog2 N D + s - 51)
      else .fin (rdivPow N D (flog2 N D - 52)) (flog2 N D + s - 52) := by
  unfold rne
  have hk : ¬ (flog2 N D + s < -1080) := by omega
  have hmax : max (flog2 N D + s) (-1022) = flog2 N D + s := by omega
  simp only [hN, hk, if_false, hmax]
  have e : flog2 N D + s - 52 - s = flog2 N D - 52 := by omega
  rw [e]
  split
  · have : ¬ (flog2 N D + s - 52 + 1 > 971) := by omega
    simp only [this, if_false]
    congr 1; omega
  · have : ¬ (flog2 N D + s - 52 > 971) := by omega
    simp only [this, if_false]

/-- scaling by a power of two commutes with rounding while the value stays normal -/
theorem rne_shift (N D : Nat) (s j : Int) (m : Nat) (q : Int) (hN : N ≠ 0)
    (h1 : -1022 ≤ flog2 N D + s) (h2 : flog2 N D + s ≤ 1022)
    (h3 : -1022 ≤ flog2 N D + s + j) (h4 : flog2 N D + s + j ≤ 1022)
    (h : rne N D s = .fin m q) : rne N D (s + j) = .fin m (q + j) := by
  rw [rne_normal N D s hN h1 h2] at h
  rw [rne_normal N D (s + j) hN (by omega) (by omega)]
  split at h
  · next hm =>
    simp only [hm, if_true]
    injection h with h5 h6
    subst h5; congr 1; omega
  · next hm =>
    simp only [hm, if_false]
    injection h with h5 h6
    subst h5; congr 1; omega

theorem flog2_one (X : Nat) (hX : X ≠ 0) : flog2 X 1 = X.log2 := by
  have h1 : (1:Nat).log2 = 0 := by decide
  have h : le2 1 X ((X.log2 : Int) - ((0:Nat) : Int)) = true := by
    unfold le2
    simp only [decide_eq_true_eq]
    have e1 : ((X.log2 : Int) - ((0:Nat):Int)).toNat = X.log2 := by omega
    have e2 : (-((X.log2 : Int) - ((0:Nat):Int))).toNat = 0 := by omega
    rw [e1, e2]
    simpa using Nat.log2_self_le hX
  simp only [flog2, h1, h, if_true]; omega

theorem flog2_bounds (N D : Nat) :
    (N.log2 : Int) - D.log2 - 1 ≤ flog2 N D ∧ flog2 N D ≤ (N.log2 : Int) - D.log2 := by
  simp only [flog2]; split <;> omega

/-- a float with a full 53-bit significand rounds to itself -/
theorem rne_fixed (m : Nat) (s : Int) (hm1 : 2 ^ 52 ≤ m) (hm2 : m < 2 ^ 53)
    (h1 : -1022 ≤ 52 + s) (h2 : 52 + s ≤ 1022) : rne m 1 s = .fin m s := by
  have hm0 : m ≠ 0 := by
    have := two_pow_pos' 52; omega
  have hl : m.log2 = 52 := by
    rw [Nat.log2_eq_iff hm0]; exact ⟨hm1, hm2⟩
  have hf : flog2 m 1 = 52 := by rw [flog2_one m hm0, hl]; rfl
  rw [rne_normal m 1 s hm0 (by omega) (by omega), hf]
  have hr : rdivPow m 1 (52 - 52) = m := by
    unfold rdivPow
    have := rdiv_exact m 1 (by decide)
    simpa using this
  rw [hr]
  have : m ≠ 2 ^ 53 := by omega
  simp only [this, if_false]
  congr 1; omega


/-! ### `flog2` is the binary exponent of the quotient -/

theorem flog2_lower (N D : Nat) (hN : N ≠ 0) (_hD : D ≠ 0) :
    D * 2 ^ (flog2 N D).toNat ≤ N * 2 ^ (-(flog2 N D)).toNat := by
  simp only [flog2]
  split
  · next h => simpa [le2] using h
  · next h =>
    -- D < 2^(b+1), 2^a ≤ N, exponent a - b - 1
    have hD2 : D < 2 ^ (D.log2 + 1) := Nat.lt_log2_self
    have hN2 : 2 ^ N.log2 ≤ N := Nat.log2_self_le hN
    generalize hX : ((N.log2 : Int) - (D.log2 : Int) - 1).toNat = X
    generalize hY : (-((N.log2 : Int) - (D.log2 : Int) - 1)).toNat = Y
    have e : D.log2 + 1 + X = N.log2 + Y := by omega
    have s1 : D * 2 ^ X < 2 ^ (D.log2 + 1) * 2 ^ X :=
      Nat.mul_lt_mul_of_pos_right hD2 (two_pow_pos' X)
    have s2 : 2 ^ (D.log2 + 1) * 2 ^ X = 2 ^ N.log2 * 2 ^ Y := by
      rw [← Nat.pow_add, ← Nat.pow_add, e]
    have s3 : 2 ^ N.log2 * 2 ^ Y ≤ N * 2 ^ Y := Nat.mul_le_mul_right _ hN2
    omega

theorem flog2_upper (N D : Nat) (_hN : N ≠ 0) (hD : D ≠ 0) :
    N * 2 ^ (-(flog2 N D + 1)).toNat < D * 2 ^ (flog2 N D + 1).toNat := by
  simp only [flog2]
  split
  · next h =>
    have hN2 : N < 2 ^ (N.log2 + 1) := Nat.lt_log2_self
    have hD2 : 2 ^ D.log2 ≤ D := Nat.log2_self_le hD
    generalize hX : ((N.log2 : Int) - (D.log2 : Int) + 1).toNat = X
    generalize hY : (-((N.log2 : Int) - (D.log2 : Int) + 1)).toNat = Y
    have e : N.log2 + 1 + Y = D.log2 + X := by omega
    have s1 : N * 2 ^ Y < 2 ^ (N.log2 + 1) * 2 ^ Y :=
      Nat.mul_lt_mul_of_pos_right hN2 (two_pow_pos' Y)
    have s2 : 2 ^ (N.log2 + 1) * 2 ^ Y = 2 ^ D.log2 * 2 ^ X := by
      rw [← Nat.pow_add, ← Nat.pow_add, e]
    have s3 : 2 ^ D.log2 * 2 ^ X ≤ D * 2 ^ X := Nat.mul_le_mul_right _ hD2
    omega
  · next h =>
    have e : (N.log2 : Int) - (D.log2 : Int) - 1 + 1 = (N.log2 : Int) - (D.log2 : Int) := by omega
    rw [e]
    have : ¬ (D * 2 ^ ((N.log2 : Int) - (D.log2 : Int)).toNat ≤ N * 2 ^ (-((N.log2 : Int) - (D.log2 : Int))).toNat) := by
      simpa [le2] using h
    omega

/-- the significand computed at the value's own exponent has 53 bits (or rounds up to 2^53) -/
theorem rdivPow_flog2_bounds (N D : Nat) (hN : N ≠ 0) (hD : D ≠ 0) :
    2 ^ 52 ≤ rdivPow N D (flog2 N D - 52) ∧ rdivPow N D (flog2 N D - 52) ≤ 2 ^ 53 := by
  have hl := flog2_lower N D hN hD
  have hu := flog2_upper N D hN hD
  generalize flog2 N D = k at hl hu ⊢
  unfold rdivPow
  have hDpos : 0 < D * 2 ^ (k - 52).toNat :=
    Nat.mul_pos (Nat.pos_of_ne_zero hD) (two_pow_pos' _)
  constructor
  · apply le_rdiv _ _ _ hDpos
    -- 2^52 * (D * 2^t⁺) ≤ N * 2^(-t)⁺
    have := (le_scale N D k.toNat (-k).toNat (52 + (k - 52).toNat) (-(k - 52)).toNat (by omega)).1 hl
    rw [Nat.pow_add] at this
    calc 2 ^ 52 * (D * 2 ^ (k - 52).toNat) = D * (2 ^ 52 * 2 ^ (k - 52).toNat) := by
          rw [Nat.mul_left_comm]
      _ ≤ _ := this
  · apply rdiv_le _ _ _ hDpos
    have := (lt_scale N D (k + 1).toNat (-(k + 1)).toNat (53 + (k - 52).toNat) (-(k - 52)).toNat (by omega)).1 hu
    rw [Nat.pow_add] at this
    have e : D * (2 ^ 53 * 2 ^ (k - 52).toNat) = 2 ^ 53 * (D * 2 ^ (k - 52).toNat) := by
      rw [Nat.mul_left_comm]
    rw [e] at this
    exact Nat.le_of_lt this

/-- in the normal range the result is a finite float with a normalised significand -/
theorem rne_normal_range (N D : Nat) (s : Int) (hN : N ≠ 0) (hD : D ≠ 0)
    (h1 : -1022 ≤ flog2 N D + s) (h2 : flog2 N D + s ≤ 1022) :
    ∃ m q, rne N D s = .fin m q ∧ 2 ^ 52 ≤ m ∧ m < 2 ^ 53 ∧
      (q = flog2 N D + s - 52 ∨ q = flog2 N D + s - 51) := by
  rw [rne_normal N D s hN h1 h2]
  have hb := rdivPow_flog2_bounds N D hN hD
  split
  · exact ⟨2 ^ 52, _, rfl, Nat.le_refl _, by decide, Or.inr rfl⟩
  · next hne =>
    refine ⟨_, _, rfl, hb.1, ?_, Or.inl rfl⟩
    omega


/-! ### floats as exact values -/

/-- the float `m·2^q` has the value of the natural number `c` -/
def valEq (m : Nat) (q : Int) (c : Nat) : Prop :=
  m * 2 ^ q.toNat = c * 2 ^ (-q).toNat

theorem rne_valEq_num (m c X D : Nat) (q s : Int) (h : valEq m q c) :
    rne (m * X) D (q + s) = rne (c * X) D s := by
  unfold valEq at h
  have e1 : q + s = (s - ((-q).toNat : Int)) + (q.toNat : Int) := by omega
  rw [e1, ← rne_mul_num]
  have e2 : m * X * 2 ^ q.toNat = c * X * 2 ^ (-q).toNat := by
    rw [Nat.mul_right_comm, h, Nat.mul_right_comm]
  rw [e2, rne_mul_num]
  congr 1; omega

theorem rne_valEq_den (m c N : Nat) (q s : Int) (hm : m ≠ 0) (hc : c ≠ 0) (h : valEq m q c) :
    rne N m (s - q) = rne N c s := by
  unfold valEq at h
  have e1 : s - q = (s + ((-q).toNat : Int)) - (q.toNat : Int) := by omega
  rw [e1, ← rne_mul_den _ _ _ _ hm, h, rne_mul_den _ _ _ _ hc]
  congr 1; omega

/-- naturals up to 2^53 convert exactly -/
theorem rne_nat_exact (c : Nat) (h0 : c ≠ 0) (h1 : c ≤ 2 ^ 53) :
    ∃ m q, rne c 1 0 = .fin m q ∧ valEq m q c := by
  rcases Nat.lt_or_ge c (2 ^ 53) with hlt | hge
  · have hl : c.log2 < 53 := (Nat.log2_lt h0).2 hlt
    have hf : flog2 c 1 = c.log2 := flog2_one c h0
    refine ⟨c * 2 ^ (52 - c.log2), (c.log2 : Int) - 52, ?_, ?_⟩
    · rw [rne_normal c 1 0 h0 (by omega) (by omega), hf]
      have hr : rdivPow c 1 ((c.log2 : Int) - 52) = c * 2 ^ (52 - c.log2) := by
        unfold rdivPow
        have e1 : (-((c.log2 : Int) - 52)).toNat = 52 - c.log2 := by omega
        have e2 : ((c.log2 : Int) - 52).toNat = 0 := by omega
        rw [e1, e2]
        have := rdiv_exact (c * 2 ^ (52 - c.log2)) 1 (by decide)
        simpa using this
      rw [hr]
      have hlt2 : c * 2 ^ (52 - c.log2) < 2 ^ 53 := by
        have h2 : c < 2 ^ (c.log2 + 1) := Nat.lt_log2_self
        have h3 : c * 2 ^ (52 - c.log2) < 2 ^ (c.log2 + 1) * 2 ^ (52 - c.log2) :=
          Nat.mul_lt_mul_of_pos_right h2 (two_pow_pos' _)
        have h4 : 2 ^ (c.log2 + 1) * 2 ^ (52 - c.log2) = 2 ^ 53 := by
          rw [← Nat.pow_add]; congr 1; omega
        omega
      have : c * 2 ^ (52 - c.log2) ≠ 2 ^ 53 := by omega
      simp only [this, if_false, Int.add_zero]
    · unfold valEq
      have e1 : (-((c.log2 : Int) - 52)).toNat = 52 - c.log2 := by omega
      have e2 : ((c.log2 : Int) - 52).toNat = 0 := by omega
      rw [e1, e2]; simp
  · have : c = 2 ^ 53 := Nat.le_antisymm h1 hge
    subst this
    exact ⟨2 ^ 52, 1, by decide, by unfold valEq; decide⟩


/-! ### `rdiv` is round-to-nearest, ties-to-even -/

/-- the error is at most one half, and an exact tie goes to the even neighbour -/
theorem rdiv_nearest (N D : Nat) (hD : 0 < D) :
    2 * (rdiv N D * D) ≤ 2 * N + D ∧ 2 * N ≤ 2 * (rdiv N D * D) + D ∧
    ((2 * (rdiv N D * D) = 2 * N + D ∨ 2 * N = 2 * (rdiv N D * D) + D) → rdiv N D % 2 = 0) := by
  have hdm : D * (N / D) + N % D = N := Nat.div_add_mod N D
  have hlt : N % D < D := Nat.mod_lt _ hD
  have hc : N / D * D = D * (N / D) := Nat.mul_comm _ _
  have hs : (N / D + 1) * D = D * (N / D) + D := by rw [Nat.add_mul, Nat.one_mul, hc]
  unfold rdiv
  split
  · rw [hc]; refine ⟨by omega, by omega, ?_⟩
    intro h; omega
  · split
    · rw [hs]; refine ⟨by omega, by omega, ?_⟩
      intro h; omega
    · split
      · next he => rw [hc]; exact ⟨by omega, by omega, fun _ => he⟩
      · next he => rw [hs]; refine ⟨by omega, by omega, fun _ => by omega⟩

/-- the significand chosen by `rne` at ulp exponent `t` is the integer nearest to
    `N / (D·2^t)`, ties to even -/
theorem rdivPow_nearest (N D : Nat) (t : Int) (hD : D ≠ 0) :
    2 * (rdivPow N D t * (D * 2 ^ t.toNat)) ≤ 2 * (N * 2 ^ (-t).toNat) + D * 2 ^ t.toNat ∧
    2 * (N * 2 ^ (-t).toNat) ≤ 2 * (rdivPow N D t * (D * 2 ^ t.toNat)) + D * 2 ^ t.toNat ∧
    ((2 * (rdivPow N D t * (D * 2 ^ t.toNat)) = 2 * (N * 2 ^ (-t).toNat) + D * 2 ^ t.toNat ∨
      2 * (N * 2 ^ (-t).toNat) = 2 * (rdivPow N D t * (D * 2 ^ t.toNat)) + D * 2 ^ t.toNat) →
      rdivPow N D t % 2 = 0) :=
  rdiv_nearest _ _ (Nat.mul_pos (Nat.pos_of_ne_zero hD) (two_pow_pos' _))

/-! ### the underflow shortcut of `rne` is harmless -/

theorem rne_eq_rneRaw (N D : Nat) (s : Int) (hD : D ≠ 0) : rne N D s = rneRaw N D s := by
  unfold rne rneRaw
  by_cases hN : N = 0
  · simp [hN]
  · simp only [hN, if_false]
    by_cases hk : flog2 N D + s < -1080
    · simp only [hk, if_true]
      have hmax : max (flog2 N D + s) (-1022) = -1022 := by omega
      rw [hmax]
      have hu := flog2_upper N D hN hD
      have hz : rdivPow N D (-1022 - 52 - s) = 0 := by
        unfold rdivPow
        apply rdiv_eq_zero
        generalize flog2 N D = k at hk hu
        have key : N * 2 ^ ((-(-1022 - 52 - s)).toNat + 1 + ((-1022 - 52 - s) - (k + 2)).toNat)
            < D * 2 ^ ((-1022 - 52 - s).toNat) := by
          have := (lt_scale N D (k + 1).toNat (-(k + 1)).toNat ((-1022 - 52 - s).toNat)
            ((-(-1022 - 52 - s)).toNat + 1 + ((-1022 - 52 - s) - (k + 2)).toNat) (by omega)).1 hu
          exact this
        have hle : 2 * (N * 2 ^ (-(-1022 - 52 - s)).toNat)
            ≤ N * 2 ^ ((-(-1022 - 52 - s)).toNat + 1 + ((-1022 - 52 - s) - (k + 2)).toNat) := by
          rw [Nat.pow_add, Nat.pow_add, Nat.pow_one]
          have hp := two_pow_pos' ((-1022 - 52 - s) - (k + 2)).toNat
          calc 2 * (N * 2 ^ (-(-1022 - 52 - s)).toNat)
              = N * (2 ^ (-(-1022 - 52 - s)).toNat * 2) * 1 := by
                rw [Nat.mul_one, Nat.mul_comm 2, Nat.mul_assoc]
            _ ≤ N * (2 ^ (-(-1022 - 52 - s)).toNat * 2) * 2 ^ ((-1022 - 52 - s) - (k + 2)).toNat :=
                Nat.mul_le_mul_left _ hp
            _ = _ := by rw [Nat.mul_assoc]
        omega
      rw [hz]
      have c1 : ¬ ((0:Nat) = 2 ^ 53) := by decide
      have c2 : ¬ ((-1022:Int) - 52 > 971) := by decide
      simp only [c1, c2, if_false]
      rfl
    · simp only [hk, if_false]


/-! ### the magnitude guards of `rneDec` are harmless -/

theorem lt_ten_pow_ndigitsAux : ∀ (fuel w : Nat), w < 2 ^ fuel → w < 10 ^ ndigitsAux fuel w := by
  intro fuel
  induction fuel with
  | zero => intro w h; simp [ndigitsAux] at *; omega
  | succ f ih =>
    intro w h
    unfold ndigitsAux
    split
    · next h10 => simpa using h10
    · next h10 =>
      have h2 : w / 10 < 2 ^ f := by
        rw [Nat.pow_succ] at h
        omega
      have := ih (w / 10) h2
      rw [Nat.pow_add, Nat.pow_one]
      omega

theorem lt_ten_pow_ndigits (w : Nat) : w < 10 ^ ndigits w :=
  lt_ten_pow_ndigitsAux _ w Nat.lt_log2_self

theorem rne_huge (N : Nat) (hN : N ≠ 0) (h : 2 ^ 1100 ≤ N) : rne N 1 0 = .inf := by
  have hl : 1100 ≤ N.log2 := (Nat.le_log2 hN).2 h
  unfold rne
  simp only [hN, if_false]
  rw [flog2_one N hN]
  have hk : ¬ ((N.log2 : Int) + 0 < -1080) := by omega
  have hmax : max ((N.log2 : Int) + 0) (-1022) = (N.log2 : Int) + 0 := by omega
  have c1 : ((N.log2 : Int) + 0 - 52 + 1 > 971) := by omega
  have c2 : ((N.log2 : Int) + 0 - 52 > 971) := by omega
  simp only [hk, if_false, hmax, c1, c2, if_true]
  split <;> rfl

theorem rne_tiny (N D : Nat) (hN : N ≠ 0) (hD : D ≠ 0) (h : N * 2 ^ 1081 < D) :
    rne N D 0 = F.zero := by
  have hk : flog2 N D + 0 < -1080 := by
    apply Int.lt_of_not_ge
    intro hge
    have hl := flog2_lower N D hN hD
    generalize flog2 N D = k at hge hl
    have h1 : 2 ^ (-k).toNat ≤ 2 ^ 1081 := Nat.pow_le_pow_right (by decide) (by omega)
    have h2 : N * 2 ^ (-k).toNat ≤ N * 2 ^ 1081 := Nat.mul_le_mul_left _ h1
    have h3 : D * 1 ≤ D * 2 ^ k.toNat := Nat.mul_le_mul_left _ (two_pow_pos' _)
    omega
  unfold rne
  simp only [hN, if_false, hk, if_true]

set_option exponentiation.threshold 2000 in
theorem two_pow_1100_le : (2:Nat) ^ 1100 ≤ 10 ^ 401 := by decide +kernel

/-- `rneDec` is `rne` of the exact value `w·10^e` -/
theorem rneDec_eq (w : Nat) (e : Int) (hw : w ≠ 0) :
    rneDec w e = if 0 ≤ e then rne (w * 10 ^ e.toNat) 1 0 else rne w (10 ^ (-e).toNat) 0 := by
  unfold rneDec
  simp only [hw, if_false]
  have h10 : ∀ n : Nat, 10 ^ n ≠ 0 := fun n => Nat.ne_of_gt (Nat.pow_pos (by decide))
  by_cases h1 : e > 400
  · have c : 0 ≤ e := by omega
    simp only [h1, if_true, c]
    symm
    apply rne_huge _ (Nat.mul_ne_zero hw (h10 _))
    have a1 : (10:Nat) ^ 401 ≤ 10 ^ e.toNat := Nat.pow_le_pow_right (by decide) (by omega)
    have a2 : 1 * 10 ^ e.toNat ≤ w * 10 ^ e.toNat := Nat.mul_le_mul_right _ (Nat.pos_of_ne_zero hw)
    have := two_pow_1100_le
    omega
  · simp only [h1, if_false]
    by_cases h2 : e + (ndigits w : Int) < -400
    · have c : ¬ (0 ≤ e) := by omega
      simp only [h2, if_true, c, if_false]
      symm
      apply rne_tiny _ _ hw (h10 _)
      have hlt := lt_ten_pow_ndigits w
      have esplit : (-e).toNat = ndigits w + ((-e).toNat - ndigits w) := by omega
      rw [esplit, Nat.pow_add]
      have a1 : (10:Nat) ^ 401 ≤ 10 ^ ((-e).toNat - ndigits w) := Nat.pow_le_pow_right (by decide) (by omega)
      have a2 : (2:Nat) ^ 1081 ≤ 2 ^ 1100 := Nat.pow_le_pow_right (by decide) (by decide)
      have a3 := two_pow_1100_le
      have a4 : (2:Nat) ^ 1081 ≤ 10 ^ ((-e).toNat - ndigits w) := by omega
      calc w * 2 ^ 1081 < 10 ^ ndigits w * 2 ^ 1081 := Nat.mul_lt_mul_of_pos_right hlt (two_pow_pos' _)
        _ ≤ 10 ^ ndigits w * 10 ^ ((-e).toNat - ndigits w) := Nat.mul_le_mul_left _ a4
    · simp only [h2, if_false]


/-! ### uniqueness of the binary exponent, common factors -/

theorem flog2_unique (N D : Nat) (k : Int) (hN : N ≠ 0) (hD : D ≠ 0)
    (h1 : D * 2 ^ k.toNat ≤ N * 2 ^ (-k).toNat)
    (h2 : N * 2 ^ (-(k + 1)).toNat < D * 2 ^ (k + 1).toNat) : flog2 N D = k := by
  have hl := flog2_lower N D hN hD
  have hu := flog2_upper N D hN hD
  generalize flog2 N D = k' at hl hu ⊢
  rcases Int.lt_trichotomy k' k with hlt | heq | hgt
  · -- x < 2^(k'+1) ≤ 2^k ≤ x
    exfalso
    have hw : N * 2 ^ (-(k' + 1)).toNat < D * 2 ^ ((k' + 1).toNat + (k - (k' + 1)).toNat) := by
      rw [Nat.pow_add, ← Nat.mul_assoc]
      exact Nat.lt_of_lt_of_le hu (Nat.le_mul_of_pos_right _ (two_pow_pos' _))
    have := (lt_scale N D ((k' + 1).toNat + (k - (k' + 1)).toNat) (-(k' + 1)).toNat k.toNat (-k).toNat
      (by omega)).1 hw
    omega
  · exact heq
  · exfalso
    have hw : N * 2 ^ (-(k + 1)).toNat < D * 2 ^ ((k + 1).toNat + (k' - (k + 1)).toNat) := by
      rw [Nat.pow_add, ← Nat.mul_assoc]
      exact Nat.lt_of_lt_of_le h2 (Nat.le_mul_of_pos_right _ (two_pow_pos' _))
    have := (lt_scale N D ((k + 1).toNat + (k' - (k + 1)).toNat) (-(k + 1)).toNat k'.toNat (-k').toNat
      (by omega)).1 hw
    omega

theorem flog2_mul_common (N D c : Nat) (hN : N ≠ 0) (hD : D ≠ 0) (hc : c ≠ 0) :
    flog2 (N * c) (D * c) = flog2 N D := by
  apply flog2_unique _ _ _ (Nat.mul_ne_zero hN hc) (Nat.mul_ne_zero hD hc)
  · have := flog2_lower N D hN hD
    rw [Nat.mul_right_comm D, Nat.mul_right_comm N]
    exact Nat.mul_le_mul_right _ this
  · have := flog2_upper N D hN hD
    rw [Nat.mul_right_comm D, Nat.mul_right_comm N]
    exact Nat.mul_lt_mul_of_pos_right this (Nat.pos_of_ne_zero hc)

theorem rdivPow_mul_common (N D c : Nat) (t : Int) (hc : c ≠ 0) :
    rdivPow (N * c) (D * c) t = rdivPow N D t := by
  unfold rdivPow
  rw [Nat.mul_right_comm D, Nat.mul_right_comm N, rdiv_mul_right _ _ _ (Nat.pos_of_ne_zero hc)]

/-- `rne` depends only on the value of the fraction -/
theorem rne_mul_common (N D c : Nat) (s : Int) (hD : D ≠ 0) (hc : c ≠ 0) :
    rne (N * c) (D * c) s = rne N D s := by
  by_cases hN : N = 0
  · subst hN; simp [rne]
  · unfold rne
    have : N * c ≠ 0 := Nat.mul_ne_zero hN hc
    simp only [hN, this, if_false, flog2_mul_common N D c hN hD hc, rdivPow_mul_common _ _ _ _ hc]

/-! ### rounding values with at most 53 significant bits is exact -/

theorem rne_small_normal (c : Nat) (s : Int) (hc : c ≠ 0) (hlt : c < 2 ^ 53)
    (hk : -1022 ≤ (c.log2 : Int) + s) :
    rne c 1 s = if (c.log2 : Int) + s - 52 > 971 then .inf
      else .fin (c * 2 ^ (52 - c.log2)) ((c.log2 : Int) + s - 52) := by
  have hl : c.log2 < 53 := (Nat.log2_lt hc).2 hlt
  unfold rne
  rw [flog2_one c hc]
  have c1 : ¬ ((c.log2 : Int) + s < -1080) := by omega
  have hmax : max ((c.log2 : Int) + s) (-1022) = (c.log2 : Int) + s := by omega
  simp only [hc, if_false, c1, hmax]
  have e : (c.log2 : Int) + s - 52 - s = (c.log2 : Int) - 52 := by omega
  rw [e]
  have hr : rdivPow c 1 ((c.log2 : Int) - 52) = c * 2 ^ (52 - c.log2) := by
    unfold rdivPow
    have e1 : (-((c.log2 : Int) - 52)).toNat = 52 - c.log2 := by omega
    have e2 : ((c.log2 : Int) - 52).toNat = 0 := by omega
    rw [e1, e2]
    have := rdiv_exact (c * 2 ^ (52 - c.log2)) 1 (by decide)
    simpa using this
  rw [hr]
  have hlt2 : c * 2 ^ (52 - c.log2) < 2 ^ 53 := by
    have h2 : c < 2 ^ (c.log2 + 1) := Nat.lt_log2_self
    have h3 : c * 2 ^ (52 - c.log2) < 2 ^ (c.log2 + 1) * 2 ^ (52 - c.log2) :=
      Nat.mul_lt_mul_of_pos_right h2 (two_pow_pos' _)
    have h4 : 2 ^ (c.log2 + 1) * 2 ^ (52 - c.log2) = 2 ^ 53 := by
      rw [← Nat.pow_add]; congr 1; omega
    omega
  have hne : c * 2 ^ (52 - c.log2) ≠ 2 ^ 53 := by omega
  simp only [hne, if_false]

theorem rne_small_subnormal (c : Nat) (s : Int) (hc : c ≠ 0) (hlt : c < 2 ^ 53)
    (hk : (c.log2 : Int) + s < -1022) (hs : -1074 ≤ s) :
    rne c 1 s = .fin (c * 2 ^ (s + 1074).toNat) (-1074) := by
  have hl : c.log2 < 53 := (Nat.log2_lt hc).2 hlt
  unfold rne
  rw [flog2_one c hc]
  have c1 : ¬ ((c.log2 : Int) + s < -1080) := by omega
  have hmax : max ((c.log2 : Int) + s) (-1022) = -1022 := by omega
  simp only [hc, if_false, c1, hmax]
  have hr : rdivPow c 1 (-1022 - 52 - s) = c * 2 ^ (s + 1074).toNat := by
    unfold rdivPow
    have e1 : (-(-1022 - 52 - s)).toNat = (s + 1074).toNat := by omega
    have e2 : (-1022 - 52 - s).toNat = 0 := by omega
    rw [e1, e2]
    have := rdiv_exact (c * 2 ^ (s + 1074).toNat) 1 (by decide)
    simpa using this
  rw [hr]
  have hlt2 : c * 2 ^ (s + 1074).toNat < 2 ^ 53 := by
    have h2 : c < 2 ^ (c.log2 + 1) := Nat.lt_log2_self
    have h3 : c * 2 ^ (s + 1074).toNat < 2 ^ (c.log2 + 1) * 2 ^ (s + 1074).toNat :=
      Nat.mul_lt_mul_of_pos_right h2 (two_pow_pos' _)
    have h4 : 2 ^ (c.log2 + 1) * 2 ^ (s + 1074).toNat ≤ 2 ^ 53 := by
      rw [← Nat.pow_add]; exact Nat.pow_le_pow_right (by decide) (by omega)
    omega
  have hne : c * 2 ^ (s + 1074).toNat ≠ 2 ^ 53 := by omega
  have c2 : ¬ ((-1022:Int) - 52 > 971) := by decide
  simp only [hne, if_false, c2]
  rfl

theorem pow_cancel (m c a b x y : Nat) (h : m * 2 ^ a = c * 2 ^ b) (hxy : a + y = b + x) :
    m * 2 ^ x = c * 2 ^ y := by
  apply Nat.eq_of_mul_eq_mul_right (two_pow_pos' a)
  calc m * 2 ^ x * 2 ^ a = m * 2 ^ a * 2 ^ x := Nat.mul_right_comm _ _ _
    _ = c * 2 ^ b * 2 ^ x := by rw [h]
    _ = c * 2 ^ (b + x) := by rw [Nat.mul_assoc, ← Nat.pow_add]
    _ = c * 2 ^ (a + y) := by rw [hxy]
    _ = c * 2 ^ y * 2 ^ a := by rw [Nat.pow_add, Nat.mul_left_comm, Nat.mul_comm]

/-- a natural number `c ≤ 2^53` scaled by `2^s`, `s ≥ -1074`, is representable: whenever
    the result is finite it is exactly `c·2^s` -/
theorem rne_pow2_exact (c : Nat) (s : Int) (m : Nat) (q : Int) (hc : c ≠ 0) (hle : c ≤ 2 ^ 53)
    (hs : -1074 ≤ s) (h : rne c 1 s = .fin m q) :
    m * 2 ^ (q - s).toNat = c * 2 ^ (s - q).toNat := by
  have small : ∀ (c : Nat) (s : Int) (m : Nat) (q : Int), c ≠ 0 → c < 2 ^ 53 → -1074 ≤ s →
      rne c 1 s = .fin m q → m * 2 ^ (q - s).toNat = c * 2 ^ (s - q).toNat := by
    intro c s m q hc hlt hs h
    have hl : c.log2 < 53 := (Nat.log2_lt hc).2 hlt
    by_cases hk : -1022 ≤ (c.log2 : Int) + s
    · rw [rne_small_normal c s hc hlt hk] at h
      split at h
      · cases h
      · injection h with h1 h2
        subst h1 h2
        have e1 : ((c.log2 : Int) + s - 52 - s).toNat = 0 := by omega
        have e2 : (s - ((c.log2 : Int) + s - 52)).toNat = 52 - c.log2 := by omega
        rw [e1, e2]; simp
    · rw [rne_small_subnormal c s hc hlt (by omega) hs] at h
      injection h with h1 h2
      subst h1 h2
      have e1 : ((-1074 : Int) - s).toNat = 0 := by omega
      have e2 : (s - (-1074 : Int)).toNat = (s + 1074).toNat := by omega
      rw [e1, e2]; simp
  rcases Nat.lt_or_ge c (2 ^ 53) with hlt | hge
  · exact small c s m q hc hlt hs h
  · have hc53 : c = 2 ^ 53 := Nat.le_antisymm hle hge
    subst hc53
    have h' : rne 1 1 (s + 53) = .fin m q := by
      have := rne_mul_num 1 1 53 s
      simp only [Nat.one_mul] at this
      have e : (s + ((53:Nat):Int)) = s + 53 := by omega
      rw [e] at this
      rw [← this]; exact h
    have := small 1 (s + 53) m q (by decide) (by decide) (by omega) h'
    exact pow_cancel m 1 (q - (s + 53)).toNat ((s + 53) - q).toNat (q - s).toNat (53 + (s - q).toNat)
      (by simpa using this) (by omega) |>.trans (by rw [Nat.one_mul, Nat.pow_add])

end PCV.Decimal
