/-
Helper lemmas for Props/C01V (engine optvalidate): membership characterisations of the error
lists of PCV.Model.OptValidate, piece by piece.
-/
import PCV.Spec.OptValidate
namespace PCV.OptValidate

theorem mem_errIf {c : Bool} {e e' : Err} : e' ∈ errIf c e ↔ c = true ∧ e' = e := by
  unfold errIf; split <;> simp_all

theorem errIf_eq_nil {c : Bool} {e : Err} : errIf c e = [] ↔ c = false := by
  unfold errIf; split <;> simp_all

/-! ## validatePacked -/

theorem mem_packedErrs {f : File} {v : FieldView} {e : Err} :
    e ∈ packedErrs f v ↔
      (e = .packedEditions ∧ v.opts.packed.isSome = true ∧ f.isEditions = true) ∨
      (v.opts.packed = some true ∧
        ((e = .panicNilLabel ∧ v.isRepeated = false ∧ v.label = .none) ∨
         (e = .packedNonRepeated ∧ v.isRepeated = false ∧ v.label ≠ .none) ∨
         (e = .packedNonPackable ∧ v.ty.unpackableProtoType = true))) := by
  unfold packedErrs
  by_cases hp : v.opts.packed = some true
  · by_cases hr : v.isRepeated = true <;> by_cases hl : v.label = .none <;>
      simp [hp, hr, hl, mem_errIf] <;> grind
  · simp [hp, mem_errIf]; grind

/-! ## the other pieces of validateField -/

theorem mem_closedEnumErrs {fs : Files} {f : File} {v : FieldView} {e : Err} :
    e ∈ closedEnumErrs fs f v ↔
      e = .closedEnumImplicit ∧ ∃ r, v.ty = .enum r ∧ v.label ≠ .repeated ∧ hasPresence f v = false ∧
        enumClosed fs r = true := by
  unfold closedEnumErrs
  split <;> simp_all [mem_errIf] <;> grind

theorem mem_lazyErrs {f : File} {v : FieldView} {e : Err} :
    e ∈ lazyErrs f v ↔
      kind f v ≠ .message ∧
      ((e = .lazyNonMessage ∧ v.opts.lazy = some true) ∨
       (e = .ulazyNonMessage ∧ v.opts.lazy ≠ some true ∧ v.opts.unverifiedLazy = some true)) := by
  unfold lazyErrs
  by_cases h1 : v.opts.lazy = some true <;> by_cases h2 : v.opts.unverifiedLazy = some true <;>
    by_cases h3 : kind f v = .message <;> simp [h1, h2, h3]

theorem mem_jstypeErrs {f : File} {v : FieldView} {e : Err} :
    e ∈ jstypeErrs f v ↔
      e = .jstypeNon64 ∧ (v.opts.jstype = some .string ∨ v.opts.jstype = some .number) ∧
        (kind f v).is64BitInt = false := by
  unfold jstypeErrs
  split <;> simp_all [mem_errIf]
  rename_i j hn hs
  cases j <;> simp_all <;> exact And.comm

theorem mem_presenceErrs {f : File} {v : FieldView} {e : Err} :
    e ∈ presenceErrs f v ↔ ∃ p, v.opts.presence = some p ∧
      ((e = .presenceOneof ∧ v.inOneof f = true) ∨
       (e = .presenceRepeated ∧ v.inOneof f = false ∧ v.isRepeated = true) ∨
       (e = .presenceExtension ∧ v.inOneof f = false ∧ v.isRepeated = false ∧ v.isExt = true) ∨
       (e = .presenceImplicitMessage ∧ v.inOneof f = false ∧ v.isRepeated = false ∧ v.isExt = false ∧
          v.ty.hasMessage = true ∧ p = .implicit)) := by
  unfold presenceErrs
  split
  · simp_all
  · rename_i p hp
    by_cases h1 : v.inOneof f = true <;> by_cases h2 : v.isRepeated = true <;> by_cases h3 : v.isExt = true <;>
      simp [hp, h1, h2, h3, mem_errIf] <;> grind

theorem mem_rencErrs {f : File} {v : FieldView} {e : Err} :
    e ∈ rencErrs f v ↔ ∃ r, v.opts.repEnc = some r ∧
      ((e = .rencNonRepeated ∧ v.isRepeated = false) ∨
       (e = .rencPackedNonPackable ∧ v.isRepeated = true ∧ (kind f v).canPack = false ∧ r = .packed)) := by
  unfold rencErrs
  split
  · simp_all
  · rename_i r hr
    by_cases h2 : v.isRepeated = true <;> simp [hr, h2, mem_errIf] <;> grind

theorem mem_utf8Errs {f : File} {v : FieldView} {e : Err} :
    e ∈ utf8Errs f v ↔ e = .utf8NonString ∧ v.opts.utf8.isSome = true ∧
      ((v.ty.isMap = false ∧ kind f v ≠ .scalar .string) ∨
       (v.ty.isMap = true ∧ mapKeyIsString v.ty = false ∧ mapValIsString v.ty = false)) := by
  unfold utf8Errs
  split
  · simp_all
  · rename_i u hu
    simp [hu, mem_errIf]; grind

theorem mem_mencErrs {v : FieldView} {e : Err} :
    e ∈ mencErrs v ↔ e = .mencNonMessage ∧ v.opts.msgEnc.isSome = true ∧
      (v.ty.hasMessage = false ∨ v.ty.isMap = true) := by
  unfold mencErrs
  split
  · simp_all
  · rename_i u hu
    simp [hu, mem_errIf]; grind

theorem mem_featureErrs {f : File} {v : FieldView} {e : Err} :
    e ∈ featureErrs f v ↔ v.inMapEntry = false ∧
      (e ∈ presenceErrs f v ∨ e ∈ rencErrs f v ∨ e ∈ utf8Errs f v ∨ e ∈ mencErrs v) := by
  unfold featureErrs
  split <;> simp_all

theorem mem_fieldCoreErrs {fs : Files} {f : File} {v : FieldView} {e : Err} :
    e ∈ fieldCoreErrs fs f v ↔
      e ∈ packedErrs f v ∨ e ∈ closedEnumErrs fs f v ∨
      (e = .defaultImplicit ∧ v.opts.hasDefault = true ∧ hasPresence f v = false) ∨
      (e = .ctype2024 ∧ v.opts.ctype.isSome = true ∧ f.syn = .ed2024) ∨
      e ∈ lazyErrs f v ∨ e ∈ jstypeErrs f v ∨ (f.isEditions = true ∧ e ∈ featureErrs f v) := by
  unfold fieldCoreErrs
  simp only [List.mem_append, mem_errIf]
  by_cases he : f.isEditions = true <;> simp [he] <;> grind

/-! ## validateExtension -/

theorem mem_msgSetErrs {f : File} {m : Message} {x : Ext} {e : Err} :
    e ∈ msgSetErrs f m x ↔
      (m.msgSet = some true ∧
        ((e = .msgSetScalarExt ∧ kind f x.view ≠ .message) ∨ (e = .msgSetRepeatedExt ∧ x.view.isRepeated = true))) ∨
      (m.msgSet ≠ some true ∧ e = .extTagTooHigh ∧ fieldMax < x.number) := by
  unfold msgSetErrs
  by_cases h : m.msgSet = some true <;> simp [h, mem_errIf] <;> grind

/-- the declaration that decides for extension number `n`: the first one carrying that number -/
def firstDecl (n : Nat) (ds : List Decl) : Option Decl := ds.find? (fun d => d.number.getD 0 == (n : Int))

theorem matchDecls_eq (x : ExtInfo) (ds : List Decl) :
    matchDecls x ds =
      match firstDecl x.number ds with
      | none => if x.otherFile then [.panicRangeNode] else [.extNotDeclared]
      | some d =>
        if d.reserved.getD false then [.extReserved]
        else
          errIf (d.fullName.getD [] != '.' :: x.fullName) .extNameMismatch ++
          errIf (d.type.getD [] != x.typeName) .extTypeMismatch ++
          (if d.repeated.getD false != x.isRep then
             (if x.noLabel then [.panicNilLabel] else [.extRepeatedMismatch])
           else []) := by
  induction ds with
  | nil => simp [matchDecls, firstDecl]
  | cons d rest ih =>
    unfold matchDecls firstDecl
    by_cases h : d.number.getD 0 = (x.number : Int)
    · simp [h]
    · simp [h]
      simpa [firstDecl] using ih

/-- the range that governs number `n`: the first one containing it -/
def firstRange (n : Nat) (rs : List (Span × ExtStmt)) : Option (Span × ExtStmt) :=
  rs.find? (fun r => r.1.lo ≤ n && n ≤ r.1.hi)

/-- no range of the list contains `n` -/
def noneContains (n : Nat) (rs : List (Span × ExtStmt)) : Prop := ∀ r ∈ rs, ¬ (r.1.lo ≤ n ∧ n ≤ r.1.hi)

theorem matchRanges_none (x : ExtInfo) (rs : List (Span × ExtStmt)) (h : noneContains x.number rs) :
    matchRanges x rs = [] := by
  induction rs with
  | nil => simp [matchRanges]
  | cons r rest ih =>
    obtain ⟨sp, st⟩ := r
    have h1 : ¬ (sp.lo ≤ x.number ∧ x.number ≤ sp.hi) := h (sp, st) (by simp)
    have h2 : noneContains x.number rest := fun r hr => h r (by simp [hr])
    unfold matchRanges
    have : (x.number < sp.lo || sp.hi < x.number) = true := by
      simp only [Bool.or_eq_true, decide_eq_true_eq]; omega
    simp [this, ih h2]

/-- pairwise disjoint spans -/
def DisjointRanges (rs : List (Span × ExtStmt)) : Prop :=
  rs.Pairwise (fun a b => a.1.hi < b.1.lo ∨ b.1.hi < a.1.lo)

/-- with pairwise disjoint ranges the loop looks at the first (= only) range containing the number -/
theorem matchRanges_eq (x : ExtInfo) (rs : List (Span × ExtStmt)) (hd : DisjointRanges rs) :
    matchRanges x rs =
      match firstRange x.number rs with
      | none => []
      | some (_, st) =>
        if st.decls.isEmpty && st.verification != some .declaration then [] else matchDecls x st.decls := by
  induction rs with
  | nil => simp [matchRanges, firstRange]
  | cons r rest ih =>
    obtain ⟨sp, st⟩ := r
    have hd' : DisjointRanges rest := (List.pairwise_cons.mp hd).2
    unfold matchRanges firstRange
    by_cases hin : sp.lo ≤ x.number ∧ x.number ≤ sp.hi
    · have h1 : (x.number < sp.lo || sp.hi < x.number) = false := by
        simp only [Bool.or_eq_false_iff, decide_eq_false_iff_not]; omega
      have h2 : (decide (sp.lo ≤ x.number) && decide (x.number ≤ sp.hi)) = true := by simp [hin]
      have hnone : noneContains x.number rest := by
        intro r hr hc
        have := (List.pairwise_cons.mp hd).1 r hr
        simp only at this
        omega
      simp only [h1, List.find?_cons, h2]
      by_cases hv : (st.decls.isEmpty && st.verification != some .declaration) = true
      · simp [hv]
      · simp [hv, matchRanges_none x rest hnone]
    · have h1 : (x.number < sp.lo || sp.hi < x.number) = true := by
        simp only [Bool.or_eq_true, decide_eq_true_eq]; omega
      have h2 : (decide (sp.lo ≤ x.number) && decide (x.number ≤ sp.hi)) = false := by
        simp only [Bool.and_eq_false_iff, decide_eq_false_iff_not]; omega
      simp only [h1, List.find?_cons, h2]
      simpa [firstRange] using ih hd'

/-! ## validateExtensionDeclarations: the symbol table as a fold over the declared names -/

abbrev Occ := Name × Name × Int

/-- AddExtensionDeclaration applied to a sequence of (name, extendee, tag): (some call failed, final table) -/
def addAll : Syms → List Occ → Bool × Syms
  | s, [] => (false, s)
  | s, (n, e, t) :: rest =>
    let r := addDecl s n e t
    let r2 := addAll r.2 rest
    (!r.1.isEmpty || r2.1, r2.2)

theorem addAll_append (s : Syms) (a b : List Occ) :
    addAll s (a ++ b) = ((addAll s a).1 || (addAll (addAll s a).2 b).1, (addAll (addAll s a).2 b).2) := by
  induction a generalizing s with
  | nil => simp [addAll]
  | cons o rest ih =>
    obtain ⟨n, e, t⟩ := o
    simp [addAll, ih, Bool.or_assoc]

def normName (s : Name) : Name := if hasDotPrefix s then s.drop 1 else s

/-- the AddExtensionDeclaration call made for one declaration -/
def declOcc (msgName : Name) (d : Decl) : List Occ :=
  match d.fullName with
  | none => []
  | some s => [(normName s, msgName, d.number.getD 0)]

/-- the full_name of a declaration is acceptable on its own -/
def declNameOk (d : Decl) : Bool :=
  match d.fullName with
  | none => d.reserved.getD false
  | some s => hasDotPrefix s && fullNameValid (s.drop 1)

def declTypeOk (d : Decl) : Bool :=
  match d.type with
  | none => d.reserved.getD false
  | some t => if hasDotPrefix t then fullNameValid (t.drop 1) else isBuiltinTypeName t

def declRsvdOk (d : Decl) : Bool := !(d.reserved.getD false && (d.fullName.isNone != d.type.isNone))

theorem declNameErrs_syms (msgName : Name) (d : Decl) (syms : Syms) :
    (declNameErrs msgName d syms).2 = (addAll syms (declOcc msgName d)).2 := by
  unfold declNameErrs declOcc
  cases hn : d.fullName <;> simp [addAll, normName]

theorem declNameErrs_nil (msgName : Name) (d : Decl) (syms : Syms) :
    (declNameErrs msgName d syms).1 = [] ↔
      declNameOk d = true ∧ (addAll syms (declOcc msgName d)).1 = false := by
  unfold declNameErrs declOcc declNameOk
  cases hn : d.fullName with
  | none => simp [addAll, errIf_eq_nil]
  | some s =>
    by_cases hd : hasDotPrefix s = true
    · simp [hd, addAll, normName, errIf_eq_nil]
    · simp [hd, addAll, normName, errIf_eq_nil]

theorem declTypeErrs_nil (d : Decl) : declTypeErrs d = [] ↔ declTypeOk d = true := by
  unfold declTypeErrs declTypeOk
  cases ht : d.type with
  | none => simp [errIf_eq_nil]
  | some t => by_cases hd : hasDotPrefix t = true <;> simp [hd, errIf_eq_nil]

theorem declRsvdErrs_nil (d : Decl) : declRsvdErrs d = [] ↔ declRsvdOk d = true := by
  unfold declRsvdErrs declRsvdOk
  simp only [errIf_eq_nil]
  cases d.reserved.getD false <;> cases (d.fullName.isNone != d.type.isNone) <;> simp

theorem declNumErrs_nil (sp : Span) (d : Decl) (seen : List Int) :
    (declNumErrs sp d seen).1 = [] ↔
      ∃ n, d.number = some n ∧ (sp.lo : Int) ≤ n ∧ n ≤ (sp.hi : Int) ∧ seen.contains n = false ∧
        (declNumErrs sp d seen).2 = n :: seen := by
  unfold declNumErrs
  cases hnum : d.number with
  | none => simp
  | some n =>
    by_cases hr : (n < (sp.lo : Int) || (sp.hi : Int) < n) = true
    · have : ¬ ((sp.lo : Int) ≤ n ∧ n ≤ (sp.hi : Int)) := by
        simp only [Bool.or_eq_true, decide_eq_true_eq] at hr; omega
      simp only [hr, if_true]
      simp
    · have hin : (sp.lo : Int) ≤ n ∧ n ≤ (sp.hi : Int) := by
        simp only [Bool.or_eq_true, decide_eq_true_eq] at hr; omega
      by_cases hs : n ∈ seen
      · simp [hr, hs]
      · simp [hr, hs, hin]

theorem declOne_syms (msgName : Name) (sp : Span) (d : Decl) (seen : List Int) (syms : Syms) :
    (declOne msgName sp d seen syms).2.2 = (addAll syms (declOcc msgName d)).2 := by
  simp [declOne, declNameErrs_syms]

theorem declOne_nil (msgName : Name) (sp : Span) (d : Decl) (seen : List Int) (syms : Syms) :
    (declOne msgName sp d seen syms).1 = [] ↔
      (∃ n, d.number = some n ∧ (sp.lo : Int) ≤ n ∧ n ≤ (sp.hi : Int) ∧ seen.contains n = false ∧
        (declOne msgName sp d seen syms).2.1 = n :: seen) ∧
      declNameOk d = true ∧ declTypeOk d = true ∧ declRsvdOk d = true ∧
      (addAll syms (declOcc msgName d)).1 = false := by
  simp only [declOne, List.append_eq_nil_iff, declNumErrs_nil, declNameErrs_nil, declTypeErrs_nil, declRsvdErrs_nil]
  constructor
  · rintro ⟨⟨⟨h1, h2, h3⟩, h4⟩, h5⟩; exact ⟨h1, h2, h4, h5, h3⟩
  · rintro ⟨h1, h2, h4, h5, h3⟩; exact ⟨⟨⟨h1, h2, h3⟩, h4⟩, h5⟩

/-- the in-range numbers are fresh w.r.t. `seen` and pairwise distinct -/
def numsFresh : List Int → List Int → Prop
  | _, [] => True
  | seen, n :: rest => n ∉ seen ∧ numsFresh (n :: seen) rest

theorem numsFresh_iff (seen l : List Int) : numsFresh seen l ↔ l.Nodup ∧ ∀ n ∈ l, n ∉ seen := by
  induction l generalizing seen with
  | nil => simp [numsFresh]
  | cons n rest ih =>
    simp only [numsFresh, ih, List.nodup_cons, List.mem_cons, forall_eq_or_imp]
    constructor
    · rintro ⟨h1, h2, h3⟩
      refine ⟨⟨fun hm => ?_, h2⟩, h1, fun m hm => ?_⟩
      · exact (h3 n hm) (Or.inl rfl)
      · exact fun hs => (h3 m hm) (Or.inr hs)
    · rintro ⟨⟨h1, h2⟩, h3, h4⟩
      refine ⟨h3, h2, fun m hm hc => ?_⟩
      rcases hc with rfl | hc
      · exact h1 hm
      · exact h4 m hm hc

/-- the numbers of the declarations (those that have one) -/
def declNumbers (ds : List Decl) : List Int := ds.filterMap (·.number)

/-- the loop over the declarations of one range reports nothing iff every declaration is fine on
    its own, the numbers are new, and no AddExtensionDeclaration call fails -/
theorem declLoop_nil (msgName : Name) (sp : Span) (ds : List Decl) (seen : List Int) (syms : Syms) :
    (declLoop msgName sp ds seen syms).1 = [] ↔
      (∀ d ∈ ds, (∃ n, d.number = some n ∧ (sp.lo : Int) ≤ n ∧ n ≤ (sp.hi : Int)) ∧
                 declNameOk d = true ∧ declTypeOk d = true ∧ declRsvdOk d = true) ∧
      numsFresh seen (declNumbers ds) ∧
      (addAll syms (ds.flatMap (declOcc msgName))).1 = false := by
  induction ds generalizing seen syms with
  | nil => simp [declLoop, numsFresh, declNumbers, addAll]
  | cons d rest ih =>
    simp only [declLoop, List.append_eq_nil_iff, declOne_nil, List.flatMap_cons, addAll_append,
      Bool.or_eq_false_iff, List.mem_cons, forall_eq_or_imp]
    constructor
    · rintro ⟨⟨⟨n, hn, hlo, hhi, hs, hseen⟩, h2, h3, h4, h5⟩, hrest⟩
      rw [hseen, declOne_syms] at hrest
      have := (ih (n :: seen) _).mp hrest
      refine ⟨⟨⟨⟨n, hn, hlo, hhi⟩, h2, h3, h4⟩, this.1⟩, ?_, h5, this.2.2⟩
      simp only [declNumbers, List.filterMap_cons, hn, numsFresh]
      exact ⟨by simpa using hs, this.2.1⟩
    · rintro ⟨⟨⟨⟨n, hn, hlo, hhi⟩, h2, h3, h4⟩, hall⟩, hfresh, h5, h6⟩
      simp only [declNumbers, List.filterMap_cons, hn, numsFresh] at hfresh
      have hseen : (declOne msgName sp d seen syms).2.1 = n :: seen := by
        have hc : seen.contains n = false := by simpa using hfresh.1
        have hr : (n < (sp.lo : Int) || (sp.hi : Int) < n) = false := by
          simp only [Bool.or_eq_false_iff, decide_eq_false_iff_not]; omega
        simp [declOne, declNumErrs, hn, hr, hfresh.1]
      refine ⟨⟨⟨n, hn, hlo, hhi, by simpa using hfresh.1, hseen⟩, h2, h3, h4, h5⟩, ?_⟩
      rw [hseen, declOne_syms]
      exact (ih (n :: seen) _).mpr ⟨hall, hfresh.2, h6⟩

theorem declLoop_syms (msgName : Name) (sp : Span) (ds : List Decl) (seen : List Int) (syms : Syms) :
    (declLoop msgName sp ds seen syms).2 = (addAll syms (ds.flatMap (declOcc msgName))).2 := by
  induction ds generalizing seen syms with
  | nil => simp [declLoop, addAll]
  | cons d rest ih => simp [declLoop, ih, declOne_syms, addAll_append]

/-! ## one range, all ranges of a message -/

/-- the declarations of one ExtensionRange are fine on their own -/
def RangeOk (sp : Span) (st : ExtStmt) : Prop :=
  st.decls = [] ∨
  (st.verification ≠ some .unverified ∧
   (∀ d ∈ st.decls, (∃ n, d.number = some n ∧ (sp.lo : Int) ≤ n ∧ n ≤ (sp.hi : Int)) ∧
                    declNameOk d = true ∧ declTypeOk d = true ∧ declRsvdOk d = true) ∧
   (declNumbers st.decls).Nodup)

def rangeOccs (msgName : Name) (st : ExtStmt) : List Occ := st.decls.flatMap (declOcc msgName)

theorem declRange_syms (msgName : Name) (sp : Span) (st : ExtStmt) (syms : Syms) :
    (declRange msgName sp st syms).2 = (addAll syms (rangeOccs msgName st)).2 := by
  unfold declRange rangeOccs
  cases hd : st.decls with
  | nil => simp [addAll]
  | cons d rest => simp [declLoop_syms]

theorem declRange_nil (msgName : Name) (sp : Span) (st : ExtStmt) (syms : Syms) :
    (declRange msgName sp st syms).1 = [] ↔
      RangeOk sp st ∧ (addAll syms (rangeOccs msgName st)).1 = false := by
  unfold declRange rangeOccs RangeOk
  cases hd : st.decls with
  | nil => simp [addAll]
  | cons d rest =>
    simp only [List.isEmpty_cons, Bool.false_eq_true, if_false, List.append_eq_nil_iff, errIf_eq_nil,
      declLoop_nil, numsFresh_iff, reduceCtorEq, false_or]
    constructor
    · rintro ⟨h1, h2, h3, h4⟩
      exact ⟨⟨by simpa using h1, h2, h3.1⟩, h4⟩
    · rintro ⟨⟨h1, h2, h3⟩, h4⟩
      exact ⟨by simpa using h1, h2, ⟨h3, by simp⟩, h4⟩

def msgOccs (msgName : Name) (rs : List (Span × ExtStmt)) : List Occ := rs.flatMap (fun r => rangeOccs msgName r.2)

theorem declRanges_syms (msgName : Name) (rs : List (Span × ExtStmt)) (syms : Syms) :
    (declRanges msgName rs syms).2 = (addAll syms (msgOccs msgName rs)).2 := by
  induction rs generalizing syms with
  | nil => simp [declRanges, msgOccs, addAll]
  | cons r rest ih =>
    obtain ⟨sp, st⟩ := r
    simp only [declRanges, ih, declRange_syms, msgOccs, List.flatMap_cons, addAll_append]

theorem declRanges_nil (msgName : Name) (rs : List (Span × ExtStmt)) (syms : Syms) :
    (declRanges msgName rs syms).1 = [] ↔
      (∀ r ∈ rs, RangeOk r.1 r.2) ∧ (addAll syms (msgOccs msgName rs)).1 = false := by
  induction rs generalizing syms with
  | nil => simp [declRanges, msgOccs, addAll]
  | cons r rest ih =>
    obtain ⟨sp, st⟩ := r
    simp only [declRanges, List.append_eq_nil_iff, declRange_nil, ih, declRange_syms, msgOccs,
      List.flatMap_cons, addAll_append, Bool.or_eq_false_iff, List.mem_cons, forall_eq_or_imp]
    constructor
    · rintro ⟨⟨h1, h2⟩, h3, h4⟩; exact ⟨⟨h1, h3⟩, h2, h4⟩
    · rintro ⟨⟨h1, h3⟩, h2, h4⟩; exact ⟨⟨h1, h2⟩, h3, h4⟩

/-! ## messages of a file -/

/-- a message is fine apart from the symbol table -/
def MsgLocalOk (fs : Files) (f : File) (m : Message) : Prop :=
  (∀ r ∈ m.ranges, RangeOk r.1 r.2) ∧
  (∀ fl ∈ m.fields, fieldCoreErrs fs f fl.view = []) ∧
  (∀ fl ∈ m.fields, nestedErrs fs f fl = [])

/-- all AddExtensionDeclaration calls of the messages `ms`, numbered from `j` -/
def msgsOccs (file : Nat) : Nat → List Message → List Occ
  | _, [] => []
  | j, m :: rest => msgOccs (msgFullName ⟨file, j⟩) m.ranges ++ msgsOccs file (j + 1) rest

theorem messagesErrs_nil (fs : Files) (file : Nat) (f : File) (j : Nat) (ms : List Message) (syms : Syms) :
    messagesErrs fs file f j ms syms = [] ↔
      (∀ m ∈ ms, MsgLocalOk fs f m) ∧ (addAll syms (msgsOccs file j ms)).1 = false := by
  induction ms generalizing j syms with
  | nil => simp [messagesErrs, msgsOccs, addAll]
  | cons m rest ih =>
    simp only [messagesErrs, messageErrs, List.append_eq_nil_iff, declRanges_nil, declRanges_syms, ih,
      msgsOccs, addAll_append, Bool.or_eq_false_iff, List.mem_cons, forall_eq_or_imp, MsgLocalOk,
      List.flatMap_eq_nil_iff]
    constructor
    · rintro ⟨⟨⟨⟨h1, h2⟩, h3⟩, h4⟩, h5, h6⟩; exact ⟨⟨⟨h1, h3, h4⟩, h5⟩, h2, h6⟩
    · rintro ⟨⟨⟨h1, h3, h4⟩, h5⟩, h2, h6⟩; exact ⟨⟨⟨⟨h1, h2⟩, h3⟩, h4⟩, h5, h6⟩

/-! ## the first-entry-wins table is exact: no call fails iff the calls are pairwise consistent -/

def Consistent (l : List Occ) : Prop := ∀ a ∈ l, ∀ b ∈ l, a.1 = b.1 → a.2 = b.2

theorem symLookup_append_single (s : Syms) (n : Name) (v : Name × Int) (m : Name) :
    symLookup (s ++ [(n, v)]) m =
      match symLookup s m with
      | some w => some w
      | none => if n = m then some v else none := by
  unfold symLookup
  rw [List.find?_append]
  cases h : s.find? (fun e => e.1 == m) with
  | some e => simp
  | none =>
    by_cases hn : n = m
    · simp [hn]
    · simp [hn]

theorem addAll_ok_iff (s : Syms) (l : List Occ) :
    (addAll s l).1 = false ↔
      (∀ a ∈ l, ∀ v, symLookup s a.1 = some v → v = a.2) ∧ Consistent l := by
  induction l generalizing s with
  | nil => simp [addAll, Consistent]
  | cons o rest ih =>
    obtain ⟨n, e, t⟩ := o
    simp only [addAll, addDecl]
    cases hl : symLookup s n with
    | some v =>
      obtain ⟨e', t'⟩ := v
      by_cases heq : (e' == e && t' == t) = true
      · have he : e' = e ∧ t' = t := by simpa using heq
        obtain ⟨rfl, rfl⟩ := he
        simp only [heq, if_true, List.isEmpty_nil, Bool.not_true, Bool.false_or, ih]
        constructor
        · rintro ⟨h1, h2⟩
          refine ⟨?_, ?_⟩
          · intro a ha v hv
            rcases List.mem_cons.mp ha with rfl | ha
            · simp only at hv; rw [hl] at hv; exact (Option.some.inj hv).symm
            · exact h1 a ha v hv
          · intro a ha b hb hab
            rcases List.mem_cons.mp ha with rfl | ha <;> rcases List.mem_cons.mp hb with rfl | hb
            · rfl
            · simp only at hab
              exact (h1 b hb (e', t') (by rw [← hab]; exact hl))
            · simp only at hab
              exact (h1 a ha (e', t') (by rw [hab]; exact hl)).symm
            · exact h2 a ha b hb hab
        · rintro ⟨h1, h2⟩
          exact ⟨fun a ha v hv => h1 a (List.mem_cons_of_mem _ ha) v hv,
                 fun a ha b hb hab => h2 a (List.mem_cons_of_mem _ ha) b (List.mem_cons_of_mem _ hb) hab⟩
      · simp only [heq, Bool.false_eq_true, if_false, List.isEmpty_cons, Bool.not_false, Bool.true_or,
          Bool.true_eq_false, false_iff, not_and]
        intro h1
        have := h1 (n, e, t) (List.mem_cons_self) (e', t') hl
        simp only [Prod.mk.injEq] at this
        exact absurd (by simp [this.1, this.2]) heq
    | none =>
      simp only [List.isEmpty_nil, Bool.not_true, Bool.false_or, ih]
      constructor
      · rintro ⟨h1, h2⟩
        have hs : ∀ a ∈ rest, (∀ v, symLookup s a.1 = some v → v = a.2) ∧ (a.1 = n → a.2 = (e, t)) := by
          intro a ha
          have h := h1 a ha
          rw [symLookup_append_single] at h
          constructor
          · intro v hv; simpa [hv] using h v
          · intro han
            have hnone : symLookup s a.1 = none := by rw [han]; exact hl
            have h3 := h (e, t) (by rw [hnone]; simp [han])
            exact h3.symm
        refine ⟨?_, ?_⟩
        · intro a ha v hv
          rcases List.mem_cons.mp ha with rfl | ha
          · simp only at hv; rw [hl] at hv; cases hv
          · exact (hs a ha).1 v hv
        · intro a ha b hb hab
          rcases List.mem_cons.mp ha with rfl | ha <;> rcases List.mem_cons.mp hb with rfl | hb
          · rfl
          · exact ((hs b hb).2 hab.symm).symm
          · exact (hs a ha).2 hab
          · exact h2 a ha b hb hab
      · rintro ⟨h1, h2⟩
        refine ⟨?_, fun a ha b hb hab => h2 a (List.mem_cons_of_mem _ ha) b (List.mem_cons_of_mem _ hb) hab⟩
        intro a ha v hv
        rw [symLookup_append_single] at hv
        cases hla : symLookup s a.1 with
        | some w =>
          rw [hla] at hv
          simp only [Option.some.injEq] at hv
          subst hv
          exact h1 a (List.mem_cons_of_mem _ ha) w hla
        | none =>
          rw [hla] at hv
          simp only at hv
          by_cases han : n = a.1
          · simp only [han, if_true, Option.some.injEq] at hv
            subst hv
            exact h2 (n, e, t) List.mem_cons_self a (List.mem_cons_of_mem _ ha) han
          · simp [han] at hv

theorem addAll_nil_ok_iff (l : List Occ) : (addAll [] l).1 = false ↔ Consistent l := by
  rw [addAll_ok_iff]
  simp [symLookup]

/-! ## extensions, file, outcomes -/

theorem truncPanic_nil (l : List Err) : truncPanic l = [] ↔ l = [] := by
  cases l with
  | nil => simp [truncPanic]
  | cons e rest => simp only [truncPanic]; split <;> simp

theorem extsErrs_nil (fs : Files) (file : Nat) (f : File) (n : Nat) (xs : List Ext) :
    extsErrs fs file f n xs = [] ↔
      ∀ p ∈ xs.zipIdx n, fieldCoreErrs fs f p.1.view = [] ∧ extErrs fs file f p.2 p.1 = [] := by
  induction xs generalizing n with
  | nil => simp [extsErrs]
  | cons x rest ih =>
    simp only [extsErrs, List.append_eq_nil_iff, ih, List.zipIdx_cons, List.mem_cons, forall_eq_or_imp]

/-- what it takes for file number `i` to compile -/
def FileGood (fs : Files) (i : Nat) (f : File) : Prop :=
  parsePre f = false ∧ (∀ k ∈ f.imports, k < i) ∧ linkPre fs f = false ∧ fileErrs fs i f = []

theorem importBad_all (done : List Outcome) (hd : done.all Outcome.isOk = true) (l : List Nat) :
    l.any (importBad done) = false ↔ ∀ k ∈ l, k < done.length := by
  rw [List.any_eq_false]
  constructor
  · intro h k hk
    have := h k hk
    unfold importBad at this
    cases hk' : done[k]? with
    | none => simp [hk'] at this
    | some o => exact (List.getElem?_eq_some_iff.mp hk').1
  · intro h k hk
    have hlt := h k hk
    have hok : done[k].isOk = true := (List.all_eq_true.mp hd) _ (List.getElem_mem hlt)
    unfold importBad
    rw [List.getElem?_eq_getElem hlt]
    simp [hok]

theorem fileOutcome_isOk (fs : Files) (done : List Outcome) (f : File) (hd : done.all Outcome.isOk = true) :
    (fileOutcome fs done f).isOk = true ↔ FileGood fs done.length f := by
  unfold fileOutcome FileGood
  by_cases h1 : parsePre f = true
  · rw [if_pos h1]; simp [Outcome.isOk, h1]
  · rw [if_neg h1]
    have h1' : parsePre f = false := by simpa using h1
    by_cases h2 : f.imports.any (importBad done) = true
    · rw [if_pos h2]
      have : ¬ ∀ k ∈ f.imports, k < done.length := fun hh => by
        rw [(importBad_all done hd f.imports).mpr hh] at h2; exact absurd h2 (by simp)
      simp [Outcome.isOk, this]
    · rw [if_neg h2]
      have h2' := (importBad_all done hd f.imports).mp (by simpa using h2)
      by_cases h3 : linkPre fs f = true
      · rw [if_pos h3]; simp [Outcome.isOk, h3]
      · rw [if_neg h3]
        have h3' : linkPre fs f = false := by simpa using h3
        cases he : fileErrs fs done.length f with
        | nil => simp [Outcome.isOk, h1', h3']; exact h2'
        | cons e rest =>
          simp only [reduceCtorEq, and_false, iff_false]
          split <;> simp [Outcome.isOk]

theorem outcomesAux_allOk (fs : Files) (done : List Outcome) (rest : List File) :
    (outcomesAux fs done rest).all Outcome.isOk = true ↔
      done.all Outcome.isOk = true ∧ ∀ j f, rest[j]? = some f → FileGood fs (done.length + j) f := by
  induction rest generalizing done with
  | nil => simp [outcomesAux]
  | cons f rest ih =>
    simp only [outcomesAux, ih, List.all_append, List.all_cons, List.all_nil, Bool.and_true, Bool.and_eq_true,
      List.length_append, List.length_cons, List.length_nil]
    constructor
    · rintro ⟨⟨hd, hf⟩, hrest⟩
      refine ⟨hd, fun j g hj => ?_⟩
      cases j with
      | zero =>
        simp only [List.getElem?_cons_zero, Option.some.injEq] at hj
        subst hj
        exact (fileOutcome_isOk fs done f hd).mp hf
      | succ j =>
        simp only [List.getElem?_cons_succ] at hj
        have := hrest j g hj
        rwa [show done.length + (0 + 1) + j = done.length + (j + 1) by omega] at this
    · rintro ⟨hd, hall⟩
      refine ⟨⟨hd, (fileOutcome_isOk fs done f hd).mpr (hall 0 f (by simp))⟩, fun j g hj => ?_⟩
      have := hall (j + 1) g (by simpa using hj)
      rwa [show done.length + (0 + 1) + j = done.length + (j + 1) by omega]

theorem verdictOf_ok (os : List Outcome) : verdictOf os = .ok ↔ os.all Outcome.isOk = true := by
  induction os with
  | nil => simp [verdictOf]
  | cons o rest ih =>
    cases o with
    | ok => simp [verdictOf, ih, Outcome.isOk]
    | dep => simp [verdictOf, Outcome.isOk]
    | pre => simp [verdictOf, Outcome.isOk]
    | crash => simp [verdictOf, Outcome.isOk]
    | errs l => cases l <;> simp [verdictOf, Outcome.isOk]

/-- the compile of the whole set succeeds iff every file is good -/
theorem validate_ok_iff (fs : Files) :
    validate fs = .ok ↔ ∀ i f, fs[i]? = some f → FileGood fs i f := by
  unfold validate outcomes
  rw [verdictOf_ok, outcomesAux_allOk]
  simp

theorem fileErrs_nil (fs : Files) (i : Nat) (f : File) :
    fileErrs fs i f = [] ↔
      validateFileErrs fs f = [] ∧
      ((∀ m ∈ f.msgs, MsgLocalOk fs f m) ∧ (addAll [] (msgsOccs i 0 f.msgs)).1 = false) ∧
      (∀ p ∈ f.exts.zipIdx, fieldCoreErrs fs f p.1.view = [] ∧ extErrs fs i f p.2 p.1 = []) := by
  unfold fileErrs fileErrsRaw
  rw [truncPanic_nil]
  simp only [List.append_eq_nil_iff, messagesErrs_nil, extsErrs_nil, and_assoc]

end PCV.OptValidate
