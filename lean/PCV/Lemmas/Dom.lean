/-
Lemmas about the dom model (`PCV.Model.Dom`): what `print` writes.

* `printList_nonWs`: for doms without `Unindent` and with whitespace-only indentation strings,
  the non-whitespace bytes of the output are the non-whitespace bytes of the rendered text tags,
  in order (`liveList` names the tags `print` visits).
* layout keeps the shape of the dom (`alwaysTextL_layout`, `noUnindentL_layout`, …).
-/
import PCV.Model.Dom
namespace PCV.Dom

def isWs (b : UInt8) : Bool := b == 32 || b == 10 || b == 9
def nonWs (s : Bytes) : Bytes := s.filter (fun b => !isWs b)

@[simp] theorem nonWs_append (a b : Bytes) : nonWs (a ++ b) = nonWs a ++ nonWs b := by simp [nonWs]
@[simp] theorem nonWs_nil : nonWs [] = [] := rfl

theorem nonWs_of_all_ws (s : Bytes) (h : s.all isWs = true) : nonWs s = [] := by
  induction s with
  | nil => rfl
  | cons b bs ih =>
    simp only [List.all_cons, Bool.and_eq_true] at h
    have := ih h.2
    simp only [nonWs] at this ⊢
    simp [h.1, this]

theorem nonWs_replicate_nl (n : Nat) : nonWs (List.replicate n 10) = [] :=
  nonWs_of_all_ws _ (by simp [isWs])

theorem nonWs_replicate_sp (n : Nat) : nonWs (List.replicate n 32) = [] :=
  nonWs_of_all_ws _ (by simp [isWs])

/-! ### the text tags `print` visits -/

mutual
def liveTag : Cond → LTag → Bytes
  | cond, .text c s _ _ _ => if renderIf c cond then s else []
  | cond, .group c _ _ _ br kids =>
    if renderIf c cond then liveList (if br then .broken else .flat) kids else []
  | cond, .indent _ _ _ _ kids => liveList cond kids
  | cond, .unindent _ _ _ kids => liveList cond kids
def liveList : Cond → List LTag → Bytes
  | _, [] => []
  | cond, t :: ts => liveTag cond t ++ liveList cond ts
end

mutual
def noUnindentT : LTag → Bool
  | .text .. => true
  | .group _ _ _ _ _ kids => noUnindentL kids
  | .indent _ _ _ _ kids => noUnindentL kids
  | .unindent .. => false
def noUnindentL : List LTag → Bool
  | [] => true
  | t :: ts => noUnindentT t && noUnindentL ts
end

mutual
def wsIndentT : LTag → Bool
  | .text .. => true
  | .group _ _ _ _ _ kids => wsIndentL kids
  | .indent by_ _ _ _ kids => by_.all isWs && wsIndentL kids
  | .unindent _ _ _ kids => wsIndentL kids
def wsIndentL : List LTag → Bool
  | [] => true
  | t :: ts => wsIndentT t && wsIndentL ts
end

theorem kindOf_space_all (s : Bytes) (h : kindOf s = .space) : s.all isWs = true := by
  unfold kindOf at h
  split at h
  · next h1 =>
    rw [List.all_eq_true] at h1 ⊢
    intro b hb; have := h1 b hb; simp only [beq_iff_eq] at this; subst this; rfl
  · split at h <;> cases h

theorem kindOf_brk_all (s : Bytes) (h : kindOf s = .brk) : s.all isWs = true := by
  unfold kindOf at h
  split at h
  · cases h
  · split at h
    · next h1 =>
      rw [List.all_eq_true] at h1 ⊢
      intro b hb; have := h1 b hb; simp only [beq_iff_eq] at this; subst this; rfl
    · cases h

theorem writeText_nonWs (p : PSt) (data : Bytes) (hi : p.indent.all isWs = true) :
    nonWs (writeText p data).out = nonWs p.out ++ nonWs data := by
  unfold writeText
  split <;> simp [nonWs_replicate_nl, nonWs_replicate_sp, nonWs_of_all_ws _ hi]


mutual
theorem printTag_nonWs : ∀ (cond : Cond) (p : PSt) (t : LTag), noUnindentT t = true → wsIndentT t = true →
    p.panic = none → p.indent.all isWs = true →
    (printTag cond p t).panic = none ∧ (printTag cond p t).indent = p.indent ∧
      nonWs (printTag cond p t).out = nonWs p.out ++ nonWs (liveTag cond t)
  | cond, p, .text c s w col br, _, _, hp, hi => by
    have hp' : p.panic.isSome = false := by simp [hp]
    simp only [printTag, hp', Bool.false_eq_true, if_false, liveTag]
    by_cases hr : renderIf c cond = true
    · simp only [hr, Bool.not_true, Bool.false_eq_true, if_false, if_true]
      cases hk : kindOf s with
      | text =>
        simp only []
        refine ⟨by simp [writeText, hp], by simp [writeText], writeText_nonWs p s hi⟩
      | space => simp [nonWs_of_all_ws s (kindOf_space_all s hk), hp]
      | brk => simp [nonWs_of_all_ws s (kindOf_brk_all s hk), hp]
    · simp [hr, hp]
  | cond, p, .group c limit w col br kids, hn, hw, hp, hi => by
    have hp' : p.panic.isSome = false := by simp [hp]
    simp only [printTag, hp', Bool.false_eq_true, if_false, liveTag]
    by_cases hr : renderIf c cond = true
    · simp only [hr, Bool.not_true, Bool.false_eq_true, if_false, if_true]
      exact printList_nonWs _ p kids (by simpa [noUnindentT] using hn) (by simpa [wsIndentT] using hw) hp hi
    · simp [hr, hp]
  | cond, p, .indent by_ w col br kids, hn, hw, hp, hi => by
    simp only [wsIndentT, Bool.and_eq_true] at hw
    have ih := printList_nonWs cond { p with indent := p.indent ++ by_, indents := p.indents ++ [by_] } kids
      (by simpa [noUnindentT] using hn) hw.2 hp (by simp [List.all_append, hi, hw.1])
    have hp' : p.panic.isSome = false := by simp [hp]
    simp only [printTag, hp', Bool.false_eq_true, if_false, liveTag]
    rw [if_neg (by simp [ih.1])]
    exact ⟨ih.1, rfl, ih.2.2⟩
  | cond, p, .unindent w col br kids, hn, _, _, _ => by simp [noUnindentT] at hn
theorem printList_nonWs : ∀ (cond : Cond) (p : PSt) (ts : List LTag), noUnindentL ts = true → wsIndentL ts = true →
    p.panic = none → p.indent.all isWs = true →
    (printList cond p ts).panic = none ∧ (printList cond p ts).indent = p.indent ∧
      nonWs (printList cond p ts).out = nonWs p.out ++ nonWs (liveList cond ts)
  | cond, p, [], _, _, hp, _ => by simp [printList, liveList, hp]
  | cond, p, t :: ts, hn, hw, hp, hi => by
    simp only [noUnindentL, Bool.and_eq_true] at hn
    simp only [wsIndentL, Bool.and_eq_true] at hw
    have h1 := printTag_nonWs cond p t hn.1 hw.1 hp hi
    have h2 := printList_nonWs cond (printTag cond p t) ts hn.2 hw.2 h1.1 (by rw [h1.2.1]; exact hi)
    simp only [printList, liveList]
    refine ⟨h2.1, by rw [h2.2.1, h1.2.1], ?_⟩
    rw [h2.2.2, h1.2.2]; simp
end


/-! ### layout keeps the shape of the dom -/

mutual
def eraseT : LTag → Tag
  | .text c s _ _ _ => .text c s
  | .group c limit _ _ _ kids => .group c limit (eraseL kids)
  | .indent by_ _ _ _ kids => .indent by_ (eraseL kids)
  | .unindent _ _ _ kids => .unindent (eraseL kids)
def eraseL : List LTag → List Tag
  | [] => []
  | t :: ts => eraseT t :: eraseL ts
end

mutual
theorem eraseT_flat (tab : Nat) : ∀ (prev : Prev) (total : Int) (broken : Bool) (t : Tag),
    eraseT (flatTag tab prev total broken t).2.2.2 = t
  | prev, total, broken, .text c s => by
    simp [flatTag, eraseT]
  | prev, total, broken, .group c limit kids => by
    simp only [flatTag]
    split <;> simp [eraseT, eraseL_flat tab prev 0 false kids]
  | prev, total, broken, .indent by_ kids => by
    simp [flatTag, eraseT, eraseL_flat tab prev 0 false kids]
  | prev, total, broken, .unindent kids => by
    simp [flatTag, eraseT, eraseL_flat tab prev 0 false kids]
theorem eraseL_flat (tab : Nat) : ∀ (prev : Prev) (total : Int) (broken : Bool) (ts : List Tag),
    eraseL (flatList tab prev total broken ts).2.2.2 = ts
  | _, _, _, [] => by simp [flatList, eraseL]
  | prev, total, broken, t :: ts => by
    simp only [flatList, eraseL]
    rw [eraseT_flat tab prev total broken t, eraseL_flat tab _ _ _ ts]
end

mutual
theorem eraseT_broken (o : Options) : ∀ (st : BSt) (t : LTag), eraseT (brokenTag o st t).2 = eraseT t
  | st, .text c s w col br => by
    simp only [brokenTag]; split <;> simp [eraseT]
  | st, .group c limit w col br kids => by
    simp only [brokenTag]
    split
    · simp [eraseT]
    · split
      · simp [eraseT]
      · simp [eraseT, eraseL_broken o st kids]
  | st, .indent by_ w col br kids => by
    simp [brokenTag, eraseT, eraseL_broken o _ kids]
  | st, .unindent w col br kids => by
    simp only [brokenTag]
    split <;> simp [eraseT, eraseL_broken o _ kids]
theorem eraseL_broken (o : Options) : ∀ (st : BSt) (ts : List LTag), eraseL (brokenList o st ts).2 = eraseL ts
  | _, [] => by simp [brokenList, eraseL]
  | st, t :: ts => by
    simp only [brokenList, eraseL]
    rw [eraseT_broken o st t, eraseL_broken o _ ts]
end

theorem eraseL_layout (o : Options) (d : List Tag) : eraseL (layout o d) = d := by
  unfold layout
  simp only []
  rw [eraseL_broken, eraseL_flat]


/-! ### predicates on the unannotated dom -/

mutual
def noUnindentTag : Tag → Bool
  | .text .. => true
  | .group _ _ kids => noUnindent kids
  | .indent _ kids => noUnindent kids
  | .unindent _ => false
/-- the dom contains no `Unindent` (the AST printer never builds one) -/
def noUnindent : List Tag → Bool
  | [] => true
  | t :: ts => noUnindentTag t && noUnindent ts
end

mutual
def wsIndentTag : Tag → Bool
  | .text .. => true
  | .group _ _ kids => wsIndent kids
  | .indent by_ kids => by_.all isWs && wsIndent kids
  | .unindent kids => wsIndent kids
/-- every indentation string is whitespace -/
def wsIndent : List Tag → Bool
  | [] => true
  | t :: ts => wsIndentTag t && wsIndent ts
end

mutual
theorem noUnindentT_erase : ∀ (t : LTag), noUnindentT t = noUnindentTag (eraseT t)
  | .text .. => rfl
  | .group _ _ _ _ _ kids => by simp [noUnindentT, eraseT, noUnindentTag, noUnindentL_erase kids]
  | .indent _ _ _ _ kids => by simp [noUnindentT, eraseT, noUnindentTag, noUnindentL_erase kids]
  | .unindent .. => rfl
theorem noUnindentL_erase : ∀ (ts : List LTag), noUnindentL ts = noUnindent (eraseL ts)
  | [] => rfl
  | t :: ts => by simp [noUnindentL, eraseL, noUnindent, noUnindentT_erase t, noUnindentL_erase ts]
end

mutual
theorem wsIndentT_erase : ∀ (t : LTag), wsIndentT t = wsIndentTag (eraseT t)
  | .text .. => rfl
  | .group _ _ _ _ _ kids => by simp [wsIndentT, eraseT, wsIndentTag, wsIndentL_erase kids]
  | .indent _ _ _ _ kids => by simp [wsIndentT, eraseT, wsIndentTag, wsIndentL_erase kids]
  | .unindent _ _ _ kids => by simp [wsIndentT, eraseT, wsIndentTag, wsIndentL_erase kids]
theorem wsIndentL_erase : ∀ (ts : List LTag), wsIndentL ts = wsIndent (eraseL ts)
  | [] => rfl
  | t :: ts => by simp [wsIndentL, eraseL, wsIndent, wsIndentT_erase t, wsIndentL_erase ts]
end

/-- the text tags `render` writes for `d`, in order (which conditional tags are live is decided
    by the layout) -/
def liveText (o : Options) (d : List Tag) : Bytes := liveList .broken (layout o.withDefaults d)

/-- **render_preserves_text**: for a dom without `Unindent` whose indentation strings are
    whitespace, rendering does not panic and the non-whitespace bytes of the output are exactly
    the non-whitespace bytes of the live text tags, in order. -/
theorem render_preserves_text (o : Options) (d : List Tag) (hn : noUnindent d = true)
    (hw : wsIndent d = true) :
    (renderState o d).panic = none ∧ nonWs (render o d) = nonWs (liveText o d) := by
  have h := printList_nonWs .broken PSt.init (layout o.withDefaults d)
    (by rw [noUnindentL_erase, eraseL_layout]; exact hn)
    (by rw [wsIndentL_erase, eraseL_layout]; exact hw) rfl rfl
  refine ⟨h.1, ?_⟩
  have h2 : nonWs (renderState o d).out = nonWs (liveText o d) := by
    have := h.2.2
    simpa [PSt.init, renderState, liveText] using this
  unfold render finish
  split
  · rw [nonWs_append, nonWs_replicate_nl, List.append_nil, h2]
  · split
    · exact h2
    · rw [nonWs_append, h2]; simp [nonWs, isWs]


/-! ### layout facts -/

/-- the broken-group decision of `layoutBroken`, exactly as coded -/
theorem group_broken_decision (o : Options) (st : BSt) (c : Cond) (limit : Nat) (w col : Int) (br : Bool)
    (kids : List LTag) (hr : renderIf c .broken = true) :
    (brokenTag o st (.group c limit w col br kids)).2.brokenFlag
      = (br || decide (st.column + w > (o.maxWidth : Int)) || decide (w > (limit : Int))) := by
  simp only [brokenTag, hr, Bool.not_true, Bool.false_eq_true, if_false]
  split <;> simp [LTag.brokenFlag]

/-- a group that fits is not broken, and is skipped as one unit of its flat width -/
theorem group_fits_stays_flat (o : Options) (st : BSt) (c : Cond) (limit : Nat) (w col : Int)
    (kids : List LTag) (hr : renderIf c .broken = true)
    (h1 : st.column + w ≤ (o.maxWidth : Int)) (h2 : w ≤ (limit : Int)) :
    brokenTag o st (.group c limit w col false kids)
      = ({ st with column := st.column + w }, .group c limit w st.column false kids) := by
  have e1 : decide (st.column + w > (o.maxWidth : Int)) = false := by simp; omega
  have e2 : decide (w > (limit : Int)) = false := by simp; omega
  simp [brokenTag, hr, e1, e2]

-- `broken` only ever goes from false to true along `layoutFlat`
mutual
theorem flatTag_broken_mono (tab : Nat) : ∀ (prev : Prev) (total : Int) (t : Tag),
    (flatTag tab prev total true t).2.2.1 = true
  | prev, total, .text c s => by
    simp only [flatTag, flatText]
    split
    · rfl
    · split <;> simp
  | prev, total, .group c limit kids => by
    simp only [flatTag]; split <;> simp
  | prev, total, .indent by_ kids => by simp [flatTag]
  | prev, total, .unindent kids => by simp [flatTag]
theorem flatList_broken_mono (tab : Nat) : ∀ (prev : Prev) (total : Int) (ts : List Tag),
    (flatList tab prev total true ts).2.2.1 = true
  | _, _, [] => by simp [flatList]
  | prev, total, t :: ts => by
    simp only [flatList]
    rw [flatTag_broken_mono tab prev total t]
    exact flatList_broken_mono tab _ _ ts
end

/-- a text that is not pure whitespace never merges with its predecessor -/
theorem shouldMerge_text (ka : Kind) (la lb : Nat) : shouldMerge ka la .text lb = (true, true) := by
  cases ka <;> rfl

/-- a hard newline inside a flat-rendered, non-whitespace text marks the enclosing level broken -/
theorem flatText_hard_newline (tab : Nat) (prev : Prev) (total : Int) (broken : Bool) (c : Cond) (s : Bytes)
    (hk : kindOf s = .text) (hnl : s.contains 10 = true) (hr : renderIf c .flat = true) :
    (flatText tab prev total broken c s).2.2.1 = true := by
  have hm : (flatMerge prev total .text s.length).2.2 = false := by
    unfold flatMerge
    cases prev with
    | none => rfl
    | some p => obtain ⟨pk, pl, pw⟩ := p; simp [shouldMerge_text]
  have hnl' : (10 : UInt8) ∈ s := by simpa using hnl
  simp [flatText, hk, hm, hr, hnl']

theorem flatList_hard_newline (tab : Nat) (c : Cond) (s : Bytes)
    (hk : kindOf s = .text) (hnl : s.contains 10 = true) (hr : renderIf c .flat = true) :
    ∀ (pre : List Tag) (post : List Tag) (prev : Prev) (total : Int) (broken : Bool),
    (flatList tab prev total broken (pre ++ .text c s :: post)).2.2.1 = true
  | [], post, prev, total, broken => by
    simp only [List.nil_append, flatList, flatTag]
    rw [flatText_hard_newline tab prev total broken c s hk hnl hr]
    exact flatList_broken_mono tab _ _ post
  | t :: pre, post, prev, total, broken => by
    simp only [List.cons_append, flatList]
    exact flatList_hard_newline tab c s hk hnl hr pre post _ _ _

/-- **a hard newline breaks the group that directly contains it** (first pass) -/
theorem group_hard_newline_flat (tab : Nat) (prev : Prev) (total : Int) (broken : Bool) (gc : Cond) (limit : Nat)
    (pre post : List Tag) (c : Cond) (s : Bytes)
    (hk : kindOf s = .text) (hnl : s.contains 10 = true) (hr : renderIf c .flat = true) :
    (flatTag tab prev total broken (.group gc limit (pre ++ .text c s :: post))).2.2.2.brokenFlag = true := by
  have := flatList_hard_newline tab c s hk hnl hr pre post prev 0 false
  simp only [flatTag]
  split <;> simpa [LTag.brokenFlag] using this

/-- the second pass never un-breaks a group -/
theorem brokenTag_group_keeps_broken (o : Options) (st : BSt) (c : Cond) (limit : Nat) (w col : Int)
    (kids : List LTag) :
    (brokenTag o st (.group c limit w col true kids)).2.brokenFlag = true := by
  simp only [brokenTag]
  split <;> simp [LTag.brokenFlag]

end PCV.Dom
