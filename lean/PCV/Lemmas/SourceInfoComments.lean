/-
Comment attribution of the model of sourceinfo/source_code_info.go: every comment of a gap is
attributed exactly once and in order (`attributeAbs_partition`), groups are never empty, and
`combineComments` is the comment stripping that descriptor.proto documents (`combineText_spec`).
-/
import PCV.Model.SourceInfo
import PCV.Spec.SourceInfo
set_option linter.unusedSimpArgs false
namespace PCV.Lemmas.SourceInfoComments
open PCV.SourceInfo

/-! ### groupComments -/

theorem groupGo_flatten (rest : List Cm) : ∀ (cur : List Cm) (p : Bool) (line : Nat),
    (groupGo cur p line rest).flatten = cur ++ rest := by
  induction rest with
  | nil => intro cur p line; simp [groupGo]
  | cons c rest ih =>
    intro cur p line
    simp only [groupGo]
    split
    · simp [ih]
    · simp [ih]

theorem groupComments_flatten (cs : List Cm) : (groupComments cs).flatten = cs := by
  cases cs with
  | nil => rfl
  | cons c rest => simp [groupComments, groupGo_flatten]

theorem groupGo_nonempty (rest : List Cm) : ∀ (cur : List Cm) (p : Bool) (line : Nat), cur ≠ [] →
    ∀ g ∈ groupGo cur p line rest, g ≠ [] := by
  induction rest with
  | nil => intro cur p line hc g hg; simp [groupGo] at hg; subst hg; exact hc
  | cons c rest ih =>
    intro cur p line hc g hg
    simp only [groupGo] at hg
    split at hg
    · simp only [List.mem_cons] at hg
      rcases hg with h | h
      · subst h; exact hc
      · exact ih [c] _ _ (by simp) g h
    · exact ih (cur ++ [c]) _ _ (by simp) g hg

theorem groupComments_nonempty (cs : List Cm) : ∀ g ∈ groupComments cs, g ≠ [] := by
  cases cs with
  | nil => intro g hg; simp [groupComments] at hg
  | cons c rest => exact groupGo_nonempty rest [c] _ _ (by simp)

/-! ### maybeDonate / maybeAttach keep every comment, in order -/

theorem maybeDonate_partition (ec : Bool) (pEnd nStart : Nat) (tk : TK) (lead : List (List Cm)) :
    (maybeDonate ec pEnd nStart tk lead).1 ++ (maybeDonate ec pEnd nStart tk lead).2.flatten = lead.flatten := by
  unfold maybeDonate
  cases lead with
  | nil => rfl
  | cons g gs =>
    simp only
    split
    · simp
    · split
      · simp
      · have hgs : gs = [] := by
          rename_i h; cases gs with
          | nil => rfl
          | cons a b => simp at h
        subst hgs
        split
        · simp
        · split
          · split <;> simp
          · simp

theorem dropLast_getLast_flatten (l : List (List Cm)) (h : l ≠ []) :
    l.dropLast.flatten ++ l.getLast?.getD [] = l.flatten := by
  obtain ⟨x, hx⟩ : ∃ x, l.getLast? = some x := by
    cases hl : l.getLast? with
    | none => simp [List.getLast?_eq_none_iff] at hl; exact absurd hl h
    | some x => exact ⟨x, rfl⟩
  obtain ⟨ys, rfl⟩ := List.getLast?_eq_some_iff.mp hx
  simp

theorem maybeAttach_partition (hasPrev : Bool) (pEnd nStart : Nat) (hasTrail : Bool) (lead : List (List Cm)) :
    (maybeAttach hasPrev pEnd nStart hasTrail lead).1.flatten ++ (maybeAttach hasPrev pEnd nStart hasTrail lead).2
      = lead.flatten := by
  unfold maybeAttach
  cases lead with
  | nil => rfl
  | cons g gs =>
    simp only
    split
    · simp
    · split
      · exact dropLast_getLast_flatten (g :: gs) (by simp)
      · simp

/-- **Partition.** `attributeComments` attributes every comment standing between two tokens exactly
    once and in order: trailing of the previous token, then the detached groups, then the leading
    comment of the next token.  (`prev` carries the comments the lexer already gave to the previous
    token; without a previous token there are none.) -/
theorem attributeAbs_partition (ec : Bool) (prev : Option (Nat × List Cm)) (nStart : Nat) (tk : TK)
    (leadLex : List Cm) :
    (attributeAbs ec prev nStart tk leadLex).1 ++ (attributeAbs ec prev nStart tk leadLex).2.1.flatten
      ++ (attributeAbs ec prev nStart tk leadLex).2.2
      = ((prev.map (·.2)).getD []) ++ leadLex := by
  unfold attributeAbs
  simp only
  rw [List.append_assoc, maybeAttach_partition]
  cases prev with
  | none => simp [groupComments_flatten]
  | some p =>
    obtain ⟨pEnd, trailLex⟩ := p
    simp only [Option.map_some, Option.getD_some]
    split
    · rename_i h
      have : trailLex = [] := by simpa using h
      subst this
      simp [maybeDonate_partition, groupComments_flatten]
    · simp [groupComments_flatten]

/-- the groups `maybeDonate` and `maybeAttach` hand out are groups of `groupComments`, hence non-empty -/
theorem attributeAbs_detached_nonempty (ec : Bool) (prev : Option (Nat × List Cm)) (nStart : Nat) (tk : TK)
    (leadLex : List Cm) : ∀ g ∈ (attributeAbs ec prev nStart tk leadLex).2.1, g ≠ [] := by
  have hgrp := groupComments_nonempty leadLex
  have hdon : ∀ pEnd, ∀ g ∈ (maybeDonate ec pEnd nStart tk (groupComments leadLex)).2, g ∈ groupComments leadLex := by
    intro pEnd g hg
    unfold maybeDonate at hg
    cases hl : groupComments leadLex with
    | nil => rw [hl] at hg; simp at hg
    | cons a as =>
      rw [hl] at hg
      simp only at hg
      split at hg
      · exact hg
      · split at hg
        · exact List.mem_cons_of_mem _ hg
        · split at hg
          · simp at hg
          · split at hg
            · split at hg
              · exact hg
              · simp at hg
            · exact hg
  have hatt : ∀ (hp : Bool) (pe : Nat) (ht : Bool) (l : List (List Cm)), (∀ g ∈ l, g ∈ groupComments leadLex) →
      ∀ g ∈ (maybeAttach hp pe nStart ht l).1, g ∈ groupComments leadLex := by
    intro hp pe ht l hl g hg
    unfold maybeAttach at hg
    cases l with
    | nil => simp at hg
    | cons a as =>
      simp only at hg
      split at hg
      · exact hl g hg
      · split at hg
        · exact hl g (List.dropLast_subset _ hg)
        · exact hl g hg
  intro g hg
  unfold attributeAbs at hg
  simp only at hg
  apply hgrp
  apply hatt _ _ _ _ _ g hg
  intro g' hg'
  cases prev with
  | none => exact hg'
  | some p =>
    obtain ⟨pEnd, trailLex⟩ := p
    simp only at hg'
    split at hg'
    · exact hdon pEnd g' hg'
    · exact hg'

end PCV.Lemmas.SourceInfoComments

namespace PCV.Lemmas.SourceInfoComments
open PCV.SourceInfo
open PCV.Spec.SourceInfo (stripBlockGo stripComment isBlank)

/-! ### combineComments = the documented stripping -/

def allBlank (l : Bytes) : Bool := l.all (fun b => b == 32 || b == 9)

theorem dropWhile_nil_iff (p : UInt8 → Bool) (l : Bytes) : l.dropWhile p = [] ↔ l.all p = true := by
  induction l with
  | nil => simp
  | cons a t ih =>
    simp only [List.dropWhile_cons, List.all_cons, Bool.and_eq_true]
    by_cases ha : p a = true
    · simp [ha, ih]
    · simp [ha]

theorem stripLine_allBlank (l : Bytes) (h : allBlank l = true) : stripLine l = [] := by
  unfold stripLine
  have : l.dropWhile (fun b => b == 32 || b == 9) = [] := by
    rw [dropWhile_nil_iff]; exact h
  simp [this]

theorem stripLine_blank_append (l : Bytes) (h : allBlank l = true) (rest : Bytes) :
    stripLine (l ++ rest) = stripLine rest := by
  unfold stripLine
  have : (l ++ rest).dropWhile (fun b => b == 32 || b == 9) = rest.dropWhile (fun b => b == 32 || b == 9) := by
    induction l with
    | nil => rfl
    | cons a t ih =>
      simp only [allBlank, List.all_cons, Bool.and_eq_true] at h
      simp only [List.cons_append, List.dropWhile_cons, h.1, if_true]
      exact ih (by simpa [allBlank] using h.2)
  rw [this]

theorem stripLine_nonblank_append (l : Bytes) (h : allBlank l = false) (b : UInt8) :
    stripLine (l ++ [b]) = stripLine l ++ [b] := by
  unfold stripLine
  have hne : l.dropWhile (fun b => b == 32 || b == 9) ≠ [] := by
    intro hc
    rw [dropWhile_nil_iff] at hc
    have : allBlank l = true := hc
    rw [this] at h; cases h
  have happ : (l ++ [b]).dropWhile (fun b => b == 32 || b == 9) = l.dropWhile (fun b => b == 32 || b == 9) ++ [b] := by
    induction l with
    | nil => simp [allBlank] at h
    | cons a t ih =>
      simp only [List.cons_append, List.dropWhile_cons]
      by_cases ha : (a == 32 || a == 9) = true
      · simp only [ha, if_true]
        apply ih
        · simpa [allBlank, ha] using h
        · simpa [List.dropWhile_cons, ha] using hne
      · simp [ha]
  rw [happ]
  cases hd : l.dropWhile (fun b => b == 32 || b == 9) with
  | nil => exact absurd hd hne
  | cons x xs =>
    simp only [List.cons_append]
    split <;> simp

/-- later lines of a block comment: split-then-strip equals the streaming stripper -/
theorem later_lines (bs : Bytes) : ∀ (cur : Bytes),
    (allBlank cur = true →
      (splitNLGo cur bs).flatMap (fun l => 10 :: stripLine l) = 10 :: stripBlockGo true bs) ∧
    (allBlank cur = false →
      (splitNLGo cur bs).flatMap (fun l => 10 :: stripLine l) = 10 :: (stripLine cur ++ stripBlockGo false bs)) := by
  induction bs with
  | nil =>
    intro cur
    constructor
    · intro h; simp [splitNLGo, stripBlockGo, stripLine_allBlank cur h]
    · intro h; simp [splitNLGo, stripBlockGo]
  | cons b bs ih =>
    intro cur
    by_cases hb : b = 10
    · subst hb
      have hnil := (ih []).1 (by simp [allBlank])
      constructor
      · intro h
        simp [splitNLGo, stripBlockGo, stripLine_allBlank cur h, hnil]
      · intro h
        simp [splitNLGo, stripBlockGo, hnil]
    · have hb' : (b == 10) = false := by simpa using hb
      constructor
      · intro h
        simp only [splitNLGo, hb', Bool.false_eq_true, if_false, stripBlockGo]
        by_cases hbl : isBlank b = true
        · have hcur : allBlank (cur ++ [b]) = true := by
            simp only [isBlank] at hbl
            simp [allBlank, hbl] at h ⊢; exact h
          simp only [if_true, hbl]
          exact (ih (cur ++ [b])).1 hcur
        · have hcur : allBlank (cur ++ [b]) = false := by
            simp only [isBlank] at hbl
            simp only [allBlank, List.all_append, List.all_cons, List.all_nil, Bool.and_true]
            simp only [Bool.not_eq_true] at hbl
            simp [hbl]
          have := (ih (cur ++ [b])).2 hcur
          rw [this, stripLine_blank_append cur h [b]]
          simp only [hbl, Bool.false_eq_true, if_false]
          by_cases hs : b = 42
          · subst hs; simp [stripLine]
          · have hs' : (b == 42) = false := by simpa using hs
            have hbl' : (b == 32 || b == 9) = false := by simpa [isBlank] using hbl
            simp [stripLine, hs', hbl', List.dropWhile_cons]
      · intro h
        have hcur : allBlank (cur ++ [b]) = false := by
          unfold allBlank at h ⊢
          rw [List.all_append, h]; rfl
        simp only [splitNLGo, hb', Bool.false_eq_true, if_false, stripBlockGo]
        rw [(ih (cur ++ [b])).2 hcur, stripLine_nonblank_append cur h b]
        simp

/-- first line: kept as it is -/
theorem first_line (bs : Bytes) : ∀ (cur : Bytes),
    (match splitNLGo cur bs with
     | [] => []
     | first :: rest => first ++ rest.flatMap (fun l => 10 :: stripLine l)) = cur ++ stripBlockGo false bs := by
  induction bs with
  | nil => intro cur; simp [splitNLGo, stripBlockGo]
  | cons b bs ih =>
    intro cur
    by_cases hb : b = 10
    · subst hb
      simp [splitNLGo, stripBlockGo, (later_lines bs []).1 (by simp [allBlank])]
    · have hb' : (b == 10) = false := by simpa using hb
      simp only [splitNLGo, hb', Bool.false_eq_true, if_false, stripBlockGo]
      rw [ih (cur ++ [b])]
      simp

/-- **`combineComments` is the documented stripping**: for every comment text, the model of
    `combineComments` (split the block comment into lines, strip each later line) equals the streaming
    specification `stripComment` (markers removed; on every line but the first, leading blanks and one
    asterisk removed; newlines kept). -/
theorem combineText_spec (txt : Bytes) (nl : Bool) : combineText txt nl = stripComment txt nl := by
  unfold combineText stripComment
  split
  · rfl
  · exact first_line _ []

end PCV.Lemmas.SourceInfoComments
