/-
Lemmas about the pipeline model (PCV.Model.Pipeline) used by C09 / C10:
* `mapE` (list traversal in `Except`);
* the symbol environment a file contributes (`SymEq`) is all that name resolution looks at
  (`searchFile_congr`), and linking does not change it (`link_symEq`);
* whatever `resolve` finds, it finds under its own fully-qualified name
  (`resolve_found_lookup`) — the model counterpart of "a leading-dot name resolves to itself";
* `link_idempotent`.
-/
import PCV.Model.Pipeline
namespace PCV.Pipeline

/-- pointwise relation between two lists (core Lean has no `Forall₂`) -/
inductive All₂ {α β : Type} (R : α → β → Prop) : List α → List β → Prop
  | nil : All₂ R [] []
  | cons {a : α} {b : β} {as : List α} {bs : List β} : R a b → All₂ R as bs → All₂ R (a :: as) (b :: bs)

/-! ### mapE -/

theorem mapE_forall₂ {α β ε : Type} {g : α → Except ε β} :
    ∀ {xs : List α} {ys : List β}, mapE g xs = .ok ys → All₂ (fun x y => g x = .ok y) xs ys := by
  intro xs
  induction xs with
  | nil => intro ys h; simp [mapE] at h; subst h; exact .nil
  | cons x xs ih =>
    intro ys h
    simp only [mapE] at h
    split at h
    · simp at h
    · next y hy =>
      split at h
      · simp at h
      · next ys' hys =>
        simp only [Except.ok.injEq] at h
        subst h
        exact .cons hy (ih hys)

theorem mapE_of_forall₂ {α ε : Type} {g : α → Except ε α} :
    ∀ {xs ys : List α}, All₂ (fun (_ : α) y => g y = .ok y) xs ys → mapE g ys = .ok ys := by
  intro xs ys h
  induction h with
  | nil => rfl
  | cons hy _ ih => simp [mapE, hy, ih]

/-- if every successful `g`-image is a fixpoint of `g'`, a successful `mapE g` output is a
    fixpoint of `mapE g'` -/
theorem mapE_idem {α ε : Type} {g g' : α → Except ε α} {xs ys : List α}
    (h : mapE g xs = .ok ys) (hfix : ∀ x y, g x = .ok y → g' y = .ok y) : mapE g' ys = .ok ys := by
  have := mapE_forall₂ h
  clear h
  apply mapE_of_forall₂ (xs := xs)
  induction this with
  | nil => exact .nil
  | cons hxy _ ih => exact .cons (hfix _ _ hxy) ih

theorem mapE_map_eq {α ε γ : Type} {g : α → Except ε α} (p : α → γ) {xs ys : List α}
    (h : mapE g xs = .ok ys) (hp : ∀ x y, g x = .ok y → p y = p x) : ys.map p = xs.map p := by
  have := mapE_forall₂ h
  clear h
  induction this with
  | nil => rfl
  | cons hxy _ ih => simp [hp _ _ hxy, ih]

/-! ### what name resolution sees of a file -/

structure SymEq (f g : FileD) : Prop where
  path : f.path = g.path
  pkg : f.pkg = g.pkg
  deps : f.deps = g.deps
  pubDeps : f.pubDeps = g.pubDeps
  syms : fileSyms f = fileSyms g

theorem SymEq.refl (f : FileD) : SymEq f f := ⟨rfl, rfl, rfl, rfl, rfl⟩

theorem resolveElementInFile_congr {f g : FileD} (h : SymEq f g) (n : Name) :
    resolveElementInFile n f = resolveElementInFile n g := by
  simp [resolveElementInFile, findSym, h.syms, h.pkg]

theorem findFile_congr {env env' : Env} (he : All₂ SymEq env env') (d : String) :
    (findFile env d = none ∧ findFile env' d = none) ∨
    (∃ g g', findFile env d = some g ∧ findFile env' d = some g' ∧ SymEq g g') := by
  induction he with
  | nil => left; simp [findFile]
  | @cons a b l l' hab _ ih =>
    by_cases hp : (a.path == d) = true
    · right
      refine ⟨a, b, ?_, ?_, hab⟩
      · simp [findFile, hp]
      · have : (b.path == d) = true := by rw [← hab.path]; exact hp
        simp [findFile, this]
    · have hp' : (a.path == d) = false := by simpa using hp
      have hb : (b.path == d) = false := by rw [← hab.path]; exact hp'
      simp only [findFile, List.find?_cons, hp', hb]
      exact ih

theorem searchImportsWith_congr {rec rec' : FileD → Res} {env env' : Env} {f f' : FileD}
    (he : All₂ SymEq env env') (hf : SymEq f f') (pub : Bool)
    (hrec : ∀ g g', SymEq g g' → rec g = rec' g') :
    ∀ (ds : List String) (i : Nat),
      searchImportsWith rec env f pub i ds = searchImportsWith rec' env' f' pub i ds := by
  intro ds
  induction ds with
  | nil => intro i; simp [searchImportsWith]
  | cons d ds ih =>
    intro i
    have hpd : isPublicDep f i = isPublicDep f' i := by simp [isPublicDep, hf.pubDeps]
    rw [searchImportsWith, searchImportsWith, hpd]
    split
    · exact ih (i + 1)
    · rcases findFile_congr he d with ⟨h1, h2⟩ | ⟨g, g', h1, h2, hg⟩
      · rw [h1, h2]; exact ih (i + 1)
      · rw [h1, h2]
        dsimp only
        rw [hrec g g' hg]
        cases rec' g' with
        | none => exact ih (i + 1)
        | sentinel n => rfl
        | found m k => rfl

/-- Name lookup depends on the files only through `SymEq`. -/
theorem searchFile_congr {env env' : Env} (he : All₂ SymEq env env') (n : Name) :
    ∀ (fuel : Nat) (f f' : FileD) (pub : Bool) (checked : List String), SymEq f f' →
      searchFile env n fuel f pub checked = searchFile env' n fuel f' pub checked := by
  intro fuel
  induction fuel with
  | zero => intro f f' pub checked _; simp [searchFile]
  | succ k ih =>
    intro f f' pub checked hf
    simp only [searchFile, hf.path, resolveElementInFile_congr hf n]
    split
    · rfl
    · split
      · rw [hf.deps]
        exact searchImportsWith_congr he hf pub (fun g g' hg => ih g g' true _ hg) _ _
      · rfl

theorem forall₂_length {α β : Type} {R : α → β → Prop} {xs : List α} {ys : List β}
    (h : All₂ R xs ys) : xs.length = ys.length := by
  induction h with
  | nil => rfl
  | cons _ _ ih => simp [ih]

theorem resolveElement_congr {env env' : Env} (he : All₂ SymEq env env') {f f' : FileD}
    (hf : SymEq f f') (n : Name) : resolveElement env f n = resolveElement env' f' n := by
  unfold resolveElement
  rw [forall₂_length he]
  exact searchFile_congr he n _ f f' false [] hf

/-! ### found names are fully qualified -/

theorem resolveElementInFile_found {n m : Name} {f : FileD} {k : Kind}
    (h : resolveElementInFile n f = .found m k) : m = n ∧ findSym f n = some k := by
  unfold resolveElementInFile at h
  split at h
  · next k' hk => simp only [Res.found.injEq] at h; exact ⟨h.1.symm, by rw [hk, h.2]⟩
  · split at h <;> simp at h

theorem searchImportsWith_result {rec : FileD → Res} {env : Env} {f : FileD} {pub : Bool} :
    ∀ (ds : List String) (i : Nat),
      searchImportsWith rec env f pub i ds = .none ∨
      ∃ g, searchImportsWith rec env f pub i ds = rec g := by
  intro ds
  induction ds with
  | nil => intro i; left; simp [searchImportsWith]
  | cons d ds ih =>
    intro i
    simp only [searchImportsWith]
    split
    · exact ih (i + 1)
    · split
      · exact ih (i + 1)
      · next g _ =>
        split
        · exact ih (i + 1)
        · right; exact ⟨g, rfl⟩

theorem searchFile_found {env : Env} {n : Name} :
    ∀ (fuel : Nat) (f : FileD) (pub : Bool) (checked : List String) (m : Name) (k : Kind),
      searchFile env n fuel f pub checked = .found m k → m = n := by
  intro fuel
  induction fuel with
  | zero => intro f pub checked m k h; simp [searchFile] at h
  | succ j ih =>
    intro f pub checked m k h
    simp only [searchFile] at h
    split at h
    · simp at h
    · split at h
      · rcases searchImportsWith_result (rec := fun g => searchFile env n j g true (f.path :: checked))
            (env := env) (f := f) (pub := pub) f.deps 0 with h0 | ⟨g, hg⟩
        · rw [h0] at h; simp at h
        · rw [hg] at h; exact ih g true _ m k h
      · next r hr _ =>
        exact (resolveElementInFile_found h).1

theorem resolveElement_found {env : Env} {f : FileD} {n m : Name} {k : Kind}
    (h : resolveElement env f n = .found m k) : m = n :=
  searchFile_found _ f false [] m k h

theorem resolveElement_of_findSym {env : Env} {f : FileD} {n : Name} {k : Kind}
    (h : findSym f n = some k) : resolveElement env f n = .found n k := by
  simp [resolveElement, searchFile, resolveElementInFile, h]

/-- "whatever is found, is found under its own fully-qualified name" -/
def SelfNamed (env : Env) (f : FileD) (r : Res) : Prop :=
  ∀ m k, r = .found m k → resolveElement env f m = .found m k

theorem selfNamed_none (env : Env) (f : FileD) : SelfNamed env f .none := by
  intro m k h; simp at h

theorem selfNamed_sentinel (env : Env) (f : FileD) (n : Name) : SelfNamed env f (.sentinel n) := by
  intro m k h; simp at h

theorem resolveElementRelative_selfNamed {env : Env} {f : FileD} {query : Name → Res}
    (hq : ∀ x, SelfNamed env f (query x)) (first full : Name) :
    SelfNamed env f (resolveElementRelative first full query) := by
  unfold resolveElementRelative
  split
  · exact selfNamed_none env f
  · next d hd =>
    split
    · exact hq first
    · split
      · exact selfNamed_none env f
      · split
        · exact selfNamed_sentinel env f _
        · exact hq full

theorem resolveElement_selfNamed (env : Env) (f : FileD) (x : Name) :
    SelfNamed env f (resolveElement env f x) := by
  intro m k h
  have := resolveElement_found h
  subst this
  exact h

theorem resolveElementInFile_selfNamed (env : Env) (f : FileD) (x : Name) :
    SelfNamed env f (resolveElementInFile x f) := by
  intro m k h
  obtain ⟨hm, hs⟩ := resolveElementInFile_found h
  subst hm
  exact resolveElement_of_findSym hs

theorem fileScopeAux_selfNamed (env : Env) (f : FileD) (first : String) (full : Name) :
    ∀ ps, SelfNamed env f (fileScopeAux env f first full ps) := by
  intro ps
  induction ps with
  | nil => simp only [fileScopeAux]; exact selfNamed_none env f
  | cons p ps ih =>
    simp only [fileScopeAux]
    have := resolveElementRelative_selfNamed (resolveElement_selfNamed env f) (p ++ [first]) (p ++ full)
    cases hr : resolveElementRelative (p ++ [first]) (p ++ full) (resolveElement env f) with
    | none => exact ih
    | sentinel n => exact selfNamed_sentinel env f n
    | found m k => rw [hr] at this; exact this

theorem messageScope_selfNamed (env : Env) (f : FileD) (msg : Name) (first : String) (full : Name) :
    SelfNamed env f (messageScope f msg first full) :=
  resolveElementRelative_selfNamed (resolveElementInFile_selfNamed env f) _ _

theorem resolveScopes_selfNamed (env : Env) (f : FileD) (ot : Bool) (first : String) (full : Name) :
    ∀ (ss : List Name) (best : Res), SelfNamed env f best →
      SelfNamed env f (resolveScopes env f ot first full best ss) := by
  intro ss
  induction ss with
  | nil =>
    intro best hb
    simp only [resolveScopes]
    have hfs : SelfNamed env f (fileScope env f first full) := fileScopeAux_selfNamed env f first full _
    cases hr : fileScope env f first full with
    | none => exact hb
    | sentinel n =>
      dsimp only
      split
      · exact selfNamed_sentinel env f n
      · split
        · exact selfNamed_sentinel env f n
        · exact hb
    | found m k =>
      rw [hr] at hfs
      dsimp only
      split
      · exact hfs
      · split
        · exact hfs
        · exact hb
  | cons s ss ih =>
    intro best hb
    simp only [resolveScopes]
    have hms := messageScope_selfNamed env f s first full
    cases hr : messageScope f s first full with
    | none => exact ih best hb
    | sentinel n =>
      dsimp only
      split
      · exact selfNamed_sentinel env f n
      · apply ih
        split
        · exact selfNamed_sentinel env f n
        · exact hb
    | found m k =>
      rw [hr] at hms
      dsimp only
      split
      · exact hms
      · apply ih
        split
        · exact hms
        · exact hb

/-- **Leading-dot names resolve to themselves**: if `resolve` finds element `m`, then the
    already-qualified reference `.m` resolves to the same element. -/
theorem resolve_found_lookup {env : Env} {f : FileD} {ref : Ref} {ot : Bool} {scopes : List Name}
    {m : Name} {k : Kind} (h : resolve env f ref ot scopes = .found m k) :
    resolve env f (dotted m) ot scopes = .found m k := by
  have hself : SelfNamed env f (resolve env f ref ot scopes) := by
    unfold resolve
    split
    · exact resolveElement_selfNamed env f _
    · exact selfNamed_none env f
    · exact resolveScopes_selfNamed env f ot _ _ _ _ (selfNamed_none env f)
  simpa [resolve, dotted] using hself m k h

/-! ### link stages are idempotent across `SymEq`-equivalent environments -/

section idem
variable {env env' : Env} {f f' : FileD}

/-- the hypothesis under which the second link runs: same lookups -/
def SameLookup (env env' : Env) (f f' : FileD) : Prop :=
  ∀ n, resolveElement env' f' n = resolveElement env f n

theorem resolve_dotted_same (hR : SameLookup env env' f f') (n : Name) (ot : Bool) (sc : List Name) :
    resolve env' f' (dotted n) ot sc = resolve env f (dotted n) ot sc := by
  simp [resolve, dotted, hR n]

theorem linkExtendee_idem (hR : SameLookup env env' f f') {sc : List Name} {a b : FieldD}
    (h : linkExtendee env f sc a = .ok b) :
    ∀ c : FieldD, c.extendee = b.extendee → linkExtendee env' f' sc c = .ok c := by
  intro c hc
  unfold linkExtendee at h
  split at h
  · next hnone =>
    simp only [Except.ok.injEq] at h; subst h
    simp [linkExtendee, hc, hnone]
  · next e he =>
    split at h
    · next n hn =>
      simp only [Except.ok.injEq] at h; subst h
      simp only at hc
      have h2 := resolve_found_lookup hn
      simp only [linkExtendee, hc, resolve_dotted_same hR, h2]
      cases c; simp_all
    all_goals simp at h

theorem linkExtendee_preserves {sc : List Name} {a b : FieldD} (h : linkExtendee env f sc a = .ok b) :
    b.name = a.name ∧ b.typeName = a.typeName ∧ b.typ = a.typ ∧ b.pendingJson = a.pendingJson ∧
    b.json = a.json ∧ b.nopts = a.nopts := by
  unfold linkExtendee at h
  split at h
  · simp only [Except.ok.injEq] at h; subst h; simp
  · split at h
    · simp only [Except.ok.injEq] at h; subst h; simp
    all_goals simp at h

theorem linkType_idem (hR : SameLookup env env' f f') {sc : List Name} {a b : FieldD}
    (h : linkType env f sc a = .ok b) :
    ∀ c : FieldD, c.typeName = b.typeName → c.typ = b.typ → linkType env' f' sc c = .ok c := by
  intro c hc1 hc2
  unfold linkType at h
  split at h
  · next hnone =>
    simp only [Except.ok.injEq] at h; subst h
    simp [linkType, hc1, hnone]
  · next t ht =>
    split at h
    · next n hn =>
      have h2 := resolve_found_lookup hn
      split at h
      · simp only [Except.ok.injEq] at h; subst h
        simp only at hc1 hc2
        simp only [linkType, hc1, resolve_dotted_same hR, h2, hc2]
        cases c; simp_all
      · split at h
        · next hnz hty =>
          simp only [Except.ok.injEq] at h; subst h
          simp only at hc1 hc2
          simp only [linkType, hc1, resolve_dotted_same hR, h2, hc2]
          cases c; simp_all
        · simp at h
    · next n hn =>
      have h2 := resolve_found_lookup hn
      split at h
      · simp only [Except.ok.injEq] at h; subst h
        simp only at hc1 hc2
        simp only [linkType, hc1, resolve_dotted_same hR, h2, hc2]
        cases c; simp_all
      · split at h
        · next hnz hty =>
          simp only [Except.ok.injEq] at h; subst h
          simp only at hc1 hc2
          simp only [linkType, hc1, resolve_dotted_same hR, h2, hc2]
          cases c; simp_all
        · simp at h
    all_goals simp at h

theorem linkType_preserves {sc : List Name} {a b : FieldD} (h : linkType env f sc a = .ok b) :
    b.name = a.name ∧ b.extendee = a.extendee ∧ b.pendingJson = a.pendingJson ∧
    b.json = a.json ∧ b.nopts = a.nopts := by
  unfold linkType at h
  split at h
  · simp only [Except.ok.injEq] at h; subst h; simp
  · split at h
    · split at h
      · simp only [Except.ok.injEq] at h; subst h; simp
      · split at h
        · simp only [Except.ok.injEq] at h; subst h; simp
        · simp at h
    · split at h
      · simp only [Except.ok.injEq] at h; subst h; simp
      · split at h
        · simp only [Except.ok.injEq] at h; subst h; simp
        · simp at h
    all_goals simp at h

theorem interpretFieldOpts_fields (x : FieldD) :
    (interpretFieldOpts x).name = x.name ∧ (interpretFieldOpts x).extendee = x.extendee ∧
    (interpretFieldOpts x).typeName = x.typeName ∧ (interpretFieldOpts x).typ = x.typ := by
  rcases x with ⟨name, number, label, typ, typeName, extendee, json, pj, oneof, p3opt, nopts⟩
  cases pj <;> simp [interpretFieldOpts]

theorem interpretFieldOpts_idem (x : FieldD) :
    interpretFieldOpts (interpretFieldOpts x) = interpretFieldOpts x := by
  rcases x with ⟨name, number, label, typ, typeName, extendee, json, pj, oneof, p3opt, nopts⟩
  cases pj <;> simp [interpretFieldOpts]

theorem linkField_idem (hR : SameLookup env env' f f') {sc : List Name} {a b : FieldD}
    (h : linkField env f sc a = .ok b) : linkField env' f' sc b = .ok b := by
  unfold linkField at h
  split at h
  · simp at h
  · next a1 h1 =>
    split at h
    · simp at h
    · next a2 h2 =>
      simp only [Except.ok.injEq] at h; subst h
      have hf := interpretFieldOpts_fields a2
      have hp := linkType_preserves h2
      have hE := linkExtendee_idem hR h1 (interpretFieldOpts a2) (by rw [hf.2.1, hp.2.1])
      have hT := linkType_idem hR h2 (interpretFieldOpts a2) hf.2.2.1 hf.2.2.2
      simp [linkField, hE, hT, interpretFieldOpts_idem]

theorem linkField_name {sc : List Name} {a b : FieldD} (h : linkField env f sc a = .ok b) :
    b.name = a.name := by
  unfold linkField at h
  split at h
  · simp at h
  · next a1 h1 =>
    split at h
    · simp at h
    · next a2 h2 =>
      simp only [Except.ok.injEq] at h; subst h
      rw [(interpretFieldOpts_fields a2).1, (linkType_preserves h2).1, (linkExtendee_preserves h1).1]

@[simp] theorem clearEnumOpts_clear (e : EnumD) : clearEnumOpts (clearEnumOpts e) = clearEnumOpts e := by
  simp [clearEnumOpts]

theorem clearEnumOpts_idem (es : List EnumD) :
    (es.map clearEnumOpts).map clearEnumOpts = es.map clearEnumOpts := by
  simp [List.map_map, Function.comp_def, clearEnumOpts]

theorem enumSyms_clear (scope : Name) (e : EnumD) : enumSyms scope (clearEnumOpts e) = enumSyms scope e := by
  simp [enumSyms, clearEnumOpts]

theorem flatMap_enumSyms_clear (scope : Name) (es : List EnumD) :
    (es.map clearEnumOpts).flatMap (enumSyms scope) = es.flatMap (enumSyms scope) := by
  induction es with
  | nil => rfl
  | cons e es ih => simp [List.flatMap_cons, enumSyms_clear, ih]

theorem linkMsg_idem (hR : SameLookup env env' f f') (hpkg : f'.pkg = f.pkg) {a b : MsgD}
    (h : linkMsg env f a = .ok b) : linkMsg env' f' b = .ok b := by
  unfold linkMsg at h
  simp only at h
  split at h
  · simp at h
  · next fs hfs =>
    split at h
    · simp at h
    · next xs hxs =>
      simp only [Except.ok.injEq] at h; subst h
      have h1 := mapE_idem hfs (fun x y hxy => linkField_idem hR hxy)
      have h2 := mapE_idem hxs (fun x y hxy => linkField_idem hR hxy)
      simp [linkMsg, hpkg, h1, h2]

theorem linkMsg_syms (pkg : Name) {a b : MsgD} (h : linkMsg env f a = .ok b) :
    msgSyms pkg b = msgSyms pkg a := by
  unfold linkMsg at h
  simp only at h
  split at h
  · simp at h
  · next fs hfs =>
    split at h
    · simp at h
    · next xs hxs =>
      simp only [Except.ok.injEq] at h; subst h
      have h1 := mapE_map_eq (fun x : FieldD => x.name) hfs (fun x y hxy => linkField_name hxy)
      have h2 := mapE_map_eq (fun x : FieldD => x.name) hxs (fun x y hxy => linkField_name hxy)
      have e1 : ∀ fq : Name, fs.map (fun f => (fq ++ [f.name], Kind.leaf)) = a.fields.map (fun f => (fq ++ [f.name], Kind.leaf)) := by
        intro fq
        have := congrArg (List.map (fun s : String => (fq ++ [s], Kind.leaf))) h1
        simpa [List.map_map, Function.comp_def] using this
      have e2 : ∀ fq : Name, xs.map (fun f => (fq ++ [f.name], Kind.leaf)) = a.exts.map (fun f => (fq ++ [f.name], Kind.leaf)) := by
        intro fq
        have := congrArg (List.map (fun s : String => (fq ++ [s], Kind.leaf))) h2
        simpa [List.map_map, Function.comp_def] using this
      unfold msgSyms
      dsimp only
      rw [e1 (pkg ++ a.path), e2 (pkg ++ a.path), flatMap_enumSyms_clear]

theorem linkMsgRef_idem (hR : SameLookup env env' f f') {sc : List Name} {a b : Ref}
    (h : linkMsgRef env f sc a = .ok b) : linkMsgRef env' f' sc b = .ok b := by
  unfold linkMsgRef at h
  split at h
  · next n hn =>
    simp only [Except.ok.injEq] at h; subst h
    have h2 := resolve_found_lookup hn
    simp [linkMsgRef, resolve_dotted_same hR, h2]
  · simp at h

theorem linkMethod_idem (hR : SameLookup env env' f f') (hpkg : f'.pkg = f.pkg) {svc : String} {a b : MethodD}
    (h : linkMethod env f svc a = .ok b) : linkMethod env' f' svc b = .ok b := by
  unfold linkMethod at h
  simp only at h
  split at h
  · simp at h
  · next i hi =>
    split at h
    · simp at h
    · next o ho =>
      simp only [Except.ok.injEq] at h; subst h
      simp [linkMethod, hpkg, linkMsgRef_idem hR hi, linkMsgRef_idem hR ho]

theorem linkMethod_name {svc : String} {a b : MethodD} (h : linkMethod env f svc a = .ok b) :
    b.name = a.name := by
  unfold linkMethod at h
  simp only at h
  split at h
  · simp at h
  · split at h
    · simp at h
    · simp only [Except.ok.injEq] at h; subst h; rfl

theorem linkSvc_idem (hR : SameLookup env env' f f') (hpkg : f'.pkg = f.pkg) {a b : SvcD}
    (h : linkSvc env f a = .ok b) : linkSvc env' f' b = .ok b := by
  unfold linkSvc at h
  split at h
  · simp at h
  · next ms hms =>
    simp only [Except.ok.injEq] at h; subst h
    have := mapE_idem hms (fun x y hxy => linkMethod_idem hR hpkg (svc := a.name) hxy)
    simp [linkSvc, this]

theorem linkSvc_syms (pkg : Name) {a b : SvcD} (h : linkSvc env f a = .ok b) :
    svcSyms pkg b = svcSyms pkg a := by
  unfold linkSvc at h
  split at h
  · simp at h
  · next ms hms =>
    simp only [Except.ok.injEq] at h; subst h
    have h1 := mapE_map_eq (fun x : MethodD => x.name) hms (fun x y hxy => linkMethod_name hxy)
    have e1 : ms.map (fun m => (pkg ++ [a.name, m.name], Kind.leaf)) = a.methods.map (fun m => (pkg ++ [a.name, m.name], Kind.leaf)) := by
      have := congrArg (List.map (fun s : String => (pkg ++ [a.name, s], Kind.leaf))) h1
      simpa [List.map_map, Function.comp_def] using this
    simp [svcSyms, e1]

end idem

theorem flatMap_congr_forall₂ {α β : Type} {p : α → List β} {g : α → Except String α} {xs ys : List α}
    (h : mapE g xs = .ok ys) (hp : ∀ x y, g x = .ok y → p y = p x) : ys.flatMap p = xs.flatMap p := by
  have := mapE_forall₂ h
  clear h
  induction this with
  | nil => rfl
  | cons hxy _ ih => simp [List.flatMap_cons, hp _ _ hxy, ih]

/-- Linking does not change what name resolution sees of the file. -/
theorem link_symEq {env : Env} {d d' : FileD} (h : link env d = .ok d') : SymEq d d' := by
  unfold link at h
  split at h
  · simp at h
  · next ms hms =>
    split at h
    · simp at h
    · next xs hxs =>
      split at h
      · simp at h
      · next ss hss =>
        simp only [Except.ok.injEq] at h; subst h
        refine ⟨rfl, rfl, rfl, rfl, ?_⟩
        have e1 := flatMap_congr_forall₂ (p := msgSyms d.pkg) hms (fun x y hxy => linkMsg_syms d.pkg hxy)
        have e2 := flatMap_congr_forall₂ (p := svcSyms d.pkg) hss (fun x y hxy => linkSvc_syms d.pkg hxy)
        have h3 := mapE_map_eq (fun x : FieldD => x.name) hxs (fun x y hxy => linkField_name hxy)
        have e3 : xs.map (fun x => (d.pkg ++ [x.name], Kind.leaf)) = d.exts.map (fun x => (d.pkg ++ [x.name], Kind.leaf)) := by
          have := congrArg (List.map (fun s : String => (d.pkg ++ [s], Kind.leaf))) h3
          simpa [List.map_map, Function.comp_def] using this
        simp [fileSyms, e1, e2, e3, flatMap_enumSyms_clear]

/-- **Linking is idempotent**: a successfully linked file, linked again in an environment
    that offers the same symbols, is returned unchanged. -/
theorem link_idempotent {env env' : Env} (he : All₂ SymEq env env') {d d' : FileD}
    (h : link env d = .ok d') : link env' d' = .ok d' := by
  have hs := link_symEq h
  have hR : SameLookup env env' d d' := fun n => (resolveElement_congr he hs n).symm
  have hpkg : d'.pkg = d.pkg := hs.pkg.symm
  unfold link at h
  split at h
  · simp at h
  · next ms hms =>
    split at h
    · simp at h
    · next xs hxs =>
      split at h
      · simp at h
      · next ss hss =>
        simp only [Except.ok.injEq] at h; subst h
        have h1 := mapE_idem hms (fun x y hxy => linkMsg_idem hR hpkg hxy)
        have h2 := mapE_idem hxs (fun x y hxy => linkField_idem hR hxy)
        have h3 := mapE_idem hss (fun x y hxy => linkSvc_idem hR hpkg hxy)
        simp [link, h1, h2, h3]

end PCV.Pipeline
