/-
Specifications for the lexer properties, independent of the lexer model.

* C13: `specLine`, `specCol` — the property's own wording (one plus the newlines before the
  offset; one plus the characters since the line start, a tab advancing to the next multiple
  of eight), characters being UTF-8 sequences.
* C14: `protocString`, `protocNumber` — transcription of protoc's tokenizer
  (`io/tokenizer.cc`: `ConsumeString`, `ParseStringAppend`, `ConsumeNumber`, `ParseInteger`,
  `ParseFloat`) restricted to the clauses listed in DESIGN.md 3.4/C14; everything else is
  `unknown` (no claim).
-/
import PCV.Model.Utf8
namespace PCV.Spec.Lex

/-! ### positions (C13) -/

/-- one plus the number of newlines before `off` -/
def specLine (data : List UInt8) (off : Nat) : Nat := 1 + (data.take off).count 10

/-- offset of the first byte of the line containing offset `off`:
    one past the last newline strictly before `off` (0 if none). `acc` is the
    candidate so far, `i` the index of the head of the list. -/
def lineStartGo : Nat → Nat → Nat → List UInt8 → Nat
  | _, acc, _, [] => acc
  | off, acc, i, b :: bs =>
    if i ≥ off then acc
    else lineStartGo off (if b = 10 then i + 1 else acc) (i + 1) bs

def lineStart (data : List UInt8) (off : Nat) : Nat := lineStartGo off 0 0 data

/-- the UTF-8 sequence at the head of `bs`: its length if well-formed, `none` otherwise -/
def charLen (bs : List UInt8) : Option Nat :=
  match bs with
  | [] => none
  | b :: _ =>
    let d := PCV.Utf8.decodeRune bs
    if d.2 = 1 ∧ b.toNat ≥ 0x80 then none else some d.2

/-- Column count (0-based) over the characters of `bs` that start before byte `n`;
    `skip` = bytes of the current character still to pass. `none` = ill-formed UTF-8 met. -/
def colGo : Nat → Nat → Nat → List UInt8 → Option Nat
  | _, col, 0, _ => some col
  | _, col, _, [] => some col
  | s+1, col, n+1, _ :: bs => colGo s col n bs
  | 0, col, n+1, b :: bs =>
    match charLen (b :: bs) with
    | none => none
    | some w => colGo (w - 1) (if b = 9 then col + (8 - col % 8) else col + 1) n bs

/-- one plus the number of characters since the line start, tab to the next multiple of 8 -/
def specCol (data : List UInt8) (off : Nat) : Option Nat :=
  let ls := lineStart data off
  (colGo 0 0 (off - ls) (data.drop ls)).map (· + 1)

/-! ### protoc string literals (C14) -/

inductive PR where
  | accept (v : List UInt8)
  | reject
  | unknown
deriving Repr, DecidableEq

def isOct (b : UInt8) : Bool := 48 ≤ b.toNat && b.toNat ≤ 55
def isDig (b : UInt8) : Bool := 48 ≤ b.toNat && b.toNat ≤ 57
def isHex (b : UInt8) : Bool :=
  isDig b || (97 ≤ b.toNat && b.toNat ≤ 102) || (65 ≤ b.toNat && b.toNat ≤ 70)
def isLetter (b : UInt8) : Bool :=
  (97 ≤ b.toNat && b.toNat ≤ 122) || (65 ≤ b.toNat && b.toNat ≤ 90) || b == 95

def hexVal (b : UInt8) : Nat :=
  if isDig b then b.toNat - 48 else if 97 ≤ b.toNat then b.toNat - 87 else b.toNat - 55

def hexNum (bs : List UInt8) : Nat := bs.foldl (fun a b => a * 16 + hexVal b) 0
def octNum (bs : List UInt8) : Nat := bs.foldl (fun a b => a * 8 + (b.toNat - 48)) 0
def decNum (bs : List UInt8) : Nat := bs.foldl (fun a b => a * 10 + (b.toNat - 48)) 0

/-- the `Escape` character class and the byte each stands for -/
def simpleEsc (b : UInt8) : Option UInt8 :=
  if b = 97 then some 7 else if b = 98 then some 8 else if b = 102 then some 12
  else if b = 110 then some 10 else if b = 114 then some 13 else if b = 116 then some 9
  else if b = 118 then some 11 else if b = 92 then some 92 else if b = 63 then some 63
  else if b = 39 then some 39 else if b = 34 then some 34 else none

def isSurrogate (cp : Nat) : Bool := 0xD800 ≤ cp && cp ≤ 0xDFFF

/-- `ConsumeString` + `ParseStringAppend` after the opening quote `q`.
    `skip` = bytes already consumed by the escape being processed. -/
def pstrGo (q : UInt8) : Nat → List UInt8 → List UInt8 → PR
  | _, [], _ => .reject                                   -- unexpected end of string
  | s+1, _ :: bs, acc => pstrGo q s bs acc
  | 0, c :: bs, acc =>
    if c = 0 ∨ c = 10 then .reject                        -- NUL / raw newline
    else if c = q then (if bs.isEmpty then .accept acc else .unknown)
    else if c = 92 then
      match bs with
      | [] => .reject
      | e :: r =>
        match simpleEsc e with
        | some v => pstrGo q 1 bs (acc ++ [v])
        | none =>
          if isOct e then
            let more := (r.take 2).takeWhile isOct
            let v := octNum (e :: more)
            if v > 255 then .unknown                      -- protoc truncates; not anchored
            else pstrGo q (1 + more.length) bs (acc ++ [UInt8.ofNat v])
          else if e = 120 then
            let ds := (r.take 2).takeWhile isHex
            if ds.isEmpty then .reject                    -- expected hex digits
            else pstrGo q (1 + ds.length) bs (acc ++ [UInt8.ofNat (hexNum ds)])
          else if e = 88 then .unknown                    -- `\X`: not anchored
          else if e = 117 then
            let ds := r.take 4
            if ds.length = 4 ∧ ds.all isHex then
              let cp := hexNum ds
              if isSurrogate cp then .unknown             -- protoc pairs surrogates; not anchored
              else pstrGo q 5 bs (acc ++ PCV.Utf8.encodeRune cp)
            else .reject
          else if e = 85 then
            let ds := r.take 8
            if ds.length = 8 ∧ ds.all isHex ∧ ds.take 2 = [48, 48] ∧ (ds.getD 2 0 = 48 ∨ ds.getD 2 0 = 49) then
              let cp := hexNum ds
              if cp > 0x10FFFF ∨ isSurrogate cp then .unknown
              else pstrGo q 9 bs (acc ++ PCV.Utf8.encodeRune cp)
            else .reject
          else .reject                                    -- invalid escape sequence
    else pstrGo q 0 bs (acc ++ [c])                       -- raw byte, copied verbatim

/-- what protoc does with a source text that should be exactly one string literal -/
def protocString (src : List UInt8) : PR :=
  match src with
  | q :: rest => if q = 34 ∨ q = 39 then pstrGo q 0 rest [] else .unknown
  | [] => .unknown

/-! ### protoc numbers (C14) -/

inductive NR where
  | int (n : Nat)
  /-- a float token, or a decimal integer too large for uint64 (parsed as double):
      mantissa digits and decimal exponent, value = m * 10^e correctly rounded -/
  | float (m : Nat) (e : Int)
  | reject
  | unknown
deriving Repr, DecidableEq

def maxU64 : Nat := 2 ^ 64 - 1

/-- what may follow a number token for the token to be the whole text and valid -/
def numTail (rest : List UInt8) (ok : NR) : NR :=
  match rest with
  | [] => ok
  | c :: _ => if isLetter c ∨ c = 46 then .reject else .unknown   -- another token follows

/-- decimal branch of `ConsumeNumber` after the integer digits `ip` (possibly empty when the
    token started with a dot), on the remaining text -/
def decTail (ip : List UInt8) (startedWithDot : Bool) (rest : List UInt8) : NR :=
  -- fraction
  let (isFloat, frac, rest) : Bool × List UInt8 × List UInt8 :=
    if startedWithDot then (true, rest.takeWhile isDig, rest.dropWhile isDig)
    else match rest with
      | 46 :: r => (true, r.takeWhile isDig, r.dropWhile isDig)
      | _ => (false, [], rest)
  -- exponent
  match rest with
  | c :: r =>
    if c = 101 ∨ c = 69 then
      let (neg, r) : Bool × List UInt8 := match r with
        | 45 :: r' => (true, r')
        | 43 :: r' => (false, r')
        | _ => (false, r)
      let ex := r.takeWhile isDig
      if ex.isEmpty then .reject                     -- "e" must be followed by exponent
      else
        let e : Int := if neg then - (decNum ex : Int) else (decNum ex : Int)
        numTail (r.dropWhile isDig) (.float (decNum (ip ++ frac)) (e - (frac.length : Int)))
    else if isFloat then numTail rest (.float (decNum (ip ++ frac)) (- (frac.length : Int)))
    else numTail rest (let n := decNum ip; if n ≤ maxU64 then .int n else .float n 0)
  | [] =>
    if isFloat then .float (decNum (ip ++ frac)) (- (frac.length : Int))
    else (let n := decNum ip; if n ≤ maxU64 then .int n else .float n 0)

/-- what protoc does with a source text that should be exactly one numeric token
    (as an option value / default value) -/
def protocNumber (src : List UInt8) : NR :=
  match src with
  | [] => .unknown
  | 46 :: rest =>
    (match rest with
     | d :: _ => if isDig d then decTail [] true rest else .unknown
     | [] => .unknown)
  | 48 :: rest =>
    (match rest with
     | x :: r =>
       if x = 120 ∨ x = 88 then
         let ds := r.takeWhile isHex
         if ds.isEmpty then .reject                  -- "0x" must be followed by hex digits
         else numTail (r.dropWhile isHex) (if hexNum ds ≤ maxU64 then .int (hexNum ds) else .reject)
       else if isDig x then
         let ds := rest.takeWhile isOct
         let r2 := rest.dropWhile isOct
         (match r2 with
          | d :: _ => if isDig d then .reject        -- must be in octal
                      else numTail r2 (if octNum ds ≤ maxU64 then .int (octNum ds) else .reject)
          | [] => if octNum ds ≤ maxU64 then .int (octNum ds) else .reject)
       else decTail [48] false rest
     | [] => .int 0)
  | d :: rest =>
    if isDig d then decTail (d :: rest.takeWhile isDig) false (rest.dropWhile isDig) else .unknown

end PCV.Spec.Lex
