/-
Reference for the option-dependent validation rules (engine `optvalidate`, property C01): what
protoc's descriptor.cc enforces, written DECLARATIVELY over the same abstract file sets as
PCV.Model.OptValidate — in protoc's own notions (`type()`, `is_repeated()`, `has_presence()`,
`is_packable()`, the per-message `full_name_set` of ValidateExtensionDeclaration), as quantified
statements over the elements of a file, with no error order and no symbol-table state.

Anchors (DESIGN.md 3.4): every rule below is pinned by at least one case of TestLinkerValidation
(/repo/linker/linker_test.go; the expected texts there were generated against real protoc) — the
case names are quoted at each rule — and by the comments of linker/validate.go. The calibration
ops (`an …`) of the engine re-run those table cases on every check: the reference must give the
outcome the table records.

Documented divergences followed by `refAccepts` (and not by `protocAccepts`):
  * an extension NAME may be declared once per symbol table, i.e. also not in two different
    messages or files; protoc only looks inside one extendable message (linker_test.go
    failure_extension_declared_multiple_times_across_files, marked expectedDiffWithProtoc with
    exactly this comment);
  * a declared TYPE that starts with a dot must be a valid qualified name; protoc accepts
    ".123.Foobar" (failure_extension_declaration_with_invalid_type, expectedDiffWithProtoc:
    "protoc's name validation seems incomplete"). This one was found by the calibration.

Where protoc's behaviour is not anchored the oracle is silent (`unanchored`): edition 2024 files
(protoc 33 compiles them, protocompile says "not yet fully supported"); the closed-enum rule on the
VALUE of a map field in an edition file (depends on how protoc resolves features of the synthetic
entry fields).
Core Lean only.
-/
import PCV.Model.OptValidate
namespace PCV.OptValidate.Spec
open PCV.OptValidate

/-! ## protoc's notions -/

/-- FieldDescriptor::type() as far as the rules distinguish: TYPE_GROUP for a proto2 group and for
    a DELIMITED message field of an edition file (never for map fields / map-entry fields) -/
inductive PType | scalar (s : Scalar) | enum | message | group
  deriving DecidableEq, Repr

def isEditionFile (f : File) : Bool := f.syn == .ed2023 || f.syn == .ed2024

/-- features().message_encoding(), inherited field ← file ← edition default -/
def featMsgEnc (f : File) (v : FieldView) : MsgEnc := ((v.opts.msgEnc <|> f.msgEnc).getD .lengthPrefixed)

def ptype (f : File) (v : FieldView) : PType :=
  match v.ty with
  | .scalar s => .scalar s
  | .enum _ => .enum
  | .group => .group
  | .map _ _ => .message
  | .message _ =>
    if isEditionFile f && !v.inMapEntry && featMsgEnc f v == .delimited then .group else .message

/-- is_repeated() -/
def isRep (v : FieldView) : Bool := v.label == .repeated || v.ty.isMap

/-- cpp_type() == CPPTYPE_MESSAGE -/
def isMessageTyped (v : FieldView) : Bool :=
  match v.ty with
  | .message _ | .group | .map _ _ => true
  | _ => false

/-- features().field_presence(): proto2 = EXPLICIT, proto3 = IMPLICIT, editions inherited -/
def featPresence (f : File) (v : FieldView) : Presence :=
  match f.syn with
  | .proto2 => .explicit
  | .proto3 => .implicit
  | _ => ((v.opts.presence <|> f.presence).getD .explicit)

/-- containing_oneof() != nullptr (real oneof, or the synthetic oneof of proto3 `optional`) -/
def inOneof (f : File) (v : FieldView) : Bool :=
  v.oneof.isSome || (f.syn == .proto3 && v.label == .optional && !v.isExt)

/-- has_presence() -/
def hasPresenceP (f : File) (v : FieldView) : Bool :=
  !isRep v && (isMessageTyped v || v.isExt || inOneof f v || featPresence f v != .implicit)

/-- EnumDescriptor::is_closed() of the referenced enum -/
def enumClosedP (fs : Files) (r : Ref) : Bool :=
  match fs[r.file]? with
  | none => false
  | some f =>
    match f.syn with
    | .proto2 => true
    | .proto3 => false
    | _ => ((f.enums[r.idx]?.join <|> f.enumType) == some .closed)

def packableType : PType → Bool
  | .scalar .string | .scalar .bytes | .message | .group => false
  | _ => true

def is64 : PType → Bool
  | .scalar .int64 | .scalar .uint64 | .scalar .sint64 | .scalar .fixed64 | .scalar .sfixed64 => true
  | _ => false

/-! ## rules on one field (ordinary field, extension, or the value field of a map entry).
    Each rule: name ↦ "is violated". -/

abbrev Rule := String × Bool

def fieldRules (fs : Files) (f : File) (v : FieldView) : List Rule :=
  [ -- "[packed = true] can only be specified for repeated primitive fields"
    -- (failure_proto2_packed_string/_bytes/_msg/_group/_map/_nonrepeated, failure_proto3_packed_…,
    -- success_proto2_packed, success_proto3_packed)
    ("packed-only-repeated-primitive",
      v.opts.packed == some true && !(isRep v && packableType (ptype f v))),
    -- "Implicit presence enum fields must always be open" / proto3 fields cannot use proto2 enums
    -- (TestProto3Enums of linker_test.go asks protoc for every proto2/proto3 pairing; for editions the
    -- comment of validateField; success_extensions_do_not_inherit_file_field_presence)
    ("implicit-presence-enum-open",
      match v.ty with
      | .enum r => !isRep v && !hasPresenceP f v && enumClosedP fs r
      | _ => false),
    -- "Implicit presence fields can't specify defaults" (failure_editions_default_with_implicit_presence)
    ("implicit-presence-no-default", v.opts.hasDefault && !hasPresenceP f v),
    -- "[lazy = true] can only be specified for submessage fields" (failure_lazy_not_message,
    -- failure_unverified_lazy_not_message, failure_lazy_group, failure_lazy_editions_delimited, success_lazy)
    ("lazy-only-submessage",
      (v.opts.lazy == some true || v.opts.unverifiedLazy == some true) && ptype f v != .message),
    -- "jstype is only allowed on int64, uint64, sint64, fixed64 or sfixed64 fields"
    -- (failure_jstype_not_numeric, failure_jstype_not_64bit, success_jstype)
    ("jstype-only-64bit",
      (v.opts.jstype == some .string || v.opts.jstype == some .number) && !is64 (ptype f v)) ]

/-- ValidateFieldFeatures: only edition files, never the synthetic fields of map entries -/
def featureRules (f : File) (v : FieldView) : List Rule :=
  if !isEditionFile f || v.inMapEntry then []
  else
  [ -- failure_field_presence_on_oneof_field / _repeated_field / _map_field / _extension_field /
    -- _message_field, success_field_presence
    ("field-presence-placement",
      v.opts.presence.isSome &&
        (inOneof f v || isRep v || v.isExt || (isMessageTyped v && v.opts.presence == some .implicit))),
    -- failure_repeated_field_encoding_not_repeated / _not_packable / _not_packable_map, success_repeated_field_encoding
    ("repeated-field-encoding-placement",
      v.opts.repEnc.isSome && (!isRep v || (v.opts.repEnc == some .packed && !packableType (ptype f v)))),
    -- failure_utf8_validation_not_string / _not_string_map, success_utf8_validation
    ("utf8-validation-placement",
      v.opts.utf8.isSome &&
        (match v.ty with
         | .map k val => !(k == .string || val == .scalar .string)
         | t => t != .scalar .string)),
    -- failure_message_encoding_not_message / _map, success_message_encoding
    ("message-encoding-placement",
      v.opts.msgEnc.isSome &&
        (match v.ty with
         | .message _ | .group => false
         | _ => true)) ]

/-! ## rules on an extension -/

/-- the extension range options of the extendee that govern number `n`: protoc's
    FindExtensionRangeContainingNumber -/
def governingRange (m : Message) (n : Nat) : Option (Span × ExtStmt) :=
  m.ranges.find? (fun r => r.1.lo ≤ n && n ≤ r.1.hi)

/-- a range is verified if it says `verification = DECLARATION` or carries any declaration -/
def verified (st : ExtStmt) : Bool := !st.decls.isEmpty || st.verification == some .declaration

def extRules (fs : Files) (file : Nat) (f : File) (n : Nat) (x : Ext) : List Rule :=
  match lookupMsg fs x.extendee with
  | none => []
  | some (ef, m) =>
  [ -- "Extensions of MessageSets must be optional messages" (failure_message_set_wire_format_scalar,
    -- _repeated, success_message_set_wire_format, success_tag_message_set_wire_format)
    ("messageset-extension-optional-message",
      m.msgSet == some true && !(!isRep x.view && ptype f x.view == .message)),
    -- "Extensions to non-lite types can only be declared in non-lite files"
    -- (failure_extend_nonlite_from_lite)
    ("lite-extends-non-lite", f.optFor == some .lite && ef.optFor != some .lite),
    -- CheckExtensionDeclaration (failure_extension_number_is_reserved, _name_does_not_match_…,
    -- _type_does_not_match_…, _label_does_not_match_…, _matches_no_declaration 1-3,
    -- success_extension_declarations)
    ("extension-matches-declaration",
      match governingRange m x.number with
      | none => false
      | some (_, st) =>
        verified st &&
        (match st.decls.find? (fun d => d.number.getD 0 == (x.number : Int)) with
         | none => true
         | some d =>
           d.reserved == some true ||
           d.fullName.getD [] != '.' :: extFullName file n ||
           d.type.getD [] != extTypeName file n x ||
           d.repeated.getD false != isRep x.view)) ]

/-! ## rules on the declarations of one extension range (ValidateExtensionDeclaration) -/

def stripDot (s : Name) : Name := if hasDotPrefix s then s.drop 1 else s

/-- one declaration, looked at alone. `dottedTypeChecked = false` is protoc: the table case
    failure_extension_declaration_with_invalid_type (type ".123.Foobar") is marked
    expectedDiffWithProtoc — "protoc's name validation seems incomplete" — i.e. protoc accepts it;
    the project's stricter check is a documented divergence. -/
def declRules (dottedTypeChecked : Bool) (sp : Span) (d : Decl) : List Rule :=
  [ -- failure_extension_declaration_without_number
    ("declaration-number-required", d.number.isNone),
    -- failure_extension_declaration_with_incorrect_number / _out_of_range / _out_of_range2 / _multiple_ranges
    ("declaration-number-in-range",
      match d.number with
      | some k => k < (sp.lo : Int) || (sp.hi : Int) < k
      | none => false),
    -- "should have both full_name and type set": both missing is allowed only when reserved; exactly
    -- one missing never (failure_extension_declaration_without_name / _without_type /
    -- _with_reserved_only_name / _only_type, success_…_reserved_without_name_and_type)
    ("declaration-name-and-type",
      if d.fullName.isNone && d.type.isNone then !(d.reserved == some true)
      else d.fullName.isNone || d.type.isNone),
    -- failure_extension_declaration_with_name_without_dot / _with_invalid_name
    ("declaration-full-name-syntax",
      match d.fullName with
      | some s => !hasDotPrefix s || !fullNameValid (s.drop 1)
      | none => false),
    -- failure_extension_declaration_with_type_without_dot (not builtin) / _with_invalid_type
    ("declaration-type-syntax",
      match d.type with
      | some t => if hasDotPrefix t then dottedTypeChecked && !fullNameValid (t.drop 1) else !isBuiltinTypeName t
      | none => false) ]

/-- the numbers declared inside the range (those outside are already an error) -/
def inRangeNumbers (sp : Span) (ds : List Decl) : List Int :=
  ds.filterMap (fun d => match d.number with
    | some k => if (sp.lo : Int) ≤ k && k ≤ (sp.hi : Int) then some k else none
    | none => none)

def hasDup {α : Type} [BEq α] : List α → Bool
  | [] => false
  | a :: rest => rest.contains a || hasDup rest

def rangeRules (dottedTypeChecked : Bool) (sp : Span) (st : ExtStmt) : List Rule :=
  if st.decls.isEmpty then []
  else
    [ -- failure_extension_declaration_but_range_unverified
      ("declarations-need-verification-declaration", st.verification == some .unverified),
      -- failure_extension_declarations_repeated_tags
      ("declaration-number-unique", hasDup (inRangeNumbers sp st.decls)) ] ++
    st.decls.flatMap (declRules dottedTypeChecked sp)

/-- every occurrence of a declared name: (normalised name, extendee, number), one per
    ExtensionRange that carries the declaration -/
def msgDeclOccs (file j : Nat) (m : Message) : List (Name × Name × Int) :=
  m.ranges.flatMap (fun r => r.2.decls.filterMap (fun d =>
    d.fullName.map (fun s => (stripDot s, msgFullName ⟨file, j⟩, d.number.getD 0))))

def fileDeclOccs (file : Nat) (f : File) : List (Name × Name × Int) :=
  (f.msgs.zipIdx.flatMap (fun (m, j) => msgDeclOccs file j m))

/-- some two occurrences give the same name to different (extendee, number) -/
def nameClash (occs : List (Name × Name × Int)) : Bool :=
  occs.any (fun a => occs.any (fun b => a.1 == b.1 && a.2 != b.2))

/-! ## rules on a file -/

def fileOptionRules (fs : Files) (f : File) : List Rule :=
  [ -- "Files that do not use optimize_for = LITE_RUNTIME cannot import files which do"
    -- (failure_import_lite_from_nonlite, success_import_nonlite_from_lite)
    ("non-lite-imports-lite",
      f.optFor != some .lite && f.imports.any (fun k => (fs[k]?.map (·.optFor == some .lite)).getD false)),
    -- failure_field_presence_on_file
    ("file-default-legacy-required", isEditionFile f && f.presence == some .legacyRequired),
    -- failure_utf8_validation_java_option
    ("java-string-check-utf8-in-editions", isEditionFile f && f.javaUtf8.isSome) ]

def allViews (f : File) : List FieldView :=
  f.msgs.flatMap (fun m => m.fields.map Field.view ++ m.fields.filterMap mapValueViewOf) ++
  f.exts.map Ext.view

/-- rules of earlier phases (the reference rejects these as well; anchored by
    failure_editions_packed_option_not_allowed, TestBasicValidation "option 'features' may only be used
    with editions" and the three message-set cases of parser/validate_test.go, failure_tag_out_of_range,
    failure_default_repeated, failure_default_message) -/
def earlyRules (fs : Files) (f : File) : List Rule :=
  [ ("packed-not-in-editions", isEditionFile f && (allViews f).any (fun v => v.opts.packed.isSome && !v.inMapEntry)),
    ("features-only-in-editions",
      !isEditionFile f && (f.presence.isSome || f.enumType.isSome || f.msgEnc.isSome ||
        f.enums.any (·.isSome) || (allViews f).any (fun v => !v.inMapEntry && v.opts.anyFeature))),
    ("messageset-shape",
      f.msgs.any (fun m => m.msgSet == some true && (f.syn == .proto3 || !m.fields.isEmpty || m.ranges.isEmpty))),
    -- "Explicit default values are not allowed in proto3"
    ("default-not-in-proto3", f.syn == .proto3 && (allViews f).any (fun v => !v.inMapEntry && v.opts.hasDefault)),
    -- "Repeated fields can't have default values" / "Messages can't have default values"
    ("default-not-on-repeated-or-message",
      (allViews f).any (fun v => !v.inMapEntry && (v.opts.hasDefault && (isRep v || isMessageTyped v)))),
    ("extension-number-in-extendee-range",
      f.exts.any (fun x => onExtendee fs x (fun m => (governingRange m x.number).isNone))) ]

/-- all rules of one file; `protocOnly` = protoc alone (declared names are compared inside one
    message only; dotted declared types are not checked), otherwise with the two documented
    divergences of the project -/
def fileRules (protocOnly : Bool) (fs : Files) (file : Nat) (f : File) : List Rule :=
  earlyRules fs f ++ fileOptionRules fs f ++
  (allViews f).flatMap (fun v => fieldRules fs f v ++ featureRules f v) ++
  (f.exts.zipIdx.flatMap (fun (x, n) => extRules fs file f n x)) ++
  (f.msgs.flatMap (fun m => m.ranges.flatMap (fun r => rangeRules (!protocOnly) r.1 r.2))) ++
  [ -- "Extension field name … is declared multiple times" (failure_extension_declared_multiple_times;
    -- across messages/files: expectedDiffWithProtoc)
    ("declared-name-unique",
      if protocOnly then f.msgs.zipIdx.any (fun (m, j) => nameClash (msgDeclOccs file j m))
      else nameClash (fileDeclOccs file f)) ]

def violated (rs : List Rule) : List String := (rs.filter (·.2)).map (·.1)

def setViolations (protocOnly : Bool) (fs : Files) : List String :=
  fs.zipIdx.flatMap (fun (f, i) => violated (fileRules protocOnly fs i f))

/-- the reference: protoc's rules plus the documented divergences (declared names are unique per
    symbol table; a dotted declared type must be a valid qualified name) -/
def refAccepts (fs : Files) : Bool := (setViolations false fs).isEmpty

/-- protoc alone -/
def protocAccepts (fs : Files) : Bool := (setViolations true fs).isEmpty

/-! ## where the reference has no anchor -/

def unanchored (fs : Files) : Option String :=
  if fs.any (fun f => f.syn == .ed2024) then some "edition-2024"
  else if fs.any (fun f => isEditionFile f && f.msgs.any (fun m => m.fields.any (fun fl =>
      match fl.ty with
      | .map _ (.enum r) => enumClosedP fs r
      | _ => false))) then some "closed-enum-map-value-in-editions"
  else none

/-! ## the oracle: accept/reject of the implementation against the reference -/

def oracle (fs : Files) (implAccepts : Bool) (implFirst : String) : String :=
  if !wellFormed fs then "skip"
  else match unanchored fs with
    | some _ => "skip"
    | none =>
      let ref := refAccepts fs
      if implAccepts == ref then "holds"
      else if implAccepts then
        s!"fails accepts-what-protoc-rejects rule={(setViolations false fs).headD "-"}"
      else s!"fails rejects-what-protoc-accepts impl={implFirst}"

end PCV.OptValidate.Spec
