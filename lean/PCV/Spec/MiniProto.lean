/-
Reference semantics of MiniProto (DESIGN.md 3.4 / 5.1): the rules of Protobuf semantic analysis
stated DECLARATIVELY ("some pair of ranges overlaps", "two fields share a number", protoc's
`ToJsonName` loop, …), independent of how /repo computes them. Used by the property oracle of
the `link`/`dual` engines and by Props/C01, C02, C27 (equivalence with the Go-shaped algorithms
of PCV/Model/MiniProto).

Anchors: protoc's descriptor.cc / parser.cc behaviour as documented and as pinned by the
protoc-validated tables of /repo (parser/validate_test.go, linker/linker_test.go — their
`expectedDiffWithProtoc` markers are the "documented intentional divergences").
Core Lean only.
-/
import PCV.Model.MiniProto
namespace PCV.MiniProto.Spec
open PCV.MiniProto

/-! ## ranges -/

/-- two half-open ranges `[start, stop)` share a number -/
def overlaps (a b : TagRange) : Prop := a.start < b.stop ∧ b.start < a.stop

instance (a b : TagRange) : Decidable (overlaps a b) := by unfold overlaps; infer_instance

/-- two closed ranges `[start, stop]` (enum reserved ranges) share a number -/
def overlapsIncl (a b : TagRange) : Prop := a.start ≤ b.stop ∧ b.start ≤ a.stop

instance (a b : TagRange) : Decidable (overlapsIncl a b) := by unfold overlapsIncl; infer_instance

/-- some two entries (at different positions) of the list are related -/
def SomePair {α : Type} (R : α → α → Prop) (l : List α) : Prop := ¬ l.Pairwise (fun a b => ¬ R a b)

/-- "reserved ranges overlap" / "extension ranges overlap" -/
def RangesOverlap (incl : Bool) (rs : List TagRange) : Prop :=
  SomePair (if incl then overlapsIncl else overlaps) rs

/-- "extension range … overlaps reserved range …" -/
def ExtRsvdOverlap (rsvd exts : List TagRange) : Prop := ∃ r ∈ rsvd, ∃ e ∈ exts, overlaps r e

/-- a number lies in one of the ranges -/
def InRanges (incl : Bool) (rs : List TagRange) (n : Int) : Prop :=
  ∃ r ∈ rs, r.start ≤ n ∧ (if incl then n ≤ r.stop else n < r.stop)

/-- a well-formed declared range (what `getRangeBounds` accepts) -/
def RangeWf (incl : Bool) (r : TagRange) : Prop := if incl then r.start ≤ r.stop else r.start < r.stop

/-! executable forms (for the oracle) -/

def somePairB {α : Type} (R : α → α → Bool) : List α → Bool
  | [] => false
  | a :: rest => rest.any (R a) || somePairB R rest

def overlapsB (incl : Bool) (a b : TagRange) : Bool :=
  if incl then decide (a.start ≤ b.stop) && decide (b.start ≤ a.stop)
  else decide (a.start < b.stop) && decide (b.start < a.stop)

def rangesOverlapB (incl : Bool) (rs : List TagRange) : Bool := somePairB (overlapsB incl) rs

def extRsvdOverlapB (rsvd exts : List TagRange) : Bool :=
  rsvd.any (fun r => exts.any (fun e => overlapsB false r e))

def inRangesB (incl : Bool) (rs : List TagRange) (n : Int) : Bool :=
  rs.any (fun r => decide (r.start ≤ n) && (if incl then decide (n ≤ r.stop) else decide (n < r.stop)))

/-! ## numbers -/

/-- two entries carry the same number -/
def DupNumber (xs : List (Int × String)) : Prop := ¬ (xs.map (·.1)).Nodup

def dupNumberB (xs : List (Int × String)) : Bool := somePairB (fun a b => a.1 == b.1) xs

/-- a usable field number: 1 … max, outside 19000 … 19999 -/
def TagValid (v maxTag : Nat) : Prop := 1 ≤ v ∧ v ≤ maxTag ∧ ¬ (19000 ≤ v ∧ v ≤ 19999)

/-! ## names (transcribed from protoc) -/

/-- protoc `ToJsonName` (descriptor.cc): drop `_`, upper-case the next character, nothing else -/
def protocJsonLoop : Bool → List Char → List Char
  | _, [] => []
  | cap, c :: rest =>
    if c == '_' then protocJsonLoop true rest
    else if cap then upperAscii c :: protocJsonLoop false rest
    else c :: protocJsonLoop false rest

def protocJsonName (s : List Char) : List Char := protocJsonLoop false s

/-- protoc `MapEntryName` (parser.cc): like `ToJsonName` but the first character is capitalised
    too, then "Entry" -/
def protocMapEntryName (s : List Char) : List Char := protocJsonLoop true s ++ "Entry".toList

/-- protoc `GenerateSyntheticOneofs` (parser.cc): `names` = names of the message's fields and
    oneofs ONLY; prepend `_` unless present, then `X` while taken; each result is added -/
def protocAllNames (m : MsgD) : List String := m.fields.map (·.name) ++ m.oneofs

def protocNaming : Naming :=
  { jsonName := fun s => String.ofList (protocJsonName s.toList),
    mapEntryName := fun s => String.ofList (protocMapEntryName s.toList),
    synthNames := fun m fs => synthOneofNames (protocAllNames m) fs }

/-! ## strings, JSON names -/

def dupStrB (xs : List String) : Bool := somePairB (fun a b => a == b) xs

/-- JSON name conflict, declaratively (protoc `CheckFieldJsonNameUniqueness`): two fields with the
    same default JSON name are an error when the message is JSON compliant (proto3 / editions),
    and two fields whose effective names collide are an error as soon as one of the two names is a
    custom `json_name`. Entries: (default name, json_name, is custom). -/
def jsonConflictB (compliant : Bool) (fs : List (String × String × Bool)) : Bool :=
  (compliant && somePairB (fun a b => a.1 == b.1) fs) ||
  somePairB (fun a b =>
    (if a.2.2 then a.2.1 else a.1) == (if b.2.2 then b.2.1 else b.1) && (a.2.2 || b.2.2)) fs

/-- enum values whose canonical names collide but whose numbers differ -/
def enumJsonConflictB (vs : List (String × Int)) : Bool :=
  somePairB (fun a b => a.1 == b.1 && a.2 != b.2) vs

/-- protoc `PrefixRemover::MaybeRemove` (descriptor.cc): `pre` is the enum name lower-cased with
    underscores removed; underscores in the value name are skipped while matching -/
def prefixRemoverLoop (whole : List Char) : List Char → List Char → List Char
  | str, [] =>
    -- prefix consumed: skip underscores after it; the whole string may not be the prefix
    let rest := skipUnderscores str
    if rest.isEmpty then whole else rest
  | [], _ :: _ => whole
  | c :: str, p :: pre =>
    if c == '_' then prefixRemoverLoop whole str (p :: pre)
    else if lowerAscii c != p then whole
    else prefixRemoverLoop whole str pre

def protocPrefix (enumName : List Char) : List Char :=
  (enumName.filter (· != '_')).map lowerAscii

/-- protoc `EnumValueToPascalCase` -/
def protocPascalLoop : Bool → List Char → List Char
  | _, [] => []
  | up, c :: rest =>
    if c == '_' then protocPascalLoop true rest
    else (if up then upperAscii c else lowerAscii c) :: protocPascalLoop false rest

def protocEnumCanon (value enumName : String) : String :=
  String.ofList (protocPascalLoop true (prefixRemoverLoop value.toList value.toList (protocPrefix enumName.toList)))

/-- the reference decision procedures: declarative definitions, protoc's canonical names -/
def specChecks : Checks :=
  { rangesOverlap := rangesOverlapB, extRsvdOverlap := extRsvdOverlapB, inRanges := inRangesB,
    dupNumber := dupNumberB, dupStr := dupStrB, jsonConflict := jsonConflictB,
    enumJsonConflict := enumJsonConflictB, enumCanon := protocEnumCanon }

/-! ## the reference compile and the oracle -/

/-- protoc's naming with the ONE naming divergence the project documents as intentional: the
    comment of `processProto3OptionalFields` ("NB: protoc only considers names of other fields
    and oneofs when computing the synthetic oneof name. But that feels like a bug …") — synthetic
    oneofs avoid every name of the message, as the Go code does. JSON and map-entry names are
    protoc's loops. -/
def docNaming : Naming := { protocNaming with synthNames := goNaming.synthNames }

/-- the reference semantics of a workspace: protoc's rules (declarative), protoc's naming, plus
    the divergences the project documents as intentional: invalid reserved names are errors,
    explicit `allow_alias = false` is accepted, custom JSON-name conflicts are errors in proto2 too
    (these are part of the shared pipeline), and the synthetic-oneof name set (`docNaming`) -/
def reference (ws : Workspace) : Compiled := compileWorkspace specChecks docNaming ws

/-- the reference on the files the compiler is asked for (descriptor.proto added when imported) -/
def referenceRequested (ws : Workspace) : Compiled := compileRequested specChecks docNaming ws

/-- protoc WITHOUT the synthetic-oneof exemption (documentation of that divergence only) -/
def referencePureProtoc (ws : Workspace) : Compiled := compileWorkspace specChecks protocNaming ws

/-- constructs whose protoc behaviour is not anchored in a repository artefact: the oracle makes
    no claim about workspaces containing them.
    * a proto3 `optional`/`repeated`/oneof field whose type is an enum of a proto2 file
      (TestProto3Enums pins only the singular implicit-presence case);
    * `default` on float/double fields (text of the value), beyond small integers. -/
def unanchoredField (env : Env) (syn : Syn) (f : FieldD) : Bool :=
  (syn == .proto3 && f.type == some 14 &&
    (match findEnum env (dropDot f.typeName) with
     | some (_, efd) => efd.syn == .proto2 && (f.label == some 3 || f.proto3Optional || f.oneofIndex.isSome || f.extendee != "")
     | none => false)) ||
  ((f.type == some 1 || f.type == some 2) && f.optDflt.isSome)

def unanchored (c : Compiled) : Bool :=
  let env := mkEnv c.files
  c.files.any (fun fd =>
    fd.msgs.any (fun m => (m.fields ++ m.extensions).any (unanchoredField env fd.syn)) ||
    fd.extensions.any (unanchoredField env fd.syn))

/-- index of the first token where two projections differ -/
def firstDiff : List String → List String → Nat → Option (Nat × String × String)
  | [], [], _ => none
  | a :: as, b :: bs, i => if a == b then firstDiff as bs (i + 1) else some (i, a, b)
  | a :: _, [], i => some (i, a, "<end>")
  | [], b :: _, i => some (i, "<end>", b)

/-- the verdict of the `link` oracle on the implementation's answer (C01 accept/reject,
    C02 descriptors) -/
def linkVerdict (ws : Workspace) (ans : String) : String :=
  if !wellFormed ws then "skip"
  else
    let ref := referenceRequested ws
    -- the part after ` ~ ` is the harness's note (error text, documented-divergence marker)
    let toks := PCV.Wire.words ((ans.splitOn " ~ ").headD "")
    let note := PCV.Wire.words (((ans.splitOn " ~ ").drop 1).headD "")
    match toks with
    | "ok" :: proj =>
      if !ref.errs.isEmpty then
        if unanchored ref then "skip"
        else "fails accepts-what-protoc-rejects " ++ " ".intercalate ref.errs.eraseDups
      else
        match firstDiff proj (PCV.Wire.words (projAll ref.files)) 0 with
        | none => "holds"
        | some (i, a, b) =>
          if unanchored ref then "skip"
          else s!"fails descriptor-differs-from-reference token={i} impl={a} reference={b}"
    | "err" :: _ =>
      if ref.errs.isEmpty then
        if unanchored ref then "skip"
        else "fails rejects-what-protoc-accepts " ++ " ".intercalate (note.take 1)
      else "holds"
    | _ => "fails bad-answer"

/-! ## calibration on protoc's own descriptors (`laws` ops) -/

/-- a field record of the projection -/
structure PField where
  ext : Bool
  name : String
  label : String
  type : String
  typeName : String
  json : String
  oneofIndex : String
  p3opt : Bool
  deriving Repr

structure PMsg where
  fullName : String
  mapEntry : Bool
  fields : List PField := []
  oneofs : List String := []
  deriving Repr

/-- arity of the records of the projection (tokens after the tag) -/
def projArity : String → Option Nat
  | "F" => some 6 | "M" => some 3 | "f" => some 11 | "x" => some 11 | "o" => some 1
  | "er" => some 2 | "rr" => some 2 | "rn" => some 1 | "E" => some 2 | "v" => some 2
  | "S" => some 1 | "rpc" => some 5
  | _ => none

/-- the records of a projection: (tag, arguments) -/
def projRecords : Nat → List String → Option (List (String × List String))
  | _, [] => some []
  | 0, _ :: _ => none
  | fuel + 1, t :: rest =>
    match projArity t with
    | none => none
    | some n =>
      if rest.length < n then none
      else (projRecords fuel (rest.drop n)).map ((t, rest.take n) :: ·)

def mkPField (ext : Bool) (a : List String) : Option PField :=
  match a with
  | [name, _num, lbl, ty, tn, _extendee, json, oo, p3, _packed, _dflt] =>
    some { ext := ext, name := name, label := lbl, type := ty, typeName := tn, json := json, oneofIndex := oo, p3opt := p3 == "1" }
  | _ => none

/-- messages of a projected file with their fields and oneofs (extensions declared in a message
    are kept apart: they do not take part in the message's laws) -/
def projMsgs : List (String × List String) → List PMsg → List PMsg
  | [], acc => acc.reverse
  | (tag, a) :: rest, acc =>
    match tag, a, acc with
    | "M", [fq, me, _], _ => projMsgs rest ({ fullName := fq, mapEntry := me == "1" } :: acc)
    | "f", a, m :: ms =>
      match mkPField false a with
      | some f => projMsgs rest ({ m with fields := m.fields ++ [f] } :: ms)
      | none => projMsgs rest acc
    | "o", [n], m :: ms => projMsgs rest ({ m with oneofs := m.oneofs ++ [n] } :: ms)
    | _, _, _ => projMsgs rest acc

def parentOf (fq : String) : String :=
  let parts := splitDots fq
  ".".intercalate (parts.take (parts.length - 1))

def lastOf (fq : String) : String := (splitDots fq).getLast?.getD ""

/-- the laws of the reference construction on one message of a protoc-produced descriptor -/
def msgLaws (all : List PMsg) (m : PMsg) : List String :=
  let n := m.oneofs.length
  let opt := m.fields.filter (·.p3opt)
  let k := opt.length
  -- L1: a map entry is named after the map field that uses it
  let l1 : List String :=
    if m.mapEntry then
      match all.find? (fun p => p.fullName == parentOf m.fullName) with
      | some p =>
        if p.fields.any (fun f => f.typeName == "." ++ m.fullName && f.label == "3" &&
            String.ofList (protocMapEntryName f.name.toList) == lastOf m.fullName) then []
        else ["map-entry-name:" ++ m.fullName]
      | none => ["map-entry-parent:" ++ m.fullName]
    else []
  -- L2: synthetic oneofs come last, in field order, named by protoc's loop over field+oneof names
  let l2 : List String :=
    if k == 0 then []
    else if k > n then ["synthetic-oneof-count:" ++ m.fullName]
    else
      let real := m.oneofs.take (n - k)
      let expected := synthOneofNames (m.fields.map (·.name) ++ real) (opt.map (·.name))
      (if m.oneofs.drop (n - k) == expected then [] else ["synthetic-oneof-names:" ++ m.fullName]) ++
      (if ((List.range k).zip opt).all (fun p => p.2.oneofIndex == toString (n - k + p.1)) then []
       else ["synthetic-oneof-index:" ++ m.fullName])
  -- L3/L4/L5: json_name present; key/value of a map entry; labels; oneof indices; qualified type names
  let l3 : List String := m.fields.flatMap (fun f =>
    (if f.json == "-" then ["json-missing:" ++ m.fullName ++ "." ++ f.name] else []) ++
    (if f.label == "0" then ["label-missing:" ++ m.fullName ++ "." ++ f.name] else []) ++
    (match f.oneofIndex.toNat? with
     | some i => if i < n then [] else ["oneof-index:" ++ m.fullName ++ "." ++ f.name]
     | none => if f.oneofIndex == "-" then [] else ["oneof-index:" ++ m.fullName ++ "." ++ f.name]) ++
    (if (f.type == "11" || f.type == "14" || f.type == "10") && !(match f.typeName.toList with | '.' :: _ => true | _ => false)
     then ["type-name-unqualified:" ++ m.fullName ++ "." ++ f.name] else []))
  l1 ++ l2 ++ l3

/-- number of fields whose json_name is the default one (protoc `ToJsonName`) / a custom one -/
def jsonStats (ms : List PMsg) : Nat × Nat :=
  let fs := ms.flatMap (·.fields)
  let d := (fs.filter (fun f => f.json == hexOfStr (String.ofList (protocJsonName f.name.toList)))).length
  (d, fs.length - d)

/-- verdict of a `laws` op: protoc's descriptor must satisfy every law the reference claims -/
def lawsVerdict (toks : List String) : String :=
  match projRecords toks.length toks with
  | none => "fails bad-projection"
  | some recs =>
    let ms := projMsgs recs []
    let bad := ms.flatMap (msgLaws ms)
    if bad.isEmpty then "holds" else "fails reference-law-violated-by-protoc-output " ++ " ".intercalate (bad.take 4)

/-- what the real naming functions are asked to compute for a `laws` op (the model's answer) -/
def lawsAnswer (nm : Naming) (toks : List String) : String :=
  match projRecords toks.length toks with
  | none => "bad-op"
  | some recs =>
    let out := recs.flatMap (fun r =>
      if r.1 == "f" || r.1 == "x" then
        match r.2 with
        | name :: _ :: lbl :: ty :: _ =>
          ["j", hexOfStr (nm.jsonName name)] ++ (if lbl == "3" && ty == "11" then ["e", nm.mapEntryName name] else [])
        | _ => []
      else [])
    if out.isEmpty then "none" else " ".intercalate out

/-- calibration of the reference against a protoc-validated test-table case: the reference
    (protoc's rules + documented divergences) must give the outcome the table records for the Go
    compiler; `protocSame` tells whether protoc gives that outcome too -/
def anchorCheck (note : String) (ws : Workspace) : Option String :=
  match note.splitOn ":" with
  | ["anchor", _tbl, name, goV, _pV] =>
    if !wellFormed ws then none
    else
      let acc := (referenceRequested ws).errs.isEmpty
      if (goV == "ok") == acc then none
      else some s!"fails reference-miscalibrated case={name} table={goV} reference={if acc then "ok" else "err:" ++ " ".intercalate (referenceRequested ws).errs.eraseDups}"
  | _ => none

/-! ## C27: the two compilers against each other -/

/-- what one compiler did with a workspace -/
structure Outcome where
  accepted : Bool
  /-- class of the stable compiler's error / canonicalised message of the experimental one -/
  why : String
  /-- projection of the descriptors (tokens) when accepted -/
  proj : List String
  deriving Repr

/-- verdict of the C27 oracle -/
inductive DualVerdict where
  | holds
  | acceptMismatch
  | descMismatch (i : Nat) (a b : String)
  | outsideProjection
  deriving DecidableEq, Repr

/-- C27 on one workspace: same accept/reject and, when both accept, the same descriptors
    (`fullSame`: the harness's comparison of the complete descriptor protos without source info,
    which also covers fields outside the projection) -/
def dualJudgeV (old new : Outcome) (fullSame : Bool) : DualVerdict :=
  if old.accepted != new.accepted then .acceptMismatch
  else if !old.accepted then .holds
  else match firstDiff old.proj new.proj 0 with
    | some (i, a, b) => .descMismatch i a b
    | none => if fullSame then .holds else .outsideProjection

def dualJudge (old new : Outcome) (fullSame : Bool) : String :=
  match dualJudgeV old new fullSame with
  | .holds => "holds"
  | .acceptMismatch =>
    s!"fails accept-mismatch old={if old.accepted then "ok" else "err:" ++ old.why} new={if new.accepted then "ok" else "err:" ++ new.why}"
  | .descMismatch i a b => s!"fails descriptor-mismatch token={i} old={a} new={b}"
  | .outsideProjection => "fails descriptor-mismatch outside-projection"

def parseOutcome (hdr : String) (proj : String) : Option Outcome :=
  if hdr == "ok" then some { accepted := true, why := "", proj := PCV.Wire.words proj }
  else match hdr.toList with
    | 'e' :: 'r' :: 'r' :: ':' :: rest => some { accepted := false, why := String.ofList rest, proj := [] }
    | _ => none

/-- the `dual` engine's answer: `<old ok|err> ~ old=<…> new=<…> full=<same|diff|-> | <old projection> | <new projection>` -/
def dualVerdict (ans : String) : String :=
  match ans.splitOn " ~ " with
  | [_, rest] =>
    match rest.splitOn " | " with
    | [hdr, po, pn] =>
      match PCV.Wire.words hdr with
      | [o, n, f] =>
        match (o.splitOn "old="), (n.splitOn "new="), (f.splitOn "full=") with
        | ["", ov], ["", nv], ["", fv] =>
          match parseOutcome ov po, parseOutcome nv pn with
          | some old, some new => dualJudge old new (fv != "diff")
          | _, _ => "fails bad-answer"
        | _, _, _ => "fails bad-answer"
      | _ => "fails bad-answer"
    | _ => "fails bad-answer"
  | _ => if ans == "bad-op" then "skip" else "fails bad-answer"

end PCV.MiniProto.Spec
