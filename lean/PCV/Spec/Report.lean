/-
Specification-side vocabulary for `experimental/report` (C36, C37): which reports the
properties quantify over, and what "the same diagnostics" means.  Core Lean only (the
driver evaluates these predicates on generated inputs).
-/
import PCV.Model.Report
namespace PCV.Report

/-! ## C37 -/

/-- All snippets of a report, in the order `ToProto` visits them. -/
def allSnips (r : List Diagnostic) : List Snippet := r.flatMap (·.snippets)

/-- An annotation "lies within its file": `0 ≤ start ≤ end ≤ len(text)` — this includes the
    empty span at the end of the file and every span of an empty file.  The remaining
    clauses say that the numbers fit the `uint32` fields of the message. -/
def SnipWF (s : Snippet) : Prop :=
  0 ≤ s.start ∧ s.start ≤ s.stop ∧ s.stop ≤ (s.text.length : Int) ∧ s.text.length < 4294967296 ∧
  ∀ e ∈ s.edits, 0 ≤ e.start ∧ e.start < 4294967296 ∧ 0 ≤ e.stop ∧ e.stop < 4294967296

instance (s : Snippet) : Decidable (SnipWF s) := by unfold SnipWF; infer_instance

/-- A diagnostic as the package's API builds them: a message (`Message` is required), one of
    the four levels, and — if it has snippets — a primary one (`snippet.apply` marks the first
    snippet primary; `AppendFromProto` repairs a missing mark). -/
def DiagWF (d : Diagnostic) : Prop :=
  d.msg ≠ [] ∧ (d.level = 1 ∨ d.level = 2 ∨ d.level = 3 ∨ d.level = 4) ∧
  (d.snippets = [] ∨ d.snippets.any (·.primary) = true) ∧
  ∀ s ∈ d.snippets, SnipWF s

instance (d : Diagnostic) : Decidable (DiagWF d) := by unfold DiagWF; infer_instance

/-- One path names one file content (`ToProto` documents that it identifies files by path). -/
def PathFunctional (ss : List Snippet) : Prop :=
  ∀ s ∈ ss, ∀ s' ∈ ss, s.path = s'.path → s.text = s'.text

instance (ss : List Snippet) : Decidable (PathFunctional ss) := by unfold PathFunctional; infer_instance

/-- The reports C37 quantifies over. -/
def WF (r : List Diagnostic) : Prop :=
  (∀ d ∈ r, DiagWF d) ∧ PathFunctional (allSnips r)

instance (r : List Diagnostic) : Decidable (WF r) := by unfold WF; infer_instance

/-- What "the diagnostic is preserved" compares: everything except the identity of the
    `*source.File` objects (new objects after decoding) and `sortOrder` (the report's `Stage`,
    which `ToProto` documents as not serialized). -/
def eraseSnip (s : Snippet) : Snippet := { s with fid := 0 }
def erase (d : Diagnostic) : Diagnostic :=
  { d with sortOrder := 0, snippets := d.snippets.map eraseSnip }

/-- Round trip through the message, for a given variant of the code. -/
def RoundTrips (v : Variant) (r : List Diagnostic) : Prop :=
  ∃ p out, toProtoV v r = some p ∧ fromProtoV v p = (out, none) ∧ out.map erase = r.map erase

/-! ## C36 -/

/-- What "the same diagnostics" compares for C36: everything except the identity of the
    `*source.File` objects (two files with equal path and text are the same file to a reader
    of the report). -/
def eraseFid (d : Diagnostic) : Diagnostic := { d with snippets := d.snippets.map eraseSnip }

def SameDiags (a b : List Diagnostic) : Prop := a.map eraseFid = b.map eraseFid

instance (a b : List Diagnostic) : Decidable (SameDiags a b) := by unfold SameDiags; infer_instance

/-- Diagnostics carry one of the four levels (in particular not `-1`, the value
    `Canonicalize` uses internally to mark deletions). -/
def ValidLevels (ds : List Diagnostic) : Prop :=
  ∀ d ∈ ds, d.level = 1 ∨ d.level = 2 ∨ d.level = 3 ∨ d.level = 4

instance (ds : List Diagnostic) : Decidable (ValidLevels ds) := by unfold ValidLevels; infer_instance

end PCV.Report
