/-
Specification-side vocabulary for C30 (round-trip printing) and the dom layer of C31:

* `Piece`, `piecesDFS`, `traceList`: which tokens a printer plan emits, in which order — the
  plan-level half of "prints every token exactly once, in source order";
* `diagList`: an instrumented copy of `dom`'s `print` that raises a flag whenever the renderer
  writes a byte that is not the text of an `Always` text tag, or withholds one (indentation
  injected after a pure-newline tag, a conditional tag rendered, whitespace tags merged);
* `Causes`: the decidable condition under which the model provably reproduces the source
  (`PCV.Props.C30.print_roundtrip_partial`), and the labels the property oracle attaches to a
  failing round trip.

Core Lean only: the driver evaluates these on every generated input.
-/
import PCV.Model.PrinterRT
namespace PCV.PrinterRT
open PCV.Trivia PCV.Dom

/-! ### plan level -/

inductive Piece where
  | sk (s : Skip)          -- a skippable token, emitted from a trivia bucket
  | nat (id : Nat)         -- a natural token (open and close tokens separately)
  | gap                    -- whitespace invented by `emitGap` (token without an attached entry)
  | reflow                 -- comments re-emitted by `emitCloseComments`
  deriving DecidableEq, Repr, Inhabited

mutual
def piecesOfItem : Item → List Piece
  | .skip s => [.sk s]
  | .leaf id _ _ => [.nat id]
  | .fused id _ _ kids cid _ => .nat id :: (piecesDFS kids ++ [.nat cid])
/-- every token of the tree in source order -/
def piecesDFS : List Item → List Piece
  | [] => []
  | it :: r => piecesOfItem it ++ piecesDFS r
end

mutual
/-- what `execOne` writes into `Always` text tags, as pieces: (pending, emitted) -/
def traceOne (e : Env) : List Skip → Plan → List Skip × List Piece
  | pending, .tok id gap =>
    match e.ix.att? id with
    | some a => (a.trailing, (pending ++ a.leading).map .sk ++ [.nat id])
    | none => (pending, (if gap == .none then [] else [.gap]) ++ [.nat id])
  | pending, .slot scope i => (pending ++ slotOf e scope i, [])
  | pending, .remain scope i => (pending ++ ((e.ix.det scope).slots.drop i).flatten, [])
  | pending, .comma id =>
    match e.ix.att? id with
    | some a => (pending ++ a.trailing, [])
    | none => (pending, [])
  | pending, .flush => ([], pending.map .sk)
  | pending, .softbreak => (pending, [])
  | pending, .closeComments => if hasComment pending then ([], [.reflow]) else (pending, [])
  | pending, .indent kids => traceList e pending kids
  | pending, .group kids => traceList e pending kids
  | pending, .ifNonEmpty scope a b =>
    if !(e.ix.det scope).isEmpty then traceList e pending a else traceList e pending b
def traceList (e : Env) : List Skip → List Plan → List Skip × List Piece
  | pending, [] => (pending, [])
  | pending, p :: ps =>
    let (p1, t1) := traceOne e pending p
    let (p2, t2) := traceList e p1 ps
    (p2, t1 ++ t2)
end

/-- the plan emits every token of the tree exactly once, in source order, nothing else, and
    leaves nothing pending -/
def planFaithful (e : Env) (items : List Item) (plan : List Plan) : Bool :=
  let (pend, tr) := traceList e [] plan
  pend.isEmpty && tr == piecesDFS items

def skipIds : List Piece → List Nat
  | [] => []
  | .sk s :: r => s.id :: skipIds r
  | _ :: r => skipIds r

def natIds : List Piece → List Nat
  | [] => []
  | .nat id :: r => id :: natIds r
  | _ :: r => natIds r

def tokIds : List Piece → List Nat
  | [] => []
  | .sk s :: r => s.id :: tokIds r
  | .nat id :: r => id :: tokIds r
  | _ :: r => tokIds r

def increasing : List Nat → Bool
  | a :: b :: r => a < b && increasing (b :: r)
  | _ => true

/-- skippable token IDs stored in some bucket of the index -/
def bucketIds (ix : Index) : List Nat :=
  ix.attached.flatMap (fun (_, a) => (a.leading ++ a.trailing).map (·.id)) ++
  ix.detached.flatMap (fun (_, d) => d.slots.flatten.map (·.id))

/-! ### dom level: instrumented `print` -/

structure Flags where
  indentInjected : Bool := false   -- `write` emitted indentation after buffered newlines
  condRendered : Bool := false     -- a `Flat`/`Broken`-only tag was rendered (softbreak, softline)
  wsMerged : Bool := false         -- a space/break tag met already-buffered whitespace (max, not sum)
  unsupported : Bool := false      -- `Unindent` (never built by the AST printer)
  deriving DecidableEq, Repr, Inhabited

def Flags.none (f : Flags) : Bool :=
  !f.indentInjected && !f.condRendered && !f.wsMerged && !f.unsupported

def orFlags (a b : Flags) : Flags :=
  { indentInjected := a.indentInjected || b.indentInjected, condRendered := a.condRendered || b.condRendered,
    wsMerged := a.wsMerged || b.wsMerged, unsupported := a.unsupported || b.unsupported }

structure DSt where
  spaces : Nat := 0
  newlines : Nat := 0
  indentLen : Nat := 0
  flags : Flags := {}
  deriving Repr, Inhabited

def DSt.flag (p : DSt) (f : Flags) : DSt := { p with flags := orFlags p.flags f }

mutual
def diagTag : Cond → DSt → LTag → DSt
  | cond, p, .text c s _ _ _ =>
    if !renderIf c cond then p
    else if c != .always then p.flag { condRendered := true }
    else
      match kindOf s with
      | .text =>
        ({ p with spaces := 0, newlines := 0 } : DSt).flag
          { indentInjected := decide (p.newlines > 0) && decide (p.indentLen > 0) }
      | .space =>
        ({ p with spaces := max p.spaces s.length } : DSt).flag
          { wsMerged := decide (p.spaces > 0) || decide (p.newlines > 0) }
      | .brk =>
        ({ p with newlines := max p.newlines s.length } : DSt).flag
          { wsMerged := decide (p.spaces > 0) || decide (p.newlines > 0) }
  | _, p, .group c _ _ _ br kids =>
    if c != .always then p.flag { unsupported := true }   -- `GroupIf`: never built by the AST printer
    else diagList (if br then .broken else .flat) p kids
  | cond, p, .indent by_ _ _ _ kids =>
    let p1 := diagList cond { p with indentLen := p.indentLen + by_.length } kids
    { p1 with indentLen := p.indentLen }
  | _, p, .unindent _ _ _ _ => p.flag { unsupported := true }
def diagList : Cond → DSt → List LTag → DSt
  | _, p, [] => p
  | cond, p, t :: ts => diagList cond (diagTag cond p t) ts
end

/-- the instrumented run over the laid-out dom of one `dom.Render` call -/
def diagRender (o : Dom.Options) (d : List Tag) : DSt :=
  diagList .broken {} (layout o.withDefaults d)

mutual
def alwaysTextTag : Tag → Bytes
  | .text c s => if c == .always then s else []
  | .group _ _ kids => alwaysText kids
  | .indent _ kids => alwaysText kids
  | .unindent kids => alwaysText kids
/-- the texts of the `Always` text tags in document order -/
def alwaysText : List Tag → Bytes
  | [] => []
  | t :: r => alwaysTextTag t ++ alwaysText r
end

/-! ### cause labels -/

mutual
def dictSepsItem : Item → List Nat
  | .fused _ br _ kids _ _ =>
    (if br == .braces || br == .angles then
      kids.filterMap (fun k => match k with
        | .leaf id kw _ => if kw == .comma || kw == .semi then some id else none
        | _ => none)
     else []) ++ dictSeps kids
  | _ => []
/-- IDs of the `,` / `;` leaf tokens that stand directly inside a `{…}` / `<…>` pair -/
def dictSeps : List Item → List Nat
  | [] => []
  | it :: r => dictSepsItem it ++ dictSeps r
end

/-- the skippable tokens that are comments -/
def commentIds : List Piece → List Nat
  | [] => []
  | .sk s :: r => (if s.comment then [s.id] else []) ++ commentIds r
  | _ :: r => commentIds r

/-- plan-level causes of a failing round trip -/
def planCauses (e : Env) (items : List Item) (plans : List (List Plan)) (isFile : Bool) : List String :=
  let runs := plans.map (fun p => traceList e [] p)
  let tr := runs.flatMap (·.2)
  let want := piecesDFS items
  let droppedIds := (skipIds want).filter (fun id => !((bucketIds e.ix).contains id))
  let dropped := !droppedIds.isEmpty
  let droppedComment := droppedIds.any (fun id => (commentIds want).contains id)
  let missingToks := (natIds want).filter (fun id => !((natIds tr).contains id))
  let notPrinted := !missingToks.isEmpty
  let onlySeps := missingToks.all (fun id => (dictSeps items).contains id)
  let reordered := !increasing (tokIds tr)
  let pendingLeft := runs.any (fun r => !r.1.isEmpty)
  let exact := if isFile then tr == want
    else tr.length ≤ want.length && tr == want.take tr.length &&
         (want.drop tr.length).all (fun p => match p with | .sk _ => true | _ => false) &&
         (want.drop tr.length).length ≤ (items.reverse.takeWhile (fun it => match it with | .skip _ => true | _ => false)).length
  (if dropped then [if droppedComment then "comment-dropped" else "whitespace-dropped"] else []) ++
  (if notPrinted then [if onlySeps then "literal-separator-not-printed" else "token-not-printed"] else []) ++
  (if reordered then ["reordered"] else []) ++
  (if tr.contains .gap then ["gap-synthesized"] else []) ++
  (if tr.contains .reflow then ["comments-reflowed"] else []) ++
  (if pendingLeft then ["pending-left"] else []) ++
  (if !exact && !dropped && !notPrinted && !reordered && !tr.contains .gap && !tr.contains .reflow && !pendingLeft
   then ["trace-mismatch"] else [])

def flagCauses (f : Flags) : List String :=
  (if f.indentInjected then ["indent-injected"] else []) ++
  (if f.condRendered then ["softbreak-rendered"] else []) ++
  (if f.wsMerged then ["whitespace-merged"] else []) ++
  (if f.unsupported then ["unindent"] else [])

/-- the text of the file's trailing trivia: the skippable run after the last natural token -/
def trailingTrivia (items : List Item) : Bytes :=
  ((items.reverse.takeWhile (fun it => match it with | .skip _ => true | _ => false)).reverse).flatMap
    (fun it => match it with | .skip s => s.text | _ => [])

/-- second clause of C30: the per-declaration prints, concatenated, are the source minus (a
    suffix of) the file's trailing trivia -/
def concatClause (src cat tail : Bytes) : Bool :=
  cat.length ≤ src.length && src.take cat.length == cat && src.length - cat.length ≤ tail.length

/-- the end-of-output rule of `render` is harmless: nothing buffered and the text already ends
    in a newline, or exactly one buffered newline that the safeguard newline replaces -/
def eofOk (st : DSt) (out : Bytes) : Bool :=
  st.spaces == 0 && ((st.newlines == 0 && endsWithNL out) || (st.newlines == 1 && !endsWithNL out))

/-- The decidable condition under which `printFile` provably returns the source
    (`print_roundtrip_partial`): the plan emits every token once and in order, the instrumented
    renderer raises no flag, and the end-of-output rule is harmless. -/
def fileClean (e : Env) (items : List Item) (plan : List Plan) : Bool :=
  let d := execPlan e plan
  let st := diagRender (rtOptions false) d
  planFaithful e items plan && st.flags.none && eofOk st (renderState (rtOptions false) d).out

/-- causes for `PrintFile` in round-trip mode, attributed by layer: plan-level causes when the
    text pushed into the dom is not the source, dom-level causes when the rendering is not the
    text pushed into the dom -/
def fileCauses (e : Env) (items : List Item) (plan : List Plan) : List String :=
  let d := execPlan e plan
  let st := diagRender (rtOptions false) d
  let out := (renderState (rtOptions false) d).out
  (if alwaysText d != sourceOf items then planCauses e items [plan] true else []) ++
  (if render (rtOptions false) d != alwaysText d then
     flagCauses st.flags ++ (if !eofOk st out then ["eof-newline"] else [])
   else [])

/-- causes for the concatenation of `Print(decl)`, attributed the same way per declaration -/
def declCauses (e : Env) (items : List Item) (plans : List (List Plan)) : List String :=
  let doms := plans.map (execPlan e)
  let bad := doms.filter (fun d => render (rtOptions true) d != alwaysText d)
  let sts := bad.map (fun d => diagRender (rtOptions true) d)
  let fl := sts.foldl (fun a s => orFlags a s.flags) {}
  let src := sourceOf items
  let pushed := doms.flatMap alwaysText
  (if !concatClause src pushed (trailingTrivia items) then planCauses e items plans false else []) ++
  flagCauses fl ++
  (if sts.any (fun s => s.spaces > 0) then ["decl-end-space-lost"] else [])

end PCV.PrinterRT
