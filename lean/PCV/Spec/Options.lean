/-
Property oracles of the `options` (C20) and `optmodes` (C21) engines.

C21 (`specC21`) compares the three modes of the REAL interpreter with each other; it uses no model
and no reference semantics:
  strict succeeds ⇒ lenient result = strict result and nothing stays uninterpreted;
  strict succeeds ⇒ unlinked succeeds, what it leaves uninterpreted is a sub-list of the original
  statements (each one the original object, unchanged), its values are contained in strict's
  (`treeLe`), and the options message equals what the strict interpreter produces from exactly the
  consumed statements (answer part `C=`): nothing lost, nothing half-applied.

C20 (`specC20`) compares the strict result with `Ref`, a reference semantics transcribed from
protoc (descriptor.cc `OptionInterpreter::InterpretSingleOption / ExamineIfOptionIsSet /
SetOptionValue / SetAggregateOption`, parser.cc `ParseOption / ParseDefaultAssignment`,
text_format.cc `ConsumeField / ConsumeFieldValue`), written in a style of its own (an `RO` monad,
no flags, no partial states).  Where protoc's behaviour is a documented intentional difference
(`expectedDiffWithProtoc` in linker_test.go: members of a oneof set by separate statements) or could
not be anchored, `Ref` answers `noclaim` and the oracle answers `skip`.  The calibration ops
(`calib <accept|reject|diff> opt …`, transcribed from protoc-checked test tables of /repo) check
`Ref` itself on every run.
-/
import PCV.Model.OptionsWire
namespace PCV.OptionsSpec
open PCV.Options PCV.Options.OptionsWire PCV.Wire

/-! ## Trees printed by the harness -/

mutual
def parseTreeV : Nat → List Char → Option (PV × List Char)
  | 0, _ => none
  | _ + 1, [] => none
  | fuel + 1, c :: r =>
    if c == '{' then
      match r with
      | '}' :: r2 => some (.msg [], r2)
      | _ => (parseTreeF fuel r).map (fun (fs, r2) => (.msg fs, r2))
    else if c == '[' then
      match r with
      | ']' :: r2 => some (.many [], r2)
      | _ => (parseTreeL fuel r).map (fun (vs, r2) => (.many vs, r2))
    else if c == 'x' then
      let hex := r.takeWhile (fun d => (hexVal d).isSome)
      (bytesOfHexChars hex).map (fun b => (.bytes b, r.dropWhile (fun d => (hexVal d).isSome)))
    else
      let isNum := fun (d : Char) => d.isDigit || d == '-'
      let ds := (c :: r).takeWhile isNum
      (String.ofList ds).toInt?.map (fun n => (.num n, (c :: r).dropWhile isNum))
def parseTreeF : Nat → List Char → Option (List (Nat × PV) × List Char)
  | 0, _ => none
  | fuel + 1, cs =>
    let ds := cs.takeWhile Char.isDigit
    match (String.ofList ds).toNat?, cs.dropWhile Char.isDigit with
    | some n, '=' :: r =>
      match parseTreeV fuel r with
      | none => none
      | some (v, r2) =>
        match r2 with
        | ';' :: r3 => (parseTreeF fuel r3).map (fun (fs, r4) => ((n, v) :: fs, r4))
        | '}' :: r3 => some ([(n, v)], r3)
        | _ => none
    | _, _ => none
def parseTreeL : Nat → List Char → Option (List PV × List Char)
  | 0, _ => none
  | fuel + 1, cs =>
    match parseTreeV fuel cs with
    | none => none
    | some (v, r2) =>
      match r2 with
      | ',' :: r3 => (parseTreeL fuel r3).map (fun (vs, r4) => (v :: vs, r4))
      | ']' :: r3 => some ([v], r3)
      | _ => none
end

def parseTree (s : String) : Option PV :=
  match parseTreeV (s.length + 1) s.toList with
  | some (v, []) => some v
  | _ => none

/-- `a ⊑ b`: every field of `a` is in `b` with a contained value; lists of `a` embed in order into
    lists of `b`; scalars are equal. (Fuel only bounds the depth.) -/
def treeLe : Nat → PV → PV → Bool
  | 0, _, _ => false
  | fuel + 1, a, b =>
    match a, b with
    | .num x, .num y => x == y
    | .bytes x, .bytes y => x == y
    | .msg fa, .msg fb =>
      fa.all (fun p => match pmGet fb p.1 with | some w => treeLe fuel p.2 w | none => false)
    | .many xs, .many ys =>
      let rec embed (fuel2 : Nat) : List PV → List PV → Bool
        | [], _ => true
        | _ :: _, [] => false
        | x :: xr, y :: yr => if treeLe fuel2 x y then embed fuel2 xr yr else embed fuel2 (x :: xr) yr
      embed fuel xs ys
    | _, _ => false

/- remove fields that hold an empty message (recursively): the shape a failed name-path walk leaves behind -/
mutual
def pruneV : PV → PV
  | .msg fs => .msg (pruneF fs)
  | .many vs => .many (pruneL vs)
  | v => v
def pruneF : List (Nat × PV) → List (Nat × PV)
  | [] => []
  | (n, v) :: r =>
    match pruneV v with
    | .msg [] => pruneF r
    | w => (n, w) :: pruneF r
def pruneL : List PV → List PV
  | [] => []
  | v :: r => pruneV v :: pruneL r
end

def sameUpToEmptyMessages (a b : String) : Bool :=
  match parseTree a, parseTree b with
  | some x, some y => dumpV (pruneV x) == dumpV (pruneV y)
  | _, _ => false

/-! ## Answers -/

/-- one mode result of the harness -/
inductive ModeRes where
  | ok (tree : String) (rest : String) (dflt json : String)
  | err (cls : String)
  | panic (what : String)
  | other (s : String)     -- parseerr, linkerr …, -
deriving Repr, DecidableEq

def kvOf (ws : List String) (key : String) : String :=
  match ws.find? (fun w => w.startsWith key) with
  | some w => (w.drop key.length).toString
  | none => ""

def parseModeRes (s : String) : ModeRes :=
  match words s with
  | "ok" :: tree :: rest => .ok tree (kvOf rest "r=") (kvOf rest "d=") (kvOf rest "j=")
  | ["err", c] => .err c
  | "panic" :: w => .panic (" ".intercalate w)
  | _ => .other s

/-- what a mode result says about the further elements that share the options clause
    (`n=<k>` and, when one of them differs from the first, `DIFF <i>:<tree>,r=<rest>`) -/
def sharedPart (s : String) : String :=
  " ".intercalate ((words s).dropWhile (fun w => !w.startsWith "n="))

def hasDiff (s : String) : Bool := (words s).contains "DIFF"

/-- split `S=… L=… U=… C=…` -/
def splitModes (ans : String) : Option (String × String × String × String) :=
  match ans.splitOn " L=" with
  | [s, r1] =>
    match r1.splitOn " U=" with
    | [l, r2] =>
      match r2.splitOn " C=" with
      | [u, c] => if s.startsWith "S=" then some ((s.drop 2).toString, l, u, c) else none
      | _ => none
    | _ => none
  | _ => none

def strictlyIncreasing : List Nat → Bool
  | a :: b :: r => a < b && strictlyIncreasing (b :: r)
  | _ => true

def parseRestIdx (r : String) : Option (List Nat) :=
  if r == "-" then some [] else (r.splitOn ",").mapM String.toNat?

/-! ## C21 -/

def stripCalib (ws : List String) : List String :=
  match ws with
  | "calib" :: _ :: rest => rest
  | _ => ws

def specC21Main (st : Option Schema) (line ans : String) : Option Schema × String :=
  let ws := words line
  match ws with
  | "schema" :: _ :: _ :: "ABS" :: rest =>
    match schemaP rest with
    | some (s, []) => (some s, "skip")
    | _ => (none, "skip")
  | _ =>
  match splitModes ans with
  | none => (st, "skip")
  | some (s, l, u, c) =>
    match parseModeRes s with
    | .ok sTree sRest sD sJ =>
      if sTree == "marshal-error" then (st, "skip") else
      -- (1) lenient = strict
      match parseModeRes l with
      | .ok lTree lRest lD lJ =>
        if lTree != sTree || lD != sD || lJ != sJ || sharedPart l != sharedPart s then
          (st, "fails lenient-differs-from-strict " ++ lTree ++ " " ++ sharedPart l)
        else if lRest != sRest then (st, "fails lenient-rest-differs-from-strict " ++ lRest)
        else
          -- (2) unlinked
          match parseModeRes u with
          | .ok uTree uRest uD uJ =>
            match parseRestIdx uRest with
            | none => (st, "fails unlinked-rest-not-verbatim " ++ uRest)
            | some idx =>
              if !strictlyIncreasing idx then (st, "fails unlinked-rest-not-a-sublist " ++ uRest) else
              match parseTree uTree, parseTree sTree with
              | some ut, some stt =>
                if !treeLe 64 ut stt then (st, "fails unlinked-value-not-in-strict " ++ uTree)
                else if !(uD == "-" || uD == sD) then (st, "fails unlinked-default-differs " ++ uD)
                else
                  match parseModeRes c with
                  | .ok cTree cRest cD cJ =>
                    if cRest != "-" then (st, "skip") else
                    if hasDiff u then
                      (st, "fails unlinked-elements-of-one-clause-differ " ++ sharedPart u)
                    else if uTree != cTree then
                      (st, "fails unlinked-half-populated[" ++
                        (if sameUpToEmptyMessages uTree cTree then "empty-intermediate-message" else "other") ++
                        "] got=" ++ uTree ++ " consumed-only=" ++ cTree)
                    else if uD != cD || uJ != cJ then
                      (st, "fails unlinked-half-populated-pseudo got=" ++ uD ++ "/" ++ uJ ++ " consumed-only=" ++ cD ++ "/" ++ cJ)
                    else (st, "holds")
                  | _ => (st, "skip")
              | _, _ => (st, "fails bad-tree")
          | .panic w => (st, "fails unlinked-panics " ++ w)
          | .err cls => (st, "fails unlinked-rejects-accepted-file " ++ cls)
          | .other o => (st, "fails unlinked-rejects-accepted-file " ++ o)
      | .panic w => (st, "fails lenient-panics " ++ w)
      | .err cls => (st, "fails lenient-rejects-accepted-file " ++ cls)
      | .other o => (st, "fails lenient-rejects-accepted-file " ++ o)
    | _ => (st, "skip")

/-! ## Reference semantics (protoc) -/

inductive RO (α : Type) where
  | ok (a : α)
  | reject
  | noclaim (why : String)

def RO.map {α β} (f : α → β) : RO α → RO β
  | .ok a => .ok (f a) | .reject => .reject | .noclaim w => .noclaim w

instance : Monad RO where
  pure := .ok
  bind x f := match x with | .ok a => f a | .reject => .reject | .noclaim w => .noclaim w

structure RefCfg where
  /-- `-0` is a negative_int_value / a '-' token: not accepted for unsigned fields -/
  negZeroUnsigned : Bool := true
  /-- text format: inf / infinity / nan in any case -/
  ciFloatIdents : Bool := true
  /-- ExamineIfOptionIsSet looks at what was written, not at `Has` -/
  implicitZeroDup : Bool := true
  /-- required fields and feature lifetimes are validated on every element kind -/
  fieldValidation : Bool := true
  /-- missing required fields are reported even when the element has no custom option -/
  requiredAlways : Bool := true
deriving Repr, DecidableEq

def protoc : RefCfg := {}

def isSigned32 : Kind → Bool | .i32 => true | .s32 => true | .sfx32 => true | _ => false
def isSigned64 : Kind → Bool | .i64 => true | .s64 => true | .sfx64 => true | _ => false
def isUnsigned32 : Kind → Bool | .u32 => true | .fx32 => true | _ => false
def isUnsigned64 : Kind → Bool | .u64 => true | .fx64 => true | _ => false

/-- integer field kinds: the interval of accepted values -/
def intRange (k : Kind) : Option (Int × Int) :=
  if isSigned32 k then some (-2147483648, 2147483647)
  else if isUnsigned32 k then some (0, 4294967295)
  else if isSigned64 k then some (-9223372036854775808, 9223372036854775807)
  else if isUnsigned64 k then some (0, 18446744073709551615)
  else none

def floatIdent (cfg : RefCfg) (inside : Bool) (s : String) : Option Bool :=   -- some true = inf, some false = nan
  if s == "inf" then some true
  else if s == "nan" then some false
  else if inside && cfg.ciFloatIdents then
    let t := s.toLower
    if t == "inf" || t == "infinity" then some true
    else if t == "nan" then some false
    else none
  else none

/-- SetOptionValue (inside = false) and the scalar cases of text_format's ConsumeFieldValue
    (inside = true) for a scalar field kind. -/
def refScalar (cfg : RefCfg) (k : Kind) (v : AV) (inside : Bool) : RO PV :=
  match intRange k with
  | some (lo, hi) =>
    let unsigned := lo == 0
    match v with
    | .uint n => if (n : Int) ≤ hi then .ok (.num n) else .reject
    | .sint i =>
      if unsigned then
        -- written with a minus sign
        if cfg.negZeroUnsigned then .reject else (if i == 0 then .ok (.num 0) else .reject)
      else if lo ≤ i ∧ i ≤ hi then .ok (.num i) else .reject
    | _ => .reject
  | none =>
    match k with
    | .dbl =>
      match v with
      | .flt b => .ok (.num (canon64 b))
      | .uint n => .ok (.num (f64OfNat n))
      | .sint i => .ok (.num (f64OfInt i))
      | .ident s => match floatIdent cfg inside s with
        | some true => .ok (.num inf64) | some false => .ok (.num nan64) | none => .reject
      | _ => .reject
    | .flt =>
      match v with
      | .flt b => .ok (.num (f32OfF64 b))
      -- an option value: static_cast<float>(integer), one rounding. Inside a message literal protoc's
      -- text format reads every number as a double first: where that would round twice the
      -- reference stays silent (could not be anchored)
      | .uint n =>
        if inside && natToF32 n != f64ToF32 (natToF64 n) then .noclaim "integer-to-float-in-text-format-double-rounding"
        else .ok (.num (natToF32 n))
      | .sint i =>
        if inside && natToF32 i.natAbs != f64ToF32 (natToF64 i.natAbs) then .noclaim "integer-to-float-in-text-format-double-rounding"
        else .ok (.num (intToF32 i))
      | .ident s => match floatIdent cfg inside s with
        | some true => .ok (.num inf32) | some false => .ok (.num nan32) | none => .reject
      | _ => .reject
    | .bool =>
      match v with
      | .ident s =>
        if s == "true" then .ok (.num 1) else if s == "false" then .ok (.num 0)
        else if inside && (s == "True" || s == "t") then .ok (.num 1)
        else if inside && (s == "False" || s == "f") then .ok (.num 0)
        else .reject
      | .uint n => if inside && n ≤ 1 then .noclaim "bool-as-integer-in-text-format" else .reject
      | _ => .reject
    | .str => match v with | .str b => .ok (.bytes b) | _ => .reject
    | .bytes => match v with | .str b => .ok (.bytes b) | _ => .reject
    | _ => .reject

def refEnum (e : EnumS) (v : AV) (inside : Bool) : RO PV :=
  match v with
  | .ident s => match e.byName s with | some n => .ok (.num n) | none => .reject
  | .uint n =>
    if !inside then .reject
    else if (n : Int) > 2147483647 then .reject
    else if e.hasNum n then .ok (.num n) else if e.closed then .reject else .ok (.num n)
  | .sint i =>
    if !inside then .reject
    else if i < -2147483648 ∨ i > 2147483647 then .reject
    else if e.hasNum i then .ok (.num i) else if e.closed then .reject else .ok (.num i)
  | _ => .reject

def targetOK (target : Nat) (f : FieldS) : Bool := f.targets.isEmpty || f.targets.contains target

structure RCx where
  cfg : RefCfg
  sch : Schema
  target : Nat

def refFindLiteralField (s : Schema) (mi : Nat) (name : String) : Option FieldS :=
  let m := s.msg mi
  match findByName m.fields name with
  | some f => some f
  | none =>
    match findByName m.fields name.toLower with
    | some f =>
      match f.kind with
      | .group g => if name == (s.msg g).short && (s.msg g).parent == m.full then some f else none
      | _ => none
    | none => none

def otherOneofMemberSet (s : Schema) (mi : Nat) (pm : PM) (f : FieldS) : Bool :=
  f.extendee == "" && (match f.oneof with
    | none => false
    | some o => (s.msg mi).fields.any (fun g => g.oneof == some o && g.num != f.num && (pmGet pm g.num).isSome))

/- text format: the value(s) of one field and the message after storing them -/
mutual
def refTextValue (c : RCx) (f : FieldS) (v : AV) : RO PV :=
  match f.kind with
  | .enum e => refEnum (c.sch.enum e) v true
  | .msg m => match v with | .msg fs => RO.map PV.msg (refText c m fs fs.length []) | _ => .reject
  | .group m => match v with | .msg fs => RO.map PV.msg (refText c m fs fs.length []) | _ => .reject
  | k => refScalar c.cfg k v true

def refText (c : RCx) (mi : Nat) (fs : AFs) (n : Nat) (pm : PM) : RO PM :=
  match fs with
  | .nil => .ok pm
  | .cons name sep val rest =>
    match name with
    | .any host nm =>
      if n > 1 then .reject
      else if (c.sch.msg mi).full != "google.protobuf.Any" then .reject
      else if !anySchemaOK (c.sch.msg mi) then .noclaim "hand-written-google.protobuf.Any"
      else if host != "type.googleapis.com" && host != "type.googleprod.com" then .reject
      else match val with
        | .msg inner =>
          match c.sch.findMsg nm with
          | none => .reject
          | some ami =>
            match refText c ami inner inner.length [] with
            | .ok ipm =>
              if !utf8V c.sch ami (.msg ipm) then .noclaim "string-not-utf8"
              else if !reqV c.sch ami (.msg ipm) then .reject
              else
                let pm1 := pmSet pm 1 (.bytes (host ++ "/" ++ nm).toUTF8.toList)
                refText c mi rest n (if ipm.isEmpty then pmDel pm1 2 else pmSet pm1 2 (.msg ipm))
            | .reject => .reject
            | .noclaim w => .noclaim w
        | _ => .reject
    | nm =>
      let fo : Option FieldS :=
        match nm with
        | .ext fqn =>
          match c.sch.findExt fqn with
          | some f => if f.extendee != (c.sch.msg mi).full then none else some f   -- must extend this message
          | none => none
        | .plain n => refFindLiteralField c.sch mi n
        | _ => none
      match fo with
      | none => .reject
      | some f =>
        if (msgSetGate c.sch f).isSome then .noclaim "message-set-wire-format-unsupported-by-this-build"
        else if !targetOK c.target f then .reject
        else if !sep && !f.kind.isMessage then .reject
        else
          match val with
          | .arr vs =>
            if f.card != .rep then .reject
            else match refTextItems c f vs pm with
              | .ok pm2 => refText c mi rest n pm2
              | .reject => .reject
              | .noclaim w => .noclaim w
          | v =>
            match refTextValue c f v with
            | .ok pv =>
              if otherOneofMemberSet c.sch mi pm f then .reject
              else if f.isMap then refText c mi rest n (setMapEntry c.sch pm f pv)
              else if f.card == .rep then refText c mi rest n (appendList pm f pv)
              else if (pmGet pm f.num).isSome then .reject        -- specified multiple times
              else refText c mi rest n (pmStore pm f pv)
            | .reject => .reject
            | .noclaim w => .noclaim w

def refTextItems (c : RCx) (f : FieldS) (vs : AVs) (pm : PM) : RO PM :=
  match vs with
  | .nil => .ok pm
  | .cons v rest =>
    match refTextValue c f v with
    | .ok pv => refTextItems c f rest (if f.isMap then setMapEntry c.sch pm f pv else appendList pm f pv)
    | .reject => .reject
    | .noclaim w => .noclaim w
end

/-- the value of the innermost field of an option name -/
def refLeaf (c : RCx) (f : FieldS) (v : AV) : RO PV :=
  match f.kind with
  | .enum e => refEnum (c.sch.enum e) v false
  | .msg m => match v with | .msg fs => RO.map PV.msg (refText c m fs fs.length []) | _ => .reject
  | .group m => match v with | .msg fs => RO.map PV.msg (refText c m fs fs.length []) | _ => .reject
  | k => refScalar c.cfg k v false

def refResolve (c : RCx) (mi : Nat) (p : NamePart) : RO FieldS :=
  if p.isExt then
    match c.sch.findExt p.name with
    | none => .reject
    | some f =>
      if f.extendee != (c.sch.msg mi).full then .reject
      else if (msgSetGate c.sch f).isSome then .noclaim "message-set-wire-format-unsupported-by-this-build"
      else .ok f
  else
    match findByName (c.sch.msg mi).fields p.name with
    | none => .reject
    | some f => .ok f

/-- one option statement applied to what the earlier statements wrote (`pm` keeps explicit zeros
    when `implicitZeroDup`) -/
def refStmt (c : RCx) (mi : Nat) (pm : PM) (parts : List NamePart) (v : AV) : RO PM :=
  match parts with
  | [] => .reject
  | p :: rest =>
    match refResolve c mi p with
    | .reject => .reject
    | .noclaim w => .noclaim w
    | .ok f =>
      if !targetOK c.target f then .reject
      else if otherOneofMemberSet c.sch mi pm f then .noclaim "oneof-members-in-separate-statements"
      else
        match rest with
        | [] =>
          match refLeaf c f v with
          | .reject => .reject
          | .noclaim w => .noclaim w
          | .ok pv =>
            if f.isMap then .ok (setMapEntry c.sch pm f pv)
            else if f.card == .rep then .ok (appendList pm f pv)
            else if (pmGet pm f.num).isSome then .reject       -- Option "…" was already set.
            else if c.cfg.implicitZeroDup then .ok (pmSet pm f.num pv) else .ok (pmStore pm f pv)
        | _ :: _ =>
          if !f.kind.isMessage then .reject
          else if f.card == .rep then .reject
          else
            let sub : PM := match pmGet pm f.num with | some (.msg fs) => fs | _ => []
            match refStmt c f.kind.msgIdx sub rest v with
            | .ok sub2 => .ok (pmSet pm f.num (.msg sub2))
            | .reject => .reject
            | .noclaim w => .noclaim w

/- drop zero values of fields without presence (what parsing the written bytes yields) -/
mutual
def dropZV (s : Schema) (mi : Nat) : PV → PV
  | .msg fs => .msg (dropZF s mi fs)
  | .many vs => .many (dropZL s mi vs)
  | v => v
def dropZF (s : Schema) (mi : Nat) : List (Nat × PV) → List (Nat × PV)
  | [] => []
  | (n, v) :: r =>
    match s.fieldByNum mi n with
    | some f =>
      if !f.presence && f.card != .rep && v.isZero then dropZF s mi r
      else (n, if f.kind.isMessage && !f.isMap then dropZV s f.kind.msgIdx v else v) :: dropZF s mi r
    | none => (n, v) :: dropZF s mi r
def dropZL (s : Schema) (mi : Nat) : List PV → List PV
  | [] => []
  | v :: r => dropZV s mi v :: dropZL s mi r
end

def refStmts (c : RCx) (mi : Nat) : List Stmt → PM → RO PM
  | [], pm => .ok pm
  | st :: rest, pm =>
    if !firstIsExt st && firstName st == "uninterpreted_option" then .reject
    else match refStmt c mi pm st.parts st.val with
      | .ok pm2 => refStmts c mi rest pm2
      | .reject => .reject
      | .noclaim w => .noclaim w

structure RefResult where
  tree : String
  dflt : String
  json : String
deriving Repr, DecidableEq

def singleNamed (name : String) (st : Stmt) : Bool :=
  st.parts.length == 1 && !firstIsExt st && firstName st == name

/-- json_name / default of a field declaration (parser.cc, descriptor.cc) -/
def refPseudo (cfg : RefCfg) (s : Schema) (fc : FieldCtx) (stmts : List Stmt) : RO (String × String) :=
  let js := stmts.filter (singleNamed "json_name")
  let ds := stmts.filter (singleNamed "default")
  if js.length > 1 || ds.length > 1 then .reject else
  let jr : RO String :=
    match js with
    | [] => .ok ("x" ++ hexBytes (jsonName fc.name).toUTF8.toList)
    | j :: _ =>
      match j.val with
      | .str b =>
        if fc.isExtension && !b.isEmpty && b != (jsonName fc.name).toUTF8.toList then .reject
        else if b.head? == some 91 && b.getLast? == some 93 then .reject
        else .ok ("x" ++ hexBytes b)
      | _ => .reject
  match jr with
  | .reject => .reject
  | .noclaim w => .noclaim w
  | .ok json =>
    match ds with
    | [] => .ok ("-", json)
    | d :: _ =>
      if fc.repeated then .reject
      else match fc.kind with
        | .msg _ => .reject
        | .group _ => .reject
        | .enum e =>
          match d.val with
          | .ident nm => if ((s.enum e).byName nm).isSome then .ok ("x" ++ hexBytes nm.toUTF8.toList, json) else .reject
          | _ => .reject
        | .flt => .noclaim "float-default-text"
        | .dbl => .noclaim "float-default-text"
        | .bytes => .noclaim "bytes-default-escaping"
        | k =>
          match refScalar cfg k d.val false with
          | .reject => .reject
          | .noclaim w => .noclaim w
          | .ok (.bytes b) => .ok ("x" ++ hexBytes b, json)
          | .ok (.num n) =>
            if k == .bool then .ok ("x" ++ hexBytes (if n == 0 then "false" else "true").toUTF8.toList, json)
            else .ok ("x" ++ hexBytes (toString n).toUTF8.toList, json)
          | .ok _ => .reject

def hasBig (ws : List String) : Bool := ws.any (fun w => w.startsWith "bu:" || w.startsWith "bn:")

/-- protoc's result for one `opt` op -/
def refOp (cfg : RefCfg) (s : Schema) (op : Op) (ws : List String) : RO RefResult :=
  if hasBig ws then .noclaim "integer-literal-beyond-64-bits" else
  -- protoc's text format wants decimal numbers for float fields; which fields of a literal are
  -- float is not tracked here, so hex/octal spellings inside message literals are left alone
  if ws.contains "{" && ws.any (fun w => w.startsWith "ux:" || w.startsWith "ix:" || w.startsWith "uo:" || w.startsWith "io:") then
    .noclaim "hex-or-octal-integer-inside-message-literal" else
  let mi := s.optIdx.getD op.elem.optsIdx 0
  let c : RCx := ⟨cfg, s, op.elem.target⟩
  let isField := op.elem.fc.isSome
  -- (on a field, `default.x = …` does not parse in protoc; here it reaches refResolve, which finds no such field)
  let real := op.stmts.filter (fun st => !isPseudo isField st)
  -- standard options first, then custom options (two passes in protoc as well)
  let ordered := real.filter (fun st => !firstIsExt st) ++ real.filter firstIsExt
  match refStmts c mi ordered [] with
  | .reject => .reject
  | .noclaim w => .noclaim w
  | .ok pm =>
    if !utf8V s mi (.msg pm) then .noclaim "string-not-utf8" else
    let validated := cfg.fieldValidation || !isField || real.any firstIsExt
    if validated && (cfg.requiredAlways || real.any firstIsExt) && !reqV s mi (.msg pm) then .reject
    else if validated && !featuresOK s (edition op.syntaxTok) mi pm then .reject
    else
      let tree := dumpV (normV (dropZV s mi (.msg pm)))
      match op.elem.fc with
      | none => .ok ⟨tree, "", ""⟩
      | some fc =>
        match refPseudo cfg s fc op.stmts with
        | .reject => .reject
        | .noclaim w => .noclaim w
        | .ok (d, j) => .ok ⟨tree, d, j⟩

inductive Cmp where | agree | differ (why : String) | skip (why : String)

def cmpRef (r : RO RefResult) (impl : ModeRes) : Cmp :=
  match r with
  | .noclaim w => .skip w
  | .reject =>
    match impl with
    | .err _ => .agree
    | .ok t _ _ _ => .differ ("accepts-what-protoc-rejects got=" ++ t)
    | _ => .skip "not-interpreted"
  | .ok res =>
    match impl with
    | .ok t _ d j =>
      if t != res.tree then .differ ("value-differs got=" ++ t ++ " protoc=" ++ res.tree)
      else if d != res.dflt || j != res.json then
        .differ ("pseudo-option-differs got=" ++ d ++ "/" ++ j ++ " protoc=" ++ res.dflt ++ "/" ++ res.json)
      else .agree
    | .err cl => .differ ("rejects-what-protoc-accepts err=" ++ cl ++ " protoc=" ++ res.tree)
    | _ => .skip "not-interpreted"

/-- used to name a divergence: switching one protoc rule off makes the difference disappear -/
def isAgree : Cmp → Bool | .agree => true | .skip _ => true | _ => false

def specC20Main (st : Option Schema) (line ans : String) : Option Schema × String :=
  let ws0 := words line
  match ws0 with
  | "schema" :: _ :: _ :: "ABS" :: rest =>
    match schemaP rest with
    | some (s, []) => (some s, "skip")
    | _ => (none, "skip")
  | _ =>
  let expect : String := match ws0 with | "calib" :: e :: _ => e | _ => ""
  let ws := stripCalib ws0
  match st, parseOp ws with
  | some s0, some op =>
    let s := schemaFor s0 op.syntaxTok
    let impl := parseModeRes ans
    match impl with
    | .panic w =>
      (st, "fails impl-panics[" ++ (if w == "nil" then "nil-deref-on-field-name" else if w == "other" then "other"
        else "extension-of-another-message") ++ "] " ++ w)
    | .other _ => (st, "skip")
    | _ =>
      let ref := refOp protoc s op ws
      -- calibration of the reference semantics itself against the protoc-checked outcome
      let calibBad : Bool :=
        match expect, ref with
        | "accept", .ok _ => false
        | "reject", .reject => false
        | "diff", _ => false
        | "", _ => false
        | _, _ => true
      if calibBad then (st, "fails calibration-of-reference expected=" ++ expect) else
      if expect == "diff" then (st, "skip") else
      match impl with
      | .ok t r _ _ =>
        -- whatever protoc does with it, an accepted file must yield options that can be serialized
        if t == "marshal-error" then (st, "fails unserializable-options-after-success") else
        if r != "-" then (st, "fails uninterpreted-left-after-success " ++ r) else
        -- every element that shares the options clause is interpreted from the same statements
        if hasDiff ans then (st, "fails elements-of-one-clause-differ " ++ sharedPart ans) else
        match cmpRef ref impl with
        | .agree => (st, "holds")
        | .skip _ => (st, "skip")
        | .differ why =>
          let tag :=
            if isAgree (cmpRef (refOp { protoc with negZeroUnsigned := false } s op ws) impl) then "neg-zero-unsigned"
            else if isAgree (cmpRef (refOp { protoc with implicitZeroDup := false } s op ws) impl) then "implicit-zero-reassigned"
            else if isAgree (cmpRef (refOp { protoc with ciFloatIdents := false } s op ws) impl) then "float-ident-case"
            else if isAgree (cmpRef (refOp { protoc with fieldValidation := false } s op ws) impl) then "field-options-not-validated"
            else if isAgree (cmpRef (refOp { protoc with requiredAlways := false } s op ws) impl) then "required-unchecked-without-custom-options"
            else "other"
          (st, "fails protoc-divergence[" ++ tag ++ "] " ++ why)
      | _ =>
        match cmpRef ref impl with
        | .agree => (st, "holds")
        | .skip _ => (st, "skip")
        | .differ why =>
          let tag :=
            if isAgree (cmpRef (refOp { protoc with ciFloatIdents := false } s op ws) impl) then "float-ident-case"
            else if isAgree (cmpRef (refOp { protoc with negZeroUnsigned := false } s op ws) impl) then "neg-zero-unsigned"
            else if isAgree (cmpRef (refOp { protoc with implicitZeroDup := false } s op ws) impl) then "implicit-zero-reassigned"
            else "other"
          (st, "fails protoc-divergence[" ++ tag ++ "] " ++ why)
  | _, _ => (st, "skip")

/-! ## Runs of the real interpreter that the model does not predict (answer suffix after ` ~ `)

  P  = the same file handed over as a FileDescriptorProto without AST (the `…FromProto` value paths,
       prototext for aggregate values), interpreted strictly;   PL = the same, leniently
  R  = the strictly interpreted file serialized, read back without extension registry and
       interpreted again (descriptor input whose options are already interpreted)
  O  = the file without imports, interpreted with WithOverrideDescriptorProto(descriptor.proto)

These are agreement checks between paths of the REAL code (no model, no protoc reference):
  S ok ⇒ P = S;   for statements without message literals also S rejects ⇒ P rejects;
  S ok ⇒ R = S;   O present ⇒ O = S;   P ok ⇒ PL = P. -/

def splitOnce (s sep : String) : String × String :=
  match s.splitOn sep with
  | a :: b :: rest => (a, sep.intercalate (b :: rest))
  | _ => (s, "")

structure Extras where
  p : String
  r : String
  o : String
  pl : String
  pu : String := ""

def parseExtras (suffix : String) : Option Extras :=
  if !suffix.startsWith "P=" then none else
  let (p, r1) := splitOnce (suffix.drop 2).toString " R="
  let (r, r2) := splitOnce r1 " O="
  let (o, r3) := splitOnce r2 " PL="
  let (pl, pu) := splitOnce r3 " PU="
  some ⟨p, r, o, pl, pu⟩

def isOk (r : String) : Bool := r.startsWith "ok "
def isErr (r : String) : Bool := r.startsWith "err "

def hasLiteral (ws : List String) : Bool := ws.contains "{"

def hasRadixInt (ws : List String) : Bool :=
  ws.any (fun w => w.startsWith "ux:" || w.startsWith "ix:" || w.startsWith "uo:" || w.startsWith "io:")

/-- some decimal integer token whose float32 value depends on whether it is rounded once or via float64 -/
def hasDoubleRoundingInt (ws : List String) : Bool :=
  ws.any (fun w =>
    let d := if w.startsWith "u:" || w.startsWith "i:" then (w.drop 2).toString else ""
    match d.toNat? with
    | some n => natToF32 n != f64ToF32 (natToF64 n)
    | none => false)

def hasRepeatedName (ws : List String) : Bool :=
  let names := ws.filter (fun w => w.startsWith "n:")
  names.any (fun n => (names.filter (· == n)).length > 1)

/-- tokens that stand inside some message literal -/
def insideTokens : List String → Nat → List String
  | [], _ => []
  | w :: ws, d =>
    if w == "{" then insideTokens ws (d + 1)
    else if w == "}" then insideTokens ws (d - 1)
    else if d > 0 then w :: insideTokens ws d else insideTokens ws d

structure MFrame where
  entryLike : Bool := true
  last : String := ""
  counts : List (String × Nat) := []

inductive Frame where
  | lst
  | msg (f : MFrame)

/-- count one more entry-like child for the field named last in the nearest enclosing message;
    `none` when that field now has two -/
def bumpEntry : List Frame → Option (List Frame)
  | [] => some []
  | .lst :: rest => (bumpEntry rest).map (Frame.lst :: ·)
  | .msg f :: rest =>
    let c := ((f.counts.find? (·.1 == f.last)).map (·.2)).getD 0
    if c + 1 ≥ 2 then none
    else some (.msg { f with counts := (f.last, c + 1) :: f.counts.filter (·.1 != f.last) } :: rest)

/-- some field inside a message literal is given two or more values that can be map entries (message
    literals whose only field names are `key` / `value`, possibly none; as list elements or as
    repeated occurrences of the field): a later entry with the same key replaces an earlier one in
    the parsed message -/
def twoMapEntries : List String → List Frame → Bool
  | [], _ => false
  | w :: ws, st =>
    if w == "[" then twoMapEntries ws (.lst :: st)
    else if w == "{" then twoMapEntries ws (.msg {} :: st)
    else if w == "}" then
      match st with
      | .msg f :: rest =>
        if f.entryLike then
          match bumpEntry rest with
          | none => true
          | some rest' => twoMapEntries ws rest'
        else twoMapEntries ws rest
      | _ => twoMapEntries ws st
    else if w == "]" then
      match st with
      | .lst :: rest => twoMapEntries ws rest
      | _ => twoMapEntries ws st
    else if w.startsWith "n:" || w.startsWith "x:" || w.startsWith "a:" then
      match st with
      | .msg f :: rest =>
        twoMapEntries ws (.msg { f with entryLike := f.entryLike && (w == "n:key" || w == "n:value"), last := w } :: rest)
      | _ => twoMapEntries ws st
    else twoMapEntries ws st

/-- why the proto form may legitimately be known to differ (labels for known findings) -/
def protoFormCause (ws : List String) (s p : String) : String :=
  if hasRadixInt ws && hasLiteral ws then "hex-or-octal-integer-in-literal"
  else if ws.any (fun w => w.startsWith "ni:") && hasLiteral ws && isErr p then "negative-inf-nan-in-literal"
  else if (insideTokens ws 0).contains "i:0" && isErr p then "neg-zero-unsigned-in-literal"
  else if (insideTokens ws 0).contains "i:0" && isOk p then "neg-zero-float-sign-in-literal"
  else if ws.any (fun w => w.startsWith "bn:") && hasLiteral ws && isErr p then "big-negative-integer-in-literal"
  else if hasRepeatedName ws && isErr p then "field-without-presence-set-again-in-literal"
  else if hasLiteral ws && isOk p && isOk s && hasDoubleRoundingInt ws then "integer-to-float-rounded-twice-in-literal"
  else if isOk p && isOk s then "value"
  else "other"

def extrasVerdict (ws : List String) (s : String) (u : String) (e : Extras) : Option String :=
  if s.startsWith "parseerr" || s.startsWith "linkerr" || s.startsWith "panic" then none else
  if (words s).contains "marshal-error" then none else   -- reported by the main verdict
  if isOk s && e.p != s then
    some ("fails proto-form-differs[" ++ protoFormCause ws s e.p ++ "] source=" ++ s ++ " proto=" ++ e.p)
  else if !hasLiteral ws && isErr s && !isErr e.p then
    some ("fails proto-form-accepts-what-source-form-rejects source=" ++ s ++ " proto=" ++ e.p)
  -- with message literals the two parsers differ in what they accept, but where a field may be
  -- used (target types, message sets) does not depend on the parser
  -- (not when several map entries are written: a later entry with the same key replaces an earlier
  -- one in the parsed message, and the replaced value is never looked at in the proto form)
  else if (s == "err target" || s == "err msgset") && isOk e.p &&
      !twoMapEntries ws [] then
    some ("fails proto-form-ignores-field-usage[" ++ (if ws.any (fun w => w.startsWith "a:") then "inside-any" else "plain") ++
      "] source=" ++ s ++ " proto=" ++ e.p)
  else if isOk s && e.r != "-" && e.r != s then
    some ("fails reinterpretation-differs first=" ++ s ++ " again=" ++ e.r)
  else if e.o != "-" && e.o != "" && e.o != s then
    some ("fails override-descriptor-differs plain=" ++ s ++ " override=" ++ e.o)
  else if e.pl != "" && isOk e.p && e.pl != e.p then
    some ("fails proto-form-lenient-differs strict=" ++ e.p ++ " lenient=" ++ e.pl)
  else if e.pu != "" && isOk s && isOk u && e.pu != u then
    some ("fails proto-form-unlinked-differs source=" ++ u ++ " proto=" ++ e.pu)
  else none

def withExtras (main : Option Schema → String → String → Option Schema × String) (strictOf unlinkedOf : String → String)
    (st : Option Schema) (line ans : String) : Option Schema × String :=
  let (a, suffix) := splitOnce ans " ~ "
  let (st', v) := main st line a
  if v.startsWith "fails" then (st', v) else
  match parseExtras suffix with
  | none => (st', v)
  | some e =>
    match extrasVerdict (stripCalib (words line)) (strictOf a) (unlinkedOf a) e with
    | some f => (st', f)
    | none => (st', v)

def specC20 (st : Option Schema) (line ans : String) : Option Schema × String :=
  withExtras specC20Main (fun a => a) (fun _ => "") st line ans

def specC21 (st : Option Schema) (line ans : String) : Option Schema × String :=
  withExtras specC21Main (fun a => match splitModes a with | some (s, _, _, _) => s | none => a)
    (fun a => match splitModes a with | some (_, _, u, _) => u | none => "") st line ans

end PCV.OptionsSpec
