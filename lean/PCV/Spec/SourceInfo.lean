/-
Specifications for the source-code-info properties (C23, C03), independent of the model of
`sourceinfo/source_code_info.go`.  Everything here is evaluated by the engines on the REAL
compiler's output and is what the theorems of `PCV.Props.C23` / `PCV.Props.C03` say about the model.

* `descSchema`   — descriptor.proto as a table (message type, field number, repeated?, message type
                   of the field).  The `schema` op compares it on every run with
                   `descriptorpb`'s reflection data and the `tags` op compares the numbers used by
                   the model with /repo/internal/tags.
* `pathValid`    — "the path names an element or field that exists in the descriptor": walk the
                   path through the schema (field numbers) and the descriptor value (indexes).
* `spanOk`       — 3 or 4 elements, zero based, start ≤ end, inside the file.
* `stripComment`, `commentFromSource` — "each comment is text taken from the source".
* mode relations — `samePathsSpans`, `onlyAddsComments`, `subseqAdded`, `addedInsideOption`.
-/
namespace PCV.Spec.SourceInfo

abbrev Path := List Int
abbrev Bytes := List UInt8

/-! ### descriptor.proto as a table -/

structure SEntry where
  ty : Nat
  num : Int
  rep : Bool
  sub : Option Nat
deriving Repr, DecidableEq, Inhabited

/-- message type ids: 0 FileDescriptorProto, 1 DescriptorProto, 2 FieldDescriptorProto,
    3 OneofDescriptorProto, 4 EnumDescriptorProto, 5 EnumValueDescriptorProto,
    6 ServiceDescriptorProto, 7 MethodDescriptorProto, 8 DescriptorProto.ExtensionRange,
    9 DescriptorProto.ReservedRange, 10 EnumDescriptorProto.EnumReservedRange, 11 FileOptions,
    12 MessageOptions, 13 FieldOptions, 14 OneofOptions, 15 EnumOptions, 16 EnumValueOptions,
    17 ServiceOptions, 18 MethodOptions, 19 ExtensionRangeOptions, 20 UninterpretedOption,
    21 UninterpretedOption.NamePart, 22 FeatureSet, 23 FieldOptions.EditionDefault,
    24 FieldOptions.FeatureSupport, 25 ExtensionRangeOptions.Declaration, 26 SourceCodeInfo,
    27 SourceCodeInfo.Location; ids ≥ 1000 are file-specific (custom option types). -/
def descSchema : List SEntry := [
  ⟨0, 1, false, none⟩, ⟨0, 2, false, none⟩, ⟨0, 3, true, none⟩, ⟨0, 4, true, some 1⟩,
  ⟨0, 5, true, some 4⟩, ⟨0, 6, true, some 6⟩, ⟨0, 7, true, some 2⟩, ⟨0, 8, false, some 11⟩,
  ⟨0, 9, false, some 26⟩, ⟨0, 10, true, none⟩, ⟨0, 11, true, none⟩, ⟨0, 12, false, none⟩,
  ⟨0, 14, false, none⟩, ⟨0, 15, true, none⟩, ⟨1, 1, false, none⟩, ⟨1, 2, true, some 2⟩,
  ⟨1, 3, true, some 1⟩, ⟨1, 4, true, some 4⟩, ⟨1, 5, true, some 8⟩, ⟨1, 6, true, some 2⟩,
  ⟨1, 7, false, some 12⟩, ⟨1, 8, true, some 3⟩, ⟨1, 9, true, some 9⟩, ⟨1, 10, true, none⟩,
  ⟨1, 11, false, none⟩, ⟨2, 1, false, none⟩, ⟨2, 2, false, none⟩, ⟨2, 3, false, none⟩,
  ⟨2, 4, false, none⟩, ⟨2, 5, false, none⟩, ⟨2, 6, false, none⟩, ⟨2, 7, false, none⟩,
  ⟨2, 8, false, some 13⟩, ⟨2, 9, false, none⟩, ⟨2, 10, false, none⟩, ⟨2, 17, false, none⟩,
  ⟨3, 1, false, none⟩, ⟨3, 2, false, some 14⟩, ⟨4, 1, false, none⟩, ⟨4, 2, true, some 5⟩,
  ⟨4, 3, false, some 15⟩, ⟨4, 4, true, some 10⟩, ⟨4, 5, true, none⟩, ⟨4, 6, false, none⟩,
  ⟨5, 1, false, none⟩, ⟨5, 2, false, none⟩, ⟨5, 3, false, some 16⟩, ⟨6, 1, false, none⟩,
  ⟨6, 2, true, some 7⟩, ⟨6, 3, false, some 17⟩, ⟨7, 1, false, none⟩, ⟨7, 2, false, none⟩,
  ⟨7, 3, false, none⟩, ⟨7, 4, false, some 18⟩, ⟨7, 5, false, none⟩, ⟨7, 6, false, none⟩,
  ⟨8, 1, false, none⟩, ⟨8, 2, false, none⟩, ⟨8, 3, false, some 19⟩, ⟨9, 1, false, none⟩,
  ⟨9, 2, false, none⟩, ⟨10, 1, false, none⟩, ⟨10, 2, false, none⟩, ⟨11, 1, false, none⟩,
  ⟨11, 8, false, none⟩, ⟨11, 9, false, none⟩, ⟨11, 10, false, none⟩, ⟨11, 11, false, none⟩,
  ⟨11, 16, false, none⟩, ⟨11, 17, false, none⟩, ⟨11, 18, false, none⟩, ⟨11, 20, false, none⟩,
  ⟨11, 23, false, none⟩, ⟨11, 27, false, none⟩, ⟨11, 31, false, none⟩, ⟨11, 36, false, none⟩,
  ⟨11, 37, false, none⟩, ⟨11, 39, false, none⟩, ⟨11, 40, false, none⟩, ⟨11, 41, false, none⟩,
  ⟨11, 44, false, none⟩, ⟨11, 45, false, none⟩, ⟨11, 50, false, some 22⟩, ⟨11, 999, true, some 20⟩,
  ⟨12, 1, false, none⟩, ⟨12, 2, false, none⟩, ⟨12, 3, false, none⟩, ⟨12, 7, false, none⟩,
  ⟨12, 11, false, none⟩, ⟨12, 12, false, some 22⟩, ⟨12, 999, true, some 20⟩, ⟨13, 1, false, none⟩,
  ⟨13, 2, false, none⟩, ⟨13, 3, false, none⟩, ⟨13, 5, false, none⟩, ⟨13, 6, false, none⟩,
  ⟨13, 10, false, none⟩, ⟨13, 15, false, none⟩, ⟨13, 16, false, none⟩, ⟨13, 17, false, none⟩,
  ⟨13, 19, true, none⟩, ⟨13, 20, true, some 23⟩, ⟨13, 21, false, some 22⟩, ⟨13, 22, false, some 24⟩,
  ⟨13, 999, true, some 20⟩, ⟨14, 1, false, some 22⟩, ⟨14, 999, true, some 20⟩, ⟨15, 2, false, none⟩,
  ⟨15, 3, false, none⟩, ⟨15, 6, false, none⟩, ⟨15, 7, false, some 22⟩, ⟨15, 999, true, some 20⟩,
  ⟨16, 1, false, none⟩, ⟨16, 2, false, some 22⟩, ⟨16, 3, false, none⟩, ⟨16, 4, false, some 24⟩,
  ⟨16, 999, true, some 20⟩, ⟨17, 33, false, none⟩, ⟨17, 34, false, some 22⟩, ⟨17, 999, true, some 20⟩,
  ⟨18, 33, false, none⟩, ⟨18, 34, false, none⟩, ⟨18, 35, false, some 22⟩, ⟨18, 999, true, some 20⟩,
  ⟨19, 2, true, some 25⟩, ⟨19, 3, false, none⟩, ⟨19, 50, false, some 22⟩, ⟨19, 999, true, some 20⟩,
  ⟨20, 2, true, some 21⟩, ⟨20, 3, false, none⟩, ⟨20, 4, false, none⟩, ⟨20, 5, false, none⟩,
  ⟨20, 6, false, none⟩, ⟨20, 7, false, none⟩, ⟨20, 8, false, none⟩, ⟨21, 1, false, none⟩,
  ⟨21, 2, false, none⟩, ⟨22, 1, false, none⟩, ⟨22, 2, false, none⟩, ⟨22, 3, false, none⟩,
  ⟨22, 4, false, none⟩, ⟨22, 5, false, none⟩, ⟨22, 6, false, none⟩, ⟨22, 7, false, none⟩,
  ⟨22, 8, false, none⟩, ⟨23, 2, false, none⟩, ⟨23, 3, false, none⟩, ⟨24, 1, false, none⟩,
  ⟨24, 2, false, none⟩, ⟨24, 3, false, none⟩, ⟨24, 4, false, none⟩, ⟨25, 1, false, none⟩,
  ⟨25, 2, false, none⟩, ⟨25, 3, false, none⟩, ⟨25, 5, false, none⟩, ⟨25, 6, false, none⟩,
  ⟨26, 1, true, some 27⟩, ⟨27, 1, true, none⟩, ⟨27, 2, true, none⟩, ⟨27, 3, false, none⟩,
  ⟨27, 4, false, none⟩, ⟨27, 6, true, none⟩
]

/-- the order in which the `schema` op lists the table -/
def descSchemaSorted : List SEntry := descSchema

/-- the *Options message types -/
def isOptionsType (ty : Nat) : Bool := 11 ≤ ty && ty ≤ 19

def lookupField (sch : List SEntry) (ty : Nat) (num : Int) : Option SEntry :=
  sch.find? (fun e => e.ty == ty && e.num == num)

/-! ### descriptor values (shape only) -/

/-- a message value: its populated fields, each with the list of its elements (a singular field
    has one element; a scalar element is `mk []`) -/
inductive DTree where
  | mk (fields : List (Int × List DTree))
deriving Repr, Inhabited

def DTree.elems : DTree → Int → List DTree
  | .mk fs, num => ((fs.find? (fun p => p.1 == num)).map (·.2)).getD []

/-- **pathValid.** `opq ty` marks message types below which every path is accepted (used by
    the theorems, where the option interpreter is not modelled; the engines use `fun _ => false`). -/
def pathValid (sch : List SEntry) (opq : Nat → Bool) : Nat → DTree → Path → Bool
  | _, _, [] => true
  | ty, t, num :: rest =>
    if opq ty then true else
    match lookupField sch ty num with
    | none => false
    | some e =>
      if e.rep then
        match rest with
        | [] => true
        | i :: rest' =>
          if i < 0 then false else
          match (t.elems num)[i.toNat]? with
          | none => false
          | some child =>
            match e.sub with
            | none => rest'.isEmpty
            | some ty' => pathValid sch opq ty' child rest'
      else
        match e.sub with
        | none => rest.isEmpty
        | some ty' => pathValid sch opq ty' ((t.elems num).headD (.mk [])) rest

/-- does the path go through an options field and continue below it (i.e. address something inside
    an options message)? -/
def insideOptions (sch : List SEntry) : Nat → Path → Bool
  | _, [] => false
  | ty, num :: rest =>
    if isOptionsType ty then true else
    match lookupField sch ty num with
    | none => false
    | some e =>
      match e.sub with
      | none => false
      | some ty' =>
        if e.rep then
          match rest with
          | [] => false
          | _ :: rest' => insideOptions sch ty' rest'
        else insideOptions sch ty' rest

/-! ### spans -/

def isRuneStart (b : UInt8) : Bool := b.toNat / 64 != 2

/-- column advance of one byte: tab to the next multiple of 8, one per character -/
def colStep (col : Nat) (b : UInt8) : Nat :=
  if b = 9 then col + (8 - col % 8) else if isRuneStart b then col + 1 else col

def lineWidthsGo (cur : Nat) : Bytes → List Nat
  | [] => [cur]
  | b :: bs => if b = 10 then cur :: lineWidthsGo 0 bs else lineWidthsGo (colStep cur b) bs

/-- width in columns of every line of the file (the newline excluded); never empty -/
def lineWidths (data : Bytes) : List Nat := lineWidthsGo 0 data

/-- zero-based (line, col) lies in the file: the line exists and the column is at most its width -/
def inFile (ws : List Nat) (line col : Int) : Bool :=
  0 ≤ line && 0 ≤ col &&
  match ws[line.toNat]? with
  | some w => col ≤ (w : Int)
  | none => false

/-- **spanOk**: three elements (one line) or four (start line < end line), start ≤ end, inside the file -/
def spanOk (ws : List Nat) (span : List Int) : Bool :=
  match span with
  | [l, c1, c2] => c1 ≤ c2 && inFile ws l c1 && inFile ws l c2
  | [l1, c1, l2, c2] => l1 < l2 && inFile ws l1 c1 && inFile ws l2 c2
  | _ => false

/-! ### comments -/

def isBlank (b : UInt8) : Bool := b == 32 || b == 9

/-- body of a block comment, streaming: `atStart` = only blanks seen since the last newline -/
def stripBlockGo : Bool → Bytes → Bytes
  | _, [] => []
  | atStart, b :: bs =>
    if b == 10 then 10 :: stripBlockGo true bs
    else if atStart then
      if isBlank b then stripBlockGo true bs
      else if b == 42 then stripBlockGo false bs
      else b :: stripBlockGo false bs
    else b :: stripBlockGo false bs

/-- descriptor.proto: "Only the comment content is provided; comment markers (e.g. //) are stripped
    out.  For block comments, leading whitespace and an asterisk will be stripped from the
    beginning of each line other than the first.  Newlines are included in the output."
    `raw` is the comment with its markers, `nl` = a newline follows a line comment. -/
def stripComment (raw : Bytes) (nl : Bool) : Bytes :=
  if raw.take 2 == [47, 47] then raw.drop 2 ++ (if nl then [10] else [])
  else stripBlockGo false ((raw.drop 2).take (raw.length - 4))

def isPrefixOf (a b : Bytes) : Bool := a == b.take a.length

/-- can `text` be written as the concatenation of the stripped texts of a prefix of `cs`? -/
def matchRun : List Bytes → Bytes → Bool
  | _, [] => true
  | [], _ :: _ => false
  | c :: cs, text => isPrefixOf c text && matchRun cs (text.drop c.length)

def matchAnyRun : List Bytes → Bytes → Bool
  | [], text => text.isEmpty
  | c :: cs, text => matchRun (c :: cs) text || matchAnyRun cs text

/-- **commentFromSource**: `text` is the stripped content of a run of consecutive comments that
    stand between two tokens of the file (`gaps` = for every gap between tokens its comments,
    already stripped) -/
def commentFromSource (gaps : List (List Bytes)) (text : Bytes) : Bool :=
  gaps.any (fun g => matchAnyRun g text)


/-! ### protoc's comment attribution (reference semantics for C03)

Transcription of `io::Tokenizer::NextWithComments` and its `CommentCollector` (protobuf
src/google/protobuf/io/tokenizer.cc, the version with `MaybeDetachComment`, i.e. protoc ≥ 22; the
repository's protoc artefacts are from 33.x), on the stream of comments between the token that ends a
declaration (`;`, `{`, `}`; or the start of the file) and the next token.  Everything between two
tokens is whitespace and comments, so the character-level algorithm is determined by, for each
comment, its style and its first and last line, plus the lines of the two tokens and whether the next
token is `}`/`]`/`)` or the end of the file.  The documented rules (descriptor.proto, message
`SourceCodeInfo.Location`) are instances: a comment on the line of the previous token is its
trailing comment; line comments on consecutive lines form one comment; a blank line ends a paragraph
(detached); the comment directly before the next token is its leading comment; a comment right after
the previous token and followed by a blank line or a closing brace is trailing.

Each result carries the list of clauses (branches) that produced it.  `anchoredClauses` are the
branches exercised — with the expected result — by the calibration run against protoc's own output for
the three files of internal/testdata/source_info.protoset, plus those spelled out in descriptor.proto;
the engine raises an alarm only for gaps decided by anchored clauses (DESIGN.md 3.4). -/

/-- a comment of the stream: identifier, `//` style?, first and last line -/
structure SC where
  id : Nat
  isLine : Bool
  sl : Nat
  el : Nat
deriving Repr, DecidableEq, Inhabited

inductive NextTok where
  | eof | closer | other        -- closer = `}` `]` `)`
deriving Repr, DecidableEq, Inhabited

/-- `CommentCollector` -/
structure Coll where
  buf : List SC := []            -- comment_buffer_ (has_comment_ = buf ≠ [])
  bufIsLine : Bool := false
  canAttach : Bool := true       -- can_attach_to_prev_
  trailing : List SC := []
  hasTrailing : Bool := false
  detached : List (List SC) := []
  num : Nat := 0                 -- num_comments_
  clauses : List String := []
deriving Repr, Inhabited

def Coll.note (c : Coll) (s : String) : Coll :=
  if c.clauses.contains s then c else { c with clauses := c.clauses ++ [s] }

/-- `Flush()` -/
def Coll.flush (c : Coll) : Coll :=
  if c.buf.isEmpty then c
  else if c.canAttach then
    ({ c with trailing := c.trailing ++ c.buf, hasTrailing := true, canAttach := false, buf := [], num := c.num + 1 }).note "flush-trailing"
  else ({ c with detached := c.detached ++ [c.buf], buf := [], num := c.num + 1 }).note "flush-detached"

/-- `GetBufferForLineComment()` + reading the comment -/
def Coll.addLine (c : Coll) (x : SC) : Coll :=
  let c := if !c.buf.isEmpty && !c.bufIsLine then (c.flush).note "line-after-block" else c
  let c := if !c.buf.isEmpty then c.note "line-group" else c
  { c with buf := c.buf ++ [x], bufIsLine := true }

/-- `GetBufferForBlockComment()` + reading the comment -/
def Coll.addBlock (c : Coll) (x : SC) : Coll :=
  let c := if !c.buf.isEmpty then (c.flush).note "block-flushes-previous" else c
  { c with buf := [x], bufIsLine := false }

/-- `MaybeDetachComment()`; `why` labels the condition under which it was called -/
def Coll.maybeDetach (c : Coll) (why : String) : Coll :=
  let count := c.num + (if c.buf.isEmpty then 0 else 1)
  if count == 1 then
    let c := if c.hasTrailing then
        ({ c with detached := c.trailing :: c.detached, trailing := [], hasTrailing := false }).note "detach-was-trailing"
      else c
    (({ c with canAttach := false }.flush).note "detach-single").note why
  else c

/-- a completely blank line: `Flush(); DetachFromPrev();` (the clause is recorded only if it has an effect) -/
def Coll.blank (c : Coll) (why : String) : Coll :=
  let c' := { c.flush with canAttach := false }
  if c.buf.isEmpty && !c.canAttach then c' else c'.note why

/-- the loop of `NextWithComments`: `line` is the line the cursor is on; `atStart` = the cursor is at
    the beginning of that line (a newline has just been consumed) -/
def refLoop (nStart : Nat) (nt : NextTok) (prevLine : Nat) (trailEnd : Option Nat) :
    Nat → Bool → Coll → List SC → Coll
  | line, atStart, c, [] =>
    -- the next token is `nStart - line` lines further down: every line in between is blank
    let c := if atStart && nStart > line then c.blank "blank-line-before-token" else c
    let c := match nt with
      | .eof => if c.buf.isEmpty then c else (c.flush).note "eof-flush"
      | .closer => if c.buf.isEmpty then c else (c.flush).note "closer-flush"
      | .other => c
    if nt != .eof && (prevLine == nStart || trailEnd == some nStart) then
      c.maybeDetach (if prevLine == nStart then
          (if c.clauses.contains "file-start" then "first-token-on-first-line" else "same-line-as-prev")
        else "same-line-as-trailing-end")
    else c
  | line, atStart, c, x :: rest =>
    let c := if atStart && x.sl > line then c.blank "blank-line" else c
    let next := match rest with
      | y :: _ => y.sl
      | [] => nStart
    if x.isLine then
      refLoop nStart nt prevLine trailEnd (x.el + 1) true (c.addLine x) rest
    else
      -- after a block comment the rest of the line, newline included, is consumed if it is blank
      refLoop nStart nt prevLine trailEnd (if next > x.el then x.el + 1 else x.el) (next > x.el) (c.addBlock x) rest

structure RefResult where
  trailing : List SC
  detached : List (List SC)
  leading : List SC
  clauses : List String
deriving Repr, Inhabited

/-- `NextWithComments` for the comments `cs` between a token ending on line `prev` (`none` = start of
    the file) and the next token on line `nStart` -/
def protocRef (prev : Option Nat) (cs : List SC) (nStart : Nat) (nt : NextTok) : RefResult :=
  let fin := fun (c : Coll) => ({ trailing := c.trailing, detached := c.detached, leading := c.buf, clauses := c.clauses } : RefResult)
  match prev with
  | none =>
    -- TYPE_START: collector.DetachFromPrev(); the cursor is at the start of line 1
    fin (refLoop nStart nt 1 none 1 true (({ canAttach := false } : Coll).note "file-start") cs)
  | some p =>
    match cs with
    | x :: rest =>
      if x.sl == p then
        let next := match rest with
          | y :: _ => y.sl
          | [] => nStart
        if x.isLine then
          -- trailing line comment: flushed at once
          let c := (({} : Coll).addLine x).flush.note "same-line-line-comment"
          fin (refLoop nStart nt p (some p) (x.el + 1) true c rest)
        else if next > x.el then
          let c := (({} : Coll).addBlock x).flush.note "same-line-block-then-newline"
          fin (refLoop nStart nt p (some x.el) (x.el + 1) true c rest)
        else
          -- the next token or comment is on the line the block comment ends on: not flushed
          let c := (({} : Coll).addBlock x).note "same-line-block-no-newline"
          fin (refLoop nStart nt p (some x.el) x.el false c rest)
      else
        -- no comment on the previous token's line; a newline follows it
        fin (refLoop nStart nt p none (p + 1) true (({} : Coll).note "newline-after-prev") cs)
    | [] =>
      if nStart == p then fin (({} : Coll).note "no-comments")
      else fin (refLoop nStart nt p none (p + 1) true (({} : Coll).note "newline-after-prev") [])

/-- clauses exercised (with protoc's own result as the expected one) by the calibration against
    internal/testdata/source_info.protoset; checked on every run by the `calib-summary` op -/
def calibratedClauses : List String :=
  ["file-start", "same-line-as-prev", "newline-after-prev", "blank-line-before-token", "closer-flush",
   "blank-line", "line-group", "flush-trailing", "same-line-line-comment", "flush-detached",
   "block-flushes-previous", "line-after-block", "no-comments", "same-line-block-then-newline",
   "same-line-block-no-newline", "detach-single", "same-line-as-trailing-end", "detach-was-trailing"]

/-- clauses spelled out in descriptor.proto's documentation of `SourceCodeInfo.Location` -/
def documentedClauses : List String :=
  ["same-line-line-comment", "line-group", "blank-line", "flush-trailing", "flush-detached",
   "newline-after-prev", "blank-line-before-token", "block-flushes-previous", "no-comments"]

def anchoredClauses : List String := calibratedClauses ++ documentedClauses

/-! ### locations and the relations between modes -/

structure Loc where
  path : Path
  span : List Int
  lead : Option Bytes
  trail : Option Bytes
  detached : List Bytes
deriving Repr, DecidableEq, Inhabited

def samePathsSpans (a b : List Loc) : Bool :=
  a.map (fun l => (l.path, l.span)) == b.map (fun l => (l.path, l.span))

def optKept : Option Bytes → Option Bytes → Bool
  | none, _ => true
  | some x, some y => x == y
  | some _, none => false

/-- every comment of `std` is still there, unchanged, in `extra` -/
def keepsComments (std extra : Loc) : Bool :=
  optKept std.lead extra.lead && optKept std.trail extra.trail &&
  (std.detached.isEmpty || std.detached == extra.detached)

def onlyAddsComments : List Loc → List Loc → Bool
  | [], [] => true
  | a :: as, b :: bs => keepsComments a b && onlyAddsComments as bs
  | _, _ => false

/-- greedy subsequence match of `base` in `ext` under `eq`; returns the unmatched (added) elements of `ext` -/
def subseqAdded (eq : Loc → Loc → Bool) : List Loc → List Loc → Option (List Loc)
  | [], ext => some ext
  | _ :: _, [] => none
  | b :: bs, e :: es =>
    if eq b e then subseqAdded eq bs es
    else (subseqAdded eq (b :: bs) es).map (e :: ·)

/-- zero-based span as (start line, start col, end line, end col) -/
def spanQuad (s : List Int) : Option (Int × Int × Int × Int) :=
  match s with
  | [l, c1, c2] => some (l, c1, l, c2)
  | [l1, c1, l2, c2] => some (l1, c1, l2, c2)
  | _ => none

def posLe (l1 c1 l2 c2 : Int) : Bool := l1 < l2 || (l1 == l2 && c1 ≤ c2)

def spanWithin (inner outer : List Int) : Bool :=
  match spanQuad inner, spanQuad outer with
  | some (a, b, c, d), some (a', b', c', d') => posLe a' b' a b && posLe c d c' d'
  | _, _ => false

/-- an added location lies inside an option value: its path strictly extends the path of a location
    of the base mode that is itself inside an options message, and its span lies within that
    location's span -/
def addedInsideOption (sch : List SEntry) (base : List Loc) (added : Loc) : Bool :=
  base.any fun b =>
    insideOptions sch 0 b.path && b.path.length < added.path.length &&
    b.path == added.path.take b.path.length && spanWithin added.span b.span

end PCV.Spec.SourceInfo
