/-
Abstract specification of the root reporter.Handler used both by the theorems (Props.C08) and by
the property oracle of the `reporter` engine. Core Lean only.
-/
import PCV.Model.Reporter
namespace PCV.Spec.Reporter
open PCV.Reporter

/-- Abstract spec of the root: fold over the handled errors `(withPos, e)`. -/
def specStep (rep : Nat → Err → Option Err) (r : HState × List Err) (x : Bool × Err) : HState × List Err :=
  match r.1.err with
  | some _ => r
  | none =>
    if x.1 then ({ errsReported := true, err := rep r.2.length x.2 }, r.2 ++ [x.2])
    else ({ r.1 with err := some x.2 }, r.2)


end PCV.Spec.Reporter
