-- ENGINE: retention => PCV.Engines.retention
/-
Line protocol of the `retention` engine (C22).

op      strip <mode> <srchex> T <elem> L <locs>
          <mode>/<srchex> tell the Go side what to compile; Lean only reads the abstract tree.
elem    <kind> <tag> <idx> <opts> <nkids> <elem>*           kind ∈ F M f o r E v S m
        (answers carry a sharing flag after <idx>: `=` same pointer as the input, `~` copy)
opts    -  |  <n> <otree>*
otree   <num> <ret> <val> <nkids> <otree>*                   ret ∈ n u r s i
locs    -  |  <n> <path>*         path = `_` (empty) or dotted numbers
answer  T <elem with flags> L <locs> in=<0|1> rest=<0|1> idem=<same|equal|differs>
-/
import PCV.Engine
import PCV.Util.Wire
import PCV.Model.Retention
namespace PCV.Engines
open PCV.Wire PCV.Retention

namespace RetentionWire

def parseRet : String → Option Ret
  | "n" => some .unset | "u" => some .unknown | "r" => some .runtime
  | "s" => some .source | "i" => some .item | _ => none

def showRet : Ret → String
  | .unset => "n" | .unknown => "u" | .runtime => "r" | .source => "s" | .item => "i"

def parseKind : String → Option Kind
  | "F" => some .file | "M" => some .message | "f" => some .field | "o" => some .oneof
  | "r" => some .extRange | "E" => some .enum | "v" => some .enumValue
  | "S" => some .service | "m" => some .method | _ => none

def showKind : Kind → String
  | .file => "F" | .message => "M" | .field => "f" | .oneof => "o" | .extRange => "r"
  | .enum => "E" | .enumValue => "v" | .service => "S" | .method => "m"

def parsePath (s : String) : Option Path :=
  if s == "_" then some [] else (s.splitOn ".").mapM String.toNat?

def showPath (p : Path) : String :=
  if p.isEmpty then "_" else ".".intercalate (p.map toString)

mutual
def parseO : Nat → List String → Option (OTree × List String)
  | 0, _ => none
  | fuel + 1, num :: ret :: val :: nk :: rest => do
    let n ← num.toNat?
    let r ← parseRet ret
    let v ← val.toNat?
    let k ← nk.toNat?
    let (ks, rest') ← parseOs fuel k rest
    pure (.node n r v ks, rest')
  | _ + 1, _ => none
def parseOs : Nat → Nat → List String → Option (List OTree × List String)
  | 0, _, _ => none
  | _ + 1, 0, ts => some ([], ts)
  | fuel + 1, n + 1, ts => do
    let (t, r1) ← parseO fuel ts
    let (tl, r2) ← parseOs fuel n r1
    pure (t :: tl, r2)
end

def parseOpts (fuel : Nat) : List String → Option (Option (List OTree) × List String)
  | "-" :: rest => some (none, rest)
  | n :: rest => do
    let k ← n.toNat?
    let (fs, rest') ← parseOs fuel k rest
    pure (some fs, rest')
  | [] => none

mutual
/-- `flag = true`: an answer tree, with a sharing flag token after `<idx>`. -/
def parseElem (flag : Bool) : Nat → List String → Option (Elem × List String)
  | 0, _ => none
  | fuel + 1, kind :: tag :: idx :: rest => do
    let k ← parseKind kind
    let t ← tag.toNat?
    let i ← idx.toNat?
    let rest ← if flag then
        match rest with
        | "=" :: r => some r
        | "~" :: r => some r
        | _ => none
      else some rest
    let (o, rest) ← parseOpts fuel rest
    match rest with
    | nk :: rest => do
      let n ← nk.toNat?
      let (ks, rest') ← parseElems flag fuel n rest
      pure (.mk k t i o ks, rest')
    | [] => none
  | _ + 1, _ => none
def parseElems (flag : Bool) : Nat → Nat → List String → Option (List Elem × List String)
  | 0, _, _ => none
  | _ + 1, 0, ts => some ([], ts)
  | fuel + 1, n + 1, ts => do
    let (e, r1) ← parseElem flag fuel ts
    let (tl, r2) ← parseElems flag fuel n r1
    pure (e :: tl, r2)
end

def parseLocs : List String → Option (Option (List Path) × List String)
  | "-" :: rest => some (none, rest)
  | n :: rest => do
    let k ← n.toNat?
    if rest.length < k then none else do
      let ps ← (rest.take k).mapM parsePath
      pure (some ps, rest.drop k)
  | [] => none

mutual
def showO : OTree → List String
  | .node n r v ks => [toString n, showRet r, toString v, toString ks.length] ++ showOs ks
def showOs : List OTree → List String
  | [] => []
  | t :: ts => showO t ++ showOs ts
end

def showOpts : Option (List OTree) → List String
  | none => ["-"]
  | some fs => toString fs.length :: showOs fs

mutual
/-- prints an element; `flags` (pre-order sharing flags) is consumed when present -/
def showElem : Elem → Option (List Bool) → List String × Option (List Bool)
  | .mk k tag idx opts kids, flags =>
    let (ftok, flags) := match flags with
      | none => ([], none)
      | some [] => (["?"], some [])
      | some (b :: bs) => ([if b then "~" else "="], some bs)
    let (ktoks, flags) := showElems kids flags
    ([showKind k, toString tag, toString idx] ++ ftok ++ showOpts opts ++ [toString kids.length] ++ ktoks,
     flags)
def showElems : List Elem → Option (List Bool) → List String × Option (List Bool)
  | [], flags => ([], flags)
  | e :: es, flags =>
    let (t1, flags) := showElem e flags
    let (t2, flags) := showElems es flags
    (t1 ++ t2, flags)
end

def showLocs : Option (List Path) → List String
  | none => ["-"]
  | some ps => toString ps.length :: ps.map showPath

/-- `some []` and `none` options both mean "no option field left" for the property. -/
def normOpts : Option (List OTree) → Option (List OTree)
  | some [] => none
  | o => o

mutual
def normElem : Elem → Elem
  | .mk k t i o ks => .mk k t i (normOpts o) (normElems ks)
def normElems : List Elem → List Elem
  | [] => []
  | e :: es => normElem e :: normElems es
end

def plain (e : Elem) : List String := (showElem (normElem e) none).1

/-- op ↦ (input tree, input locations) -/
def parseOp (line : String) : Option (Elem × Option (List Path)) :=
  match words line with
  | "strip" :: _mode :: _src :: "T" :: rest =>
    let fuel := rest.length + 1
    match parseElem false fuel rest with
    | some (f, "L" :: rest') =>
      match parseLocs rest' with
      | some (locs, []) => some (f, locs)
      | _ => none
    | _ => none
  | _ => none

structure Answer where
  tree : Elem
  locs : Option (List Path)
  inOk : Bool
  restOk : Bool
  idem : String

def parseAnswer (ans : String) : Option Answer :=
  match words ans with
  | "T" :: rest =>
    let fuel := rest.length + 1
    match parseElem true fuel rest with
    | some (f, "L" :: rest') =>
      match parseLocs rest' with
      | some (locs, [i, r, d]) =>
        if (i == "in=1" || i == "in=0") && (r == "rest=1" || r == "rest=0") && d.startsWith "idem=" then
          some { tree := f, locs := locs, inOk := i == "in=1", restOk := r == "rest=1",
                 idem := (d.drop 5).toString }
        else none
      | _ => none
    | _ => none
  | _ => none

end RetentionWire

open RetentionWire

/-- Model step: run `stripFile`, print the result with the sharing flags, run it again on its
    own output for the idempotence column. -/
def retentionModel (line : String) : String :=
  match parseOp line with
  | none => "bad-op"
  | some (f, locs) =>
    let r := stripFile f locs
    let flags := shareFlags [] f
    let r2 := stripFile r.1 r.2.2
    let idem :=
      if !r2.2.1 then "same"
      else if (showElem r2.1 none).1 == (showElem r.1 none).1 && showLocs r2.2.2 == showLocs r.2.2
        then "equal" else "differs"
    " ".intercalate (["T"] ++ (showElem r.1 (some flags)).1 ++ ["L"] ++ showLocs r.2.2
      ++ ["in=1", "rest=1", "idem=" ++ idem])

/-- Property oracle on the implementation's answer: the stripped file and its locations must be
    the any-depth reference `idealFile` of the input (no source-retention field left at any
    depth, nothing else touched, exactly the locations under removed options dropped), the
    input must be unchanged, the other descriptor fields untouched, and a second application
    must change nothing.  When the answer misses the reference but equals the depth-0
    reference `topFile`, the verdict names that. -/
def retentionSpec (line ans : String) : String :=
  match parseOp line with
  | none => "skip"
  | some (f, locs) =>
    match parseAnswer ans with
    | none => "fails no-result " ++ (ans.take 40).toString
    | some a =>
      let ideal := idealFile f locs
      let top := topFile f locs
      let treeOk := plain a.tree == plain ideal.1
      let locsOk := showLocs a.locs == showLocs ideal.2
      let why : List String :=
        (if treeOk && locsOk then []
         else
           let what := (if treeOk then [] else ["options"]) ++ (if locsOk then [] else ["locations"])
           let isTop := plain a.tree == plain top.1 && showLocs a.locs == showLocs top.2
           [(if isTop then "nested-source-retention-survives(depth-0-exact-only):" else "not-exact:")
              ++ "+".intercalate what])
        ++ (if a.inOk then [] else ["input-mutated"])
        ++ (if a.restOk then [] else ["other-fields-changed"])
        ++ (if a.idem == "same" || a.idem == "equal" then [] else ["not-idempotent"])
      if why.isEmpty then "holds" else "fails " ++ " ".intercalate why

def retention : Engine := Engine.pure retentionModel retentionSpec

end PCV.Engines
