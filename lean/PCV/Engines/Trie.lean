-- ENGINE: trie => PCV.Engines.trie
import PCV.Engine
import PCV.Util.Wire
import PCV.Model.Trie
namespace PCV.Engines
open PCV.Wire PCV.Trie

namespace TrieWire

def hexNat (n : Nat) : String :=
  let rec go : Nat → Nat → List Char → List Char
    | 0, _, acc => acc
    | f + 1, n, acc => if n < 16 then hexDigit n :: acc else go f (n / 16) (hexDigit (n % 16) :: acc)
  String.ofList (go 20 n [])

def hex02 (n : Nat) : String := if n < 16 then "0" ++ hexNat n else hexNat n

def dumpRows (name : String) (sent : Nat) (rows : List Row) : String :=
  let rec go : List Row → Nat → String
    | [], _ => ""
    | r :: rs, i =>
      s!"{name}[0x{hexNat i}]:" ++
        String.join (r.map fun x => if x == sent then " --" else " " ++ hex02 x) ++ "|" ++ go rs (i + 1)
  go rows 0

/-- `nybbles.dump` with newlines shown as `|` -/
def dump (t : Trie) : String :=
  match t.impl with
  | none => "nil"
  | some i => s!"type: *nybbles[uint{i.bits}]|" ++ dumpRows "hi" i.sent i.hi ++ dumpRows "lo" i.sent i.lo

def stats (t : Trie) : String :=
  match t.impl with
  | none => "w=0 hi=0 lo=0"
  | some i => s!"w={i.bits} hi={i.hi.length} lo={i.lo.length}"

def showPairs (ps : List (Key × Nat)) : String :=
  if ps.isEmpty then "-" else ",".intercalate (ps.map fun (k, v) => s!"{hexOfBytes k}={v}")

/-! naive reference for the oracle: the insertion history as an association list -/

def isPrefix : Key → Key → Bool
  | [], _ => true
  | _ :: _, [] => false
  | a :: as, b :: bs => a == b && isPrefix as bs

/-- latest value per key, history newest first -/
def latest : List (Key × Nat) → List (Key × Nat)
  | [] => []
  | (k, v) :: rest => (k, v) :: (latest rest).filter (fun p => p.1 != k)

def insertByLen (p : Key × Nat) : List (Key × Nat) → List (Key × Nat)
  | [] => [p]
  | q :: qs => if p.1.length ≤ q.1.length then p :: q :: qs else q :: insertByLen p qs

def sortByLen (l : List (Key × Nat)) : List (Key × Nat) := l.foldr insertByLen []

/-- all inserted keys that prefix `q`, shortest first, with their latest values -/
def refPrefixes (hist : List (Key × Nat)) (q : Key) : List (Key × Nat) :=
  sortByLen (latest (hist.filter (fun p => isPrefix p.1 q)))

end TrieWire
open TrieWire

def trieStep (t : Trie) (line : String) : Trie × String :=
  match words line with
  | ["ins", h, v] =>
    match bytesOfHex h, v.toNat? with
    | some k, some v =>
      match t.insert k v with
      | some t' => (t', stats t')
      | none => (t, "panic unreachable")
    | _, _ => (t, "bad-op")
  | ["get", h] =>
    match bytesOfHex h with
    | some q => let (p, v) := t.get q; (t, s!"{hexOfBytes p} {v}")
    | none => (t, "bad-op")
  | ["pre", h] =>
    match bytesOfHex h with
    | some q => (t, showPairs (t.prefixes q))
    | none => (t, "bad-op")
  | ["dump"] => (t, dump t)
  | _ => (t, "bad-op")

/-- Property oracle (C41, last sentence) on the implementation's answers: `get` must return the
    longest inserted key that prefixes the query (with the value of its latest insertion, or
    `("", 0)` when there is none) and `pre` must list all inserted keys that prefix the query,
    shortest first.  The oracle state is just the list of `ins` ops seen so far. -/
def trieSpec (hist : List (Key × Nat)) (line ans : String) : List (Key × Nat) × String :=
  match words line with
  | ["ins", h, v] =>
    match bytesOfHex h, v.toNat? with
    | some k, some v =>
      if ans.startsWith "panic" then (hist, "fails insert-panicked") else ((k, v) :: hist, "skip")
    | _, _ => (hist, "skip")
  | ["get", h] =>
    match bytesOfHex h with
    | some q =>
      let want := match (refPrefixes hist q).getLast? with
        | some (p, v) => s!"{hexOfBytes p} {v}"
        | none => "- 0"
      (hist, if ans == want then "holds" else s!"fails get-want {want}")
    | none => (hist, "skip")
  | ["pre", h] =>
    match bytesOfHex h with
    | some q =>
      let want := showPairs (refPrefixes hist q)
      (hist, if ans == want then "holds" else s!"fails prefixes-want {want}")
    | none => (hist, "skip")
  | _ => (hist, "skip")

def trie : Engine :=
  { σ := Trie, init := {}, step := trieStep,
    τ := List (Key × Nat), specInit := [], spec := trieSpec }

end PCV.Engines
