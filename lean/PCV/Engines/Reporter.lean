-- ENGINE: reporter => PCV.Engines.reporter
import PCV.Engine
import PCV.Util.Wire
import PCV.Model.Reporter
import PCV.Spec.Reporter
namespace PCV.Engines
open PCV.Wire PCV.Reporter

/-- reporter parameter used on the wire: abort on the `k`-th invocation with error `100+e`. -/
def wireRep (abortAt : Option Nat) : Nat → Err → Option Err :=
  fun k e => if abortAt = some k then some (100 + e) else none

def showOut : Option Err → String
  | none => "nil"
  | some 0 => "invalid-source"
  | some e => s!"e{e}"

structure RState where
  abortAt : Option Nat := none
  s : State := {}

def reporterStep (st : RState) (line : String) : RState × String :=
  let rep := wireRep st.abortAt
  match words line with
  | ["rep", "never"] => ({ st with abortAt := none }, "ok")
  | ["rep", k] => match k.toNat? with
    | some k => ({ st with abortAt := some k }, "ok")
    | none => (st, "bad-op")
  | ["child"] => ({ st with s := (step rep st.s .newChild).1 }, "ok")
  | ["herr", h, wp, e] => match h.toNat?, wp.toNat?, e.toNat? with
    | some h, some wp, some e =>
      if h ≤ st.s.children.length ∧ e ≥ 1 then
        let (s', o) := step rep st.s (.handleError h (wp != 0) e)
        ({ st with s := s' }, showOut o)
      else (st, "bad-op")
    | _, _, _ => (st, "bad-op")
  | ["hwarn", h, e] => match h.toNat?, e.toNat? with
    | some h, some e => ({ st with s := (step rep st.s (.handleWarning h e)).1 }, "ok")
    | _, _ => (st, "bad-op")
  | ["error", h] => match h.toNat? with
    | some h => if h ≤ st.s.children.length then (st, showOut (step rep st.s (.error h)).2) else (st, "bad-op")
    | none => (st, "bad-op")
  | ["reperr", h] => match h.toNat? with
    | some h => if h ≤ st.s.children.length then (st, showOut (step rep st.s (.reporterError h)).2) else (st, "bad-op")
    | none => (st, "bad-op")
  | ["log"] => (st, s!"reported=[{showNats st.s.reported}] warned=[{showNats st.s.warned}]")
  | ["conc", g, m] => match g.toNat?, m.toNat? with
    -- g goroutines each handling m positional errors through own child; fresh handler
    | some g, some m =>
      let total := g * m
      let n := match st.abortAt with
        | some k => if k < total then k + 1 else total
        | none => total
      (st, s!"maxconc=1 reported={n}")
    | _, _ => (st, "bad-op")
  | _ => (st, "bad-op")

/-- Property oracle: the abstract spec of Props.C08 (`specStep` fold over handled errors),
    independent of the handler tree. -/
structure RSpec where
  abortAt : Option Nat := none
  r : HState × List Err := ({}, [])
  anyHandled : Bool := false

def reporterSpec (st : RSpec) (line ans : String) : RSpec × String :=
  let rep := wireRep st.abortAt
  match words line with
  | ["rep", "never"] => ({ st with abortAt := none }, "skip")
  | ["rep", k] => ({ st with abortAt := k.toNat? }, "skip")
  | ["herr", _, wp, e] => match wp.toNat?, e.toNat? with
    | some wp, some e =>
      let latchedBefore := st.r.1.err
      let r' := Spec.Reporter.specStep rep st.r (wp != 0, e)
      let st' := { st with r := r', anyHandled := true }
      -- once latched, every HandleError returns the latched error; otherwise what the spec says
      let expect := match latchedBefore with
        | some l => showOut (some l)
        | none => showOut r'.1.err
      (st', if ans == expect then "holds" else s!"fails HandleError returned {ans}, contract says {expect}")
    | _, _ => (st, "skip")
  | ["error", "0"] =>
    let expect := if !st.anyHandled then "nil"
      else match st.r.1.err with
        | some l => showOut (some l)
        | none => "invalid-source"
    (st, if ans == expect then "holds" else s!"fails root Error() = {ans}, contract says {expect}")
  | ["log"] =>
    let expect := s!"reported=[{showNats st.r.2}]"
    (st, if ans.startsWith expect then "holds" else s!"fails reporter log {ans}, contract says {expect}")
  | ["conc", g, m] =>
    -- serialised, and (contract: once the reporter returned an error it is not called again) the
    -- number of reporter calls is min(abortAt + 1, g*m)
    let reported := ((ans.splitOn "reported=").getD 1 "").toNat?
    let total := (g.toNat?.getD 0) * (m.toNat?.getD 0)
    let bound := match st.abortAt with
      | some k => if k < total then k + 1 else total
      | none => total
    (st, if !ans.startsWith "maxconc=1 " then s!"fails reporter invoked concurrently: {ans}"
         else match reported with
           | some n => if n == bound then "holds"
                       else if n > bound then s!"fails reporter-called-after-abort calls={n} contract={bound}"
                       else s!"fails reporter-calls-missing calls={n} contract={bound}"
           | none => s!"fails unparsable conc answer {ans}")
  | _ => (st, "skip")

def reporter : Engine :=
  { σ := RState, init := {}, step := reporterStep, τ := RSpec, specInit := {}, spec := reporterSpec }

end PCV.Engines
