-- ENGINE: options => PCV.Engines.options
-- ENGINE: optmodes => PCV.Engines.optmodes
/-
Line protocol of the `options` (C20) and `optmodes` (C21) engines.

  schema <hex s.proto> <hex t.proto|-> ABS <nE> (E full closed n (name num)*)* <nM> (M full short parent n field*)*
         <nX> (X field)* K i0 … i8 D <0|1>
     (E values carry `name num intro removed`, M carries a message-set flag, field ends with a utf8 flag;
      the second source token may carry `,A<hex any.proto>` and `,D` = descriptor.proto linked from a descriptor)
     field = name num kind card map presence oneof targets intro removed full extendee
  opt <p2|p3|e23|e23s> <element> <n> <statement>*      (e23s: the edition-2023 file also defines the custom feature `uf` it uses)
     element   = file | message | oneof | enum | enumvalue | service | method
               | extrange | extrange:<2..4>  (that many ranges in ONE `extensions` statement, sharing the clause)
               | nmessage | nenum | nenumvalue | groupmsg  (nested in a message; body of a group)
               | mapfield | groupfield
               | <f>:<kind>:<label>  with <f> = field | extfield | oneoffield | nfield | nextfield
     statement = <nparts> (n:<name> | x:<fqn>)* <value>
     value     = u:<dec> | i:<dec> | f:<bits> | nf:<bits> | bu:<bits> | bn:<bits> | id:<ident> | ni:<ident>
               | s:<hex> | { (<fname> <:|_> <value>)* } | [ <value>* ]
  (see harness/engines/options.go for the meaning; the Go side renders the tokens to proto source)

Answers:  options  → result of the strict run;  optmodes → S=<r> L=<r> U=<r> C=<r>.
A result describes the first element; with several elements sharing the clause it continues `n=<k>`
and, if the implementation left one of them different from the first, `DIFF <i>:<tree>,r=<rest>` (the
model interprets each element from the same statements, so it never prints DIFF).
After ` ~ ` (not compared with the model, but judged by the oracles): P= the file as a descriptor proto without
AST (…FromProto paths), R= re-interpretation of the serialized result, O= no imports + WithOverrideDescriptorProto,
PL= / PU= lenient / unlinked interpretation of the descriptor-proto form.
-/
import PCV.Engine
import PCV.Util.Wire
import PCV.Model.OptionsWire
import PCV.Spec.Options
namespace PCV.Engines
open PCV.Wire PCV.Options



open PCV.Options.OptionsWire

def options : Engine :=
  { σ := Option Schema, init := none, step := fun st l => modelAnswer false st l,
    τ := Option Schema, specInit := none, spec := fun st l a => PCV.OptionsSpec.specC20 st l a }

def optmodes : Engine :=
  { σ := Option Schema, init := none, step := fun st l => modelAnswer true st l,
    τ := Option Schema, specInit := none, spec := fun st l a => PCV.OptionsSpec.specC21 st l a }

end PCV.Engines
