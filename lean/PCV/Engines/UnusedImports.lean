-- ENGINE: unusedimports => PCV.Engines.unusedimports
import PCV.Engine
import PCV.Util.Wire
import PCV.Model.UnusedImports
/-!
Line-protocol adapter of the `unusedimports` engine (C19).  See
harness/engines/unusedimports.go for the op grammar.

* model answer  = what the model of the linker predicts (warnings, removal experiment,
  resolved names);
* property oracle = C19 itself, evaluated on the *implementation's* answer only: for every
  import of the file under test, `warned ⇔ (non-public ∧ the real removal experiment gave E)`.
  The model is consulted only to *label* a failure with its cause.
-/
namespace PCV.Engines.UnusedImportsE
open PCV.Wire PCV.UnusedImports

def splitName (s : String) : Name := if s == "" || s == "-" then [] else s.splitOn "."
def showName (n : Name) : String := ".".intercalate n
def csv (s : String) : List String := if s == "-" || s == "" then [] else s.splitOn ","
def showCsv (xs : List String) : String := if xs.isEmpty then "-" else ",".intercalate xs

def parseImport (nfiles : Nat) (tok : String) : Option (Nat × Bool) :=
  let cs := tok.toList
  match cs.reverse with
  | m :: rest =>
    match (String.ofList rest.reverse).toNat? with
    | some n =>
      if n < nfiles then
        if m == 'n' then some (n, false) else if m == 'p' then some (n, true) else none
      else none
    | none => none
  | [] => none

def parentOf (n : Name) : Name := n.dropLast

/-- symbol token ↦ symbols (an enum token also declares its values as siblings) -/
def parseSym (pkg : Name) (tok : String) : Option (List Sym) :=
  match tok.splitOn ":" with
  | k :: rest0 :: more =>
    let rest := (rest0.splitOn "@").headD ""
    if rest == "" then none else
    match k with
    | "m" => some [{ name := pkg ++ splitName rest, kind := .msg }]
    | "f" => some [{ name := pkg ++ splitName rest, kind := .field }]
    | "s" => some [{ name := pkg ++ splitName rest, kind := .svc }]
    | "r" => some [{ name := pkg ++ splitName rest, kind := .method }]
    | "x" =>
      -- x:name@.extendee#tag:type
      let attrs := ((rest0.splitOn "@").drop 1).headD ""
      let extendee := (attrs.splitOn "#").headD ""
      let ty := more.headD ""
      let undot := fun (x : String) => splitName (if x.startsWith "." then (x.drop 1).toString else x)
      some [{ name := pkg ++ splitName rest, kind := .ext, extendee := undot extendee,
              vtype := if ty.startsWith "." then undot ty else [] }]
    | "e" =>
      match rest.splitOn "/" with
      | e :: vals =>
        let en := pkg ++ splitName e
        some ({ name := en, kind := .enum } ::
          vals.map (fun v => { name := parentOf en ++ [v], kind := .enumval }))
      | [] => none
    | _ => none
  | _ => none

def parseFile (nfiles : Nat) (pkgTok impTok symTok : String) : Option FileM := do
  let pkg := splitName pkgTok
  let imps ← (csv impTok).mapM (parseImport nfiles)
  let syms ← (csv symTok).mapM (parseSym pkg)
  pure { pkg := pkg, imports := imps, syms := syms.flatten }

/-- `F path pkg imports syms` groups, then `R items` -/
def parseFiles : List String → List FileM → Option (List FileM × List String)
  | "F" :: _ :: pkg :: imps :: syms :: rest, acc =>
    match parseFile acc.length pkg imps syms with
    | some f => parseFiles rest (acc ++ [f])
    | none => none
  | "R" :: items, acc => some (acc, items)
  | _, _ => none

/-- what a reference contributes to the answer line -/
inductive Report where
  | res | opt | quiet
  deriving DecidableEq

def mkRef (k : RefKind) (scopes : List Name) (text : String) : Ref :=
  if text.startsWith "." then
    { kind := k, scopes := scopes, dot := true, name := splitName (text.drop 1).toString }
  else { kind := k, scopes := scopes, dot := false, name := splitName text }

/-- scopes of container `C` (relative name), innermost first -/
def scopesOf (pkg : Name) (c : String) : List Name :=
  if c == "-" || c == "file" || c == "" then []
  else ((inits (splitName c)).reverse.filter (· ≠ [])).map (pkg ++ ·)

def optsTypeRef (which : String) : Ref × Report :=
  ({ kind := .optsType, scopes := [], dot := true, name := ["google", "protobuf", which] }, .quiet)

/-- references inside an option value; `parent` = position of the option-name reference -/
def valRefs (parent : Nat) (v : String) : Option (List (Ref × Report)) :=
  if v == "i" || v == "m" then some []
  else if v.startsWith "l:" then
    some [({ mkRef .litExt [] (v.drop 2).toString with parent := parent }, .quiet)]
  else if v.startsWith "a:" then
    some [({ kind := .anyType, scopes := [], dot := true, name := splitName (v.drop 2).toString,
             parent := parent }, .quiet)]
  else none

/-- an option `(e) = v` on an element whose options message is `google.protobuf.<which>` -/
def optRefs (base : Nat) (scopes : List Name) (which e v : String) (elem : Name) :
    Option (List (Ref × Report)) := do
  let vr ← valRefs base v
  let r : Ref := { mkRef .optName scopes e with
                   expect := ["google", "protobuf", which], msgVal := v != "i", elem := elem }
  pure ((r, .opt) :: vr ++ [optsTypeRef which])

/-- the references of one item; `base` = number of references before it -/
def parseItem (pkg : Name) (base : Nat) (it : String) : Option (List (Ref × Report)) :=
  match it.splitOn ";" with
  | ["lm", _] => some []
  | ["le", _] => some []
  | ["ft", c, r] => if c == "-" then none else some [(mkRef .fieldType (scopesOf pkg c) r, .res)]
  | ["ex", c, e, ty] =>
    let sc := scopesOf pkg c
    some ((mkRef .extendee sc e, .res) :: (if ty == "-" then [] else [(mkRef .fieldType sc ty, .res)]))
  | ["rp", i, o] =>
    let sc := [pkg ++ ["Svc"]]
    some [(mkRef .rpc sc i, .res), (mkRef .rpc sc o, .res)]
  | ["fo", e, v] => optRefs base [] "FileOptions" e v ["file"]
  | ["mo", c, e, v] =>
    -- a message's options are resolved before the message's own scope is pushed
    if c == "-" then none else optRefs base ((scopesOf pkg c).drop 1) "MessageOptions" e v ["msg", c]
  | ["lo", c, e, v] =>
    if c == "-" then none else optRefs base (scopesOf pkg c) "FieldOptions" e v ["field", toString base]
  | ["so", e, v] => optRefs base [] "ServiceOptions" e v ["svc"]
  | ["ro", i, o, e, v] =>
    let sc := [pkg ++ ["Svc"]]
    (optRefs (base + 2) sc "MethodOptions" e v ["method", toString base]).map
      (fun rs => [(mkRef .rpc sc i, .res), (mkRef .rpc sc o, .res)] ++ rs)
  | ["eo", c, e, v] => optRefs base (scopesOf pkg c) "EnumOptions" e v ["enum", toString base]
  | ["vo", c, e, v] => optRefs base (scopesOf pkg c) "EnumValueOptions" e v ["enumval", toString base]
  | ["po", c] => some [optsTypeRef (if c == "file" then "FileOptions" else "MessageOptions")]
  | ["pf", c] => if c == "-" then none else some [optsTypeRef "FieldOptions"]
  | _ => none

def parseItems (pkg : Name) : List String → List (Ref × Report) → Option (List (Ref × Report))
  | [], acc => some acc
  | it :: rest, acc =>
    match parseItem pkg acc.length it with
    | some rs => parseItems pkg rest (acc ++ rs)
    | none => none

structure Case where
  ws : WS
  t : Nat
  refs : List (Ref × Report)

def parseCase (line : String) : Option Case :=
  match words line with
  | "c19" :: rest =>
    match parseFiles rest [] with
    | some (files, items) =>
      match files.getLast? with
      | some tf =>
        match parseItems tf.pkg items [] with
        | some rs => some ⟨files, files.length - 1, rs⟩
        | none => none
      | none => none
    | none => none
  | _ => none

def insertSorted (s : String) : List String → List String
  | [] => [s]
  | x :: xs => if s < x then s :: x :: xs else if s == x then x :: xs else x :: insertSorted s xs

def sortUniq (xs : List String) : List String := xs.foldl (fun acc s => insertSorted s acc) []

def descName : Option Desc → String
  | some d => "." ++ showName d.name
  | none => "?"

def model (line : String) : String :=
  match parseCase line with
  | none => "bad-op"
  | some c =>
    let refs := c.refs.map (·.1)
    let out := link c.ws c.t refs
    if !out.ok then "err"
    else
      let imps := match c.ws[c.t]? with | some f => f.imports | none => []
      let ws := warnings c.ws c.t refs
      let warned := (imps.zipIdx.filter (fun (imp, _) => ws.contains imp.1)).map (fun (_, p) => toString p)
      let rm := String.ofList (imps.map (fun imp => if removalEq c.ws c.t refs imp.1 then 'E' else 'N'))
      let tagged := c.refs.zip out.descs
      let res := (tagged.filter (fun ((_, rep), _) => rep == .res)).map (fun (_, d) => descName d)
      let opts := sortUniq ((tagged.filter (fun ((_, rep), _) => rep == .opt)).map (fun (_, d) => descName d))
      s!"ok w={showCsv warned} rm={if rm == "" then "-" else rm} res={showCsv res} opts={showCsv opts}"

/-! ### property oracle -/

def field (pre : String) (ws : List String) : Option String :=
  (ws.find? (·.startsWith pre)).map (fun w => (w.drop pre.length).toString)

/-- label why the model thinks import `i` was marked (for the verdict text only) -/
def causeLabels (c : Case) (i : Nat) : List String :=
  match c.ws[c.t]? with
  | none => []
  | some self =>
    let labels := c.refs.map (fun (r, _) =>
      let o := resolveRef c.ws c.t self r
      if !o.marks.contains (c.t, i) then ""
      else if r.kind == .optsType then "options-type-lookup"
      else
        let viaFinal := match o.desc with
          | some (.real s) =>
            (match lookElem c.ws c.t s.name with | some (.real _, ms) => ms.contains (c.t, i) | _ => false) ||
            (match lookPlain c.ws c.t s.name with | some (_, ms) => ms.contains (c.t, i) | none => false)
          | _ => false
        if viaFinal then "other-provider-exists"
        else
          -- some intermediate lookup hit import i
          let ql : Name → Option Desc := fun n => resolveElementInFile n self
          let q : Name → Option Desc := descOf (lookElem c.ws c.t)
          let tr := (resolveName ql q self.pkg (r.kind == .fieldType) r.dot
                      (if r.kind == .litExt then [] else r.scopes) r.name).2
          let hits := tr.filterMap (fun n => match lookElem c.ws c.t n with
            | some (d, ms) => if ms.contains (c.t, i) then some d else none
            | none => none)
          if hits.any (fun d => match d with | .sentinel _ => true | _ => false) then "package-namespace-match"
          else "discarded-match")
    sortUniq (labels.filter (· ≠ ""))

def spec (line ans : String) : String :=
  match parseCase line with
  | none => "skip"
  | some c =>
    let aw := words ans
    match aw with
    | "err" :: _ => "skip"      -- the file under test does not compile: nothing to check
    | "ok" :: rest =>
      match field "w=" rest, field "rm=" rest with
      | some w, some rm =>
        let imps := match c.ws[c.t]? with | some f => f.imports | none => []
        let warned := (csv w).filterMap String.toNat?
        let rmc := if rm == "-" then [] else rm.toList
        if rmc.length ≠ imps.length || (csv w).length ≠ warned.length then "fails bad-answer"
        else
          let rows := imps.zipIdx.zip rmc
          -- warned ⇔ non-public ∧ removal keeps the descriptors
          let spurious := rows.filter (fun ((imp, p), e) => warned.contains p && !(!imp.2 && e == 'E'))
          let missed := rows.filter (fun ((imp, p), e) => !warned.contains p && (!imp.2 && e == 'E'))
          let stray := warned.filter (fun p => p ≥ imps.length)
          if !stray.isEmpty then "fails bad-answer warned-position-out-of-range"
          else if !spurious.isEmpty then
            let ps := spurious.map (fun ((_, p), _) => toString p)
            s!"fails spurious-warning imports={showCsv ps} (warned although public or not removable)"
          else if !missed.isEmpty then
            let ps := missed.map (fun ((_, p), _) => toString p)
            let causes := sortUniq (missed.flatMap (fun ((imp, _), _) =>
              let ls := causeLabels c imp.1
              if ls.isEmpty then ["unexplained-by-model"] else ls))
            s!"fails missed-warning causes={"+".intercalate causes} imports={showCsv ps} (removable non-public import without warning)"
          else "holds"
      | _, _ => "fails bad-answer"
    | _ => "fails bad-answer"

end PCV.Engines.UnusedImportsE

namespace PCV.Engines
def unusedimports : Engine := Engine.pure UnusedImportsE.model UnusedImportsE.spec
end PCV.Engines
