-- ENGINE: escape => PCV.Engines.escape
import PCV.Engine
import PCV.Util.Wire
import PCV.Model.Escape
namespace PCV.Engines
open PCV.Wire PCV.Escape

def escapeModel (line : String) : String :=
  match words line with
  | ["esc", h] => match bytesOfHex h with
    | some bs => hexOfBytes (escapeBytes bs)
    | none => "bad-op"
  | ["unesc", h] => match bytesOfHex h with
    | some bs => hexOfBytes (unescape bs)
    | none => "bad-op"
  | ["rt", h] => match bytesOfHex h with
    | some bs => hexOfBytes (unescape (escapeBytes bs))
    | none => "bad-op"
  | _ => "bad-op"

/-- Property oracle on the implementation's answer: round trip is the identity, and the
    escaped text is printable ASCII. -/
def escapeSpec (line ans : String) : String :=
  match words line with
  | ["rt", h] => if ans == h then "holds" else s!"fails roundtrip {h} -> {ans}"
  | ["esc", _] => match bytesOfHex ans with
    | some out => if out.all (fun c => 0x20 ≤ c.toNat && c.toNat < 0x7f) then "holds"
                  else "fails escaped-text-not-printable"
    | none => "fails bad-answer"
  | _ => "skip"

def escape : Engine := Engine.pure escapeModel escapeSpec

end PCV.Engines
