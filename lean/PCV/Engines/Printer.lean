-- ENGINE: roundtrip => PCV.Engines.roundtrip
-- ENGINE: dom => PCV.Engines.dom
-- ENGINE: format => PCV.Engines.format
import PCV.Engine
import PCV.Util.Wire
import PCV.Model.Dom
import PCV.Model.Trivia
import PCV.Model.PrinterRT
import PCV.Spec.Printer
namespace PCV.Engines.Prn
open PCV.Wire PCV.Trivia PCV.Dom PCV.PrinterRT

/-! ### wire formats -/

/-- hex digits up to the next '.', which is consumed -/
def readHex (cs : List Char) : Option (List UInt8 × List Char) :=
  let h := cs.takeWhile (· != '.')
  match cs.drop h.length with
  | '.' :: rest => (bytesOfHexChars h).map (fun b => (b, rest))
  | _ => none

def kwOf : Char → Option Kw
  | 'm' => some .semi | 'k' => some .comma | 'a' => some .assign | 'o' => some .other | _ => none

def brOf : Char → Option Br
  | 'b' => some .braces | 'k' => some .brackets | 'p' => some .parens | 'a' => some .angles
  | 'o' => some .other | _ => none

/-- items up to a ')' (left in the input) or the end; IDs are DFS positions -/
def parseItems : Nat → List Char → Nat → Option (List Item × List Char × Nat)
  | 0, _, _ => none
  | _+1, [], n => some ([], [], n)
  | _+1, ')' :: cs, n => some ([], ')' :: cs, n)
  | fuel+1, 's' :: cs, n => do
    let (t, cs1) ← readHex cs
    let (rest, cs2, n2) ← parseItems fuel cs1 (n + 1)
    pure (.skip ⟨n, false, t⟩ :: rest, cs2, n2)
  | fuel+1, 'c' :: cs, n => do
    let (t, cs1) ← readHex cs
    let (rest, cs2, n2) ← parseItems fuel cs1 (n + 1)
    pure (.skip ⟨n, true, t⟩ :: rest, cs2, n2)
  | fuel+1, 'n' :: k :: cs, n => do
    let kw ← kwOf k
    let (t, cs1) ← readHex cs
    let (rest, cs2, n2) ← parseItems fuel cs1 (n + 1)
    pure (.leaf n kw t :: rest, cs2, n2)
  | fuel+1, '(' :: b :: cs, n => do
    let br ← brOf b
    let (ot, cs1) ← readHex cs
    let (kids, cs2, n2) ← parseItems fuel cs1 (n + 1)
    match cs2 with
    | ')' :: cs3 =>
      let (ct, cs4) ← readHex cs3
      let (rest, cs5, n5) ← parseItems fuel cs4 (n2 + 1)
      pure (.fused n br ot kids n2 ct :: rest, cs5, n5)
    | _ => none
  | _+1, _, _ => none

def parseTree (s : String) : Option (List Item) :=
  if s == "-" then some [] else
  let cs := s.toList
  match parseItems (cs.length + 1) cs 1 with
  | some (items, [], _) => some items
  | _ => none

def readNat (cs : List Char) : Option (Nat × List Char) :=
  let d := cs.takeWhile Char.isDigit
  if d.isEmpty then none else (String.ofList d).toNat?.map (fun n => (n, cs.drop d.length))

def gapOf : Char → Option Gap
  | 'n' => some .none | 's' => some .space | 'l' => some .newline | 'f' => some .softline
  | 'b' => some .blankline | _ => none

/-- plan items up to a closing ']' / '}' (left in the input) or the end -/
def parsePlan : Nat → List Char → Option (List Plan × List Char)
  | 0, _ => none
  | _+1, [] => some ([], [])
  | _+1, ']' :: cs => some ([], ']' :: cs)
  | _+1, '}' :: cs => some ([], '}' :: cs)
  | fuel+1, 'T' :: cs => do
    let (id, cs1) ← readNat cs
    match cs1 with
    | g :: ';' :: cs2 =>
      let gap ← gapOf g
      let (rest, cs3) ← parsePlan fuel cs2
      pure (.tok id gap :: rest, cs3)
    | _ => none
  | fuel+1, 'S' :: cs => do
    let (sc, cs1) ← readNat cs
    match cs1 with
    | ',' :: cs2 =>
      let (i, cs3) ← readNat cs2
      match cs3 with
      | ';' :: cs4 =>
        let (rest, cs5) ← parsePlan fuel cs4
        pure (.slot sc i :: rest, cs5)
      | _ => none
    | _ => none
  | fuel+1, 'R' :: cs => do
    let (sc, cs1) ← readNat cs
    match cs1 with
    | ',' :: cs2 =>
      let (i, cs3) ← readNat cs2
      match cs3 with
      | ';' :: cs4 =>
        let (rest, cs5) ← parsePlan fuel cs4
        pure (.remain sc i :: rest, cs5)
      | _ => none
    | _ => none
  | fuel+1, 'C' :: cs => do
    let (id, cs1) ← readNat cs
    match cs1 with
    | ';' :: cs2 =>
      let (rest, cs3) ← parsePlan fuel cs2
      pure (.comma id :: rest, cs3)
    | _ => none
  | fuel+1, 'E' :: ';' :: cs => do
    let (rest, cs1) ← parsePlan fuel cs
    pure (.flush :: rest, cs1)
  | fuel+1, 'B' :: ';' :: cs => do
    let (rest, cs1) ← parsePlan fuel cs
    pure (.softbreak :: rest, cs1)
  | fuel+1, 'X' :: ';' :: cs => do
    let (rest, cs1) ← parsePlan fuel cs
    pure (.closeComments :: rest, cs1)
  | fuel+1, 'I' :: '[' :: cs => do
    let (kids, cs1) ← parsePlan fuel cs
    match cs1 with
    | ']' :: cs2 =>
      let (rest, cs3) ← parsePlan fuel cs2
      pure (.indent kids :: rest, cs3)
    | _ => none
  | fuel+1, 'G' :: '[' :: cs => do
    let (kids, cs1) ← parsePlan fuel cs
    match cs1 with
    | ']' :: cs2 =>
      let (rest, cs3) ← parsePlan fuel cs2
      pure (.group kids :: rest, cs3)
    | _ => none
  | fuel+1, 'K' :: cs => do
    let (sc, cs1) ← readNat cs
    match cs1 with
    | '[' :: cs2 =>
      let (a, cs3) ← parsePlan fuel cs2
      match cs3 with
      | ']' :: '{' :: cs4 =>
        let (b, cs5) ← parsePlan fuel cs4
        match cs5 with
        | '}' :: cs6 =>
          let (rest, cs7) ← parsePlan fuel cs6
          pure (.ifNonEmpty sc a b :: rest, cs7)
        | _ => none
      | _ => none
    | _ => none
  | _+1, _ => none

def parsePlanStr (s : String) : Option (List Plan) :=
  let cs := s.toList
  match parsePlan (cs.length + 1) cs with
  | some (p, []) => some p
  | _ => none

def parseDeclPlans (s : String) : Option (List (List Plan)) :=
  if s == "-" then some [] else (s.splitOn "|").mapM parsePlanStr

def condOf : Char → Option Cond
  | 'a' => some .always | 'f' => some .flat | 'b' => some .broken | _ => none

/-- dom tags up to a closing ']' (left in the input) or the end:
    `t<cond><hex>.`  `g<cond><limit|x>[..]`  `i<hex>.[..]`  `u[..]` -/
def parseDom : Nat → List Char → Option (List Tag × List Char)
  | 0, _ => none
  | _+1, [] => some ([], [])
  | _+1, ']' :: cs => some ([], ']' :: cs)
  | fuel+1, 't' :: c :: cs => do
    let cond ← condOf c
    let (t, cs1) ← readHex cs
    let (rest, cs2) ← parseDom fuel cs1
    pure (.text cond t :: rest, cs2)
  | fuel+1, 'g' :: c :: cs => do
    let cond ← condOf c
    let (limit, cs1) ← (match cs with
      | 'x' :: r => some (maxInt, r)
      | _ => readNat cs)
    match cs1 with
    | '[' :: cs2 =>
      let (kids, cs3) ← parseDom fuel cs2
      match cs3 with
      | ']' :: cs4 =>
        let (rest, cs5) ← parseDom fuel cs4
        pure (.group cond limit kids :: rest, cs5)
      | _ => none
    | _ => none
  | fuel+1, 'i' :: cs => do
    let (t, cs1) ← readHex cs
    match cs1 with
    | '[' :: cs2 =>
      let (kids, cs3) ← parseDom fuel cs2
      match cs3 with
      | ']' :: cs4 =>
        let (rest, cs5) ← parseDom fuel cs4
        pure (.indent t kids :: rest, cs5)
      | _ => none
    | _ => none
  | fuel+1, 'u' :: '[' :: cs => do
    let (kids, cs1) ← parseDom fuel cs
    match cs1 with
    | ']' :: cs2 =>
      let (rest, cs3) ← parseDom fuel cs2
      pure (.unindent kids :: rest, cs3)
    | _ => none
  | _+1, _ => none

def parseDomStr (s : String) : Option (List Tag) :=
  if s == "-" then some [] else
  let cs := s.toList
  match parseDom (cs.length + 1) cs with
  | some (d, []) => some d
  | _ => none

/-! ### answers -/

def showIds (ts : List Skip) : String := ",".intercalate (ts.map (fun s => toString s.id))

def showIndex (ix : Index) : String :=
  let atts := ix.attached.mergeSort (fun a b => a.1 ≤ b.1)
  let dets := ix.detached.mergeSort (fun a b => a.1 ≤ b.1)
  let a := String.join (atts.map (fun (id, x) => s!"{id}:{showIds x.leading}:{showIds x.trailing};"))
  let d := String.join (dets.map (fun (id, x) =>
    let slots := "/".intercalate (x.slots.map showIds)
    let bits := String.join (x.blankBefore.map (fun b => if b then "1" else "0"))
    s!"{id}:{slots}:{bits}:{if x.blankBeforeClose then "1" else "0"};"))
  "A" ++ a ++ "|D" ++ d

def roundtripModel (line : String) : String :=
  match words line with
  | ["tri", tree, acc] =>
    if acc != "0" && acc != "1" then "bad-op" else
    match parseTree tree with
    | some items => showIndex (Index.ofItems items)
    | none => "bad-op"
  | ["rt", tree, fplan, dplans] =>
    match parseTree tree, parsePlanStr fplan, parseDeclPlans dplans with
    | some items, some fp, some dps =>
      let env := Env.ofItems items
      let out := printFile env fp
      let cat := (dps.map (printDecl env)).flatten
      hexOfBytes out ++ " " ++ hexOfBytes cat
    | _, _, _ => "bad-op"
  | _ => "bad-op"

def showInt (i : Int) : String := toString i

def domModel (line : String) : String :=
  match words line with
  | ["render", mw, tab, om, d] =>
    match mw.toNat?, tab.toNat?, parseDomStr d with
    | some mw, some tab, some dom =>
      if om != "0" && om != "1" then "bad-op" else
      let o : Dom.Options := { maxWidth := mw, tabstop := tab, omitTrailingNewline := om == "1" }
      match (renderState o dom).panic with
      | some k => s!"panic runtime error: slice bounds out of range [:-{k}]"
      | none => hexOfBytes (render o dom)
    | _, _, _ => "bad-op"
  | ["layout", mw, tab, d] =>
    match mw.toNat?, tab.toNat?, parseDomStr d with
    | some mw, some tab, some dom =>
      let o := ({ maxWidth := mw, tabstop := tab, omitTrailingNewline := false } : Dom.Options).withDefaults
      ";".intercalate ((dumpL (layout o dom)).map (fun (w, c, b) =>
        s!"{showInt w},{showInt c},{if b then 1 else 0}"))
    | _, _, _ => "bad-op"
  | ["merge", ka, la, kb, lb] =>
    let kind : String → Option Kind := fun s =>
      if s == "1" then some .text else if s == "2" then some .space else if s == "3" then some .brk else none
    match kind ka, la.toNat?, kind kb, lb.toNat? with
    | some ka, some la, some kb, some lb =>
      let (a, b) := shouldMerge ka la kb lb
      s!"{if a then 1 else 0} {if b then 1 else 0}"
    | _, _, _, _ => "bad-op"
  | ["width", tab, col, h] =>
    match tab.toNat?, col.toInt?, bytesOfHex h with
    | some tab, some col, some t =>
      showInt (stringWidth ((({ maxWidth := 0, tabstop := tab, omitTrailingNewline := false } : Dom.Options).withDefaults).tabstop) col t)
    | _, _, _ => "bad-op"
  | _ => "bad-op"

def formatModel (line : String) : String :=
  match words line with
  | ["fmt", _, _, mw, tab, d] =>
    if d == "EMPTY" then "-" else
    match mw.toNat?, tab.toNat?, parseDomStr d with
    | some mw, some tab, some dom =>
      hexOfBytes (render { maxWidth := mw, tabstop := tab, omitTrailingNewline := false } dom)
    | _, _, _ => "bad-op"
  | _ => "bad-op"

/-! ### property oracles (evaluated on the implementation's answers) -/

def parseIds (s : String) : Option (List Nat) :=
  if s == "" then some [] else (s.splitOn ",").mapM String.toNat?

/-- `A<id>:<l>:<t>;…|D<scope>:<slot>/<slot>…:<bits>:<bbc>;…` -/
def parseDump (s : String) : Option (List (Nat × List Nat × List Nat) × List (Nat × List (List Nat))) :=
  match s.splitOn "|" with
  | [a, d] =>
    if !a.startsWith "A" || !d.startsWith "D" then none else do
    let ents := ((a.drop 1).toString.splitOn ";").filter (· != "")
    let atts ← ents.mapM (fun e => match e.splitOn ":" with
      | [id, l, t] => do pure (← id.toNat?, ← parseIds l, ← parseIds t)
      | _ => none)
    let dents := ((d.drop 1).toString.splitOn ";").filter (· != "")
    let dets ← dents.mapM (fun e => match e.splitOn ":" with
      | [id, slots, _, _] => do pure (← id.toNat?, ← (slots.splitOn "/").mapM parseIds)
      | _ => none)
    pure (atts, dets)
  | _ => none

/-- trivia_partition on a dump of the two maps: in every gap between two consecutive natural
    tokens (document order, all depths; plus before the first and after the last), the trailing
    bucket of the token before, the slots lying in the gap and the leading bucket of the token
    after, concatenated, are exactly the skippable tokens of that gap in source order. -/
def partitionVerdict (items : List Item) (atts : List (Nat × List Nat × List Nat))
    (dets : List (Nat × List (List Nat))) : String :=
  let want := piecesDFS items
  -- one pass: the skippable IDs of every gap, and the gap index of every skippable ID
  let (gapsRev, cur, gapOfRev) := want.foldl (fun (acc : List (List Nat) × List Nat × List (Nat × Nat)) p =>
    let (gs, cur, m) := acc
    match p with
    | .sk s => (gs, cur ++ [s.id], (s.id, gs.length) :: m)
    | .nat _ => (cur :: gs, [], m)
    | _ => acc) ([], [], [])
  let gaps := (cur :: gapsRev).reverse
  let gapOf : Nat → Nat := fun id => (gapOfRev.lookup id).getD 0
  let nats := natIds want
  let skips := skipIds want
  let all := atts.flatMap (fun (_, l, t) => l ++ t) ++ dets.flatMap (fun (_, sl) => sl.flatten)
  let missing := skips.filter (fun id => !all.contains id)
  if !missing.isEmpty then
    let kind := if missing.any (fun id => (commentIds want).contains id) then "comment-dropped" else "whitespace-dropped"
    s!"fails tri:{kind} n={missing.length} first={missing.headD 0}" else
  if all.length != skips.length then "fails tri:trivia-duplicated" else
  let slots := (dets.flatMap (fun (_, sl) => sl.filter (!·.isEmpty))).map (fun sl => (gapOf (sl.headD 0), sl))
  let natArr := nats.toArray
  let ok := (gaps.zipIdx).all (fun (expected, g) =>
    let before : List Nat := if g == 0 then [] else
      match atts.lookup (natArr.getD (g - 1) 0) with | some (_, t) => t | none => []
    let after : List Nat := if g == nats.length then [] else
      match atts.lookup (natArr.getD g 0) with | some (l, _) => l | none => []
    let mid := (slots.filter (fun (sg, _) => sg == g)).flatMap (·.2)
    before ++ mid ++ after == expected)
  if ok then "holds" else "fails tri:trivia-misplaced"

def causeStr (cs : List String) : String := if cs.isEmpty then "ok" else "+".intercalate cs

def roundtripSpec (line ans : String) : String :=
  match words line with
  | ["tri", tree, acc] =>
    if acc != "1" then "skip" else
    match parseTree tree, parseDump ans with
    | some items, some (atts, dets) => partitionVerdict items atts dets
    | _, _ => "fails bad-answer"
  | ["rt", tree, fplan, dplans] =>
    match parseTree tree, parsePlanStr fplan, parseDeclPlans dplans, words ans with
    | some items, some fp, some dps, [oh, ch] =>
      match bytesOfHex oh, bytesOfHex ch with
      | some out, some cat =>
        let src := sourceOf items
        let fileOk := out == src
        let declOk := concatClause src cat (trailingTrivia items)
        if fileOk && declOk then "holds" else
        let env := Env.ofItems items
        let fc := if fileOk then "ok" else
          let cs := fileCauses env items fp
          if cs.isEmpty then "unexplained" else causeStr cs
        let dc := if declOk then "ok" else
          let cs := declCauses env items dps
          if cs.isEmpty then "unexplained" else causeStr cs
        let primary := if fileOk then "decls:" ++ ((dc.splitOn "+").headD "?") else (fc.splitOn "+").headD "?"
        s!"fails rt:{primary} file={fc} decls={dc}"
      | _, _ => "fails bad-answer"
    | _, _, _, _ => "fails bad-answer"
  | _ => "skip"

def isWsByte (b : UInt8) : Bool := b == 32 || b == 10 || b == 9
def nonWs (s : List UInt8) : List UInt8 := s.filter (fun b => !isWsByte b)

/-- conditional texts and indent strings are whitespace only and groups are unconditional (all the
    AST printer ever builds) -/
def wsOnlyExtras : List Tag → Bool
  | [] => true
  | .text c s :: r => (c == .always || s.all isWsByte) && wsOnlyExtras r
  | .group c _ kids :: r => c == .always && wsOnlyExtras kids && wsOnlyExtras r
  | .indent by_ kids :: r => by_.all isWsByte && wsOnlyExtras kids && wsOnlyExtras r
  | .unindent kids :: r => wsOnlyExtras kids && wsOnlyExtras r

def hasUnindent : List Tag → Bool
  | [] => false
  | .text _ _ :: r => hasUnindent r
  | .group _ _ kids :: r => hasUnindent kids || hasUnindent r
  | .indent _ kids :: r => hasUnindent kids || hasUnindent r
  | .unindent _ :: _ => true

/-- render_preserves_text evaluated on the implementation's output -/
def preservesText (d : List Tag) (out : List UInt8) : Bool := nonWs out == nonWs (alwaysText d)

def domSpec (line ans : String) : String :=
  match words line with
  | ["render", _, _, _, d] =>
    match parseDomStr d with
    | some dom =>
      if hasUnindent dom then "skip"        -- Unindent is never built by the AST printer
      else if ans.startsWith "panic" then "fails render-panics"
      else if !wsOnlyExtras dom then "skip"
      else match bytesOfHex ans with
        | some out => if preservesText dom out then "holds" else "fails text-not-preserved"
        | none => "fails bad-answer"
    | none => "fails bad-op"
  | _ => "skip"

def formatSpec (line ans : String) : String :=
  match words line with
  | ["fmt", _, _, _, _, d] =>
    match ans.splitOn " ~ " with
    | [oh, flags] =>
      let fl := words flags
      if fl.contains "src=err" then "skip" else
      let diff := (fl.filter (·.startsWith "diff=")).headD "diff=?"
      let textOk :=
        if d == "EMPTY" then oh == "-" else
        match parseDomStr d, bytesOfHex oh with
        | some dom, some out => !wsOnlyExtras dom || preservesText dom out
        | _, _ => false
      let cm := ((fl.filter (·.startsWith "cm=")).headD "cm=?").drop 3 |>.toString
      -- an extension name spelled with trivia inside its parentheses: a separate finding class
      let xp := if fl.contains "xp=1" then "@spaced-ext-name" else ""
      -- a comment directly behind the `/` of an Any type URL: a separate, narrow finding class
      let sl := if fl.contains "sl=1" then "@slash-then-comment" else ""
      let cs :=
        (if fl.contains "out=err" then ["does-not-compile:comments-" ++ cm ++ sl] else []) ++
        (if fl.contains "out=ok" && fl.contains "same=0" then
          ["descriptors-differ:" ++ (diff.drop 5).toString ++
            (if ((diff.drop 5).toString.splitOn "+").contains "options" then xp else "")] else []) ++
        (if fl.contains "idem=0" then ["not-idempotent:comments-" ++ cm ++ xp] else []) ++
        (if !textOk then ["render-text-not-preserved"] else [])
      if cs.isEmpty then
        (if fl.contains "out=ok" && fl.contains "same=1" && fl.contains "idem=1" then "holds" else "fails bad-answer")
      else s!"fails fmt:{cs.headD "?"} all={"+".intercalate cs}"
    | _ => "fails bad-answer"
  | _ => "skip"

end PCV.Engines.Prn

namespace PCV.Engines
open PCV.Engines.Prn

def roundtrip : Engine := Engine.pure roundtripModel roundtripSpec
def dom : Engine := Engine.pure domModel domSpec
def format : Engine := Engine.pure formatModel formatSpec

end PCV.Engines
