-- ENGINE: xlex => PCV.Engines.xlex
-- ENGINE: xparse => PCV.Engines.xparse
import PCV.Engine
import PCV.Util.Wire
import PCV.Model.XLexer
import PCV.Model.XParse
namespace PCV.Engines.XLexImpl
open PCV.Wire PCV.TokenStream PCV.XLexer PCV.XParse

/-! ## wire helpers -/

def dropS (s : String) (k : Nat) : String := String.ofList (s.toList.drop k)

def xlJoin (sep : String) (xs : List String) : String :=
  if xs.isEmpty then "-" else sep.intercalate xs

/-- "rune:mask,..." or "-" -/
def parseClsTable (s : String) : Option (List (Nat × Nat)) :=
  if s == "-" then some []
  else (s.splitOn ",").mapM (fun p =>
    match p.splitOn ":" with
    | [a, b] => do
      let r ← a.toNat?
      let m ← b.toNat?
      pure (r, m)
    | _ => none)

def clsOf (tbl : List (Nat × Nat)) (r : Nat) : Nat :=
  if r < 128 then asciiCls r else (tbl.lookup r).getD 0

/-- every non-ASCII rune that decodes validly in `bs` has an entry, and only those -/
def runesOf : Nat → Bytes → List Nat
  | 0, _ => []
  | f + 1, bs =>
    let d := PCV.Utf8.decodeRune bs
    if d.2 = 0 then []
    else if d.1 = PCV.Utf8.runeError ∧ d.2 < 2 then runesOf f (bs.drop d.2)
    else if d.1 ≥ 128 then d.1 :: runesOf f (bs.drop d.2) else runesOf f (bs.drop d.2)

def clsTableOk (tbl : List (Nat × Nat)) (bs : Bytes) : Bool :=
  let rs := runesOf (bs.length + 1) bs
  rs.all (fun r => (tbl.lookup r).isSome) &&
    -- only runes of the input, masks in range, and XID_Start ⊆ XID_Continue (the hypothesis `ClsOK`)
    tbl.all (fun (r, m) => rs.contains r && m < 64 && ((m / cXidS) % 2 == 0 || (m / cXidC) % 2 == 1))

def mkEnv (bs : Bytes) (tbl : List (Nat × Nat)) : Env := { text := bs, cls := clsOf tbl }

def showTok (t : Tok) : String := s!"{t.end_}.{t.kind}.{obsKw t}.{t.off}"

def showDiag (d : Diag) : String :=
  s!"{d.cls}:{d.level}:" ++ "+".intercalate (d.spans.map (fun (a, b) => s!"{a}-{b}"))

def showLex (E : Env) : String :=
  let r := lex E
  let cat := if concatTexts E.text r.toks == E.text then "eq" else "ne"
  s!"T={xlJoin "," (r.toks.map showTok)} D={xlJoin "," (r.diags.map showDiag)} cat={cat}"

def showKwTable : String :=
  let rows := (List.range 136).filterMap (fun k =>
    if k = 0 then none
    else
      let (l, r, j) := brackets k
      match kwTable.find? (·.id == k) with
      | some e => some s!"{k}:{hexOfBytes e.text}:{e.act}:{if e.word then 1 else 0}:{l}.{r}.{j}"
      | none => if k ≥ 131 then some s!"{k}:fused:{l}.{r}.{j}" else none)
  ",".intercalate rows

def showAscii : String := ",".intercalate ((List.range 128).map (fun r => toString (asciiCls r)))

/-! ## xlex: model step -/

def xlexModel (line : String) : String :=
  match words line with
  | ["kwtable"] => showKwTable
  | ["ascii"] => showAscii
  | ["flags"] => "1111111111 +r +b +rb"   -- the configuration the model hard-wires
  | ["lex", h, c] =>
    match bytesOfHex h, parseClsTable c with
    | some bs, some tbl => if clsTableOk tbl bs then showLex (mkEnv bs tbl) else "bad-op"
    | _, _ => "bad-op"
  | _ => "bad-op"

/-! ## xlex: property oracle (C29) on the implementation's answer -/

structure OTok where
  end_ : Nat
  kind : Nat
  kw : Nat
  off : Int

def parseOTok (s : String) : Option OTok :=
  match s.splitOn "." with
  | [a, b, c, d] => do
    let e ← a.toNat?
    let k ← b.toNat?
    let w ← c.toNat?
    let o ← d.toInt?
    pure ⟨e, k, w, o⟩
  | _ => none

def parseSpan (s : String) : Option (Nat × Nat) :=
  match s.splitOn "-" with
  | [a, b] => do
    let x ← a.toNat?
    let y ← b.toNat?
    pure (x, y)
  | _ => none

def parseODiag (s : String) : Option Diag :=
  match s.splitOn ":" with
  | [c, l, sp] => do
    let lv ← l.toNat?
    let spans ← if sp == "" then some [] else (sp.splitOn "+").mapM parseSpan
    pure ⟨c, lv, spans⟩
  | _ => none

def parseList {α} (f : String → Option α) (s : String) : Option (List α) :=
  if s == "-" then some [] else (s.splitOn ",").mapM f

/-- ends are monotone starting from `prev` -/
def endsMonotone : Nat → List OTok → Bool
  | _, [] => true
  | prev, t :: ts => prev ≤ t.end_ && endsMonotone t.end_ ts

def lastEndO : List OTok → Nat
  | [] => 0
  | [t] => t.end_
  | _ :: ts => lastEndO ts

def isBracketByte (b : UInt8) : Bool := b == 40 || b == 41 || b == 91 || b == 93 || b == 123 || b == 125
def closerOf (b : UInt8) : UInt8 := if b == 40 then 41 else if b == 91 then 93 else if b == 123 then 125 else 0

/-- (index, start, end, tok) of all tokens -/
def indexToks : Nat → Nat → List OTok → List (Nat × Nat × OTok)
  | _, _, [] => []
  | i, prev, t :: ts => (i, prev, t) :: indexToks (i + 1) t.end_ ts

/-- every rune from offset `c` on is one the main loop can only count into `badBytes`: no keyword
    starts there and it is neither white space, a quote, a digit nor an identifier start -/
def tailUnrecognizable (E : Env) : Nat → Nat → Bool
  | 0, c => c ≥ E.n
  | f + 1, c =>
    if c ≥ E.n then true
    else match peekAt E c with
      | none => false
      | some r =>
        (kwMatch (E.text.drop c)).isNone && !E.has cWhite r && r != 34 && r != 39 && r != 46 &&
          !E.has cDigit r && !E.has cXidS r && tailUnrecognizable E f (c + runeLen r)

/-- C29 on an observed stream. `E` (input + class table of the op) is only used to classify the
    cause of a coverage failure. -/
def xlexOracle (E : Env) (toks : List OTok) (diags : List Diag) (cat : String) : String :=
  let text := E.text
  let n := text.length
  let covered := match toks.getLast? with
    | some t => t.end_
    | none => 0
  let cause :=
    if diags.any (·.cls == "ice") then
      (if text.getLast? == some 92 then "lexer-ice-backslash-at-eof" else "lexer-ice-other")
    else if diags.any (·.cls == "prelude") then "prelude-abort"
    else if covered < n && tailUnrecognizable E (n + 1) covered then "dropped-unrecognized-tail"
    else "uncovered-other"
  if !endsMonotone 0 toks then "fails tokens-overlap"
  else if lastEndO toks != n then s!"fails coverage cause={cause} covered={lastEndO toks} len={n}"
  else if cat != "eq" then s!"fails concat-differs cause={cause}"
  else
    let arr := toks.toArray
    let ixs := indexToks 0 0 toks
    -- fuse offsets are symmetric
    let sym := ixs.all (fun (i, _, t) =>
      t.off == 0 ||
        (let j : Int := (i : Int) + t.off
         j ≥ 0 && (match arr[j.toNat]? with
           | some u => u.off == -t.off
           | none => false)))
    if !sym then "fails fuse-asymmetric"
    else
      -- pairs (open index, close index) nest properly
      let pairs := ixs.filterMap (fun (i, _, t) => if t.off > 0 then some (i, i + t.off.toNat) else none)
      let nested := pairs.all (fun (a, b) => pairs.all (fun (c, d) => !(a < c && c < b && b < d)))
      if !nested then "fails fuse-overlap"
      else
        let reported (s e : Nat) : Bool :=
          diags.any (fun d => d.cls == "unm" && d.level ≤ lvError && d.spans.contains (s, e))
        let bad := ixs.find? (fun (i, s, t) =>
          if t.kind == kKeyword && t.end_ == s + 1 then
            match text[s]? with
            | some b =>
              if isBracketByte b then
                let matched :=
                  if t.off > 0 then
                    -- an opener: partner is the matching closer, or the empty synthetic closer
                    closerOf b != 0 &&
                      (match arr[i + t.off.toNat]?, ixs[i + t.off.toNat]? with
                        | some u, some (_, us, _) =>
                          (u.kind == kKeyword && u.end_ == us + 1 && text[us]? == some (closerOf b))
                        | _, _ => false)
                  else if t.off < 0 then
                    (match ixs[i - (-t.off).toNat]? with
                      | some (_, us, u) =>
                        u.kind == kKeyword && u.end_ == us + 1 &&
                          (match text[us]? with
                            | some ob => closerOf ob == b
                            | none => false)
                      | none => false)
                  else false
                !(matched || reported s t.end_)
              else false
            | none => false
          else false)
        match bad with
        | some (i, s, _) => s!"fails bracket-neither-matched-nor-reported token={i} at={s}"
        | none => "holds"

def xlexSpec (line ans : String) : String :=
  match words line with
  | ["lex", h, ct] =>
    match bytesOfHex h, words ans with
    | some bs, [t, d, c] =>
      if t.startsWith "T=" && d.startsWith "D=" && c.startsWith "cat=" then
        match parseList parseOTok (dropS t 2), parseList parseODiag (dropS d 2), parseClsTable ct with
        | some toks, some diags, some tbl => xlexOracle (mkEnv bs tbl) toks diags (dropS c 4)
        | _, _, _ => "fails bad-answer"
      else if ans.startsWith "panic" then "fails panic-escaped-lexer"
      else "fails bad-answer"
    | some _, _ => if ans.startsWith "panic" then "fails panic-escaped-lexer" else "fails bad-answer"
    | none, _ => "skip"
  | _ => "skip"


/-! ## xparse (C28) -/

def parseLevels (s : String) : Option (List Int) :=
  if s == "-" then some [] else (s.splitOn ",").mapM String.toInt?

def parseConsts (s : String) : Option Levels :=
  match (s.splitOn ",").mapM String.toInt? with
  | some [a, b, c, d] => some ⟨a, b, c, d⟩
  | _ => none

def xparseModel (line : String) : String :=
  match words line with
  | ["parse", h, c, k, lv, bad] =>
    match bytesOfHex h, parseClsTable c, parseConsts k, bad.toNat? with
    | some bs, some tbl, some L, some _ =>
      if !clsTableOk tbl bs then "bad-op"
      -- the theorems of PCV.Props.C28 are stated for XParse.goLevels: a renumbering must be seen
      else if L != goLevels then s!"report.Level constants changed: {k} (model and theorems assume 1,2,3,4)"
      else if lv == "panic" then "panic"
      else if lv == "hang" then "hang"
      else match parseLevels lv with
        | some ls =>
          let r := lex (mkEnv bs tbl)
          let lexice := if r.status == .done || r.status == .abort then 0 else 1
          s!"ok={okLoop L.err ls} lexice={lexice} obs=same"
        | none => "bad-op"
    | _, _, _, _ => "bad-op"
  | _ => "bad-op"

/-- C28 on the implementation: no panic, no ICE, ok ⇔ no error diagnostics, spans in the file -/
def xparseSpec (line ans : String) : String :=
  match words line with
  | ["parse", h, ct, k, lv, bad] =>
    if ans.startsWith "panic" then "fails panic-escaped-Parse"
    else if lv == "hang" || ans.startsWith "hang" then "fails hang (lexer/parser did not finish within the watchdog period)"
    else
      match parseConsts k, parseLevels lv, bad.toNat?, words ans with
      | some L, some ls, some nb, [o, li, ob] =>
        if ob.startsWith "obs=shared-report:" then
          s!"fails result-depends-on-earlier-diagnostics-in-the-report {o} alone, {ob} after another file's errors"
        else if ob != "obs=same" then "fails observation-not-reproducible"
        else if ls.any (· == L.ice) then
          -- classification only: what does the lexer model say about this input?
          match bytesOfHex h, parseClsTable ct with
          | some bs, some tbl =>
            if li == "lexice=0" then
              let r := lex (mkEnv bs tbl)
              let gap := bs.length - (match r.toks.getLast? with | some t => t.end_ | none => 0)
              s!"fails ice parser stream-gap={gap}"
            else if bs.getLast? == some 92 then "fails ice lexer backslash-at-eof"
            else "fails ice lexer other"
          | _, _ => "fails bad-op"
        else
          let want := noErrors L ls
          if o != s!"ok={want}" then
            s!"fails ok-mismatch {o} but error-diagnostics={!want} levels={lv}"
          else if nb > 0 then s!"fails span-outside-file count={nb}"
          else "holds"
      | _, _, _, _ => "fails bad-answer"
  | _ => "skip"

end PCV.Engines.XLexImpl

namespace PCV.Engines

def xlex : Engine := Engine.pure XLexImpl.xlexModel XLexImpl.xlexSpec
def xparse : Engine := Engine.pure XLexImpl.xparseModel XLexImpl.xparseSpec

end PCV.Engines
