-- ENGINE: link => PCV.Engines.link
-- ENGINE: dual => PCV.Engines.dual
import PCV.Engine
import PCV.Util.Wire
import PCV.Model.MiniProto
import PCV.Spec.MiniProto
namespace PCV.Engines.MiniProtoE
open PCV.Wire PCV.MiniProto

/-- `nm json|entry <hex>` / `nm canon <hex value> <hex enum>` -/
def nmAnswer (nm : Naming) (canon : String → String → String) : List String → String
  | ["json", h] => match strOfHex h with
    | some s => hexOfStr (nm.jsonName s)
    | none => "bad-op"
  | ["entry", h] => match strOfHex h with
    | some s => hexOfStr (nm.mapEntryName s)
    | none => "bad-op"
  | ["canon", h, e] => match strOfHex h, strOfHex e with
    | some v, some en => hexOfStr (canon v en)
    | _, _ => "bad-op"
  | _ => "bad-op"

def linkModel (line : String) : String :=
  match words line with
  | "nm" :: rest => nmAnswer goNaming canonicalEnumValueName rest
  | "laws" :: toks => PCV.MiniProto.Spec.lawsAnswer goNaming toks
  | _ =>
    match parseWorkspace line with
    | none => "bad-op"
    | some ws => linkAnswer goChecks goNaming ws

def dualModel (line : String) : String :=
  match parseWorkspace line with
  | none => "bad-op"
  | some ws =>
    if !wellFormed ws then "bad-op"
    else if (compileRequested goChecks goNaming ws).errs.isEmpty then "ok" else "err"

/-- C01/C02 oracle: the implementation's accept/reject and descriptors against the declarative
    reference semantics (never against the Go-shaped model) -/
def linkSpec (line ans : String) : String :=
  match words line with
  | "nm" :: rest =>
    -- the implementation's naming function against protoc's transcribed algorithm
    let want := nmAnswer PCV.MiniProto.Spec.protocNaming PCV.MiniProto.Spec.protocEnumCanon rest
    if want == "bad-op" then "skip" else if ans == want then "holds" else s!"fails naming-differs-from-protoc want={want}"
  | "laws" :: toks => PCV.MiniProto.Spec.lawsVerdict toks
  | "ws" :: "Q" :: note :: _ =>
    match parseWorkspace line with
    | none => "skip"
    | some ws =>
      match PCV.MiniProto.Spec.anchorCheck note ws with
      | some bad => bad
      | none => PCV.MiniProto.Spec.linkVerdict ws ans
  | _ =>
    match parseWorkspace line with
    | none => "skip"
    | some ws => PCV.MiniProto.Spec.linkVerdict ws ans
/-- C27 oracle: the experimental compiler's outcome against the stable compiler's, directly -/
def dualSpec (_line ans : String) : String := PCV.MiniProto.Spec.dualVerdict ans

end PCV.Engines.MiniProtoE

namespace PCV.Engines
def link : Engine := Engine.pure MiniProtoE.linkModel MiniProtoE.linkSpec
def dual : Engine := Engine.pure MiniProtoE.dualModel MiniProtoE.dualSpec
end PCV.Engines
