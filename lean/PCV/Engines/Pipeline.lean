-- ENGINE: forms => PCV.Engines.forms
-- ENGINE: relink => PCV.Engines.relink
-- ENGINE: clone => PCV.Engines.clone
/-
Line-protocol adapters for the pipeline engines (C09 forms, C10 relink, C24 clone).

Op lines carry the workspace as a declaration tree (see harness/engines/pipeline_gen.go):
the model never parses .proto text.  Model answers are `ok <projection>`; the property
oracles judge the observations the Go side appends after ` ~ ` (digests of the deterministic
marshalling of every compiled file per input-form assignment, before/after snapshots of the
supplied objects, node identities of clones).
-/
import PCV.Engine
import PCV.Util.Wire
import PCV.Model.Pipeline
import PCV.Model.CloneIndex
namespace PCV.Engines.PipelineE
open PCV.Wire PCV.Pipeline

/-! ### parsing the workspace words -/

def parseLabel (s : String) : Option Label :=
  if s == "n" then some .none else if s == "o" then some .optional
  else if s == "q" then some .required else if s == "r" then some .repeated else none

def parseEnd (s : String) : Option Int := if s == "max" then some 536870911 else s.toInt?

def parseJson (s : String) : Option String := if s == "-" then none else some s

/-- `k HEX*k` → (k, rest) -/
def takeOpts (ws : List String) : Option (Nat × List String) :=
  match ws with
  | k :: rest => do
    let k ← k.toNat?
    if rest.length < k then none else pure (k, rest.drop k)
  | [] => none

def parseRanges : Nat → List String → Option (List (Int × Int) × List String)
  | 0, ws => some ([], ws)
  | n + 1, s :: e :: ws => do
    let s ← s.toInt?
    let e ← parseEnd e
    let (rs, rest) ← parseRanges n ws
    pure ((s, e) :: rs, rest)
  | _, _ => none

mutual
def parseDecl : Nat → List String → Option (Decl × List String)
  | 0, _ => none
  | fuel + 1, ws =>
    match ws with
    | "I" :: p :: rest => some (.imp p false, rest)
    | "P" :: p :: rest => some (.imp p true, rest)
    | "o" :: _ :: rest => some (.opt, rest)
    | "w" :: _ :: rest => some (.rsvName, rest)
    | "v" :: _ :: _ :: rest => some (.rsvRange, rest)
    | "M" :: n :: rest => do
      let (b, rest) ← parseBody fuel rest
      pure (.msg n b, rest)
    | "N" :: n :: rest => do
      let (b, rest) ← parseBody fuel rest
      pure (.enum n b, rest)
    | "O" :: n :: rest => do
      let (b, rest) ← parseBody fuel rest
      pure (.oneof n b, rest)
    | "X" :: n :: rest => do
      let (b, rest) ← parseBody fuel rest
      pure (.extend (splitRef n) b, rest)
    | "S" :: n :: rest => do
      let (b, rest) ← parseBody fuel rest
      pure (.svc n b, rest)
    | "f" :: l :: t :: n :: num :: j :: rest => do
      let l ← parseLabel l
      let num ← num.toInt?
      let (k, rest) ← takeOpts rest
      pure (.field l (splitRef t) n num (parseJson j) k, rest)
    | "m" :: kt :: vt :: n :: num :: j :: rest => do
      let num ← num.toInt?
      let (k, rest) ← takeOpts rest
      pure (.mapf kt (splitRef vt) n num (parseJson j) k, rest)
    | "g" :: l :: n :: num :: rest => do
      let l ← parseLabel l
      let num ← num.toInt?
      let (k, rest) ← takeOpts rest
      let (b, rest) ← parseBody fuel rest
      pure (.group l n num k b, rest)
    | "r" :: cnt :: rest => do
      let cnt ← cnt.toNat?
      if cnt == 0 then none
      let (rs, rest) ← parseRanges cnt rest
      let (k, rest) ← takeOpts rest
      pure (.extRange rs k, rest)
    | "V" :: n :: num :: rest => do
      let num ← num.toInt?
      let (k, rest) ← takeOpts rest
      pure (.val n num k, rest)
    | "C" :: n :: i :: o :: cs :: ss :: rest => do
      if !(cs == "0" || cs == "1") || !(ss == "0" || ss == "1") then none
      match rest with
      | "-" :: rest => pure (.rpc n (splitRef i) (splitRef o) (cs == "1") (ss == "1") none, rest)
      | _ =>
        let (k, rest) ← takeOpts rest
        pure (.rpc n (splitRef i) (splitRef o) (cs == "1") (ss == "1") (some k), rest)
    | _ => none
def parseBody : Nat → List String → Option (List Decl × List String)
  | 0, _ => none
  | fuel + 1, ws =>
    match ws with
    | "." :: rest => some ([], rest)
    | _ => do
      let (d, rest) ← parseDecl fuel ws
      let (ds, rest) ← parseBody fuel rest
      pure (d :: ds, rest)
end

def parseSyn (s : String) : Option Syn :=
  if s == "2" then some .proto2 else if s == "3" then some .proto3
  else if s == "e" then some .editions else none

def parseFiles : Nat → List String → Option (List SrcFile)
  | 0, _ => none
  | _, [] => some []
  | fuel + 1, "F" :: path :: syn :: pkg :: rest => do
    let syn ← parseSyn syn
    let (b, rest) ← parseBody (rest.length + 1) rest
    let fs ← parseFiles fuel rest
    pure ({ path := path, syn := syn, pkg := if pkg == "-" then [] else parseName pkg, body := b } :: fs)
  | _, _ => none

def parseWS (ws : List String) : Option (List SrcFile) :=
  match parseFiles (ws.length + 1) ws with
  | some [] => none
  | r => r

/-! ### projection (must print exactly what harness/engines/pipeline.go prints) -/

def dash (s : String) : String := if s == "" then "-" else s
def refOrDash : Option Ref → String
  | some r => showRef r
  | none => "-"
def numOrDash (n : Nat) : String := if n == 0 then "-" else toString n
def commas (xs : List String) : String := ",".intercalate xs

def showField (f : FieldD) : String :=
  let oo := match f.oneof with | some i => toString i | none => "-"
  s!"{f.name}#{f.number}#{numOrDash f.label}#{numOrDash f.typ}#{refOrDash f.typeName}#{refOrDash f.extendee}#{f.json}#{oo}#{if f.p3opt then "1" else "0"}"

def showEnum (e : EnumD) : String :=
  "E(" ++ e.name ++ ",[" ++ commas (e.vals.map (fun v => s!"{v.1}:{v.2}")) ++ "])"

def showMsg (m : MsgD) : String :=
  "M(" ++ showName m.path ++ ",[" ++ commas (m.fields.map showField) ++ "],[" ++ commas m.oneofs ++ "],[" ++
    commas (m.enums.map showEnum) ++ "],[" ++ commas (m.ranges.map (fun r => s!"{r.1}-{r.2}")) ++ "],[" ++
    commas (m.exts.map showField) ++ "]," ++ (if m.mapEntry then "1" else "0") ++ ")"

def showSvc (s : SvcD) : String :=
  "S(" ++ s.name ++ ",[" ++ commas (s.methods.map (fun m =>
    s!"{m.name}#{showRef m.inp}#{showRef m.out}#{if m.cs then "1" else "0"}#{if m.ss then "1" else "0"}")) ++ "])"

def showSyn : Syn → String
  | .proto2 => "proto2" | .proto3 => "proto3" | .editions => "editions:1000"

def showFile (f : FileD) : String :=
  "F(" ++ f.path ++ "," ++ dash (showName f.pkg) ++ "," ++ showSyn f.syn ++ ",[" ++ commas f.deps ++ "],[" ++
    commas (f.pubDeps.map toString) ++ "],[" ++ commas (f.msgs.map showMsg) ++ "],[" ++
    commas (f.enums.map showEnum) ++ "],[" ++ commas (f.exts.map showField) ++ "],[" ++
    commas (f.svcs.map showSvc) ++ "])"

/-! ### model steps -/

def showResult : Except String (List FileD) → String
  | .ok fs => "ok " ++ " ".intercalate (fs.map showFile)
  | .error e => "rejected " ++ e

def validModes (s : String) : Bool :=
  (s.splitOn ",").all (fun m => match m.toNat? with | some n => n ≤ 7 | none => false)

def validSpec (s0 : String) : Bool :=
  -- an optional trailing `n` (no concurrent batch)
  let s := match s0.toList.reverse with
    | 'n' :: rest => String.ofList rest.reverse
    | _ => s0
  s == "x" || (match s.toList with
    | 's' :: rest => match (String.ofList rest).splitOn ":" with
      | [a, b] => a.toNat?.isSome && b.toNat?.isSome
      | _ => false
    | _ => false)

def formsModel (line : String) : String :=
  match words line with
  | "forms" :: modes :: spec :: ws | "formsx" :: modes :: spec :: ws =>
    if !validModes modes || !validSpec spec then "bad-op" else
    match parseWS ws with
    | some files => showResult (compileAll files)
    | none => "bad-op"
  | "noast" :: ws =>
    match parseWS ws with
    | some files => showResult (compileAll files)
    | none => "bad-op"
  | _ => "bad-op"

def relinkModel (line : String) : String :=
  match words line with
  | "relink" :: modes :: spec :: ws | "relinkd" :: modes :: spec :: ws =>
    if !validModes modes || !validSpec spec then "bad-op" else
    match parseWS ws with
    | some files =>
      match compileAll files with
      | .ok linked => showResult (relinkAll linked)
      | .error e => "rejected " ++ e
    | none => "bad-op"
  | _ => "bad-op"

/-! ### the forms / relink oracle -/

/-- cut the free-text error note -/
def beforeErr (s : String) : String := (s.splitOn " err=").headD ""

structure Section where
  mode : Nat
  refs : List (String × String × String)   -- full / without source info / canonical wire form
  entries : List (String × String × String)   -- (A|C, assignment, digests)

def parseKV (pfx : String) (w : String) : Option String :=
  if w.startsWith pfx then some (String.ofList (w.toList.drop pfx.length)) else none

def parseEntries (tag : String) (s : String) : List (String × String × String) :=
  if s == "" then [] else
  (s.splitOn ";").filterMap (fun ent => match ent.splitOn ":" with
    | [a, d] => some (tag, a, d)
    | _ => some (tag, ent, "MALFORMED"))

def parseRefs (s : String) : Option (List (String × String × String)) :=
  (s.splitOn ",").mapM (fun r => match r.splitOn "/" with
    | [a, b] => some (a, b, a)
    | [a, b, c] => some (a, b, c)
    | _ => none)

/-- words after ` ~ `: `M<mode> ref=… A=… C=…` sections followed by `S=…` -/
def parseSections : List String → Option (List Section × String)
  | [] => none
  | w :: rest =>
    match parseKV "S=" w with
    | some s => some ([], s)
    | none =>
      match parseKV "M" w, rest with
      | some m, r :: a :: c :: rest' => do
        let mode ← m.toNat?
        let refs ← (parseKV "ref=" r).bind parseRefs
        let a ← parseKV "A=" a
        let c ← parseKV "C=" c
        let (secs, s) ← parseSections rest'
        pure ({ mode := mode, refs := refs, entries := parseEntries "A" a ++ parseEntries "C" c } :: secs, s)
      | _, _ => none

/-- expected digest of file `i` supplied in form `f` under source-info mode `mode`:
    the all-source result; for an unlinked proto WITHOUT source info the source info part is
    necessarily absent (there is no source to compute it from). -/
def expectedDigest (mode : Nat) (form : Char) (r : String × String × String) : String :=
  if form == 'p' && mode != 0 then r.2.1
  else if form == 'B' then r.2.2   -- a proto loaded from its wire encoding is compared in canonical wire form
  else r.1

def checkEntry (what : String) (sec : Section) (e : String × String × String) : Option String :=
  let (tag, asg, ds) := e
  let forms := asg.toList
  let got := ds.splitOn ","
  if ds == "ERR" then
    some s!"fails {what}-rejected kind={tag} mode={sec.mode} asg={asg}"
  else if forms.length != sec.refs.length || got.length != sec.refs.length then
    some s!"fails {what}-malformed kind={tag} mode={sec.mode} asg={asg}"
  else
    let rec go (i : Nat) : List Char → List String → List (String × String × String) → Option String
      | f :: fs, g :: gs, r :: rs =>
        if g == expectedDigest sec.mode f r then go (i + 1) fs gs rs
        else some s!"fails {what}-disagree kind={tag} mode={sec.mode} asg={asg} file={i} form={f} got={g} want={expectedDigest sec.mode f r}"
      | _, _, _ => none
    go 0 forms got sec.refs

def firstSome {α β : Type} (f : α → Option β) : List α → Option β
  | [] => none
  | x :: xs => match f x with
    | some y => some y
    | none => firstSome f xs

def checkSnapshots (s : String) : Option String :=
  firstSome (fun ent => match ent.splitOn ":" with
    | [id, before, after] => if before == after then none else some s!"fails input-mutated obj={id} before={before} after={after}"
    | _ => some s!"fails snapshot-malformed {ent}") (s.splitOn ",")

/-- `X=<asg>:<file>:<path>,…`: supplied descriptor protos whose memory a compilation result
    shares (the resolver's object was linked in place instead of a defensive copy) -/
def checkAliases (ws : List String) : Option String :=
  match firstSome (parseKV "X=") ws with
  | none => some "fails alias-observation-missing"
  | some x =>
    if x == "-" then none
    else match ((x.splitOn ",").headD "").splitOn ":" with
      | [asg, file, path] => some s!"fails input-aliased-by-result asg={asg} file={file} at={path}"
      | _ => some s!"fails alias-observation-malformed {x}"

/-- the property oracle of C09 / C10 on the implementation's answer -/
def formsSpecWith (what : String) (ans : String) : String :=
  if ans.startsWith "relink-rejected" then "fails relink-rejected" else
  if ans.startsWith "relinkd-protodesc-rejected" then "fails relink-output-not-buildable" else
  if !ans.startsWith "ok " then "skip" else
  match ans.splitOn " ~ " with
  | [_, obs] =>
    match parseSections (words (beforeErr obs)) with
    | some (secs, snaps) =>
      match firstSome (fun sec => firstSome (checkEntry what sec) sec.entries) secs with
      | some v => v
      | none =>
        match checkSnapshots snaps with
        | some v => v
        | none =>
          match checkAliases (words (beforeErr obs)) with
          | some v => v
          | none => if secs.isEmpty then "fails no-observations" else "holds"
    | none => "fails observations-malformed"
  | _ => "fails observations-missing"

def formsSpec (line ans : String) : String :=
  match words line with
  | "forms" :: _ | "formsx" :: _ | "noast" :: _ => formsSpecWith "forms" ans
  | _ => "skip"

def relinkSpec (line ans : String) : String :=
  match words line with
  | "relink" :: _ | "relinkd" :: _ => formsSpecWith "relink" ans
  | _ => "skip"

/-! ### clone -/

def sumBy {α : Type} (f : α → Nat) (xs : List α) : Nat := (xs.map f).foldl (· + ·) 0

/-- per-kind counts of the elements for which result.go registers an AST node -/
def cloneCounts (d : FileD) : String :=
  let nM := d.msgs.length
  let nF := sumBy (fun m => m.fields.length + m.exts.length) d.msgs + d.exts.length
  let nO := sumBy (fun m => m.oneofs.length) d.msgs
  let nR := sumBy (fun m => m.ranges.length) d.msgs
  let nv := sumBy (fun m => m.nrsv) d.msgs
  let enums := d.enums ++ d.msgs.flatMap (·.enums)
  let nN := enums.length
  let nV := sumBy (fun e => e.vals.length) enums
  let nw := sumBy (fun e => e.nrsv) enums
  let nS := d.svcs.length
  let nC := sumBy (fun s => s.methods.length) d.svcs
  let nU := d.nopts + sumBy (fun m => m.nopts + sumBy (·.nopts) m.fields + sumBy (·.nopts) m.exts) d.msgs +
    sumBy (·.nopts) d.exts + sumBy (·.nopts) enums + sumBy (·.nopts) d.svcs
  s!"File=1,M={nM},F={nF},O={nO},R={nR},v={nv},N={nN},V={nV},w={nw},S={nS},C={nC},U={nU}"

def indexed {α : Type} (xs : List α) : List (Nat × α) := (List.range xs.length).zip xs

/-! #### the `index` op: regenerated lists → `covers` -/

open PCV.CloneIndex in
structure IdxParse where
  reg : List (String × Key) := []
  edges : List Edge := []
  fns : List Fn := []
  optEntries : List Entry := []      -- body of recreateNodeIndexForOptions, relative to one option
  woSelf : Bool := false
  woOpts : Bool := false
  unOK : Bool := false
  root : String := ""
  weird : Bool := false

open PCV.CloneIndex in
/-- statements of one function body → entries; `pre` is the relative path of the current loop
    variable.  Returns the entries and the remaining words (after the matching `end`). -/
def parseStmts (st : IdxParse) : Nat → List String → List String → Option (List Entry × List String)
  | 0, _, _ => none
  | fuel + 1, pre, ws =>
    match ws with
    | "end" :: rest => some ([], rest)
    | "upd" :: rest => do
      let (es, rest) ← parseStmts st fuel pre rest
      pure (⟨pre, .upd .self⟩ :: es, rest)
    | "updexts" :: rest => do
      let (es, rest) ← parseStmts st fuel pre rest
      pure (⟨pre, .upd .exts⟩ :: es, rest)
    | "updopts" :: rest => do
      let (es, rest) ← parseStmts st fuel pre rest
      let self := if st.woSelf then [⟨pre, .upd .self⟩] else []
      let opts := if st.woOpts then st.optEntries.map (fun e => ⟨pre ++ ["Options", "UninterpretedOption"] ++ e.rel, e.act⟩) else []
      pure (self ++ opts ++ es, rest)
    | "call" :: t :: rest => do
      let (es, rest) ← parseStmts st fuel pre rest
      pure (⟨pre, .call t⟩ :: es, rest)
    | "loop" :: f :: rest => do
      let (inner, rest) ← parseStmts st fuel (pre ++ [f]) rest
      let (es, rest) ← parseStmts st fuel pre rest
      pure (inner ++ es, rest)
    | _ => none

open PCV.CloneIndex in
/-- first pass: `wo`, `un`, `ofn`, `root` (needed to desugar `updopts`) -/
def idxPass1 (st : IdxParse) : Nat → List String → IdxParse
  | 0, _ => st
  | _, [] => st
  | fuel + 1, w :: rest =>
    if w == "wo" then
      match rest with
      | a :: b :: rest' => idxPass1 { st with woSelf := a == "1", woOpts := b == "1" } fuel rest'
      | _ => { st with weird := true }
    else if w == "un" then
      match rest with
      | a :: rest' => idxPass1 { st with unOK := a == "1" } fuel rest'
      | _ => { st with weird := true }
    else if w == "root" then
      match rest with
      | a :: rest' => idxPass1 { st with root := a } fuel rest'
      | _ => { st with weird := true }
    else if w == "weird" then { st with weird := true }
    else if w == "ofn" then
      match rest with
      | "each" :: rest' =>
        match parseStmts {} (rest'.length + 1) [] rest' with
        | some (es, "end" :: rest'') => idxPass1 { st with optEntries := es } fuel rest''
        | _ => { st with weird := true }
      | _ => { st with weird := true }
    else idxPass1 st fuel rest

open PCV.CloneIndex in
def idxPass2 (st : IdxParse) : Nat → List String → IdxParse
  | 0, _ => st
  | _, [] => st
  | fuel + 1, w :: rest =>
    if w == "fn" then
      match rest with
      | t :: rest' =>
        match parseStmts st (rest'.length + 1) [] rest' with
        | some (es, rest'') => idxPass2 { st with fns := st.fns ++ [⟨t, es⟩] } fuel rest''
        | none => { st with weird := true }
      | _ => { st with weird := true }
    else idxPass2 st fuel rest

open PCV.CloneIndex in
def parseRegWord (w : String) : Option (String × Key) :=
  match w.splitOn ":" with
  | ["s", t] => some (t, .self)
  | ["x", t] => some (t, .exts)
  | _ => none

open PCV.CloneIndex in
def parseEdgeWord (w : String) : Option Edge :=
  match w.splitOn "." with
  | [p, f, c] => some ⟨p, f, c⟩
  | _ => none

open PCV.CloneIndex in
/-- `index reg … edges … prog …` → Spec -/
def parseIndexSpec (ws : List String) : Option Spec :=
  match ws with
  | "reg" :: rest =>
    let regW := rest.takeWhile (· != "edges")
    let rest := (rest.dropWhile (· != "edges")).drop 1
    let edgeW := rest.takeWhile (· != "prog")
    let prog := (rest.dropWhile (· != "prog")).drop 1
    do
      let reg ← regW.mapM parseRegWord
      let edges ← edgeW.mapM parseEdgeWord
      let st := idxPass1 {} (prog.length + 1) prog
      if st.weird || !st.unOK || st.root == "" then none
      let st := idxPass2 st (prog.length + 1) prog
      if st.weird then none
      pure { reg := reg, edges := edges, fns := st.fns, root := st.root }
  | _ => none

def cloneModel (line : String) : String :=
  match words line with
  | "clone" :: kind :: ws =>
    if !(kind == "ast" || kind == "noast" || kind == "astsci" || kind == "noastsci") then "bad-op" else
    match parseWS ws with
    | some files =>
      match compileAll files with
      | .ok _ => "ok " ++ " ".intercalate ((indexed (files.map toDesc)).map (fun p => s!"f{p.1}:{cloneCounts p.2}"))
      | .error e => "rejected " ++ e
    | none => "bad-op"
  | "index" :: ws =>
    match parseIndexSpec ws with
    | some spec => if PCV.CloneIndex.covers spec then "complete" else "incomplete"
    | none => "incomplete"
  | _ => "bad-op"

def kvOf (ws : List String) (key : String) : Option String := firstSome (parseKV (key ++ "=")) ws

def checkCloneSection (sec : String) : Option String :=
  let ws := words sec
  let f := ws.headD "?"
  match kvOf ws "equal", kvOf ws "shared", kvOf ws "ident", kvOf ws "ast", kvOf ws "indep", kvOf ws "linked" with
  | some eq, some sh, some id, some ast, some ind, some lk =>
    if eq != "1" then some s!"fails clone-not-equal {f}"
    else if sh != "0" then some s!"fails clone-shares-memory {f} shared={sh} at={(kvOf ws "sharedat").getD "?"}"
    else match id.splitOn "/" with
      | [a, b] =>
        if a != b then some s!"fails clone-index-differs {f} ident={id} missing={(kvOf ws "missing").getD "?"}"
        else if ast != "1" then some s!"fails clone-ast-differs {f}"
        else if ind != "111" then some s!"fails clone-not-independent {f} indep={ind}"
        else if lk != "1" then some s!"fails clone-unusable {f} linked={lk}"
        else none
      | _ => some s!"fails clone-observations-malformed {f}"
  | _, _, _, _, _, _ => some s!"fails clone-observations-malformed {f}"

def cloneSpec (line ans : String) : String :=
  match words line with
  | "clone" :: _ =>
    if !ans.startsWith "ok " then "skip" else
    match ans.splitOn " ~ " with
    | [_, obs] =>
      match firstSome checkCloneSection (obs.splitOn " ; ") with
      | some v => v
      | none => "holds"
    | _ => "fails observations-missing"
  | "index" :: _ =>
    if ans.startsWith "complete" then "holds"
    else if ans.startsWith "incomplete" then "fails clone-index-incomplete " ++ ((ans.splitOn " ~ ").getD 1 "")
    else "fails index-experiment-broken " ++ ans
  | _ => "skip"

end PCV.Engines.PipelineE

namespace PCV.Engines
def forms : Engine := Engine.pure PipelineE.formsModel PipelineE.formsSpec
def relink : Engine := Engine.pure PipelineE.relinkModel PipelineE.relinkSpec
def clone : Engine := Engine.pure PipelineE.cloneModel PipelineE.cloneSpec
end PCV.Engines
