-- ENGINE: attrs => PCV.Engines.attrs
import PCV.Engine
import PCV.Util.Wire
import PCV.Model.FieldAttrs
/-!
Line protocol of the `attrs` engine (C04). Element ops carry the facts of one descriptor element as
`key=value` words; the model answers with the attribute vector of the linker's view (`L …`) and of the
Go runtime's view (`R …`), exactly in the format of `harness/engines/attrs.go`.
The property oracle (`attrsSpec`) looks only at the implementation's answer: the two vectors it reports
must be equal, the runtime must not have rejected the element, and the facts must satisfy the side
conditions under which the theorems of `PCV.Props.C04` are stated.

`view` / `rawdef` ops belong to the reference-free view walker (harness/engines/attrs_view.go): the
generator records the outcome of the parallel walk in the op and `model` echoes it; the verdict
(`fails view-differs …`) comes from `spec` reading the implementation's own answer. `cfeat` / `cdflt`
compare `protoutil.ResolveCustomFeature` / `GetCustomFeatureDefault` with `customResolve` / `customDefault`.
-/
namespace PCV.Engines
open PCV.Wire PCV.FieldAttrs

namespace Attrs

def kvOf (w : String) : Option (String × String) :=
  match w.splitOn "=" with
  | [] => none
  | [_] => none
  | k :: rest => some (k, "=".intercalate rest)

def kvs (ws : List String) : Option (List (String × String)) := ws.mapM kvOf

def get (m : List (String × String)) (k : String) : Option String := m.lookup k

/-- names travel as raw bytes, one `Char` per byte -/
def nameOfBytes (bs : List UInt8) : Name := bs.map fun b => Char.ofNat b.toNat
def bytesOfName (n : Name) : List UInt8 := n.map fun c => UInt8.ofNat c.toNat
def nameOfStr (s : String) : Name := nameOfBytes s.toUTF8.toList
def strOfName (n : Name) : String := String.ofList n

def dashName (s : String) : Name := if s == "-" then [] else nameOfStr s
def dashOpt (s : String) : Option Name := if s == "-" then none else some (nameOfStr s)
def showDash (n : Name) : String := if n.isEmpty then "-" else strOfName n
def showOptName : Option Name → String
  | none => "-"
  | some n => strOfName n
def hexName (n : Name) : String := hexOfBytes (bytesOfName n)

def bool01 (s : String) : Option Bool :=
  if s == "1" then some true else if s == "0" then some false else none
def show01 (b : Bool) : String := if b then "1" else "0"

def parseSyn (s : String) : Option Syntax :=
  if s == "2" then some .proto2 else if s == "3" then some .proto3 else if s == "e" then some .editions else none
def showSyn : Syntax → String
  | .proto2 => "2" | .proto3 => "3" | .editions => "e"

def presenceOf (c : Char) : Option (Option Presence) :=
  match c with
  | '-' => some none | 'U' => some (some .unknown) | 'E' => some (some .explicit)
  | 'I' => some (some .implicit) | 'L' => some (some .legacyRequired) | _ => none
def enumTypeOf (c : Char) : Option (Option EnumType) :=
  match c with
  | '-' => some none | 'U' => some (some .unknown) | 'O' => some (some .openE) | 'C' => some (some .closedE) | _ => none
def repEncOf (c : Char) : Option (Option RepEnc) :=
  match c with
  | '-' => some none | 'U' => some (some .unknown) | 'P' => some (some .packed) | 'X' => some (some .expanded) | _ => none
def utf8Of (c : Char) : Option (Option Utf8) :=
  match c with
  | '-' => some none | 'U' => some (some .unknown) | 'V' => some (some .verify) | 'N' => some (some .noValidation) | _ => none
def msgEncOf (c : Char) : Option (Option MsgEnc) :=
  match c with
  | '-' => some none | 'U' => some (some .unknown) | 'L' => some (some .lengthPrefixed) | 'D' => some (some .delimited) | _ => none
def jsonOf (c : Char) : Option (Option JsonFmt) :=
  match c with
  | '-' => some none | 'U' => some (some .unknown) | 'A' => some (some .allow) | 'B' => some (some .legacyBestEffort) | _ => none

def parseOv (s : String) : Option Overrides :=
  match s.toList with
  | [a, b, c, d, e, f] => do
    let p ← presenceOf a
    let et ← enumTypeOf b
    let r ← repEncOf c
    let u ← utf8Of d
    let m ← msgEncOf e
    let j ← jsonOf f
    pure { presence := p, enumType := et, repEnc := r, utf8 := u, msgEnc := m, json := j }
  | _ => none

def parseChain (s : String) : Option (List Overrides) :=
  if s == "-" then some [] else (s.splitOn "/").mapM parseOv

def showFeatures (f : Features) : String :=
  let p := match f.presence with | .unknown => 'U' | .explicit => 'E' | .implicit => 'I' | .legacyRequired => 'L'
  let e := match f.enumType with | .unknown => 'U' | .openE => 'O' | .closedE => 'C'
  let r := match f.repEnc with | .unknown => 'U' | .packed => 'P' | .expanded => 'X'
  let u := match f.utf8 with | .unknown => 'U' | .verify => 'V' | .noValidation => 'N'
  let m := match f.msgEnc with | .unknown => 'U' | .lengthPrefixed => 'L' | .delimited => 'D'
  let j := match f.json with | .unknown => 'U' | .allow => 'A' | .legacyBestEffort => 'B'
  String.ofList [p, e, r, u, m, j]

def optInt (s : String) : Option (Option Int) :=
  if s == "-" then some none else s.toInt?.map some

/-- `NAME:num,NAME:num` -/
def parseNamedInts (s : String) : Option (List (Name × Int)) :=
  if s == "-" then some [] else
  (s.splitOn ",").mapM fun t => match t.splitOn ":" with
    | [n, k] => k.toInt?.map fun k => (nameOfStr n, k)
    | _ => none

def parseRanges (s : String) : Option (List (Int × Int)) :=
  if s == "-" then some [] else
  (s.splitOn ",").mapM fun t => match t.splitOn ":" with
    | [a, b] => do
      let a ← a.toInt?
      let b ← b.toInt?
      pure (a, b)
    | _ => none

def showRanges (rs : List (Int × Int)) : String :=
  if rs.isEmpty then "-" else ",".intercalate (rs.map fun (a, b) => s!"{a}:{b}")

def parseNames (s : String) : List Name :=
  if s == "-" then [] else (s.splitOn ",").map nameOfStr

def showNames (ns : List Name) : String :=
  if ns.isEmpty then "-" else ",".intercalate (ns.map strOfName)

/-- `j<hex>` / `d<hex>` / `-` -/
def taggedHex (tag : Char) (s : String) : Option (Option (List UInt8)) :=
  if s == "-" then some none else
  match s.toList with
  | c :: rest => if c == tag then (bytesOfHex (String.ofList rest)).map some else none
  | [] => none

def parseField (m : List (String × String)) (withDefault : Bool) : Option FieldFacts := do
  let syn ← (← get m "syn") |> parseSyn
  let ed ← (← get m "ed").toNat?
  let name := nameOfStr (← get m "name")
  let par := dashName (← get m "par")
  let num ← (← get m "num").toInt?
  let label ← (← get m "label").toNat? >>= Label.ofNat?
  let type ← (← get m "type").toNat? >>= Kind.ofNat?
  let oneof := dashOpt (← get m "oneof")
  let ext ← (← get m "ext") |> bool01
  let extendee := dashName (← get m "extendee")
  let p3o ← (← get m "p3o") |> bool01
  let packedS ← get m "packed"
  let packed ← if packedS == "-" then some none else (bool01 packedS).map some
  let jn ← taggedHex 'j' (← get m "jn")
  let hd ← (← get m "hd") |> bool01
  let chain ← parseChain (← get m "fc")
  let pme ← (← get m "pme") |> bool01
  let tmsg := dashOpt (← get m "tmsg")
  let tme ← (← get m "tme") |> bool01
  let tsf ← (← get m "tsf") |> bool01
  let tenum := dashOpt (← get m "tenum")
  let tefc ← parseChain (← get m "tefc")
  let teedS ← get m "teed"
  let teed ← if teedS == "-" then some 0 else teedS.toNat?
  let te0 ← optInt (← get m "te0")
  let mv0 ← optInt (← get m "mv0")
  let ems ← (← get m "ems") |> bool01
  let (defS, evals) ← if withDefault then do
      let d ← taggedHex 'd' (← get m "def")
      let ev ← parseNamedInts (← get m "evals")
      pure (d, ev)
    else pure (none, [])
  pure { syn := syn, fileEdition := ed, name := name, parent := par, number := num, label := label, type := type,
         oneof := oneof, ext := ext, extendee := extendee, proto3Optional := p3o, packedOpt := packed,
         jsonName := jn.map nameOfBytes, hasDefault := hd, chain := chain, parentMapEntry := pme,
         targetMsg := tmsg, targetMapEntry := tme, targetSameFile := tsf, targetEnum := tenum,
         teChain := tefc, teEdition := teed, teFirst := te0, mapValEnumFirst := mv0, extendeeMsgSet := ems,
         defaultStr := defS, enumVals := evals }

def showFieldVec (v : FieldVec) : String :=
  s!"name={strOfName v.name} fqn={strOfName v.fqn} num={v.number} card={v.card.toNat} kind={v.kind.toNat} " ++
  s!"pres={show01 v.hasPresence} optkw={show01 v.hasOptionalKeyword} packed={show01 v.isPacked} " ++
  s!"list={show01 v.isList} map={show01 v.isMap} isext={show01 v.isExtension} hasjson={show01 v.hasJSONName} " ++
  s!"json={hexName v.jsonName} text={hexName v.textName} oneof={showOptName v.oneof} cmsg={showDash v.containingMsg} " ++
  s!"msg={showOptName v.message} enum={showOptName v.enum} hasdef={show01 v.hasDefault} rf={showFeatures v.resolved}"

def showDefVal : DefVal → String
  | .invalid => "invalid"
  | .bool b => s!"bool:{show01 b}"
  | .i32 v => s!"i32:{v}"
  | .i64 v => s!"i64:{v}"
  | .u32 v => s!"u32:{v}"
  | .u64 v => s!"u64:{v}"
  | .f32zero => "f32:00000000"
  | .f64zero => "f64:0000000000000000"
  | .str b => s!"str:{hexOfBytes b}"
  | .bytesEmpty => "bytes:-"
  | .enum n => s!"enum:{n}"
  | .error => "error"

def fieldAnswer (f : FieldFacts) : String :=
  let rv := f.runtimeVerdict
  let r := if rv == "ok" then showFieldVec (fieldVecR f) else "none"
  s!"L {showFieldVec (fieldVecL f)} R {r} rv={rv}"

def defaultAnswer (f : FieldFacts) : String :=
  if opaqueDefault f.type f.defaultStr then "same" else
  let rv := f.runtimeVerdict
  let r := if rv == "ok" then s!"v={showDefVal f.defaultR} ev={showOptName f.defaultEnumR}" else "none"
  s!"L v={showDefVal f.defaultL} ev={showOptName f.defaultEnumL} R {r} rv={rv}"

def parseMsgField (t : String) : Option MsgField :=
  match t.splitOn ":" with
  | [n, l, ov] => do
    let n ← n.toInt?
    let l ← l.toNat? >>= Label.ofNat?
    let ov ← parseOv ov
    pure { number := n, label := l, own := ov }
  | _ => none

def parseMsg (fqn : String) (m : List (String × String)) : Option MsgFacts := do
  let syn ← (← get m "syn") |> parseSyn
  let ed ← (← get m "ed").toNat?
  let chain ← parseChain (← get m "fc")
  let me ← (← get m "me") |> bool01
  let fl ← get m "flds"
  let flds ← if fl == "-" then some [] else (fl.splitOn ",").mapM parseMsgField
  let rr ← parseRanges (← get m "rr")
  let xr ← parseRanges (← get m "xr")
  let no ← (← get m "no").toNat?
  pure { syn := syn, fileEdition := ed, name := nameOfStr (← get m "name"), fqn := nameOfStr fqn, chain := chain,
         mapEntry := me, fields := flds, reservedRanges := rr, extensionRanges := xr,
         reservedNames := parseNames (← get m "rn"), oneofs := no }

def showInts (ns : List Int) : String :=
  if ns.isEmpty then "-" else ",".intercalate (ns.map toString)

def showMsgVec (v : MsgVec) : String :=
  s!"name={strOfName v.name} fqn={strOfName v.fqn} me={show01 v.mapEntry} req={showInts v.required} " ++
  s!"rr={showRanges v.reservedRanges} xr={showRanges v.extensionRanges} rn={showNames v.reservedNames} " ++
  s!"nf={v.nFields} no={v.nOneofs} rf={showFeatures v.resolved}"

def parseEnum (fqn : String) (m : List (String × String)) : Option EnumFacts := do
  let syn ← (← get m "syn") |> parseSyn
  let ed ← (← get m "ed").toNat?
  let chain ← parseChain (← get m "fc")
  let vals ← parseNamedInts (← get m "vals")
  let rr ← parseRanges (← get m "rr")
  pure { syn := syn, fileEdition := ed, name := nameOfStr (← get m "name"), fqn := nameOfStr fqn, chain := chain,
         values := vals, reservedRanges := rr, reservedNames := parseNames (← get m "rn") }

def showEnumVec (v : EnumVec) : String :=
  let vals := if v.values.isEmpty then "-" else ",".intercalate (v.values.map fun (n, k) => s!"{strOfName n}:{k}")
  s!"name={strOfName v.name} fqn={strOfName v.fqn} closed={show01 v.closed} vals={vals} " ++
  s!"rr={showRanges v.reservedRanges} rn={showNames v.reservedNames} rf={showFeatures v.resolved}"

def parseOneof (fqn : String) (m : List (String × String)) : Option OneofFacts := do
  let syn ← (← get m "syn") |> parseSyn
  let fl ← get m "flds"
  let flds ← if fl == "-" then some [] else (fl.splitOn ",").mapM fun t => match t.splitOn ":" with
    | [n, p] => (bool01 p).map fun p => (nameOfStr n, p)
    | _ => none
  pure { syn := syn, name := nameOfStr (← get m "name"), fqn := nameOfStr fqn, fields := flds }

def showOneof (o : OneofFacts) (synthetic : Bool) : String :=
  let fl := if o.fields.isEmpty then "-" else ",".intercalate (o.fields.map fun f => strOfName f.1)
  s!"name={strOfName o.name} fqn={strOfName o.fqn} syn={show01 synthetic} flds={fl}"

/-- methods and files: every attribute is read off the proto by both implementations -/
def methodAnswer (fqn : String) (m : List (String × String)) : Option String := do
  let v := s!"name={← get m "name"} fqn={fqn} in={← get m "in"} out={← get m "out"} cs={← get m "cs"} ss={← get m "ss"}"
  let _ ← bool01 (← get m "cs")
  let _ ← bool01 (← get m "ss")
  pure s!"L {v} R {v}"

def fileAnswer (path : String) (m : List (String × String)) : Option String := do
  let syn ← (← get m "syn") |> parseSyn
  let ed ← (← get m "ed").toNat?
  let ov ← parseOv (← get m "fc")
  let nm ← (← get m "nm").toNat?
  let ne ← (← get m "ne").toNat?
  let nx ← (← get m "nx").toNat?
  let ns ← (← get m "ns").toNat?
  -- `(*result).Edition()` / `filedesc.File.L1.Edition`
  let edOut := editionOf syn ed
  let v := s!"path={path} pkg={← get m "pkg"} syn={showSyn syn} ed={edOut} deps={← get m "deps"} " ++
    s!"nm={nm} ne={ne} nx={nx} ns={ns} rf={showFeatures (resolveAllL (editionOf syn ed) [ov])}"
  pure s!"L {v} R {v}"

def isHexWord (s : String) : Bool := (bytesOfHex s).isSome

/-- `x=<hex>`: the outcome of the view walk recorded by the generator (this clause has no Lean reference) -/
def echoOf (w : String) : String :=
  if w.startsWith "x=" then
    match bytesOfHex (w.drop 2).toString with
    | some bs => match String.fromUTF8? (ByteArray.mk bs.toArray) with
      | some s => s
      | none => "bad-op"
    | none => "bad-op"
  else "bad-op"

def parseTable (s : String) : Option (List (Nat × String)) :=
  if s == "-" then some [] else
  (s.splitOn ",").mapM fun t => match t.splitOn ":" with
    | [e, v] => e.toNat?.map fun e => (e, v)
    | _ => none

/-- `v=<value>` expected for `cfeat` / `cdflt` -/
def customAnswer (isDefault : Bool) (m : List (String × String)) : Option String := do
  let ed ← (← get m "ed").toNat?
  let tab ← parseTable (← get m "dflt")
  let r ← if isDefault then pure (customDefault ed tab) else do
    let ch ← get m "chain"
    let chain := (ch.splitOn "/").map fun t => if t == "-" then none else some t
    pure (customResolve ed chain tab)
  pure ("v=" ++ r.getD "err")

def model (line : String) : String :=
  match words line with
  | ["src", _, h] => if isHexWord h then "ok" else "bad-op"
  | ["compile"] => "ok"
  | ["view", _, x] => echoOf x
  | ["rawdef", _, h, x] => if isHexWord h then echoOf x else "bad-op"
  | ["camel", h] => match bytesOfHex h with
    | some bs => hexName (jsonCamelCase (nameOfBytes bs))
    | none => "bad-op"
  | ["dflt", e] => match e.toNat? with
    | some e => showFeatures (linkerDefaults e)
    | none => "bad-op"
  | kind :: name :: rest =>
    match kvs rest with
    | none => "bad-op"
    | some m =>
      let r : Option String :=
        if kind == "fld" then (parseField m false).map fieldAnswer
        else if kind == "dfl" then (parseField m true).map defaultAnswer
        else if kind == "msg" then (parseMsg name m).map fun f => s!"L {showMsgVec (msgVecL f)} R {showMsgVec (msgVecR f)}"
        else if kind == "enum" then (parseEnum name m).map fun e => s!"L {showEnumVec (enumVecL e)} R {showEnumVec (enumVecR e)}"
        else if kind == "oneof" then (parseOneof name m).map fun o =>
          s!"L {showOneof o (isSyntheticL o)} R {showOneof o (isSyntheticR o)}"
        else if kind == "mtd" then methodAnswer name m
        else if kind == "file" then fileAnswer name m
        else if kind == "cfeat" then customAnswer false m
        else if kind == "cdflt" then customAnswer true m
        else none
      r.getD "bad-op"
  | _ => "bad-op"

/-! ### property oracle -/

def failedClauses (cs : List (String × Bool)) : List String := (cs.filter (!·.2)).map (·.1)

/-- side conditions of the theorems, evaluated on the facts in the op -/
def factsVerdict (kind name : String) (m : List (String × String)) : Option String :=
  let bad (what : String) (cs : List String) : Option String :=
    if cs.isEmpty then none else some s!"fails facts-outside-accepted {what} {",".intercalate cs}"
  if kind == "fld" then match parseField m false with
    | some f => bad "field" (failedClauses (acceptedFieldClauses f))
    | none => some "fails bad-facts"
  else if kind == "dfl" then match parseField m true with
    | some f => if acceptedDefault f then none else some "fails facts-outside-accepted default"
    | none => some "fails bad-facts"
  else if kind == "msg" then match parseMsg name m with
    | some f => bad "message" (failedClauses (acceptedMsgClauses f))
    | none => some "fails bad-facts"
  else if kind == "enum" then match parseEnum name m with
    | some f => bad "enum" (failedClauses (acceptedEnumClauses f))
    | none => some "fails bad-facts"
  else if kind == "oneof" then match parseOneof name m with
    | some f => if acceptedOneof f then none else some "fails facts-outside-accepted oneof"
    | none => some "fails bad-facts"
  else none

/-- split `L a b c R d e f [rv=x]` -/
def splitLR (ws : List String) : Option (List String × List String × Option String) :=
  match ws with
  | "L" :: rest =>
    let l := rest.takeWhile (· != "R")
    match rest.dropWhile (· != "R") with
    | _ :: r =>
      match r.reverse with
      | last :: initRev =>
        if last.startsWith "rv=" then some (l, initRev.reverse, some (last.drop 3).toString) else some (l, r, none)
      | [] => none
    | [] => none
  | _ => none

def differingKeys : List String → List String → List String
  | a :: as, b :: bs => (if a == b then [] else [(a.splitOn "=").headD a]) ++ differingKeys as bs
  | [], [] => []
  | _, _ => ["length"]

/-- The oracle: the implementation's own answer must show (i) the runtime accepted the compiled file
and the element, (ii) identical attribute vectors for the linker's and the runtime's descriptor. -/
def spec (line ans : String) : String :=
  match words line with
  | ["compile"] =>
    if ans == "ok" then "holds"
    else if ans.startsWith "newfile-error" then "fails runtime-rejects-file " ++ ans
    -- the first observation of the compiled descriptors is made by several goroutines at once: every one
    -- of them must see what a lone caller sees
    else if ans.startsWith "conc-differs" then "fails concurrent-observation-differs " ++ ans
    else "skip"
  | kind :: name :: rest =>
    if kind == "src" || kind == "camel" || kind == "dflt" then "skip" else
    if kind == "view" || kind == "rawdef" then
      -- the view walker's own oracle: both implementations must agree
      if ans == "same" then "holds"
      else if ans.startsWith "differ " then "fails view-differs " ++ (ans.drop 7).toString
      else if ans.startsWith "skipped-" || ans == "both-reject" || ans.startsWith "compiler-rejects" then "skip"
      else "fails bad-answer"
    else if kind == "cfeat" || kind == "cdflt" then
      match (kvs rest).bind (customAnswer (kind == "cdflt")) with
      | some want => if ans == want then "holds" else s!"fails custom-feature-differs impl={ans} expected={want}"
      | none => "fails bad-facts"
    else
    if ans == "same" then "holds" else
    if ans.startsWith "differ" then "fails default-differs " ++ ans else
    match splitLR (words ans), kvs rest with
    | some (l, r, rv), some m =>
      if r == ["none"] then
        if kind == "dfl" then "skip"
        else s!"fails runtime-rejects-element {rv.getD "missing"}"
      else
        let d := differingKeys l r
        if !d.isEmpty then s!"fails attr-differs {",".intercalate d}"
        else match rv with
          | some v => if v == "ok" then (factsVerdict kind name m).getD "holds" else s!"fails runtime-rejects-element {v}"
          | none => (factsVerdict kind name m).getD "holds"
    | _, _ => "fails bad-answer"
  | _ => "skip"

end Attrs

def attrs : Engine := Engine.pure Attrs.model Attrs.spec

end PCV.Engines
