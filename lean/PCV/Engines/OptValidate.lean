-- ENGINE: optvalidate => PCV.Engines.optvalidate
/-
Line protocol of the `optvalidate` engine (second engine of C01).

  fs [Q <note>] { F <syn> <optfor> <jutf8> <pres> <enumt> <menc>  { I <k> }  { E <enumt> }
                  { M <msgset> { R <verif> { S <lo> <hi> } { D <num> <name> <type> <rsvd> <rep> } }
                               { f <label> <type> <oneof> <10 option tokens> } }
                  { x <efile> <emsg> <num> <label> <type> <10 option tokens> } }
  an <name> <go:ok|err> <protoc:ok|err> fs …      a protoc-anchored table case (calibration)

model answer : per file `ok | dep | pre | crash | v:<class>,…`
oracle       : the declarative protoc reference (PCV.Spec.OptValidate) judged against the
               implementation's accept/reject.
-/
import PCV.Engine
import PCV.Util.Wire
import PCV.Model.OptValidate
import PCV.Spec.OptValidate
namespace PCV.Engines.OptValidateWire
open PCV.Wire PCV.OptValidate

def triBool : String → Option (Option Bool)
  | "-" => some none | "t" => some (some true) | "f" => some (some false) | _ => none

def pSyn : String → Option Syn
  | "2" => some .proto2 | "3" => some .proto3 | "e" => some .ed2023 | "4" => some .ed2024 | _ => none
def pOptFor : String → Option (Option OptFor)
  | "-" => some none | "s" => some (some .speed) | "c" => some (some .codeSize) | "l" => some (some .lite) | _ => none
def pPres : String → Option (Option Presence)
  | "-" => some none | "e" => some (some .explicit) | "i" => some (some .implicit)
  | "l" => some (some .legacyRequired) | _ => none
def pEnumT : String → Option (Option EnumType)
  | "-" => some none | "o" => some (some .open) | "c" => some (some .closed) | _ => none
def pMEnc : String → Option (Option MsgEnc)
  | "-" => some none | "l" => some (some .lengthPrefixed) | "d" => some (some .delimited) | _ => none
def pREnc : String → Option (Option RepEnc)
  | "-" => some none | "p" => some (some .packed) | "x" => some (some .expanded) | _ => none
def pUtf8 : String → Option (Option Utf8)
  | "-" => some none | "v" => some (some .verify) | "n" => some (some .none) | _ => none
def pJs : String → Option (Option JsType)
  | "-" => some none | "n" => some (some .normal) | "s" => some (some .string) | "m" => some (some .number) | _ => none
def pCt : String → Option (Option CType)
  | "-" => some none | "s" => some (some .string) | "c" => some (some .cord) | "p" => some (some .stringPiece) | _ => none
def pVerif : String → Option (Option Verif)
  | "-" => some none | "d" => some (some .declaration) | "u" => some (some .unverified) | _ => none
def pLabel : String → Option Label
  | "-" => some .none | "o" => some .optional | "q" => some .required | "r" => some .repeated | _ => none

def pScalar (s : String) : Option Scalar := allScalars.find? (fun x => String.ofList x.name == s)

def pRef (a b : String) : Option Ref := do
  let f ← a.toNat?
  let i ← b.toNat?
  pure ⟨f, i⟩

def pType (s : String) : Option FType :=
  match s.splitOn ":" with
  | ["g"] => some .group
  | [x] => (pScalar x).map .scalar
  | ["e", a, b] => (pRef a b).map .enum
  | ["m", a, b] => (pRef a b).map .message
  | ["map", k, v] => do
    let k ← pScalar k
    let v ← pScalar v
    pure (.map k (.scalar v))
  | ["map", k, "e", a, b] => do
    let k ← pScalar k
    let r ← pRef a b
    pure (.map k (.enum r))
  | ["map", k, "m", a, b] => do
    let k ← pScalar k
    let r ← pRef a b
    pure (.map k (.message r))
  | _ => none

def pOpts : List String → Option FieldOpts
  | [d, pk, lz, ul, js, ct, pr, re, u8, me] => do
    let d ← (match d with | "-" => some false | "d" => some true | _ => none)
    let pk ← triBool pk
    let lz ← triBool lz
    let ul ← triBool ul
    let js ← pJs js
    let ct ← pCt ct
    let pr ← pPres pr
    let re ← pREnc re
    let u8 ← pUtf8 u8
    let me ← pMEnc me
    pure { hasDefault := d, packed := pk, lazy := lz, unverifiedLazy := ul, jstype := js, ctype := ct,
           presence := pr, repEnc := re, utf8 := u8, msgEnc := me }
  | _ => none

def strTokOk (c : Char) : Bool :=
  ' ' < c && c ≤ '~' && c != '"' && c != '\\' && c != '\''

def pStrTok (s : String) : Option (Option Name) :=
  if s == "-" then some none
  else match s.toList with
    | '=' :: rest => if rest.all strTokOk then some (some rest) else none
    | _ => none

def pOptInt (s : String) : Option (Option Int) :=
  if s == "-" then some none else s.toInt?.map some

/-! the records are folded into the file list: a record is added to the LAST file / message /
    statement -/

def modLast {α : Type} (l : List α) (f : α → α) : Option (List α) :=
  match l.reverse with
  | [] => none
  | x :: r => some ((f x :: r).reverse)

def modLastM {α : Type} (l : List α) (f : α → Option α) : Option (List α) :=
  match l.reverse with
  | [] => none
  | x :: r => (f x).map (fun y => (y :: r).reverse)

def addToMsg (fs : Files) (g : Message → Option Message) : Option Files :=
  modLastM fs (fun f => (modLastM f.msgs g).map (fun ms => { f with msgs := ms }))

def addToStmt (fs : Files) (g : ExtStmt → ExtStmt) : Option Files :=
  addToMsg fs (fun m => (modLast m.stmts g).map (fun ss => { m with stmts := ss }))

/-- parse the records after `fs [Q note]`; fuel = number of tokens -/
def pRecords : Nat → List String → Files → Option Files
  | _, [], fs => some fs
  | 0, _ :: _, _ => none
  | n + 1, "F" :: sy :: o :: j :: p :: e :: m :: rest, fs => do
    let sy ← pSyn sy
    let o ← pOptFor o
    let j ← triBool j
    let p ← pPres p
    let e ← pEnumT e
    let m ← pMEnc m
    pRecords n rest (fs ++ [{ syn := sy, optFor := o, javaUtf8 := j, presence := p, enumType := e, msgEnc := m }])
  | n + 1, "I" :: k :: rest, fs => do
    let k ← k.toNat?
    let fs ← modLast fs (fun f => { f with imports := f.imports ++ [k] })
    pRecords n rest fs
  | n + 1, "E" :: e :: rest, fs => do
    let e ← pEnumT e
    let fs ← modLast fs (fun f => { f with enums := f.enums ++ [e] })
    pRecords n rest fs
  | n + 1, "M" :: s :: rest, fs => do
    let s ← triBool s
    let fs ← modLast fs (fun f => { f with msgs := f.msgs ++ [{ msgSet := s }] })
    pRecords n rest fs
  | n + 1, "R" :: v :: rest, fs => do
    let v ← pVerif v
    let fs ← addToMsg fs (fun m => some { m with stmts := m.stmts ++ [{ verification := v, spans := [] }] })
    pRecords n rest fs
  | n + 1, "S" :: a :: b :: rest, fs => do
    let a ← a.toNat?
    let b ← b.toNat?
    let fs ← addToStmt fs (fun st => { st with spans := st.spans ++ [⟨a, b⟩] })
    pRecords n rest fs
  | n + 1, "D" :: num :: nm :: ty :: rs :: rp :: rest, fs => do
    let num ← pOptInt num
    let nm ← pStrTok nm
    let ty ← pStrTok ty
    let rs ← triBool rs
    let rp ← triBool rp
    let fs ← addToStmt fs (fun st => { st with decls := st.decls ++
      [{ number := num, fullName := nm, type := ty, reserved := rs, repeated := rp }] })
    pRecords n rest fs
  | n + 1, "f" :: lb :: ty :: oo :: a0 :: a1 :: a2 :: a3 :: a4 :: a5 :: a6 :: a7 :: a8 :: a9 :: rest, fs => do
    let lb ← pLabel lb
    let ty ← pType ty
    let oo ← (if oo == "-" then some none else oo.toNat?.map some)
    let o ← pOpts [a0, a1, a2, a3, a4, a5, a6, a7, a8, a9]
    let fs ← addToMsg fs (fun m => some { m with fields := m.fields ++ [{ label := lb, ty := ty, oneof := oo, opts := o }] })
    pRecords n rest fs
  | n + 1, "x" :: ef :: em :: num :: lb :: ty :: a0 :: a1 :: a2 :: a3 :: a4 :: a5 :: a6 :: a7 :: a8 :: a9 :: rest, fs => do
    let r ← pRef ef em
    let num ← num.toNat?
    let lb ← pLabel lb
    let ty ← pType ty
    let o ← pOpts [a0, a1, a2, a3, a4, a5, a6, a7, a8, a9]
    let fs ← modLast fs (fun f => { f with exts := f.exts ++ [{ extendee := r, number := num, label := lb, ty := ty, opts := o }] })
    pRecords n rest fs
  | _, _, _ => none

/-- `fs [Q note] records…` -/
def parseSet (ws : List String) : Option (String × Files) :=
  match ws with
  | "fs" :: "Q" :: note :: rest => (pRecords rest.length rest []).bind (fun fs => if fs.isEmpty then none else some (note, fs))
  | "fs" :: rest => (pRecords rest.length rest []).bind (fun fs => if fs.isEmpty then none else some ("", fs))
  | _ => none

def model (line : String) : String :=
  match words line with
  | "an" :: _ :: _ :: _ :: rest =>
    (match parseSet rest with
     | some (_, fs) => answer fs
     | none => "bad-op")
  | ws =>
    match parseSet ws with
    | some (_, fs) => answer fs
    | none => "bad-op"

/-- accept/reject of the implementation's answer: every file `ok` -/
def implAccepts (ans : String) : Option Bool :=
  let main := (ans.splitOn " ~ ").headD ""
  let toks := words main
  if toks.isEmpty then none
  else if toks.all (fun t => t == "ok" || t == "dep" || t == "pre" || t == "crash" || "v:".isPrefixOf t) then
    some (toks.all (· == "ok"))
  else none

def firstBad (ans : String) : String :=
  match (words ((ans.splitOn " ~ ").headD "")).find? (· != "ok") with
  | some t => t
  | none => "-"

def judge (fs : Files) (ans : String) : String :=
  match implAccepts ans with
  | none => s!"fails unclassified-answer {firstBad ans}"
  | some acc => PCV.OptValidate.Spec.oracle fs acc (firstBad ans)

def spec (line ans : String) : String :=
  match words line with
  | "an" :: name :: go :: protoc :: rest =>
    (match parseSet rest with
     | none => "bad-line"
     | some (_, fs) =>
       -- calibration: the reference must give the outcome the protoc-validated table records, the
       -- implementation the outcome the table records for the Go compiler
       let pAcc := PCV.OptValidate.Spec.protocAccepts fs
       let rAcc := PCV.OptValidate.Spec.refAccepts fs
       if !wellFormed fs then s!"fails anchor-not-well-formed {name}"
       else if pAcc != (protoc == "ok") then s!"fails reference-miscalibrated {name} protoc-reference={pAcc} table-protoc={protoc}"
       else if rAcc != (go == "ok") then s!"fails reference-miscalibrated {name} reference-with-divergences={rAcc} table-go={go}"
       else match implAccepts ans with
         | some acc => if acc == (go == "ok") then "holds" else s!"fails table-outcome-differs {name} go={go} impl={firstBad ans}"
         | none => s!"fails unclassified-answer {firstBad ans}")
  | ws =>
    match parseSet ws with
    | none => "skip"
    | some (_, fs) => judge fs ans

end PCV.Engines.OptValidateWire

namespace PCV.Engines
def optvalidate : Engine := Engine.pure OptValidateWire.model OptValidateWire.spec
end PCV.Engines
