-- ENGINE: toposort => PCV.Engines.toposort
import PCV.Engine
import PCV.Util.Wire
import PCV.Model.Toposort
namespace PCV.Engines
open PCV.Wire PCV.Toposort

namespace TopoWire

def parseCsv (s : String) : Option (List String) :=
  if s == "-" then some [] else some (s.splitOn ",")

def parseKV (key : String) (w : String) : Option String :=
  match w.splitOn "=" with
  | [k, v] => if k == key then some v else none
  | _ => none

def parseEdge (s : String) : Option (Nat × Nat) :=
  match s.splitOn ">" with
  | [a, b] => do pure ((← a.toNat?), (← b.toNat?))
  | _ => none

structure Op where
  n : Nat
  edges : List (Nat × Nat)
  roots : List Nat
  limit : Option Nat

/-- `sort n=<n> edges=<a>b,…|-> roots=<r,…|-> limit=<k|->`; nodes must be `< n`, `k ≥ 1`. -/
def parseOp (line : String) : Option Op :=
  match words line with
  | ["sort", n, e, r, l] => do
    let n ← (← parseKV "n" n).toNat?
    let es ← (← parseCsv (← parseKV "edges" e)).mapM parseEdge
    let rs ← (← parseCsv (← parseKV "roots" r)).mapM String.toNat?
    let l ← parseKV "limit" l
    let lim ← if l == "-" then some none else l.toNat?.map some
    if es.all (fun (a, b) => a < n && b < n) && rs.all (· < n) && lim != some 0 then
      pure { n := n, edges := es, roots := rs, limit := lim }
    else none
  | _ => none

/-- adjacency list: children of `v` in the order the edges are listed -/
def Op.graph (o : Op) : Graph :=
  (List.range o.n).map (fun v => (o.edges.filter (fun e => e.1 == v)).map (·.2))

def showList (ns : List Nat) : String :=
  if ns.isEmpty then "-" else ",".intercalate (ns.map toString)

def showResult : Result → String
  | .ok out => s!"ok {showList out}"
  | .stopped out => s!"stopped {showList out}"
  | .panic out e =>
    let suf := "->".intercalate (e.suffix.map toString)
    s!"panic yielded={showList out} msg=protocompile/internal:_cycle_detected:_{suf}_->_{e.node}"
  | .outOfFuel => "model-out-of-fuel"

/-! naive reference for the oracle (independent of the model) -/

def dedup (l : List Nat) : List Nat := l.eraseDups

/-- nodes reachable from `start` (inclusive) by closure iteration -/
def closure (g : Graph) (start : List Nat) : List Nat :=
  let rec go : Nat → List Nat → List Nat
    | 0, s => s
    | k + 1, s => go k (dedup (s ++ s.flatMap (children g)))
  go (g.length + 1) (dedup start)

/-- `v` lies on a cycle -/
def onCycle (g : Graph) (v : Nat) : Bool := (closure g (children g v)).contains v

def indexOf? (l : List Nat) (v : Nat) : Option Nat :=
  let rec go : List Nat → Nat → Option Nat
    | [], _ => none
    | x :: xs, i => if x == v then some i else go xs (i + 1)
  go l 0

def parseOut (s : String) : Option (List Nat) :=
  if s == "-" then some [] else (s.splitOn ",").mapM String.toNat?

/-- each yielded node comes after all of its children -/
def childrenFirst (g : Graph) (out : List Nat) : Bool :=
  out.all fun u => (children g u).all fun c =>
    match indexOf? out c, indexOf? out u with
    | some i, some j => i < j
    | _, _ => false

def nodup (l : List Nat) : Bool := l.eraseDups.length == l.length

/-- `sort make|makepkg n=<n> edges=… roots=…` -/
def parseMake (n e r : String) : Option Op := do
  let n ← (← parseKV "n" n).toNat?
  let es ← (← parseCsv (← parseKV "edges" e)).mapM parseEdge
  let rs ← (← parseCsv (← parseKV "roots" r)).mapM String.toNat?
  if es.all (fun (a, b) => a < n && b < n) && rs.all (· < n) then
    pure { n := n, edges := es, roots := rs, limit := none }
  else none

/-- `<j|->` with `j ≥ 1` -/
def parseLimit (l : String) : Option (Option Nat) :=
  if l == "-" then some none
  else match l.toNat? with
    | some 0 => none
    | some k => some (some k)
    | none => none

def reentrantMsg : String := "internal/toposort:_Sort()_called_reëntrantly"

def showNest : NestResult → String
  | .plain r => showResult r
  | .reentrant out => s!"panic yielded={showList out} msg={reentrantMsg}"

/-- a sequence returned by a `Sort` call: its graph and roots, and the Sorter it belongs to
    (0 = the Sorter of the case, i > 0 = the private Sorter of the i-th package-level `Sort`) -/
structure SeqRec where
  op : Op
  sorter : Nat

/-- model state of a case: the Sorters' scratch spaces and the sequences made so far -/
structure TSState where
  sorters : List Sorter := [Sorter.fresh]
  seqs : List SeqRec := []

def TSState.sorter (st : TSState) (i : Nat) : Sorter := st.sorters.getD i Sorter.fresh

def TSState.setSorter (st : TSState) (i : Nat) (s : Sorter) : TSState :=
  { st with sorters := st.sorters.set i s }

end TopoWire
open TopoWire

/-- model step. `sort n=… limit=…` = Sort + one pass at once; `sort make …` = `s.Sort(…)` on the
    case's Sorter without consuming; `sort makepkg …` = package-level `toposort.Sort(…)` (its own
    Sorter); `sort range k j` = one pass over sequence `k` (break after `j` nodes unless `-`);
    `sort nest k j k2` = a pass over `k` whose body at the j-th node ranges `k2` (same Sorter). -/
def toposortStep (st : TSState) (line : String) : TSState × String :=
  match words line with
  | ["sort", "make", n, e, r] =>
    match parseMake n e r with
    | some o =>
      let st := st.setSorter 0 (st.sorter 0).sortCall
      ({ st with seqs := st.seqs ++ [{ op := o, sorter := 0 }] }, s!"seq {st.seqs.length}")
    | none => (st, "bad-op")
  | ["sort", "makepkg", n, e, r] =>
    match parseMake n e r with
    | some o =>
      ({ sorters := st.sorters ++ [Sorter.fresh],
         seqs := st.seqs ++ [{ op := o, sorter := st.sorters.length }] }, s!"seq {st.seqs.length}")
    | none => (st, "bad-op")
  | ["sort", "range", k, j] =>
    match k.toNat?, parseLimit j with
    | some k, some lim =>
      match st.seqs[k]? with
      | some sq =>
        let (r, s') := (st.sorter sq.sorter).range sq.op.graph sq.op.roots lim
        (st.setSorter sq.sorter s', showResult r)
      | none => (st, "bad-op")
    | _, _ => (st, "bad-op")
  | ["sort", "nest", k, j, k2] =>
    match k.toNat?, parseLimit j, k2.toNat? with
    | some k, some (some j), some k2 =>
      match st.seqs[k]?, st.seqs[k2]? with
      | some sq, some sq2 =>
        if sq.sorter == 0 && sq2.sorter == 0 then
          let (r, s') := (st.sorter 0).nest sq.op.graph sq.op.roots j
          (st.setSorter 0 s', showNest r)
        else (st, "bad-op")
      | _, _ => (st, "bad-op")
    | _, _, _ => (st, "bad-op")
  | _ =>
    match parseOp line with
    | some o =>
      let (r, s') := (st.sorter 0).sortCall.range o.graph o.roots o.limit
      (st.setSorter 0 s', showResult r)
    | none => (st, "bad-op")

namespace TopoWire

/-- the property on one pass over the sequence of `o` (with `o.limit` = the consumer's break) -/
def judge (o : Op) (ans : String) : String :=
  let g := o.graph
  let reach := closure g o.roots
  let cyclic := reach.any (onCycle g)
  match words ans with
  | "panic" :: _ =>
    if cyclic then "fails panicked-on-cyclic-input" else "fails panicked-on-dag"
  | [kind, outs] =>
    match parseOut outs with
    | none => "fails bad-answer"
    | some out =>
      if !nodup out then "fails node-yielded-twice"
      else if !out.all reach.contains then "fails unreachable-node-yielded"
      else if !cyclic && !childrenFirst g out then "fails node-before-its-child"
      else if kind == "ok" then
        if !reach.all out.contains then "fails reachable-node-missing"
        else match o.limit with
          | some k => if out.length < k then "holds" else "fails consumer-stop-ignored"
          | none => "holds"
      else if kind == "stopped" then
        match o.limit with
        | some k => if out.length == k then "holds" else "fails stopped-at-wrong-count"
        | none => "fails stopped-without-limit"
      else "fails bad-answer"
  | _ => "fails bad-answer"

/-- a nested pass: the specified outcome of ranging a second sequence of the same Sorter inside
    the loop body is the re-entrancy panic, after exactly `j` correctly ordered nodes; if the
    outer pass has fewer than `j` nodes it must complete like any other pass -/
def judgeNest (o : Op) (j : Nat) (ans : String) : String :=
  let g := o.graph
  let reach := closure g o.roots
  let cyclic := reach.any (onCycle g)
  match words ans with
  | ["panic", y, m] =>
    if m == "msg=" ++ reentrantMsg then
      match parseKV "yielded" y with
      | none => "fails bad-answer"
      | some ys =>
        match parseOut ys with
        | none => "fails bad-answer"
        | some out =>
          if !nodup out then "fails node-yielded-twice"
          else if !out.all reach.contains then "fails unreachable-node-yielded"
          else if !cyclic && !childrenFirst g out then "fails node-before-its-child"
          else if out.length == j then "holds" else "fails reentrancy-panic-at-wrong-count"
    else if cyclic then "fails panicked-on-cyclic-input" else "fails panicked-on-dag"
  | ["ok", _] => judge { o with limit := some j } ans
  | _ => "fails bad-answer"

end TopoWire
open TopoWire

/-- Property oracle (C41, first two sentences) on the implementation's answer: a pass over a
    sequence must terminate without panicking, yield exactly the nodes reachable from the roots
    given at `Sort` time, each once, and — when no reachable node lies on a cycle — every node
    after all of its children; with a consumer break after `k` nodes the same is demanded of the
    first `k`. This holds for EVERY pass: a sequence is a function of its graph and roots only,
    whatever other passes (complete, broken off, panicked; of this or other sequences) came
    before. The oracle state is the list of sequences made so far. -/
def toposortSpec (seqs : List SeqRec) (line ans : String) : List SeqRec × String :=
  match words line with
  | ["sort", "make", n, e, r] =>
    match parseMake n e r with
    | some o => (seqs ++ [{ op := o, sorter := 0 }],
        if ans == s!"seq {seqs.length}" then "skip" else "fails bad-answer")
    | none => (seqs, "skip")
  | ["sort", "makepkg", n, e, r] =>
    match parseMake n e r with
    | some o => (seqs ++ [{ op := o, sorter := 1 }],
        if ans == s!"seq {seqs.length}" then "skip" else "fails bad-answer")
    | none => (seqs, "skip")
  | ["sort", "range", k, j] =>
    match k.toNat?, parseLimit j with
    | some k, some lim =>
      match seqs[k]? with
      | some sq => (seqs, judge { sq.op with limit := lim } ans)
      | none => (seqs, "skip")
    | _, _ => (seqs, "skip")
  | ["sort", "nest", k, j, k2] =>
    match k.toNat?, parseLimit j, k2.toNat? with
    | some k, some (some j), some k2 =>
      match seqs[k]?, seqs[k2]? with
      | some sq, some sq2 =>
        if sq.sorter == 0 && sq2.sorter == 0 then (seqs, judgeNest sq.op j ans) else (seqs, "skip")
      | _, _ => (seqs, "skip")
    | _, _, _ => (seqs, "skip")
  | _ =>
    match parseOp line with
    | some o => (seqs, judge o ans)
    | none => (seqs, "skip")

def toposort : Engine :=
  { σ := TSState, init := {}, step := toposortStep,
    τ := List SeqRec, specInit := [], spec := toposortSpec }

end PCV.Engines
