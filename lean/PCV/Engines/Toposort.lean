-- ENGINE: toposort => PCV.Engines.toposort
import PCV.Engine
import PCV.Util.Wire
import PCV.Model.Toposort
namespace PCV.Engines
open PCV.Wire PCV.Toposort

namespace TopoWire

def parseCsv (s : String) : Option (List String) :=
  if s == "-" then some [] else some (s.splitOn ",")

def parseKV (key : String) (w : String) : Option String :=
  match w.splitOn "=" with
  | [k, v] => if k == key then some v else none
  | _ => none

def parseEdge (s : String) : Option (Nat × Nat) :=
  match s.splitOn ">" with
  | [a, b] => do pure ((← a.toNat?), (← b.toNat?))
  | _ => none

structure Op where
  n : Nat
  edges : List (Nat × Nat)
  roots : List Nat
  limit : Option Nat

/-- `sort n=<n> edges=<a>b,…|-> roots=<r,…|-> limit=<k|->`; nodes must be `< n`, `k ≥ 1`. -/
def parseOp (line : String) : Option Op :=
  match words line with
  | ["sort", n, e, r, l] => do
    let n ← (← parseKV "n" n).toNat?
    let es ← (← parseCsv (← parseKV "edges" e)).mapM parseEdge
    let rs ← (← parseCsv (← parseKV "roots" r)).mapM String.toNat?
    let l ← parseKV "limit" l
    let lim ← if l == "-" then some none else l.toNat?.map some
    if es.all (fun (a, b) => a < n && b < n) && rs.all (· < n) && lim != some 0 then
      pure { n := n, edges := es, roots := rs, limit := lim }
    else none
  | _ => none

/-- adjacency list: children of `v` in the order the edges are listed -/
def Op.graph (o : Op) : Graph :=
  (List.range o.n).map (fun v => (o.edges.filter (fun e => e.1 == v)).map (·.2))

def showList (ns : List Nat) : String :=
  if ns.isEmpty then "-" else ",".intercalate (ns.map toString)

def showResult : Result → String
  | .ok out => s!"ok {showList out}"
  | .stopped out => s!"stopped {showList out}"
  | .panic out e =>
    let suf := "->".intercalate (e.suffix.map toString)
    s!"panic yielded={showList out} msg=protocompile/internal:_cycle_detected:_{suf}_->_{e.node}"
  | .outOfFuel => "model-out-of-fuel"

/-! naive reference for the oracle (independent of the model) -/

def dedup (l : List Nat) : List Nat := l.eraseDups

/-- nodes reachable from `start` (inclusive) by closure iteration -/
def closure (g : Graph) (start : List Nat) : List Nat :=
  let rec go : Nat → List Nat → List Nat
    | 0, s => s
    | k + 1, s => go k (dedup (s ++ s.flatMap (children g)))
  go (g.length + 1) (dedup start)

/-- `v` lies on a cycle -/
def onCycle (g : Graph) (v : Nat) : Bool := (closure g (children g v)).contains v

def indexOf? (l : List Nat) (v : Nat) : Option Nat :=
  let rec go : List Nat → Nat → Option Nat
    | [], _ => none
    | x :: xs, i => if x == v then some i else go xs (i + 1)
  go l 0

def parseOut (s : String) : Option (List Nat) :=
  if s == "-" then some [] else (s.splitOn ",").mapM String.toNat?

/-- each yielded node comes after all of its children -/
def childrenFirst (g : Graph) (out : List Nat) : Bool :=
  out.all fun u => (children g u).all fun c =>
    match indexOf? out c, indexOf? out u with
    | some i, some j => i < j
    | _, _ => false

def nodup (l : List Nat) : Bool := l.eraseDups.length == l.length

end TopoWire
open TopoWire

def toposortModel (line : String) : String :=
  match parseOp line with
  | some o => showResult (sort o.graph o.roots o.limit)
  | none => "bad-op"

/-- Property oracle (C41, first two sentences) on the implementation's answer: the sort must
    terminate without panicking, yield exactly the nodes reachable from the roots, each once,
    and — when no reachable node lies on a cycle — every node after all of its children.
    With a consumer limit `k` the same is demanded of the first `k` yields. -/
def toposortSpec (line ans : String) : String :=
  match parseOp line with
  | none => "skip"
  | some o =>
    let g := o.graph
    let reach := closure g o.roots
    let cyclic := reach.any (onCycle g)
    match words ans with
    | "panic" :: _ =>
      if cyclic then "fails panicked-on-cyclic-input" else "fails panicked-on-dag"
    | [kind, outs] =>
      match parseOut outs with
      | none => "fails bad-answer"
      | some out =>
        if !nodup out then "fails node-yielded-twice"
        else if !out.all reach.contains then "fails unreachable-node-yielded"
        else if !cyclic && !childrenFirst g out then "fails node-before-its-child"
        else if kind == "ok" then
          if !reach.all out.contains then "fails reachable-node-missing"
          else match o.limit with
            | some k => if out.length < k then "holds" else "fails consumer-stop-ignored"
            | none => "holds"
        else if kind == "stopped" then
          match o.limit with
          | some k => if out.length == k then "holds" else "fails stopped-at-wrong-count"
          | none => "fails stopped-without-limit"
        else "fails bad-answer"
    | _ => "fails bad-answer"

def toposort : Engine := Engine.pure toposortModel toposortSpec

end PCV.Engines
