-- ENGINE: intersect => PCV.Engines.intersect
-- ENGINE: nesting => PCV.Engines.nesting
import PCV.Engine
import PCV.Util.Wire
import PCV.Model.Interval
/-
Line protocol for `internal/interval` (C40).

engine `intersect` (one `Intersect[int,int]` per case):
  ins a b v   -> true | false (the `disjoint` result) | panic interval: start (a) > end (b)
  get p       -> none | s e v1,v2,…
  ents        -> - | s:e:v1,v2;s:e:v1;…          (Entries(), in order)
  dump        -> - | s:e:len:cap;…               (slice header of every entry's Value)

engine `nesting` (one `Nesting[int,int]` per case):
  ins a b v   -> ok
  clear       -> ok
  sets        -> - | s:e:v,s:e:v|s:e:v|…         (Sets(); each set in Scan order)

The property oracles are naive references over the history of inserts; they never look at the
model.
-/
namespace PCV.Engines.IntervalEng
open PCV PCV.Wire PCV.Interval

def showVals (vs : List Int) : String := ",".intercalate (vs.map toString)

def parseVals (s : String) : Option (List Int) := (s.splitOn ",").mapM String.toInt?

/-! ### intersect: model -/

def intersectStep (m : IMap) (line : String) : IMap × String :=
  match words line with
  | ["ins", sa, sb, sv] =>
    match sa.toInt?, sb.toInt?, sv.toInt? with
    | some a, some b, some v =>
      match m.insert asIs a b v with
      | (m', some true) => (m', "true")
      | (m', some false) => (m', "false")
      | (m', none) => (m', s!"panic interval: start ({a}) > end ({b})")
    | _, _, _ => (m, "bad-op")
  | ["get", sp] =>
    match sp.toInt? with
    | some p =>
      match m.get p with
      | some e => (m, s!"{e.start} {e.stop} {showVals e.val}")
      | none => (m, "none")
    | none => (m, "bad-op")
  | ["ents"] =>
    let es := m.entries
    (m, if es.isEmpty then "-" else
      ";".intercalate (es.map fun e => s!"{e.start}:{e.stop}:{showVals e.val}"))
  | ["dump"] =>
    (m, if m.tree.isEmpty then "-" else
      ";".intercalate (m.tree.map fun e => s!"{e.start}:{e.stop}:{e.val.len}:{e.val.cap}"))
  | _ => (m, "bad-op")

/-! ### intersect: naive reference -/

abbrev Hist := List (Int × Int × Int)

/-- values of the inserted intervals containing `p`, in insertion order -/
def naiveGet (h : Hist) (p : Int) : List Int :=
  (h.filter fun (a, b, _) => a ≤ p && p ≤ b).map fun (_, _, v) => v

/-- is `[a, b]` disjoint from every inserted interval? -/
def naiveDisjoint (h : Hist) (a b : Int) : Bool :=
  h.all fun (s, e, _) => e < a || b < s

def parseEntry (s : String) : Option (Int × Int × List Int) :=
  match s.splitOn ":" with
  | [a, b, vs] => do
    let a ← a.toInt?
    let b ← b.toInt?
    let vs ← parseVals vs
    pure (a, b, vs)
  | _ => none

/-- well-formed, sorted, pairwise disjoint -/
def sortedDisjoint : List (Int × Int × List Int) → Bool
  | [] => true
  | [(a, b, _)] => a ≤ b
  | (a, b, _) :: (c, d, w) :: rest => a ≤ b && b < c && sortedDisjoint ((c, d, w) :: rest)

def intersectSpec (h : Hist) (line ans : String) : Hist × String :=
  match words line with
  | ["ins", sa, sb, sv] =>
    match sa.toInt?, sb.toInt?, sv.toInt? with
    | some a, some b, some v =>
      if a > b then
        (h, if ans.startsWith "panic" then "holds" else s!"fails insert-with-start>end-did-not-panic {ans}")
      else
        let want := naiveDisjoint h a b
        let h' := h ++ [(a, b, v)]
        if ans == toString want then (h', "holds")
        else (h', s!"fails disjoint-flag want {want} got {ans}")
    | _, _, _ => (h, "bad-op")
  | ["get", sp] =>
    match sp.toInt? with
    | some p =>
      let want := naiveGet h p
      match words ans with
      | ["none"] =>
        (h, if want.isEmpty then "holds" else s!"fails get {p}: want [{showVals want}] got none")
      | [ss, se, svs] =>
        match ss.toInt?, se.toInt?, parseVals svs with
        | some s, some e, some vs =>
          if vs != want then (h, s!"fails get {p}: want [{showVals want}] got [{showVals vs}]")
          else if !(s ≤ p && p ≤ e) then (h, s!"fails get {p}: entry [{s},{e}] does not contain the point")
          else (h, "holds")
        | _, _, _ => (h, "fails bad-answer")
      | _ => (h, "fails bad-answer")
    | none => (h, "bad-op")
  | ["ents"] =>
    if ans == "-" then (h, if h.isEmpty then "holds" else "fails entries-empty-after-inserts")
    else
      match (ans.splitOn ";").mapM parseEntry with
      | some es =>
        if !sortedDisjoint es then (h, "fails entries-not-sorted-disjoint")
        else
          -- every entry carries the naive value list at both of its endpoints
          match es.find? (fun (a, b, vs) => naiveGet h a != vs || naiveGet h b != vs) with
          | some (a, b, _) => (h, s!"fails entry [{a},{b}] values differ from the inserted intervals covering it")
          | none => (h, "holds")
      | none => (h, "fails bad-answer")
  | ["dump"] => (h, "skip")
  | _ => (h, "bad-op")

def intersectEngine : Engine :=
  { σ := IMap, init := {}, step := intersectStep,
    τ := Hist, specInit := [], spec := intersectSpec }

/-! ### nesting: model -/

def showSets (ss : List NSet) : String :=
  if ss.isEmpty then "-" else
    "|".intercalate (ss.map fun s => ",".intercalate (s.map fun e => s!"{e.start}:{e.stop}:{e.val}"))

def nestingStep (n : Nest) (line : String) : Nest × String :=
  match words line with
  | ["ins", sa, sb, sv] =>
    match sa.toInt?, sb.toInt?, sv.toInt? with
    | some a, some b, some v => (n.insert a b v, "ok")
    | _, _, _ => (n, "bad-op")
  | ["clear"] => (n.clear, "ok")
  | ["sets"] => (n, showSets n.observe)
  | _ => (n, "bad-op")

/-! ### nesting: naive reference -/

def parseTriple (s : String) : Option (Int × Int × Int) :=
  match s.splitOn ":" with
  | [a, b, v] => do
    let a ← a.toInt?
    let b ← b.toInt?
    let v ← v.toInt?
    pure (a, b, v)
  | _ => none

/-- disjoint, or one a proper subset of the other -/
def laminarPair (x y : Int × Int × Int) : Bool :=
  let (a, b, _) := x
  let (c, d, _) := y
  b < c || d < a || (c ≤ a && b ≤ d && (c < a || b < d)) || (a ≤ c && d ≤ b && (a < c || d < b))

def laminarSet : List (Int × Int × Int) → Bool
  | [] => true
  | x :: rest => rest.all (laminarPair x) && laminarSet rest

def tripleLe (x y : Int × Int × Int) : Bool :=
  x.1 < y.1 || (x.1 == y.1 && (x.2.1 < y.2.1 || (x.2.1 == y.2.1 && x.2.2 ≤ y.2.2)))

def nestingSpec (h : Hist) (line ans : String) : Hist × String :=
  match words line with
  | ["ins", sa, sb, sv] =>
    match sa.toInt?, sb.toInt?, sv.toInt? with
    | some a, some b, some v => (h ++ [(a, b, v)], if ans == "ok" then "skip" else "fails insert-failed")
    | _, _, _ => (h, "bad-op")
  | ["clear"] => ([], "skip")
  | ["sets"] =>
    let parsed : Option (List (List (Int × Int × Int))) :=
      if ans == "-" then some [] else (ans.splitOn "|").mapM fun s => (s.splitOn ",").mapM parseTriple
    match parsed with
    | some ss =>
      if ss.any (·.isEmpty) then (h, "fails empty-set-yielded")
      else if !(ss.all laminarSet) then (h, "fails set-not-laminar (two intervals overlap without nesting)")
      else if (ss.flatten.mergeSort tripleLe) != (h.mergeSort tripleLe) then
        (h, s!"fails sets-do-not-partition-the-inserted-intervals ({ss.flatten.length} of {h.length} present)")
      else (h, "holds")
    | none => (h, "fails bad-answer")
  | _ => (h, "bad-op")

def nestingEngine : Engine :=
  { σ := Nest, init := {}, step := nestingStep,
    τ := Hist, specInit := [], spec := nestingSpec }

end PCV.Engines.IntervalEng

namespace PCV.Engines
def intersect : Engine := IntervalEng.intersectEngine
def nesting : Engine := IntervalEng.nestingEngine
end PCV.Engines
