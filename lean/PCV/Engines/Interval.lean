-- ENGINE: intersect => PCV.Engines.intersect
-- ENGINE: nesting => PCV.Engines.nesting
import PCV.Engine
import PCV.Util.Wire
import PCV.Model.Interval
/-
Line protocol for `internal/interval` (C40).

engine `intersect` (one `Intersect[int,int]` per case):
  ins a b v   -> true | false (the `disjoint` result) | panic interval: start (a) > end (b)
  get p       -> none | s e v1,v2,…
  ents        -> - | s:e:v1,v2;s:e:v1;…          (Entries(), in order)
  dump        -> - | s:e:len:cap;…               (slice header of every entry's Value)

engine `nesting` (one `Nesting[int,int]` per case):
  ins a b v   -> ok
  clear       -> ok
  sets        -> - | s:e:v,s:e:v|s:e:v|…         (Sets(); each set in Scan order)

The property oracles are naive references over the history of inserts; they never look at the
model.  They never excuse a failure; they only NAME the symptom so that known findings can be
matched narrowly (see known_findings.json): `after-adjacent-span:` prefixes every intersect
failure that follows an insert spanning two adjacent entries; `nesting-equal-end-overwrite` and
`nesting-partial-overlap` name the two Nesting symptoms.
-/
namespace PCV.Engines.IntervalEng
open PCV PCV.Wire PCV.Interval

def showVals (vs : List Int) : String := ",".intercalate (vs.map toString)

def parseVals (s : String) : Option (List Int) := (s.splitOn ",").mapM String.toInt?

/-! ### intersect: model -/

def intersectStep (m : IMap) (line : String) : IMap × String :=
  match words line with
  | ["ins", sa, sb, sv] =>
    match sa.toInt?, sb.toInt?, sv.toInt? with
    | some a, some b, some v =>
      match m.insert current a b v with
      | (m', some true) => (m', "true")
      | (m', some false) => (m', "false")
      | (m', none) => (m', s!"panic interval: start ({a}) > end ({b})")
    | _, _, _ => (m, "bad-op")
  | ["get", sp] =>
    match sp.toInt? with
    | some p =>
      match m.get p with
      | some e => (m, s!"{e.start} {e.stop} {showVals e.val}")
      | none => (m, "none")
    | none => (m, "bad-op")
  | ["ents"] =>
    let es := m.entries
    (m, if es.isEmpty then "-" else
      ";".intercalate (es.map fun e => s!"{e.start}:{e.stop}:{showVals e.val}"))
  | ["dump"] =>
    (m, if m.tree.isEmpty then "-" else
      ";".intercalate (m.tree.map fun e => s!"{e.start}:{e.stop}:{e.val.len}:{e.val.cap}"))
  | _ => (m, "bad-op")

/-! ### intersect: naive reference -/

abbrev Hist := List (Int × Int × Int)

/-- values of the inserted intervals containing `p`, in insertion order -/
def naiveGet (h : Hist) (p : Int) : List Int :=
  (h.filter fun (a, b, _) => a ≤ p && p ≤ b).map fun (_, _, v) => v

/-- is `[a, b]` disjoint from every inserted interval? -/
def naiveDisjoint (h : Hist) (a b : Int) : Bool :=
  h.all fun (s, e, _) => e < a || b < s

def parseEntry (s : String) : Option (Int × Int × List Int) :=
  match s.splitOn ":" with
  | [a, b, vs] => do
    let a ← a.toInt?
    let b ← b.toInt?
    let vs ← parseVals vs
    pure (a, b, vs)
  | _ => none

/-- well-formed, sorted, pairwise disjoint -/
def sortedDisjoint : List (Int × Int × List Int) → Bool
  | [] => true
  | [(a, b, _)] => a ≤ b
  | (a, b, _) :: (c, d, w) :: rest => a ≤ b && b < c && sortedDisjoint ((c, d, w) :: rest)

def covered (h : Hist) (p : Int) : Bool := h.any fun (s, e, _) => s ≤ p && p ≤ e

/-- Does `[a, b]` span two ADJACENT entries of the map that represents `h`?  Entry boundaries
    between two covered points `q | q+1` are exactly the ends (`e = q`) and starts (`s = q+1`) of
    the inserted intervals. -/
def spansAdjacent (h : Hist) (a b : Int) : Bool :=
  (h.flatMap fun (s, e, _) => [e, s - 1]).any fun q =>
    a ≤ q && q + 1 ≤ b && covered h q && covered h (q + 1)

/-- oracle state: the inserts so far, and whether one of them spanned two adjacent entries
    (the trigger of the known gap defect; used ONLY to label failures, never to excuse them) -/
structure ISpec where
  hist : Hist := []
  tainted : Bool := false

def ISpec.fail (st : ISpec) (why : String) : String :=
  if st.tainted then s!"fails after-adjacent-span: {why}" else s!"fails {why}"

def intersectSpec (st : ISpec) (line ans : String) : ISpec × String :=
  let h := st.hist
  match words line with
  | ["ins", sa, sb, sv] =>
    match sa.toInt?, sb.toInt?, sv.toInt? with
    | some a, some b, some v =>
      if a > b then
        (st, if ans.startsWith "panic" then "holds" else st.fail s!"insert-with-start>end-did-not-panic {ans}")
      else
        let want := naiveDisjoint h a b
        let st' : ISpec := ⟨h ++ [(a, b, v)], st.tainted || spansAdjacent h a b⟩
        if ans == toString want then (st', "holds")
        else (st', st.fail s!"disjoint-flag want {want} got {ans}")
    | _, _, _ => (st, "bad-op")
  | ["get", sp] =>
    match sp.toInt? with
    | some p =>
      let want := naiveGet h p
      match words ans with
      | ["none"] =>
        (st, if want.isEmpty then "holds" else st.fail s!"get {p}: want [{showVals want}] got none")
      | [ss, se, svs] =>
        match ss.toInt?, se.toInt?, parseVals svs with
        | some s, some e, some vs =>
          if vs != want then (st, st.fail s!"get {p}: want [{showVals want}] got [{showVals vs}]")
          else if !(s ≤ p && p ≤ e) then (st, st.fail s!"get {p}: entry [{s},{e}] does not contain the point")
          else (st, "holds")
        | _, _, _ => (st, "fails bad-answer")
      | _ => (st, "fails bad-answer")
    | none => (st, "bad-op")
  | ["ents"] =>
    if ans == "-" then (st, if h.isEmpty then "holds" else st.fail "entries-empty-after-inserts")
    else
      match (ans.splitOn ";").mapM parseEntry with
      | some es =>
        if !sortedDisjoint es then (st, st.fail "entries-not-sorted-disjoint")
        else
          -- every entry carries the naive value list at both of its endpoints
          match es.find? (fun (a, b, vs) => naiveGet h a != vs || naiveGet h b != vs) with
          | some (a, b, _) => (st, st.fail s!"entry [{a},{b}] values differ from the inserted intervals covering it")
          | none => (st, "holds")
      | none => (st, "fails bad-answer")
  | ["dump"] => (st, "skip")
  | _ => (st, "bad-op")

def intersectEngine : Engine :=
  { σ := IMap, init := {}, step := intersectStep,
    τ := ISpec, specInit := {}, spec := intersectSpec }

/-! ### nesting: model -/

def showSets (ss : List NSet) : String :=
  if ss.isEmpty then "-" else
    "|".intercalate (ss.map fun s => ",".intercalate (s.map fun e => s!"{e.start}:{e.stop}:{e.val}"))

def nestingStep (n : Nest) (line : String) : Nest × String :=
  match words line with
  | ["ins", sa, sb, sv] =>
    match sa.toInt?, sb.toInt?, sv.toInt? with
    | some a, some b, some v => (n.insert a b v, "ok")
    | _, _, _ => (n, "bad-op")
  | ["clear"] => (n.clear, "ok")
  | ["sets"] => (n, showSets n.observe)
  | _ => (n, "bad-op")

/-! ### nesting: naive reference -/

def parseTriple (s : String) : Option (Int × Int × Int) :=
  match s.splitOn ":" with
  | [a, b, v] => do
    let a ← a.toInt?
    let b ← b.toInt?
    let v ← v.toInt?
    pure (a, b, v)
  | _ => none

/-- disjoint, or one a proper subset of the other -/
def laminarPair (x y : Int × Int × Int) : Bool :=
  let (a, b, _) := x
  let (c, d, _) := y
  b < c || d < a || (c ≤ a && b ≤ d && (c < a || b < d)) || (a ≤ c && d ≤ b && (a < c || d < b))

def laminarSet : List (Int × Int × Int) → Bool
  | [] => true
  | x :: rest => rest.all (laminarPair x) && laminarSet rest

def tripleLe (x y : Int × Int × Int) : Bool :=
  x.1 < y.1 || (x.1 == y.1 && (x.2.1 < y.2.1 || (x.2.1 == y.2.1 && x.2.2 ≤ y.2.2)))

/-- two distinct intervals that overlap without one containing the other -/
def partialOverlap (x y : Int × Int × Int) : Bool :=
  let (a, b, _) := x
  let (c, d, _) := y
  (a < c && c ≤ b && b < d) || (c < a && a ≤ d && d < b)

/-- all pairs of a set that are not laminar -/
def badPairs : List (Int × Int × Int) → List ((Int × Int × Int) × (Int × Int × Int))
  | [] => []
  | x :: rest => ((rest.filter fun y => !laminarPair x y).map fun y => (x, y)) ++ badPairs rest

/-- remove one occurrence of each element of `ys` from `xs` -/
def removeAll (xs ys : List (Int × Int × Int)) : List (Int × Int × Int) := ys.foldl List.erase xs

/-- the inserted intervals after position `i` -/
def laterSameEnd (h : Hist) (m : Int × Int × Int) : Bool :=
  match h.dropWhile (· != m) with
  | [] => false
  | _ :: later => later.any fun (_, e, _) => e == m.2.1

/-- The verdict lists EVERY failing clause, the two known symptom classes by name:
    `nesting-equal-end-overwrite` (each missing interval was followed by an insert with the same
    end) and `nesting-partial-overlap` (each non-laminar pair is a partial overlap of two distinct
    intervals); anything else gets a different, unmatched, name. -/
def nestingSpec (h : Hist) (line ans : String) : Hist × String :=
  match words line with
  | ["ins", sa, sb, sv] =>
    match sa.toInt?, sb.toInt?, sv.toInt? with
    | some a, some b, some v => (h ++ [(a, b, v)], if ans == "ok" then "skip" else "fails insert-failed")
    | _, _, _ => (h, "bad-op")
  | ["clear"] => ([], "skip")
  | ["sets"] =>
    let parsed : Option (List (List (Int × Int × Int))) :=
      if ans == "-" then some [] else (ans.splitOn "|").mapM fun s => (s.splitOn ",").mapM parseTriple
    match parsed with
    | some ss =>
      let present := ss.flatten
      let missing := removeAll h present
      let extra := removeAll present h
      let bad := ss.flatMap badPairs
      let c0 := if ss.any (·.isEmpty) then ["empty-set-yielded"] else []
      let c1 :=
        if missing.isEmpty then []
        else if missing.all (laterSameEnd h) then
          [s!"nesting-equal-end-overwrite ({present.length} of {h.length} inserted intervals present)"]
        else [s!"interval-lost-without-equal-end ({present.length} of {h.length} present)"]
      let c2 := if extra.isEmpty then [] else [s!"interval-never-inserted ({extra.length})"]
      let c3 :=
        if bad.isEmpty then []
        else if bad.all (fun (x, y) => partialOverlap x y) then
          [s!"nesting-partial-overlap ({bad.length} pairs in one set overlap without nesting)"]
        else ["set-not-laminar (identical intervals in one set)"]
      let cs := c0 ++ c1 ++ c2 ++ c3
      if cs.isEmpty then (h, "holds") else (h, "fails " ++ "; ".intercalate cs)
    | none => (h, "fails bad-answer")
  | _ => (h, "bad-op")

def nestingEngine : Engine :=
  { σ := Nest, init := {}, step := nestingStep,
    τ := Hist, specInit := [], spec := nestingSpec }

end PCV.Engines.IntervalEng

namespace PCV.Engines
def intersect : Engine := IntervalEng.intersectEngine
def nesting : Engine := IntervalEng.nestingEngine
end PCV.Engines
