-- ENGINE: intern => PCV.Engines.intern
import PCV.Engine
import PCV.Util.Wire
import PCV.Model.Intern
/-
Line protocol of the `intern` engine (C38).  IDs travel as signed decimal `int32`s.

  alphabet                 -> hex of char6ToByte
  sext <0..255>            -> byteToChar6[b]
  enc <hex>                -> <id> | fail                 (encodeChar6)
  dec <id>                 -> <hex>                       (decodeChar6)
  rt <hex>                 -> <hex> | fail                (decodeChar6 (encodeChar6 s))
  intern <hex>             -> <id> | panic                (Table.Intern, sequential)
  query <hex>              -> <id> true | 0 false         (Table.Query)
  value <id>               -> <hex> | panic               (Table.Value)
  full                     -> ok                          (Log.next := MaxInt32)
  conc <seed> <p>;<p>;…    -> r=<toks>;<toks>;… v=<n> post=<n> ids=<list>
       every <p> = comma separated hex strings interned in order by one goroutine, all goroutines
       running concurrently.  The answer is canonical (independent of the schedule):
       one token per call — `n<id>` for an id ≤ 0 (inline), `t<k>` for a table id, numbered by
       first occurrence in op order, `p` for a panic; v = number of calls whose immediate
       `Value(id)` was not the string; post = number of calls whose id disagrees, after all
       goroutines joined, with Query / a second Intern / Value; ids = sorted distinct table ids.
       The model executes the interleaving semantics under a pseudo-random schedule derived from
       <seed>; the implementation uses the Go scheduler, several times on copies of the same
       table state, and answers `nondet <a> | <b>` if two runs differ.
-/
namespace PCV.Engines
open PCV.Wire PCV.Intern

namespace InternE

def idToInt (p : Nat) : Int := if SIGN ≤ p then (p : Int) - (U32 : Int) else (p : Int)

def intToId? (i : Int) : Option Nat :=
  if -(SIGN : Int) ≤ i ∧ i < (SIGN : Int) then
    some (if i < 0 then (i + (U32 : Int)).toNat else i.toNat)
  else none

def showId (p : Nat) : String := toString (idToInt p)

def parseId (w : String) : Option Nat := w.toInt?.bind intToId?

/-! #### concurrent execution of the model under a schedule -/

structure G where
  todo : List Str
  cur : Option Nat
  res : List (Str × Option Nat)   -- reversed
  vbad : Nat

def G.finished (g : G) : Bool := g.todo.isEmpty

/-- one scheduling quantum of goroutine `g` -/
def stepG (S : Sys) (g : G) : Sys × G :=
  match g.cur, g.todo with
  | _, [] => (S, g)
  | none, s :: _ => (applyAct S (.spawn s), { g with cur := some S.calls.length })
  | some j, s :: rest =>
    match S.calls[j]? with
    | none => (S, g)
    | some c =>
      match c.pc with
      | .ret id =>
        let bad := if value S.sh id == some s then 0 else 1
        (S, { todo := rest, cur := none, res := (s, some id) :: g.res, vbad := g.vbad + bad })
      | .panicked => (S, { todo := rest, cur := none, res := (s, none) :: g.res, vbad := g.vbad })
      | _ => (applyAct S (.step j), g)

/-- index of the first unfinished goroutine at or cyclically after `k` -/
def pickFrom (gs : List G) (k : Nat) : Option Nat :=
  let n := gs.length
  (List.range n).findSome? (fun d =>
    let i := (k + d) % n
    match gs[i]? with
    | some g => if g.finished then none else some i
    | none => none)

def lcg (x : Nat) : Nat := (x * 6364136223846793005 + 1442695040888963407) % 18446744073709551616

/-- `rnd` steps under the pseudo-random schedule, then round-robin (fair) until done -/
def sched : Nat → Nat → Nat → Nat → Sys → List G → Option (Sys × List G)
  | 0, _, _, _, S, gs => if gs.all G.finished then some (S, gs) else none
  | fuel + 1, rnd, x, rr, S, gs =>
    let k := if rnd > 0 then (x / 65536) % (gs.length + 1) else rr
    match pickFrom gs k with
    | none => some (S, gs)
    | some i =>
      match gs[i]? with
      | none => none
      | some g =>
        let (S', g') := stepG S g
        sched fuel (rnd - 1) (lcg x) (i + 1) S' (gs.set i g')

def tokens (progs : List (List (Str × Option Nat))) : List (List String) :=
  let flat := progs.flatten
  let tbl : List Nat := flat.foldl (fun acc (r : Str × Option Nat) =>
    match r.2 with
    | some id => if id = 0 ∨ SIGN ≤ id then acc else if acc.contains id then acc else acc ++ [id]
    | none => acc) []
  progs.map (fun p => p.map (fun (r : Str × Option Nat) =>
    match r.2 with
    | none => "p"
    | some id =>
      if id = 0 ∨ SIGN ≤ id then "n" ++ showId id
      else "t" ++ toString (tbl.idxOf id)))

def insertSorted (x : Nat) : List Nat → List Nat
  | [] => [x]
  | y :: ys => if x < y then x :: y :: ys else if x = y then y :: ys else y :: insertSorted x ys

def concAnswer (S : Sys) (gs : List G) : String :=
  let progs := gs.map (fun g => g.res.reverse)
  let flat := progs.flatten
  let vbad := gs.foldl (fun a g => a + g.vbad) 0
  let post := flat.foldl (fun a (r : Str × Option Nat) =>
    match r.2 with
    | none => a
    | some id =>
      let ok := query S.sh r.1 == (id, true) && (internSeq S r.1).2 == some (some id) &&
                value S.sh id == some r.1
      if ok then a else a + 1) 0
  let ids := flat.foldl (fun acc (r : Str × Option Nat) =>
    match r.2 with
    | some id => if id = 0 ∨ SIGN ≤ id then acc else insertSorted id acc
    | none => acc) []
  let toks := tokens progs
  "r=" ++ ";".intercalate (toks.map (fun t => ",".intercalate t)) ++
  s!" v={vbad} post={post} ids=" ++
  (if ids.isEmpty then "-" else ",".intercalate (ids.map toString))

def parseProgs (w : String) : Option (List (List Str)) :=
  (w.splitOn ";").mapM (fun p =>
    if p.isEmpty then none else (p.splitOn ",").mapM bytesOfHex)

def runConc (S : Sys) (seed : Nat) (progs : List (List Str)) : Sys × String :=
  let gs : List G := progs.map (fun p => { todo := p, cur := none, res := [], vbad := 0 })
  let calls := progs.foldl (fun a p => a + p.length) 0
  let rnd := 12 * calls
  let fuel := rnd + 16 * (calls + 1) * (progs.length + 1) + 16
  match sched fuel rnd (lcg (seed + 1)) 0 S gs with
  | none => (S, "model-stuck")
  | some (S', gs') => (S', concAnswer S' gs')

/-! #### model step -/

def step (S : Sys) (line : String) : Sys × String :=
  match (words line).map (fun w => if w == "internb" then "intern" else if w == "queryb" then "query" else w) with
  | ["alphabet"] => (S, hexOfBytes alphabet)
  | ["sext", n] =>
    match n.toNat? with
    | some b => if b < 256 then (S, toString (byteToChar6 (UInt8.ofNat b))) else (S, "bad-op")
    | none => (S, "bad-op")
  | ["enc", h] =>
    match bytesOfHex h with
    | some s => (S, match encodeChar6 s with | some id => showId id | none => "fail")
    | none => (S, "bad-op")
  | ["dec", i] =>
    match parseId i with
    | some id => (S, hexOfBytes (decodeChar6 id))
    | none => (S, "bad-op")
  | ["rt", h] =>
    match bytesOfHex h with
    | some s => (S, match encodeChar6 s with | some id => hexOfBytes (decodeChar6 id) | none => "fail")
    | none => (S, "bad-op")
  | ["intern", h] =>
    match bytesOfHex h with
    | some s =>
      let (S', r) := internSeq S s
      (S', match r with | some (some id) => showId id | some none => "panic" | none => "hang")
    | none => (S, "bad-op")
  | ["query", h] =>
    match bytesOfHex h with
    | some s =>
      let (id, ok) := query S.sh s
      (S, if ok then showId id ++ " true" else showId id ++ " false")
    | none => (S, "bad-op")
  | ["value", i] =>
    match parseId i with
    | some id => (S, match value S.sh id with | some s => hexOfBytes s | none => "panic")
    | none => (S, "bad-op")
  | ["full"] => (applyAct S .full, "ok")
  | ["conc", seed, ps] =>
    match seed.toNat?, parseProgs ps with
    | some sd, some progs => runConc S sd progs
    | _, _ => (S, "bad-op")
  | _ => (S, "bad-op")

/-! #### property oracle (evaluated on the implementation's answers)

It never consults the model: it uses a naive description of the inline domain and the
history of (string, id) pairs the implementation itself has produced in this case. -/

def isAlnum (c : UInt8) : Bool :=
  (48 ≤ c.toNat && c.toNat ≤ 57) || (97 ≤ c.toNat && c.toNat ≤ 122) || (65 ≤ c.toNat && c.toNat ≤ 90)

/-- reference: which strings are stored inline (documentation of `ID` and `encodeChar6`) -/
def naiveInline (s : Str) : Bool :=
  s.isEmpty || (s.length ≤ 5 && s.getLast? != some 46 && s.all (fun c => isAlnum c || c == 95 || c == 46))

structure Spec where
  pairs : List (Str × Int)   -- every (string, id) the implementation has reported
  interned : List Str        -- strings whose Intern has returned
  full : Bool                -- `full` was executed (panics are then legitimate)

def Spec.init : Spec := ⟨[], [], false⟩

/-- `id` for `s` is consistent with everything seen: equal ids ⇔ equal strings -/
def consistent (sp : Spec) (s : Str) (id : Int) : Option String :=
  match sp.pairs.find? (fun p => (p.1 == s) != (p.2 == id)) with
  | some p => some (if p.1 == s then s!"two-ids-for-one-string {p.2} {id}"
                    else s!"one-id-for-two-strings {id} {hexOfBytes p.1}")
  | none => none

def inlineShape (s : Str) (id : Int) : Option String :=
  if naiveInline s then
    if s.isEmpty then (if id == 0 then none else some "empty-string-id-not-0")
    else if id < 0 then none else some "inline-id-not-negative"
  else if id > 0 then none else some "table-id-not-positive"

def record (sp : Spec) (s : Str) (id : Int) : Spec := { sp with pairs := (s, id) :: sp.pairs }

def parseConcAnswer (ans : String) : Option (List (List String) × String × String) :=
  match words ans with
  | [r, v, post, _ids] =>
    if r.startsWith "r=" then
      some (((r.drop 2).toString.splitOn ";").map (fun p => p.splitOn ","), v, post)
    else none
  | _ => none

def specConc1 (sp : Spec) (progs : List (List Str)) (ans : String) : String :=
  match parseConcAnswer ans with
  | none => "fails bad-answer"
  | some (toks, v, post) =>
    if toks.map List.length != progs.map List.length then "fails shape"
    else
      let flat := progs.flatten.zip toks.flatten
      let panics := flat.any (fun p => p.2 == "p")
      if panics && !sp.full then "fails unexpected-panic"
      else if v != "v=0" then "fails value-of-fresh-id " ++ v
      else if post != "post=0" then "fails id-not-stable-after-join " ++ post
      else
        let live := flat.filter (fun p => p.2 != "p")
        -- shape of every id
        match live.find? (fun p =>
          let inl := p.2.startsWith "n"
          inl != naiveInline p.1 ||
          (inl && (match (p.2.drop 1).toString.toInt? with
                   | some i => if p.1.isEmpty then i != 0 else i ≥ 0
                   | none => true))) with
        | some p => "fails id-shape " ++ hexOfBytes p.1 ++ " " ++ p.2
        | none =>
          -- equal ids ⇔ equal strings, for every pair of calls of every goroutine
          match live.find? (fun p => live.any (fun q => (p.1 == q.1) != (p.2 == q.2))) with
          | some p => "fails same-id-iff-same-string " ++ hexOfBytes p.1 ++ " " ++ p.2
          | none => "holds"

/-- `nondet <a> | <b>`: two executions of the same goroutines gave different canonical
    outcomes; report which clause the offending one violates. -/
def specConc (sp : Spec) (progs : List (List Str)) (ans : String) : String :=
  if ans.startsWith "nondet " then
    match ((ans.drop 7).toString.splitOn " | ").map (specConc1 sp progs) |>.find? (·.startsWith "fails") with
    | some f => f ++ " (schedule dependent)"
    | none => "fails schedule-dependent-outcome"
  else specConc1 sp progs ans

def spec (sp : Spec) (line ans : String) : Spec × String :=
  match (words line).map (fun w => if w == "internb" then "intern" else if w == "queryb" then "query" else w) with
  | ["alphabet"] =>
    match bytesOfHex ans with
    | some a =>
      let distinct := a.length == 64 && (List.range 64).all (fun i =>
        (List.range 64).all (fun j => i == j || a[i]? != a[j]?))
      (sp, if distinct && a[63]? == some 46 && a.all (fun c => naiveInline [c] || c == 46) then "holds"
           else "fails alphabet")
    | none => (sp, "fails bad-answer")
  | ["enc", h] =>
    match bytesOfHex h with
    | none => (sp, "skip")
    | some s =>
      if ans == "fail" then (sp, if naiveInline s then "fails inline-string-rejected" else "holds")
      else match ans.toInt? with
        | none => (sp, "fails bad-answer")
        | some id =>
          if !naiveInline s then (sp, "fails non-inline-string-accepted")
          else if id > 0 then (sp, "fails inline-id-positive")
          else match inlineShape s id, consistent sp s id with
            | some e, _ => (sp, "fails " ++ e)
            | _, some e => (sp, "fails " ++ e)
            | none, none => (record sp s id, "holds")
  | ["rt", h] =>
    match bytesOfHex h with
    | none => (sp, "skip")
    | some s =>
      if naiveInline s then (sp, if ans == h then "holds" else "fails roundtrip " ++ h ++ " -> " ++ ans)
      else (sp, if ans == "fail" then "holds" else "fails non-inline-string-accepted")
  | ["intern", h] =>
    match bytesOfHex h with
    | none => (sp, "skip")
    | some s =>
      if ans == "panic" || ans.startsWith "panic " then
        (sp, if sp.full then "skip" else "fails unexpected-panic")
      else match ans.toInt? with
        | none => (sp, "fails bad-answer")
        | some id =>
          match inlineShape s id, consistent sp s id with
          | some e, _ => (sp, "fails " ++ e)
          | _, some e => (sp, "fails " ++ e)
          | none, none => ({ record sp s id with interned := s :: sp.interned }, "holds")
  | ["query", h] =>
    match bytesOfHex h with
    | none => (sp, "skip")
    | some s =>
      let expect := naiveInline s || sp.interned.contains s
      match words ans with
      | [i, "true"] =>
        if !expect then (sp, "fails query-reports-never-interned-string")
        else match i.toInt? with
          | none => (sp, "fails bad-answer")
          | some id =>
            match inlineShape s id, consistent sp s id with
            | some e, _ => (sp, "fails " ++ e)
            | _, some e => (sp, "fails " ++ e)
            | none, none => (record sp s id, "holds")
      | [i, "false"] =>
        if expect then (sp, "fails query-misses-interned-string")
        else (sp, if i == "0" then "holds" else "fails absent-id-not-0")
      | _ => (sp, "fails bad-answer")
  | ["value", i] =>
    match i.toInt? with
    | none => (sp, "skip")
    | some id =>
      match sp.pairs.find? (fun p => p.2 == id) with
      | none => (sp, "skip")
      | some p => (sp, if ans == hexOfBytes p.1 then "holds"
                       else "fails value-of-id " ++ i ++ " = " ++ ans ++ " not " ++ hexOfBytes p.1)
  | ["full"] => ({ sp with full := true }, "skip")
  | ["conc", _, ps] =>
    match parseProgs ps with
    | none => (sp, "skip")
    | some progs => (sp, specConc sp progs ans)
  | _ => (sp, "skip")

end InternE

def intern : Engine :=
  { σ := Sys, init := PCV.Intern.init, step := InternE.step,
    τ := InternE.Spec, specInit := InternE.Spec.init, spec := InternE.spec }

end PCV.Engines
