-- ENGINE: sourceloc => PCV.Engines.sourceloc
-- NOTE: /repo contains fix commit 522e489a; the implementation model is PCV.SourceLoc.Patched.* (the
-- pre-fix model in PCV.Model.SourceLoc is kept for the refutation theorems of Props.C32).
import PCV.Engine
import PCV.Util.Wire
import PCV.Model.SourceLoc
import PCV.Lemmas.SourceLocPatched
namespace PCV.Engines
open PCV.Wire PCV.SourceLoc

def parseUnit (s : String) : Option LUnit :=
  if s == "bytes" then some .bytes
  else if s == "utf16" then some .utf16
  else if s == "runes" then some .runes
  else none

/-- Ops (text is hex, "-" for empty):
    `lines T` · `lbo T off` · `lo T line` · `loc U T off` · `rloc U T off` ·
    `inv U T line col` · `rinv U T line col` · `rt U T off`.
    Offsets must be `≤ len T` and lines in `1..len(lines)` (outside, the Go code panics). -/
def sourcelocModel (line : String) : String :=
  match words line with
  | ["lines", h] => match bytesOfHex h with
    | some t => showNats (lines t)
    | none => "bad-op"
  | ["lbo", h, o] => match bytesOfHex h, o.toNat? with
    | some t, some off => if off ≤ t.length then toString (lineByOffset t off) else "bad-op"
    | _, _ => "bad-op"
  | ["lo", h, l] => match bytesOfHex h, l.toNat? with
    | some t, some ln =>
      if 1 ≤ ln ∧ ln ≤ (lines t).length then
        let se := lineOffsets t ln
        s!"{se.1} {se.2}"
      else "bad-op"
    | _, _ => "bad-op"
  | [k, us, h, o] => match parseUnit us, bytesOfHex h, o.toNat? with
    | some u, some t, some off =>
      if off ≤ t.length then
        if k == "loc" then let lc := location t off u; s!"{lc.1} {lc.2}"
        else if k == "rloc" then let lc := locationRaw t off u; s!"{lc.1} {lc.2}"
        else if k == "rt" then
          let lc := location t off u
          s!"{lc.1} {lc.2} {Patched.inverseLocation t lc.1 lc.2 u}"
        else "bad-op"
      else "bad-op"
    | _, _, _ => "bad-op"
  | [k, us, h, l, c] => match parseUnit us, bytesOfHex h, l.toNat?, c.toInt? with
    | some u, some t, some ln, some col =>
      if 1 ≤ ln ∧ ln ≤ (lines t).length then
        if k == "inv" then toString (Patched.inverseLocation t ln col u)
        else if k == "rinv" then toString (Patched.inverseLocationRaw t ln col u)
        else "bad-op"
      else "bad-op"
    | _, _, _, _ => "bad-op"
  | _ => "bad-op"

/-- Naive reference: one plus the number of newline bytes before the offset. -/
def refLine (t : List UInt8) (off : Nat) : Nat := 1 + (t.take off).count NL

/-- Property oracle on the implementation's answer (C32):
    * `loc`/`rloc`/`lbo`: the line is one plus the number of newlines before the offset;
    * `rt`: same, and if the offset is a character boundary the inverse returns the offset;
    * `lines`: the index is 0 followed by the offsets just after each newline. -/
def sourcelocSpec (line ans : String) : String :=
  match words line with
  | ["lines", h] => match bytesOfHex h, natList (words ans) with
    | some t, some ls => if ls == 0 :: nlAfter t 0 then "holds" else "fails line-index"
    | _, _ => "fails bad-answer"
  | ["lbo", h, o] => match bytesOfHex h, o.toNat?, ans.toNat? with
    | some t, some off, some l =>
      if l + 1 == refLine t off then "holds" else s!"fails line {l + 1} want {refLine t off}"
    | _, _, _ => "fails bad-answer"
  | [k, _, h, o] => match bytesOfHex h, o.toNat? with
    | some t, some off =>
      if k == "loc" || k == "rloc" then
        match words ans with
        | [l, _] =>
          if l.toNat? == some (refLine t off) then "holds" else s!"fails line {l} want {refLine t off}"
        | _ => "fails bad-answer"
      else if k == "rt" then
        match words ans with
        | [l, _, back] =>
          if l.toNat? != some (refLine t off) then s!"fails line {l} want {refLine t off}"
          else if (boundaries t).contains off then
            if back.toInt? == some (off : Int) then "holds"
            else if off == t.length then s!"fails roundtrip-at-eof {off} -> {back}"
            else s!"fails roundtrip {off} -> {back}"
          else "holds"
        | _ => "fails bad-answer"
      else "skip"
    | _, _ => "skip"
  | _ => "skip"

def sourceloc : Engine := Engine.pure sourcelocModel sourcelocSpec

end PCV.Engines
