-- ENGINE: incr => PCV.Engines.incr
-- ENGINE: incr_fail => PCV.Engines.incr_fail
-- ENGINE: incr_queries => PCV.Engines.incr_queries
-- ENGINE: incr_diag => PCV.Engines.incr_diag
import PCV.Engine
import PCV.Util.Wire
import PCV.Model.Incr
import PCV.Model.IncrFail
import PCV.Model.IncrQueries
namespace PCV.Engines.IncrE
open PCV.Wire PCV.Incr

/-! ### Synthetic queries (shared op syntax of the engines `incr`, `incr_fail`) -/

inductive Guard | always | odd | even
deriving DecidableEq, Repr

structure Step where
  guard : Guard
  keys : List Key
deriving Repr

structure Node where
  env : Bool := false
  fat : Bool := false
  panicEnd : Bool := false
  panicStart : Bool := false
  steps : List Step := []
deriving Repr

abbrev Defs := List (Key × Node)
abbrev Env := List (Key × Int)

def envOf (e : Env) (k : Key) : Int := (e.lookup k).getD 0
def setEnv (e : Env) (k : Key) (v : Int) : Env := (k, v) :: e.filter (fun p => p.1 != k)

def guardHolds (g : Guard) (v : Int) : Bool :=
  match g with
  | .always => true
  | .odd => v % 2 == 1
  | .even => v % 2 == 0

/-- first result (in order) that carries a fatal error -/
def firstFatal : List Res → Option Res
  | [] => none
  | .ok _ :: rs => firstFatal rs
  | r :: _ => some r

def wsum : Nat → List Res → Int
  | _, [] => 0
  | j, .ok v :: rs => (j + 1 : Nat) * v + wsum (j + 1) rs
  | j, _ :: rs => wsum (j + 1) rs

def stepsScript (fin : Int → Res) : List Step → Int → Script
  | [], v => .ret (fin v)
  | st :: rest, v =>
    if guardHolds st.guard v then
      .resolve st.keys (fun rs =>
        match firstFatal rs with
        | some f => .ret f
        | none => stepsScript fin rest ((31 * v + wsum 0 rs) % 1000003))
    else stepsScript fin rest v

def parseInts (s : String) : Option (List Nat) :=
  if s == "-" || s == "" then some [] else (s.splitOn ",").mapM String.toNat?

def joinNats (xs : List Nat) : String :=
  if xs.isEmpty then "-" else ",".intercalate (xs.map toString)

def parseStep (s : String) : Option Step :=
  match s.toList with
  | g :: rest =>
    let guard? : Option Guard := if g == 'a' then some .always else if g == 'o' then some .odd
      else if g == 'v' then some .even else none
    match guard?, parseInts (String.ofList rest) with
    | some gd, some ks => if ks.isEmpty then none else some { guard := gd, keys := ks }
    | _, _ => none
  | [] => none

def parseFlags (s : String) : Option Node :=
  if s == "-" then some {} else
  s.toList.foldlM (fun (n : Node) c =>
    if c == 'e' then some { n with env := true }
    else if c == 'f' then some { n with fat := true }
    else if c == 'p' then some { n with panicEnd := true }
    else if c == 'q' then some { n with panicStart := true }
    else none) {}

def parseDef (ws : List String) : Option (Key × Node) :=
  match ws with
  | k :: flags :: steps => do
    let k ← k.toNat?
    let n ← parseFlags flags
    let sts ← steps.mapM parseStep
    pure (k, { n with steps := sts })
  | _ => none

def insertSorted (k : Nat) : List Nat → List Nat
  | [] => [k]
  | x :: xs => if k < x then k :: x :: xs else if k == x then x :: xs else x :: insertSorted k xs

def sortDedup (xs : List Nat) : List Nat := xs.foldl (fun acc k => insertSorted k acc) []

def showRes : Res → String
  | .ok v => s!"v{v}"
  | .fatal c => s!"f{c}"
  | .cyc path => "cyc[" ++ ">".intercalate (path.map toString) ++ "]"
  | .pan k => s!"pan{k}"

/-! ### Model side of engine `incr` (C33): non-failing queries over DAGs -/

def nodeScript (n : Node) (k : Key) (env : Env) : Script :=
  let v0 : Int := (k + 1 : Nat) + (if n.env then envOf env k else 0)
  stepsScript (fun v => if n.fat && v % 3 == 0 then .fatal k else .ok v) n.steps v0

def bodyOf (defs : Defs) (env : Env) : Key → Script := fun k =>
  match defs.lookup k with
  | some n => nodeScript n k env
  | none => .ret (.fatal 999999)

structure MState where
  defs : Defs := []
  env : Env := []
  st : St := {}

def univ (defs : Defs) : List Key := sortDedup (defs.map (·.1))

def fuelFor (defs : Defs) : Nat := defs.length + 3

def countIn (k : Key) (l : List Key) : Nat := (l.filter (· == k)).length

def showCounts (l : List Key) : String :=
  let ks := sortDedup l
  if ks.isEmpty then "-" else ",".intercalate (ks.map (fun k => s!"{k}:{countIn k l}"))

/-- per key: number of distinct runs (generations) that saw `Changed = true`; keys for which one
    run saw both values -/
def showChanged (obs : List (Nat × Key × Bool)) : String × String :=
  let ks := sortDedup (obs.map (·.2.1))
  let gens := sortDedup (obs.map (·.1))
  let trueRuns (k : Key) : Nat := (gens.filter (fun g => obs.any (fun o => o.1 == g && o.2.1 == k && o.2.2))).length
  let mixed := ks.filter (fun k => gens.any (fun g =>
    obs.any (fun o => o.1 == g && o.2.1 == k && o.2.2) && obs.any (fun o => o.1 == g && o.2.1 == k && !o.2.2)))
  (if ks.isEmpty then "-" else ",".intercalate (ks.map (fun k => s!"{k}:{trueRuns k}")), joinNats mixed)

def showKeys (st : St) (defs : Defs) : String := "keys=" ++ joinNats (doneKeys st (univ defs))

def showTask (st : St) (k : Key) : Option String :=
  match st.tasks.get k with
  | none => none
  | some t =>
    let s := match t.result with
      | .none => "n"
      | .pending => "p"
      | .done _ => "d"
    some s!"{k}[{s}]d={joinNats (sortDedup t.deps)};c={joinNats (sortDedup t.callers)}"

def showDump (st : St) (defs : Defs) : String :=
  let parts := (univ defs).filterMap (showTask st)
  if parts.isEmpty then "tasks -" else "tasks " ++ " ".intercalate parts

/-- run the groups one after the other (each `Run` draws its own generation) -/
def runGroups (body : Key → Script) (fuel : Nat) :
    St → List (List Key) → Option (St × List (List (Res × Bool)))
  | st, [] => some (st, [])
  | st, g :: gs =>
    match run body fuel st g with
    | none => none
    | some (st1, rs) =>
      match runGroups body fuel st1 gs with
      | none => none
      | some (st2, rss) => some (st2, rs :: rss)

def showRun (m : MState) (groups : List (List Key)) (withFlags : Bool) : MState × String :=
  let body := bodyOf m.defs m.env
  match runGroups body (fuelFor m.defs) m.st groups with
  | none => (m, "model-stuck")
  | some (st1, rss) =>
    let rpart := "|".intercalate (rss.map (fun rs =>
      if rs.isEmpty then "-" else ",".intercalate (rs.map (fun (r, ch) =>
        showRes r ++ (if withFlags then (if ch then ":1" else ":0") else "")))))
    let newLog := st1.log.drop m.st.log.length
    let newObs := st1.obs.drop m.st.obs.length
    let (c, mx) := showChanged newObs
    ({ m with st := st1 }, s!"r={rpart} x={showCounts newLog} c={c} m={mx} {showKeys st1 m.defs}")

/-- `false`: `EvictWithCleanup` looks its keys up BEFORE taking the exclusive lock, as the code
    does. `true`: model of the candidate fix (lookup under the lock; see the builder's report). -/
def incrEvictLookupUnderLock : Bool := true

def parseGroups (s : String) : Option (List (List Key)) := (s.splitOn "|").mapM parseInts

/-- `k=v,k=v` or `-` -/
def parseChanges (s : String) : Option (List (Nat × Nat)) :=
  if s == "-" then some [] else
  (s.splitOn ",").mapM (fun kv => match kv.splitOn "=" with
    | [k, v] => match k.toNat?, v.toNat? with
      | some k, some v => some (k, v)
      | _, _ => none
    | _ => none)

def incrStep (m : MState) (line : String) : MState × String :=
  match words line with
  | ["new", p] => match p.toNat? with
    | some _ => ({ m with st := {} }, "ok")
    | none => (m, "bad-op")
  | "def" :: rest => match parseDef rest with
    | some (k, n) =>
      if n.panicEnd || n.panicStart then (m, "bad-op")   -- engine incr: non-failing queries only
      else ({ m with defs := (k, n) :: m.defs.filter (fun p => p.1 != k) }, "ok")
    | none => (m, "bad-op")
  | ["set", k, v] => match k.toNat?, v.toNat? with
    | some k, some v => ({ m with env := setEnv m.env k (Int.ofNat v) }, "ok")
    | _, _ => (m, "bad-op")
  | "evict" :: ks => match ks.mapM String.toNat? with
    | some ks =>
      match evict (4 ^ (m.defs.length + 1) + ks.length + 2) m.st ks with
      | some st' => ({ m with st := st' }, showKeys st' m.defs)
      | none => (m, "model-stuck")
    | none => (m, "bad-op")
  | "run" :: ks => match ks.mapM String.toNat? with
    | some ks => if ks.all (fun k => (m.defs.lookup k).isSome) then showRun m [ks] true else (m, "bad-op")
    | none => (m, "bad-op")
  | ["runc", gs] => match parseGroups gs with
    | some groups =>
      if groups.length < 2 || !(groups.all (·.all (fun k => (m.defs.lookup k).isSome))) then (m, "bad-op")
      else showRun m groups false
    | none => (m, "bad-op")
  | ["runev", g, ks, ch] => match g.toNat?, parseInts ks, parseChanges ch with
    | some g, some ks, some chs =>
      if !(m.defs.lookup g).isSome then (m, "bad-op") else
      -- `EvictWithCleanup` looks its keys up when it is ENTERED (before taking the lock): at that
      -- moment the in-flight Run has created the task of its root g and nothing else
      let present := if incrEvictLookupUnderLock then ks
        else ks.filter (fun k => k == g || (m.st.tasks.get k).isSome)
      -- the Run holds the read lock: it completes first, on the old inputs
      let (m1, ansRun) := showRun m [[g]] true
      if ansRun == "model-stuck" then (m, "model-stuck") else
      -- then the eviction works on the tasks it had found, and the cleanup changes the inputs
      let env' := chs.foldl (fun e (kv : Nat × Nat) => setEnv e kv.1 (Int.ofNat kv.2)) m1.env
      match evict (4 ^ (m.defs.length + 1) + ks.length + 2) m1.st present with
      | some st' =>
        let m2 := { m1 with st := st', env := env' }
        (m2, ((ansRun.splitOn " keys=").headD "") ++ " " ++ showKeys st' m.defs)
      | none => (m, "model-stuck")
    | _, _, _ => (m, "bad-op")
  | ["runel", g, ks, ch, gs] => match g.toNat?, parseInts ks, parseChanges ch, parseGroups gs with
    | some g, some ks, some chs, some groups =>
      if !(m.defs.lookup g).isSome || groups.any (·.isEmpty) || !(groups.all (·.all (fun k => (m.defs.lookup k).isSome))) then (m, "bad-op") else
      -- three parties: Run(g) in flight, an eviction pending on the exclusive lock, late Runs that
      -- arrive behind the pending eviction. Run(g) holds the read lock: it completes on the old inputs;
      let (m1, ansRun) := showRun m [[g]] true
      if ansRun == "model-stuck" then (m, "model-stuck") else
      -- then the eviction (keys looked up under the lock) and its input changes;
      let env' := chs.foldl (fun e (kv : Nat × Nat) => setEnv e kv.1 (Int.ofNat kv.2)) m1.env
      match evict (4 ^ (m.defs.length + 1) + ks.length + 2) m1.st ks with
      | some st' =>
        -- then the late Runs, as concurrent Runs on the state the eviction left
        let (m3, ansLate) := showRun { m1 with st := st', env := env' } groups false
        if ansLate == "model-stuck" then (m, "model-stuck") else
        (m3, ((ansRun.splitOn " keys=").headD "") ++ " ;; " ++ ansLate)
      | none => (m, "model-stuck")
    | _, _, _, _ => (m, "bad-op")
  | ["dump"] => (m, showDump m.st m.defs)
  | _ => (m, "bad-op")

/-! ### Property oracle (C33), evaluated on the implementation's answers.

A from-scratch reference that knows nothing about tasks or edges: `naive` evaluates a query by
plain recursion over the definitions and the current environment and returns its value and the
keys it read directly.  The oracle keeps the set of keys that are memoized, each with its direct
reads at the time it was computed.  It demands:
 * every root value of a run equals the naive value (from-scratch consistency);
 * the queries executed in a run are exactly the queries reachable from the roots that are not
   memoized, each exactly once (at most once between evictions; eviction forces recomputation
   of exactly the key and its transitive dependents);
 * the memoized keys after an eviction are the previous ones minus the evicted keys' transitive
   dependents;
 * `Changed` is true exactly for the queries executed in this run, in every observation. -/

/-- naive evaluation: value and direct reads, by recursion on fuel -/
def naiveSteps (ev : Key → Option Res) (fin : Int → Res) : List Step → Int → List Key → Option (Res × List Key)
  | [], v, reads => some (fin v, reads)
  | st :: rest, v, reads =>
    if guardHolds st.guard v then
      match st.keys.mapM ev with
      | none => none
      | some rs =>
        match firstFatal rs with
        | some f => some (f, reads ++ st.keys)
        | none => naiveSteps ev fin rest ((31 * v + wsum 0 rs) % 1000003) (reads ++ st.keys)
    else naiveSteps ev fin rest v reads

def naive (defs : Defs) (env : Env) : Nat → Key → Option (Res × List Key)
  | 0, _ => none
  | fuel + 1, k =>
    match defs.lookup k with
    | none => none
    | some n =>
      let v0 : Int := (k + 1 : Nat) + (if n.env then envOf env k else 0)
      naiveSteps (fun d => (naive defs env fuel d).map (·.1))
        (fun v => if n.fat && v % 3 == 0 then .fatal k else .ok v) n.steps v0 []

/-- all keys reachable from `ks` through naive direct reads (including `ks`) -/
def reach (defs : Defs) (env : Env) : Nat → List Key → List Key → List Key
  | 0, _, acc => acc
  | _ + 1, [], acc => acc
  | fuel + 1, k :: ks, acc =>
    if acc.contains k then reach defs env fuel ks acc
    else
      let reads := ((naive defs env (defs.length + 2) k).map (·.2)).getD []
      reach defs env fuel (reads ++ ks) (k :: acc)

structure SState where
  defs : Defs := []
  env : Env := []
  /-- memoized key ↦ its direct reads when computed -/
  cached : List (Key × List Key) := []
  dirty : List Key := []
  lost : Bool := false
  /-- some earlier `runev` evicted a key that had no task when the eviction was entered and that
      the in-flight Run then memoized (only used to word a later staleness verdict) -/
  unmemoizedEvict : Bool := false

def isCached (s : SState) (k : Key) : Bool := (s.cached.lookup k).isSome

/-- transitive dependents (within the memoized set) of the memoized keys among `ks` -/
def dependentsLoop : Nat → List (Key × List Key) → List Key → List Key
  | 0, _, dead => dead
  | fuel + 1, cached, dead =>
    let more := (cached.filter (fun (k, reads) => !dead.contains k && reads.any dead.contains)).map (·.1)
    if more.isEmpty then dead else dependentsLoop fuel cached (dead ++ more)

def field (ans : String) (name : String) : Option String :=
  ((words ans).find? (fun w => w.startsWith (name ++ "="))).map (fun w => (w.drop (name.length + 1)).toString)

/-- what a run of `groups` must look like from oracle state `s` (inputs `s.env`, memoized
    `s.cached`): the state afterwards and the fields r, x, c, keys -/
def specExpect (s : SState) (groups : List (List Key)) (withFlags : Bool) :
    Option (SState × String × String × String × String) :=
  let fuel := s.defs.length + 2
  let allRoots := groups.flatten
  match allRoots.mapM (fun k => naive s.defs s.env fuel k) with
  | none => none
  | some _ =>
    let reachable := reach s.defs s.env (4 ^ (s.defs.length + 1) + allRoots.length + 2) allRoots []
    let executed := sortDedup (reachable.filter (fun k => !isCached s k))
    let valOf (k : Key) : String := ((naive s.defs s.env fuel k).map (fun p => showRes p.1)).getD "?"
    let flagOf (k : Key) : String := if executed.contains k then ":1" else ":0"
    let wantR := "|".intercalate (groups.map (fun g =>
      if g.isEmpty then "-" else ",".intercalate (g.map (fun k => valOf k ++ (if withFlags then flagOf k else "")))))
    let wantX := if executed.isEmpty then "-" else ",".intercalate (executed.map (fun k => s!"{k}:1"))
    let readsOf (k : Key) : List Key := ((naive s.defs s.env fuel k).map (·.2)).getD []
    let observed := sortDedup (allRoots ++ executed.flatMap readsOf)
    let wantC := if observed.isEmpty then "-" else
      ",".intercalate (observed.map (fun k => s!"{k}:{if executed.contains k then 1 else 0}"))
    let cached' := s.cached ++ executed.map (fun k => (k, readsOf k))
    some ({ s with cached := cached' }, wantR, wantX, wantC, joinNats (sortDedup (cached'.map (·.1))))

/-- atomic eviction of `ks` (those memoized, with their transitive dependents) together with
    the input changes `chs` -/
def specEvictChange (s : SState) (ks : List Key) (chs : List (Nat × Nat)) : SState :=
  let dead := dependentsLoop (s.cached.length + 1) s.cached (ks.filter (isCached s))
  let cached' := s.cached.filter (fun p => !dead.contains p.1)
  let env' := chs.foldl (fun e (kv : Nat × Nat) => setEnv e kv.1 (Int.ofNat kv.2)) s.env
  -- an input changed without its memoized reader being evicted leaves the state stale
  let stale := chs.filter (fun kv => envOf s.env kv.1 != Int.ofNat kv.2 &&
    ((s.defs.lookup kv.1).map (·.env)).getD false && cached'.any (fun p => p.1 == kv.1))
  { s with cached := cached', env := env', dirty := stale.map (·.1) ++ s.dirty.filter (fun k => !dead.contains k) }

/-- `runev`: a Run and an atomic EvictWithCleanup issued concurrently. The eviction takes the
    executor's exclusive lock, so the pair must be equivalent to one of the two sequential
    orders: Run then Evict(+input change), or Evict(+input change) then Run. -/
def specRunEv (s : SState) (g : Key) (ks : List Key) (chs : List (Nat × Nat)) (ans : String) : SState × String :=
  if s.lost then (s, "skip") else
  if !s.dirty.isEmpty then ({ s with lost := true }, "skip") else
  match field ans "r", field ans "x", field ans "c", field ans "m", field ans "keys" with
  | some r, some x, some c, some mx, some keys =>
    let keysOf (t : SState) : String := joinNats (sortDedup (t.cached.map (·.1)))
    -- order A: Run; Evict
    let a := (specExpect s [[g]] true).map (fun (s1, wr, wx, wc, _) =>
      let s2 := specEvictChange s1 ks chs
      (s2, wr, wx, wc, keysOf s2))
    -- order B: Evict; Run
    let b := specExpect (specEvictChange s ks chs) [[g]] true
    let agrees (e : Option (SState × String × String × String × String)) : Option SState :=
      match e with
      | some (s', wr, wx, wc, wk) => if r == wr && x == wx && c == wc && mx == "-" && keys == wk then some s' else none
      | none => none
    match a, b with
    | none, none => (s, "skip")
    | _, _ =>
      let risky (s' : SState) : SState :=
        if ks.any (fun k => !isCached s k && k != g && isCached s' k) then { s' with unmemoizedEvict := true } else s'
      match agrees a with
      | some s' => (s', "holds")
      | none =>
        match agrees b with
        | some s' => (risky s', "holds")
        | none =>
          -- diagnose: did the eviction only miss keys that had no task when it was entered and were
          -- memoized by the in-flight Run?
          let a0 := (specExpect s [[g]] true).map (fun (s1, wr, wx, wc, _) =>
            let s2 := specEvictChange s1 (ks.filter (fun k => isCached s k || k == g)) chs
            (s2, wr, wx, wc, keysOf s2))
          let wantA := (a.map (fun e => s!"r={e.2.1} x={e.2.2.1} keys={e.2.2.2.2}")).getD "-"
          let wantB := (b.map (fun e => s!"r={e.2.1} x={e.2.2.1} keys={e.2.2.2.2}")).getD "-"
          match agrees a0 with
          | some _ => ({ s with lost := true },
              s!"fails concurrent-evict-missed-key-memoized-by-inflight-run got[r={r} x={x} keys={keys}] run-then-evict[{wantA}] evict-then-run[{wantB}]")
          | none => ({ s with lost := true },
              s!"fails concurrent-evict-not-atomic got[r={r} x={x} c={c} keys={keys}] run-then-evict[{wantA}] evict-then-run[{wantB}]")
  | _, _, _, _, _ => ({ s with lost := true }, s!"fails run-did-not-return-results [{ans}]")

def specRun (s : SState) (groups : List (List Key)) (withFlags : Bool) (ans : String) : SState × String :=
  if s.lost then (s, "skip") else
  if !s.dirty.isEmpty then ({ s with lost := true }, "skip") else
  let fuel := s.defs.length + 2
  let allRoots := groups.flatten
  match allRoots.mapM (fun k => naive s.defs s.env fuel k) with
  | none => (s, "skip")
  | some _ =>
    let reachable := reach s.defs s.env (4 ^ (s.defs.length + 1) + allRoots.length + 2) allRoots []
    let executed := sortDedup (reachable.filter (fun k => !isCached s k))
    let valOf (k : Key) : String := ((naive s.defs s.env fuel k).map (fun p => showRes p.1)).getD "?"
    let flagOf (k : Key) : String := if executed.contains k then ":1" else ":0"
    let wantR := "|".intercalate (groups.map (fun g =>
      if g.isEmpty then "-" else ",".intercalate (g.map (fun k => valOf k ++ (if withFlags then flagOf k else "")))))
    let wantX := if executed.isEmpty then "-" else ",".intercalate (executed.map (fun k => s!"{k}:1"))
    let readsOf (k : Key) : List Key := ((naive s.defs s.env fuel k).map (·.2)).getD []
    let observed := sortDedup (allRoots ++ executed.flatMap readsOf)
    let wantC := if observed.isEmpty then "-" else
      ",".intercalate (observed.map (fun k => s!"{k}:{if executed.contains k then 1 else 0}"))
    let cached' := s.cached ++ executed.map (fun k => (k, readsOf k))
    let wantKeys := joinNats (sortDedup (cached'.map (·.1)))
    let s' := { s with cached := cached' }
    match field ans "r", field ans "x", field ans "c", field ans "m", field ans "keys" with
    | some r, some x, some c, some mx, some keys =>
      let stripFlags (t : String) : String :=
        "|".intercalate ((t.splitOn "|").map (fun g => ",".intercalate ((g.splitOn ",").map (fun x => (x.splitOn ":").headD ""))))
      if stripFlags r != stripFlags wantR then
        ({ s' with lost := true },
          if s.unmemoizedEvict then s!"fails concurrent-evict-missed-key-memoized-by-inflight-run: stale value in a later run got[{r}] want[{wantR}]"
          else s!"fails value-differs-from-fresh got[{r}] want[{wantR}]")
      else if r != wantR then ({ s' with lost := true }, s!"fails changed-flag-of-root got[{r}] want[{wantR}]")
      else if x != wantX then ({ s' with lost := true }, s!"fails executed-set got[{x}] want[{wantX}]")
      else if c != wantC then ({ s' with lost := true }, s!"fails changed-flag got[{c}] want[{wantC}]")
      else if mx != "-" then ({ s' with lost := true }, s!"fails changed-flag-inconsistent-within-run keys[{mx}]")
      else if keys != wantKeys then ({ s' with lost := true }, s!"fails memoized-keys got[{keys}] want[{wantKeys}]")
      else (s', "holds")
    | _, _, _, _, _ => ({ s' with lost := true }, s!"fails run-did-not-return-results [{ans}]")

/-- `runel`: Run(g) in flight, an EvictWithCleanup pending behind it, late Runs arriving behind the
    pending eviction. Everything must return, and the history must be equivalent to
    Run(g); Evict(+input change); the late Runs (from-scratch values, exact executed sets). -/
def specRunEl (s : SState) (g : Key) (ks : List Key) (chs : List (Nat × Nat)) (groups : List (List Key))
    (ans : String) : SState × String :=
  if ans.startsWith "hang" then
    ({ s with lost := true }, s!"fails run-did-not-return behind-pending-evict [{ans}]")
  else if s.lost then (s, "skip") else
  if !s.dirty.isEmpty then ({ s with lost := true }, "skip") else
  match ans.splitOn " ;; " with
  | [a, b] =>
    (match specExpect s [[g]] true, field a "r", field a "x", field a "c", field a "m" with
    | some (s1, wr, wx, wc, _), some r, some x, some c, some mx =>
      if r != wr then ({ s with lost := true }, s!"fails value-differs-from-fresh in-flight-run got[{r}] want[{wr}]")
      else if x != wx then ({ s with lost := true }, s!"fails executed-set in-flight-run got[{x}] want[{wx}]")
      else if c != wc then ({ s with lost := true }, s!"fails changed-flag in-flight-run got[{c}] want[{wc}]")
      else if mx != "-" then ({ s with lost := true }, s!"fails changed-flag-inconsistent-within-run keys[{mx}]")
      else
        let s2 := specEvictChange s1 ks chs
        if !s2.dirty.isEmpty then ({ s2 with lost := true }, "skip")
        else
          let (s3, v) := specRun s2 groups false b
          (s3, if v.startsWith "fails" then v ++ " (late run behind a pending eviction)" else v)
    | none, _, _, _, _ => (s, "skip")
    | _, _, _, _, _ => ({ s with lost := true }, s!"fails run-did-not-return-results [{ans}]"))
  | _ => ({ s with lost := true }, s!"fails run-did-not-return-results [{ans}]")

def incrSpec (s : SState) (line ans : String) : SState × String :=
  match words line with
  | ["new", _] => ({ s with cached := [], dirty := [], lost := false, unmemoizedEvict := false }, "skip")
  | "def" :: rest => match parseDef rest with
    | some (k, n) => ({ s with defs := (k, n) :: s.defs.filter (fun p => p.1 != k) }, "skip")
    | none => (s, "skip")
  | ["set", k, v] => match k.toNat?, v.toNat? with
    | some k, some v =>
      let changed := envOf s.env k != Int.ofNat v && ((s.defs.lookup k).map (·.env)).getD false
      ({ s with env := setEnv s.env k (Int.ofNat v),
                dirty := if changed && isCached s k && !s.dirty.contains k then k :: s.dirty else s.dirty }, "skip")
    | _, _ => (s, "skip")
  | "evict" :: ks => match ks.mapM String.toNat? with
    | some ks =>
      if s.lost then (s, "skip") else
      let dead := dependentsLoop (s.cached.length + 1) s.cached (ks.filter (isCached s))
      let cached' := s.cached.filter (fun p => !dead.contains p.1)
      let s' := { s with cached := cached', dirty := s.dirty.filter (fun k => !dead.contains k) }
      let want := "keys=" ++ joinNats (sortDedup (cached'.map (·.1)))
      if ans == want then (s', "holds")
      else ({ s' with lost := true }, s!"fails evict-closure got[{ans}] want[{want}]")
    | none => (s, "skip")
  | "run" :: ks => match ks.mapM String.toNat? with
    | some ks => specRun s [ks] true ans
    | none => (s, "skip")
  | ["runc", gs] => match parseGroups gs with
    | some groups => specRun s groups false ans
    | none => (s, "skip")
  | ["runev", g, ks, ch] => match g.toNat?, parseInts ks, parseChanges ch with
    | some g, some ks, some chs => specRunEv s g ks chs ans
    | _, _, _ => (s, "skip")
  | ["runel", g, ks, ch, gs] => match g.toNat?, parseInts ks, parseChanges ch, parseGroups gs with
    | some g, some ks, some chs, some groups => specRunEl s g ks chs groups ans
    | _, _, _, _ => (s, "skip")
  | _ => (s, "skip")


/-! ## Engine `incr_fail` (C34): cyclic graphs, panicking queries

Two answer formats, chosen by the same rule in the Go engine:
* *sequential class* — every `Resolve` of every defined query has one key and the op is `run`
  with one root (or `runw`): the run is deterministic; the answer has the full detail and the
  model is the mechanistic `PCV.IncrFail` (cycle paths, poisoned memo entries, dumps);
* otherwise (*parallel class*) the schedule decides which cycle is reported and who reports it;
  the answer keeps only schedule-independent facts (value or `F` per root, executions, memoized
  keys; for a panicking run only that it failed) and the model side is the reference evaluator
  `evalC` below. -/

open PCV.IncrFail

/-- `false`: the model mirrors the executor as it is. `true`: the model of the executor with the
    candidate fix of the C34 findings applied (see the builder's report). -/
def incrPatched : Bool := false

def panicsNow (env : Env) (k : Key) : Bool := envOf env k % 2 == 0

def nodeScriptF (n : Node) (k : Key) (env : Env) : Script :=
  let v0 : Int := (k + 1 : Nat) + (if n.env then envOf env k else 0)
  if n.panicStart && panicsNow env k then .panic
  else
    let rec go : List Step → Int → Script
      | [], v => if n.panicEnd && panicsNow env k then .panic
                 else .ret (if n.fat && v % 3 == 0 then .fatal k else .ok v)
      | st :: rest, v =>
        if guardHolds st.guard v then
          .resolve st.keys (fun rs =>
            match firstFatal rs with
            | some f => .ret f
            | none => go rest ((31 * v + wsum 0 rs) % 1000003))
        else go rest v
    go n.steps v0

def bodyOfF (defs : Defs) (env : Env) : Key → Script := fun k =>
  match defs.lookup k with
  | some n => nodeScriptF n k env
  | none => .ret (.fatal 999999)

def seqDefs (defs : Defs) : Bool := defs.all (fun p => p.2.steps.all (fun st => st.keys.length == 1))

/-- reference evaluation with cycle cut: class of a query = `some v` (value) or `none` (fails) -/
inductive CRes where
  | panic (k : Key)
  | fuel
  | ok (cls : Option Int)

structure CSt where
  /-- evaluated so far: key, class, direct reads -/
  done : List (Key × Option Int × List Key) := []

mutual
def evalC (defs : Defs) (env : Env) : Nat → CSt → List Key → Key → CSt × CRes
  | 0, st, _, _ => (st, .fuel)
  | fuel + 1, st, visiting, k =>
    match st.done.find? (fun e => e.1 == k) with
    | some e => (st, .ok e.2.1)
    | none =>
      if visiting.contains k then (st, .ok none)
      else match defs.lookup k with
        | none => (st, .ok none)
        | some n =>
          if n.panicStart && panicsNow env k then (st, .panic k)
          else
            let v0 : Int := (k + 1 : Nat) + (if n.env then envOf env k else 0)
            match evalSteps defs env fuel st (k :: visiting) n.steps v0 [] with
            | (st1, .panic p, _) => (st1, .panic p)
            | (st1, .fuel, _) => (st1, .fuel)
            | (st1, .ok cls, reads) =>
              match cls with
              | none => ({ st1 with done := st1.done ++ [(k, none, reads)] }, .ok none)
              | some v =>
                if n.panicEnd && panicsNow env k then (st1, .panic k)
                else
                  let c : Option Int := if n.fat && v % 3 == 0 then none else some v
                  ({ st1 with done := st1.done ++ [(k, c, reads)] }, .ok c)
def evalSteps (defs : Defs) (env : Env) : Nat → CSt → List Key → List Step → Int → List Key → CSt × CRes × List Key
  | 0, st, _, _, _, reads => (st, .fuel, reads)
  | _ + 1, st, _, [], v, reads => (st, .ok (some v), reads)
  | fuel + 1, st, visiting, sp :: rest, v, reads =>
    if guardHolds sp.guard v then
      match evalKeys defs env fuel st visiting sp.keys 0 with
      | (st1, .panic p, _, _) => (st1, .panic p, reads ++ sp.keys)
      | (st1, .fuel, _, _) => (st1, .fuel, reads)
      | (st1, .ok _, anyF, sum) =>
        if anyF then (st1, .ok none, reads ++ sp.keys)
        else evalSteps defs env fuel st1 visiting rest ((31 * v + sum) % 1000003) (reads ++ sp.keys)
    else evalSteps defs env fuel st visiting rest v reads
/-- all keys of one `Resolve` call: (state, status, some key failed, weighted sum) -/
def evalKeys (defs : Defs) (env : Env) : Nat → CSt → List Key → List Key → Nat → CSt × CRes × Bool × Int
  | 0, st, _, _, _ => (st, .fuel, false, 0)
  | _ + 1, st, _, [], _ => (st, .ok none, false, 0)
  | fuel + 1, st, visiting, k :: ks, j =>
    match evalC defs env fuel st visiting k with
    | (st1, .panic p) => (st1, .panic p, false, 0)
    | (st1, .fuel) => (st1, .fuel, false, 0)
    | (st1, .ok cls) =>
      match evalKeys defs env fuel st1 visiting ks (j + 1) with
      | (st2, .panic p, _, _) => (st2, .panic p, false, 0)
      | (st2, .fuel, _, _) => (st2, .fuel, false, 0)
      | (st2, .ok _, anyF, sum) =>
        match cls with
        | none => (st2, .ok none, true, sum)
        | some v => (st2, .ok none, anyF, (j + 1 : Nat) * v + sum)
end

def showCls : Option Int → String
  | some v => s!"v{v}"
  | none => "F"

/-- evaluate the roots one after the other on top of the memoized set -/
def evalRoots (defs : Defs) (env : Env) (fuel : Nat) : CSt → List Key → CSt × CRes × List (Option Int)
  | st, [] => (st, .ok none, [])
  | st, k :: ks =>
    match evalC defs env fuel st [] k with
    | (st1, .panic p) => (st1, .panic p, [])
    | (st1, .fuel) => (st1, .fuel, [])
    | (st1, .ok c) =>
      match evalRoots defs env fuel st1 ks with
      | (st2, .panic p, _) => (st2, .panic p, [])
      | (st2, .fuel, _) => (st2, .fuel, [])
      | (st2, .ok _, cs) => (st2, .ok none, c :: cs)

structure FMState where
  defs : Defs := []
  env : Env := []
  fst : FSt := {}
  abs : CSt := {}
  seqValid : Bool := true
  absValid : Bool := true
  hung : Bool := false
  /-- parallelism of the executor (only `runw` depends on it) -/
  par : Nat := 1

def evalFuel (defs : Defs) : Nat := 4 * (defs.length + 2) * (defs.length + 2) + 8

def showKeysAbs (c : CSt) : String := "keys=" ++ joinNats (sortDedup (c.done.map (·.1)))

def fuelF (defs : Defs) : Nat := defs.length + 3
def bfsFuelF (defs : Defs) : Nat := (defs.length + 2) * (defs.length + 2)

/-- sequential-class `run` (one root) -/
def showRunSeq (m : FMState) (root : Key) : FMState × String :=
  let body := bodyOfF m.defs m.env
  match runF incrPatched body (fuelF m.defs) (bfsFuelF m.defs) none m.fst [root] with
  | .fuel => (m, "model-stuck")
  | .block => ({ m with hung := true }, "hang runs=0")
  | .ok st1 out =>
    let newLog := st1.s.log.drop m.fst.s.log.length
    let newObs0 := st1.s.obs.drop m.fst.s.obs.length
    let (rpart, newObs) := match out with
      | .failed p => (s!"E:pan{p}", newObs0.dropLast)      -- no results ⇒ no root observation
      | .results rs => (",".intercalate (rs.map (fun (p : Res × Bool) => showRes p.1 ++ (if p.2 then ":1" else ":0"))), newObs0)
    let (c, mx) := showChanged newObs
    ({ m with fst := st1, absValid := false },
      s!"r={rpart} x={showCounts newLog} c={c} m={mx} {showKeys st1.s m.defs}")

/-- parallel-class `run` / `runc` -/
def showRunPar (m : FMState) (groups : List (List Key)) : FMState × String :=
  match evalRoots m.defs m.env (evalFuel m.defs) m.abs groups.flatten with
  | (_, .fuel, _) => (m, "model-stuck")
  | (_, .panic _, _) => ({ m with seqValid := false, absValid := false }, "r=E:pan pk=ok")
  | (st1, .ok _, cs) =>
    let rec split : List (List Key) → List (Option Int) → List String
      | [], _ => []
      | g :: gs, cs => (if g.isEmpty then "-" else ",".intercalate ((cs.take g.length).map showCls)) :: split gs (cs.drop g.length)
    let newKeys := (st1.done.drop m.abs.done.length).map (·.1)
    ({ m with abs := st1, seqValid := false },
      s!"r={"|".intercalate (split groups cs)} cyc=ok x={showCounts newKeys} {showKeysAbs st1}")

/-- `runw k k b` : Run#1 = [k] is inside Execute(k) when Run#2 = [b] starts.
    parallelism ≥ 2: Run#2 runs until it parks on k, then k proceeds.
    parallelism 1: Run#1 holds the only permit, so Run#2 waits in its root `acquire` until Run#1
    has returned: the two runs happen one after the other. -/
def showRunW (m : FMState) (k b : Key) : FMState × String :=
  let body := bodyOfF m.defs m.env
  let fmt (st1 : FSt) (r1 r2 : String) (obs : List (Nat × Key × Bool)) : FMState × String :=
    let newLog := st1.s.log.drop m.fst.s.log.length
    let (c, mx) := showChanged obs
    ({ m with fst := st1, absValid := false },
      s!"r={r1}|{r2} x={showCounts newLog} c={c} m={mx} {showKeys st1.s m.defs}")
  let showOut (out : RunOut) : String := match out with
    | .failed p => s!"E:pan{p}"
    | .results rs => ",".intercalate (rs.map (fun (p : Res × Bool) => showRes p.1))
  let dropRootObs (out : RunOut) (obs : List (Nat × Key × Bool)) := match out with
    | .failed _ => obs.dropLast
    | .results _ => obs
  if m.par < 2 then
    match runF incrPatched body (fuelF m.defs) (bfsFuelF m.defs) none m.fst [k] with
    | .fuel => (m, "model-stuck")
    | .block => ({ m with hung := true }, "hang runs=0")
    | .ok sta outa =>
      let obsa := dropRootObs outa (sta.s.obs.drop m.fst.s.obs.length)
      match runF incrPatched body (fuelF m.defs) (bfsFuelF m.defs) none sta [b] with
      | .fuel => (m, "model-stuck")
      | .block => ({ m with hung := true }, "hang runs=1")
      | .ok stb outb =>
        let obsb := dropRootObs outb (stb.s.obs.drop sta.s.obs.length)
        fmt stb (showOut outa) (showOut outb) (obsa ++ obsb)
  else
  let g1 := m.fst.s.counter + 1
  -- Run#1: counter.Add(1), root Resolve creates task k
  let st0 : FSt := { m.fst with s := { m.fst.s with counter := g1, tasks := recordEdges m.fst.s.tasks none [k] } }
  match runF incrPatched body (fuelF m.defs) (bfsFuelF m.defs) (some (k, g1)) st0 [b] with
  | .fuel => (m, "model-stuck")
  | .block => ({ m with hung := true }, "hang runs=1")
  | .ok st1 out =>
    let newObs := dropRootObs out (st1.s.obs.drop m.fst.s.obs.length)
    match resultOf st1.s.tasks k with
    | .done r =>
      -- Run#2 parked on k, k completed under Run#1
      fmt st1 (showRes r.val) (showOut out) (newObs ++ [(g1, k, r.runID == g1)])
    | _ =>
      if (st1.s.log.drop m.fst.s.log.length).contains k then
        -- (patched executor only) k was executed under Run#1 and panicked; Run#2 then recomputed it
        fmt st1 s!"E:pan{k}" (showOut out) newObs
      else
      -- Run#2 never needed k: it completes on its own; afterwards Run#1 (still inside Execute(k))
      -- is let go and finishes alone
      match startF incrPatched body (bfsFuelF m.defs) none g1 (fuelF m.defs) { st1 with cancelled := none } none k with
      | .fuel => (m, "model-stuck")
      | .block => ({ m with hung := true }, "hang runs=0")
      | .ok st2 r =>
        let obs1 := st2.s.obs.drop st1.s.obs.length
        match st2.cancelled with
        | some p => fmt st2 s!"E:pan{p}" (showOut out) (newObs ++ obs1)
        | none => fmt st2 (showRes (seenRes r)) (showOut out) (newObs ++ obs1 ++ [(g1, k, seenChanged g1 r)])

def evictAbs (c : CSt) (ks : List Key) : CSt :=
  let cached : List (Key × List Key) := c.done.map (fun e => (e.1, e.2.2))
  let present := ks.filter (fun k => (cached.lookup k).isSome)
  let dead := dependentsLoop (cached.length + 1) cached present
  { done := c.done.filter (fun e => !dead.contains e.1) }

def incrFailStep (m : FMState) (line : String) : FMState × String :=
  match words line with
  | ["new", p] => match p.toNat? with
    | some pp => ({ m with fst := {}, abs := {}, seqValid := true, absValid := true, hung := false, par := pp }, "ok")
    | none => (m, "bad-op")
  | ws =>
  if m.hung then (m, "after-hang") else
  match ws with
  | "def" :: rest => match parseDef rest with
    | some (k, n) => ({ m with defs := (k, n) :: m.defs.filter (fun p => p.1 != k) }, "ok")
    | none => (m, "bad-op")
  | ["set", k, v] => match k.toNat?, v.toNat? with
    | some k, some v => ({ m with env := setEnv m.env k (Int.ofNat v) }, "ok")
    | _, _ => (m, "bad-op")
  | "evict" :: ks => match ks.mapM String.toNat? with
    | some ks =>
      let abs' := evictAbs m.abs ks
      match evict (4 ^ (m.defs.length + 1) + ks.length + 2) m.fst.s ks with
      | some s' =>
        let m' := { m with fst := { m.fst with s := s' }, abs := abs' }
        (m', if m.seqValid then showKeys s' m.defs else if m.absValid then showKeysAbs abs' else "model-mixed-case")
      | none => (m, "model-stuck")
    | none => (m, "bad-op")
  | "run" :: ks => match ks.mapM String.toNat? with
    | some ks =>
      if !(ks.all (fun k => (m.defs.lookup k).isSome)) then (m, "bad-op")
      else match ks with
        | [root] =>
          if seqDefs m.defs then (if m.seqValid then showRunSeq m root else (m, "model-mixed-case"))
          else (if m.absValid then showRunPar m [ks] else (m, "model-mixed-case"))
        | _ => if m.absValid then showRunPar m [ks] else (m, "model-mixed-case")
    | none => (m, "bad-op")
  | ["runc", gs] => match parseGroups gs with
    | some groups =>
      if groups.length < 2 || !(groups.all (·.all (fun k => (m.defs.lookup k).isSome))) then (m, "bad-op")
      else if m.absValid then showRunPar m groups else (m, "model-mixed-case")
    | none => (m, "bad-op")
  | ["runw", k, a, b] => match k.toNat?, parseInts a, parseInts b with
    | some k, some [a], some [b] =>
      if a != k || !(m.defs.lookup k).isSome || !(m.defs.lookup b).isSome || !seqDefs m.defs then (m, "bad-op")
      else if m.seqValid then showRunW m k b else (m, "model-mixed-case")
    | _, _, _ => (m, "bad-op")
  | "runp" :: ks => match ks.mapM String.toNat? with
    | some (k :: others) =>
      if !((k :: others).all (fun x => (m.defs.lookup x).isSome)) || others.isEmpty then (m, "bad-op")
      else if m.par != 1 || !m.seqValid then (m, "model-unsupported")
      else match runP incrPatched (bodyOfF m.defs m.env) (fuelF m.defs) (bfsFuelF m.defs) m.fst k others with
        | some (.ok st1 (.failed p)) =>
          let newLog := st1.s.log.drop m.fst.s.log.length
          ({ m with fst := st1, absValid := false }, s!"r=E:pan{p} x={showCounts newLog} c=- m=- {showKeys st1.s m.defs}")
        | _ => (m, "model-unsupported")
    | _ => (m, "bad-op")
  | ["runel", g, ks, ch, gs] => match g.toNat?, parseInts ks, parseChanges ch, parseGroups gs with
    | some g, some ks, some chs, some groups =>
      if !(m.defs.lookup g).isSome || groups.any (·.isEmpty) || !(groups.all (·.all (fun k => (m.defs.lookup k).isSome))) then (m, "bad-op") else
      if !m.absValid then (m, "model-mixed-case") else
      -- parallel class only: Run(g); eviction with its input changes; the late Runs
      let (m1, ansRun) := showRunPar m [[g]]
      if ansRun == "model-stuck" then (m, "model-stuck") else
      if ansRun.startsWith "r=E:" then (m, "model-unsupported") else
      let env' := chs.foldl (fun e (kv : Nat × Nat) => setEnv e kv.1 (Int.ofNat kv.2)) m1.env
      let m2 := { m1 with abs := evictAbs m1.abs ks, env := env' }
      let (m3, ansLate) := showRunPar m2 groups
      if ansLate == "model-stuck" then (m, "model-stuck") else
      if ansLate.startsWith "r=E:" then (m, "model-unsupported") else
      (m3, ((ansRun.splitOn " keys=").headD "") ++ " ;; " ++ ansLate)
    | _, _, _, _ => (m, "bad-op")
  | ["dump"] => if m.seqValid then (m, showDump m.fst.s m.defs) else (m, "model-mixed-case")
  | ["permits"] => (m, "free")
  | _ => (m, "bad-op")

/-! ### Property oracle (C34), evaluated on the implementation's answers

Independent of the executor model: it knows the query definitions and
 * a run must return (`hang` / an escaped Go panic fail);
 * a reported cycle must be a cycle of the query graph: consecutive keys are joined by an edge of
   the definitions and it ends where it starts (no false cycle; the error names the cycle);
 * the outcome of each root must have the class of the reference evaluation on the current
   inputs: the value, or a failure when the evaluation runs into a cycle or a fatal query;
 * when the reference evaluation hits a panicking query the run must fail with an `ErrPanic`
   for a query that does panic — a run that instead returns a memoized `ErrPanic` as a query
   result means the panic was cached;
 * after a panic the panicking query is not among the memoized keys;
 * all semaphore permits are free after every run. -/

def staticEdge (defs : Defs) (a b : Key) : Bool :=
  match defs.lookup a with
  | some n => n.steps.any (fun st => st.keys.contains b)
  | none => false

def validCycle (defs : Defs) (path : List Key) : Bool :=
  let rec edges : List Key → Bool
    | a :: b :: rest => staticEdge defs a b && edges (b :: rest)
    | _ => true
  path.length ≥ 2 && path.head? == path.getLast? && edges path

/-- the cycles `cyc[a>b>a]` quoted in an answer -/
def cyclesIn (ans : String) : List (List Key) :=
  ((ans.splitOn "cyc[").drop 1).filterMap (fun t =>
    match t.splitOn "]" with
    | inner :: _ => (inner.splitOn ">").mapM String.toNat?
    | [] => none)

structure FSState where
  defs : Defs := []
  env : Env := []
  /-- queries that panicked in the most recent failed run and have not been evicted since -/
  panicked : List Key := []
  diverged : Bool := false

def isPanicNode (defs : Defs) (env : Env) (k : Key) : Bool :=
  match defs.lookup k with
  | some n => (n.panicStart || n.panicEnd) && envOf env k % 2 == 0
  | none => false

def specFailRun (s : FSState) (groups : List (List Key)) (ans : String) : FSState × String :=
  if ans.startsWith "hang" then ({ s with diverged := true }, s!"fails run-did-not-return [{ans}]")
  else if (ans.splitOn "PANIC:").length > 1 then ({ s with diverged := true }, s!"fails run-panicked-the-caller [{ans}]")
  else
  match field ans "r" with
  | none => ({ s with diverged := true }, s!"fails run-did-not-return-results [{ans}]")
  | some r =>
    let bad := (cyclesIn ans).filter (fun c => !validCycle s.defs c)
    if !bad.isEmpty then ({ s with diverged := true }, s!"fails reported-cycle-is-not-a-cycle-of-the-query-graph [{r}]")
    else if field ans "cyc" == some "bad" then ({ s with diverged := true }, "fails reported-cycle-is-not-a-cycle-of-the-query-graph (checked in harness)")
    else if s.diverged then (s, "skip")
    else
    -- reference evaluation of every root from scratch on the current inputs
    let fuel := evalFuel s.defs
    let perRun := groups.map (fun g => evalRoots s.defs s.env fuel {} g)
    let got := r.splitOn "|"
    if got.length != groups.length then ({ s with diverged := true }, s!"fails run-did-not-return-results [{ans}]")
    else
    let verdicts := (perRun.zip got).map (fun (ref, gotRun) =>
      match ref with
      | (_, .fuel, _) => "skip"
      | (_, .panic _, _) =>
        if gotRun.startsWith "E:pan" then
          (match (gotRun.drop 5).toString.toNat? with
           | some k => if isPanicNode s.defs s.env k then "holds" else s!"fails panic-error-names-a-query-that-does-not-panic [{gotRun}]"
           | none =>
             -- parallel class: the blamed query follows " ~ " (schedule-dependent)
             match (ans.splitOn " ~ pan").getLast?.bind (fun t => t.toNat?) with
             | some k => if isPanicNode s.defs s.env k then "holds" else s!"fails panic-error-names-a-query-that-does-not-panic [pan{k}]"
             | none => if field ans "pk" == some "ok" then "holds" else s!"fails panic-error-names-a-query-that-does-not-panic [{gotRun}]")
        else if (gotRun.splitOn "pan").length > 1 then
          s!"fails panic-memoized: a run served a cached ErrPanic instead of failing with a panic error [{gotRun}]"
        else s!"fails panicking-query-did-not-fail-the-run [{gotRun}]"
      | (_, .ok _, cs) =>
        let gs := gotRun.splitOn ","
        if gotRun.startsWith "E:" then s!"fails run-failed-without-a-panicking-query [{gotRun}]"
        else if gs.length != cs.length then s!"fails run-did-not-return-results [{gotRun}]"
        else
          let mism := (cs.zip gs).filter (fun (c, g) =>
            let g0 := (g.splitOn ":").headD ""
            match c with
            | some v => g0 != s!"v{v}"
            | none => g0.startsWith "v")
          let poisoned := gs.any (fun g => g.startsWith "pan")
          if poisoned then s!"fails panic-memoized: a run served a cached ErrPanic as a query result [{gotRun}]"
          else if mism.isEmpty then "holds"
          else s!"fails outcome-differs-from-fresh-evaluation got[{gotRun}] want[{",".intercalate (cs.map showCls)}]")
    let fails := verdicts.filter (·.startsWith "fails")
    let nowPanicked : List Key := if r.startsWith "E:pan" then
        (match (r.drop 5).toString.toNat? with | some k => [k] | none => []) else []
    let s' := { s with panicked := nowPanicked ++ s.panicked }
    match fails with
    | f :: _ => ({ s' with diverged := true }, f)
    | [] =>
      -- the panicking query itself must not be memoized
      match field ans "keys" with
      | some ks =>
        let keys := (parseInts ks).getD []
        match nowPanicked.find? keys.contains with
        | some k => ({ s' with diverged := true }, s!"fails panicking-query-memoized key={k}")
        | none => (s', if verdicts.all (· == "skip") then "skip" else "holds")
      | none => (s', if verdicts.all (· == "skip") then "skip" else "holds")

def incrFailSpec (s : FSState) (line ans : String) : FSState × String :=
  if ans == "after-hang" then (s, "skip") else
  match words line with
  | ["new", _] => ({ s with panicked := [], diverged := false }, "skip")
  | "def" :: rest => match parseDef rest with
    | some (k, n) => ({ s with defs := (k, n) :: s.defs.filter (fun p => p.1 != k) }, "skip")
    | none => (s, "skip")
  | ["set", k, v] => match k.toNat?, v.toNat? with
    | some k, some v => ({ s with env := setEnv s.env k (Int.ofNat v) }, "skip")
    | _, _ => (s, "skip")
  | "evict" :: _ => (s, "skip")
  | "run" :: ks => match ks.mapM String.toNat? with
    | some ks => specFailRun s [ks] ans
    | none => (s, "skip")
  | ["runc", gs] => match parseGroups gs with
    | some groups => specFailRun s groups ans
    | none => (s, "skip")
  | ["runw", _, a, b] => match parseInts a, parseInts b with
    | some a, some b => specFailRun s [a, b] ans
    | _, _ => (s, "skip")
  | "runp" :: ks => match ks.mapM String.toNat? with
    | some ks => specFailRun s [ks] ans
    | none => (s, "skip")
  | ["runel", g, _, ch, gs] => match g.toNat?, parseChanges ch, parseGroups gs with
    | some g, some chs, some groups =>
      if ans.startsWith "hang" then ({ s with diverged := true }, s!"fails run-did-not-return behind-pending-evict [{ans}]")
      else
        -- the in-flight Run on the old inputs, the late Runs on the changed ones; the cycles quoted
        -- after " ~ " belong to either
        let (body, tail) : String × String := match ans.splitOn " ~ " with
          | [b] => (b, "")
          | b :: rest => (b, " ~ " ++ " ~ ".intercalate rest)
          | [] => ("", "")
        (match body.splitOn " ;; " with
        | [a, b] =>
          let (s1, v1) := specFailRun s [[g]] (a ++ tail)
          let s2 := { s1 with env := chs.foldl (fun e (kv : Nat × Nat) => setEnv e kv.1 (Int.ofNat kv.2)) s1.env }
          if v1.startsWith "fails" then (s2, v1)
          else
            let (s3, v2) := specFailRun s2 groups (b ++ tail)
            (s3, if v2.startsWith "fails" then v2 else if v1 == "holds" || v2 == "holds" then "holds" else "skip")
        | _ => specFailRun s ([g] :: groups) ans)
    | _, _, _ => (s, "skip")
  | ["permits"] => if ans == "free" then (s, "holds") else (s, s!"fails semaphore-permits-not-released [{ans}]")
  | _ => (s, "skip")

/-! ## Engine `incr_queries` (C35): the real File/AST/IR/Link queries under edit histories

Model side: the executor model `PCV.IncrFail` (it handles the self-dependency of
IR{descriptor.proto}) instantiated with the dependency structure `PCV.IncrQueries.qBody`.
It predicts, for every recompilation, that the long-lived executor agrees with a brand-new one
(the conclusion of `PCV.Props.C35.edit_then_evict_eq_batch`) and which queries are memoized
after every eviction and run, and the deps/callers edges. -/

open PCV.IncrQueries

structure QMState where
  env : List (Nat × Nat) := []
  table : List (Nat × Content) := []
  nextId : Nat := 0
  wss : List (List Nat) := []
  paths : List Nat := []
  fst : FSt := {}
  /-- (path, number of executions of IR{path} when the FDP task was created, ordinal) -/
  fdpLabels : List (Nat × Nat × Nat) := []
  /-- workspace ↦ FDP keys its FDS resolves at present -/
  plans : List (Nat × List Key) := []

def qTable (m : QMState) : Nat → Content := fun id => (m.table.lookup id).getD { path := 0, imports := [] }
def qWss (m : QMState) : Nat → List Nat := fun w => m.wss.getD w []
def qEnv (m : QMState) : Nat → Option Nat := fun p => m.env.lookup p

def qBodyOf (m : QMState) : Key → Script :=
  qBodyFds (fun w => (m.plans.lookup w).getD []) (qBody true (qTable m) (qWss m) (qEnv m))

def qKeyName (m : QMState) (k : Key) : String :=
  let p := k / 8
  match k % 8 with
  | 0 => s!"F0:{p}"
  | 1 => s!"F1:{p}"
  | 2 => s!"A:{p}"
  | 3 => s!"I:{p}"
  | 4 => "L:" ++ "+".intercalate ((qWss m p).map toString)
  | 6 => "S:" ++ "+".intercalate ((qWss m p).map toString)
  | 7 => s!"P:{p % 4096}#{p / 4096}"
  | _ => "Z"

def qUniverse (m : QMState) : List Key :=
  let ps := sortDedup (0 :: m.paths)
  ps.flatMap (fun p => [qk 0 p, qk 1 p, qk 2 p, qk 3 p]) ++ (List.range m.wss.length).map qL ++ [qZ]
    ++ (List.range m.wss.length).map qS ++ m.fdpLabels.map (fun l => qP l.1 l.2.2)

/-- insertion sort of strings (Go's sort.Strings order = byte order; all names are ASCII) -/
def insertStr (s : String) : List String → List String
  | [] => [s]
  | x :: xs => if s < x then s :: x :: xs else x :: insertStr s xs

def sortStrs (xs : List String) : List String := xs.foldl (fun acc s => insertStr s acc) []

def qShowKeys (m : QMState) : String :=
  let ks := (doneKeys m.fst.s (qUniverse m)).map (qKeyName m)
  if ks.isEmpty then "keys=-" else "keys=" ++ ",".intercalate (sortStrs ks)

def qShowDump (m : QMState) : String :=
  let parts := (qUniverse m).filterMap (fun k =>
    match m.fst.s.tasks.get k with
    | none => none
    | some t =>
      let st := match t.result with | .none => "n" | .pending => "p" | .done _ => "d"
      let names (l : List Key) : String :=
        let ns := sortStrs ((sortDedup l).map (qKeyName m))
        if ns.isEmpty then "-" else ",".intercalate ns
      some s!"{qKeyName m k}[{st}]d={names t.deps};c={names t.callers}")
  if parts.isEmpty then "tasks -" else "tasks " ++ " ".intercalate (sortStrs parts)

def qShape : String :=
  "shape ast.go:r:File fdp.go:-:- fds.go:r:FDP,Link file.go:or:- ir.go:r:AST,File,IR,ZeroQuery link.go:r:IR queries.go:-:-"

def qFuel (m : QMState) : Nat := 6 * (m.paths.length + 3)
def qBfsFuel (m : QMState) : Nat := 40 * (m.paths.length + m.wss.length + 3) * (m.paths.length + 3)

def incrQueriesStep (m : QMState) (line : String) : QMState × String :=
  match words line with
  | ["shape"] => (m, qShape)
  | ["new", p] => match p.toNat? with
    | some _ => ({ m with fst := {}, wss := [], fdpLabels := [], plans := [] }, "ok")
    | none => (m, "bad-op")
  | ["put", i, imps, v] => match i.toNat?, parseInts imps, v.toNat? with
    | some i, some imps, some _ =>
      if i < 1 || imps.any (· < 1) then (m, "bad-op") else
      ({ m with env := (i, m.nextId) :: m.env.filter (fun p => p.1 != i),
                table := (m.nextId, { path := i, imports := imps }) :: m.table,
                nextId := m.nextId + 1,
                paths := sortDedup (i :: imps ++ m.paths) }, "ok")
    | _, _, _ => (m, "bad-op")
  | ["putx", i, imps, errs] => match i.toNat?, parseInts imps with
    | some i, some imps =>
      -- an invalid file: only its import statements matter to the dependency structure; every
      -- `m` token adds an import of a file that never exists (paths 1000*i + n)
      if i < 1 || imps.any (· < 1) || !(errs == "-" || errs.toList.all (fun c => "lsudtnm".toList.contains c)) then (m, "bad-op") else
      let missing := (List.range (errs.toList.filter (· == 'm')).length).map (fun n => 1000 * i + n)
      let allImps := imps ++ missing
      ({ m with env := (i, m.nextId) :: m.env.filter (fun p => p.1 != i),
                table := (m.nextId, { path := i, imports := allImps }) :: m.table,
                nextId := m.nextId + 1,
                paths := sortDedup (i :: allImps ++ m.paths) }, "ok")
    | _, _ => (m, "bad-op")
  | ["del", i] => match i.toNat? with
    | some i => if i < 1 then (m, "bad-op") else ({ m with env := m.env.filter (fun p => p.1 != i), paths := sortDedup (i :: m.paths) }, "ok")
    | none => (m, "bad-op")
  | "evict" :: is => match is.mapM String.toNat? with
    | some is =>
      if is.any (· < 1) then (m, "bad-op") else
      match evict (4 ^ 12 + 64) m.fst.s (is.map (qk 0)) with
      | some s' =>
        let m' := { m with fst := { m.fst with s := s' }, paths := sortDedup (is ++ m.paths) }
        (m', qShowKeys m')
      | none => (m, "model-stuck")
    | none => (m, "bad-op")
  | ["link", is] => match parseInts is with
    | some ws =>
      if ws.isEmpty || ws.any (· < 1) then (m, "bad-op") else
      let (w, m1) := match m.wss.findIdx? (· == ws) with
        | some w => (w, m)
        | none => (m.wss.length, { m with wss := m.wss ++ [ws], paths := sortDedup (ws ++ m.paths) })
      match runF incrPatched (qBodyOf m1) (qFuel m1) (qBfsFuel m1) none m1.fst [qL w] with
      | .fuel => (m1, "model-stuck")
      | .block => (m1, "model-block")
      | .ok st1 _ =>
        -- then Run(FDS{w}): which FDP tasks it asks for depends on the IR file OBJECTS now current
        let linkOk := match resultOf st1.s.tasks (qL w) with
          | .done r => isOk r.val
          | _ => false
        let fileOk (p : Nat) : Bool := match resultOf st1.s.tasks (qk 0 p) with
          | .done r => isOk r.val
          | _ => false
        let importsOf (p : Nat) : List Nat := match resultOf st1.s.tasks (qk 3 p) with
          | .done r => (match r.val with
            | .ok id => ((qTable m1 id.toNat).imports).filter fileOk
            | _ => [])
          | _ => []
        let rec closure : Nat → List Nat → List Nat → List Nat
          | 0, _, acc => acc
          | _ + 1, [], acc => acc
          | f + 1, p :: rest, acc =>
            if acc.contains p then closure f rest acc else closure f (importsOf p ++ rest) (acc ++ [p])
        let files := if linkOk then closure (64 * (m1.paths.length + 2)) ws [] else []
        let (labels, pkeys) := files.foldl (fun (acc : List (Nat × Nat × Nat) × List Key) p =>
          let gen := (st1.s.log.filter (· == qk 3 p)).length
          match acc.1.find? (fun l => l.1 == p && l.2.1 == gen) with
          | some l => (acc.1, acc.2 ++ [qP p l.2.2])
          | none =>
            let ord := (acc.1.filter (fun l => l.1 == p)).length + 1
            (acc.1 ++ [(p, gen, ord)], acc.2 ++ [qP p ord])) (m1.fdpLabels, [])
        let m2 := { m1 with fst := st1, fdpLabels := labels, plans := (w, pkeys) :: m1.plans.filter (fun q => q.1 != w) }
        match runF incrPatched (qBodyOf m2) (qFuel m2) (qBfsFuel m2) none m2.fst [qS w] with
        | .fuel => (m2, "model-stuck")
        | .block => (m2, "model-block")
        | .ok st2 _ =>
          let m3 := { m2 with fst := st2 }
          -- C35: the long-lived executor returns what a brand-new executor returns
          (m3, "agree " ++ qShowKeys m3)
    | none => (m, "bad-op")
  | ["dump"] => (m, qShowDump m)
  | _ => (m, "bad-op")

/-! ### Property oracle (C35) on the implementation's answers: after any history of edits in
which every changed or deleted file was evicted before the next compilation, the long-lived
executor's descriptors and diagnostics equal those of a brand-new executor on the current files
(the comparison itself is done on the real outputs in the harness: link fatal error, number of
files, rendered diagnostics, serialized FileDescriptorSet). The inspected dependency shape of
the query sources must be the one the model assumes. -/

structure QSState where
  dirty : List Nat := []

def incrQueriesSpec (s : QSState) (line ans : String) : QSState × String :=
  match words line with
  | ["shape"] => (s, if ans == qShape then "holds" else s!"fails query-dependency-shape-changed [{ans}]")
  | ["new", _] => ({ s with dirty := [] }, "skip")     -- a new executor has nothing memoized
  | ["put", i, _, _] => match i.toNat? with
    | some i => ({ s with dirty := i :: s.dirty }, "skip")
    | none => (s, "skip")
  | ["del", i] => match i.toNat? with
    | some i => ({ s with dirty := i :: s.dirty }, "skip")
    | none => (s, "skip")
  | ["putx", i, _, _] => match i.toNat? with
    | some i => ({ s with dirty := i :: s.dirty }, "skip")
    | none => (s, "skip")
  | "evict" :: is => match is.mapM String.toNat? with
    | some is => ({ s with dirty := s.dirty.filter (fun d => !is.contains d) }, "skip")
    | none => (s, "skip")
  | ["link", _] =>
    if !s.dirty.isEmpty then (s, "skip")
    else if ans.startsWith "agree" && (ans.splitOn "err=").length == 1 then (s, "holds")
    else (s, s!"fails incremental-result-differs-from-fresh-compilation [{(ans.splitOn " keys=").headD ""}]")
  | _ => (s, "skip")

/-! ## Engine `incr_diag` (C36, executor clause): the diagnostics a compilation reports are the
same ordered list for repeated runs on one executor, for every parallelism and for every forced
lowering order (queries.IR run for the files one by one, in a given permutation, on a fresh
executor and session before the Link/FDS queries).

The model does not predict diagnostics: `diag` answers `ran`; what the harness observed follows
` ~ ` and is judged by the oracle only. -/

def incrDiagStep (u : Unit) (line : String) : Unit × String :=
  let okNat (t : String) : Bool := (t.toNat?).isSome
  match words line with
  | ["new", p] => (u, if okNat p then "ok" else "bad-op")
  | ["put", i, imps, v] => (u, if okNat i && (parseInts imps).isSome && okNat v then "ok" else "bad-op")
  | ["putx", i, imps, errs] =>
    (u, if okNat i && (parseInts imps).isSome && (errs == "-" || errs.toList.all (fun c => "lsudtnm".toList.contains c)) then "ok" else "bad-op")
  | ["putd", i, imps, pkg, decls] =>
    -- a proto2 file built from declarations M<Name>[:members] / X<Name> / E<Ref>:<field>=<num>
    let identOk (t : String) : Bool := match t.toList with
      | [] => false
      | c :: cs => c.isAlpha && cs.all (fun d => d.isAlphanum || d == '_')
    let lowerOk (t : String) : Bool := match t.toList with
      | [] => false
      | c :: cs => c.isLower && cs.all (fun d => d.isLower || d.isDigit || d == '_')
    let refOk (t : String) : Bool := (t.splitOn ".").all identOk
    let declOk (d : String) : Bool :=
      match d.toList with
      | k :: rest =>
        let body := String.ofList rest
        (match k, body.splitOn ":" with
        | 'M', [n] => identOk n
        | 'M', [n, ms] => identOk n && (ms.splitOn ",").all identOk
        | 'X', [n] => identOk n
        | 'E', [x, fn] => (match fn.splitOn "=" with
          | [f, num] => refOk x && identOk f && (match num.toNat? with
            | some v => v ≥ 1 && v ≤ 536870911
            | none => false)
          | _ => false)
        | _, _ => false)
      | [] => false
    let impsOk := match parseInts imps with
      | some l => l.all (· ≥ 1)
      | none => false
    let iOk := match i.toNat? with
      | some v => v ≥ 1
      | none => false
    (u, if iOk && impsOk && (pkg == "-" || (pkg.splitOn ".").all lowerOk) && (decls.splitOn ";").all declOk then "ok" else "bad-op")
  | ["del", i] => (u, if okNat i then "ok" else "bad-op")
  | "evict" :: is => (u, if is.all okNat then "ok" else "bad-op")
  | ["diag", ws, reps] => match parseInts ws, reps.toNat? with
    | some l, some k => (u, if !l.isEmpty && l.all (· ≥ 1) && k ≥ 1 && k ≤ 16 then "ran" else "bad-op")
    | _, _ => (u, "bad-op")
  | _ => (u, "bad-op")

def incrDiagSpec (u : Unit) (line ans : String) : Unit × String :=
  match words line with
  | ["diag", _, _] =>
    match ans.splitOn " ~ " with
    | [_, obs] =>
      -- a difference the harness could attribute carries ` cause=<name> `; it is part of the verdict class
      let cause : String := match obs.splitOn " cause=" with
        | _ :: c :: _ => " cause=" ++ ((c.splitOn " ").headD "")
        | _ => ""
      if obs.startsWith "same " then (u, "holds")
      else if obs.startsWith "differ:runs" then (u, s!"fails diagnostics-differ-between-runs{cause} [{obs}]")
      else if obs.startsWith "differ:parallelism" then (u, s!"fails diagnostics-differ-between-parallelism{cause} [{obs}]")
      else if obs.startsWith "differ:lowering-order" then (u, s!"fails diagnostics-differ-between-lowering-orders{cause} [{obs}]")
      else if obs.startsWith "tieorder:runs" then (u, s!"fails diagnostics-order-of-key-ties-differs-between-runs [{obs}]")
      else if obs.startsWith "tieorder:parallelism" then (u, s!"fails diagnostics-order-of-key-ties-differs-between-parallelism [{obs}]")
      else if obs.startsWith "tieorder:lowering-order" then (u, s!"fails diagnostics-order-of-key-ties-differs-between-lowering-orders [{obs}]")
      else (u, s!"fails compilation-did-not-return [{obs}]")
    | _ => (u, s!"fails compilation-did-not-return [{ans}]")
  | _ => (u, "skip")

end PCV.Engines.IncrE

namespace PCV.Engines
def incr : Engine :=
  { σ := IncrE.MState, init := {}, step := IncrE.incrStep, τ := IncrE.SState, specInit := {}, spec := IncrE.incrSpec }
def incr_fail : Engine :=
  { σ := IncrE.FMState, init := {}, step := IncrE.incrFailStep, τ := IncrE.FSState, specInit := {}, spec := IncrE.incrFailSpec }
def incr_queries : Engine :=
  { σ := IncrE.QMState, init := {}, step := IncrE.incrQueriesStep, τ := IncrE.QSState, specInit := {}, spec := IncrE.incrQueriesSpec }
def incr_diag : Engine :=
  { σ := Unit, init := (), step := IncrE.incrDiagStep, τ := Unit, specInit := (), spec := IncrE.incrDiagSpec }
end PCV.Engines
